(* C16, mark-to-market clause, part 2: from one cell to the account.

   Part A  an account's postings split by commodity (values, counts)
   Part B  ValuationSpec.held_commodities: duplicate-free, exactly the commodities booked on the account
   Part C  the step count: sum of the per-cell allowances <= ValuationSpec.step_bound dl a W T for a window [W, T] holding the journal
   Part D  within_bound (decimals) from the rational inequality
   Part E  the account total of the days handed to Transcode against ValuationSpec.market_value
   Part F  the same on the emitted ledger: Spec.BeancountMtmSpec.mtm_check finds nothing *)
From Coq Require Import ZArith QArith Qabs List Bool Lia Permutation Sorting.Sorted.
From Knut Require Import Model.Str Model.Dec Model.Date Model.Account Model.Ledger Model.Price
     Model.Journal Model.Check Model.Pipeline Model.Table Model.Report Model.Cli Model.Beancount Model.CliTranscode
     Spec.DateSpec Spec.WellformedSpec Spec.LedgerSpec Spec.LedgerSyntax Spec.MarkToMarketSpec
     Spec.PriceSpec Spec.PriceDaySpec Spec.ValuationSpec Spec.MarkToMarketReportSpec
     Spec.BeancountSpec Spec.BeancountErase Spec.BeancountMtmSpec Spec.TranscodeMtmSpec
     Proofs.DecProofs Proofs.DecValue Proofs.CheckLemmas Proofs.CheckProofs Proofs.PairProofs
     Proofs.DateProofs Proofs.BuilderProofs Proofs.StableSort Proofs.BeancountProofs
     Proofs.LedgerProofs Proofs.CloseProofs Proofs.PriceDayProofs Proofs.ValuationProofs
     Proofs.MarkToMarket Proofs.MarkToMarketReport Proofs.MarkToMarketWindow Proofs.MarkToMarketJournal
     Proofs.MarkToMarketFinal Proofs.MarkToMarketRow Proofs.TranscodeMtmCell.
Import ListNotations.
Open Scope Q_scope.

(* ------------------------------------------------------------ Part A: split by commodity *)

(* sum of w over the postings on account a *)
Definition acct_sum (w : posting -> Q) (a : account) (l : list posting) : Q :=
  vsum (fun p => if acc_eqb (p_acc p) a then w p else 0) l.
Definition cell_sum (w : posting -> Q) (a : account) (c : commodity) (l : list posting) : Q :=
  vsum (fun p => if cellb a c p then w p else 0) l.

Lemma lsum_add {A} (f g : A -> Q) l : lsum (fun x => f x + g x) l == lsum f l + lsum g l.
Proof. unfold LedgerProofs.qsum. induction l as [|x l IH]; cbn [fold_right]; [ring|]. rewrite IH. ring. Qed.

Lemma lsum_indicator (x : commodity) (r : Q) : forall coms, NoDup coms -> In x coms ->
  lsum (fun c => if str_eqb x c then r else 0) coms == r.
Proof.
  unfold LedgerProofs.qsum. induction coms as [|c coms IH]; intros Hnd Hin; [destruct Hin|].
  inversion Hnd as [|? ? Hc Hnd']; subst. cbn [fold_right]. destruct Hin as [->|Hin].
  - rewrite str_eqb_refl.
    assert (Z0 : fold_right (fun c acc => (if str_eqb x c then r else 0) + acc) 0 coms == 0).
    { apply (LedgerProofs.qsum_zero (fun c => if str_eqb x c then r else 0)). intros y Hy.
      destruct (str_eqb x y) eqn:E; [|reflexivity]. apply str_eqb_eq in E. subst y. contradiction. }
    rewrite Z0. ring.
  - destruct (str_eqb x c) eqn:E; [apply str_eqb_eq in E; subst c; contradiction|].
    rewrite (IH Hnd' Hin). ring.
Qed.

Lemma split_by_com (w : posting -> Q) a coms : NoDup coms -> forall l,
  Forall (fun p => acc_eqb (p_acc p) a = true -> In (p_com p) coms) l ->
  acct_sum w a l == lsum (fun c => cell_sum w a c l) coms.
Proof.
  intros Hnd. induction l as [|p l IH]; intros Hin.
  - unfold acct_sum, cell_sum. cbn [MarkToMarketSpec.qsum]. symmetry. apply LedgerProofs.qsum_zero. intros; reflexivity.
  - inversion Hin as [|? ? Hp Hrest]; subst. unfold acct_sum, cell_sum in *. cbn [MarkToMarketSpec.qsum].
    rewrite (lsum_add (fun c => if cellb a c p then w p else 0)), <- (IH Hrest).
    apply Qplus_comp; [|reflexivity]. unfold cellb. destruct (acc_eqb (p_acc p) a) eqn:E; cbn [andb].
    + symmetry. apply lsum_indicator; [exact Hnd|apply Hp; reflexivity].
    + symmetry. apply LedgerProofs.qsum_zero. intros; reflexivity.
Qed.

Lemma cell_value_sum a c l : cell_value a c l = cell_sum (fun p => dvalue (p_val p)) a c l.
Proof. reflexivity. Qed.

Lemma cell_count_sum a c l : inject_Z (cell_count a c l) == cell_sum (fun _ => 1) a c l.
Proof.
  unfold cell_sum. induction l as [|p l IH]; cbn [cell_count MarkToMarketSpec.qsum]; [reflexivity|].
  rewrite inject_Z_plus, IH. destruct (cellb a c p); reflexivity.
Qed.

(* number of postings on account a *)
Fixpoint acct_count (a : account) (l : list posting) : Z :=
  match l with [] => 0%Z | p :: r => ((if acc_eqb (p_acc p) a then 1 else 0) + acct_count a r)%Z end.

Lemma acct_count_sum a l : inject_Z (acct_count a l) == acct_sum (fun _ => 1) a l.
Proof.
  unfold acct_sum. induction l as [|p l IH]; cbn [acct_count MarkToMarketSpec.qsum]; [reflexivity|].
  rewrite inject_Z_plus, IH. destruct (acc_eqb (p_acc p) a); reflexivity.
Qed.

Fixpoint zsum {A} (f : A -> Z) (l : list A) : Z := match l with [] => 0%Z | x :: r => (f x + zsum f r)%Z end.

Lemma zsum_inject {A} (f : A -> Z) l : inject_Z (zsum f l) == lsum (fun x => inject_Z (f x)) l.
Proof.
  unfold LedgerProofs.qsum. induction l as [|x l IH]; cbn [zsum fold_right]; [reflexivity|].
  rewrite inject_Z_plus, IH. reflexivity.
Qed.

Lemma count_by_com a coms l : NoDup coms ->
  Forall (fun p => acc_eqb (p_acc p) a = true -> In (p_com p) coms) l ->
  zsum (fun c => cell_count a c l) coms = acct_count a l.
Proof.
  intros Hnd Hin.
  assert (E : inject_Z (zsum (fun c => cell_count a c l) coms) == inject_Z (acct_count a l)).
  { rewrite zsum_inject, acct_count_sum, (split_by_com (fun _ => 1) a coms Hnd l Hin).
    apply LedgerProofs.qsum_ext. intros c _. apply cell_count_sum. }
  unfold Qeq in E. cbn in E. lia.
Qed.

(* ------------------------------------------------------------ Part B: held_commodities *)

Definition com_lt (x y : commodity) : Prop := str_cmp x y = Lt.

Lemma insert_com_in c x : forall l, In x (insert_com c l) <-> x = c \/ In x l.
Proof.
  induction l as [|y l IH]; cbn [insert_com].
  - split; [intros [H|[]]; left; symmetry; exact H|intros [->|[]]; left; reflexivity].
  - destruct (str_cmp c y) eqn:E.
    + apply CheckLemmas.str_cmp_eq in E. subst y. split; [intros H; right; exact H|intros [->|H]; [left; reflexivity|exact H]].
    + split; [intros [H|H]; [left; symmetry; exact H|right; exact H]|intros [->|H]; [left; reflexivity|right; exact H]].
    + cbn [In]. rewrite IH. tauto.
Qed.

Lemma insert_com_sorted c : forall l, StronglySorted com_lt l -> StronglySorted com_lt (insert_com c l).
Proof.
  induction l as [|y l IH]; intros Hs; cbn [insert_com]; [repeat constructor|].
  inversion Hs as [|? ? Hs' Hall]; subst. destruct (str_cmp c y) eqn:E.
  - exact Hs.
  - constructor; [exact Hs|]. constructor; [exact E|].
    eapply Forall_impl; [|exact Hall]. intros z Hz. unfold com_lt in *. eapply CheckLemmas.str_cmp_lt_trans; eassumption.
  - constructor; [exact (IH Hs')|]. apply Forall_forall. intros z Hz. apply insert_com_in in Hz. destruct Hz as [->|Hz].
    + unfold com_lt. rewrite CheckLemmas.str_cmp_antisym, E. reflexivity.
    + rewrite Forall_forall in Hall. exact (Hall z Hz).
Qed.

Lemma sorted_nodup l : StronglySorted com_lt l -> NoDup l.
Proof.
  induction 1 as [|x l Hs IH Hall]; constructor; [|exact IH].
  intros Hin. rewrite Forall_forall in Hall. exact (CheckLemmas.str_cmp_lt_irrefl x (Hall x Hin)).
Qed.

Lemma held_fold a : forall posts acc, StronglySorted com_lt acc ->
  let r := fold_left (fun l (dp : Z * posting) => let '(_, p) := dp in if acc_eqb (p_acc p) a then insert_com (p_com p) l else l) posts acc in
  StronglySorted com_lt r /\
  (forall x, In x r <-> In x acc \/ exists d p, In (d, p) posts /\ acc_eqb (p_acc p) a = true /\ p_com p = x).
Proof.
  induction posts as [|[d p] posts IH]; intros acc Hs; cbn [fold_left].
  - split; [exact Hs|]. intros x. split; [intros H; left; exact H|intros [H|(d & p & [] & _)]; exact H].
  - destruct (acc_eqb (p_acc p) a) eqn:E.
    + destruct (IH (insert_com (p_com p) acc) (insert_com_sorted _ _ Hs)) as [I1 I2]. split; [exact I1|].
      intros x. rewrite I2, insert_com_in. split.
      * intros [[->|H]|(d' & p' & Hin & Ha & Hc)]; [right; exists d, p; repeat split; [left; reflexivity|exact E]|left; exact H|].
        right. exists d', p'. repeat split; [right; exact Hin|exact Ha|exact Hc].
      * intros [H|(d' & p' & [Heq|Hin] & Ha & Hc)]; [left; right; exact H| |].
        -- injection Heq as <- <-. left. left. symmetry. exact Hc.
        -- right. exists d', p'. repeat split; assumption.
    + destruct (IH acc Hs) as [I1 I2]. split; [exact I1|]. intros x. rewrite I2. split.
      * intros [H|(d' & p' & Hin & Ha & Hc)]; [left; exact H|]. right. exists d', p'. repeat split; [right; exact Hin|exact Ha|exact Hc].
      * intros [H|(d' & p' & [Heq|Hin] & Ha & Hc)]; [left; exact H| |].
        -- injection Heq as <- <-. congruence.
        -- right. exists d', p'. repeat split; assumption.
Qed.

Lemma held_nodup posts a : NoDup (held_commodities posts a).
Proof. apply sorted_nodup. apply (held_fold a posts []). constructor. Qed.

Lemma held_in posts a x :
  In x (held_commodities posts a) <-> exists d p, In (d, p) posts /\ acc_eqb (p_acc p) a = true /\ p_com p = x.
Proof.
  unfold held_commodities. rewrite (proj2 (held_fold a posts [] ltac:(constructor))).
  split; [intros [[]|H]; exact H|intros H; right; exact H].
Qed.

(* a commodity that is not held has no booking on the account *)
Lemma not_held_unbooked dl a c : ~ In c (held_commodities (flat_postings dl) a) -> cell_bookings dl a c = 0%Z.
Proof.
  intros Hn. unfold cell_bookings. rewrite filter_all_false; [reflexivity|].
  intros [d p] Hin. cbn [snd]. destruct (cellb a c p) eqn:E; [|reflexivity]. exfalso. apply Hn.
  unfold cellb in E. apply andb_true_iff in E. destruct E as [E1 E2]. apply str_eqb_eq in E2.
  apply held_in. exists d, p. repeat split; assumption.
Qed.

(* ------------------------------------------------------------ Part C: the step count *)
Open Scope Z_scope.

(* the allowance the per-cell theorems grant, summed over a list of commodities *)
Fixpoint com_steps (dl : list directive) (v : commodity) (a : account) (coms : list commodity) : Z :=
  match coms with
  | [] => 0
  | c :: rest => (if str_eqb c v then 0 else cell_bookings dl a c + Z.of_nat (length (WellformedSpec.dates dl)))
                 + com_steps dl v a rest
  end.

Lemma cell_bookings_count dl a c : cell_bookings dl a c = cell_count a c (map snd (flat_postings dl)).
Proof. unfold cell_bookings. rewrite cell_count_filter, filter_map_length. reflexivity. Qed.

Lemma com_steps_le dl v a coms :
  com_steps dl v a coms
  <= zsum (fun c => cell_count a c (map snd (flat_postings dl))) coms
     + Z.of_nat (length coms) * Z.of_nat (length (WellformedSpec.dates dl)).
Proof.
  induction coms as [|c coms IH]; cbn [com_steps zsum length]; [lia|].
  rewrite cell_bookings_count. pose proof (cell_count_nonneg a c (map snd (flat_postings dl))) as N.
  destruct (str_eqb c v); nia.
Qed.

Lemma directive_date_ddate d : directive_date d = ddate d.
Proof. destruct d; reflexivity. Qed.

Lemma flat_postings_date dl d p : In (d, p) (flat_postings dl) -> exists t, In (DTxn t) dl /\ d = t_date t.
Proof.
  unfold flat_postings. intros H. apply in_concat in H. destruct H as (l & Hl & Hin).
  apply in_map_iff in Hl. destruct Hl as (x & <- & Hx). destruct x; try destruct Hin.
  apply in_map_iff in Hin. destruct Hin as (q & E & _). injection E as <- _. exists t. split; [exact Hx|reflexivity].
Qed.

Lemma acct_bookings_window dl a W E :
  (forall d, In d dl -> W <= ddate d <= E) ->
  Z.of_nat (length (filter (fun dp : Z * posting => let '(d, p) := dp in (W <=? d) && (d <=? E) && acc_eqb (p_acc p) a) (flat_postings dl)))
  = acct_count a (map snd (flat_postings dl)).
Proof.
  intros Hw. assert (Hd : forall d p, In (d, p) (flat_postings dl) -> W <= d <= E).
  { intros d p Hin. destruct (flat_postings_date _ _ _ Hin) as (t & Ht & ->). exact (Hw _ Ht). }
  induction (flat_postings dl) as [|[d p] l IH]; [reflexivity|].
  cbn [filter map acct_count snd]. specialize (Hd d p (or_introl eq_refl)) as Hdp.
  replace (W <=? d) with true by lia. replace (d <=? E) with true by lia. cbn [andb].
  rewrite <- IH by (intros d' p' H'; apply (Hd d' p'); right; exact H').
  destruct (acc_eqb (p_acc p) a); cbn [length]; lia.
Qed.

(* the distinct dates step_bound collects contain every date of the journal that lies in the window *)
Definition sb_step (W E : Z) (l : list Z) (d : directive) : list Z :=
  let dt := match d with DPrice x _ _ _ | DOpen x _ | DClose x _ | DAssert x _ => x | DTxn t => t_date t end in
  if (W <=? dt) && (dt <=? E) && negb (existsb (Z.eqb dt) l) then dt :: l else l.

Lemma sb_step_in W E l d x : In x l -> In x (sb_step W E l d).
Proof. unfold sb_step. intros H. destruct (_ && _ && _); [right; exact H|exact H]. Qed.

Lemma sb_step_eq W E l d :
  sb_step W E l d = if (W <=? ddate d) && (ddate d <=? E) && negb (existsb (Z.eqb (ddate d)) l) then ddate d :: l else l.
Proof. destruct d; reflexivity. Qed.

Lemma sb_step_date W E l d : W <= ddate d <= E -> In (ddate d) (sb_step W E l d).
Proof.
  intros Hw. rewrite sb_step_eq.
  replace (W <=? ddate d) with true by lia. replace (ddate d <=? E) with true by lia. cbn [andb].
  destruct (existsb (Z.eqb (ddate d)) l) eqn:Ex; cbn [negb]; [|left; reflexivity].
  apply existsb_exists in Ex. destruct Ex as (y & Hy & Ey). apply Z.eqb_eq in Ey. subst y. exact Hy.
Qed.

Lemma sb_fold_in W E : forall dl acc x,
  (forall d, In d dl -> W <= ddate d <= E) ->
  In x acc \/ In x (map ddate dl) -> In x (fold_left (sb_step W E) dl acc).
Proof.
  induction dl as [|d dl IH]; intros acc x Hw H; cbn [fold_left].
  - destruct H as [H|[]]. exact H.
  - apply IH; [intros d' H'; apply Hw; right; exact H'|].
    destruct H as [H|[<-|H]]; [left; apply sb_step_in; exact H|left; apply sb_step_date; apply Hw; left; reflexivity|right; exact H].
Qed.

Lemma journal_days_le dl W E :
  (forall d, In d dl -> W <= ddate d <= E) ->
  (length (WellformedSpec.dates dl) <= length (fold_left (sb_step W E) dl []))%nat.
Proof.
  intros Hw. apply NoDup_incl_length.
  - pose proof (dates_sorted dl) as Hs. clear Hw. induction Hs as [|x l Hs IH Hall]; constructor; [|exact IH].
    intros Hin. rewrite Forall_forall in Hall. specialize (Hall x Hin). lia.
  - intros x Hx. apply sb_fold_in; [exact Hw|]. right. apply dates_in. exact Hx.
Qed.

Theorem com_steps_bound dl v a W E :
  (forall d, In d dl -> W <= ddate d <= E) ->
  com_steps dl v a (held_commodities (flat_postings dl) a) + 1 <= step_bound dl a W E.
Proof.
  intros Hw. set (coms := held_commodities (flat_postings dl) a).
  pose proof (com_steps_le dl v a coms) as H1.
  assert (Hcov : Forall (fun p => acc_eqb (p_acc p) a = true -> In (p_com p) coms) (map snd (flat_postings dl))).
  { apply Forall_forall. intros p Hp Ha. apply in_map_iff in Hp. destruct Hp as ([d p0] & <- & Hin). cbn [snd] in *.
    apply held_in. exists d, p0. repeat split; assumption. }
  rewrite (count_by_com a coms _ (held_nodup _ _) Hcov) in H1.
  unfold step_bound. rewrite (acct_bookings_window dl a W E Hw).
  change (fold_left _ dl []) with (fold_left (sb_step W E) dl []).
  pose proof (journal_days_le dl W E Hw) as H2. fold coms. nia.
Qed.

(* ------------------------------------------------------------ Part D: within_bound *)
Open Scope Q_scope.

Lemma dvalue_pos d : (0 < coef d)%Z -> 0 < dvalue d.
Proof.
  intros H. unfold dvalue. apply Qmult_lt_0_compat; [|apply Qpower_ten_pos].
  change 0 with (inject_Z 0). rewrite <- Zlt_Qlt. exact H.
Qed.

Lemma greater_than_value x y : greater_than x y = true -> dvalue y < dvalue x.
Proof.
  unfold greater_than, cmp. intros H.
  assert (Hs : (let '(p, q) := rescale_pair x y in coef p - coef q)%Z = coef (sub x y)).
  { unfold sub. destruct (rescale_pair x y). reflexivity. }
  assert (Hp : (0 < coef (sub x y))%Z).
  { rewrite <- Hs. destruct (rescale_pair x y) as [p q].
    destruct (coef p ?= coef q)%Z eqn:E; try discriminate. rewrite Z.compare_gt_iff in E. lia. }
  apply dvalue_pos in Hp. rewrite dvalue_sub in Hp.
  apply (Qplus_lt_l _ _ (- dvalue y)). setoid_replace (dvalue y + - dvalue y) with 0 by ring. exact Hp.
Qed.

Lemma dvalue_dabs d : dvalue (dabs d) == Qabs (dvalue d).
Proof.
  unfold dabs. destruct (coef d <? 0)%Z eqn:E.
  - unfold dvalue at 1. cbn [coef ex]. unfold dvalue. rewrite Qabs_Qmult, (Qabs_pos (Qpower ten (ex d))).
    + apply Qmult_comp; [|reflexivity]. unfold Qabs, inject_Z. reflexivity.
    + apply Qlt_le_weak. apply Qpower_ten_pos.
  - symmetry. apply Qabs_pos. unfold dvalue. apply Qmult_le_0_compat; [|apply Qlt_le_weak; apply Qpower_ten_pos].
    change 0 with (inject_Z 0). rewrite <- Zle_Qle. lia.
Qed.

Lemma within_bound_intro o e n :
  Qabs (dvalue o - dvalue e) <= inject_Z n * eps8 -> within_bound o e n = true.
Proof.
  intros H. unfold within_bound. destruct (greater_than (dabs (sub o e)) (mkDec n (-8))) eqn:G; [|reflexivity].
  exfalso. apply greater_than_value in G. rewrite dvalue_dabs, dvalue_sub in G.
  unfold dvalue at 1 in G. cbn [coef ex] in G. rewrite <- eps8_pow in G.
  exact (Qlt_irrefl _ (Qlt_le_trans _ _ _ G H)).
Qed.

(* ------------------------------------------------------------ Part E: the account total of the days *)

Lemma posted_total_fold a : forall ps s,
  dvalue (fold_left (fun s p => if acc_eqb (p_acc p) a then add s (p_val p) else s) ps s)
  == dvalue s + acct_sum (fun p => dvalue (p_val p)) a ps.
Proof.
  unfold acct_sum. induction ps as [|p ps IH]; intros s; cbn [fold_left MarkToMarketSpec.qsum]; [ring|].
  rewrite IH. destruct (acc_eqb (p_acc p) a); [rewrite dvalue_add|]; ring.
Qed.

Lemma posted_total_value a ps : dvalue (posted_total a ps) == acct_sum (fun p => dvalue (p_val p)) a ps.
Proof. unfold posted_total. rewrite posted_total_fold, dvalue_nil. ring. Qed.

Lemma last_date_ge : forall dl m d, In d dl -> (directive_date d <= fold_left (fun m d => Z.max m (directive_date d)) dl m)%Z.
Proof.
  assert (Hm : forall dl m, (m <= fold_left (fun m d => Z.max m (directive_date d)) dl m)%Z).
  { induction dl as [|x dl IH]; intros m; cbn [fold_left]; [lia|]. specialize (IH (Z.max m (directive_date x))). lia. }
  induction dl as [|x dl IH]; intros m d Hin; [destruct Hin|]. cbn [fold_left]. destruct Hin as [->|Hin].
  - specialize (Hm dl (Z.max m (directive_date d))). lia.
  - apply IH. exact Hin.
Qed.

Lemma last_date_upto dl : dates_upto dl (last_date dl).
Proof. intros d Hd. rewrite <- directive_date_ddate. apply last_date_ge. exact Hd. Qed.

Lemma first_date_le : forall dl m d, In d dl -> (fold_left (fun m d => Z.min m (directive_date d)) dl m <= directive_date d)%Z.
Proof.
  assert (Hm : forall dl m, (fold_left (fun m d => Z.min m (directive_date d)) dl m <= m)%Z).
  { induction dl as [|x dl IH]; intros m; cbn [fold_left]; [lia|]. specialize (IH (Z.min m (directive_date x))). lia. }
  induction dl as [|x dl IH]; intros m d Hin; [destruct Hin|]. cbn [fold_left]. destruct Hin as [->|Hin].
  - specialize (Hm dl (Z.min m (directive_date d))). lia.
  - apply IH. exact Hin.
Qed.

Lemma journal_window dl : forall d, In d dl -> (first_date dl <= ddate d <= last_date dl)%Z.
Proof.
  intros d Hd. split; [rewrite <- directive_date_ddate; apply first_date_le; exact Hd|apply last_date_upto; exact Hd].
Qed.

(* the Q-inequality: for any date T on or after the last directive *)
Theorem transcode_account_total_Q l v sds dl days a T e :
  parse_directives sds = MOk dl -> postings_syntactic dl -> dates_upto dl T ->
  transcode_days l v sds = COk days ->
  account_ok a = true -> is_AL a = true ->
  market_value dl v a T = Some e ->
  Qabs (acct_sum (fun p => dvalue (p_val p)) a (vposts days) - dvalue e)
    <= inject_Z (com_steps dl v a (held_commodities (flat_postings dl) a)) * eps8.
Proof.
  intros Hl Hsyn HT H Ha HAL He.
  set (coms := held_commodities (flat_postings dl) a).
  assert (Hcov : Forall (fun p => acc_eqb (p_acc p) a = true -> In (p_com p) coms) (vposts days)).
  { apply Forall_forall. intros p Hp Hpa.
    destruct (in_dec (list_eq_dec Z.eq_dec) (p_com p) coms) as [Hin|Hn]; [exact Hin|exfalso].
    pose proof (transcode_cell_unbooked l v sds dl days a (p_com p) Hl Hsyn H Ha HAL (not_held_unbooked dl a _ Hn)) as F.
    rewrite Forall_forall in F. specialize (F p Hp). unfold cellb in F. rewrite Hpa, str_eqb_refl in F. discriminate. }
  rewrite (split_by_com _ a coms (held_nodup _ _) _ Hcov), (market_value_sum dl v a T e He). fold coms.
  unfold mv_row. generalize coms. intros cs. induction cs as [|c cs IH].
  - apply bound_zero. unfold LedgerProofs.qsum. cbn [fold_right]. ring.
  - cbn [com_steps].
    eapply (bound_add eps8 (cell_sum (fun p => dvalue (p_val p)) a c (vposts days) - mv_cell dl v a c T)).
    + destruct (str_eqb c v) eqn:Ec.
      * apply str_eqb_eq in Ec. subst c. apply bound_zero. rewrite <- cell_value_sum.
        rewrite (transcode_cell_V l v sds dl days a T Hl Hsyn HT H). ring.
      * assert (Hcv : c <> v) by (intros ->; rewrite str_eqb_refl in Ec; discriminate).
        rewrite <- cell_value_sum. exact (transcode_cell l v sds dl days a c T Hl Hsyn HT H Ha HAL Hcv).
    + exact IH.
    + unfold LedgerProofs.qsum. cbn [fold_right]. ring.
Qed.

(* the statement of the clause on the days: decimals, ValuationSpec.step_bound *)
Theorem transcode_account_total l v sds dl days a e :
  parse_directives sds = MOk dl -> postings_syntactic dl ->
  transcode_days l v sds = COk days ->
  account_ok a = true -> is_AL a = true ->
  market_value dl v a (last_date dl) = Some e ->
  within_bound (posted_total a (vposts days)) e (step_bound dl a (first_date dl) (last_date dl)) = true.
Proof.
  intros Hl Hsyn H Ha HAL He. apply within_bound_intro. rewrite posted_total_value.
  eapply Qle_trans; [exact (transcode_account_total_Q l v sds dl days a _ e Hl Hsyn (last_date_upto dl) H Ha HAL He)|].
  apply Qmult_le_compat_r; [|exact eps8_nonneg]. rewrite <- Zle_Qle.
  pose proof (com_steps_bound dl v a (first_date dl) (last_date dl) (journal_window dl)). lia.
Qed.

(* ------------------------------------------------------------ Part F: on the emitted ledger *)

Lemma txns_postings_all days : MarkToMarket.txns_postings (all_txns days) = vposts days.
Proof.
  unfold MarkToMarket.txns_postings, all_txns, MarkToMarketSpec.days_postings, MarkToMarketSpec.day_postings.
  induction days as [|d days IH]; cbn [map concat]; [reflexivity|]. rewrite map_app, concat_app, IH. reflexivity.
Qed.

Lemma ledger_total_fold v a : forall es s,
  dvalue (fold_left (fun acc e =>
            match e with
            | ETxn _ _ ps => fold_left (fun s x => if str_eqb (account_of x) (acc_name a) then add s (amount_of x) else s) ps acc
            | _ => acc
            end) (erase_entries v es) s)
  == dvalue s + acct_sum (fun p => dvalue (p_val p)) a (MarkToMarket.txns_postings (entry_txns es)).
Proof.
  induction es as [|e es IH]; intros s; cbn [erase_entries map fold_left].
  - unfold acct_sum, entry_txns. cbn. ring.
  - fold (erase_entries v es). rewrite IH. destruct e as [d b|d b|t]; cbn [erase_entry].
    + reflexivity.
    + reflexivity.
    + change (entry_txns (BTxn t :: es)) with (t :: entry_txns es).
      unfold MarkToMarket.txns_postings. cbn [map concat]. unfold acct_sum. rewrite MarkToMarket.qsum_app.
      fold (acct_sum (fun p => dvalue (p_val p)) a (t_postings t)).
      assert (E : forall ps s0,
        dvalue (fold_left (fun s x => if str_eqb (account_of x) (acc_name a) then add s (amount_of x) else s) (map (erase_posting v) ps) s0)
        == dvalue s0 + acct_sum (fun p => dvalue (p_val p)) a ps).
      { unfold acct_sum. induction ps as [|p ps IHp]; intros s0; cbn [map fold_left MarkToMarketSpec.qsum]; [ring|].
        rewrite IHp. unfold erase_posting, account_of, amount_of, acc_eqb. cbn [fst snd].
        destruct (str_eqb (acc_name (p_acc p)) (acc_name a)); [rewrite dvalue_add|]; ring. }
      rewrite E. unfold acct_sum. ring.
Qed.

Lemma ledger_total_days v a days :
  dvalue (ledger_total (erase_entries v (transcode_entries days [])) (acc_name a))
  == acct_sum (fun p => dvalue (p_val p)) a (vposts days).
Proof.
  unfold ledger_total. rewrite ledger_total_fold, dvalue_nil, Qplus_0_l.
  rewrite <- txns_postings_all. unfold acct_sum. apply vsum_perm.
  unfold MarkToMarket.txns_postings. apply perm_concat. apply Permutation_map. apply transcode_entries_perm.
Qed.

Lemma insert_row_in r x : forall l, In x (insert_row r l) -> x = r \/ In x l.
Proof.
  induction l as [|y l IH]; cbn [insert_row].
  - intros [H|[]]. left. symmetry. exact H.
  - destruct (row_ltb r y); [intros [H|H]; [left; symmetry; exact H|right; exact H]|].
    destruct (row_ltb y r); [|intros H; right; exact H].
    intros [H|H]; [right; left; exact H|]. destruct (IH H) as [E|E]; [left; exact E|right; right; exact E].
Qed.

Lemma al_accounts_in dl x : In x (al_accounts dl) -> is_AL x = true /\ exists d p, In (d, p) (flat_postings dl) /\ p_acc p = x.
Proof.
  unfold al_accounts.
  assert (G : forall posts acc, In x (fold_left (fun l (dp : Z * posting) => let '(_, p) := dp in if is_AL (p_acc p) then insert_row (p_acc p) l else l) posts acc) ->
              In x acc \/ (is_AL x = true /\ exists d p, In (d, p) posts /\ p_acc p = x)).
  { induction posts as [|[d p] posts IH]; intros acc H; cbn [fold_left] in H; [left; exact H|].
    destruct (IH _ H) as [Hacc|(HAL & d' & p' & Hin & E)].
    - destruct (is_AL (p_acc p)) eqn:EAL; [|left; exact Hacc].
      apply insert_row_in in Hacc. destruct Hacc as [->|Hacc]; [|left; exact Hacc].
      right. split; [exact EAL|]. exists d, p. split; [left; reflexivity|reflexivity].
    - right. split; [exact HAL|]. exists d', p'. split; [right; exact Hin|exact E]. }
  intros H. destruct (G _ _ H) as [[]|R]. exact R.
Qed.

Lemma flat_map_nil {A B} (f : A -> list B) l : (forall x, In x l -> f x = []) -> flat_map f l = [].
Proof.
  induction l as [|x l IH]; intros H; cbn [flat_map]; [reflexivity|].
  rewrite (H x (or_introl eq_refl)), IH; [reflexivity|]. intros y Hy. apply H. right. exact Hy.
Qed.

(* the clause of the executable verdict holds of the ledger the model emits *)
Theorem transcode_mtm_check l v sds dl days :
  parse_directives sds = MOk dl -> postings_syntactic dl ->
  transcode_days l v sds = COk days ->
  mtm_check dl v (erase_entries v (transcode_entries days [])) = [].
Proof.
  intros Hl Hsyn H. unfold mtm_check. apply flat_map_nil. intros a Ha.
  destruct (al_accounts_in dl a Ha) as (HAL & d & p & Hin & <-).
  pose proof (Hsyn d p Hin) as Hok.
  destruct (market_value dl v (p_acc p) (last_date dl)) as [e|] eqn:He; [|reflexivity].
  rewrite within_bound_intro; [reflexivity|]. rewrite ledger_total_days.
  eapply Qle_trans; [exact (transcode_account_total_Q l v sds dl days _ _ e Hl Hsyn (last_date_upto dl) H Hok HAL He)|].
  apply Qmult_le_compat_r; [|exact eps8_nonneg]. rewrite <- Zle_Qle.
  pose proof (com_steps_bound dl v (p_acc p) (first_date dl) (last_date dl) (journal_window dl)). lia.
Qed.
