(* C15, "the choice is the same on every run": proofs about Model/BayesScore.v, the model of
   the choice of the repaired bayes.go (/repo e8bd689).  No assumption on the floating-point
   operations, on strings.Fields or on strings.ToLower unless stated.

   A. inferAccount is a valid choice function ([infer_account_valid]); it is the first maximum
      of the sorted candidates ([infer_account_first_max], [best_loop_spec]: the winner beats
      every candidate before it and no candidate after it beats it -- for a score order that is
      a strict weak order this determines it: [first_max_unique]).
   B. Model.Infer with this choice ([infer_sems_c]) IS Model/Bayes.v [infer_sems] (variant
      Fixed) for a valid choice function ([infer_sems_c_sim], [infer_scored_is_infer_with]), so
      every theorem of Properties/C15.v about [infer_with ph Fixed ... choose], which holds for
      every valid [choose], holds of the command with its real choice.
   C. The choice is a function of the MULTISET of update events, the SET of tokens and the SET
      of map keys ([choice_invariant]): it does not depend on the order of the training
      transactions ([infer_scored_sems_perm], [infer_scored_perm]) nor on the order in which Go
      enumerates a map or a set (extends Proofs/InferOrder.v, C06, from the candidate list to
      the choice).                                                                           *)
From Coq Require Import ZArith List Bool Lia Permutation Sorting.Sorted.
From Knut Require Import Model.Bytes Model.Utf8 Model.Scanner Model.Parser Model.SynPrinter
  Spec.FormatSpec Model.SynRender Model.Bayes Model.BayesScore Spec.InferSpec Proofs.InferProofs Proofs.InferOrder
  Proofs.RoundTripLeaf Proofs.InferRoundTrip.
Import ListNotations.
Open Scope bool_scope.
Open Scope Z_scope.

Definition pick_valid (pick : str -> sem_booking -> str -> list str -> option str) : Prop :=
  (forall desc b other l x, pick desc b other l = Some x -> In x l) /\
  (forall desc b other l, l <> [] -> pick desc b other l <> None).

Lemma fold_left_ext {A B} (f g : A -> B -> A) : (forall a b, f a b = g a b) ->
  forall l x, fold_left f l x = fold_left g l x.
Proof. intros H. induction l as [|b l IH]; intros x; cbn [fold_left]; [reflexivity|]. now rewrite H, IH. Qed.

Lemma str_mem_in x l : str_mem x l = true <-> In x l.
Proof.
  unfold str_mem. rewrite existsb_exists. split.
  - intros (y & Hy & E). apply str_eqb_true in E. now subst.
  - intros H. exists x. split; [assumption|apply str_eqb_rfl].
Qed.

(* in a duplicate-free list two elements cannot each lie after the other *)
Lemma two_positions {A} : forall (l1 l2 l1' l2' : list A) c c',
  NoDup (l1 ++ c :: l2) -> l1 ++ c :: l2 = l1' ++ c' :: l2' -> In c' l2 -> In c l2' -> False.
Proof.
  induction l1 as [|h l1 IH]; intros l2 l1' l2' c c' Hnd E H1 H2; destruct l1' as [|h' l1']; cbn [app] in *.
  - inversion E; subst. inversion Hnd; subst. contradiction.
  - inversion E; subst. inversion Hnd as [|? ? Hni _]; subst. apply Hni. apply in_or_app. right. now right.
  - inversion E; subst. inversion Hnd as [|? ? Hni _]; subst. apply Hni. apply in_or_app. right. now right.
  - inversion E; subst. inversion Hnd; subst. eapply IH; eassumption.
Qed.

(* ================================================================== A. the loop of inferAccount *)

Section Loop.
Variable F : Type.
Variable fgt : F -> F -> bool.
Variable sc : str -> F.

Notation best_loop := (best_loop F fgt sc).

(* the cached maximum is the score of the best candidate *)
Lemma best_loop_some : forall l x, exists y, best_loop l (Some (x, sc x)) = Some (y, sc y).
Proof.
  induction l as [|c l IH]; intros x; cbn [BayesScoreM.best_loop]; [eauto|].
  destruct (fgt (sc c) (sc x)); apply IH.
Qed.

(* it is InferProofs.first_max for the comparison of scores *)
Lemma best_loop_first_max : forall l x,
  best_loop l (Some (x, sc x)) =
  (let y := fold_left (fun best c => if fgt (sc c) (sc best) then c else best) l x in Some (y, sc y)).
Proof.
  induction l as [|c l IH]; intros x; cbn [BayesScoreM.best_loop fold_left]; [reflexivity|].
  destruct (fgt (sc c) (sc x)); apply IH.
Qed.

Lemma best_loop_none l :
  option_map fst (best_loop l None) = first_max (fun c best => fgt (sc c) (sc best)) l.
Proof.
  destruct l as [|x l]; [reflexivity|]. cbn [BayesScoreM.best_loop first_max].
  rewrite best_loop_first_max. reflexivity.
Qed.

(* the winner: strictly better than every candidate before it (given that `>` is transitive and
   a > b implies a > c or c > b, as for every strict weak order), not beaten by any after it *)
Definition first_max_spec (l : list str) (c : str) : Prop :=
  exists l1 l2, l = l1 ++ c :: l2 /\
    (forall y, In y l1 -> fgt (sc c) (sc y) = true) /\
    (forall y, In y l2 -> fgt (sc y) (sc c) = false).

Hypothesis fgt_trans : forall a b c, fgt a b = true -> fgt b c = true -> fgt a c = true.
Hypothesis fgt_cotrans : forall a b c, fgt a b = true -> fgt a c = true \/ fgt c b = true.

Lemma best_loop_spec_from : forall l2 l1 x l0,
  (forall y, In y l1 -> fgt (sc x) (sc y) = true) ->
  (forall y, In y l0 -> fgt (sc y) (sc x) = false) ->
  exists c, best_loop l2 (Some (x, sc x)) = Some (c, sc c) /\ first_max_spec (l1 ++ x :: l0 ++ l2) c.
Proof.
  induction l2 as [|z l2 IH]; intros l1 x l0 H1 H0; cbn [BayesScoreM.best_loop].
  - exists x. split; [reflexivity|]. exists l1, l0. rewrite app_nil_r. auto.
  - destruct (fgt (sc z) (sc x)) eqn:Hz.
    + (* z becomes the best: it beats x, hence everything x beat, and everything that did not beat x *)
      destruct (IH (l1 ++ x :: l0) z []) as (c & Hc & Hs).
      * intros y Hy. apply in_app_or in Hy. destruct Hy as [Hy|[<-|Hy]].
        -- exact (fgt_trans _ _ _ Hz (H1 y Hy)).
        -- exact Hz.
        -- destruct (fgt_cotrans _ _ (sc y) Hz) as [H|H]; [exact H|]. rewrite (H0 y Hy) in H. discriminate.
      * intros y [].
      * exists c. split; [exact Hc|]. cbn [app] in Hs. rewrite <- app_assoc in Hs. cbn [app] in Hs.
        replace (l1 ++ x :: l0 ++ z :: l2) with (l1 ++ x :: l0 ++ z :: l2) by reflexivity. exact Hs.
    + destruct (IH l1 x (l0 ++ [z])) as (c & Hc & Hs); [exact H1| |].
      * intros y Hy. apply in_app_or in Hy. destruct Hy as [Hy|[<-|[]]]; [now apply H0|exact Hz].
      * exists c. split; [exact Hc|]. rewrite <- app_assoc in Hs. exact Hs.
Qed.

Theorem best_loop_spec l c :
  option_map fst (best_loop l None) = Some c -> first_max_spec l c.
Proof.
  destruct l as [|x l]; [discriminate|]. cbn [BayesScoreM.best_loop].
  destruct (best_loop_spec_from l [] x []) as (c' & Hc & Hs); [intros y []|intros y []|].
  rewrite Hc. cbn [option_map fst]. intros E. inversion E; subst. exact Hs.
Qed.

(* for an irreflexive `>` the specification has at most one solution in a duplicate-free list *)
Hypothesis fgt_irrefl : forall a, fgt a a = false.

Theorem first_max_unique l c c' : NoDup l -> first_max_spec l c -> first_max_spec l c' -> c = c'.
Proof.
  intros Hnd (l1 & l2 & E & B1 & A1) (l1' & l2' & E' & B1' & A1').
  assert (Hin : In c' (l1 ++ c :: l2)) by (rewrite <- E, E'; apply in_elt).
  assert (Hc : In c (l1' ++ c' :: l2')) by (rewrite <- E', E; apply in_elt).
  apply in_app_or in Hin. apply in_app_or in Hc.
  destruct Hin as [Hin|[Hin|Hin]]; [|exact Hin|]; destruct Hc as [Hc|[Hc|Hc]]; try (symmetry; exact Hc).
  - (* each strictly before the other *)
    pose proof (fgt_trans _ _ _ (B1 c' Hin) (B1' c Hc)) as Hcc. rewrite fgt_irrefl in Hcc. discriminate.
  - pose proof (B1 c' Hin) as Hb. rewrite (A1' c Hc) in Hb. discriminate.
  - pose proof (B1' c Hc) as Hb. rewrite (A1 c' Hin) in Hb. discriminate.
  - (* each after the other: the list has a duplicate *)
    exfalso. subst l. exact (two_positions _ _ _ _ _ _ Hnd E' Hin Hc).
Qed.

End Loop.

(* ================================================================== A'. inferAccount is a valid choice *)

Section Scored.
Variable F : Type.
Variable flog : Z -> Z -> F.
Variable fadd : F -> F -> F.
Variable fgt : F -> F -> bool.
Variable fields : str -> list str.
Variable lower : str -> str.
Variable ph : str.

Notation score := (score F flog fadd).
Notation infer_account := (infer_account F flog fadd fgt fields lower).
Notation events := (events fields lower ph).
Notation tokenize := (tokenize fields lower).

Lemma infer_account_first_max evs desc b other l :
  infer_account evs desc b other l =
  first_max (fun c best => fgt (score evs (tokenize desc b other) c) (score evs (tokenize desc b other) best)) l.
Proof. unfold BayesScoreM.infer_account. apply best_loop_none. Qed.

Lemma infer_account_valid evs : pick_valid (infer_account evs).
Proof.
  split.
  - intros desc b other l x. rewrite infer_account_first_max.
    apply (proj1 (first_max_valid (fun c best => fgt (score evs (tokenize desc b other) c) (score evs (tokenize desc b other) best))) 0%nat).
  - intros desc b other l. rewrite infer_account_first_max.
    apply (proj2 (first_max_valid (fun c best => fgt (score evs (tokenize desc b other) c) (score evs (tokenize desc b other) best))) 0%nat).
Qed.

(* the keys of countByAccount are the trained accounts of Model/Bayes.v *)
Lemma update_events_accounts desc bs : map fst (update_events fields lower ph desc bs) = update_accounts ph bs.
Proof.
  unfold update_events, update_accounts. induction bs as [|b bs IHb]; [reflexivity|].
  cbn [flat_map]. rewrite map_app, IHb. f_equal.
  destruct (snd (sb_credit b) || snd (sb_debit b)); [reflexivity|].
  destruct (is_nil (fst (sb_credit b)) || is_nil (fst (sb_debit b))); [reflexivity|].
  destruct (str_eqb (fst (sb_credit b)) ph || str_eqb (fst (sb_debit b)) ph); reflexivity.
Qed.

Lemma events_accounts training : map fst (events training) = trained_accounts ph training.
Proof.
  unfold BayesScoreM.events, trained_accounts. induction training as [|d tr IH]; [reflexivity|].
  cbn [flat_map]. rewrite map_app. f_equal; [|exact IH].
  destruct d as [date desc bs p a| | | | | |]; try reflexivity. apply update_events_accounts.
Qed.

Lemma candidates_c_candidates training : candidates_c (events training) = candidates ph training.
Proof. unfold candidates_c, candidates. now rewrite events_accounts. Qed.

End Scored.

(* ================================================================== B. simulation *)

Section Simulation.
Variable ph : str.
Variable pick : str -> sem_booking -> str -> list str -> option str.
Hypothesis Hpick : pick_valid pick.
Variable cands : list str.

(* [choose] answers the calls k, k+1, ... like the recorded results [tr], on every list that is
   compatible with the result *)
Definition agrees (choose : nat -> list str -> option str) (k : nat) (tr : list (option str)) : Prop :=
  forall i r l, nth_error tr i = Some r ->
    match r with Some x => In x l | None => l = [] end -> choose (k + i)%nat l = r.

Lemma agrees_app choose k t1 t2 : agrees choose k (t1 ++ t2) ->
  agrees choose k t1 /\ agrees choose (k + length t1)%nat t2.
Proof.
  intros H. split; intros i r l Hn Hr.
  - apply H; [|exact Hr]. rewrite nth_error_app1; [exact Hn|]. apply nth_error_Some. congruence.
  - replace (k + length t1 + i)%nat with (k + (length t1 + i))%nat by lia. apply H; [|exact Hr].
    rewrite nth_error_app2 by lia. now replace (length t1 + i - length t1)%nat with i by lia.
Qed.

Variable choose : nat -> list str -> option str.

Lemma side_sim desc b acc other acc' tr k :
  infer_side_c ph pick cands desc b acc other = (acc', tr) -> agrees choose k tr ->
  infer_side ph Fixed choose cands k acc other = (acc', (k + length tr)%nat).
Proof.
  unfold infer_side_c, infer_side. destruct (str_eqb (fst acc) ph).
  - intros H Ha. inversion H; subst. clear H. cbn [length].
    assert (Hc : choose k (without other cands) = pick desc b other (without other cands)).
    { replace k with (k + 0)%nat at 1 by lia. apply Ha; [reflexivity|].
      destruct (pick desc b other (without other cands)) as [x|] eqn:Hp.
      - exact (proj1 Hpick _ _ _ _ _ Hp).
      - destruct (without other cands) eqn:Hw; [reflexivity|]. exfalso.
        apply (proj2 Hpick desc b other (s :: l)); [discriminate|]. exact Hp. }
    rewrite Hc. replace (k + 1)%nat with (S k) by lia.
    destruct (pick desc b other (without other cands)); reflexivity.
  - intros H _. inversion H; subst. cbn [length]. now rewrite Nat.add_0_r.
Qed.

Lemma booking_sim desc b b' tr k :
  infer_booking_c ph pick cands desc b = (b', tr) -> agrees choose k tr ->
  infer_booking ph Fixed choose cands k b = (b', (k + length tr)%nat).
Proof.
  unfold infer_booking_c, infer_booking.
  destruct (infer_side_c ph pick cands desc b (sb_credit b) (fst (sb_debit b))) as [c' t1] eqn:H1.
  destruct (infer_side_c ph pick cands desc b (sb_debit b) (fst c')) as [d' t2] eqn:H2.
  intros H Ha. inversion H; subst. clear H. destruct (agrees_app _ _ _ _ Ha) as (A1 & A2).
  rewrite (side_sim _ _ _ _ _ _ _ H1 A1). rewrite (side_sim _ _ _ _ _ _ _ H2 A2).
  rewrite app_length. now replace (k + (length t1 + length t2))%nat with (k + length t1 + length t2)%nat by lia.
Qed.

Lemma bookings_sim desc : forall bs bs' tr k,
  infer_bookings_c ph pick cands desc bs = (bs', tr) -> agrees choose k tr ->
  infer_bookings ph Fixed choose cands k bs = (bs', (k + length tr)%nat).
Proof.
  induction bs as [|b bs IH]; intros bs' tr k H Ha; cbn [infer_bookings_c infer_bookings] in *.
  - inversion H; subst. cbn [length]. now rewrite Nat.add_0_r.
  - destruct (infer_booking_c ph pick cands desc b) as [b1 t1] eqn:H1.
    destruct (infer_bookings_c ph pick cands desc bs) as [bs1 t2] eqn:H2.
    inversion H; subst. clear H. destruct (agrees_app _ _ _ _ Ha) as (A1 & A2).
    rewrite (booking_sim _ _ _ _ _ H1 A1), (IH _ _ _ eq_refl A2).
    rewrite app_length. now replace (k + (length t1 + length t2))%nat with (k + length t1 + length t2)%nat by lia.
Qed.

Lemma sems_sim : forall ds ds' tr k,
  infer_sems_c ph pick cands ds = (ds', tr) -> agrees choose k tr ->
  infer_sems ph Fixed choose cands k ds = (ds', (k + length tr)%nat).
Proof.
  induction ds as [|d ds IH]; intros ds' tr k H Ha; cbn [infer_sems_c infer_sems] in *.
  - inversion H; subst. cbn [length]. now rewrite Nat.add_0_r.
  - destruct d as [date desc bs p a| | | | | |];
      try (destruct (infer_sems_c ph pick cands ds) as [ds1 t2] eqn:H2; inversion H; subst; clear H;
           cbn [app] in Ha; now rewrite (IH _ _ _ eq_refl Ha)).
    destruct (infer_bookings_c ph pick cands desc bs) as [bs1 t1] eqn:H1.
    destruct (infer_sems_c ph pick cands ds) as [ds1 t2] eqn:H2.
    inversion H; subst. clear H. destruct (agrees_app _ _ _ _ Ha) as (A1 & A2).
    rewrite (bookings_sim _ _ _ _ _ H1 A1), (IH _ _ _ eq_refl A2).
    rewrite app_length. now replace (k + (length t1 + length t2))%nat with (k + length t1 + length t2)%nat by lia.
Qed.

End Simulation.

(* the choice function that replays recorded results (and is valid on every other list) *)
Definition choose_of (tr : list (option str)) (j : nat) (l : list str) : option str :=
  match nth_error tr j with
  | Some (Some x) => if str_mem x l then Some x else hd_error l
  | _ => hd_error l
  end.

Lemma hd_error_in (l : list str) x : hd_error l = Some x -> In x l.
Proof. destruct l; [discriminate|]. intros H. inversion H. now left. Qed.

Lemma choose_of_valid tr : valid_choose (choose_of tr).
Proof.
  split.
  - intros k l x. unfold choose_of. destruct (nth_error tr k) as [[y|]|]; try apply hd_error_in.
    destruct (str_mem y l) eqn:E; [|apply hd_error_in]. intros H. inversion H; subst. now apply str_mem_in.
  - intros k l Hl. unfold choose_of. destruct l as [|z l]; [congruence|].
    destruct (nth_error tr k) as [[y|]|]; try discriminate. destruct (str_mem y (z :: l)); discriminate.
Qed.

Lemma choose_of_agrees tr : agrees (choose_of tr) 0%nat tr.
Proof.
  intros i r l Hn Hr. unfold choose_of. cbn [Nat.add]. rewrite Hn. destruct r as [x|].
  - now rewrite (proj2 (str_mem_in x l) Hr).
  - subst l. reflexivity.
Qed.

(* Model.Infer with a valid context-dependent choice is infer_sems Fixed for a valid choice function *)
Theorem infer_sems_c_sim ph pick cands ds ds' tr :
  pick_valid pick -> infer_sems_c ph pick cands ds = (ds', tr) ->
  valid_choose (choose_of tr) /\
  infer_sems ph Fixed (choose_of tr) cands 0%nat ds = (ds', length tr).
Proof.
  intros Hp H. split; [apply choose_of_valid|].
  exact (sems_sim ph pick Hp cands (choose_of tr) ds ds' tr 0%nat H (choose_of_agrees tr)).
Qed.

(* ================================================================== B'. the command with its real choice *)

Section ScoredCommand.
Variable F : Type.
Variable flog : Z -> Z -> F.
Variable fadd : F -> F -> F.
Variable fgt : F -> F -> bool.
Variable fields : str -> list str.
Variable lower : str -> str.
Variable ph : str.

Notation infer_account := (infer_account F flog fadd fgt fields lower).
Notation events := (events fields lower ph).
Notation infer_scored := (infer_scored F flog fadd fgt fields lower ph).

(* the command with its real choice is the command of Model/Bayes.v for a valid choice function *)
Theorem infer_scored_is_infer_with letter digit training target :
  exists choose, valid_choose choose /\
    infer_scored letter digit training target = infer_with ph Fixed letter digit choose training target.
Proof.
  unfold BayesScoreM.infer_scored, infer_with.
  destruct (parse_text letter digit training) as [ftr|e|] eqn:Htr;
    [|exists (choose_of []); split; [apply choose_of_valid|reflexivity]
     |exists (choose_of []); split; [apply choose_of_valid|reflexivity]].
  destruct (parse_text letter digit target) as [ftg|e|] eqn:Htg;
    [|exists (choose_of []); split; [apply choose_of_valid|reflexivity]
     |exists (choose_of []); split; [apply choose_of_valid|reflexivity]].
  unfold BayesScoreM.infer_scored_sems.
  destruct (infer_sems_c ph (infer_account (events (sem training ftr))) (candidates_c (events (sem training ftr)))
              (sem target ftg)) as [sems tr] eqn:Hs.
  destruct (infer_sems_c_sim ph _ _ _ _ _ (infer_account_valid F flog fadd fgt fields lower _) Hs) as (Hv & Hi).
  exists (choose_of tr). split; [exact Hv|].
  rewrite (candidates_c_candidates fields lower ph) in Hi. now rewrite Hi.
Qed.

(* hence the whole property for the command as it is, without any choice function in sight:
   on files that parse it prints a text that parses, whose meaning satisfies the executable
   statement of the property (Spec/InferSpec.v) against target and training file, whose gaps
   are the target's; the text is in formatted form; running the command on it prints it again *)
Theorem infer_scored_correct letter digit training target ftr ftg :
  class_ok letter digit ->
  parse_text letter digit training = ParseOk ftr -> parse_text letter digit target = ParseOk ftg ->
  exists out f',
    infer_scored letter digit training target = InferOut out /\
    parse_text letter digit out = ParseOk f' /\
    infer_ok_b ph (sem training ftr) (sem target ftg) (sem out f') = true /\
    gaps out f' = gaps target ftg /\
    format_text letter digit out f' = FOk out /\
    infer_scored letter digit training out = InferOut out.
Proof.
  intros Hcls Htr Htg.
  destruct (infer_scored_is_infer_with letter digit training target) as (choose & Hch & ->).
  destruct (infer_total ph letter digit choose training target ftr ftg Hch Htr Htg) as (out & Ho).
  destruct (infer_roundtrip ph letter digit Hcls choose training target out Hch Ho)
    as (ftr' & ftg' & f' & k & Htr' & Htg' & Hp' & Hs & Hg & Hf).
  assert (ftr' = ftr) by congruence. assert (ftg' = ftg) by congruence. subst ftr' ftg'.
  exists out, f'. split; [exact Ho|]. split; [exact Hp'|].
  split; [exact (fixed_meets_spec ph (sem training ftr) choose _ _ _ _ Hch Hs)|].
  split; [exact Hg|]. split; [exact Hf|].
  destruct (infer_scored_is_infer_with letter digit training out) as (choose' & Hch' & ->).
  exact (infer_idempotent ph letter digit Hcls choose choose' training target out Hch Hch' Ho).
Qed.

End ScoredCommand.

(* ================================================================== C. what the choice depends on *)

Lemma length_filter_perm {A} (f : A -> bool) l1 l2 : Permutation l1 l2 -> length (filter f l1) = length (filter f l2).
Proof.
  induction 1 as [|x l1 l2 _ IH|x y l|l1 l2 l3 _ IH1 _ IH2]; cbn [filter].
  - reflexivity.
  - destruct (f x); cbn [length]; congruence.
  - destruct (f x), (f y); reflexivity.
  - congruence.
Qed.

Section Determined.
Variable F : Type.
Variable flog : Z -> Z -> F.
Variable fadd : F -> F -> F.
Variable fgt : F -> F -> bool.
Variable fields : str -> list str.
Variable lower : str -> str.
Variable ph : str.

Notation score := (score F flog fadd).
Notation best_loop := (best_loop F fgt).
Notation infer_account := (infer_account F flog fadd fgt fields lower).
Notation events := (events fields lower ph).
Notation infer_scored_sems := (infer_scored_sems F flog fadd fgt fields lower ph).
Notation infer_scored := (infer_scored F flog fadd fgt fields lower ph).

(* the score depends on the events through the three counts only, i.e. on their multiset *)
Lemma score_perm evs1 evs2 toks c : Permutation evs1 evs2 -> score evs1 toks c = score evs2 toks c.
Proof.
  intros Hp. unfold BayesScoreM.score, count_total, count_account, count_token_account.
  rewrite (Permutation_length Hp), (length_filter_perm _ _ _ Hp).
  apply fold_left_ext. intros sc0 tok. now rewrite (length_filter_perm _ _ _ Hp).
Qed.

(* and on the token set, not on the order in which the set is enumerated *)
Lemma score_tokens_set evs t1 t2 c : (forall x, In x t1 <-> In x t2) -> score evs t1 c = score evs t2 c.
Proof. intros H. unfold BayesScoreM.score. now rewrite (sort_dedup_set t1 t2 H). Qed.

Lemma best_loop_ext sc1 sc2 : (forall c, sc1 c = sc2 c) -> forall l b, best_loop sc1 l b = best_loop sc2 l b.
Proof.
  intros H. induction l as [|c l IH]; intros b; cbn [BayesScoreM.best_loop]; [reflexivity|]. now rewrite H, IH.
Qed.

(* inferAccount as a function of (events, tokens, keys of countByAccount, other) *)
Definition choice (evs : list event) (tokens keys : list str) (other : str) : option str :=
  option_map fst (best_loop (score evs tokens) (without other (sort_dedup keys)) None).

(* THE CHOICE IS A FUNCTION OF THE MULTISET OF EVENTS, THE SET OF TOKENS AND THE SET OF KEYS *)
Theorem choice_invariant evs1 evs2 t1 t2 k1 k2 other :
  Permutation evs1 evs2 -> (forall x, In x t1 <-> In x t2) -> (forall x, In x k1 <-> In x k2) ->
  choice evs1 t1 k1 other = choice evs2 t2 k2 other.
Proof.
  intros Hp Ht Hk. unfold choice. rewrite (sort_dedup_set k1 k2 Hk). f_equal.
  apply best_loop_ext. intros c. rewrite (score_perm evs1 evs2 t1 c Hp). now apply score_tokens_set.
Qed.

(* this is what Model.Infer calls *)
Lemma infer_account_choice evs desc b other :
  infer_account evs desc b other (without other (candidates_c evs)) =
  choice evs (tokenize fields lower desc b other) (map fst evs) other.
Proof. reflexivity. Qed.

Lemma infer_account_perm evs1 evs2 desc b other l : Permutation evs1 evs2 ->
  infer_account evs1 desc b other l = infer_account evs2 desc b other l.
Proof.
  intros Hp. unfold BayesScoreM.infer_account. f_equal. apply best_loop_ext. intros c. now apply score_perm.
Qed.

Lemma candidates_c_perm evs1 evs2 : Permutation evs1 evs2 -> candidates_c evs1 = candidates_c evs2.
Proof.
  intros Hp. unfold candidates_c. apply sort_dedup_set. intros x.
  pose proof (Permutation_map fst Hp) as Hm. split; intros Hx.
  - exact (Permutation_in x Hm Hx).
  - exact (Permutation_in x (Permutation_sym Hm) Hx).
Qed.

Lemma events_perm tr1 tr2 : Permutation tr1 tr2 -> Permutation (events tr1) (events tr2).
Proof. intros Hp. unfold BayesScoreM.events. now apply Permutation_flat_map. Qed.

(* Model.Infer depends on the choice function extensionally *)
Section Ext.
Variables pick1 pick2 : str -> sem_booking -> str -> list str -> option str.
Hypothesis Hext : forall desc b other l, pick1 desc b other l = pick2 desc b other l.
Variable cands : list str.

Lemma infer_side_c_ext desc b acc other :
  infer_side_c ph pick1 cands desc b acc other = infer_side_c ph pick2 cands desc b acc other.
Proof. unfold infer_side_c. now rewrite Hext. Qed.

Lemma infer_booking_c_ext desc b : infer_booking_c ph pick1 cands desc b = infer_booking_c ph pick2 cands desc b.
Proof.
  unfold infer_booking_c. rewrite infer_side_c_ext.
  destruct (infer_side_c ph pick2 cands desc b (sb_credit b) (fst (sb_debit b))) as [c' t1].
  now rewrite infer_side_c_ext.
Qed.

Lemma infer_bookings_c_ext desc bs : infer_bookings_c ph pick1 cands desc bs = infer_bookings_c ph pick2 cands desc bs.
Proof. induction bs as [|b bs IH]; cbn [infer_bookings_c]; [reflexivity|]. now rewrite infer_booking_c_ext, IH. Qed.

Lemma infer_sems_c_ext ds : infer_sems_c ph pick1 cands ds = infer_sems_c ph pick2 cands ds.
Proof.
  induction ds as [|d ds IH]; cbn [infer_sems_c]; [reflexivity|]. rewrite IH.
  destruct d; try reflexivity. now rewrite infer_bookings_c_ext.
Qed.

End Ext.

(* permuting the training transactions changes nothing: neither the inferred meanings nor the
   recorded choices *)
Theorem infer_scored_sems_perm tr1 tr2 target :
  Permutation tr1 tr2 -> infer_scored_sems tr1 target = infer_scored_sems tr2 target.
Proof.
  intros Hp. unfold BayesScoreM.infer_scored_sems. pose proof (events_perm tr1 tr2 Hp) as He.
  rewrite (candidates_c_perm _ _ He). apply infer_sems_c_ext.
  intros desc b other l. now apply infer_account_perm.
Qed.

(* the command: two training files whose transactions (meanings) are permutations of each other
   give the same output on every target *)
Theorem infer_scored_perm letter digit training1 training2 target f1 f2 :
  parse_text letter digit training1 = ParseOk f1 -> parse_text letter digit training2 = ParseOk f2 ->
  Permutation (sem training1 f1) (sem training2 f2) ->
  infer_scored letter digit training1 target = infer_scored letter digit training2 target.
Proof.
  intros H1 H2 Hp. unfold BayesScoreM.infer_scored. rewrite H1, H2.
  destruct (parse_text letter digit target) as [ftg| |]; try reflexivity.
  now rewrite (infer_scored_sems_perm _ _ (sem target ftg) Hp).
Qed.

End Determined.
