(* C16: every violation beancount_check raises on the model's items has the known shape (F16/F16b).
   Proofs/BeancountVerdictOpen.v shows where the violations come from: a posting of a value adjustment
   on an account that is not an asset or liability account.  Here: check_posting classifies it.
   The description "Adjust value of C in account A" is read back by the verdict's adjusted_account
   (C up to the first space: C has no space; A the rest), A is an asset/liability name, the posting's
   account is Income:<rest of A> = valuation_name A (the first segment of A has no colon), and A has
   an open directive in force (C16_adjusted_account_open: Valuate books an adjustment only for a
   position that Check saw).  Needs Spec/BeancountAdjLex.v journal_adj_lex_b on the journal. *)
From Coq Require Import ZArith List Bool Lia Sorted Permutation.
From Knut Require Import Model.Str Model.Dec Model.Date Model.Account Model.Ledger Model.Journal
     Model.Pipeline Model.Cli Model.Beancount Model.CliTranscode
     Spec.WellformedSpec Spec.LedgerSyntax Spec.BeancountSpec Spec.BeancountErase Spec.BeancountLex Spec.BeancountAdjLex
     Proofs.StrProofs Proofs.CheckLemmas Proofs.BeancountProofs Proofs.TranscodeOpenAL Proofs.BeancountRead
     Proofs.BeancountVerdict Proofs.BeancountLexDays Proofs.BeancountVerdictOpen Proofs.TranscodeAdjust.
Import ListNotations.
Open Scope bool_scope.
Open Scope Z_scope.

(* ================================================================== reading the description back *)

Lemma drop_until_sep c x r : ~ In c x -> drop_until c (x ++ c :: r) = c :: r.
Proof.
  induction x as [|y x IH]; intros H; cbn [app drop_until].
  - rewrite Z.eqb_refl. reflexivity.
  - destruct (y =? c) eqn:E; [apply Z.eqb_eq in E; exfalso; apply H; left; exact E|].
    apply IH. intros Hin. apply H. right. exact Hin.
Qed.

Lemma drop_until_none c x : ~ In c x -> drop_until c x = [].
Proof.
  induction x as [|y x IH]; intros H; cbn [drop_until]; [reflexivity|].
  destruct (y =? c) eqn:E; [apply Z.eqb_eq in E; exfalso; apply H; left; exact E|].
  apply IH. intros Hin. apply H. right. exact Hin.
Qed.

Lemma take_until_sep c x r : ~ In c x -> take_until c (x ++ c :: r) = x.
Proof.
  induction x as [|y x IH]; intros H; cbn [app take_until].
  - rewrite Z.eqb_refl. reflexivity.
  - destruct (y =? c) eqn:E; [apply Z.eqb_eq in E; exfalso; apply H; left; exact E|].
    f_equal. apply IH. intros Hin. apply H. right. exact Hin.
Qed.

Lemma take_until_none c x : ~ In c x -> take_until c x = x.
Proof.
  induction x as [|y x IH]; intros H; cbn [take_until]; [reflexivity|].
  destruct (y =? c) eqn:E; [apply Z.eqb_eq in E; exfalso; apply H; left; exact E|].
  f_equal. apply IH. intros Hin. apply H. right. exact Hin.
Qed.

Lemma adjusted_account_s_adjust c a : no_byte 32 c = true -> adjusted_account (s_adjust c a) = Some (acc_name a).
Proof.
  intros Hc. apply no_byte_iff in Hc. unfold adjusted_account, s_adjust.
  change [65;100;106;117;115;116;32;118;97;108;117;101;32;111;102;32] with s_adjust_prefix.
  rewrite strip_prefix_app.
  change ([32;105;110;32;97;99;99;111;117;110;116;32] ++ acc_name a) with (32 :: (s_in_account ++ acc_name a)).
  rewrite (drop_until_sep 32 c _ Hc). apply strip_prefix_app.
Qed.

(* the name of an account whose first segment has no colon: the first segment, then the rest *)
Lemma acc_name_cons (s : str) (rest : list str) : acc_name (s :: rest) = s ++ match rest with [] => [] | _ => colon :: acc_name rest end.
Proof. unfold acc_name. destruct rest as [|x r]; [cbn [join]; rewrite app_nil_r; reflexivity|reflexivity]. Qed.

Lemma take_until_name (s : str) (rest : list str) : ~ In colon s -> take_until 58 (acc_name (s :: rest)) = s.
Proof.
  intros H. rewrite acc_name_cons. destruct rest as [|x r].
  - rewrite app_nil_r. apply take_until_none. exact H.
  - apply (take_until_sep colon). exact H.
Qed.

Lemma drop_until_name (s : str) (rest : list str) : ~ In colon s ->
  drop_until 58 (acc_name (s :: rest)) = match rest with [] => [] | _ => colon :: acc_name rest end.
Proof.
  intros H. rewrite acc_name_cons. destruct rest as [|x r].
  - rewrite app_nil_r. apply drop_until_none. exact H.
  - apply (drop_until_sep colon). exact H.
Qed.

Lemma is_AL_first a : is_AL a = true -> exists s rest, a = s :: rest /\ (str_eqb s s_Assets || str_eqb s s_Liabilities) = true.
Proof.
  unfold is_AL, acc_type. destruct a as [|s rest]; [discriminate|]. intros H. exists s, rest. split; [reflexivity|].
  unfold parse_atype in H. destruct (str_eqb s s_Assets); [reflexivity|].
  destruct (str_eqb s s_Liabilities); [reflexivity|].
  destruct (str_eqb s s_Equity); [discriminate|]. destruct (str_eqb s s_Income); [discriminate|].
  destruct (str_eqb s s_Expenses); discriminate.
Qed.

Lemma account_ok_first (s : str) (rest : list str) : account_ok (s :: rest) = true -> ~ In colon s.
Proof. intros H. apply account_ok_segs in H. destruct H as (_ & _ & H). apply H. left. reflexivity. Qed.

Lemma is_al_name_acc a : is_AL a = true -> account_ok a = true -> is_al_name (acc_name a) = true.
Proof.
  intros HAL Hok. destruct (is_AL_first a HAL) as (s & rest & -> & Hs).
  unfold is_al_name. cbv zeta. rewrite (take_until_name s rest (account_ok_first s rest Hok)). exact Hs.
Qed.

Lemma valuation_name_acc a : account_ok a = true -> valuation_name (acc_name a) = acc_name (valuation_account_for a).
Proof.
  intros Hok. destruct a as [|s rest]; [discriminate|].
  unfold valuation_name, valuation_account_for. cbn [tl].
  rewrite (drop_until_name s rest (account_ok_first s rest Hok)), acc_name_cons. reflexivity.
Qed.

Lemma mem_map_fst a (l : list (str * Z)) : mem a (map fst l) = existsb (fun x => str_eqb a (fst x)) l.
Proof. unfold mem. induction l as [|x l IH]; [reflexivity|]. cbn [map existsb]. rewrite IH. reflexivity. Qed.

(* the verdict's test for "posting of a value adjustment to the valuation account of an opened A/L account" *)
Lemma valuation_posting_adjust st c a :
  is_AL a = true -> account_ok a = true -> no_byte 32 c = true ->
  mem (acc_name a) (map fst (st_open st)) = true ->
  valuation_posting st (s_adjust c a) (acc_name (valuation_account_for a)) = true.
Proof.
  intros HAL Hok Hc Hopen. unfold valuation_posting. rewrite (adjusted_account_s_adjust c a Hc).
  rewrite (is_al_name_acc a HAL Hok), (valuation_name_acc a Hok), str_eqb_refl, <- mem_map_fst, Hopen. reflexivity.
Qed.

(* ================================================================== the postings of an adjustment *)

Lemma is_AL_valuation a : is_AL (valuation_account_for a) = false.
Proof. reflexivity. Qed.

(* a posting of a value adjustment for (c, a) is on a or on its valuation account, and a is posted to *)
Lemma adjustment_lex_postings dt t : adjustment_lex dt t ->
  exists c a, is_AL a = true /\ account_ok a = true /\ no_byte 32 c = true /\ t_desc t = s_adjust c a /\
    (exists q, In q (t_postings t) /\ p_acc q = a) /\
    (forall p, In p (t_postings t) -> p_acc p = a \/ p_acc p = valuation_account_for a).
Proof.
  intros (c & a & gain & HAL & Hok & Hc & _ & Hs & Hp). exists c, a.
  destruct (pair_build_shape (valuation_account_for a) a c dec_nil gain) as (p1 & p2 & E & _ & _ & HA).
  rewrite E in Hp. inversion Hp as [|x1 y1 l1 l1' S1 Hp1 E1 E2]. inversion Hp1 as [|x2 y2 l2 l2' S2 Hp2 E3 E4].
  inversion Hp2 as [E5 E6|].
  destruct S1 as (A1 & _). destruct S2 as (A2 & _).
  repeat split; try assumption.
  - destruct HA as [(_ & HA)|(HA & _)].
    + exists y2. split; [right; left; reflexivity|congruence].
    + exists y1. split; [left; reflexivity|congruence].
  - intros p [<-|[<-|[]]]; [rewrite A1|rewrite A2]; destruct HA as [(H1 & H2)|(H1 & H2)]; rewrite ?H1, ?H2; auto.
Qed.

(* ================================================================== the theorem *)

Definition known_violation (x : violation) : Prop :=
  v_known_shape x = true /\ (v_kind x = k_unopened_val \/ v_kind x = k_closed_val).

Theorem beancount_check_known l v sds dl days :
  parse_directives sds = MOk dl -> journal_lex_b dl = true -> journal_adj_lex_b dl = true ->
  transcode_days l v sds = COk days ->
  Forall known_violation (beancount_check v (erase_entries v (transcode_entries days []))).
Proof.
  intros Hp Hj Hadj H.
  pose proof (journal_adj_lex_syntactic dl Hadj) as Hsyn.
  pose proof (transcode_days_entries_lex l v sds dl days Hp Hj H) as Hlex.
  pose proof (transcode_chronological l v sds days H) as Hsorted.
  pose proof (entries_balanced v days [] (transcode_days_ok _ _ _ _ H)) as Hbal.
  apply Forall_forall. intros x Hx.
  unfold beancount_check in Hx. apply check_entries_in in Hx. destruct Hx as (pre & e & post & Hsplit & Hin).
  unfold erase_entries in Hsplit. apply map_eq_app in Hsplit. destruct Hsplit as (bpre & brest & Hb & Epre & Erest).
  apply map_eq_cons in Erest. destruct Erest as (b & bpost & -> & Ee & Epost). subst pre e post.
  fold (erase_entries v bpre) in *. fold (state_after (erase_entries v bpre)) in Hin.
  set (st := state_after (erase_entries v bpre)) in *.
  assert (Hdok : open_dates_ok st) by (apply fold_dates_ok; intros a d []).
  assert (Hlast : st_last st <= entry_date (erase_entry v b)).
  { apply fold_last_le.
    - cbn [bst_init st_last]. pose proof (entries_lex_min v _ Hlex) as Hm. rewrite Forall_forall in Hm.
      apply Hm. unfold erase_entries. rewrite Hb, map_app. apply in_or_app. right. left. reflexivity.
    - unfold erase_entries in Hsorted. rewrite Hb, !map_app in Hsorted. cbn [map] in Hsorted.
      apply sorted_app_le in Hsorted. rewrite Forall_forall in Hsorted |- *. intros e He.
      apply Hsorted. apply in_map. exact He. }
  unfold check_entry in Hin. cbn [fst] in Hin.
  replace (entry_date (erase_entry v b) <? st_last st) with false in Hin by (symmetry; apply Z.ltb_ge; exact Hlast).
  cbn [app] in Hin. destruct b as [d a|d a|t]; cbn [erase_entry] in Hin; try (destruct Hin).
  assert (Hbal1 : txn_balanced_b (map (erase_posting v) (t_postings t)) = true).
  { rewrite Forall_forall in Hbal. apply (Hbal (erase_entry v (BTxn t))). unfold erase_entries. rewrite Hb, map_app.
    apply in_or_app. right. left. reflexivity. }
  rewrite Hbal1 in Hin. cbn [app] in Hin.
  assert (Hcom : forallb (fun x0 => commodity_ok v (commodity_of x0)) (map (erase_posting v) (t_postings t)) = true).
  { pose proof (erased_commodity_ok v [BTxn t]) as Hc. inversion Hc as [|? ? Hc1 _]; subst. exact Hc1. }
  rewrite Hcom in Hin. cbn [app] in Hin.
  apply in_flat_map in Hin. destruct Hin as (sp & Hsp & Hin). apply in_map_iff in Hsp. destruct Hsp as (p & <- & Hp_in).
  cbn [entry_date erase_entry] in *.
  unfold check_posting in Hin. unfold erase_posting, account_of in Hin. cbn [fst] in Hin.
  (* a posting with an open directive in force raises nothing *)
  assert (Hnone : mem (acc_name (p_acc p)) (map fst (st_open st)) = true -> False).
  { intros Hmem. rewrite (mem_dated_of_mem _ (t_date t) _ Hmem) in Hin; [destruct Hin|].
    intros a' d' Ha'. specialize (Hdok a' d' Ha'). lia. }
  pose proof (transcode_open_before_use l v sds days bpre t bpost H Hb) as Hobu.
  pose proof (transcode_AL_open_before_use l v sds dl days bpre t bpost Hp Hsyn H Hb) as Hal.
  rewrite Forall_forall in Hal. fold st in Hal, Hobu.
  (* the transaction is a value adjustment, for a good position *)
  assert (Hweak : adjustment (t_date t) t).
  { destruct Hobu as [Hadj'|Hall]; [exact Hadj'|exfalso]. rewrite Forall_forall in Hall. apply Hnone. apply (Hall p Hp_in). }
  assert (Hgood : txn_good t).
  { apply (transcode_txn_good l v sds dl days t Hp Hadj H).
    apply (Permutation_in _ (transcode_entries_perm days [])). rewrite Hb, entry_txns_app. apply in_or_app. right.
    cbn. left. reflexivity. }
  destruct (adjustment_lex_postings _ _ (adjustment_strong _ _ Hweak Hgood))
    as (c & a & HAL & Hok & Hc & Hdesc & (q & Hq_in & Hq_acc) & Haccs).
  (* the posting is the one on the valuation account *)
  assert (Hpa : p_acc p = valuation_account_for a).
  { destruct (Haccs p Hp_in) as [E|E]; [exfalso|exact E]. apply Hnone. apply (Hal p Hp_in). rewrite E. exact HAL. }
  (* the adjusted account is open *)
  assert (Hopen : mem (acc_name a) (map fst (st_open st)) = true).
  { rewrite <- Hq_acc. apply (Hal q Hq_in). rewrite Hq_acc. exact HAL. }
  rewrite Hpa, Hdesc in Hin.
  rewrite (valuation_posting_adjust st c a HAL Hok Hc Hopen) in Hin.
  destruct (mem_dated (acc_name (valuation_account_for a)) (t_date t) (st_open st)); [destruct Hin|].
  destruct Hin as [<-|[]]. unfold known_violation. cbn [v_known_shape v_kind]. split; [reflexivity|].
  destruct (mem (acc_name (valuation_account_for a)) (st_closed st)); [right|left]; reflexivity.
Qed.
