(* C02, layout: which rows the report has.  Every node of the report trees is rendered (one or
   more lines), so the rows are the node paths; a node exists iff some posting that reaches the
   query is mapped onto it or below it.  With --close the postings that reach the query include
   those of the closing transactions; their (account, commodity) pairs are shown to be those of
   Spec.LedgerSpec.closing_entries. *)
From Coq Require Import ZArith QArith List Bool Lia Permutation Sorting.Sorted.
From Knut Require Import Model.Str Model.Dec Model.Date Model.Account Model.Ledger Model.Price
     Model.Journal Model.Check Model.Pipeline Model.Table Model.Report Model.Cli
     Spec.DateSpec Spec.WellformedSpec Spec.LedgerSpec Spec.LedgerSyntax
     Proofs.DecProofs Proofs.DecValue Proofs.PairProofs Proofs.ReportSum Proofs.Conservation
     Proofs.DateProofs Proofs.CheckLemmas Proofs.BeancountProofs Proofs.LedgerProofs Proofs.CloseProofs.
Import ListNotations.
Open Scope Q_scope.

(* ------------------------------------------------------------ Part 1: node paths *)

Fixpoint npaths (n : node) : list account :=
  match n with
  | Node _ p _ _ ch => p :: fold_right (fun c acc => npaths c ++ acc) [] ch
  end.

Definition cpaths (ch : list node) : list account := fold_right (fun c acc => npaths c ++ acc) [] ch.

Lemma npaths_unfold s p hv a ch : npaths (Node s p hv a ch) = p :: cpaths ch.
Proof. reflexivity. Qed.

Lemma npaths_head n : In (n_path n) (npaths n).
Proof. destruct n. left. reflexivity. Qed.

(* the rows of a report: every node but the two roots *)
Definition rows (r : report) : list account := cpaths (n_children (r_al r)) ++ cpaths (n_children (r_eie r)).

Lemma cpaths_children_insert rec h p (S' : list account) l :
  wf_children p l ->
  (forall c, n_path c = p ++ [h] -> wf_node c -> forall x, In x (npaths (rec c)) <-> In x (npaths c) \/ In x S') ->
  forall x, In x (cpaths (children_insert rec h (p ++ [h]) l)) <-> In x (cpaths l) \/ x = p ++ [h] \/ In x S'.
Proof.
  intros Hwf Hrec.
  assert (Hnew : forall x, In x (npaths (rec (Node h (p ++ [h]) false [] []))) <-> x = p ++ [h] \/ In x S').
  { intros x. rewrite (Hrec (Node h (p ++ [h]) false [] []) eq_refl I x). cbn. intuition. }
  induction Hwf as [|c l [Hc1 Hc2] Hl IH]; intros x; cbn [children_insert].
  - unfold cpaths. cbn [fold_right]. rewrite app_nil_r, Hnew. cbn. tauto.
  - destruct (str_cmp h (n_seg c)) eqn:E.
    + apply str_cmp_eq in E. subst h. unfold cpaths. cbn [fold_right]. rewrite !in_app_iff, (Hrec c Hc1 Hc2 x).
      pose proof (npaths_head c) as Hh. rewrite Hc1 in Hh.
      split; [tauto|]. intros [[H|H]|[H|H]]; try tauto. subst x. tauto.
    + unfold cpaths. cbn [fold_right]. rewrite !in_app_iff, Hnew. fold (cpaths l). tauto.
    + unfold cpaths in *. cbn [fold_right]. rewrite !in_app_iff, IH. tauto.
Qed.

Lemma npaths_node_insert k v : forall fuel prefix rest n,
  (length rest <= fuel)%nat -> n_path n = prefix -> wf_node n ->
  forall x, In x (npaths (node_insert fuel prefix rest k v n)) <-> In x (npaths n) \/ In x (prefixes_from prefix rest).
Proof.
  induction fuel as [|fu IH]; intros prefix rest [s p hv a ch] Hlen Hp Hwf x; cbn [n_path] in Hp; subst p.
  - destruct rest; [|cbn in Hlen; lia]. cbn [node_insert prefixes_from]. rewrite !npaths_unfold. cbn. tauto.
  - destruct rest as [|h tail].
    + cbn [node_insert prefixes_from]. rewrite !npaths_unfold. cbn. tauto.
    + cbn [node_insert prefixes_from]. rewrite !npaths_unfold. cbn [In].
      apply wf_node_children in Hwf.
      rewrite (cpaths_children_insert (node_insert fu (prefix ++ [h]) tail k v) h prefix (prefixes_from (prefix ++ [h]) tail) ch Hwf).
      * split; intros H; intuition (subst; auto).
      * intros c Hc Hwc y. apply IH; [cbn in Hlen; lia|exact Hc|exact Hwc].
Qed.

Lemma cpaths_root_insert k v a n : n_path n = [] -> wf_node n ->
  forall x, In x (cpaths (n_children (node_insert (S (length a)) [] a k v n))) <-> In x (cpaths (n_children n)) \/ In x (prefixes_from [] a).
Proof.
  intros Hp Hwf x. destruct n as [s p hv am ch]. cbn [n_path] in Hp. subst p. destruct a as [|h tail].
  - cbn [node_insert n_children prefixes_from]. cbn. tauto.
  - cbn [node_insert n_children prefixes_from]. apply wf_node_children in Hwf.
    rewrite (cpaths_children_insert (node_insert (length (h :: tail)) ([] ++ [h]) tail k v) h [] (prefixes_from ([] ++ [h]) tail) ch Hwf).
    + cbn [In]. split; intros H; intuition (subst; auto).
    + intros c Hc Hwc y. apply npaths_node_insert; [cbn; lia|exact Hc|exact Hwc].
Qed.

Lemma rows_insert r date a c v : wf_report r ->
  forall x, In x (rows (report_insert r date a c v)) <-> In x (rows r) \/ In x (prefixes_from [] a).
Proof.
  intros (W1 & W2 & P1 & P2) x. unfold rows, report_insert.
  destruct (is_AL a); cbn [r_al r_eie]; rewrite !in_app_iff.
  - rewrite (cpaths_root_insert (date, Some c) v a (r_al r) P1 W1). tauto.
  - rewrite (cpaths_root_insert (date, Some c) v a (r_eie r) P2 W2). tauto.
Qed.

Lemma rows_new x : ~ In x (rows new_report).
Proof. intros []. Qed.

(* ------------------------------------------------------------ Part 2: the query stage *)

Definition q_rows (q : query) (dp : Z * posting) : list account :=
  if q_where q (p_acc (snd dp)) (p_com (snd dp)) then
    match q_account q (p_acc (snd dp)) with ShAcc a => prefixes_from [] a | _ => [] end
  else [].

Section QueryRows.
  Variable q : query.

  Lemma query_postings_rows t : forall ps r r' ps',
    wf_report r ->
    fold_postings (query_posting q report_insert) t r ps = ROk (r', ps') ->
    wf_report r' /\
    forall x, In x (rows r') <-> In x (rows r) \/ In x (flat_map (q_rows q) (map (fun p => (t_date t, p)) ps)).
  Proof.
    induction ps as [|p ps IH]; intros r r' ps' Hwf H; cbn [fold_postings] in H.
    - inversion H; subst. split; [assumption|]. intros x. cbn. tauto.
    - destruct (query_posting q report_insert r t p) as [[r1 p1]| |] eqn:E1; try discriminate.
      cbn [rbind fst snd] in H.
      destruct (fold_postings (query_posting q report_insert) t r1 ps) as [[r2 ps2]| |] eqn:E2; try discriminate.
      cbn [rbind fst snd] in H. inversion H; subst r' ps'. clear H.
      assert (Hstep : wf_report r1 /\ forall x, In x (rows r1) <-> In x (rows r) \/ In x (q_rows q (t_date t, p))).
      { unfold query_posting in E1. unfold q_rows. cbn [snd].
        destruct (q_where q (p_acc p) (p_com p)).
        - destruct (q_account q (p_acc p)) as [a| |]; try discriminate.
          + injection E1 as Hr Hp. subst r1 p1.
            split; [apply (rcell_insert [] (None, None) r _ a (p_com p) _ Hwf)|].
            intros x. apply rows_insert. exact Hwf.
          + injection E1 as Hr Hp. subst r1 p1. split; [assumption|]. intros x. cbn. tauto.
        - injection E1 as Hr Hp. subst r1 p1. split; [assumption|]. intros x. cbn. tauto. }
      destruct Hstep as (Hwf1 & Hr1).
      destruct (IH _ _ _ Hwf1 E2) as (Hwf2 & Hr2).
      split; [assumption|]. intros x. cbn [map flat_map]. rewrite in_app_iff, Hr2, Hr1. tauto.
  Qed.

  Lemma query_txns_rows : forall ts r r' ts',
    wf_report r ->
    fold_txns (query_proc q report_insert) r ts = ROk (r', ts') ->
    wf_report r' /\
    forall x, In x (rows r') <-> In x (rows r) \/ In x (flat_map (q_rows q) (txns_postings ts)).
  Proof.
    induction ts as [|t ts IH]; intros r r' ts' Hwf H; cbn [fold_txns] in H.
    - inversion H; subst. split; [assumption|]. intros x. cbn. tauto.
    - cbn [query_proc pr_txn pr_posting rbind] in H.
      destruct (fold_postings (query_posting q report_insert) t r (t_postings t)) as [[r1 ps1]| |] eqn:E1; try discriminate.
      cbn [rbind fst snd] in H.
      destruct (query_postings_rows t _ _ _ _ Hwf E1) as (Hwf1 & Hr1).
      destruct (fold_txns (query_proc q report_insert) r1 ts) as [[r2 ts2]| |] eqn:E2; try discriminate.
      cbn [rbind fst snd] in H. inversion H; subst r' ts'. clear H.
      destruct (IH _ _ _ Hwf1 E2) as (Hwf2 & Hr2).
      split; [assumption|]. intros x. unfold txns_postings in *. cbn [map concat].
      rewrite flat_map_app, in_app_iff, Hr2, Hr1. tauto.
  Qed.

  Lemma query_day_rows r d r' d' :
    wf_report r ->
    process_day (query_proc q report_insert) r d = ROk (r', d') ->
    wf_report r' /\ forall x, In x (rows r') <-> In x (rows r) \/ In x (flat_map (q_rows q) (day_postings d)).
  Proof.
    intros Hwf H. unfold process_day in H.
    cbn [query_proc pr_day_start pr_price pr_open pr_balance pr_close pr_day_end rbind fst snd] in H.
    destruct (fold_txns (query_proc q report_insert) r (d_txns d)) as [[r1 ts1]| |] eqn:E1; try discriminate.
    cbn [rbind fst snd] in H.
    destruct (query_txns_rows _ _ _ _ Hwf E1) as (Hwf1 & Hr1).
    cbn [d_asserts d_closes] in H.
    assert (Ha : forall l s, fold_asserts (query_proc q report_insert) s l = ROk s).
    { induction l as [|a l IHl]; intros s; cbn [fold_asserts query_proc pr_balance rbind]; [reflexivity|apply IHl]. }
    rewrite Ha in H. cbn [rbind] in H. inversion H; subst r' d'.
    split; [assumption|exact Hr1].
  Qed.

  Lemma query_days_rows : forall ds r r' ds',
    wf_report r ->
    process_days (query_proc q report_insert) r ds = ROk (r', ds') ->
    wf_report r' /\ forall x, In x (rows r') <-> In x (rows r) \/ In x (flat_map (q_rows q) (days_postings ds)).
  Proof.
    induction ds as [|d ds IH]; intros r r' ds' Hwf H; cbn [process_days] in H.
    - inversion H; subst. split; [assumption|]. intros x. cbn. tauto.
    - destruct (process_day (query_proc q report_insert) r d) as [[r1 d1]| |] eqn:E1; try discriminate.
      cbn [rbind fst snd] in H.
      destruct (query_day_rows _ _ _ _ Hwf E1) as (Hwf1 & Hr1).
      destruct (process_days (query_proc q report_insert) r1 ds) as [[r2 ds2]| |] eqn:E2; try discriminate.
      cbn [rbind fst snd] in H. inversion H; subst r' ds'. clear H.
      destruct (IH _ _ _ Hwf1 E2) as (Hwf2 & Hr2).
      split; [assumption|]. intros x. unfold days_postings in *. cbn [map concat].
      rewrite flat_map_app, in_app_iff, Hr2, Hr1. tauto.
  Qed.
End QueryRows.

(* ------------------------------------------------------------ Part 3: values are zero without valuation *)

Definition pvz (p : posting) : Prop := is_zero (p_val p) = true.
Definition tvz (t : txn) : Prop := Forall pvz (t_postings t).

Lemma pair_build_vz cr db com q : Forall pvz (pair_build cr db com q dec_nil).
Proof.
  unfold pair_build. destruct (is_neg q || is_zero q && is_neg dec_nil); repeat constructor;
    unfold pvz; cbn [p_val]; rewrite ?is_zero_neg; reflexivity.
Qed.

Lemma postings_create_vz bs ps : postings_create bs = MOk ps -> Forall pvz ps.
Proof.
  revert ps. induction bs as [|b bs IH]; intros ps H; cbn in H.
  - inversion H. constructor.
  - destruct (check_account (b_credit b)); try discriminate. cbn in H.
    destruct (check_account (b_debit b)); try discriminate. cbn in H.
    destruct (postings_create bs) as [ps'| |]; try discriminate. cbn in H. inversion H.
    apply Forall_app. split; [apply pair_build_vz|apply IH; reflexivity].
Qed.

Lemma accrual_parts_vz desc tg acc p amount rem n i ends :
  Forall tvz (accrual_parts desc tg acc p amount rem n i ends).
Proof.
  revert i. induction ends as [|dt rest IH]; intros i; cbn [accrual_parts]; constructor.
  - unfold tvz. cbn [t_postings]. apply pair_build_vz.
  - apply IH.
Qed.

Lemma expand_posting_vz rebook t ac p l : expand_posting_gen rebook t ac p = MOk l -> Forall tvz l.
Proof.
  unfold expand_posting_gen. intros H.
  assert (H1 : Forall tvz (if rebook (p_acc p)
    then [mkTxn (t_date t) (t_desc t) (pair_build (ac_account ac) (p_acc p) (p_com p) (p_qty p) dec_nil) (t_targets t)]
    else [])).
  { destruct (rebook (p_acc p)); repeat constructor. unfold tvz; cbn. apply pair_build_vz. }
  destruct (is_IE (p_acc p)).
  - destruct (new_partition _ _ _); try discriminate.
    destruct (quo_rem _ _ _) as [[amount rem]|]; try discriminate.
    inversion H. apply Forall_app. split; [exact H1|apply accrual_parts_vz].
  - inversion H; subst. exact H1.
Qed.

Lemma expand_postings_vz rebook t ac ps l : expand_postings_gen rebook t ac ps = MOk l -> Forall tvz l.
Proof.
  revert l. induction ps as [|p ps IH]; intros l H; cbn in H.
  - inversion H. constructor.
  - destruct (expand_posting_gen rebook t ac p) as [l1| |] eqn:E1; try discriminate. cbn in H.
    destruct (expand_postings_gen rebook t ac ps) as [l2| |] eqn:E2; try discriminate. cbn in H. inversion H.
    apply Forall_app. split; [eapply expand_posting_vz; eauto|apply IH; reflexivity].
Qed.

Lemma txn_create_vz s l : txn_create s = MOk l -> Forall tvz l.
Proof.
  unfold txn_create, txn_create_gen. intros H.
  destruct (postings_create (st_bookings s)) as [ps| |] eqn:E; try discriminate. cbn in H.
  destruct (st_accrual s) as [ac|].
  - unfold expand_gen in H. destruct (check_account (ac_account ac)); try discriminate. cbn in H.
    eapply expand_postings_vz; eauto.
  - inversion H. repeat constructor. unfold tvz; cbn. eapply postings_create_vz; eauto.
Qed.

Definition pvals_zero (l : list (Z * posting)) : Prop := forall dp, In dp l -> pvz (snd dp).

Lemma parse_directives_vz l ds : parse_directives l = MOk ds -> pvals_zero (flat_postings ds).
Proof.
  revert ds. induction l as [|s l IH]; intros ds H; cbn in H.
  - inversion H. intros dp [].
  - destruct (parse_directive s) as [d1| |] eqn:E1; try discriminate. cbn in H.
    destruct (parse_directives l) as [d2| |] eqn:E2; try discriminate. cbn in H. inversion H; subst ds.
    intros dp Hin. unfold flat_postings in Hin. rewrite map_app, concat_app in Hin. apply in_app_or in Hin.
    destruct Hin as [Hin|Hin]; [|apply (IH d2 eq_refl); exact Hin].
    destruct s; cbn in E1.
    + inversion E1; subst. cbn in Hin. destruct Hin.
    + destruct (check_account acc); try discriminate. inversion E1; subst. cbn in Hin. destruct Hin.
    + destruct (check_account acc); try discriminate. inversion E1; subst. cbn in Hin. destruct Hin.
    + destruct (check_balances bals); try discriminate. inversion E1; subst. cbn in Hin. destruct Hin.
    + destruct (txn_create t) as [ts| |] eqn:E; try discriminate. cbn in E1. inversion E1; subst d1.
      apply txn_create_vz in E. apply in_concat in Hin. destruct Hin as (lp & Hlp & Hin).
      apply in_map_iff in Hlp. destruct Hlp as (dir & <- & Hdir). apply in_map_iff in Hdir. destruct Hdir as (t0 & <- & Ht0).
      apply in_map_iff in Hin. destruct Hin as (p0 & <- & Hp0). cbn [snd].
      rewrite Forall_forall in E. specialize (E _ Ht0). unfold tvz in E. rewrite Forall_forall in E. apply E. exact Hp0.
    + inversion E1; subst. cbn in Hin. destruct Hin.
Qed.

(* ------------------------------------------------------------ Part 4: c_val stays zero *)

Definition vals_zero (m : positions) : Prop := Forall (fun x : pentry => is_zero (snd (snd x)) = true) m.

Lemma is_zero_add_zero a b : is_zero a = true -> is_zero b = true -> is_zero (add a b) = true.
Proof. rewrite !is_zero_value, dvalue_add. intros -> ->. ring. Qed.

Lemma pos_get0_vz m a c : vals_zero m -> is_zero (match pos_get m a c with Some x => x | None => dec_nil end) = true.
Proof.
  intros H. unfold pos_get. destruct (sm_get m (pos_key a c)) as [[[a0 c0] q0]|] eqn:E; [|reflexivity].
  apply sm_get_some_in in E. unfold vals_zero in H. rewrite Forall_forall in H. exact (H _ E).
Qed.

Lemma pos_add_vz m a c x : vals_zero m -> is_zero x = true -> vals_zero (pos_add m a c x).
Proof.
  intros Hm Hx. unfold pos_add. unfold vals_zero. rewrite Forall_forall. intros y Hy.
  apply sm_put_in in Hy. destruct Hy as [->|Hy].
  - cbn [snd]. apply is_zero_add_zero; [apply pos_get0_vz; exact Hm|exact Hx].
  - unfold vals_zero in Hm. rewrite Forall_forall in Hm. apply Hm. exact Hy.
Qed.

Lemma close_postings_vz t : forall ps s s' ps',
  vals_zero (c_val s) -> Forall pvz ps -> fold_postings close_posting t s ps = ROk (s', ps') -> vals_zero (c_val s').
Proof.
  induction ps as [|p ps IH]; intros s s' ps' Hv Hp H; cbn [fold_postings] in H.
  - inversion H; subst. exact Hv.
  - inversion Hp as [|? ? Hp1 Hp2]; subst.
    destruct (close_posting s t p) as [[s1 p1]| |] eqn:E1; try discriminate. cbn [rbind fst snd] in H.
    destruct (fold_postings close_posting t s1 ps) as [[s2 ps2]| |] eqn:E2; try discriminate.
    cbn [rbind fst snd] in H. inversion H; subst s' ps'.
    apply (IH s1 s2 ps2); [|exact Hp2|exact E2].
    unfold close_posting in E1. destruct (is_AL (p_acc p) || acc_eqb (p_acc p) equity_account); inversion E1; subst; [exact Hv|].
    cbn [c_val]. apply pos_add_vz; assumption.
Qed.

Lemma close_txns_vz cds : forall ts s s' ts',
  vals_zero (c_val s) -> Forall tvz ts -> fold_txns (close_proc cds) s ts = ROk (s', ts') -> vals_zero (c_val s').
Proof.
  induction ts as [|t ts IH]; intros s s' ts' Hv Ht H; cbn [fold_txns] in H.
  - inversion H; subst. exact Hv.
  - inversion Ht as [|? ? Ht1 Ht2]; subst.
    cbn [close_proc pr_txn pr_posting rbind] in H.
    destruct (fold_postings close_posting t s (t_postings t)) as [[s1 ps1]| |] eqn:E1; try discriminate.
    cbn [rbind fst snd] in H.
    destruct (fold_txns (close_proc cds) s1 ts) as [[s2 ts2]| |] eqn:E2; try discriminate.
    cbn [rbind fst snd] in H. inversion H; subst s' ts'.
    apply (IH s1 s2 ts2); [|exact Ht2|exact E2]. eapply close_postings_vz; eauto.
Qed.

Lemma closing_txns_vz date vs : vals_zero vs -> forall m, Forall tvz (closing_txns date m vs).
Proof.
  intros Hv. induction m as [|[k0 [[a c] qy]] m IH]; cbn [closing_txns]; [constructor|].
  destruct (is_zero qy && is_zero _); [exact IH|]. constructor; [|exact IH].
  unfold tvz. cbn [t_postings]. pose proof (pos_get0_vz vs a c Hv) as Hz. unfold pair_build.
  destruct (is_neg qy || is_zero qy && is_neg _); repeat constructor; unfold pvz; cbn [p_val]; rewrite ?is_zero_neg; exact Hz.
Qed.

Lemma pvals_tvz ts : pvals_zero (txns_postings ts) -> Forall tvz ts.
Proof.
  intros H. rewrite Forall_forall. intros t Ht. unfold tvz. rewrite Forall_forall. intros p Hp.
  apply (H (t_date t, p)). unfold txns_postings. apply in_concat. exists (map (fun p0 => (t_date t, p0)) (t_postings t)).
  split; [apply in_map_iff; exists t; split; [reflexivity|exact Ht]|apply in_map; exact Hp].
Qed.

Lemma close_day_vz cds s d s' d' :
  vals_zero (c_val s) -> pvals_zero (day_postings d) -> process_day (close_proc cds) s d = ROk (s', d') -> vals_zero (c_val s').
Proof.
  intros Hv Hp H. unfold process_day in H.
  cbn [close_proc pr_day_start pr_price pr_open pr_balance pr_close pr_day_end] in H.
  unfold close_day_start in H.
  assert (Ha : forall l s0, fold_asserts (close_proc cds) s0 l = ROk s0).
  { induction l as [|a l IHl]; intros s0; cbn [fold_asserts close_proc pr_balance rbind]; [reflexivity|apply IHl]. }
  apply pvals_tvz in Hp.
  destruct (existsb (Z.eqb (d_date d)) cds); cbn [rbind fst snd] in H.
  - cbn [set_txns d_txns d_date d_prices d_opens d_asserts d_closes d_normalized] in H.
    destruct (fold_txns (close_proc cds) s (d_txns d ++ closing_txns (d_date d) (c_qty s) (c_val s))) as [[s1 ts1]| |] eqn:E1;
      try discriminate.
    cbn [rbind fst snd] in H. rewrite Ha in H. cbn [rbind] in H. inversion H; subst s' d'.
    eapply close_txns_vz; [exact Hv| |exact E1]. apply Forall_app. split; [exact Hp|apply closing_txns_vz; exact Hv].
  - destruct (fold_txns (close_proc cds) s (d_txns d)) as [[s1 ts1]| |] eqn:E1; try discriminate.
    cbn [rbind fst snd] in H. rewrite Ha in H. cbn [rbind] in H. inversion H; subst s' d'.
    eapply close_txns_vz; eauto.
Qed.

(* ------------------------------------------------------------ Part 5: the postings the close stage adds *)

Lemma oz_eqb_refl o : oz_eqb o o = true.
Proof. apply oz_eqb_eq. reflexivity. Qed.

Lemma days_postings_date ds dp : days_dated ds -> In dp (days_postings ds) -> In (fst dp) (dates ds).
Proof.
  intros Hd. unfold days_postings, dates. induction Hd as [|d ds Hx _ IH]; cbn [map concat]; [intros []|].
  intros Hin. apply in_app_or in Hin. destruct Hin as [Hin|Hin]; [left; symmetry; eapply day_postings_date; eauto|right; auto].
Qed.

Section CloseRows.
  Variable starts : list Z.
  Hypothesis starts_sorted : StronglySorted Z.lt starts.

  Lemma nxt_gt d s : nxt starts d = Some s -> (d < s)%Z /\ In s starts.
  Proof. unfold nxt. intros H. apply find_some in H. destruct H as [H1 H2]. split; [lia|exact H1]. Qed.

  Lemma nxt_le : forall S d, In S starts -> (d < S)%Z -> exists s', nxt starts d = Some s' /\ (s' <= S)%Z.
  Proof.
    unfold nxt. induction starts_sorted as [|s0 rest Hs IH Hall]; intros S d Hin Hlt; [destruct Hin|].
    cbn [find]. rewrite Forall_forall in Hall. destruct (d <? s0)%Z eqn:E.
    - exists s0. split; [reflexivity|]. destruct Hin as [->|Hin]; [lia|]. specialize (Hall _ Hin). lia.
    - destruct Hin as [->|Hin]; [lia|]. apply IH; assumption.
  Qed.

  (* what the closable postings of l owe to the closing day o *)
  Definition owed (o : option Z) (g : account -> commodity -> Q) (l : list (Z * posting)) : Q :=
    qsum (fun dp => if closable_dp dp && oz_eqb (nxt starts (fst dp)) o
                    then g (p_acc (snd dp)) (p_com (snd dp)) * dvalue (p_qty (snd dp)) else 0) l.

  Lemma owed_app o g l1 l2 : owed o g (l1 ++ l2) == owed o g l1 + owed o g l2.
  Proof. apply qsum_app. Qed.

  Lemma owed_later S g l : (forall dp, In dp l -> (S <= fst dp)%Z) -> owed (Some S) g l == 0.
  Proof.
    intros H. apply qsum_zero. intros dp Hin. destruct (closable_dp dp); [|reflexivity]. cbn [andb].
    destruct (oz_eqb (nxt starts (fst dp)) (Some S)) eqn:E; [|reflexivity].
    apply oz_eqb_eq in E. apply nxt_gt in E. specialize (H _ Hin). lia.
  Qed.

  Lemma owed_own cur g l : (forall dp, In dp l -> fst dp = cur) -> owed (nxt starts cur) g l == psum g l.
  Proof.
    intros H. apply qsum_ext. intros dp Hin. rewrite (H _ Hin), oz_eqb_refl, andb_true_r. reflexivity.
  Qed.

  Lemma owed_before cur g l : In cur starts -> (forall dp, In dp l -> (fst dp < cur)%Z) -> owed (nxt starts cur) g l == 0.
  Proof.
    intros Hc H. apply qsum_zero. intros dp Hin. destruct (closable_dp dp); [|reflexivity]. cbn [andb].
    destruct (oz_eqb (nxt starts (fst dp)) (nxt starts cur)) eqn:E; [|reflexivity]. exfalso.
    apply oz_eqb_eq in E. destruct (nxt_le cur (fst dp) Hc (H _ Hin)) as (s' & Hs' & Hle).
    rewrite Hs' in E. symmetry in E. apply nxt_gt in E. lia.
  Qed.

  Definition close_state_at (ALL : list (Z * posting)) (S : Z) (m vs : positions) : Prop :=
    map_ok m /\ vals_zero vs /\ forall g, msum g m == owed (Some S) g ALL.

  Lemma close_days_set : forall ds done lo s s' ds',
    StronglySorted Z.lt (dates ds) -> days_dated ds ->
    (forall dp, In dp done -> (fst dp <= lo)%Z) -> (forall x, In x (dates ds) -> (lo < x)%Z) ->
    (forall s0, In s0 starts -> (lo < s0)%Z -> In s0 (dates ds)) ->
    map_ok (c_qty s) -> vals_zero (c_val s) ->
    posts_ok (days_postings ds) -> pvals_zero (days_postings ds) ->
    (forall g, msum g (c_qty s) == owed (firstclose starts ds) g done) ->
    process_days (close_proc starts) s ds = ROk (s', ds') ->
    (forall x, In x (days_postings ds') -> In x (days_postings ds) \/
        exists S m vs, In S (dates ds) /\ In S starts /\ close_state_at (done ++ days_postings ds) S m vs
                       /\ In x (txns_postings (closing_txns S m vs)))
    /\ (forall x, In x (days_postings ds) -> In x (days_postings ds'))
    /\ (forall S, In S (dates ds) -> In S starts ->
          exists m vs, close_state_at (done ++ days_postings ds) S m vs
                       /\ forall x, In x (txns_postings (closing_txns S m vs)) -> In x (days_postings ds')).
  Proof.
    induction ds as [|d ds IH]; intros done lo s s' ds' Hs Hdt Hdone Hlo Hcov Hm Hv Hok Hpv Hinv H; cbn [process_days] in H.
    - inversion H; subst. split; [intros x []|]. split; [intros x []|intros S []].
    - destruct (process_day (close_proc starts) s d) as [[s1 d1]| |] eqn:E1; try discriminate.
      cbn [rbind fst snd] in H.
      destruct (process_days (close_proc starts) s1 ds) as [[s2 ds2]| |] eqn:E2; try discriminate.
      cbn [rbind fst snd] in H. inversion H; subst s' ds'. clear H.
      unfold dates in Hs, Hlo, Hcov. cbn [map] in Hs, Hlo, Hcov.
      inversion Hs as [|? ? Hs' Hall]; subst. rewrite Forall_forall in Hall.
      inversion Hdt as [|? ? Hd Hdt']; subst.
      assert (Hokd : posts_ok (day_postings d) /\ posts_ok (days_postings ds)).
      { unfold days_postings in Hok. cbn [map concat] in Hok. apply posts_ok_app in Hok. exact Hok. }
      destruct Hokd as [Hokd Hokr].
      assert (Hpvd : pvals_zero (day_postings d) /\ pvals_zero (days_postings ds)).
      { unfold days_postings in Hpv. cbn [map concat] in Hpv. split; intros dp Hin; apply Hpv; apply in_or_app; [left|right]; exact Hin. }
      destruct Hpvd as [Hpvd Hpvr].
      set (cur := d_date d) in *.
      assert (Hown : forall dp, In dp (day_postings d) -> fst dp = cur) by (intros dp Hin; eapply day_postings_date; eauto).
      assert (Hcov' : forall s0, In s0 starts -> (cur < s0)%Z -> In s0 (dates ds)).
      { intros s0 Hin Hlt. destruct (Hcov s0 Hin) as [E|E]; [specialize (Hlo _ (or_introl eq_refl)); lia|lia|exact E]. }
      assert (Hfc : firstclose starts ds = nxt starts cur).
      { unfold firstclose. apply (firstclose_nxt starts starts_sorted cur (dates ds) Hs' Hall Hcov'). }
      assert (Hlater : forall dp, In dp (days_postings (d :: ds)) -> (cur <= fst dp)%Z).
      { intros dp Hin. unfold days_postings in Hin. cbn [map concat] in Hin. apply in_app_or in Hin. destruct Hin as [Hin|Hin].
        - rewrite (Hown _ Hin). lia.
        - apply (days_postings_date ds dp Hdt') in Hin. specialize (Hall _ Hin). lia. }
      destruct (close_day starts s d s1 d1 Hm Hokd E1) as (Hd1 & Hm1 & Hs1). fold cur in Hs1.
      pose proof (close_day_vz starts s d s1 d1 Hv Hpvd E1) as Hv1.
      assert (Hdone' : forall dp, In dp (done ++ day_postings d) -> (fst dp <= cur)%Z).
      { intros dp Hin. apply in_app_or in Hin. destruct Hin as [Hin|Hin].
        - specialize (Hdone _ Hin). specialize (Hlo _ (or_introl eq_refl)). lia.
        - rewrite (Hown _ Hin). lia. }
      assert (Hdlt : forall dp, In dp done -> (fst dp < cur)%Z).
      { intros dp Hin. specialize (Hdone _ Hin). specialize (Hlo _ (or_introl eq_refl)). lia. }
      assert (Hall_eq : (done ++ day_postings d) ++ days_postings ds = done ++ days_postings (d :: ds)).
      { rewrite <- app_assoc. reflexivity. }
      assert (Hinv1 : forall g, msum g (c_qty s1) == owed (firstclose starts ds) g (done ++ day_postings d)).
      { intros g. rewrite Hfc, owed_app, (owed_own cur g _ Hown), (Hs1 g).
        unfold firstclose in Hinv. unfold dates in Hinv. cbn [map find] in Hinv. fold cur in Hinv.
        destruct (existsb (Z.eqb cur) starts) eqn:Ecl.
        - assert (Hc : In cur starts).
          { apply existsb_exists in Ecl. destruct Ecl as (y & Hy & Hey). apply Z.eqb_eq in Hey. subst y. exact Hy. }
          rewrite (owed_before cur g done Hc Hdlt). ring.
        - rewrite (Hinv g). change (find (fun x => existsb (Z.eqb x) starts) (map d_date ds)) with (firstclose starts ds).
          rewrite Hfc. ring. }
      destruct (IH (done ++ day_postings d) cur s1 s2 ds2 Hs' Hdt' Hdone' Hall Hcov' Hm1 Hv1 Hokr Hpvr Hinv1 E2) as (IA & IB & IC).
      rewrite Hall_eq in IA, IC.
      (* the closing day itself *)
      assert (Hcl : existsb (Z.eqb cur) starts = true ->
                    close_state_at (done ++ days_postings (d :: ds)) cur (c_qty s) (c_val s)).
      { intros Ecl. split; [exact Hm|split; [exact Hv|]]. intros g.
        unfold firstclose in Hinv. unfold dates in Hinv. cbn [map find] in Hinv. fold cur in Hinv. rewrite Ecl in Hinv.
        rewrite owed_app, (owed_later cur g _ Hlater), (Hinv g). ring. }
      assert (Hd1p : forall x, In x (day_postings d1) <->
                 In x (day_postings d) \/ (existsb (Z.eqb cur) starts = true /\ In x (txns_postings (closing_txns cur (c_qty s) (c_val s))))).
      { intros x. rewrite Hd1. fold cur. destruct (existsb (Z.eqb cur) starts).
        - rewrite (day_postings_txns (set_txns _ _)). cbn [set_txns d_txns]. rewrite txns_postings_app, in_app_iff, <- day_postings_txns. tauto.
        - split; [tauto|]. intros [Hx|[Hf _]]; [exact Hx|discriminate]. }
      unfold days_postings at 1 3 5. cbn [map concat].
      split; [|split].
      + intros x Hx. apply in_app_or in Hx. destruct Hx as [Hx|Hx].
        * apply Hd1p in Hx. destruct Hx as [Hx|[Ecl Hx]].
          -- left. unfold days_postings. cbn [map concat]. apply in_or_app. left. exact Hx.
          -- right. exists cur, (c_qty s), (c_val s). split; [left; reflexivity|]. split.
             ++ apply existsb_exists in Ecl. destruct Ecl as (y & Hy & Hey). apply Z.eqb_eq in Hey. subst y. exact Hy.
             ++ split; [apply Hcl; exact Ecl|exact Hx].
        * destruct (IA x Hx) as [Hl|(S & m & vs & H1 & H2 & H3 & H4)].
          -- left. unfold days_postings. cbn [map concat]. apply in_or_app. right. exact Hl.
          -- right. exists S, m, vs. split; [right; exact H1|]. split; [exact H2|]. split; [exact H3|exact H4].
      + intros x Hx. unfold days_postings in Hx. cbn [map concat] in Hx. apply in_app_or in Hx. apply in_or_app.
        destruct Hx as [Hx|Hx]; [left; apply Hd1p; left; exact Hx|right; apply IB; exact Hx].
      + intros S HS HSs. unfold dates in HS. cbn [map] in HS. destruct HS as [<-|HS].
        * assert (Ecl : existsb (Z.eqb cur) starts = true).
          { apply existsb_exists. exists cur. split; [exact HSs|apply Z.eqb_refl]. }
          exists (c_qty s), (c_val s). split; [apply Hcl; exact Ecl|].
          intros x Hx. apply in_or_app. left. apply Hd1p. right. split; [exact Ecl|exact Hx].
        * destruct (IC S HS HSs) as (m & vs & H1 & H2). exists m, vs. split; [exact H1|].
          intros x Hx. apply in_or_app. right. apply H2. exact Hx.
  Qed.
End CloseRows.

(* ------------------------------------------------------------ Part 6: the keys of the closing transactions *)

Definition ind (k : account * commodity) (a : account) (c : commodity) : Q := if keq (a, c) k then 1 else 0.

Lemma closing_txns_keys S vs : vals_zero vs -> forall m ac,
  (exists x, In x (txns_postings (closing_txns S m vs)) /\ key_of x = ac) <->
  (exists e : pentry, In e m /\ is_zero (snd (snd e)) = false /\ snd ac = snd (fst (snd e))
                      /\ (fst ac = fst (fst (snd e)) \/ fst ac = equity_account)).
Proof.
  intros Hv. induction m as [|[k0 [[a c] qy]] m IH]; intros ac; cbn [closing_txns].
  - split; [intros (x & [] & _)|intros (e & [] & _)].
  - rewrite (pos_get0_vz vs a c Hv), andb_true_r. destruct (is_zero qy) eqn:Ez.
    + rewrite IH. split; intros (e & He & H1 & H2).
      * exists e. split; [right; exact He|split; assumption].
      * destruct He as [<-|He]; [cbn [snd] in H1; congruence|]. exists e. split; [exact He|split; assumption].
    + unfold txns_postings in *. cbn [map concat t_date t_postings]. split.
      * intros (x & Hx & Hk). apply in_app_or in Hx. destruct Hx as [Hx|Hx].
        -- exists (k0, (a, c, qy)). split; [left; reflexivity|]. cbn [fst snd]. split; [exact Ez|]. subst ac.
           unfold pair_build in Hx. destruct (is_neg qy || is_zero qy && is_neg _); cbn [map] in Hx;
             destruct Hx as [<-|[<-|[]]]; unfold key_of; cbn [fst snd p_acc p_com]; tauto.
        -- destruct (proj1 (IH ac) (ex_intro _ x (conj Hx Hk))) as (e & He & H1). exists e. split; [right; exact He|exact H1].
      * intros (e & He & H1 & H2 & H3). destruct He as [<-|He].
        -- cbn [fst snd] in H2, H3. destruct ac as [a' c']. cbn [fst snd] in H2, H3. subst c'.
           unfold pair_build. destruct (is_neg qy || is_zero qy && is_neg _); cbn [map];
             destruct H3 as [->| ->];
             first [ eexists; split; [apply in_or_app; left; left; reflexivity|reflexivity]
                   | eexists; split; [apply in_or_app; left; right; left; reflexivity|reflexivity] ].
        -- destruct (proj2 (IH ac) (ex_intro _ e (conj He (conj H1 (conj H2 H3))))) as (x & Hx & Hk).
           exists x. split; [apply in_or_app; right; exact Hx|exact Hk].
Qed.

Lemma msum_ind_absent m k : Forall entry_ok m -> account_ok (fst k) = true ->
  (forall e : pentry, In e m -> fst e <> pos_key (fst k) (snd k)) -> msum (ind k) m == 0.
Proof.
  intros Hok Hk Hne. apply qsum_zero. intros [k0 [[a c] qy]] Hin. cbn [fst snd]. unfold ind.
  destruct (keq (a, c) k) eqn:E; [|ring]. exfalso.
  rewrite Forall_forall in Hok. destruct (Hok _ Hin) as (H1 & H2 & _). cbn [fst snd] in H1, H2.
  assert (Ek : (a, c) = k) by (apply keq_eq; assumption). subst k. apply (Hne _ Hin). exact H1.
Qed.

Lemma msum_ind_present : forall m k0 a c qy, map_ok m -> In (k0, (a, c, qy)) m -> msum (ind (a, c)) m == dvalue qy.
Proof.
  induction m as [|e m IH]; intros k0 a c qy [Hs Hok] Hin; [destruct Hin|].
  inversion Hs as [|? ? Hs' Hall]; subst. inversion Hok as [|? ? He Hok']; subst. rewrite Forall_forall in Hall.
  assert (Hthis : forall e0 : pentry, In e0 (e :: m) -> entry_ok e0) by (apply Forall_forall; exact Hok).
  destruct (Hthis _ Hin) as (Hk0 & Ha & _). cbn [fst snd] in Hk0, Ha.
  rewrite msum_cons. destruct Hin as [->|Hin].
  - cbn [fst snd]. unfold ind at 1. rewrite keq_refl.
    rewrite (msum_ind_absent m (a, c) Hok' Ha); [ring|].
    intros e0 He0 Heq. specialize (Hall _ He0). unfold key_lt in Hall. cbn [fst snd] in Hall, Heq.
    rewrite Heq, <- Hk0 in Hall. exact (str_cmp_lt_irrefl _ Hall).
  - rewrite (IH k0 a c qy (conj Hs' Hok') Hin).
    destruct e as [k1 [[a1 c1] q1]]. cbn [fst snd]. unfold ind.
    destruct (keq (a1, c1) (a, c)) eqn:E; [|ring]. exfalso.
    destruct He as (H1 & H2 & _). cbn [fst snd] in H1, H2.
    assert (Ek : (a1, c1) = (a, c)) by (apply keq_eq; assumption). inversion Ek; subst a1 c1.
    specialize (Hall _ Hin). unfold key_lt in Hall. cbn [fst] in Hall. rewrite H1, <- Hk0 in Hall.
    exact (str_cmp_lt_irrefl _ Hall).
Qed.

Lemma state_nonzero starts ALL S m vs k :
  close_state_at starts ALL S m vs -> account_ok (fst k) = true ->
  ((exists e : pentry, In e m /\ is_zero (snd (snd e)) = false /\ (fst (fst (snd e)), snd (fst (snd e))) = k)
   <-> ~ owed starts (Some S) (ind k) ALL == 0).
Proof.
  intros (Hm & _ & Hsum) Hk. rewrite <- (Hsum (ind k)). split.
  - intros ([k0 [[a c] qy]] & Hin & Hz & Hkk). cbn [fst snd] in Hz, Hkk. subst k.
    rewrite (msum_ind_present m k0 a c qy Hm Hin). intros H0. apply is_zero_value in H0. congruence.
  - intros Hnz. destruct k as [a c]. cbn [fst snd] in Hk.
    destruct (sm_get m (pos_key a c)) as [[[a0 c0] q0]|] eqn:Eg.
    + apply sm_get_some_in in Eg. destruct Hm as [Hs Hok]. pose proof Hok as Hok2. rewrite Forall_forall in Hok2.
      destruct (Hok2 _ Eg) as (H1 & H2 & _). cbn [fst snd] in H1, H2.
      destruct (pos_key_inj _ _ _ _ Hk H2 H1) as [<- <-].
      exists (pos_key a c, (a, c, q0)). split; [exact Eg|]. cbn [fst snd]. split; [|reflexivity].
      destruct (is_zero q0) eqn:Ez; [|reflexivity]. exfalso. apply Hnz.
      rewrite (msum_ind_present m _ a c q0 (conj Hs Hok) Eg). apply is_zero_value. exact Ez.
    + exfalso. apply Hnz. apply msum_ind_absent; [exact (proj2 Hm)|exact Hk|].
      intros e He Heq. cbn [fst snd] in Heq. destruct e as [k1 v1]. cbn [fst] in Heq. subst k1.
      assert (Hg : sm_get m (pos_key a c) = Some v1) by (apply sm_get_in_sorted; [exact (proj1 Hm)|exact He]).
      congruence.
Qed.

(* ------------------------------------------------------------ Part 7: the keys of the closing entries (specification) *)

Definition ekey (e : entry) : account * commodity := (snd (fst (fst e)), snd (fst e)).

Section SpecKeys.
  Variable posts : list (Z * posting).
  Variable keys : list (account * commodity).

  Definition specV (prev : Z) (sts : list Z) (S : Z) (k : account * commodity) : Q :=
    qsum (fun dp => if (prev <=? fst dp)%Z && oz_eqb (nxt sts (fst dp)) (Some S) && keq (key_of dp) k
                    then dvalue (p_qty (snd dp)) else 0) posts.

  Lemma specV_head prev S rest k : StronglySorted Z.lt (S :: rest) ->
    dvalue (sum_between posts k prev (S - 1)) == specV prev (S :: rest) S k.
  Proof.
    intros Hs. rewrite sum_between_value. apply qsum_ext. intros dp _.
    inversion Hs as [|? ? _ Hall]; subst. rewrite Forall_forall in Hall.
    assert (E : ((prev <=? fst dp) && (fst dp <=? S - 1))%Z = ((prev <=? fst dp)%Z && oz_eqb (nxt (S :: rest) (fst dp)) (Some S))).
    { f_equal. unfold nxt. cbn [find]. destruct (fst dp <? S)%Z eqn:E1.
      - cbn [oz_eqb]. rewrite Z.eqb_refl. lia.
      - destruct (find (fun s => (fst dp <? s)%Z) rest) as [s2|] eqn:Ef; cbn [oz_eqb]; [|lia].
        apply find_some in Ef. destruct Ef as [Hin _]. specialize (Hall _ Hin). lia. }
    rewrite E. reflexivity.
  Qed.

  Lemma specV_tail prev S rest S' k : StronglySorted Z.lt (S :: rest) -> (prev <= S)%Z -> In S' rest ->
    specV S rest S' k == specV prev (S :: rest) S' k.
  Proof.
    intros Hs Hp Hin. apply qsum_ext. intros dp _.
    inversion Hs as [|? ? _ Hall]; subst. rewrite Forall_forall in Hall. specialize (Hall _ Hin).
    assert (E : ((S <=? fst dp)%Z && oz_eqb (nxt rest (fst dp)) (Some S')) = ((prev <=? fst dp)%Z && oz_eqb (nxt (S :: rest) (fst dp)) (Some S'))).
    { unfold nxt. cbn [find]. destruct (fst dp <? S)%Z eqn:E1.
      - cbn [oz_eqb]. replace (S <=? fst dp)%Z with false by lia. replace (S =? S')%Z with false by lia.
        rewrite andb_false_r. reflexivity.
      - replace (S <=? fst dp)%Z with true by lia. replace (prev <=? fst dp)%Z with true by lia. reflexivity. }
    rewrite E. reflexivity.
  Qed.

  Lemma spec_close_keys : forall ps prev ac,
    StronglySorted Z.lt (map p_start ps) -> Forall (fun p => (prev <= p_start p)%Z) ps ->
    ((exists e, In e (closing_entries posts keys prev ps) /\ ekey e = ac) <->
     (exists p k, In p ps /\ In k keys /\ ~ specV prev (map p_start ps) (p_start p) k == 0
                  /\ snd ac = snd k /\ (fst ac = fst k \/ fst ac = equity_account))).
  Proof.
    induction ps as [|p ps IH]; intros prev ac Hs Hall; cbn [closing_entries].
    - split; [intros (e & [] & _)|intros (p & k & [] & _)].
    - cbn [map] in Hs. inversion Hs as [|? ? Hs' Hlt]; subst. rewrite Forall_forall in Hlt.
      inversion Hall as [|? ? Hp Hall']; subst.
      assert (Hall2 : Forall (fun x => (p_start p <= p_start x)%Z) ps).
      { rewrite Forall_forall. intros x Hx. assert (Hi : In (p_start x) (map p_start ps)) by (apply in_map; exact Hx).
        specialize (Hlt _ Hi). lia. }
      specialize (IH (p_start p) ac Hs' Hall2).
      split.
      + intros (e & He & Hk). apply in_app_or in He. destruct He as [He|He].
        * apply in_concat in He. destruct He as (l & Hl & He). apply in_map_iff in Hl. destruct Hl as (k & <- & Hkin).
          destruct (is_zero (sum_between posts k prev (p_start p - 1))) eqn:Ez; [destruct He|].
          exists p, k. split; [left; reflexivity|]. split; [exact Hkin|]. split.
          -- cbn [map]. rewrite <- (specV_head prev (p_start p) (map p_start ps) k Hs). intros H0.
             apply is_zero_value in H0. congruence.
          -- subst ac. destruct He as [<-|[<-|[]]]; unfold ekey; cbn [fst snd]; tauto.
        * destruct (proj1 IH (ex_intro _ e (conj He Hk))) as (p' & k & Hp' & Hkin & Hnz & H1).
          exists p', k. split; [right; exact Hp'|]. split; [exact Hkin|]. split; [|exact H1].
          cbn [map]. rewrite <- (specV_tail prev (p_start p) (map p_start ps) (p_start p') k Hs Hp); [exact Hnz|].
          apply in_map. exact Hp'.
      + intros (p' & k & Hp' & Hkin & Hnz & H1 & H2). destruct Hp' as [<-|Hp'].
        * cbn [map] in Hnz. rewrite <- (specV_head prev (p_start p) (map p_start ps) k Hs) in Hnz.
          assert (Ez : is_zero (sum_between posts k prev (p_start p - 1)) = false).
          { destruct (is_zero (sum_between posts k prev (p_start p - 1))) eqn:E; [|reflexivity].
            exfalso. apply Hnz. apply is_zero_value. exact E. }
          destruct ac as [a' c']. cbn [fst snd] in H1, H2. subst c'.
          destruct H2 as [->| ->].
          -- exists (p_end p, fst k, snd k, neg (sum_between posts k prev (p_start p - 1))). split; [|reflexivity].
             apply in_or_app. left. apply in_concat. eexists. split; [apply in_map_iff; exists k; split; [reflexivity|exact Hkin]|].
             cbn beta. rewrite Ez. left. reflexivity.
          -- exists (p_end p, [s_Equity; s_Equity], snd k, sum_between posts k prev (p_start p - 1)). split; [|reflexivity].
             apply in_or_app. left. apply in_concat. eexists. split; [apply in_map_iff; exists k; split; [reflexivity|exact Hkin]|].
             cbn beta. rewrite Ez. right. left. reflexivity.
        * cbn [map] in Hnz. rewrite <- (specV_tail prev (p_start p) (map p_start ps) (p_start p') k Hs Hp) in Hnz by (apply in_map; exact Hp').
          destruct (proj2 IH (ex_intro _ p' (ex_intro _ k (conj Hp' (conj Hkin (conj Hnz (conj H1 H2))))))) as (e & He & Hk).
          exists e. split; [apply in_or_app; right; exact He|exact Hk].
  Qed.
End SpecKeys.

(* ------------------------------------------------------------ Part 8: assembly *)

Definition e_rows (cfg : balance_cfg) (ac : account * commodity) : list account :=
  if cfg_where cfg (fst ac) (snd ac) then
    match shorten (bc_mapping cfg) (remap (bc_remap cfg) (fst ac)) with ShAcc a' => prefixes_from [] a' | _ => [] end
  else [].

Lemma q_rows_balance cfg part x : q_rows (balance_query cfg part) x = e_rows cfg (key_of x).
Proof. reflexivity. Qed.

Lemma mapped_rows cfg es row :
  (exists e, In e (mapped_entries cfg es) /\ (let '(_, a, _, _) := e in In row (prefixes_from [] a))) <->
  (exists e, In e es /\ In row (e_rows cfg (ekey e))).
Proof.
  unfold mapped_entries. split.
  - intros (e & He & Hr). apply in_concat in He. destruct He as (l & Hl & He). apply in_map_iff in Hl.
    destruct Hl as ([[[col a] c] v] & <- & Hin). exists (col, a, c, v). split; [exact Hin|].
    unfold e_rows, ekey. cbn [fst snd]. destruct (cfg_where cfg a c); [|destruct He].
    destruct (shorten (bc_mapping cfg) (remap (bc_remap cfg) a)) as [a'| |]; try destruct He as [<-|[]]; try destruct He. exact Hr.
  - intros ([[[col a] c] v] & Hin & Hr). unfold e_rows, ekey in Hr. cbn [fst snd] in Hr.
    destruct (cfg_where cfg a c) eqn:Ew; [|destruct Hr].
    destruct (shorten (bc_mapping cfg) (remap (bc_remap cfg) a)) as [a'| |] eqn:Es; try destruct Hr.
    exists (col, a', c, v). split; [|exact Hr]. apply in_concat. eexists. split; [apply in_map_iff; exists (col, a, c, v); split; [reflexivity|exact Hin]|].
    cbn beta iota. rewrite Ew, Es. left. reflexivity.
Qed.

Lemma column_some : forall ps s e d, tiles s e ps -> (d <= e)%Z -> column_for ps d <> None.
Proof.
  induction ps as [|p ps IH]; intros s e d Ht Hd; [destruct Ht|]. cbn [tiles] in Ht. destruct Ht as (_ & _ & Hrest).
  cbn [column_for]. destruct (d <=? p_end p)%Z eqn:E; [discriminate|].
  destruct ps as [|p2 ps]; [lia|]. eapply IH; eauto.
Qed.

Lemma user_entries_keys sp ps posts ac :
  (forall d, in_span sp d = true -> column_for ps d <> None) ->
  ((exists e, In e (user_entries sp ps posts) /\ ekey e = ac) <->
   (exists dp, In dp posts /\ in_span sp (fst dp) = true /\ key_of dp = ac)).
Proof.
  intros Hcol. unfold user_entries. split.
  - intros (e & He & Hk). apply in_concat in He. destruct He as (l & Hl & He). apply in_map_iff in Hl.
    destruct Hl as ([d p] & <- & Hin). exists (d, p). split; [exact Hin|]. cbn [fst]. unfold in_span.
    destruct ((p_start sp <=? d)%Z && (d <=? p_end sp)%Z); [|destruct He]. split; [reflexivity|].
    destruct (column_for ps d); [|destruct He]. destruct He as [<-|[]]. exact Hk.
  - intros ([d p] & Hin & Hsp & Hk). cbn [fst] in Hsp. pose proof (Hcol d Hsp) as Hc.
    destruct (column_for ps d) as [col|] eqn:Ec; [|congruence].
    exists (col, p_acc p, p_com p, p_qty p). split; [|exact Hk].
    apply in_concat. eexists. split; [apply in_map_iff; exists (d, p); split; [reflexivity|exact Hin]|].
    cbn beta iota. unfold in_span in Hsp. rewrite Hsp, Ec. left. reflexivity.
Qed.

Lemma filt_in_iff sp ds dp : days_dated ds ->
  (In dp (days_postings (map (filt sp) ds)) <-> In dp (days_postings ds) /\ in_span sp (fst dp) = true).
Proof.
  intros Hd. unfold days_postings. induction Hd as [|d ds Hx _ IH]; cbn [map concat]; [cbn; tauto|].
  rewrite !in_app_iff, IH. unfold filt. rewrite period_contains_in_span.
  destruct (in_span sp (d_date d)) eqn:E.
  - split; [|tauto]. intros [H|H]; [|tauto]. split; [left; exact H|]. rewrite (day_postings_date d dp Hx H). exact E.
  - unfold day_postings at 1. cbn [set_txns d_txns map concat In]. split; [tauto|].
    intros [[H|H] Hs]; [|tauto]. rewrite (day_postings_date d dp Hx H) in Hs. congruence.
Qed.

Lemma closing_entries_nokeys posts : forall ps prev, closing_entries posts [] prev ps = [].
Proof. induction ps as [|p ps IH]; intros prev; cbn [closing_entries map concat app]; [reflexivity|apply IH]. Qed.

(* model and specification agree on what a key owes to a period start *)
Lemma owed_specV part dl k S :
  part_facts part -> (p_start (span part) <= p_end (span part))%Z ->
  postings_syntactic dl -> account_ok (fst k) = true -> closable (fst k) = true -> In S (start_dates part) ->
  owed (start_dates part) (Some S) (ind k)
       ([] ++ days_postings (map (filt (span part)) (b_days (builder_touch (builder_of dl) (start_dates part)))))
  == specV (flat_postings dl) (p_start (span part)) (map p_start (periods part)) S k.
Proof.
  intros [Hss Htiles] Hle Hsyn Hk Hck HS. destruct (Htiles Hle) as [Ht Hfs]. destruct (tiles_facts _ _ _ Ht) as [_ Hb].
  cbn [app]. unfold owed. rewrite (filt_sum _ _ _ (builder_touch_dated _ _ (builder_of_dated dl))).
  assert (Hperm : Permutation (days_postings (b_days (builder_touch (builder_of dl) (start_dates part)))) (flat_postings dl)).
  { rewrite builder_touch_perm. apply builder_of_perm. }
  rewrite (qsum_perm _ _ _ Hperm). unfold specV. apply qsum_ext. intros [d p] Hin. cbn [fst snd].
  unfold start_dates. unfold ind, key_of. cbn [fst snd].
  destruct (keq (p_acc p, p_com p) k) eqn:Ek.
  2: { rewrite andb_false_r. destruct (in_span (span part) d); [|reflexivity].
       destruct (closable_dp (d, p) && oz_eqb (nxt (map p_start (periods part)) d) (Some S)); ring. }
  assert (Ekk : (p_acc p, p_com p) = k) by (apply keq_eq; [apply (Hsyn d p Hin)|exact Hk|exact Ek]).
  assert (Hcl : closable_dp (d, p) = true) by (unfold closable_dp; cbn [snd]; rewrite <- Ekk in Hck; exact Hck).
  rewrite Hcl, andb_true_r. cbn [andb].
  destruct (oz_eqb (nxt (map p_start (periods part)) d) (Some S)) eqn:En.
  - apply oz_eqb_eq in En. apply nxt_gt in En. destruct En as [Hlt _].
    unfold start_dates in HS. apply in_map_iff in HS. destruct HS as (p0 & <- & Hp0).
    rewrite Forall_forall in Hb. specialize (Hb _ Hp0).
    unfold in_span. rewrite andb_true_r. replace (d <=? p_end (span part))%Z with true by lia. rewrite andb_true_r.
    destruct (p_start (span part) <=? d)%Z; ring.
  - rewrite andb_false_r. destruct (in_span (span part) d); reflexivity.
Qed.

Lemma close_keys_equiv part dl s5 d5 :
  part_facts part -> postings_syntactic dl -> pvals_zero (flat_postings dl) ->
  process_days (close_proc (start_dates part)) (mkClose [] [])
    (map (filt (span part)) (b_days (builder_touch (builder_of dl) (start_dates part)))) = ROk (s5, d5) ->
  forall ac,
    (exists x, In x (days_postings d5) /\ key_of x = ac) <->
    (exists e, In e (user_entries (span part) (periods part) (flat_postings dl) ++
                     closing_entries (flat_postings dl) (closable_keys (span part) (flat_postings dl)) (p_start (span part)) (periods part))
               /\ ekey e = ac).
Proof.
  intros Hpf Hsyn Hpvz H. pose proof Hpf as [Hss Htiles].
  set (sp := span part) in *. set (ps := periods part) in *. set (posts := flat_postings dl) in *.
  set (days0 := b_days (builder_touch (builder_of dl) (start_dates part))) in *.
  assert (Hperm : Permutation (days_postings days0) posts).
  { unfold days0. rewrite builder_touch_perm. apply builder_of_perm. }
  assert (Hdated0 : days_dated days0) by (apply builder_touch_dated; apply builder_of_dated).
  assert (Hsorted0 : StronglySorted Z.lt (dates days0)).
  { apply Sorted_StronglySorted; [intros x y z; apply Z.lt_trans|].
    unfold days0, builder_touch. cbn [b_days]. apply touch_sorted. apply builder_of_sorted. }
  assert (Hcov0 : forall s, In s (start_dates part) -> In s (dates days0)).
  { unfold days0, builder_touch. cbn [b_days]. apply (proj1 (touch_dates _ _)). }
  set (days1 := map (filt sp) days0) in *.
  assert (Hin1 : forall dp, In dp (days_postings days1) <-> In dp posts /\ in_span sp (fst dp) = true).
  { intros dp. unfold days1. rewrite (filt_in_iff sp days0 dp Hdated0). split; intros [A B]; (split; [|exact B]).
    - eapply Permutation_in; [exact Hperm|exact A].
    - eapply Permutation_in; [apply Permutation_sym; exact Hperm|exact A]. }
  assert (Hok : posts_ok posts) by (intros [d p] Hin; apply (Hsyn d p Hin)).
  assert (Hok1 : posts_ok (days_postings days1)) by (intros dp Hin; apply Hok; apply Hin1; exact Hin).
  assert (Hpv1 : pvals_zero (days_postings days1)) by (intros dp Hin; apply Hpvz; apply Hin1; exact Hin).
  assert (Hsorted1 : StronglySorted Z.lt (dates days1)) by (unfold days1; rewrite filt_dates; exact Hsorted0).
  assert (Hdated1 : days_dated days1) by (apply filt_dated; exact Hdated0).
  destruct (sorted_lower _ Hsorted1) as (lo & Hlo).
  assert (Hcov1 : forall s0, In s0 (start_dates part) -> (lo < s0)%Z -> In s0 (dates days1)).
  { intros s0 Hs0 _. unfold days1. rewrite filt_dates. apply Hcov0. exact Hs0. }
  assert (Hinv0 : forall g, msum g (c_qty (mkClose [] [])) == owed (start_dates part) (firstclose (start_dates part) days1) g []) by (intros g; reflexivity).
  destruct (close_days_set (start_dates part) Hss days1 [] lo (mkClose [] []) s5 d5 Hsorted1 Hdated1
              (fun dp (Hf : In dp []) => match Hf with end) Hlo Hcov1 map_ok_nil (Forall_nil _) Hok1 Hpv1 Hinv0 H) as (HA & HB & HC).
  assert (Hle_of : forall dp, In dp (days_postings days1) -> (p_start sp <= p_end sp)%Z).
  { intros dp Hin. apply Hin1 in Hin. destruct Hin as [_ Hs]. unfold in_span in Hs. lia. }
  assert (Hcol : forall d, in_span sp d = true -> column_for ps d <> None).
  { intros d Hs. unfold in_span in Hs. destruct (Htiles ltac:(fold sp; lia)) as [Ht _].
    apply (column_some _ _ _ d Ht). fold sp. lia. }
  assert (Huser : forall ac, (exists x, In x (days_postings days1) /\ key_of x = ac) <->
                             (exists e, In e (user_entries sp ps posts) /\ ekey e = ac)).
  { intros ac. rewrite (user_entries_keys sp ps posts ac Hcol). split; intros (x & Hx & Hk).
    - apply Hin1 in Hx. exists x. tauto.
    - destruct Hk as [Hk1 Hk2]. exists x. split; [apply Hin1; tauto|exact Hk2]. }
  assert (Hkeys_ok : forall k, In k (closable_keys sp posts) -> account_ok (fst k) = true /\ closable (fst k) = true
                                 /\ (p_start sp <= p_end sp)%Z).
  { intros k Hk. rewrite closable_keys_fold in Hk. destruct (keys_sound sp k posts [] Hk) as [[]|(dp & A & -> & C & D)].
    split; [apply Hok; exact A|]. split; [exact D|]. unfold span_dp, in_span in C. lia. }
  assert (Hfacts : (p_start sp <= p_end sp)%Z ->
            StronglySorted Z.lt (map p_start ps) /\ Forall (fun p => (p_start sp <= p_start p)%Z) ps).
  { intros Hle. destruct (Htiles Hle) as [Ht Hfs]. destruct (tiles_facts _ _ _ Ht) as [_ Hb].
    split; [exact Hss|]. eapply Forall_impl; [|exact Hb]. cbn. intros x Hx. fold sp ps in Hfs. lia. }
  intros ac. split.
  - intros (x & Hx & Hk). destruct (HA x Hx) as [H1|(S & m & vs & HS & HSs & Hst & Hxin)].
    + destruct (proj1 (Huser ac) (ex_intro _ x (conj H1 Hk))) as (e & He & Hek).
      exists e. split; [apply in_or_app; left; exact He|exact Hek].
    + pose proof Hst as (Hm & Hvz & _).
      destruct (proj1 (closing_txns_keys S vs Hvz m ac) (ex_intro _ x (conj Hxin Hk))) as (e0 & He0 & Hz0 & Hc0 & Ha0).
      set (k := (fst (fst (snd e0)), snd (fst (snd e0)))).
      destruct Hm as [_ Hmok]. rewrite Forall_forall in Hmok. destruct (Hmok _ He0) as (_ & Hka & Hkc).
      assert (Hnz : ~ owed (start_dates part) (Some S) (ind k) ([] ++ days_postings days1) == 0).
      { apply (proj1 (state_nonzero _ _ _ _ _ k Hst Hka)). exists e0. split; [exact He0|split; [exact Hz0|reflexivity]]. }
      destruct (existsb (fun dp => closable_dp dp && keq (key_of dp) k) (days_postings days1)) eqn:Ex.
      2: { exfalso. apply Hnz. cbn [app]. apply qsum_zero. intros dp Hin.
           assert (Hf : closable_dp dp && keq (key_of dp) k = false).
           { destruct (closable_dp dp && keq (key_of dp) k) eqn:E; [|reflexivity].
             assert (Ht : existsb (fun dp0 => closable_dp dp0 && keq (key_of dp0) k) (days_postings days1) = true)
               by (apply existsb_exists; exists dp; split; assumption).
             congruence. }
           unfold ind. change (p_acc (snd dp), p_com (snd dp)) with (key_of dp).
           destruct (closable_dp dp); cbn [andb] in *; [rewrite Hf; destruct (oz_eqb _ _); ring|reflexivity]. }
      apply existsb_exists in Ex. destruct Ex as (dp & Hdp & Hck). apply andb_true_iff in Hck. destruct Hck as [Hcl Hkq].
      pose proof (Hle_of dp Hdp) as Hle. apply Hin1 in Hdp. destruct Hdp as [Hdpin Hdpsp].
      assert (Ekk : key_of dp = k) by (apply keq_eq; [apply Hok; exact Hdpin|exact Hka|exact Hkq]).
      assert (Hkin : In k (closable_keys sp posts)).
      { pose proof (keys_complete sp dp posts [] Hdpin Hdpsp Hcl) as Hex. rewrite <- closable_keys_fold in Hex.
        apply existsb_exists in Hex. destruct Hex as (k' & Hk' & Hkq').
        destruct (Hkeys_ok k' Hk') as (Hk'a & _).
        assert (E' : key_of dp = k') by (apply keq_eq; [apply Hok; exact Hdpin|exact Hk'a|exact Hkq']).
        rewrite <- Ekk, E'. exact Hk'. }
      destruct (Hfacts Hle) as [Hst1 Hall1].
      pose proof HSs as HSs2. unfold start_dates in HSs2. apply in_map_iff in HSs2. destruct HSs2 as (p0 & Hp0s & Hp0).
      assert (Hos : owed (start_dates part) (Some S) (ind k) ([] ++ days_postings days1)
                    == specV posts (p_start sp) (map p_start ps) S k)
        by (exact (owed_specV part dl k S Hpf Hle Hsyn Hka Hkc HSs)).
      assert (Hnz2 : ~ specV posts (p_start sp) (map p_start ps) S k == 0) by (intros H0; apply Hnz; rewrite Hos; exact H0).
      destruct (proj2 (spec_close_keys posts (closable_keys sp posts) ps (p_start sp) ac Hst1 Hall1)) as (e & He & Hek).
      { exists p0, k. split; [exact Hp0|]. split; [exact Hkin|]. split; [rewrite Hp0s; exact Hnz2|]. split; [exact Hc0|exact Ha0]. }
      exists e. split; [apply in_or_app; right; exact He|exact Hek].
  - intros (e & He & Hek). apply in_app_or in He. destruct He as [He|He].
    + destruct (proj2 (Huser ac) (ex_intro _ e (conj He Hek))) as (x & Hx & Hk). exists x. split; [apply HB; exact Hx|exact Hk].
    + destruct (Z_le_gt_dec (p_start sp) (p_end sp)) as [Hle|Hgt].
      2: { exfalso. rewrite (closable_keys_empty sp posts) in He by (intros d; unfold in_span; lia).
           rewrite closing_entries_nokeys in He. destruct He. }
      destruct (Hfacts Hle) as [Hst1 Hall1].
      destruct (proj1 (spec_close_keys posts (closable_keys sp posts) ps (p_start sp) ac Hst1 Hall1) (ex_intro _ e (conj He Hek)))
        as (p0 & k & Hp0 & Hkin & Hnz & Hc0 & Ha0).
      destruct (Hkeys_ok k Hkin) as (Hka & Hkc & _).
      assert (HSs : In (p_start p0) (start_dates part)) by (unfold start_dates; apply in_map; exact Hp0).
      assert (HS : In (p_start p0) (dates days1)) by (unfold days1; rewrite filt_dates; apply Hcov0; exact HSs).
      destruct (HC (p_start p0) HS HSs) as (m & vs & Hst & Hsub).
      assert (Hos : owed (start_dates part) (Some (p_start p0)) (ind k) ([] ++ days_postings days1)
                    == specV posts (p_start sp) (map p_start ps) (p_start p0) k)
        by (exact (owed_specV part dl k (p_start p0) Hpf Hle Hsyn Hka Hkc HSs)).
      assert (Hnz2 : ~ owed (start_dates part) (Some (p_start p0)) (ind k) ([] ++ days_postings days1) == 0)
        by (intros H0; apply Hnz; rewrite <- Hos; exact H0).
      destruct (proj2 (state_nonzero _ _ _ _ _ k Hst Hka) Hnz2) as (e0 & He0 & Hz0 & Hk0).
      pose proof Hst as (_ & Hvz & _).
      destruct (proj2 (closing_txns_keys (p_start p0) vs Hvz m ac)) as (x & Hx & Hk).
      { exists e0. split; [exact He0|]. split; [exact Hz0|]. rewrite <- Hk0 in Hc0, Ha0. cbn [fst snd] in Hc0, Ha0. split; assumption. }
      exists x. split; [apply Hsub; exact Hx|exact Hk].
Qed.

Lemma user_keys_equiv part posts days0 :
  part_facts part -> Permutation (days_postings days0) posts -> days_dated days0 ->
  forall ac,
    (exists x, In x (days_postings (map (filt (span part)) days0)) /\ key_of x = ac) <->
    (exists e, In e (user_entries (span part) (periods part) posts) /\ ekey e = ac).
Proof.
  intros [_ Htiles] Hperm Hdated ac.
  assert (Hcol : forall d, in_span (span part) d = true -> column_for (periods part) d <> None).
  { intros d Hs. unfold in_span in Hs. destruct (Htiles ltac:(lia)) as [Ht _]. apply (column_some _ _ _ d Ht). lia. }
  rewrite (user_entries_keys _ _ posts ac Hcol). split; intros (x & Hx & Hk).
  - apply (filt_in_iff _ _ _ Hdated) in Hx. destruct Hx as [A B]. exists x. split; [eapply Permutation_in; [exact Hperm|exact A]|]. tauto.
  - destruct Hk as [Hk1 Hk2]. exists x. split; [|exact Hk2]. apply (filt_in_iff _ _ _ Hdated).
    split; [eapply Permutation_in; [apply Permutation_sym; exact Hperm|exact Hx]|exact Hk1].
Qed.

Lemma rows_from_keys cfg part (r : report) L ES :
  (forall x, In x (rows r) <-> In x (flat_map (q_rows (balance_query cfg part)) L)) ->
  (forall ac, (exists x, In x L /\ key_of x = ac) <-> (exists e : entry, In e ES /\ ekey e = ac)) ->
  forall row, In row (rows r) <->
    (exists e, In e (mapped_entries cfg ES) /\ (let '(_, a, _, _) := e in In row (prefixes_from [] a))).
Proof.
  intros Hr Hk row. rewrite mapped_rows, Hr, in_flat_map. split.
  - intros (x & Hx & Hin). rewrite q_rows_balance in Hin.
    destruct (proj1 (Hk (key_of x)) (ex_intro _ x (conj Hx eq_refl))) as (e & He & Hek).
    exists e. split; [exact He|]. rewrite Hek. exact Hin.
  - intros (e & He & Hin).
    destruct (proj2 (Hk (ekey e)) (ex_intro _ e (conj He eq_refl))) as (x & Hx & Hxk).
    exists x. split; [exact Hx|]. rewrite q_rows_balance, Hxk. exact Hin.
Qed.

(* which rows the report has *)
Theorem report_rows cfg ds r part :
  bc_valuation cfg = None ->
  balance_report cfg ds = COk (r, part) ->
  exists dl,
    parse_directives ds = MOk dl /\
    ((bc_close cfg = true -> postings_syntactic dl) ->
     forall row, In row (rows r) <-> ledger_row cfg dl row).
Proof.
  intros Hv H. unfold balance_report in H. rewrite Hv in H. cbn [cbind] in H.
  unfold load in H. destruct (parse_directives ds) as [dl| |] eqn:Ep; try discriminate. cbn [cbind of_mresult] in H.
  exists dl. split; [reflexivity|]. intros Hsyn.
  unfold cfg_partition in H. rewrite builder_period_spec in H.
  destruct (new_partition (clip (mkPeriod (bc_from cfg) (bc_to cfg)) (journal_period dl)) (bc_interval cfg) (bc_last cfg)) as [part0| |] eqn:Epart; try discriminate.
  cbn [cbind] in H. unfold run_stage in H.
  pose proof (partition_facts _ _ _ _ Epart) as Hpf.
  unfold ledger_row. rewrite Epart.
  destruct (bc_close cfg) eqn:Hc.
  - specialize (Hsyn eq_refl).
    destruct (process_days (check_proc_current (bc_lenient cfg)) check_init (b_days (builder_touch (builder_of dl) (start_dates part0)))) as [[s1 d1]| |] eqn:E1; try discriminate.
    cbn [cbind of_presult fst snd] in H.
    pose proof (check_current_stage_id _ _ _ _ _ E1) as ->.
    destruct (process_days (filter_proc (span part0)) tt (b_days (builder_touch (builder_of dl) (start_dates part0)))) as [[s4 d4]| |] eqn:E4; try discriminate.
    cbn [cbind of_presult fst snd] in H.
    pose proof (filter_stage_spec _ _ _ _ _ E4) as ->.
    destruct (process_days (close_proc (start_dates part0)) (mkClose [] []) _) as [[s5 d5]| |] eqn:E5; try discriminate.
    cbn [cbind of_presult fst snd] in H.
    destruct (process_days (query_proc (balance_query cfg part0) report_insert) new_report d5) as [[r6 d6]| |] eqn:E6; try discriminate.
    cbn [cbind of_presult fst snd] in H. inversion H; subst r6 part0. clear H.
    destruct (query_days_rows (balance_query cfg part) _ _ _ _ wf_new_report E6) as (_ & Hrows).
    change (map (fun d => if period_contains (span part) (d_date d) then d else set_txns d []) (b_days (builder_touch (builder_of dl) (start_dates part))))
      with (map (filt (span part)) (b_days (builder_touch (builder_of dl) (start_dates part)))) in E5.
    apply (rows_from_keys cfg part r (days_postings d5)).
    + intros x. rewrite Hrows. split; [intros [Hf|Hx]; [destruct (rows_new _ Hf)|exact Hx]|intros Hx; right; exact Hx].
    + apply (close_keys_equiv part dl s5 d5 Hpf Hsyn (parse_directives_vz _ _ Ep) E5).
  - destruct (process_days (check_proc_current (bc_lenient cfg)) check_init (b_days (builder_of dl))) as [[s1 d1]| |] eqn:E1; try discriminate.
    cbn [cbind of_presult fst snd] in H.
    pose proof (check_current_stage_id _ _ _ _ _ E1) as ->.
    destruct (process_days (filter_proc (span part0)) tt (b_days (builder_of dl))) as [[s4 d4]| |] eqn:E4; try discriminate.
    cbn [cbind of_presult fst snd] in H.
    pose proof (filter_stage_spec _ _ _ _ _ E4) as ->.
    destruct (process_days (query_proc (balance_query cfg part0) report_insert) new_report _) as [[r6 d6]| |] eqn:E6; try discriminate.
    cbn [cbind of_presult fst snd] in H. inversion H; subst r6 part0. clear H.
    destruct (query_days_rows (balance_query cfg part) _ _ _ _ wf_new_report E6) as (_ & Hrows).
    rewrite app_nil_r.
    apply (rows_from_keys cfg part r (days_postings (map (filt (span part)) (b_days (builder_of dl))))).
    + intros x. rewrite Hrows. split; [intros [Hf|Hx]; [destruct (rows_new _ Hf)|exact Hx]|intros Hx; right; exact Hx].
    + apply (user_keys_equiv part (flat_postings dl) (b_days (builder_of dl)) Hpf (builder_of_perm dl) (builder_of_dated dl)).
Qed.
