(* C02, layout: which rows the report has.  Every node of the report trees is rendered (one or
   more lines), so the rows are the node paths; a node exists iff some posting that reaches the
   query is mapped onto it or below it.  With --close the postings that reach the query include
   those of the closing transactions; their (account, commodity) pairs are shown to be those of
   Spec.LedgerSpec.closing_entries. *)
From Coq Require Import ZArith QArith List Bool Lia Permutation Sorting.Sorted.
From Knut Require Import Model.Str Model.Dec Model.Date Model.Account Model.Ledger Model.Price
     Model.Journal Model.Check Model.Pipeline Model.Table Model.Report Model.Cli
     Spec.DateSpec Spec.WellformedSpec Spec.LedgerSpec Spec.LedgerSyntax
     Proofs.DecProofs Proofs.DecValue Proofs.PairProofs Proofs.ReportSum Proofs.Conservation
     Proofs.DateProofs Proofs.CheckLemmas Proofs.BeancountProofs Proofs.LedgerProofs Proofs.CloseProofs.
Import ListNotations.
Open Scope Q_scope.

(* ------------------------------------------------------------ Part 1: node paths *)

Fixpoint npaths (n : node) : list account :=
  match n with
  | Node _ p _ _ ch => p :: fold_right (fun c acc => npaths c ++ acc) [] ch
  end.

Definition cpaths (ch : list node) : list account := fold_right (fun c acc => npaths c ++ acc) [] ch.

Lemma npaths_unfold s p hv a ch : npaths (Node s p hv a ch) = p :: cpaths ch.
Proof. reflexivity. Qed.

Lemma npaths_head n : In (n_path n) (npaths n).
Proof. destruct n. left. reflexivity. Qed.

(* the rows of a report: every node but the two roots *)
Definition rows (r : report) : list account := cpaths (n_children (r_al r)) ++ cpaths (n_children (r_eie r)).

Lemma cpaths_children_insert rec h p (S' : list account) l :
  wf_children p l ->
  (forall c, n_path c = p ++ [h] -> wf_node c -> forall x, In x (npaths (rec c)) <-> In x (npaths c) \/ In x S') ->
  forall x, In x (cpaths (children_insert rec h (p ++ [h]) l)) <-> In x (cpaths l) \/ x = p ++ [h] \/ In x S'.
Proof.
  intros Hwf Hrec.
  assert (Hnew : forall x, In x (npaths (rec (Node h (p ++ [h]) false [] []))) <-> x = p ++ [h] \/ In x S').
  { intros x. rewrite (Hrec (Node h (p ++ [h]) false [] []) eq_refl I x). cbn. intuition. }
  induction Hwf as [|c l [Hc1 Hc2] Hl IH]; intros x; cbn [children_insert].
  - unfold cpaths. cbn [fold_right]. rewrite app_nil_r, Hnew. cbn. tauto.
  - destruct (str_cmp h (n_seg c)) eqn:E.
    + apply str_cmp_eq in E. subst h. unfold cpaths. cbn [fold_right]. rewrite !in_app_iff, (Hrec c Hc1 Hc2 x).
      pose proof (npaths_head c) as Hh. rewrite Hc1 in Hh.
      split; [tauto|]. intros [[H|H]|[H|H]]; try tauto. subst x. tauto.
    + unfold cpaths. cbn [fold_right]. rewrite !in_app_iff, Hnew. fold (cpaths l). tauto.
    + unfold cpaths in *. cbn [fold_right]. rewrite !in_app_iff, IH. tauto.
Qed.

Lemma npaths_node_insert k v : forall fuel prefix rest n,
  (length rest <= fuel)%nat -> n_path n = prefix -> wf_node n ->
  forall x, In x (npaths (node_insert fuel prefix rest k v n)) <-> In x (npaths n) \/ In x (prefixes_from prefix rest).
Proof.
  induction fuel as [|fu IH]; intros prefix rest [s p hv a ch] Hlen Hp Hwf x; cbn [n_path] in Hp; subst p.
  - destruct rest; [|cbn in Hlen; lia]. cbn [node_insert prefixes_from]. rewrite !npaths_unfold. cbn. tauto.
  - destruct rest as [|h tail].
    + cbn [node_insert prefixes_from]. rewrite !npaths_unfold. cbn. tauto.
    + cbn [node_insert prefixes_from]. rewrite !npaths_unfold. cbn [In].
      apply wf_node_children in Hwf.
      rewrite (cpaths_children_insert (node_insert fu (prefix ++ [h]) tail k v) h prefix (prefixes_from (prefix ++ [h]) tail) ch Hwf).
      * split; intros H; intuition (subst; auto).
      * intros c Hc Hwc y. apply IH; [cbn in Hlen; lia|exact Hc|exact Hwc].
Qed.

Lemma cpaths_root_insert k v a n : n_path n = [] -> wf_node n ->
  forall x, In x (cpaths (n_children (node_insert (S (length a)) [] a k v n))) <-> In x (cpaths (n_children n)) \/ In x (prefixes_from [] a).
Proof.
  intros Hp Hwf x. destruct n as [s p hv am ch]. cbn [n_path] in Hp. subst p. destruct a as [|h tail].
  - cbn [node_insert n_children prefixes_from]. cbn. tauto.
  - cbn [node_insert n_children prefixes_from]. apply wf_node_children in Hwf.
    rewrite (cpaths_children_insert (node_insert (length (h :: tail)) ([] ++ [h]) tail k v) h [] (prefixes_from ([] ++ [h]) tail) ch Hwf).
    + cbn [In]. split; intros H; intuition (subst; auto).
    + intros c Hc Hwc y. apply npaths_node_insert; [cbn; lia|exact Hc|exact Hwc].
Qed.

Lemma rows_insert r date a c v : wf_report r ->
  forall x, In x (rows (report_insert r date a c v)) <-> In x (rows r) \/ In x (prefixes_from [] a).
Proof.
  intros (W1 & W2 & P1 & P2) x. unfold rows, report_insert.
  destruct (is_AL a); cbn [r_al r_eie]; rewrite !in_app_iff.
  - rewrite (cpaths_root_insert (date, Some c) v a (r_al r) P1 W1). tauto.
  - rewrite (cpaths_root_insert (date, Some c) v a (r_eie r) P2 W2). tauto.
Qed.

Lemma rows_new x : ~ In x (rows new_report).
Proof. intros []. Qed.

(* ------------------------------------------------------------ Part 2: the query stage *)

Definition q_rows (q : query) (dp : Z * posting) : list account :=
  if q_where q (p_acc (snd dp)) (p_com (snd dp)) then
    match q_account q (p_acc (snd dp)) with ShAcc a => prefixes_from [] a | _ => [] end
  else [].

Section QueryRows.
  Variable q : query.

  Lemma query_postings_rows t : forall ps r r' ps',
    wf_report r ->
    fold_postings (query_posting q report_insert) t r ps = ROk (r', ps') ->
    wf_report r' /\
    forall x, In x (rows r') <-> In x (rows r) \/ In x (flat_map (q_rows q) (map (fun p => (t_date t, p)) ps)).
  Proof.
    induction ps as [|p ps IH]; intros r r' ps' Hwf H; cbn [fold_postings] in H.
    - inversion H; subst. split; [assumption|]. intros x. cbn. tauto.
    - destruct (query_posting q report_insert r t p) as [[r1 p1]| |] eqn:E1; try discriminate.
      cbn [rbind fst snd] in H.
      destruct (fold_postings (query_posting q report_insert) t r1 ps) as [[r2 ps2]| |] eqn:E2; try discriminate.
      cbn [rbind fst snd] in H. inversion H; subst r' ps'. clear H.
      assert (Hstep : wf_report r1 /\ forall x, In x (rows r1) <-> In x (rows r) \/ In x (q_rows q (t_date t, p))).
      { unfold query_posting in E1. unfold q_rows. cbn [snd].
        destruct (q_where q (p_acc p) (p_com p)).
        - destruct (q_account q (p_acc p)) as [a| |]; try discriminate.
          + injection E1 as Hr Hp. subst r1 p1.
            split; [apply (rcell_insert [] (None, None) r _ a (p_com p) _ Hwf)|].
            intros x. apply rows_insert. exact Hwf.
          + injection E1 as Hr Hp. subst r1 p1. split; [assumption|]. intros x. cbn. tauto.
        - injection E1 as Hr Hp. subst r1 p1. split; [assumption|]. intros x. cbn. tauto. }
      destruct Hstep as (Hwf1 & Hr1).
      destruct (IH _ _ _ Hwf1 E2) as (Hwf2 & Hr2).
      split; [assumption|]. intros x. cbn [map flat_map]. rewrite in_app_iff, Hr2, Hr1. tauto.
  Qed.

  Lemma query_txns_rows : forall ts r r' ts',
    wf_report r ->
    fold_txns (query_proc q report_insert) r ts = ROk (r', ts') ->
    wf_report r' /\
    forall x, In x (rows r') <-> In x (rows r) \/ In x (flat_map (q_rows q) (txns_postings ts)).
  Proof.
    induction ts as [|t ts IH]; intros r r' ts' Hwf H; cbn [fold_txns] in H.
    - inversion H; subst. split; [assumption|]. intros x. cbn. tauto.
    - cbn [query_proc pr_txn pr_posting rbind] in H.
      destruct (fold_postings (query_posting q report_insert) t r (t_postings t)) as [[r1 ps1]| |] eqn:E1; try discriminate.
      cbn [rbind fst snd] in H.
      destruct (query_postings_rows t _ _ _ _ Hwf E1) as (Hwf1 & Hr1).
      destruct (fold_txns (query_proc q report_insert) r1 ts) as [[r2 ts2]| |] eqn:E2; try discriminate.
      cbn [rbind fst snd] in H. inversion H; subst r' ts'. clear H.
      destruct (IH _ _ _ Hwf1 E2) as (Hwf2 & Hr2).
      split; [assumption|]. intros x. unfold txns_postings in *. cbn [map concat].
      rewrite flat_map_app, in_app_iff, Hr2, Hr1. tauto.
  Qed.

  Lemma query_day_rows r d r' d' :
    wf_report r ->
    process_day (query_proc q report_insert) r d = ROk (r', d') ->
    wf_report r' /\ forall x, In x (rows r') <-> In x (rows r) \/ In x (flat_map (q_rows q) (day_postings d)).
  Proof.
    intros Hwf H. unfold process_day in H.
    cbn [query_proc pr_day_start pr_price pr_open pr_balance pr_close pr_day_end rbind fst snd] in H.
    destruct (fold_txns (query_proc q report_insert) r (d_txns d)) as [[r1 ts1]| |] eqn:E1; try discriminate.
    cbn [rbind fst snd] in H.
    destruct (query_txns_rows _ _ _ _ Hwf E1) as (Hwf1 & Hr1).
    cbn [d_asserts d_closes] in H.
    assert (Ha : forall l s, fold_asserts (query_proc q report_insert) s l = ROk s).
    { induction l as [|a l IHl]; intros s; cbn [fold_asserts query_proc pr_balance rbind]; [reflexivity|apply IHl]. }
    rewrite Ha in H. cbn [rbind] in H. inversion H; subst r' d'.
    split; [assumption|exact Hr1].
  Qed.

  Lemma query_days_rows : forall ds r r' ds',
    wf_report r ->
    process_days (query_proc q report_insert) r ds = ROk (r', ds') ->
    wf_report r' /\ forall x, In x (rows r') <-> In x (rows r) \/ In x (flat_map (q_rows q) (days_postings ds)).
  Proof.
    induction ds as [|d ds IH]; intros r r' ds' Hwf H; cbn [process_days] in H.
    - inversion H; subst. split; [assumption|]. intros x. cbn. tauto.
    - destruct (process_day (query_proc q report_insert) r d) as [[r1 d1]| |] eqn:E1; try discriminate.
      cbn [rbind fst snd] in H.
      destruct (query_day_rows _ _ _ _ Hwf E1) as (Hwf1 & Hr1).
      destruct (process_days (query_proc q report_insert) r1 ds) as [[r2 ds2]| |] eqn:E2; try discriminate.
      cbn [rbind fst snd] in H. inversion H; subst r' ds'. clear H.
      destruct (IH _ _ _ Hwf1 E2) as (Hwf2 & Hr2).
      split; [assumption|]. intros x. unfold days_postings in *. cbn [map concat].
      rewrite flat_map_app, in_app_iff, Hr2, Hr1. tauto.
  Qed.
End QueryRows.
