(* C09 (c), second half: transaction.Compare is a total preorder, so journal.Print's sort is
   idempotent.  [good_cmp c]: c a a = Eq, c b a = CompOpp (c a b), Lt is transitive, and elements
   that compare Eq compare alike with everything.  Closed under lexicographic products
   ([cmp_then]), projections and the list order of postings_cmp; holds of Z.compare, str_cmp,
   account.Compare and Decimal.Cmp (the comparison of the VALUES, [dec_cmp_value]).  Hence
   [txn_ltb] satisfies the hypotheses of Proofs/StableSort.v and
   [sort_days (sort_days days) = sort_days days]. *)
From Coq Require Import ZArith QArith List Bool Lia.
From Knut Require Import Model.Str Model.Dec Model.Date Model.Account Model.Ledger Model.Journal Model.Pipeline
     Model.JPrinter.
From Knut Require Import Proofs.DecProofs Proofs.DecEqProofs Proofs.DecValue Proofs.CheckLemmas Proofs.StableSort.
Import ListNotations.
Open Scope bool_scope.
Open Scope Z_scope.

Record good_cmp {A} (c : A -> A -> comparison) : Prop := mkGood {
  gc_refl : forall a, c a a = Eq;
  gc_anti : forall a b, c b a = CompOpp (c a b);
  gc_trans : forall a b x, c a b = Lt -> c b x = Lt -> c a x = Lt;
  gc_eq_l : forall a b x, c a b = Eq -> c a x = c b x }.

Lemma gc_eq_r {A} (c : A -> A -> comparison) : good_cmp c -> forall a b x, c a b = Eq -> c x a = c x b.
Proof. intros G a b x H. rewrite (gc_anti c G a x), (gc_anti c G b x), (gc_eq_l c G a b x H). reflexivity. Qed.

Definition ltb_of {A} (c : A -> A -> comparison) (a b : A) : bool := match c a b with Lt => true | _ => false end.

Section LtOfGood.
  Context {A : Type} (c : A -> A -> comparison) (G : good_cmp c).

  Lemma ltb_of_irrefl a : ltb_of c a a = false.
  Proof. unfold ltb_of. now rewrite (gc_refl c G). Qed.

  Lemma ltb_of_trans a b x : ltb_of c a b = true -> ltb_of c b x = true -> ltb_of c a x = true.
  Proof.
    unfold ltb_of. destruct (c a b) eqn:E1; try discriminate. destruct (c b x) eqn:E2; try discriminate.
    intros _ _. now rewrite (gc_trans c G a b x E1 E2).
  Qed.

  Lemma ltb_of_cotrans a b x : ltb_of c a b = true -> ltb_of c a x = true \/ ltb_of c x b = true.
  Proof.
    unfold ltb_of. destruct (c a b) eqn:E1; try discriminate. intros _.
    destruct (c a x) eqn:E2; [right|left; reflexivity|right].
    - rewrite <- (gc_eq_l c G a x b E2), E1. reflexivity.
    - assert (E3 : c x a = Lt) by (rewrite (gc_anti c G a x), E2; reflexivity).
      now rewrite (gc_trans c G x a b E3 E1).
  Qed.
End LtOfGood.

(* ------------------------------------------------------------------ closure *)

Lemma good_then {A} (c1 c2 : A -> A -> comparison) :
  good_cmp c1 -> good_cmp c2 -> good_cmp (fun a b => cmp_then (c1 a b) (c2 a b)).
Proof.
  intros G1 G2. constructor.
  - intros a. now rewrite (gc_refl c1 G1), (gc_refl c2 G2).
  - intros a b. rewrite (gc_anti c1 G1 a b), (gc_anti c2 G2 a b). destruct (c1 a b), (c2 a b); reflexivity.
  - intros a b x H1 H2. unfold cmp_then in *.
    destruct (c1 a b) eqn:E1; try discriminate; destruct (c1 b x) eqn:E2; try discriminate.
    + rewrite (gc_eq_l c1 G1 a b x E1), E2. exact (gc_trans c2 G2 a b x H1 H2).
    + rewrite (gc_eq_l c1 G1 a b x E1), E2. reflexivity.
    + rewrite <- (gc_eq_r c1 G1 b x a E2), E1. reflexivity.
    + now rewrite (gc_trans c1 G1 a b x E1 E2).
  - intros a b x H. unfold cmp_then in *. destruct (c1 a b) eqn:E1; try discriminate.
    rewrite (gc_eq_l c1 G1 a b x E1), (gc_eq_l c2 G2 a b x H). reflexivity.
Qed.

Lemma good_proj {A B} (f : A -> B) (c : B -> B -> comparison) : good_cmp c -> good_cmp (fun a b => c (f a) (f b)).
Proof.
  intros G. constructor; intros.
  - apply (gc_refl c G).
  - apply (gc_anti c G).
  - eapply (gc_trans c G); eassumption.
  - now apply (gc_eq_l c G).
Qed.

Lemma good_ext {A} (c c' : A -> A -> comparison) : (forall a b, c a b = c' a b) -> good_cmp c -> good_cmp c'.
Proof.
  intros E G. constructor; intros; rewrite <- ?E in *.
  - apply (gc_refl c G).
  - apply (gc_anti c G).
  - eapply (gc_trans c G); eassumption.
  - now apply (gc_eq_l c G).
Qed.

(* ------------------------------------------------------------------ base orders *)

Lemma good_Z : good_cmp Z.compare.
Proof.
  constructor.
  - apply Z.compare_refl.
  - intros a b. apply Z.compare_antisym.
  - intros a b x. rewrite !Z.compare_lt_iff. lia.
  - intros a b x H. apply Z.compare_eq in H. now subst.
Qed.

Lemma good_str : good_cmp str_cmp.
Proof.
  constructor.
  - apply str_cmp_refl.
  - intros a b. apply str_cmp_antisym.
  - apply str_cmp_lt_trans.
  - intros a b x H. apply str_cmp_eq in H. now subst.
Qed.

Lemma acc_cmp_lex a b :
  acc_cmp a b = cmp_then (acc_rank a ?= acc_rank b) (str_cmp (acc_name a) (acc_name b)).
Proof.
  unfold acc_cmp, acc_ltb, str_ltb.
  rewrite (str_cmp_antisym (acc_name a) (acc_name b)).
  destruct (Z.compare_spec (acc_rank a) (acc_rank b)) as [E|E|E]; cbn [cmp_then].
  - rewrite E, Z.ltb_irrefl. destruct (str_cmp (acc_name a) (acc_name b)); reflexivity.
  - replace (acc_rank a <? acc_rank b) with true by lia. reflexivity.
  - replace (acc_rank a <? acc_rank b) with false by lia. replace (acc_rank b <? acc_rank a) with true by lia. reflexivity.
Qed.

Lemma good_acc : good_cmp acc_cmp.
Proof.
  apply (good_ext (fun a b => cmp_then (acc_rank a ?= acc_rank b) (str_cmp (acc_name a) (acc_name b)))).
  - intros a b. symmetry. apply acc_cmp_lex.
  - apply good_then; [apply (good_proj acc_rank), good_Z|apply (good_proj acc_name), good_str].
Qed.

(* Decimal.Cmp compares the values *)
Lemma dec_cmp_value a b : dec_cmp a b = (dvalue a ?= dvalue b)%Q.
Proof.
  unfold dec_cmp, cmp. rewrite rescale_pair_normal. cbn [coef].
  set (m := Z.min (ex a) (ex b)).
  pose proof (scale_to_value a m ltac:(unfold m; lia)) as Ha.
  pose proof (scale_to_value b m ltac:(unfold m; lia)) as Hb.
  pose proof (Qpower_ten_pos m) as Hp.
  rewrite <- Ha, <- Hb.
  destruct (Z.compare_spec (scale_to a m) (scale_to b m)) as [E|E|E]; symmetry.
  - apply Qeq_alt. rewrite E. reflexivity.
  - apply Qlt_alt. apply Qmult_lt_r; [exact Hp|]. rewrite <- Zlt_Qlt. exact E.
  - apply Qgt_alt. apply Qmult_lt_r; [exact Hp|]. rewrite <- Zlt_Qlt. exact E.
Qed.

Lemma good_dec : good_cmp dec_cmp.
Proof.
  apply (good_ext (fun a b => (dvalue a ?= dvalue b)%Q)); [intros a b; symmetry; apply dec_cmp_value|].
  constructor.
  - intros a. apply Qeq_alt. reflexivity.
  - intros a b. symmetry. apply Qcompare_antisym.
  - intros a b x H1 H2. apply Qlt_alt in H1, H2. apply Qlt_alt. eapply Qlt_trans; eassumption.
  - intros a b x H. apply Qeq_alt in H. rewrite H. reflexivity.
Qed.

(* value-equal decimals compare alike *)
Lemma dec_cmp_eqv_l a a' b : dec_equal a a' = true -> dec_cmp a b = dec_cmp a' b.
Proof. intros H. apply dec_equal_value in H. rewrite !dec_cmp_value, H. reflexivity. Qed.

Lemma dec_cmp_eqv_r a b b' : dec_equal b b' = true -> dec_cmp a b = dec_cmp a b'.
Proof. intros H. apply dec_equal_value in H. rewrite !dec_cmp_value, H. reflexivity. Qed.

(* ------------------------------------------------------------------ postings, transactions *)

Lemma good_posting : good_cmp posting_cmp.
Proof.
  unfold posting_cmp.
  apply good_then; [apply (good_proj p_acc), good_acc|].
  apply good_then; [apply (good_proj p_other), good_acc|].
  apply good_then; [apply (good_proj p_qty), good_dec|].
  apply good_then; [apply (good_proj p_val), good_dec|].
  apply (good_proj p_com), good_str.
Qed.

Lemma good_postings : good_cmp postings_cmp.
Proof.
  pose proof good_posting as G. constructor.
  - induction a as [|p a IH]; cbn [postings_cmp]; [reflexivity|]. now rewrite (gc_refl _ G), IH.
  - induction a as [|p a IH]; intros [|q b]; cbn [postings_cmp]; try reflexivity.
    rewrite (gc_anti _ G p q), IH. destruct (posting_cmp p q), (postings_cmp a b); reflexivity.
  - induction a as [|p a IH]; intros [|q b] [|r x]; cbn [postings_cmp]; intros H1 H2; try reflexivity; try discriminate.
    unfold cmp_then in *.
    destruct (posting_cmp p q) eqn:E1; try discriminate; destruct (posting_cmp q r) eqn:E2; try discriminate.
    + rewrite (gc_eq_l _ G p q r E1), E2. exact (IH b x H1 H2).
    + rewrite (gc_eq_l _ G p q r E1), E2. reflexivity.
    + rewrite <- (gc_eq_r _ G q r p E2), E1. reflexivity.
    + now rewrite (gc_trans _ G p q r E1 E2).
  - induction a as [|p a IH]; intros [|q b] x H; cbn [postings_cmp] in H; try discriminate; [reflexivity|].
    unfold cmp_then in H. destruct (posting_cmp p q) eqn:E1; try discriminate.
    destruct x as [|r x]; cbn [postings_cmp]; [reflexivity|].
    rewrite (gc_eq_l _ G p q r E1), (IH b x H). reflexivity.
Qed.

Lemma good_txn : good_cmp txn_cmp.
Proof.
  unfold txn_cmp.
  apply good_then; [apply (good_proj t_date), good_Z|].
  apply good_then; [apply (good_proj t_desc), good_str|apply (good_proj t_postings), good_postings].
Qed.

Lemma txn_ltb_of : forall t u, txn_ltb t u = ltb_of txn_cmp t u.
Proof. reflexivity. Qed.

Lemma txn_ltb_irrefl a : txn_ltb a a = false.
Proof. apply (ltb_of_irrefl txn_cmp good_txn). Qed.
Lemma txn_ltb_trans a b c : txn_ltb a b = true -> txn_ltb b c = true -> txn_ltb a c = true.
Proof. apply (ltb_of_trans txn_cmp good_txn). Qed.
Lemma txn_ltb_cotrans a b c : txn_ltb a b = true -> txn_ltb a c = true \/ txn_ltb c b = true.
Proof. apply (ltb_of_cotrans txn_cmp good_txn). Qed.

(* ------------------------------------------------------------------ the sort of journal.Print is idempotent *)

Theorem sort_txns_idem l : sort_by txn_ltb (sort_by txn_ltb l) = sort_by txn_ltb l.
Proof. apply (sort_by_idem txn_ltb txn_ltb_irrefl txn_ltb_trans txn_ltb_cotrans). Qed.

Theorem sort_days_idem days : sort_days (sort_days days) = sort_days days.
Proof.
  unfold sort_days. rewrite map_map. apply map_ext. intros d.
  unfold set_txns. cbn [d_date d_prices d_opens d_txns d_asserts d_closes d_normalized].
  now rewrite sort_txns_idem.
Qed.
