(* `knut check --write`, third layer: the collected assertions against the specification
   (Spec/CheckWriteSpec.v).  [wmatch pre days W]: W is, day by day, the assertion computed from a
   checker state that satisfies [Inv] and [Keys] for the events up to that day's end. *)
From Coq Require Import ZArith List Bool Lia Sorting.Sorted Permutation.
From Knut Require Import Model.Str Model.Dec Model.Date Model.Account Model.Ledger Model.Price Model.Journal
     Model.Check Model.Pipeline Model.JPrinter Model.Cli Model.CheckWrite
     Spec.WellformedSpec Spec.CheckWriteSpec
     Proofs.StrProofs Proofs.DecProofs Proofs.DecEqProofs Proofs.CheckLemmas Proofs.CheckProofs Proofs.BuilderProofs
     Proofs.CheckMain Proofs.CheckPerm Proofs.OrderStages Proofs.CheckWriteBase Proofs.CheckWriteKeys.
Import ListNotations.
Open Scope bool_scope.
Open Scope Z_scope.

Inductive wmatch : list event -> list day -> list wassertion -> Prop :=
| wm_nil pre : wmatch pre [] []
| wm_cons pre d days s1 W :
    Inv (pre ++ day_events d) s1 -> Keys (pre ++ day_events d) s1 ->
    all_ok_before pre (day_events d) ->
    wmatch (pre ++ day_events d) days W ->
    wmatch pre (d :: days) (day_end_assertions (ck_qty s1) (d_date d) ++ W).

Lemma process_day_run s d s1 d1 :
  process_day check_proc_fixed s d = ROk (s1, d1) -> run_events s (day_events d) = ROk s1.
Proof.
  intros H. rewrite <- process_day_events. rewrite H. reflexivity.
Qed.

Lemma write_days_wmatch days : forall pre s s' W,
  Inv pre s -> Keys pre s ->
  (forall e, In e (flat_map day_events days) -> account_ok (ev_acc e) = true) ->
  write_days s days = ROk (s', W) -> wmatch pre days W.
Proof.
  induction days as [|d days IH]; intros pre s s' W I K Hacc H; cbn [write_days] in H.
  - inversion H. constructor.
  - destruct (process_day check_proc_fixed s d) as [[s1 d1]|k x|m] eqn:P; cbn [rbind fst snd] in H; try discriminate.
    apply process_day_run in P.
    assert (Hacc1 : forall e, In e (day_events d) -> account_ok (ev_acc e) = true).
    { intros e He. apply Hacc. cbn [flat_map]. apply in_or_app. left. exact He. }
    destruct (run_keys (day_events d) pre s s1 I K Hacc1 P) as (I1 & K1 & All).
    destruct (write_days s1 days) as [[s2 W2]|k x|m] eqn:R; cbn [rbind fst snd] in H; try discriminate.
    inversion H. subst s' W.
    constructor; try assumption.
    apply (IH (pre ++ day_events d) s1 s2 W2 I1 K1); [|exact R].
    intros e He. apply Hacc. cbn [flat_map]. apply in_or_app. right. exact He.
Qed.

Lemma day_end_assertions_in m dt w :
  In w (day_end_assertions m dt) -> m <> [] /\ w = (dt, day_end_balances m).
Proof.
  destruct m as [|x m]; cbn [day_end_assertions]; [intros []|].
  intros [H|[]]. split; [discriminate|]. symmetry. exact H.
Qed.

Lemma wmatch_entries pre days W : wmatch pre days W ->
  forall dt bs, In (dt, bs) W ->
  exists done d rest s, days = done ++ d :: rest /\ d_date d = dt /\
    Inv (pre ++ flat_map day_events (done ++ [d])) s /\ Keys (pre ++ flat_map day_events (done ++ [d])) s /\
    ck_qty s <> [] /\ bs = day_end_balances (ck_qty s).
Proof.
  induction 1 as [pre|pre d days s1 W I K All M IH]; intros dt bs Hin; [destruct Hin|].
  apply in_app_or in Hin. destruct Hin as [Hin|Hin].
  - apply day_end_assertions_in in Hin. destruct Hin as [Hne E]. inversion E. subst dt bs.
    exists [], d, days, s1. cbn [app flat_map]. rewrite app_nil_r.
    split; [reflexivity|]. split; [reflexivity|]. split; [exact I|]. split; [exact K|]. split; [exact Hne|reflexivity].
  - destruct (IH dt bs Hin) as (done & d0 & rest & s & E & Hd & I' & K' & Hne & Hb).
    exists (d :: done), d0, rest, s. subst days.
    cbn [app flat_map]. rewrite <- app_assoc in I', K'.
    split; [reflexivity|]. split; [exact Hd|]. split; [exact I'|]. split; [exact K'|]. split; [exact Hne|exact Hb].
Qed.

Lemma wmatch_days pre days W : wmatch pre days W ->
  forall done d rest, days = done ++ d :: rest ->
  exists s, Inv (pre ++ flat_map day_events (done ++ [d])) s /\ Keys (pre ++ flat_map day_events (done ++ [d])) s /\
    all_ok_before pre (flat_map day_events (done ++ [d])) /\
    (ck_qty s = [] \/ In (d_date d, day_end_balances (ck_qty s)) W).
Proof.
  induction 1 as [pre|pre d days s1 W I K All M IH]; intros done d0 rest E; [destruct done; discriminate|].
  destruct done as [|d' done]; cbn [app] in E; inversion E; subst.
  - exists s1. cbn [app flat_map]. rewrite app_nil_r.
    split; [exact I|]. split; [exact K|]. split; [exact All|].
    destruct (ck_qty s1) as [|x m] eqn:Q; [left; reflexivity|right].
    apply in_or_app. left. left. reflexivity.
  - destruct (IH done d0 rest eq_refl) as (s & I' & K' & All' & Hin).
    exists s. cbn [app flat_map]. rewrite <- app_assoc in I', K'.
    split; [exact I'|]. split; [exact K'|]. split.
    + apply all_ok_app. split; assumption.
    + destruct Hin as [Hin|Hin]; [left; exact Hin|right; apply in_or_app; right; exact Hin].
Qed.

Lemma wmatch_dates pre days W : wmatch pre days W ->
  StronglySorted Z.lt (map d_date days) ->
  StronglySorted Z.lt (map fst W) /\ (forall w, In w W -> In (fst w) (map d_date days)).
Proof.
  induction 1 as [pre|pre d days s1 W I K All M IH]; intros Hs; [split; [constructor|intros w []]|].
  cbn [map] in Hs. inversion Hs as [|x l Hs' Hall]; subst.
  destruct (IH Hs') as [S1 S2].
  destruct (ck_qty s1) as [|x m]; cbn [day_end_assertions app map].
  - split; [exact S1|]. intros w Hw. right. apply S2. exact Hw.
  - split.
    + constructor; [exact S1|]. cbn [fst]. rewrite Forall_forall in *. intros y Hy.
      apply in_map_iff in Hy. destruct Hy as [w [E Hw]]. subst y. apply Hall. apply S2. exact Hw.
    + intros w [Hw|Hw]; [subst w; left; reflexivity|right; apply S2; exact Hw].
Qed.

(* ------------------------------------------------------------------ the days of a journal and [events_upto] *)

Lemma sorted_app_split (l1 : list Z) x l2 :
  StronglySorted Z.lt (l1 ++ x :: l2) -> Forall (fun y => y < x) l1 /\ Forall (fun y => x < y) l2.
Proof.
  induction l1 as [|a l1 IH]; cbn [app]; intros H; inversion H as [|y l Hs Hall]; subst.
  - split; [constructor|exact Hall].
  - destruct (IH Hs) as [H1 H2]. split; [|exact H2]. constructor; [|exact H1].
    rewrite Forall_forall in Hall. apply Hall. apply in_or_app. right. left. reflexivity.
Qed.

Lemma filter_le_split (l1 : list Z) x l2 :
  StronglySorted Z.lt (l1 ++ x :: l2) -> filter (fun y => y <=? x) (l1 ++ x :: l2) = l1 ++ [x].
Proof.
  intros H. destruct (sorted_app_split l1 x l2 H) as [H1 H2].
  rewrite filter_app. cbn [filter]. rewrite Z.leb_refl. f_equal.
  - induction l1 as [|a l1 IH]; [reflexivity|]. cbn [filter]. inversion H1; subst.
    replace (a <=? x) with true by (symmetry; apply Z.leb_le; lia). f_equal. apply IH.
    + cbn [app] in H. inversion H; assumption.
    + assumption.
  - f_equal. clear H H1. induction l2 as [|a l2 IH]; [reflexivity|]. cbn [filter]. inversion H2; subst.
    replace (a <=? x) with false by (symmetry; apply Z.leb_gt; lia). apply IH. assumption.
Qed.

Lemma events_upto_days ds done d rest :
  b_days (builder_of ds) = done ++ d :: rest ->
  events_upto ds (d_date d) = flat_map day_events (done ++ [d]).
Proof.
  intros E. destruct (builder_canonical ds) as (Hs & Hd & _ & Hm). cbn zeta in *.
  unfold events_upto, days_upto. rewrite <- Hd. rewrite E in *.
  rewrite map_app in *. cbn [map] in *. rewrite filter_le_split by exact Hs.
  change (map d_date done ++ [d_date d]) with (map d_date done ++ map d_date [d]). rewrite <- map_app.
  rewrite <- (flat_days_of_day ds (done ++ [d])).
  - rewrite flat_map_flat_map. apply flat_map_ext. intros x. apply day_events_directives.
  - intros x Hx. apply Hm. apply in_app_or in Hx. apply in_or_app.
    destruct Hx as [Hx|[Hx|[]]]; [left; exact Hx|right; left; exact Hx].
Qed.

(* ------------------------------------------------------------------ the lines of an assertion *)

Lemma balance_in_day_end m b :
  In b (day_end_balances m) <-> exists x, In x m /\ b = entry_balance x.
Proof.
  unfold day_end_balances. split.
  - intros H. apply (Permutation_in _ (sort_by_perm bal_ltb _)) in H.
    apply in_map_iff in H. destruct H as [x [E Hx]]. exists x. split; [exact Hx|symmetry; exact E].
  - intros [x [Hx E]]. subst b. apply (Permutation_in _ (Permutation_sym (sort_by_perm bal_ltb _))).
    apply in_map. exact Hx.
Qed.

Lemma day_end_balances_nonempty m : m <> [] -> day_end_balances m <> [].
Proof.
  intros H E. destruct m as [|x m]; [contradiction|].
  assert (Hin : In (entry_balance x) (day_end_balances (x :: m))).
  { apply balance_in_day_end. exists x. split; [left; reflexivity|reflexivity]. }
  rewrite E in Hin. destruct Hin.
Qed.

(* a line of the assertion computed from a state: a live position with its running quantity *)
Lemma line_sound pre s a c q :
  Inv pre s -> Keys pre s -> In (mkBalance a q c) (day_end_balances (ck_qty s)) ->
  account_ok a = true /\ is_AL a = true /\ pos_get (ck_qty s) a c = Some q /\
  live pre a c = true /\ dec_equal (quantity pre a c) q = true.
Proof.
  intros I K Hin. destruct I as [Io Iq Is Ie].
  apply balance_in_day_end in Hin. destruct Hin as [[k [[a' c'] q']] [Hx E]].
  cbn [entry_balance] in E. inversion E. subst a' c' q'.
  pose proof (Ie _ Hx) as [Kk [Oa Al]]. cbn [fst snd] in Kk, Oa, Al. subst k.
  assert (G : pos_get (ck_qty s) a c = Some q).
  { unfold pos_get. rewrite (sm_get_in_sorted _ _ _ Is Hx). reflexivity. }
  split; [exact Oa|]. split; [exact Al|]. split; [exact G|]. split.
  - rewrite <- (K a c Oa). unfold has. rewrite G. reflexivity.
  - pose proof (Iq a c Oa Al) as D. unfold getd in D. rewrite G in D. apply deqv_sym in D. exact D.
Qed.

Lemma line_complete pre s a c :
  Inv pre s -> Keys pre s -> account_ok a = true -> live pre a c = true ->
  exists q, In (mkBalance a q c) (day_end_balances (ck_qty s)).
Proof.
  intros I K Oa L. destruct I as [Io Iq Is Ie].
  rewrite <- (K a c Oa) in L. unfold has, pos_get in L.
  destruct (sm_get (ck_qty s) (pos_key a c)) as [[[a' c'] q]|] eqn:G; [|discriminate].
  apply sm_get_some_in in G. pose proof (Ie _ G) as [Kk [Oa' _]]. cbn [fst snd] in Kk, Oa'.
  apply pos_key_inj in Kk; [|assumption|assumption]. destruct Kk as [K1 K2]. subst a' c'.
  exists q. apply balance_in_day_end. exists (pos_key a c, (a, c, q)). split; [exact G|reflexivity].
Qed.

(* ------------------------------------------------------------------ the theorem *)

(* the assertions `check --write` collects on the directives [ds] *)
Definition written (ds : list directive) : presult (list wassertion) := written_of (b_days (builder_of ds)).

Lemma written_wmatch ds W : syntactic ds -> written ds = ROk W -> wmatch [] (b_days (builder_of ds)) W.
Proof.
  intros Hs H. unfold written, written_of in H.
  destruct (write_days check_init (b_days (builder_of ds))) as [[s W']|k x|m] eqn:R; cbn [rbind snd] in H; try discriminate.
  inversion H. subst W'.
  apply (write_days_wmatch _ [] check_init s W inv_init keys_init); [|exact R].
  intros e He. rewrite builder_events in He. apply (syntactic_events ds Hs). exact He.
Qed.

(* everything of [write_spec] except the order of the lines inside an assertion *)
Theorem write_complete_partial ds W :
  syntactic ds -> written ds = ROk W ->
  StronglySorted Z.lt (map fst W) /\
  (forall dt bs, In (dt, bs) W -> In dt (dates ds) /\ bs <> []) /\
  (forall dt a c q, asserted W dt a c q ->
     live (events_upto ds dt) a c = true /\ dec_equal (quantity (events_upto ds dt) a c) q = true) /\
  (forall dt a c, In dt (dates ds) -> live (events_upto ds dt) a c = true -> exists q, asserted W dt a c q).
Proof.
  intros Hs H. pose proof (written_wmatch ds W Hs H) as M.
  destruct (builder_canonical ds) as (Hsort & Hd & _ & _). cbn zeta in *.
  destruct (wmatch_dates _ _ _ M Hsort) as [S1 S2].
  split; [exact S1|]. split; [|split].
  - intros dt bs Hin. split.
    + rewrite <- Hd. apply (S2 (dt, bs) Hin).
    + destruct (wmatch_entries _ _ _ M dt bs Hin) as (done & d & rest & s & _ & _ & _ & _ & Hne & Hb).
      subst bs. apply day_end_balances_nonempty. exact Hne.
  - intros dt a c q (bs & Hin & Hb).
    destruct (wmatch_entries _ _ _ M dt bs Hin) as (done & d & rest & s & E & Hdt & I & K & Hne & Hbs).
    cbn [app] in I, K. rewrite <- (events_upto_days ds done d rest E) in I, K. rewrite Hdt in I, K. subst bs.
    destruct (line_sound _ _ a c q I K Hb) as (_ & _ & _ & L & Q). split; assumption.
  - intros dt a c Hdt L.
    rewrite <- Hd in Hdt. apply in_map_iff in Hdt. destruct Hdt as [d [Ed Hin]].
    apply in_split in Hin. destruct Hin as (done & rest & E).
    destruct (wmatch_days _ _ _ M done d rest E) as (s & I & K & _ & Hw).
    cbn [app] in I, K. rewrite <- (events_upto_days ds done d rest E) in I, K. rewrite Ed in I, K.
    assert (Oa : account_ok a = true).
    { destruct (live_posted _ a c L) as [x Hx].
      assert (Hev : In (EPost a c x) (events ds)).
      { rewrite <- builder_events. rewrite E. rewrite <- Ed in Hx. rewrite (events_upto_days ds done d rest E) in Hx.
        replace (done ++ d :: rest) with ((done ++ [d]) ++ rest) by (rewrite <- app_assoc; reflexivity).
        rewrite flat_map_app. apply in_or_app. left. exact Hx. }
      apply (syntactic_events ds Hs _ Hev). }
    destruct (line_complete _ s a c I K Oa L) as [q Hq].
    exists q. exists (day_end_balances (ck_qty s)). split; [|exact Hq].
    destruct Hw as [Hw|Hw]; [rewrite Hw in Hq; destruct Hq|]. rewrite <- Ed. exact Hw.
Qed.
