(* C09 (a), part 1: ToModel as a function of the MEANING of a parsed file (Spec/FormatSpec.v sem:
   the strings cut out of the text), and the meaning that journal.Print gives every model
   directive ([sem_of_mdir]: ISO date, account names, Decimal.String, commodities, description,
   targets).  Converting that meaning back gives the printed directive with re-read quantities
   ([sem_get_printed]). *)
From Coq Require Import ZArith List Bool Lia.
From Knut Require Import Model.Bytes Model.Utf8 Model.UnicodeTables Model.Scanner Model.Parser Spec.FormatSpec.
From Knut Require Import Model.Str Model.Dec Model.Date Model.Account Model.Ledger Model.Journal Model.Table Model.Report Model.JPrinter Model.ToModel.
From Knut Require Import Proofs.DecNormalForm Proofs.PrintProofs Proofs.PrintRequant.
Import ListNotations.
Open Scope bool_scope.
Open Scope Z_scope.

(* ------------------------------------------------------------------ ToModel on meanings *)

Definition sem_get_date (s : Str.str) : mresult Z :=
  match parse_date_str s with Some d => MOk d | None => MErr e_date end.
Definition sem_get_dec (s : Str.str) : mresult dec :=
  match of_string s with Some d => MOk d | None => MErr e_decimal end.
Definition sem_get_account (a : sem_account) : mresult Account.account :=
  let x := acc_of_name (fst a) in mbind (check_account x) (fun _ => MOk x).
Definition sem_get_interval (s : Str.str) : mresult interval :=
  match parse_interval_str s with Some i => MOk i | None => MErr e_interval end.

Fixpoint sem_get_bookings (bs : list sem_booking) : mresult (list Ledger.booking) :=
  match bs with
  | [] => MOk []
  | b :: rest =>
    mbind (sem_get_account (sb_credit b)) (fun cr =>
    mbind (sem_get_account (sb_debit b)) (fun db =>
    mbind (sem_get_dec (sb_quantity b)) (fun q =>
    mbind (sem_get_bookings rest) (fun l =>
    MOk (Ledger.mkBooking cr db q (sb_commodity b) :: l)))))
  end.

Fixpoint sem_get_balances (bs : list (sem_account * Str.str * Str.str)) : mresult (list Ledger.balance) :=
  match bs with
  | [] => MOk []
  | b :: rest =>
    mbind (sem_get_account (fst (fst b))) (fun a =>
    mbind (sem_get_dec (snd (fst b))) (fun q =>
    mbind (sem_get_balances rest) (fun l =>
    MOk (Ledger.mkBalance a q (snd b) :: l))))
  end.

Definition sem_get_accrual (a : sem_accrual) : mresult Ledger.accrual :=
  mbind (sem_get_account (sa_account a)) (fun acc =>
  mbind (sem_get_date (sa_start a)) (fun s =>
  mbind (sem_get_date (sa_end a)) (fun e =>
  mbind (sem_get_interval (sa_interval a)) (fun iv =>
  MOk (Ledger.mkAccrual iv s e acc))))).

Definition sem_get_directive (d : sem_directive) : mresult sdirective :=
  match d with
  | SemTrx date desc bs perf accr =>
    mbind (mbind (sem_get_date date) (fun d =>
           mbind (sem_get_bookings bs) (fun bs' =>
           mbind (match accr with
                  | None => MOk None
                  | Some a => mbind (sem_get_accrual a) (fun a' => MOk (Some a'))
                  end) (fun ac =>
           MOk (mkStxn d desc bs' perf ac))))) (fun s => MOk (STxn s))
  | SemOpen date a =>
    mbind (sem_get_account a) (fun x => mbind (sem_get_date date) (fun dt => MOk (SOpen dt x)))
  | SemClose date a =>
    mbind (sem_get_account a) (fun x => mbind (sem_get_date date) (fun dt => MOk (SClose dt x)))
  | SemAssertion date bs =>
    mbind (sem_get_date date) (fun dt => mbind (sem_get_balances bs) (fun l => MOk (SAssert dt l)))
  | SemPrice date c p tg =>
    mbind (sem_get_date date) (fun dt => mbind (sem_get_dec p) (fun q => MOk (SPrice dt c q tg)))
  | SemInclude _ => MOk SInclude
  | SemNone => MErr e_unknown
  end.

Fixpoint sem_get_directives (ds : list sem_directive) : mresult (list sdirective) :=
  match ds with
  | [] => MOk []
  | d :: rest => mbind (sem_get_directive d) (fun s => mbind (sem_get_directives rest) (fun l => MOk (s :: l)))
  end.

Section WithText.
Variable t : Str.str.

Lemma get_bookings_sem bs : get_bookings t bs = sem_get_bookings (map (sem_of_booking t) bs).
Proof. induction bs as [|b bs IH]; [reflexivity|]. cbn [map get_bookings sem_get_bookings]. rewrite IH. reflexivity. Qed.

Lemma get_balances_sem bs :
  get_balances t bs =
  sem_get_balances (map (fun b => (sem_acc t (SynM.bl_account b), cut t (SynM.bl_quantity b), cut t (SynM.bl_commodity b))) bs).
Proof. induction bs as [|b bs IH]; [reflexivity|]. cbn [map get_balances sem_get_balances]. rewrite IH. reflexivity. Qed.

Lemma get_directive_sem d : get_directive t d = sem_get_directive (sem_of_directive t d).
Proof.
  unfold get_directive, sem_of_directive. destruct (SynM.d_body d) as [x|o|c|a|p|i|]; try reflexivity.
  - unfold get_txn. cbn [sem_get_directive]. rewrite get_bookings_sem.
    destruct (range_empty (SynM.ac_range (SynM.ad_accrual (SynM.tx_addons x)))); reflexivity.
  - cbn [sem_get_directive]. rewrite get_balances_sem. reflexivity.
Qed.

Lemma get_directives_sem ds : get_directives t ds = sem_get_directives (map (sem_of_directive t) ds).
Proof.
  induction ds as [|d ds IH]; [reflexivity|]. cbn [map get_directives sem_get_directives].
  rewrite get_directive_sem, IH. reflexivity.
Qed.
End WithText.

Lemma to_model_sem t f : to_model t f = sem_get_directives (sem t f).
Proof. unfold to_model, sem. apply get_directives_sem. Qed.

(* ------------------------------------------------------------------ the meaning journal.Print writes *)

Definition sem_acc_of (a : Account.account) : sem_account := (acc_name a, false).
Definition sem_booking_of (p : posting) : sem_booking :=
  mkSemBooking (sem_acc_of (p_other p)) (sem_acc_of (p_acc p)) (to_string (p_qty p)) (p_com p).
Definition sem_balance_of (b : Ledger.balance) : sem_account * Str.str * Str.str :=
  (sem_acc_of (bal_acc b), to_string (bal_qty b), bal_com b).

Definition sem_of_mdir (d : Ledger.directive) : sem_directive :=
  match d with
  | DPrice dt c p t => SemPrice (format_date dt) c (to_string p) t
  | DOpen dt a => SemOpen (format_date dt) (sem_acc_of a)
  | DClose dt a => SemClose (format_date dt) (sem_acc_of a)
  | DAssert dt bs => SemAssertion (format_date dt) (map sem_balance_of bs)
  | DTxn t => SemTrx (format_date (t_date t)) (t_desc t) (map sem_booking_of (odd_postings (t_postings t)))
                     (t_targets t) None
  end.

(* what can be read back: years 0..9999, account names that split into their segments and are
   accepted by the registry *)
Definition date_printable (d : Z) : Prop := 0 <= year_of d <= 9999.
Definition acc_printable (a : Account.account) : Prop :=
  a <> [] /\ Forall PrintProofs.seg_ok a /\ valid_account a = true.

Definition mdir_printable (d : Ledger.directive) : Prop :=
  match d with
  | DPrice dt _ _ _ => date_printable dt
  | DOpen dt a => date_printable dt /\ acc_printable a
  | DClose dt a => date_printable dt /\ acc_printable a
  | DAssert dt bs => date_printable dt /\ Forall (fun b => acc_printable (bal_acc b)) bs
  | DTxn t => date_printable (t_date t) /\
              Forall (fun p => acc_printable (p_acc p) /\ acc_printable (p_other p)) (odd_postings (t_postings t))
  end.

Lemma sem_get_date_printed d : date_printable d -> sem_get_date (format_date d) = MOk d.
Proof. intros H. unfold sem_get_date. now rewrite parse_format_date. Qed.

Lemma sem_get_dec_printed q : sem_get_dec (to_string q) = MOk (reread q).
Proof. unfold sem_get_dec. now rewrite (proj1 (reread_spec q)). Qed.

Lemma sem_get_account_printed a : acc_printable a -> sem_get_account (sem_acc_of a) = MOk a.
Proof.
  intros (Hne & Hseg & Hv). unfold sem_get_account, sem_acc_of. cbn [fst].
  rewrite acc_name_roundtrip by assumption. now rewrite (check_account_ok _ Hv).
Qed.

Lemma sem_get_bookings_printed ps :
  Forall (fun p => acc_printable (p_acc p) /\ acc_printable (p_other p)) ps ->
  sem_get_bookings (map sem_booking_of ps) = MOk (map rq_booking (map booking_of ps)).
Proof.
  induction 1 as [|p ps (Ha & Ho) Hps IH]; [reflexivity|].
  cbn [map sem_get_bookings sem_booking_of sb_credit sb_debit sb_quantity sb_commodity].
  rewrite (sem_get_account_printed _ Ho), (sem_get_account_printed _ Ha), sem_get_dec_printed, IH. reflexivity.
Qed.

Lemma sem_get_balances_printed bs :
  Forall (fun b => acc_printable (bal_acc b)) bs ->
  sem_get_balances (map sem_balance_of bs) = MOk (map rq_balance bs).
Proof.
  induction 1 as [|b bs Hb Hbs IH]; [reflexivity|].
  cbn [map sem_get_balances sem_balance_of fst snd].
  rewrite (sem_get_account_printed _ Hb), sem_get_dec_printed, IH. reflexivity.
Qed.

Theorem sem_get_printed d : mdir_printable d ->
  sem_get_directive (sem_of_mdir d) = MOk (rq_sdir (sdir_of_dir d)).
Proof.
  destruct d as [dt c p t|dt a|dt a|dt bs|t]; cbn [mdir_printable sem_of_mdir sem_get_directive sdir_of_dir rq_sdir].
  - intros H. now rewrite (sem_get_date_printed _ H), sem_get_dec_printed.
  - intros [H Ha]. now rewrite (sem_get_account_printed _ Ha), (sem_get_date_printed _ H).
  - intros [H Ha]. now rewrite (sem_get_account_printed _ Ha), (sem_get_date_printed _ H).
  - intros [H Hb]. now rewrite (sem_get_date_printed _ H), (sem_get_balances_printed _ Hb).
  - intros [H Hp]. rewrite (sem_get_date_printed _ H), (sem_get_bookings_printed _ Hp). reflexivity.
Qed.

Theorem sem_get_all_printed ds : Forall mdir_printable ds ->
  sem_get_directives (map sem_of_mdir ds) = MOk (map rq_sdir (map sdir_of_dir ds)).
Proof.
  induction 1 as [|d ds Hd Hds IH]; [reflexivity|].
  cbn [map sem_get_directives]. now rewrite (sem_get_printed d Hd), IH.
Qed.
