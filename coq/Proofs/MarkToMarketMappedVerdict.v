(* C03: the verdict the runtime check evaluates on a row aggregated by --mapping / --remap holds of
   the model (Spec/ValuationMappedSpec.v mtm_row_mapped: the sum over the accounts that land on the
   row of ValuationSpec.mtm_expected, within the sum of ValuationSpec.step_bound).

   C03_windowed_mapped charges every aggregated account one step per journal day and commodity of
   the ROW.  The allowance of the check charges an account only for the commodities it holds
   itself.  The difference is closed here: on a cell (a, c) without a booking of a non-zero
   quantity the Valuate stage posts nothing of value (its position stays zero, so it is never
   revalued): the instance Pq = "is zero", eps = 0 of the cell invariant of Proofs/MarkToMarket.v.

   Part A  the zero instance of the cell invariant
   Part B  the window of a cell that is not booked is empty
   Part C  sums over a list of commodities and over a sub-list that carries all non-zero terms
   Part D  the row against per-account held commodities
   Part E  expected_sum, bound_sum; the model meets mtm_row_mapped *)
From Coq Require Import ZArith QArith Qabs List Bool Lia Permutation Sorting.Sorted.
From Knut Require Import Model.Str Model.Dec Model.Date Model.Account Model.Ledger Model.Price
     Model.Journal Model.Check Model.Pipeline Model.Table Model.Report Model.Cli
     Spec.DateSpec Spec.WellformedSpec Spec.LedgerSpec Spec.LedgerSyntax Spec.MarkToMarketSpec
     Spec.PriceSpec Spec.PriceDaySpec Spec.ValuationSpec Spec.MarkToMarketReportSpec Spec.MarkToMarketMappedSpec
     Spec.ValuationMappedSpec
     Proofs.DecProofs Proofs.DecValue Proofs.CheckLemmas Proofs.CheckProofs Proofs.PairProofs
     Proofs.DateProofs Proofs.BuilderProofs Proofs.StableSort Proofs.BeancountProofs
     Proofs.LedgerProofs Proofs.CloseProofs Proofs.PriceDayProofs Proofs.ValuationProofs
     Proofs.MarkToMarket Proofs.MarkToMarketReport Proofs.MarkToMarketWindow Proofs.MarkToMarketJournal
     Proofs.MarkToMarketRow Proofs.MarkToMarketFinal Proofs.MarkToMarketSteps Proofs.MarkToMarketMapped
     Proofs.MarkToMarketDefined.
From Knut Require Proofs.TranscodeMtmSum.
Import ListNotations.
Open Scope Q_scope.

(* ------------------------------------------------------------ Part A: the zero instance *)

Definition PZ (q : dec) : Prop := is_zero q = true.

Lemma coef_truncate_zero d p : coef d = 0%Z -> coef (truncate d p) = 0%Z.
Proof.
  intros H. unfold truncate, rescale. destruct ((0 <=? p)%Z && (ex d <? - p)%Z); [|exact H].
  destruct (ex d =? - p)%Z; [exact H|]. destruct (ex d <? - p)%Z; cbn [coef]; rewrite H; reflexivity.
Qed.

Lemma dvalue_coef_zero d : coef d = 0%Z -> dvalue d == 0.
Proof. intros H. unfold dvalue. rewrite H. ring. Qed.

Lemma merr_zero a b : is_zero a = true \/ is_zero b = true -> Qabs (merr a b) <= 0.
Proof.
  intros H. unfold merr.
  assert (Hm : coef (mul a b) = 0%Z).
  { unfold mul. cbn [coef]. unfold is_zero in H. destruct H as [H|H]; apply Z.eqb_eq in H; rewrite H; ring. }
  assert (H1 : dvalue (multiply a b) == 0).
  { apply dvalue_coef_zero. unfold multiply. apply coef_truncate_zero. exact Hm. }
  assert (H2 : dvalue a * dvalue b == 0).
  { destruct H as [H|H]; apply is_zero_value in H; rewrite H; ring. }
  rewrite H1, H2. setoid_replace (0 - 0) with 0 by ring. apply Qle_refl.
Qed.

Lemma PZ_add x y : PZ x -> PZ y -> PZ (add x y).
Proof. unfold PZ. intros Hx Hy. rewrite (is_zero_add_l x y Hx). exact Hy. Qed.

Lemma cell_qty_zero a c l :
  Forall (fun p => cellb a c p = true -> is_zero (p_qty p) = true) l -> cell_qty a c l == 0.
Proof.
  induction l as [|p l IH]; intros H; [reflexivity|]. inversion H as [|? ? Hp Hr]; subst.
  rewrite cell_qty_cons, (IH Hr). destruct (cellb a c p) eqn:E; [|ring].
  specialize (Hp eq_refl). apply is_zero_value in Hp. rewrite Hp. ring.
Qed.

Lemma Qabs_le_zero x : Qabs x <= 0 -> x == 0.
Proof.
  intros H. apply Qabs_le_iff in H. destruct H as [H1 H2]. apply Qle_antisym; [exact H2|].
  setoid_replace 0 with (- 0) by ring. exact H1.
Qed.

(* the Valuate stage from a state in which the cell's position is zero, over days on which every
   booking of the cell has quantity zero: the position stays zero and the values posted on the
   cell add up to zero *)
Theorem unbooked_delta v a c ds s s' ds' :
  account_ok a = true -> is_AL a = true -> c <> v ->
  Forall posting_in_ok (vposts ds) ->
  Forall (fun p => cellb a c p = true -> is_zero (p_qty p) = true) (vposts ds) ->
  good a c PZ (v_qty s) -> posq a c (v_qty s) == 0 ->
  process_days (valuate_proc v) s ds = ROk (s', ds') ->
  good a c PZ (v_qty s') /\ posq a c (v_qty s') == 0 /\ cell_value a c (vposts ds') == 0.
Proof.
  intros Ha HAL Hcv Hin Hz Hg Hq H.
  assert (Hdays : Forall (day_in a c PZ PT) ds).
  { apply days_in_intro; [exact Hin|exact Hz|]. apply Forall_forall. intros d _. apply cur_ok_PT. }
  destruct (days_cell v a c Ha HAL Hcv PZ PT PT 0 eq_refl PZ_add (fun _ _ _ _ => I)
              (fun q p Hq0 _ => merr_zero q p (or_introl Hq0)) (fun d q _ Hq0 => merr_zero d q (or_intror Hq0)) (Qle_refl 0)
              ds s s' ds' H Hdays Hg (cur_ok_PT c _)) as (_ & B2 & _ & _ & B5 & B6).
  rewrite Hq, (cell_qty_zero a c _ Hz) in B5.
  split; [exact B2|]. split; [rewrite B5; ring|].
  setoid_replace (inject_Z (cell_count a c (vposts ds')) * 0) with 0 in B6 by ring.
  apply Qabs_le_zero in B6. rewrite B5, Hq in B6. rewrite <- B6. ring.
Qed.

(* ------------------------------------------------------------ Part B: the window of an unbooked cell *)

Lemma zero_qty_app a c l1 l2 :
  Forall (fun p => cellb a c p = true -> is_zero (p_qty p) = true) (vposts (l1 ++ l2)) <->
  Forall (fun p => cellb a c p = true -> is_zero (p_qty p) = true) (vposts l1) /\
  Forall (fun p => cellb a c p = true -> is_zero (p_qty p) = true) (vposts l2).
Proof. rewrite vposts_app. apply Forall_app. Qed.

(* as Proofs/MarkToMarketWindow.v window_stage, for the zero instance *)
Theorem window_stage_unbooked V a c days0 W col sP dsP sV dsV :
  account_ok a = true -> is_AL a = true -> c <> V ->
  StronglySorted Z.lt (dates days0) -> days_dated days0 -> Forall posting_in_ok (vposts days0) ->
  Forall (fun p => cellb a c p = true -> is_zero (p_qty p) = true) (vposts days0) ->
  (W - 1 <= col)%Z ->
  process_days (compute_prices_proc V) (mkCp [] None) days0 = ROk (sP, dsP) ->
  process_days (valuate_proc V) val_init dsP = ROk (sV, dsV) ->
  lsum (fun dp => if in_window W col (fst dp) then cval a c dp else 0) (dposts dsV) == 0.
Proof.
  intros Ha HAL Hcv Hsorted Hdated Hin Hz Hle HP HV.
  destruct (sorted_split3 W col days0 Hsorted Hle) as (B & Esplit & EU & HB).
  set (A := days_upto (W - 1) days0) in *. set (C := days_after col days0) in *.
  assert (HA : forall x, In x A -> (d_date x <= W - 1)%Z).
  { intros x Hx. unfold A, days_upto in Hx. apply filter_In in Hx. lia. }
  assert (HC : forall x, In x C -> (col < d_date x)%Z).
  { intros x Hx. unfold C, days_after in Hx. apply filter_In in Hx. lia. }
  rewrite Esplit in Hdated, Hin, Hz.
  apply days_dated_app in Hdated. destruct Hdated as [HdA Hdated]. apply days_dated_app in Hdated. destruct Hdated as [HdB HdC].
  apply in_ok_app in Hin. destruct Hin as [HinA Hin]. apply in_ok_app in Hin. destruct Hin as [HinB HinC].
  apply zero_qty_app in Hz. destruct Hz as [HzA Hz]. apply zero_qty_app in Hz. destruct Hz as [HzB _].
  rewrite Esplit in HP.
  destruct (process_days_app _ _ _ _ _ _ HP) as (pa & PA & P2 & EPA & EP2 & EdsP).
  destruct (process_days_app _ _ _ _ _ _ EP2) as (pb & PB & PC & EPB & EPC & ->).
  rewrite EdsP in HV.
  destruct (process_days_app _ _ _ _ _ _ HV) as (va & VA & V2 & EVA & EV2 & ->).
  destruct (process_days_app _ _ _ _ _ _ EV2) as (vb & VB & VC & EVB & EVC & ->).
  destruct (cp_days_shape _ _ _ _ _ EPA) as (DA & SA & TA).
  destruct (cp_days_shape _ _ _ _ _ EPB) as (DB & SB & TB).
  destruct (cp_days_shape _ _ _ _ _ EPC) as (DC & SC & TC).
  destruct (val_days_dated _ _ _ _ _ EVA (TA HdA)) as [HdVA DVA].
  destruct (val_days_dated _ _ _ _ _ EVB (TB HdB)) as [HdVB DVB].
  destruct (val_days_dated _ _ _ _ _ EVC (TC HdC)) as [HdVC DVC].
  assert (Hsum : lsum (fun dp => if in_window W col (fst dp) then cval a c dp else 0) (dposts (VA ++ VB ++ VC))
                 == lsum (cval a c) (dposts VB)).
  { rewrite !dposts_app, !LedgerProofs.qsum_app.
    rewrite (dated_sum_sel (in_window W col) false _ VA HdVA).
    2: { apply (dates_transfer (fun d => in_window W col d = false) VA A); [congruence|].
         intros y Hy. specialize (HA _ Hy). unfold in_window. lia. }
    rewrite (dated_sum_sel (in_window W col) true _ VB HdVB).
    2: { apply (dates_transfer (fun d => in_window W col d = true) VB B); [congruence|].
         intros y Hy. specialize (HB _ Hy). unfold in_window. lia. }
    rewrite (dated_sum_sel (in_window W col) false _ VC HdVC).
    2: { apply (dates_transfer (fun d => in_window W col d = false) VC C); [congruence|].
         intros y Hy. specialize (HC _ Hy). unfold in_window. lia. }
    ring. }
  rewrite Hsum, <- cell_value_dposts. clear Hsum.
  assert (HinPA : Forall posting_in_ok (vposts PA)) by (rewrite (vposts_of_dposts _ _ SA); exact HinA).
  assert (HinPB : Forall posting_in_ok (vposts PB)) by (rewrite (vposts_of_dposts _ _ SB); exact HinB).
  assert (HzPA : Forall (fun p => cellb a c p = true -> is_zero (p_qty p) = true) (vposts PA))
    by (rewrite (vposts_of_dposts _ _ SA); exact HzA).
  assert (HzPB : Forall (fun p => cellb a c p = true -> is_zero (p_qty p) = true) (vposts PB))
    by (rewrite (vposts_of_dposts _ _ SB); exact HzB).
  destruct (unbooked_delta V a c PA val_init va VA Ha HAL Hcv HinPA HzPA (good_nil a c PZ) (posq_nil a c) EVA) as (A1 & A2 & _).
  destruct (unbooked_delta V a c PB va vb VB Ha HAL Hcv HinPB HzPB A1 A2 EVB) as (_ & _ & B3).
  exact B3.
Qed.

(* on the directives: a commodity the account does not hold *)
Lemma unheld_no_cell dl a c d p :
  ~ In c (held_commodities (flat_postings dl) a) -> In (d, p) (flat_postings dl) -> cellb a c p = false.
Proof.
  intros Hn Hin. destruct (cellb a c p) eqn:E; [|reflexivity]. exfalso. apply Hn.
  unfold cellb in E. apply andb_true_iff in E. destruct E as [E1 E2]. apply str_eqb_eq in E2.
  apply TranscodeMtmSum.held_in. exists d, p. repeat split; assumption.
Qed.

Lemma qty_upto_unheld dl a c T :
  ~ In c (held_commodities (flat_postings dl) a) -> dvalue (qty_upto (flat_postings dl) a c T) == 0.
Proof.
  intros Hn. unfold qty_upto.
  assert (E : concat (map (fun dp : Z * posting => let '(d, p) := dp in
                     if (d <=? T)%Z && acc_eqb (p_acc p) a && str_eqb (p_com p) c then [p_qty p] else []) (flat_postings dl)) = []).
  { apply concat_nil_all. intros [d p] Hin. pose proof (unheld_no_cell dl a c d p Hn Hin) as Hc. unfold cellb in Hc.
    rewrite <- andb_assoc, Hc, andb_false_r. reflexivity. }
  rewrite E. reflexivity.
Qed.

Lemma mv_cell_unheld dl V a c T : ~ In c (held_commodities (flat_postings dl) a) -> mv_cell dl V a c T == 0.
Proof. intros Hn. unfold mv_cell. rewrite (qty_upto_unheld dl a c T Hn). ring. Qed.

Theorem window_unheld cfg ds dl part V dsP dsV a c col :
  parse_directives ds = MOk dl -> postings_syntactic dl -> valued_run cfg V dl part dsP dsV ->
  account_ok a = true -> is_AL a = true -> (p_start (span part) - 1 <= col)%Z ->
  ~ In c (held_commodities (flat_postings dl) a) ->
  lsum (fun dp => if in_window (p_start (span part)) col (fst dp) then cval a c dp else 0) (dposts dsV) == 0.
Proof.
  intros Ep Hsyn Hrun Ha HAL Hle Hn.
  destruct (str_eqb c V) eqn:Ec.
  - apply str_eqb_eq in Ec. subst c.
    rewrite (window_journal_V cfg ds dl part V dsP dsV a col Ep Hsyn Hrun Hle), !(mv_cell_unheld dl V a V _ Hn). ring.
  - assert (Hcv : c <> V) by (intros ->; rewrite str_eqb_refl in Ec; discriminate).
    destruct Hrun as (sP & sV & EP & EV).
    apply (window_stage_unbooked V a c (built_days (bc_close cfg) dl part) (p_start (span part)) col sP dsP sV dsV Ha HAL Hcv
             (built_days_sorted _ _ _) (built_days_dated _ _ _) (built_days_in_ok' _ ds dl part Ep Hsyn)); [|exact Hle|exact EP|exact EV].
    rewrite <- snd_dposts. rewrite Forall_forall. intros p Hin Hc. exfalso.
    apply in_map_iff in Hin. destruct Hin as ([d p0] & <- & Hin). cbn [snd] in Hc.
    assert (Hj : In (d, p0) (flat_postings dl)) by (eapply Permutation_in; [apply built_days_perm|exact Hin]).
    rewrite (unheld_no_cell dl a c d p0 Hn Hj) in Hc. discriminate.
Qed.

(* ------------------------------------------------------------ Part C: a sub-list that carries all non-zero terms *)

Definition in_coms (l : list commodity) (c : commodity) : bool := existsb (str_eqb c) l.

Lemma in_coms_iff l c : in_coms l c = true <-> In c l.
Proof.
  unfold in_coms. rewrite existsb_exists. split.
  - intros (x & Hx & E). apply str_eqb_eq in E. subst x. exact Hx.
  - intros H. exists c. split; [exact H|apply str_eqb_refl].
Qed.

Lemma lsum_filter_split {A} (p : A -> bool) (f : A -> Q) l :
  lsum f l == lsum f (filter p l) + lsum f (filter (fun x => negb (p x)) l).
Proof.
  unfold LedgerProofs.qsum. induction l as [|x l IH]; cbn [filter fold_right]; [ring|].
  destruct (p x); cbn [negb fold_right]; rewrite IH; ring.
Qed.

Lemma lsum_restrict (f : commodity -> Q) sub coms : NoDup sub -> NoDup coms -> incl sub coms ->
  (forall c, In c coms -> ~ In c sub -> f c == 0) -> lsum f coms == lsum f sub.
Proof.
  intros Hs Hc Hincl Hz. rewrite (lsum_filter_split (in_coms sub) f coms).
  rewrite (LedgerProofs.qsum_zero f (filter (fun x => negb (in_coms sub x)) coms)).
  2: { intros c Hin. apply filter_In in Hin. destruct Hin as [Hin Hn]. apply Hz; [exact Hin|].
       intros Hsub. apply in_coms_iff in Hsub. rewrite Hsub in Hn. discriminate. }
  rewrite Qplus_0_r. apply LedgerProofs.qsum_perm. apply NoDup_Permutation; [apply NoDup_filter; exact Hc|exact Hs|].
  intros c. rewrite filter_In, in_coms_iff. split; [tauto|]. intros H. split; [apply Hincl; exact H|exact H].
Qed.

(* ------------------------------------------------------------ Part D: the row, each account with its own commodities *)

Notation held dl a := (held_commodities (flat_postings dl) a).

Lemma window_journal_row_held cfg ds dl part V dsP dsV a col coms :
  parse_directives ds = MOk dl -> postings_syntactic dl -> valued_run cfg V dl part dsP dsV ->
  account_ok a = true -> is_AL a = true -> (p_start (span part) - 1 <= col)%Z ->
  NoDup coms -> incl (held dl a) coms ->
  Qabs (lsum (fun c => lsum (fun dp => if in_window (p_start (span part)) col (fst dp) then cval a c dp else 0) (dposts dsV)) coms
        - (mv_row dl V a col (held dl a) - mv_row dl V a (p_start (span part) - 1) (held dl a)))
    <= inject_Z (row_steps_tight dl V a (p_start (span part)) col (held dl a)) * (1 # 100000000).
Proof.
  intros Ep Hsyn Hrun Ha HAL Hle Hnd Hincl.
  rewrite (lsum_restrict _ (held dl a) coms (held_commodities_nodup _ a) Hnd Hincl).
  - exact (window_journal_row cfg ds dl part V dsP dsV a col Ep Hsyn Hrun Ha HAL Hle (held dl a)).
  - intros c _ Hn. exact (window_unheld cfg ds dl part V dsP dsV a c col Ep Hsyn Hrun Ha HAL Hle Hn).
Qed.

Definition mv_held_sum (dl : list directive) (V : commodity) (srcs : list account) (T : Z) : Q :=
  lsum (fun a => mv_row dl V a T (held dl a)) srcs.

Fixpoint steps_held_sum (dl : list directive) (V : commodity) (srcs : list account) (W E : Z) : Z :=
  match srcs with
  | [] => 0%Z
  | a :: rest => (row_steps_tight dl V a W E (held dl a) + steps_held_sum dl V rest W E)%Z
  end.

(* C03_windowed_mapped with every aggregated account charged for its own commodities only; coms is
   any duplicate-free list that contains them all (the commodity keys of the row) *)
Theorem windowed_row_mapped_held cfg ds r part V :
  bc_valuation cfg = Some V ->
  balance_report cfg ds = COk (r, part) ->
  exists dl,
    parse_directives ds = MOk dl /\
    new_partition (clip (mkPeriod (bc_from cfg) (bc_to cfg)) (journal_period dl)) (bc_interval cfg) (bc_last cfg) = POk part /\
    (postings_syntactic dl ->
     forall b srcs col coms, account_ok b = true -> is_AL b = true -> row_sources cfg dl b srcs ->
       NoDup coms -> (forall c, In c coms -> com_pass cfg c = true) ->
       (forall a, In a srcs -> incl (held dl a) coms) ->
       (p_start (span part) <= p_end (span part))%Z -> In col (end_dates part) ->
       Qabs (row_value b part col r coms
             - (mv_held_sum dl V srcs col - mv_held_sum dl V srcs (p_start (span part) - 1)))
         <= inject_Z (steps_held_sum dl V srcs (p_start (span part)) col) * (1 # 100000000)).
Proof.
  intros Hv H. destruct (mapped_report_cells cfg ds r part V Hv H) as (dl & dsP & dsV & Ep & Epart & Hrun & Hcells).
  exists dl. split; [exact Ep|]. split; [exact Epart|].
  intros Hsyn b srcs col coms Hb HAL Hsrcs Hnd Hcoms Hheld Hspan Hcol.
  destruct (Hcells Hsyn) as (HokV & HfromV & Hcell).
  assert (Hle : (p_start (span part) - 1 <= col)%Z).
  { destruct (partition_facts _ _ _ _ Epart) as [_ Htiles]. destruct (Htiles Hspan) as [Ht Hfs].
    destruct (tiles_facts _ _ _ Ht) as [_ Hb0]. rewrite Forall_forall in Hb0.
    apply in_map_iff in Hcol. destruct Hcol as (q & <- & Hq). specialize (Hb0 _ Hq). lia. }
  set (W := p_start (span part)) in *.
  set (F := fun a c => lsum (fun dp => if in_window W col (fst dp) then cval a c dp else 0) (dposts dsV)).
  assert (Hrow : row_value b part col r coms == lsum (fun a => lsum (fun c => F a c) coms) srcs).
  { unfold row_value. rewrite qsum_swap. apply LedgerProofs.qsum_ext. intros c Hc.
    rewrite (cum_window_generic (mval cfg b c) b c part col r (dposts dsV) _ _ _ Epart Hspan Hcol (fun e => Hcell b c e Hb HAL)).
    unfold F. rewrite qsum_swap. apply LedgerProofs.qsum_ext. intros dp Hdp. fold W.
    destruct (in_window W col (fst dp)).
    - apply (mval_sources cfg dl b c srcs dp Hb HAL Hsrcs (Hcoms c Hc)).
      + rewrite Forall_forall in HokV. apply HokV. rewrite <- snd_dposts. apply in_map. exact Hdp.
      + rewrite Forall_forall in HfromV. apply HfromV. rewrite <- snd_dposts. apply in_map. exact Hdp.
    - symmetry. apply LedgerProofs.qsum_zero. intros a _. reflexivity. }
  rewrite Hrow. unfold mv_held_sum.
  assert (Hall : forall a, In a srcs -> account_ok a = true /\ is_AL a = true)
    by (intros a Ha; exact (sources_AL cfg dl b srcs a Hb HAL Hsrcs Ha)).
  clear Hrow Hsrcs. induction srcs as [|a srcs IH].
  - apply bound_zero. unfold LedgerProofs.qsum. cbn [fold_right]. ring.
  - cbn [steps_held_sum]. destruct (Hall a (or_introl eq_refl)) as [Hoka HALa].
    eapply (bound_add (1 # 100000000)
              (lsum (fun c => F a c) coms - (mv_row dl V a col (held dl a) - mv_row dl V a (W - 1) (held dl a)))).
    + exact (window_journal_row_held cfg ds dl part V dsP dsV a col coms Ep Hsyn Hrun Hoka HALa Hle Hnd (Hheld a (or_introl eq_refl))).
    + exact (IH (fun a' Ha' => Hheld a' (or_intror Ha')) (fun a' Ha' => Hall a' (or_intror Ha'))).
    + unfold LedgerProofs.qsum. cbn [fold_right]. ring.
Qed.

(* ------------------------------------------------------------ Part E: the model meets mtm_row_mapped *)

Lemma expected_sum_value dl V W E : forall srcs e, expected_sum dl V srcs W E = Some e ->
  dvalue e == mv_held_sum dl V srcs E - mv_held_sum dl V srcs (W - 1).
Proof.
  unfold mv_held_sum. induction srcs as [|a srcs IH]; intros e H; cbn [expected_sum] in H.
  - injection H as <-. rewrite dvalue_nil. unfold LedgerProofs.qsum. cbn [fold_right]. ring.
  - destruct (mtm_expected dl V a W E) as [x|] eqn:E1; [|discriminate].
    destruct (expected_sum dl V srcs W E) as [s|] eqn:E2; [|discriminate].
    injection H as <-. rewrite dvalue_add, (mtm_expected_sum _ _ _ _ _ _ E1), (IH s eq_refl).
    unfold LedgerProofs.qsum. cbn [fold_right]. ring.
Qed.

Lemma expected_sum_defined dl V W E : forall srcs,
  (forall a, In a srcs -> exists e, mtm_expected dl V a W E = Some e) -> exists e, expected_sum dl V srcs W E = Some e.
Proof.
  induction srcs as [|a srcs IH]; intros H; cbn [expected_sum]; [exists dec_nil; reflexivity|].
  destruct (H a (or_introl eq_refl)) as [x ->]. destruct (IH (fun a' Ha' => H a' (or_intror Ha'))) as [s ->].
  exists (add x s). reflexivity.
Qed.

Lemma steps_held_bound dl V W E : forall srcs, (steps_held_sum dl V srcs W E <= bound_sum dl srcs W E)%Z.
Proof.
  induction srcs as [|a srcs IH]; cbn [steps_held_sum bound_sum]; [lia|].
  pose proof (row_steps_step_bound dl V a W E). lia.
Qed.

(* For every configuration with a valuation commodity and every journal on which the balance command
   succeeds, every row b of asset/liability type (whatever --mapping and --remap do): the entry of
   mtm_row_mapped exists, lists the accounts the row adds up, has one entry per column, every entry
   carries an expectation, and the model's row -- the sum of the node's cells over any duplicate-free
   list of commodities that pass --commodity and include what the aggregated accounts hold -- lies
   within the allowance: as rationals and as the boolean within_bound the check evaluates. *)
Theorem model_meets_spec_mapped cfg ds r part V :
  bc_valuation cfg = Some V ->
  balance_report cfg ds = COk (r, part) ->
  exists dl,
    parse_directives ds = MOk dl /\
    (postings_syntactic dl ->
     forall b, account_ok b = true -> is_AL b = true ->
       (p_start (span part) <= p_end (span part))%Z ->
       exists srcs exps,
         mtm_row_mapped cfg dl b = Some (srcs, exps) /\ row_sources cfg dl b srcs /\
         length exps = length (end_dates part) /\
         forall j col eo n, nth_error (end_dates part) j = Some col -> nth_error exps j = Some (eo, n) ->
           exists e, eo = Some e /\
           forall coms, NoDup coms -> (forall c, In c coms -> com_pass cfg c = true) ->
             (forall a, In a srcs -> incl (held_commodities (flat_postings dl) a) coms) ->
             Qabs (row_value b part col r coms - dvalue e) <= inject_Z n * (1 # 100000000) /\
             forall o, dvalue o == row_value b part col r coms -> within_bound o e n = true).
Proof.
  intros Hv H. destruct (windowed_row_mapped_held cfg ds r part V Hv H) as (dl & Ep & Epart & Hw).
  destruct (expected_defined cfg ds r part V Hv H) as (dl' & Ep' & Hdef).
  assert (dl' = dl) by congruence. subst dl'.
  exists dl. split; [exact Ep|].
  intros Hsyn b Hb HAL Hspan.
  pose proof (sources_of_spec cfg dl b Hsyn) as Hsrcs. set (srcs := sources_of cfg dl b) in *.
  set (W := p_start (span part)) in *.
  exists srcs, (map (fun p => (expected_sum dl V srcs W (p_end p), bound_sum dl srcs W (p_end p))) (periods part)).
  split; [unfold mtm_row_mapped; rewrite Hv, Epart; reflexivity|]. split; [exact Hsrcs|].
  split; [unfold end_dates; rewrite !map_length; reflexivity|].
  intros j col eo n Hcol Hexp.
  unfold end_dates in Hcol. rewrite nth_error_map in Hcol, Hexp.
  destruct (nth_error (periods part) j) as [p|] eqn:Ej; cbn [option_map] in Hcol, Hexp; [|discriminate].
  injection Hcol as <-. injection Hexp as <- <-.
  assert (Hin : In (p_end p) (end_dates part)).
  { unfold end_dates. apply in_map. exact (nth_error_In _ _ Ej). }
  destruct (expected_sum_defined dl V W (p_end p) srcs) as [e He].
  { intros a Ha. destruct (sources_AL cfg dl b srcs a Hb HAL Hsrcs Ha) as [Hoka HALa].
    exact (proj1 (proj2 (Hdef Hsyn a Hoka HALa)) W (p_end p)). }
  exists e. split; [exact He|].
  intros coms Hnd Hcoms Hheld.
  assert (Hb0 : Qabs (row_value b part (p_end p) r coms - dvalue e)
               <= inject_Z (bound_sum dl srcs W (p_end p)) * (1 # 100000000)).
  { eapply Qle_trans.
    2: { apply Qmult_le_compat_r; [rewrite <- Zle_Qle; exact (steps_held_bound dl V W (p_end p) srcs)|discriminate]. }
    rewrite (expected_sum_value dl V W (p_end p) srcs e He).
    exact (Hw Hsyn b srcs (p_end p) coms Hb HAL Hsrcs Hnd Hcoms Hheld Hspan Hin). }
  split; [exact Hb0|].
  intros o Ho. apply within_bound_value. rewrite Ho. exact Hb0.
Qed.
