(* C20, part 8: the sums of the weights report date by date.
   The lemmas of PortfolioWeights/PortfolioTree assume that every weight is defined (no zero
   total).  Here only the entries OF THE DATE in question need to be defined: an undefined
   weight (None) on another date does not touch the sums of this date.  And an undefined entry
   makes the cell of its node undefined ([none_report]): a column in which all leaf rows are
   finite numbers has only defined entries. *)
From Coq Require Import ZArith QArith Qfield List Bool Lia Sorting.Sorted.
From Knut Require Import Model.Str Model.Dec Model.Date Model.Account Model.Ledger Model.Price
     Model.Journal Model.Perf Model.Weights Spec.PortfolioSpec Spec.PortfolioMapSpec
     Proofs.SMapProofs Proofs.PortfolioDays Proofs.PortfolioReturns Proofs.PortfolioWeights
     Proofs.PortfolioTree Proofs.PortfolioMapping Proofs.PortfolioTable.
Import ListNotations.
Open Scope Q_scope.

Definition wdef_at (d : Z) (m : wmap) : Prop := Forall (fun kv => fst kv = d -> snd kv <> None) m.
Definition tdef_at (d : Z) : wnode -> Prop := tall (fun n => wdef_at d (wn_weights n)).
Definition edef_at (d : Z) (es : list entry) : Prop :=
  Forall (fun e : entry => let '(_, dt, w) := e in dt = d -> w <> None) es.

Lemma defined_edef_at d es : defined_entries es -> edef_at d es.
Proof.
  unfold defined_entries, edef_at. apply Forall_impl. intros [[ss dt] w] H _. exact H.
Qed.

(* ------------------------------------------------------------ weight maps *)

Lemma wm_add_sum_at m d x d' : wdef_at d' m -> (d = d' -> x <> None) ->
  wdef_at d' (wm_add m d x) /\ wsum (wm_add m d x) d' == wsum m d' + (if (d =? d')%Z then oq x else 0).
Proof.
  unfold wsum, wdef_at. induction m as [|[k w] m IH]; intros Hd Hx; cbn [wm_add].
  - split; [constructor; [cbn [fst snd]; exact Hx|constructor]|]. cbn [map qsum fold_right fst snd]. destruct (d =? d')%Z; qring.
  - inversion Hd as [|? ? Hw Hm]; subst. cbn [fst snd] in Hw. destruct (d =? k)%Z eqn:E1.
    + apply Z.eqb_eq in E1. subst k. split.
      * constructor; [|exact Hm]. cbn [fst snd]. intros E.
        destruct w as [u|]; [|exfalso; exact (Hw E eq_refl)]. destruct x as [v|]; [discriminate|exfalso; exact (Hx E eq_refl)].
      * cbn [map qsum fold_right fst snd]. destruct (d =? d')%Z eqn:E2; [|qring].
        apply Z.eqb_eq in E2. destruct w as [u|]; [|exfalso; exact (Hw E2 eq_refl)].
        destruct x as [v|]; [|exfalso; exact (Hx E2 eq_refl)]. cbn [oadd oq]. rewrite qadd_eq. qring.
    + destruct (d <? k)%Z.
      * split; [constructor; [cbn [fst snd]; exact Hx|exact Hd]|]. cbn [map qsum fold_right fst snd]. destruct (d =? d')%Z; qring.
      * destruct (IH Hm Hx) as [H1 H2]. split; [constructor; assumption|].
        cbn [map qsum fold_right fst snd]. unfold qsum in H2. rewrite H2. qring.
Qed.

Lemma wm_plus_sum_at b : forall a d, wdef_at d a -> wdef_at d b ->
  wdef_at d (wm_plus a b) /\ wsum (wm_plus a b) d == wsum a d + wsum b d.
Proof.
  unfold wm_plus. induction b as [|[k w] b IH]; intros a d Ha Hb; cbn [fold_left].
  - split; [exact Ha|]. unfold wsum. cbn. qring.
  - inversion Hb as [|? ? Hw Hb']; subst. cbn [snd fst] in *.
    destruct (wm_add_sum_at a k w d Ha Hw) as [H1 H2]. destruct (IH _ d H1 Hb') as [H3 H4]. split; [exact H3|].
    rewrite H4, H2. unfold wsum. cbn [map qsum fold_right fst snd]. destruct (k =? d)%Z; qring.
Qed.

Lemma fold_plus_sum_at ms : forall acc d, wdef_at d acc -> Forall (wdef_at d) ms ->
  wdef_at d (fold_left wm_plus ms acc) /\
  wsum (fold_left wm_plus ms acc) d == wsum acc d + qsum (map (fun m => wsum m d) ms).
Proof.
  induction ms as [|m ms IH]; intros acc d Ha Hm; cbn [fold_left map qsum fold_right].
  - split; [exact Ha|qring].
  - inversion Hm as [|? ? H1 H2]; subst. destruct (wm_plus_sum_at m acc d Ha H1) as [H3 H4].
    destruct (IH _ d H3 H2) as [H5 H6]. split; [exact H5|]. rewrite H6, H4. unfold qsum. qring.
Qed.

(* PropagateWeights on a date whose bookings are defined: own + children *)
Lemma propagate_at d n : tdef_at d n ->
  wdef_at d (wn_weights (propagate n)) /\
  nweight (propagate n) d == wsum (wn_weights n) d + qsum (map (fun c => nweight (propagate c) d) (wn_children n)).
Proof.
  induction n as [s lf w ch IH] using wnode_ind'. intros Hd. apply tall_unfold in Hd. destruct Hd as [Hw Hch].
  cbn [wn_weights] in Hw. unfold nweight. rewrite propagate_weights.
  assert (Hall : Forall (wdef_at d) (map (fun c => wn_weights (propagate c)) ch)).
  { rewrite Forall_map. rewrite Forall_forall in *. intros c Hc. exact (proj1 (IH c Hc (Hch c Hc))). }
  destruct (fold_plus_sum_at _ w d Hw Hall) as [H1 H2]. split; [exact H1|].
  rewrite H2. cbn [wn_weights wn_children]. rewrite map_map. reflexivity.
Qed.

(* ------------------------------------------------------------ Report.Add *)

Lemma wn_add_def_at d ss date x n : (date = d -> x <> None) -> tdef_at d n -> tdef_at d (wn_add ss date x n).
Proof.
  intros Hx. apply (wn_add_tall _ (fun y => date = d -> y <> None)); [| | |exact Hx].
  - intros h. constructor.
  - intros s lf w ch y Hy H. cbn [wn_weights] in *. exact (proj1 (wm_add_sum_at w date y d H Hy)).
  - intros s lf w ch h f Hf H. exact H.
Qed.

Lemma tdef_at_new d h : tdef_at d (wn_new h).
Proof. apply tall_new. constructor. Qed.

Lemma own_at_add_at ss date x d p n : tsorted n -> tdef_at d n -> (date = d -> x <> None) ->
  at_node (fun y => wsum (wn_weights y) d) p (wn_add ss date x n) ==
  at_node (fun y => wsum (wn_weights y) d) p n + (if path_eqb p ss && (date =? d)%Z then oq x else 0).
Proof.
  intros Hs Hd Hx. unfold at_node at 1. rewrite (wn_find_add ss date x p n Hs). unfold path_eqb.
  destruct (path_prefix p ss) eqn:E; cbn [andb].
  - rewrite (prefix_rest p ss E).
    pose proof (tall_here _ _ (wn_get_tall _ p n (fun h => Forall_nil _) Hd)) as Hg. cbn beta in Hg.
    pose proof (at_node_get (fun y => wsum (wn_weights y) d) p n (fun h => Qeq_refl 0)) as Hat. cbn beta in Hat.
    destruct (skipn (length p) ss) as [|h tl]; cbn [andb].
    + destruct (wn_get p n) as [s lf w ch]. cbn [wn_add wn_weights] in *.
      rewrite (proj2 (wm_add_sum_at w date x d Hg Hx)), Hat. reflexivity.
    + rewrite wn_add_root_weights, Hat. ring.
  - fold (at_node (fun y => wsum (wn_weights y) d) p n). ring.
Qed.

Lemma build_own_at d es : edef_at d es -> forall n, tsorted n -> tdef_at d n ->
  tdef_at d (build es n) /\
  forall p, at_node (fun y => wsum (wn_weights y) d) p (build es n) ==
            at_node (fun y => wsum (wn_weights y) d) p n + own_weight es p d.
Proof.
  unfold build, own_weight. induction es as [|[[ss dt] w] es IH]; intros Hes n Hs Hd; cbn [fold_left map qsum fold_right].
  - split; [exact Hd|]. intros p. ring.
  - inversion Hes as [|? ? Hw Hrest]; subst.
    destruct (IH Hrest (wn_add ss dt w n) (wn_add_sorted _ _ _ _ Hs) (wn_add_def_at d ss dt w n Hw Hd)) as [H1 H2].
    split; [exact H1|]. intros p. rewrite (H2 p), (own_at_add_at ss dt w d p n Hs Hd Hw). unfold qsum. ring.
Qed.

Lemma report_def_at d es : edef_at d es -> tdef_at d (report_of es).
Proof. intros H. rewrite report_of_build. exact (proj1 (build_own_at d es H wroot wroot_sorted (tdef_at_new d []))). Qed.

(* the bookings on the node at q of a report, on a date whose entries are defined *)
Lemma own_at_find_at d es q x : edef_at d es -> wn_find q (report_of es) = Some x ->
  wsum (wn_weights x) d == own_weight es q d.
Proof.
  intros Hd Hf. pose proof (proj2 (build_own_at d es Hd wroot wroot_sorted (tdef_at_new d [])) q) as H.
  rewrite <- report_of_build in H. unfold at_node at 1 in H. rewrite Hf in H. rewrite H, at_wroot; [ring|reflexivity].
Qed.

(* ------------------------------------------------------------ an undefined entry shows in its node's cell *)

Lemma wm_get_absent w d : (forall k, In k (map fst w) -> (d < k)%Z) -> wm_get w d = None.
Proof.
  induction w as [|[k y] w IH]; intros H; cbn [wm_get]; [reflexivity|].
  assert (Hk : (d < k)%Z) by (apply H; left; reflexivity).
  replace (d =? k)%Z with false by (symmetry; apply Z.eqb_neq; lia). apply IH. intros k' Hk'. apply H. right. exact Hk'.
Qed.

Lemma wm_get_add w d x d' : wm_asc w ->
  wm_get (wm_add w d x) d' =
  if (d' =? d)%Z then Some (match wm_get w d with Some y => oadd y x | None => x end) else wm_get w d'.
Proof.
  unfold wm_asc. induction w as [|[k y] w IH]; intros Ha; cbn [wm_add wm_get]; [reflexivity|].
  destruct (d =? k)%Z eqn:E1.
  - apply Z.eqb_eq in E1. subst k. cbn [wm_get]. destruct (d' =? d)%Z; reflexivity.
  - destruct (d <? k)%Z eqn:E2.
    + cbn [wm_get]. destruct (d' =? d)%Z eqn:E3; [|reflexivity].
      rewrite wm_get_absent; [reflexivity|]. intros k' Hk'. apply Z.ltb_lt in E2. cbn [map fst] in Ha.
      pose proof (asc_lt k _ Ha k' Hk'). lia.
    + cbn [wm_get]. rewrite (IH (asc_tail _ _ Ha)). destruct (d' =? k)%Z eqn:E3; [|reflexivity].
      apply Z.eqb_eq in E3. subst d'. rewrite Z.eqb_sym, E1. reflexivity.
Qed.

Definition none_at (q : list str) (d : Z) (n : wnode) : Prop :=
  match wn_find q n with Some x => wm_get (wn_weights x) d = Some None | None => False end.

Lemma oadd_none y : oadd y None = None.
Proof. destruct y; reflexivity. Qed.

Lemma none_add_keep ss date x q d n : tsorted n -> tascw n -> none_at q d n -> none_at q d (wn_add ss date x n).
Proof.
  intros Hs Ha. unfold none_at. rewrite (wn_find_add ss date x q n Hs). unfold wn_get.
  destruct (wn_find q n) as [x0|] eqn:Ef; [|intros []]. intros Hn.
  destruct (path_prefix q ss); [|exact Hn].
  destruct (skipn (length q) ss) as [|h tl]; [|rewrite wn_add_root_weights; exact Hn].
  pose proof (tall_here _ _ (wn_find_tall _ q n x0 Ha Ef)) as Hax. cbn beta in Hax.
  destruct x0 as [s lf w ch]. cbn [wn_add wn_weights] in *. rewrite (wm_get_add w date x d Hax).
  destruct (d =? date)%Z eqn:E; [|exact Hn]. apply Z.eqb_eq in E. subst date. rewrite Hn. reflexivity.
Qed.

Lemma none_add_new ss date n : tsorted n -> tascw n -> none_at ss date (wn_add ss date None n).
Proof.
  intros Hs Ha. unfold none_at. rewrite (wn_find_add ss date None ss n Hs), path_prefix_refl, skipn_all.
  pose proof (tall_here _ _ (wn_get_tall _ ss n (fun h => I) Ha)) as Hg. cbn beta in Hg.
  destruct (wn_get ss n) as [s lf w ch]. cbn [wn_add wn_weights] in *. rewrite (wm_get_add w date None date Hg), Z.eqb_refl.
  destruct (wm_get w date) as [y|]; [rewrite oadd_none|]; reflexivity.
Qed.

Lemma none_build q d es : forall n, tsorted n -> tascw n ->
  none_at q d n \/ In (q, d, None) es -> none_at q d (build es n).
Proof.
  unfold build. induction es as [|[[ss dt] w] es IH]; intros n Hs Ha H; cbn [fold_left].
  - destruct H as [H|[]]. exact H.
  - apply IH; [apply wn_add_sorted; exact Hs|apply wn_add_asc; exact Ha|].
    destruct H as [H|[H|H]].
    + left. apply none_add_keep; assumption.
    + inversion H; subst. left. apply none_add_new; assumption.
    + right. exact H.
Qed.

Lemma none_report q d es : In (q, d, None) es -> none_at q d (report_of es).
Proof. intros H. rewrite report_of_build. apply none_build; [exact wroot_sorted|exact wroot_asc|right; exact H]. Qed.
