(* Proofs about Model/PipeFromPath.v (journal.FromPath with its three consumers): termination
   from closure under every schedule, what reaches the builder, which error is returned, and the
   two ways in which the protocol blocks forever when a consumer stops receiving.            *)
From Coq Require Import List Bool Arith PeanoNat Lia Permutation.
From Knut Require Import Model.PipeLoader Model.PipeFromPath Proofs.PipeLoaderProofs.
Import ListNotations.

Lemma sum_set_nth_gen : forall (A : Type) (w : A -> nat) l t v old, nth_error l t = Some old ->
  list_sum (map w (set_nth l t v)) + w old = list_sum (map w l) + w v.
Proof.
  intros A w. induction l as [|x l IH]; intros [|t] v old H; simpl in *; try discriminate.
  - injection H as ->. lia.
  - specialize (IH t v old H). lia.
Qed.

Lemma cnt_set_nth_gen : forall (A : Type) (pend : A -> list nat) l t v old x,
  nth_error l t = Some old ->
  count_occ Nat.eq_dec (flat_map pend (set_nth l t v)) x + count_occ Nat.eq_dec (pend old) x =
  count_occ Nat.eq_dec (flat_map pend l) x + count_occ Nat.eq_dec (pend v) x.
Proof.
  intros A pend. induction l as [|y l IH]; intros [|t] v old x H; simpl in *; try discriminate.
  - injection H as ->. rewrite !count_occ_app. lia.
  - specialize (IH t v old x H). rewrite !count_occ_app. lia.
Qed.

Lemma forallb_nth : forall (A : Type) (p : A -> bool) l t x, forallb p l = true ->
  nth_error l t = Some x -> p x = true.
Proof. intros A p l t x F N. rewrite forallb_forall in F. apply F. eapply nth_error_In; eassumption. Qed.

Lemma forallb_false_nth : forall (A : Type) (p : A -> bool) l, forallb p l = false ->
  exists t x, nth_error l t = Some x /\ p x = false.
Proof.
  intros A p. induction l as [|y l IH]; intros H; simpl in H; [discriminate|].
  destruct (p y) eqn:P.
  - destruct (IH H) as (t & x & N & Q). exists (S t), x. auto.
  - exists 0, y. auto.
Qed.

Lemma forallb_set_nth : forall (A : Type) (p : A -> bool) l t v, forallb p l = true -> p v = true ->
  forallb p (set_nth l t v) = true.
Proof.
  intros A p. induction l as [|y l IH]; intros [|t] v F V; simpl in *; auto.
  - apply andb_true_iff in F. destruct F as [_ F]. rewrite V, F. reflexivity.
  - apply andb_true_iff in F. destruct F as [F1 F2]. rewrite F1. simpl. apply IH; assumption.
Qed.

Lemma nth_error_lt : forall (A : Type) (l : list A) t x, nth_error l t = Some x -> t < length l.
Proof. intros A l t x H. apply nth_error_Some. congruence. Qed.

Lemma dstat_eqb_eq : forall a b, dstat_eqb a b = true <-> a = b.
Proof. destruct a, b; simpl; split; intro; try reflexivity; discriminate. Qed.
Lemma bstat_eqb_eq : forall a b, bstat_eqb a b = true <-> a = b.
Proof. destruct a, b; simpl; split; intro; try reflexivity; discriminate. Qed.

Section FromPathProofs.
  Variable inc : nat -> list nat.
  Variables bad cbad abad : nat -> bool.
  Variable drain : bool.

  Notation fstep := (fstep inc bad cbad abad drain).
  Notation frun := (frun inc bad cbad abad drain).
  Notation feffective := (feffective inc bad cbad abad drain).
  Notation fenabled := (fenabled inc bad cbad abad drain).
  Notation fpick := (fpick inc bad cbad abad drain).
  Notation fdrain := (fdrain inc bad cbad abad drain).
  Notation finit := (finit inc).

  Variable rank : nat -> nat.
  Hypothesis Hrank : forall f g, In g (inc f) -> rank g < rank f.

  Notation W := (W inc rank).
  Notation E := (E inc rank).
  Notation tw := (tw inc rank).

  (* ---------------------------------------------------------------- termination measure *)
  Definition cw (c : ctask) : nat := match c_st c with CNew => 2 | CRdy => 1 | _ => 0 end.
  Definition dw (d : dstat) : nat := match d with DRecv => 2 | DWait => 1 | DDone => 0 end.
  Definition bw (b : bstat) : nat := match b with BRecv => 1 | _ => 0 end.

  Definition fmu (st : fstate) : nat :=
    3 * list_sum (map tw (f_ptasks st)) + list_sum (map cw (f_ctasks st)) +
    (if f_synclosed st then 0 else 1) + dw (f_disp st) + bw (f_bld st).

  Lemma list_sum_app'' : forall a b, list_sum (a ++ b) = list_sum a + list_sum b.
  Proof. induction a as [|x a IH]; intros b; simpl; [reflexivity|]. rewrite IH. lia. Qed.

  Lemma fstep_decreases : forall l st st', fstep l st = Some st' -> fmu st' < fmu st.
  Proof.
    intros l st st' Hs. destruct l as [t|t|t|t| | | | |c|c|c| ]; simpl in Hs.
    - destruct (nth_error (f_ptasks st) t) as [[f [[|g rest]| | | |]]|] eqn:N; try discriminate.
      injection Hs as <-. unfold fmu. cbn [f_ptasks f_ctasks f_synclosed f_disp f_bld set_ptasks].
      pose proof (sum_set_nth_gen _ tw _ _ (mkTask f (Parsing rest)) _ N) as S.
      rewrite map_app, list_sum_app''.
      assert (T1 : tw (mkTask g (Parsing (inc g))) = W g)
        by (unfold PipeLoaderProofs.tw; cbn [t_st]; symmetry; apply W_unfold; exact Hrank).
      assert (T2 : tw (mkTask f (Parsing (g :: rest))) = 1 + W g + tw (mkTask f (Parsing rest)))
        by (unfold PipeLoaderProofs.tw; simpl; lia).
      change (list_sum (map tw [mkTask g (Parsing (inc g))])) with (tw (mkTask g (Parsing (inc g))) + 0).
      rewrite T1. rewrite T2 in S. lia.
    - destruct (nth_error (f_ptasks st) t) as [[f [[|g rest]| | | |]]|] eqn:N; try discriminate.
      destruct (bad f); injection Hs as <-; unfold fmu; simpl.
      + pose proof (sum_set_nth_gen _ tw _ _ (mkTask f PFail) _ N) as S.
        unfold PipeLoaderProofs.tw in S at 2 4; simpl in S; lia.
      + pose proof (sum_set_nth_gen _ tw _ _ (mkTask f PRdy) _ N) as S.
        unfold PipeLoaderProofs.tw in S at 2 4; simpl in S; lia.
    - destruct (nth_error (f_ptasks st) t) as [[f [[|g rest]| | | |]]|] eqn:N; try discriminate.
      destruct (dstat_eqb (f_disp st) DRecv); [|discriminate].
      injection Hs as <-; unfold fmu; simpl.
      pose proof (sum_set_nth_gen _ tw _ _ (mkTask f PPushed) _ N) as S.
      unfold PipeLoaderProofs.tw in S at 2 4; simpl in S.
      rewrite map_app, list_sum_app''. simpl. lia.
    - destruct (nth_error (f_ptasks st) t) as [[f [[|g rest]| | | |]]|] eqn:N; try discriminate.
      destruct (f_pcancel st); [|discriminate].
      injection Hs as <-; unfold fmu; simpl.
      pose proof (sum_set_nth_gen _ tw _ _ (mkTask f PCancel) _ N) as S.
      unfold PipeLoaderProofs.tw in S at 2 4; simpl in S; lia.
    - destruct (negb (f_synclosed st) && forallb task_terminal (f_ptasks st)) eqn:C; [|discriminate].
      apply andb_true_iff in C. destruct C as [C _]. apply negb_true_iff in C.
      injection Hs as <-. unfold fmu. simpl. rewrite C. lia.
    - destruct (dstat_eqb (f_disp st) DRecv && f_synclosed st) eqn:C; [|discriminate].
      apply andb_true_iff in C. destruct C as [C _]. apply dstat_eqb_eq in C.
      injection Hs as <-. unfold fmu. simpl. rewrite C. simpl. lia.
    - destruct (negb drain && dstat_eqb (f_disp st) DRecv && negb (is_nil (f_cerrs st))) eqn:C; [|discriminate].
      apply andb_true_iff in C. destruct C as [C _]. apply andb_true_iff in C. destruct C as [_ C].
      apply dstat_eqb_eq in C.
      injection Hs as <-. unfold fmu. simpl. rewrite C. simpl. lia.
    - destruct (dstat_eqb (f_disp st) DWait && forallb ctask_terminal (f_ctasks st)) eqn:C; [|discriminate].
      apply andb_true_iff in C. destruct C as [C _]. apply dstat_eqb_eq in C.
      injection Hs as <-. unfold fmu. simpl. rewrite C. simpl. lia.
    - destruct (nth_error (f_ctasks st) c) as [[f []]|] eqn:N; try discriminate.
      destruct (cbad f); injection Hs as <-; unfold fmu; simpl.
      + pose proof (sum_set_nth_gen _ cw _ _ (mkC f CFail) _ N) as S. unfold cw in S at 2 4; simpl in S; lia.
      + pose proof (sum_set_nth_gen _ cw _ _ (mkC f CRdy) _ N) as S. unfold cw in S at 2 4; simpl in S; lia.
    - destruct (nth_error (f_ctasks st) c) as [[f []]|] eqn:N; try discriminate.
      destruct (bstat_eqb (f_bld st) BRecv) eqn:B; [|discriminate]. apply bstat_eqb_eq in B.
      pose proof (sum_set_nth_gen _ cw _ _ (mkC f CPushed) _ N) as S. unfold cw in S at 2 4; simpl in S.
      destruct (abad f); injection Hs as <-; unfold fmu; simpl; rewrite B; simpl; lia.
    - destruct (nth_error (f_ctasks st) c) as [[f []]|] eqn:N; try discriminate.
      destruct (f_ccancel st); [|discriminate].
      injection Hs as <-; unfold fmu; simpl.
      pose proof (sum_set_nth_gen _ cw _ _ (mkC f CCancel) _ N) as S. unfold cw in S at 2 4; simpl in S; lia.
    - destruct (bstat_eqb (f_bld st) BRecv && dstat_eqb (f_disp st) DDone) eqn:C; [|discriminate].
      apply andb_true_iff in C. destruct C as [C _]. apply bstat_eqb_eq in C.
      injection Hs as <-. unfold fmu. simpl. rewrite C. simpl. lia.
  Qed.

  Lemma feffective_bound_from : forall sched st, feffective sched st <= fmu st.
  Proof.
    induction sched as [|l rest IH]; intros st; simpl; [lia|].
    destruct (fstep l st) as [st'|] eqn:S; [|apply IH].
    pose proof (fstep_decreases l st st' S). specialize (IH st'). lia.
  Qed.

  Lemma frun_fmu : forall sched st, fmu (frun sched st) <= fmu st.
  Proof.
    induction sched as [|l rest IH]; intros st; simpl; [lia|].
    unfold PipeFromPath.fstep_or_stay. destruct (fstep l st) as [st'|] eqn:S; [|apply IH].
    pose proof (fstep_decreases l st st' S). specialize (IH st'). lia.
  Qed.

  Lemma fmu_init : forall root, fmu (finit root) = 3 * W root + 4.
  Proof.
    intros. unfold fmu, PipeFromPath.finit. cbn [f_ptasks f_ctasks f_synclosed f_disp f_bld].
    assert (T : tw (mkTask root (Parsing (inc root))) = W root)
      by (unfold PipeLoaderProofs.tw; cbn [t_st]; symmetry; apply W_unfold; exact Hrank).
    change (list_sum (map tw [mkTask root (Parsing (inc root))]))
      with (tw (mkTask root (Parsing (inc root))) + 0).
    rewrite T. simpl. lia.
  Qed.

  (* ---------------------------------------------------------------- the invariant *)
  Notation cnt := (count_occ Nat.eq_dec).

  (* where a file of the include tree currently is, if it has not been added to the builder *)
  Definition ppend (t : ptask) : list nat :=
    match t_st t with
    | Parsing rest => [t_file t] ++ flat_map E rest
    | PPushed => []
    | _ => [t_file t]
    end.
  Definition cpend (c : ctask) : list nat := match c_st c with CPushed => [] | _ => [c_file c] end.
  Definition addfail (es : list werr) : list nat :=
    flat_map (fun e => match e with WAdd f => [f] | _ => [] end) es.

  Record FPInv (root : nat) (st : fstate) : Prop := {
    P_count : forall x,
      cnt (f_added st ++ addfail (f_werrs st) ++ flat_map cpend (f_ctasks st) ++
           flat_map ppend (f_ptasks st)) x = cnt (E root) x;
    P_closed : f_synclosed st = true -> forallb task_terminal (f_ptasks st) = true;
    P_ddone : f_disp st = DDone -> forallb ctask_terminal (f_ctasks st) = true;
    P_bdone : f_bld st = BDone -> f_disp st = DDone;
    P_drain : drain = true -> f_disp st <> DRecv -> f_synclosed st = true;
    P_bfail : f_bld st = BFail -> exists f, In (WAdd f) (f_werrs st);
    P_perrs : forall f, In f (f_perrs st) -> bad f = true;
    P_cerrs : forall f, In f (f_cerrs st) -> cbad f = true;
    P_werrs : forall e, In e (f_werrs st) -> genuine bad cbad abad e = true;
    P_pclean : f_perrs st = [] ->
      f_pcancel st = false /\ forall t, In t (f_ptasks st) -> t_st t <> PFail /\ t_st t <> PCancel;
    P_cclean : f_cerrs st = [] ->
      f_ccancel st = false /\ forall c, In c (f_ctasks st) -> c_st c <> CFail /\ c_st c <> CCancel;
    P_wparse : f_werrs st = [] -> f_synclosed st = true -> f_perrs st = [];
    P_wconv : f_werrs st = [] -> f_disp st = DDone -> f_cerrs st = []
  }.

  Lemma fpinv_init : forall root, FPInv root (finit root).
  Proof.
    intros root. constructor; simpl; try discriminate; try contradiction; auto.
    - intros x. unfold ppend. simpl. rewrite app_nil_r. rewrite (E_unfold inc rank Hrank root). reflexivity.
    - intros _. split; [reflexivity|]. intros t [<-|[]]. simpl. split; discriminate.
  Qed.

  Lemma addfail_app : forall a b, addfail (a ++ b) = addfail a ++ addfail b.
  Proof. intros. unfold addfail. apply flat_map_app. Qed.

  Lemma addfail_first_parse : forall l, addfail (first_err WParse l) = [].
  Proof. destruct l; reflexivity. Qed.
  Lemma addfail_first_conv : forall l, addfail (first_err WConv l) = [].
  Proof. destruct l; reflexivity. Qed.

  Lemma in_first_err : forall mk l e, In e (first_err mk l) -> exists f, e = mk f /\ In f l.
  Proof. intros mk [|f l] e H; simpl in H; [contradiction|]. destruct H as [<-|[]]. exists f. simpl. auto. Qed.

  Lemma first_err_nil : forall mk l, first_err mk l = [] -> l = [].
  Proof. intros mk [|f l] H; [reflexivity|discriminate]. Qed.

  Lemma pterm_contra : forall l t f s, forallb task_terminal l = true ->
    nth_error l t = Some (mkTask f s) -> task_terminal (mkTask f s) = false -> False.
  Proof. intros l t f s F N T. pose proof (forallb_nth _ _ _ _ _ F N). congruence. Qed.

  Lemma cterm_contra : forall l c f s, forallb ctask_terminal l = true ->
    nth_error l c = Some (mkC f s) -> ctask_terminal (mkC f s) = false -> False.
  Proof. intros l c f s F N T. pose proof (forallb_nth _ _ _ _ _ F N). congruence. Qed.

  Ltac inset H :=
    apply in_set_nth in H; destruct H as [->|H].

  Lemma fstep_fpinv : forall root l st st', FPInv root st -> fstep l st = Some st' -> FPInv root st'.
  Proof.
    intros root l st st' HI Hs.
    destruct HI as [Hcount Hclosed Hddone Hbdone Hdrain Hbfail Hperrs Hcerrs Hwerrs Hpclean Hcclean Hwparse Hwconv].
    destruct l as [t|t|t|t| | | | |c|c|c| ]; simpl in Hs.
    - (* PSpawn *)
      destruct (nth_error (f_ptasks st) t) as [[f [[|g rest]| | | |]]|] eqn:N; try discriminate.
      injection Hs as <-. constructor; simpl; auto.
      + intros x. rewrite <- (Hcount x).
        pose proof (cnt_set_nth_gen _ ppend _ _ (mkTask f (Parsing rest)) _ x N) as S.
        assert (P1 : ppend (mkTask g (Parsing (inc g))) = E g)
          by (unfold ppend; cbn [t_st t_file]; symmetry; apply E_unfold; exact Hrank).
        assert (P2 : forall y, cnt (ppend (mkTask f (Parsing (g :: rest)))) y =
                               cnt (E g) y + cnt (ppend (mkTask f (Parsing rest))) y).
        { intros y. unfold ppend. cbn [t_st t_file flat_map]. rewrite !count_occ_app. lia. }
        rewrite flat_map_app. cbn [flat_map]. rewrite app_nil_r, P1.
        rewrite !count_occ_app. rewrite P2 in S. lia.
      + intros C. exfalso. apply (pterm_contra _ _ _ _ (Hclosed C) N). reflexivity.
      + intros Pe. destruct (Hpclean Pe) as [A B]. split; [exact A|].
        intros t' Ht'. apply in_app_or in Ht'. destruct Ht' as [Ht'|[<-|[]]].
        * inset Ht'; [simpl; split; discriminate|auto].
        * simpl; split; discriminate.
    - (* PParsed *)
      destruct (nth_error (f_ptasks st) t) as [[f [[|g rest]| | | |]]|] eqn:N; try discriminate.
      destruct (bad f) eqn:Bf; injection Hs as <-; constructor; simpl; auto.
      + intros x. rewrite <- (Hcount x).
        pose proof (cnt_set_nth_gen _ ppend _ _ (mkTask f PFail) _ x N) as S.
        rewrite !count_occ_app in *. unfold ppend at 2 4 in S. simpl in S. lia.
      + intros C. exfalso. apply (pterm_contra _ _ _ _ (Hclosed C) N). reflexivity.
      + intros f' Hf'. apply in_app_or in Hf'. destruct Hf' as [Hf'|[<-|[]]]; auto.
      + intros Pe. destruct (f_perrs st); discriminate.
      + intros _ C. exfalso. apply (pterm_contra _ _ _ _ (Hclosed C) N). reflexivity.
      + intros x. rewrite <- (Hcount x).
        pose proof (cnt_set_nth_gen _ ppend _ _ (mkTask f PRdy) _ x N) as S.
        rewrite !count_occ_app in *. unfold ppend at 2 4 in S. simpl in S. lia.
      + intros C. exfalso. apply (pterm_contra _ _ _ _ (Hclosed C) N). reflexivity.
      + intros Pe. destruct (Hpclean Pe) as [A B]. split; [exact A|].
        intros t' Ht'. inset Ht'; [simpl; split; discriminate|auto].
    - (* PPush *)
      destruct (nth_error (f_ptasks st) t) as [[f [[|g rest]| | | |]]|] eqn:N; try discriminate.
      destruct (dstat_eqb (f_disp st) DRecv) eqn:D; [|discriminate]. apply dstat_eqb_eq in D.
      injection Hs as <-; constructor; simpl; auto.
      + intros x. rewrite <- (Hcount x).
        pose proof (cnt_set_nth_gen _ ppend _ _ (mkTask f PPushed) _ x N) as S.
        rewrite flat_map_app. cbn [flat_map].
        rewrite !count_occ_app in *. unfold ppend at 2 4 in S. simpl in S.
        unfold cpend at 2. simpl. lia.
      + intros C. exfalso. apply (pterm_contra _ _ _ _ (Hclosed C) N). reflexivity.
      + intros C. congruence.
      + intros Pe. destruct (Hpclean Pe) as [A B]. split; [exact A|].
        intros t' Ht'. inset Ht'; [simpl; split; discriminate|auto].
      + intros Ce. destruct (Hcclean Ce) as [A B]. split; [exact A|].
        intros c' Hc'. apply in_app_or in Hc'. destruct Hc' as [Hc'|[<-|[]]]; [auto|simpl; split; discriminate].
    - (* PObserve *)
      destruct (nth_error (f_ptasks st) t) as [[f [[|g rest]| | | |]]|] eqn:N; try discriminate.
      destruct (f_pcancel st) eqn:Pc; [|discriminate].
      injection Hs as <-; constructor; simpl; auto.
      + intros x. rewrite <- (Hcount x).
        pose proof (cnt_set_nth_gen _ ppend _ _ (mkTask f PCancel) _ x N) as S.
        rewrite !count_occ_app in *. unfold ppend at 2 4 in S. simpl in S. lia.
      + intros C. exfalso. apply (pterm_contra _ _ _ _ (Hclosed C) N). reflexivity.
      + intros Pe. destruct (Hpclean Pe) as [A B]. congruence.
    - (* PClose *)
      destruct (negb (f_synclosed st) && forallb task_terminal (f_ptasks st)) eqn:C; [|discriminate].
      apply andb_true_iff in C. destruct C as [C1 C2]. apply negb_true_iff in C1.
      injection Hs as <-; constructor; simpl; auto.
      + intros x. rewrite addfail_app, addfail_first_parse, app_nil_r. apply Hcount.
      + intros B. destruct (Hbfail B) as (f & Hf). exists f. apply in_or_app. auto.
      + intros e He. apply in_app_or in He. destruct He as [He|He]; [auto|].
        apply in_first_err in He. destruct He as (f & -> & Hf). simpl. auto.
      + intros We _. apply app_eq_nil in We. destruct We as [_ We]. eapply first_err_nil; eassumption.
      + intros We. apply app_eq_nil in We. destruct We as [We _]. auto.
    - (* DEnd *)
      destruct (dstat_eqb (f_disp st) DRecv && f_synclosed st) eqn:C; [|discriminate].
      apply andb_true_iff in C. destruct C as [C1 C2]. apply dstat_eqb_eq in C1.
      injection Hs as <-; constructor; simpl; auto; try discriminate.
      + intros B. specialize (Hbdone B). congruence.
    - (* DAbort *)
      destruct (negb drain && dstat_eqb (f_disp st) DRecv && negb (is_nil (f_cerrs st))) eqn:C; [|discriminate].
      apply andb_true_iff in C. destruct C as [C C3]. apply andb_true_iff in C. destruct C as [C1 C2].
      apply dstat_eqb_eq in C2. apply negb_true_iff in C1.
      injection Hs as <-; constructor; simpl; auto; try discriminate.
      + intros B. specialize (Hbdone B). congruence.
      + intros Dr. congruence.
    - (* DRet *)
      destruct (dstat_eqb (f_disp st) DWait && forallb ctask_terminal (f_ctasks st)) eqn:C; [|discriminate].
      apply andb_true_iff in C. destruct C as [C1 C2]. apply dstat_eqb_eq in C1.
      injection Hs as <-; constructor; simpl; auto.
      + intros x. rewrite addfail_app, addfail_first_conv, app_nil_r. apply Hcount.
      + intros Dr _. apply Hdrain; [exact Dr|]. rewrite C1. discriminate.
      + intros B. destruct (Hbfail B) as (f & Hf). exists f. apply in_or_app. auto.
      + intros e He. apply in_app_or in He. destruct He as [He|He]; [auto|].
        apply in_first_err in He. destruct He as (f & -> & Hf). simpl. auto.
      + intros We. apply app_eq_nil in We. destruct We as [We _]. auto.
      + intros We _. apply app_eq_nil in We. destruct We as [_ We]. eapply first_err_nil; eassumption.
    - (* CConv *)
      destruct (nth_error (f_ctasks st) c) as [[f []]|] eqn:N; try discriminate.
      destruct (cbad f) eqn:Bf; injection Hs as <-; constructor; simpl; auto.
      + intros x. rewrite <- (Hcount x).
        pose proof (cnt_set_nth_gen _ cpend _ _ (mkC f CFail) _ x N) as S.
        rewrite !count_occ_app in *. unfold cpend at 2 4 in S. simpl in S. lia.
      + intros D. exfalso. apply (cterm_contra _ _ _ _ (Hddone D) N). reflexivity.
      + intros f' Hf'. apply in_app_or in Hf'. destruct Hf' as [Hf'|[<-|[]]]; auto.
      + intros Ce. destruct (f_cerrs st); discriminate.
      + intros _ D. exfalso. apply (cterm_contra _ _ _ _ (Hddone D) N). reflexivity.
      + intros x. rewrite <- (Hcount x).
        pose proof (cnt_set_nth_gen _ cpend _ _ (mkC f CRdy) _ x N) as S.
        rewrite !count_occ_app in *. unfold cpend at 2 4 in S. simpl in S. lia.
      + intros D. exfalso. apply (cterm_contra _ _ _ _ (Hddone D) N). reflexivity.
      + intros Ce. destruct (Hcclean Ce) as [A B]. split; [exact A|].
        intros c' Hc'. inset Hc'; [simpl; split; discriminate|auto].
    - (* CPush *)
      destruct (nth_error (f_ctasks st) c) as [[f []]|] eqn:N; try discriminate.
      destruct (bstat_eqb (f_bld st) BRecv) eqn:B; [|discriminate]. apply bstat_eqb_eq in B.
      destruct (abad f) eqn:Af; injection Hs as <-; constructor; simpl; auto; try discriminate.
      + intros x. rewrite <- (Hcount x).
        pose proof (cnt_set_nth_gen _ cpend _ _ (mkC f CPushed) _ x N) as S.
        rewrite addfail_app. cbn [addfail flat_map]. rewrite !count_occ_app in *.
        unfold cpend at 2 4 in S. simpl in S. simpl. destruct (Nat.eq_dec f x); lia.
      + intros D. exfalso. apply (cterm_contra _ _ _ _ (Hddone D) N). reflexivity.
      + intros _. exists f. apply in_or_app. right. left. reflexivity.
      + intros e He. apply in_app_or in He. destruct He as [He|[<-|[]]]; [auto|]. simpl. exact Af.
      + intros Ce. destruct (Hcclean Ce) as [A B']. split; [exact A|].
        intros c' Hc'. inset Hc'; [simpl; split; discriminate|auto].
      + intros We. destruct (f_werrs st); discriminate.
      + intros We. destruct (f_werrs st); discriminate.
      + intros x. rewrite <- (Hcount x).
        pose proof (cnt_set_nth_gen _ cpend _ _ (mkC f CPushed) _ x N) as S.
        rewrite !count_occ_app in *.
        unfold cpend at 2 4 in S. simpl in S. simpl. destruct (Nat.eq_dec f x); lia.
      + intros D. exfalso. apply (cterm_contra _ _ _ _ (Hddone D) N). reflexivity.
      + intros Ce. destruct (Hcclean Ce) as [A B']. split; [exact A|].
        intros c' Hc'. inset Hc'; [simpl; split; discriminate|auto].
    - (* CObserve *)
      destruct (nth_error (f_ctasks st) c) as [[f []]|] eqn:N; try discriminate.
      destruct (f_ccancel st) eqn:Cc; [|discriminate].
      injection Hs as <-; constructor; simpl; auto.
      + intros x. rewrite <- (Hcount x).
        pose proof (cnt_set_nth_gen _ cpend _ _ (mkC f CCancel) _ x N) as S.
        rewrite !count_occ_app in *. unfold cpend at 2 4 in S. simpl in S. lia.
      + intros D. exfalso. apply (cterm_contra _ _ _ _ (Hddone D) N). reflexivity.
      + intros Ce. destruct (Hcclean Ce) as [A B]. congruence.
    - (* BEnd *)
      destruct (bstat_eqb (f_bld st) BRecv && dstat_eqb (f_disp st) DDone) eqn:C; [|discriminate].
      apply andb_true_iff in C. destruct C as [C1 C2]. apply bstat_eqb_eq in C1. apply dstat_eqb_eq in C2.
      injection Hs as <-; constructor; simpl; auto; try discriminate.
  Qed.

  Lemma frun_fpinv : forall root sched st, FPInv root st -> FPInv root (frun sched st).
  Proof.
    intros root. induction sched as [|l rest IH]; intros st HI; simpl; [assumption|].
    apply IH. unfold PipeFromPath.fstep_or_stay. destruct (fstep l st) eqn:S; [|assumption].
    eapply fstep_fpinv; eassumption.
  Qed.

  Lemma reachable_fpinv : forall root sched, FPInv root (frun sched (finit root)).
  Proof. intros. apply frun_fpinv. apply fpinv_init. Qed.

  (* ---------------------------------------------------------------- deadlock freedom, draining *)
  Lemma in_flabels_p : forall st t l, t < length (f_ptasks st) ->
    In l [PSpawn t; PParsed t; PPush t; PObserve t] -> In l (flabels st).
  Proof.
    intros st t l Ht Hl. unfold flabels. apply in_or_app. left.
    apply in_flat_map. exists t. split; [apply in_seq; lia | exact Hl].
  Qed.

  Lemma in_flabels_c : forall st c l, c < length (f_ctasks st) ->
    In l [CConv c; CPush c; CObserve c] -> In l (flabels st).
  Proof.
    intros st c l Hc Hl. unfold flabels. apply in_or_app. right. apply in_or_app. right.
    apply in_flat_map. exists c. split; [apply in_seq; lia | exact Hl].
  Qed.

  Lemma in_flabels_g : forall st l, In l [PClose; DEnd; DAbort; DRet; BEnd] -> In l (flabels st).
  Proof. intros st l Hl. unfold flabels. apply in_or_app. right. apply in_or_app. left. exact Hl. Qed.

  (* the code as it is (the dispatcher drains) and a builder that does not fail: a state in which
     some worker has not returned has an enabled label *)
  Lemma fdeadlock_free : forall root st, FPInv root st -> drain = true -> (forall f, abad f = false) ->
    ffinished st = false -> exists l, In l (flabels st) /\ fenabled st l = true.
  Proof.
    intros root st HI Hd Ha F.
    destruct (forallb task_terminal (f_ptasks st)) eqn:PT.
    2:{ destruct (forallb_false_nth _ _ _ PT) as (t & [f s] & N & Q).
        pose proof (nth_error_lt _ _ _ _ N) as Lt.
        destruct s as [[|g rest]| | | |]; try discriminate Q.
        - exists (PParsed t). split; [apply (in_flabels_p st t); simpl; auto|].
          unfold PipeFromPath.fenabled. simpl. rewrite N. destruct (bad f); reflexivity.
        - exists (PSpawn t). split; [apply (in_flabels_p st t); simpl; auto|].
          unfold PipeFromPath.fenabled. simpl. rewrite N. reflexivity.
        - assert (D : f_disp st = DRecv).
          { destruct (f_disp st) eqn:D; [reflexivity| |];
              (assert (C : f_synclosed st = true) by (apply (P_drain _ _ HI Hd); rewrite D; discriminate));
              pose proof (P_closed _ _ HI C); congruence. }
          exists (PPush t). split; [apply (in_flabels_p st t); simpl; auto|].
          unfold PipeFromPath.fenabled. simpl. rewrite N, D. reflexivity. }
    destruct (f_synclosed st) eqn:SC.
    2:{ exists PClose. split; [apply in_flabels_g; simpl; auto|].
        unfold PipeFromPath.fenabled. simpl. rewrite SC, PT. reflexivity. }
    destruct (f_disp st) eqn:D.
    - exists DEnd. split; [apply in_flabels_g; simpl; auto|].
      unfold PipeFromPath.fenabled. simpl. rewrite D, SC. reflexivity.
    - destruct (forallb ctask_terminal (f_ctasks st)) eqn:CT.
      2:{ destruct (forallb_false_nth _ _ _ CT) as (c & [f s] & N & Q).
          pose proof (nth_error_lt _ _ _ _ N) as Lt.
          destruct s; try discriminate Q.
          - exists (CConv c). split; [apply (in_flabels_c st c); simpl; auto|].
            unfold PipeFromPath.fenabled. simpl. rewrite N. destruct (cbad f); reflexivity.
          - assert (B : f_bld st = BRecv).
            { destruct (f_bld st) eqn:B; [reflexivity| |].
              - pose proof (P_bdone _ _ HI B). congruence.
              - destruct (P_bfail _ _ HI B) as (f' & Hf'). pose proof (P_werrs _ _ HI _ Hf') as G.
                simpl in G. rewrite Ha in G. discriminate. }
            exists (CPush c). split; [apply (in_flabels_c st c); simpl; auto|].
            unfold PipeFromPath.fenabled. simpl. rewrite N, B. simpl. destruct (abad f); reflexivity. }
      exists DRet. split; [apply in_flabels_g; simpl; auto|].
      unfold PipeFromPath.fenabled. simpl. rewrite D, CT. reflexivity.
    - unfold ffinished in F. rewrite SC, D in F. simpl in F. apply negb_false_iff in F.
      apply bstat_eqb_eq in F.
      exists BEnd. split; [apply in_flabels_g; simpl; auto 6|].
      unfold PipeFromPath.fenabled. simpl. rewrite F, D. reflexivity.
  Qed.

  Lemma fenabled_step : forall st l, fenabled st l = true -> exists st', fstep l st = Some st'.
  Proof. intros st l H. unfold PipeFromPath.fenabled in H. destruct (fstep l st) as [st'|]; [eauto|discriminate]. Qed.

  Lemma fdrain_finishes_from : forall root fuel st, FPInv root st -> drain = true ->
    (forall f, abad f = false) -> fmu st <= fuel -> ffinished (fdrain fuel st) = true.
  Proof.
    intros root. induction fuel as [|fuel IH]; intros st HI Hd Ha Hm.
    - simpl. destruct (ffinished st) eqn:F; [reflexivity|]. exfalso.
      destruct (fdeadlock_free root st HI Hd Ha F) as (l & _ & En).
      destruct (fenabled_step st l En) as (st' & S). pose proof (fstep_decreases l st st' S). lia.
    - simpl. destruct (fpick st) as [l|] eqn:P.
      + unfold PipeFromPath.fpick in P. apply find_some in P. destruct P as [_ En].
        destruct (fenabled_step st l En) as (st' & S).
        unfold PipeFromPath.fstep_or_stay. rewrite S.
        apply IH; auto; [eapply fstep_fpinv; eassumption|].
        pose proof (fstep_decreases l st st' S). lia.
      + destruct (ffinished st) eqn:F; [reflexivity|]. exfalso.
        destruct (fdeadlock_free root st HI Hd Ha F) as (l & Hin & En).
        unfold PipeFromPath.fpick in P. pose proof (find_none _ _ P l Hin). congruence.
  Qed.

  (* ---------------------------------------------------------------- outcomes *)
  Lemma terminal_ppend_nil : forall l, forallb task_terminal l = true ->
    (forall t, In t l -> t_st t <> PFail /\ t_st t <> PCancel) -> flat_map ppend l = [].
  Proof.
    induction l as [|[f s] l IH]; intros F L; simpl in *; [reflexivity|].
    apply andb_true_iff in F. destruct F as [F1 F2].
    rewrite (IH F2 ltac:(intros; apply L; right; assumption)).
    destruct (L (mkTask f s) (or_introl eq_refl)) as [A B]. simpl in A, B.
    unfold task_terminal in F1. simpl in F1. unfold ppend. simpl.
    destruct s; try discriminate; try congruence; reflexivity.
  Qed.

  Lemma terminal_cpend_nil : forall l, forallb ctask_terminal l = true ->
    (forall c, In c l -> c_st c <> CFail /\ c_st c <> CCancel) -> flat_map cpend l = [].
  Proof.
    induction l as [|[f s] l IH]; intros F L; simpl in *; [reflexivity|].
    apply andb_true_iff in F. destruct F as [F1 F2].
    rewrite (IH F2 ltac:(intros; apply L; right; assumption)).
    destruct (L (mkC f s) (or_introl eq_refl)) as [A B]. simpl in A, B.
    unfold ctask_terminal in F1. simpl in F1. unfold cpend. simpl.
    destruct s; try discriminate; try congruence; reflexivity.
  Qed.

  Lemma ffinished_spec : forall st, ffinished st = true ->
    f_synclosed st = true /\ f_disp st = DDone /\ f_bld st <> BRecv.
  Proof.
    intros st F. unfold ffinished in F. apply andb_true_iff in F. destruct F as [F F3].
    apply andb_true_iff in F. destruct F as [F1 F2]. apply dstat_eqb_eq in F2.
    apply negb_true_iff in F3. repeat split; auto. intros B. rewrite B in F3. discriminate.
  Qed.

  (* FromPath returns without error: every file of the include tree (one copy per include path)
     has been parsed, converted and added to the builder exactly once, and no stage failed or was
     cancelled - whatever the oracles are *)
  Lemma ffinished_success : forall root st, FPInv root st -> ffinished st = true -> f_werrs st = [] ->
    Permutation (f_added st) (E root) /\ f_bld st = BDone /\ f_perrs st = [] /\ f_cerrs st = [] /\
    f_pcancel st = false /\ f_ccancel st = false.
  Proof.
    intros root st HI F We. destruct (ffinished_spec st F) as (SC & D & B).
    pose proof (P_wparse _ _ HI We SC) as Pe. pose proof (P_wconv _ _ HI We D) as Ce.
    destruct (P_pclean _ _ HI Pe) as [Pc Pl]. destruct (P_cclean _ _ HI Ce) as [Cc Cl].
    assert (BD : f_bld st = BDone).
    { destruct (f_bld st) eqn:Bs; [congruence|reflexivity|].
      destruct (P_bfail _ _ HI Bs) as (f & Hf). rewrite We in Hf. contradiction. }
    repeat split; auto.
    apply (Permutation_count_occ Nat.eq_dec). intros x. rewrite <- (P_count _ _ HI x).
    rewrite We, (terminal_ppend_nil _ (P_closed _ _ HI SC) Pl), (terminal_cpend_nil _ (P_ddone _ _ HI D) Cl).
    simpl. rewrite app_nil_r. reflexivity.
  Qed.

  (* a failure in any of the three stages is reported once the workers have returned, and every
     reported error - in particular the first, which FromPath returns - is the error of a stage
     function that did fail *)
  Lemma ffailure_reported : forall root st, FPInv root st -> ffinished st = true ->
    (exists t, In t (f_ptasks st) /\ t_st t = PFail) \/
    (exists c, In c (f_ctasks st) /\ c_st c = CFail) \/ f_bld st = BFail ->
    exists e rest, f_werrs st = e :: rest /\ genuine bad cbad abad e = true.
  Proof.
    intros root st HI F Hf. destruct (f_werrs st) as [|e rest] eqn:We.
    - exfalso. destruct (ffinished_success root st HI F We) as (_ & BD & Pe & Ce & _).
      destruct Hf as [(t & Ht & Pt)|[(c & Hc & Pc)|Bf]].
      + destruct (P_pclean _ _ HI Pe) as [_ Pl]. destruct (Pl t Ht). congruence.
      + destruct (P_cclean _ _ HI Ce) as [_ Cl]. destruct (Cl c Hc). congruence.
      + congruence.
    - exists e, rest. split; [reflexivity|]. apply (P_werrs _ _ HI). rewrite We. left. reflexivity.
  Qed.

  Lemma nofail_no_werrs : forall root st, FPInv root st ->
    (forall f, bad f = false) -> (forall f, cbad f = false) -> (forall f, abad f = false) ->
    f_werrs st = [].
  Proof.
    intros root st HI Hb Hc Ha. destruct (f_werrs st) as [|e rest] eqn:We; [reflexivity|].
    pose proof (P_werrs _ _ HI e) as G. rewrite We in G. specialize (G (or_introl eq_refl)).
    destruct e; simpl in G; congruence.
  Qed.
End FromPathProofs.

(* ------------------------------------------------------------------------------------------
   Two ways to block forever.  One file (0) that includes another (1).                        *)
Definition inc01 (f : nat) : list nat := match f with 0 => [1] | _ => [] end.
Definition none (f : nat) : bool := false.
Definition is1 (f : nat) : bool := f =? 1.

(* (a) model.FromStream returns at the first conversion error instead of draining (drain = false):
   file 1 is delivered and fails to convert, the dispatcher stops receiving, and the task of the
   root file blocks in Push forever - syntaxCh is never closed, worker1 never returns. *)
Definition nodrain_sched : list flabel :=
  [PSpawn 0; PParsed 1; PPush 1; CConv 0; DAbort; PParsed 0; DRet; BEnd].

Lemma nodrain_blocks :
  let st := frun inc01 none is1 none false nodrain_sched (finit inc01 0) in
  ffinished st = false /\ stuck_pusher st = true /\ f_pcancel st = false /\
  (forall l, fstep inc01 none is1 none false l st = None).
Proof.
  vm_compute frun. repeat split.
  intros l. destruct l as [t|t|t|t| | | | |c|c|c| ]; try reflexivity;
    try (destruct t as [|[|[|t]]]; reflexivity); destruct c as [|[|c]]; reflexivity.
Qed.

(* the same instance and schedule with the drain (the label DAbort is disabled) can go on *)
Lemma drain_same_instance :
  let st := fdrain inc01 none is1 none true 30
              (frun inc01 none is1 none true nodrain_sched (finit inc01 0)) in
  foutcome_of st = FErr (WConv 1).
Proof. vm_compute. reflexivity. Qed.

(* (b) the code as it is (drain = true), if Builder.Add could fail: the builder returns the error
   and stops receiving; the outer context is not cancelled and the inner one only by a conversion
   error, so the next conversion task blocks in Push forever and wg.Wait never returns. *)
Definition addfail_sched : list flabel :=
  [PSpawn 0; PParsed 1; PPush 1; CConv 0; CPush 0; PParsed 0; PPush 0; CConv 1; PClose; DEnd].

Lemma builder_error_blocks :
  let st := frun inc01 none none is1 true addfail_sched (finit inc01 0) in
  ffinished st = false /\ stuck_pusher st = true /\ f_ccancel st = false /\
  f_werrs st = [WAdd 1] /\
  (forall l, fstep inc01 none none is1 true l st = None).
Proof.
  vm_compute frun. repeat split.
  intros l. destruct l as [t|t|t|t| | | | |c|c|c| ]; try reflexivity;
    try (destruct t as [|[|[|t]]]; reflexivity); destruct c as [|[|[|c]]]; reflexivity.
Qed.
