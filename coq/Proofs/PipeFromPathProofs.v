(* Proofs about Model/PipeFromPath.v (journal.FromPath with its three consumers): termination
   from closure under every schedule, what reaches the builder, which error is returned, and the
   two ways in which the protocol blocks forever when a consumer stops receiving.            *)
From Coq Require Import List Bool Arith PeanoNat Lia Permutation.
From Knut Require Import Model.PipeLoader Model.PipeFromPath Proofs.PipeLoaderProofs.
Import ListNotations.

Lemma sum_set_nth_gen : forall (A : Type) (w : A -> nat) l t v old, nth_error l t = Some old ->
  list_sum (map w (set_nth l t v)) + w old = list_sum (map w l) + w v.
Proof.
  intros A w. induction l as [|x l IH]; intros [|t] v old H; simpl in *; try discriminate.
  - injection H as ->. lia.
  - specialize (IH t v old H). lia.
Qed.

Lemma cnt_set_nth_gen : forall (A : Type) (pend : A -> list nat) l t v old x,
  nth_error l t = Some old ->
  count_occ Nat.eq_dec (flat_map pend (set_nth l t v)) x + count_occ Nat.eq_dec (pend old) x =
  count_occ Nat.eq_dec (flat_map pend l) x + count_occ Nat.eq_dec (pend v) x.
Proof.
  intros A pend. induction l as [|y l IH]; intros [|t] v old x H; simpl in *; try discriminate.
  - injection H as ->. rewrite !count_occ_app. lia.
  - specialize (IH t v old x H). rewrite !count_occ_app. lia.
Qed.

Lemma forallb_nth : forall (A : Type) (p : A -> bool) l t x, forallb p l = true ->
  nth_error l t = Some x -> p x = true.
Proof. intros A p l t x F N. rewrite forallb_forall in F. apply F. eapply nth_error_In; eassumption. Qed.

Lemma forallb_false_nth : forall (A : Type) (p : A -> bool) l, forallb p l = false ->
  exists t x, nth_error l t = Some x /\ p x = false.
Proof.
  intros A p. induction l as [|y l IH]; intros H; simpl in H; [discriminate|].
  destruct (p y) eqn:P.
  - destruct (IH H) as (t & x & N & Q). exists (S t), x. auto.
  - exists 0, y. auto.
Qed.

Lemma forallb_set_nth : forall (A : Type) (p : A -> bool) l t v, forallb p l = true -> p v = true ->
  forallb p (set_nth l t v) = true.
Proof.
  intros A p. induction l as [|y l IH]; intros [|t] v F V; simpl in *; auto.
  - apply andb_true_iff in F. destruct F as [_ F]. rewrite V, F. reflexivity.
  - apply andb_true_iff in F. destruct F as [F1 F2]. rewrite F1. simpl. apply IH; assumption.
Qed.

Lemma nth_error_lt : forall (A : Type) (l : list A) t x, nth_error l t = Some x -> t < length l.
Proof. intros A l t x H. apply nth_error_Some. congruence. Qed.

Lemma dstat_eqb_eq : forall a b, dstat_eqb a b = true <-> a = b.
Proof. destruct a, b; simpl; split; intro; try reflexivity; discriminate. Qed.
Lemma bstat_eqb_eq : forall a b, bstat_eqb a b = true <-> a = b.
Proof. destruct a, b; simpl; split; intro; try reflexivity; discriminate. Qed.

Section FromPathProofs.
  Variable inc : nat -> list nat.
  Variables bad cbad abad : nat -> bool.
  Variable drain : bool.

  Notation fstep := (fstep inc bad cbad abad drain).
  Notation frun := (frun inc bad cbad abad drain).
  Notation feffective := (feffective inc bad cbad abad drain).
  Notation fenabled := (fenabled inc bad cbad abad drain).
  Notation fpick := (fpick inc bad cbad abad drain).
  Notation fdrain := (fdrain inc bad cbad abad drain).
  Notation finit := (finit inc).

  Variable rank : nat -> nat.
  Hypothesis Hrank : forall f g, In g (inc f) -> rank g < rank f.

  Notation W := (W inc rank).
  Notation E := (E inc rank).
  Notation tw := (tw inc rank).

  (* ---------------------------------------------------------------- termination measure *)
  Definition cw (c : ctask) : nat := match c_st c with CNew => 2 | CRdy => 1 | _ => 0 end.
  Definition dw (d : dstat) : nat := match d with DRecv => 2 | DWait => 1 | DDone => 0 end.
  Definition bw (b : bstat) : nat := match b with BRecv => 1 | _ => 0 end.

  Definition fmu (st : fstate) : nat :=
    3 * list_sum (map tw (f_ptasks st)) + list_sum (map cw (f_ctasks st)) +
    (if f_synclosed st then 0 else 1) + dw (f_disp st) + bw (f_bld st).

  Lemma list_sum_app'' : forall a b, list_sum (a ++ b) = list_sum a + list_sum b.
  Proof. induction a as [|x a IH]; intros b; simpl; [reflexivity|]. rewrite IH. lia. Qed.

  Lemma fstep_decreases : forall l st st', fstep l st = Some st' -> fmu st' < fmu st.
  Proof.
    intros l st st' Hs. destruct l as [t|t|t|t| | | | |c|c|c| ]; simpl in Hs.
    - destruct (nth_error (f_ptasks st) t) as [[f [[|g rest]| | | |]]|] eqn:N; try discriminate.
      injection Hs as <-. unfold fmu. cbn [f_ptasks f_ctasks f_synclosed f_disp f_bld set_ptasks].
      pose proof (sum_set_nth_gen _ tw _ _ (mkTask f (Parsing rest)) _ N) as S.
      rewrite map_app, list_sum_app''.
      assert (T1 : tw (mkTask g (Parsing (inc g))) = W g)
        by (unfold PipeLoaderProofs.tw; cbn [t_st]; symmetry; apply W_unfold; exact Hrank).
      assert (T2 : tw (mkTask f (Parsing (g :: rest))) = 1 + W g + tw (mkTask f (Parsing rest)))
        by (unfold PipeLoaderProofs.tw; simpl; lia).
      change (list_sum (map tw [mkTask g (Parsing (inc g))])) with (tw (mkTask g (Parsing (inc g))) + 0).
      rewrite T1. rewrite T2 in S. lia.
    - destruct (nth_error (f_ptasks st) t) as [[f [[|g rest]| | | |]]|] eqn:N; try discriminate.
      destruct (bad f); injection Hs as <-; unfold fmu; simpl.
      + pose proof (sum_set_nth_gen _ tw _ _ (mkTask f PFail) _ N) as S.
        unfold PipeLoaderProofs.tw in S at 2 4; simpl in S; lia.
      + pose proof (sum_set_nth_gen _ tw _ _ (mkTask f PRdy) _ N) as S.
        unfold PipeLoaderProofs.tw in S at 2 4; simpl in S; lia.
    - destruct (nth_error (f_ptasks st) t) as [[f [[|g rest]| | | |]]|] eqn:N; try discriminate.
      destruct (dstat_eqb (f_disp st) DRecv); [|discriminate].
      injection Hs as <-; unfold fmu; simpl.
      pose proof (sum_set_nth_gen _ tw _ _ (mkTask f PPushed) _ N) as S.
      unfold PipeLoaderProofs.tw in S at 2 4; simpl in S.
      rewrite map_app, list_sum_app''. simpl. lia.
    - destruct (nth_error (f_ptasks st) t) as [[f [[|g rest]| | | |]]|] eqn:N; try discriminate.
      destruct (f_pcancel st); [|discriminate].
      injection Hs as <-; unfold fmu; simpl.
      pose proof (sum_set_nth_gen _ tw _ _ (mkTask f PCancel) _ N) as S.
      unfold PipeLoaderProofs.tw in S at 2 4; simpl in S; lia.
    - destruct (negb (f_synclosed st) && forallb task_terminal (f_ptasks st)) eqn:C; [|discriminate].
      apply andb_true_iff in C. destruct C as [C _]. apply negb_true_iff in C.
      injection Hs as <-. unfold fmu. simpl. rewrite C. lia.
    - destruct (dstat_eqb (f_disp st) DRecv && f_synclosed st) eqn:C; [|discriminate].
      apply andb_true_iff in C. destruct C as [C _]. apply dstat_eqb_eq in C.
      injection Hs as <-. unfold fmu. simpl. rewrite C. simpl. lia.
    - destruct (negb drain && dstat_eqb (f_disp st) DRecv && negb (is_nil (f_cerrs st))) eqn:C; [|discriminate].
      apply andb_true_iff in C. destruct C as [C _]. apply andb_true_iff in C. destruct C as [_ C].
      apply dstat_eqb_eq in C.
      injection Hs as <-. unfold fmu. simpl. rewrite C. simpl. lia.
    - destruct (dstat_eqb (f_disp st) DWait && forallb ctask_terminal (f_ctasks st)) eqn:C; [|discriminate].
      apply andb_true_iff in C. destruct C as [C _]. apply dstat_eqb_eq in C.
      injection Hs as <-. unfold fmu. simpl. rewrite C. simpl. lia.
    - destruct (nth_error (f_ctasks st) c) as [[f []]|] eqn:N; try discriminate.
      destruct (cbad f); injection Hs as <-; unfold fmu; simpl.
      + pose proof (sum_set_nth_gen _ cw _ _ (mkC f CFail) _ N) as S. unfold cw in S at 2 4; simpl in S; lia.
      + pose proof (sum_set_nth_gen _ cw _ _ (mkC f CRdy) _ N) as S. unfold cw in S at 2 4; simpl in S; lia.
    - destruct (nth_error (f_ctasks st) c) as [[f []]|] eqn:N; try discriminate.
      destruct (bstat_eqb (f_bld st) BRecv) eqn:B; [|discriminate]. apply bstat_eqb_eq in B.
      pose proof (sum_set_nth_gen _ cw _ _ (mkC f CPushed) _ N) as S. unfold cw in S at 2 4; simpl in S.
      destruct (abad f); injection Hs as <-; unfold fmu; simpl; rewrite B; simpl; lia.
    - destruct (nth_error (f_ctasks st) c) as [[f []]|] eqn:N; try discriminate.
      destruct (f_ccancel st); [|discriminate].
      injection Hs as <-; unfold fmu; simpl.
      pose proof (sum_set_nth_gen _ cw _ _ (mkC f CCancel) _ N) as S. unfold cw in S at 2 4; simpl in S; lia.
    - destruct (bstat_eqb (f_bld st) BRecv && dstat_eqb (f_disp st) DDone) eqn:C; [|discriminate].
      apply andb_true_iff in C. destruct C as [C _]. apply bstat_eqb_eq in C.
      injection Hs as <-. unfold fmu. simpl. rewrite C. simpl. lia.
  Qed.

  Lemma feffective_bound_from : forall sched st, feffective sched st <= fmu st.
  Proof.
    induction sched as [|l rest IH]; intros st; simpl; [lia|].
    destruct (fstep l st) as [st'|] eqn:S; [|apply IH].
    pose proof (fstep_decreases l st st' S). specialize (IH st'). lia.
  Qed.

  Lemma frun_fmu : forall sched st, fmu (frun sched st) <= fmu st.
  Proof.
    induction sched as [|l rest IH]; intros st; simpl; [lia|].
    unfold PipeFromPath.fstep_or_stay. destruct (fstep l st) as [st'|] eqn:S; [|apply IH].
    pose proof (fstep_decreases l st st' S). specialize (IH st'). lia.
  Qed.

  Lemma fmu_init : forall root, fmu (finit root) = 3 * W root + 4.
  Proof.
    intros. unfold fmu, PipeFromPath.finit. cbn [f_ptasks f_ctasks f_synclosed f_disp f_bld].
    assert (T : tw (mkTask root (Parsing (inc root))) = W root)
      by (unfold PipeLoaderProofs.tw; cbn [t_st]; symmetry; apply W_unfold; exact Hrank).
    change (list_sum (map tw [mkTask root (Parsing (inc root))]))
      with (tw (mkTask root (Parsing (inc root))) + 0).
    rewrite T. simpl. lia.
  Qed.

  (* ---------------------------------------------------------------- the invariant *)
  Notation cnt := (count_occ Nat.eq_dec).

  (* where a file of the include tree currently is, if it has not been added to the builder *)
  Definition ppend (t : ptask) : list nat :=
    match t_st t with
    | Parsing rest => [t_file t] ++ flat_map E rest
    | PPushed => []
    | _ => [t_file t]
    end.
  Definition cpend (c : ctask) : list nat := match c_st c with CPushed => [] | _ => [c_file c] end.
  Definition addfail (es : list werr) : list nat :=
    flat_map (fun e => match e with WAdd f => [f] | _ => [] end) es.

  Record FPInv (root : nat) (st : fstate) : Prop := {
    P_count : forall x,
      cnt (f_added st ++ addfail (f_werrs st) ++ flat_map cpend (f_ctasks st) ++
           flat_map ppend (f_ptasks st)) x = cnt (E root) x;
    P_closed : f_synclosed st = true -> forallb task_terminal (f_ptasks st) = true;
    P_ddone : f_disp st = DDone -> forallb ctask_terminal (f_ctasks st) = true;
    P_bdone : f_bld st = BDone -> f_disp st = DDone;
    P_drain : drain = true -> f_disp st <> DRecv -> f_synclosed st = true;
    P_bfail : f_bld st = BFail -> exists f, In (WAdd f) (f_werrs st);
    P_perrs : forall f, In f (f_perrs st) -> bad f = true;
    P_cerrs : forall f, In f (f_cerrs st) -> cbad f = true;
    P_werrs : forall e, In e (f_werrs st) -> genuine bad cbad abad e = true;
    P_pclean : f_perrs st = [] ->
      f_pcancel st = false /\ forall t, In t (f_ptasks st) -> t_st t <> PFail /\ t_st t <> PCancel;
    P_cclean : f_cerrs st = [] ->
      f_ccancel st = false /\ forall c, In c (f_ctasks st) -> c_st c <> CFail /\ c_st c <> CCancel;
    P_wparse : f_werrs st = [] -> f_synclosed st = true -> f_perrs st = [];
    P_wconv : f_werrs st = [] -> f_disp st = DDone -> f_cerrs st = []
  }.

  Lemma fpinv_init : forall root, FPInv root (finit root).
  Proof.
    intros root. constructor; simpl; try discriminate; try contradiction; auto.
    - intros x. unfold ppend. simpl. rewrite app_nil_r. rewrite (E_unfold inc rank Hrank root). reflexivity.
    - intros _. split; [reflexivity|]. intros t [<-|[]]. simpl. split; discriminate.
  Qed.

  Lemma addfail_app : forall a b, addfail (a ++ b) = addfail a ++ addfail b.
  Proof. intros. unfold addfail. apply flat_map_app. Qed.

  Lemma addfail_first_parse : forall l, addfail (first_err WParse l) = [].
  Proof. destruct l; reflexivity. Qed.
  Lemma addfail_first_conv : forall l, addfail (first_err WConv l) = [].
  Proof. destruct l; reflexivity. Qed.

  Lemma in_first_err : forall mk l e, In e (first_err mk l) -> exists f, e = mk f /\ In f l.
  Proof. intros mk [|f l] e H; simpl in H; [contradiction|]. destruct H as [<-|[]]. exists f. simpl. auto. Qed.

  Lemma first_err_nil : forall mk l, first_err mk l = [] -> l = [].
  Proof. intros mk [|f l] H; [reflexivity|discriminate]. Qed.

  Lemma pterm_contra : forall l t f s, forallb task_terminal l = true ->
    nth_error l t = Some (mkTask f s) -> task_terminal (mkTask f s) = false -> False.
  Proof. intros l t f s F N T. pose proof (forallb_nth _ _ _ _ _ F N). congruence. Qed.

  Lemma cterm_contra : forall l c f s, forallb ctask_terminal l = true ->
    nth_error l c = Some (mkC f s) -> ctask_terminal (mkC f s) = false -> False.
  Proof. intros l c f s F N T. pose proof (forallb_nth _ _ _ _ _ F N). congruence. Qed.

  Ltac inset H :=
    apply in_set_nth in H; destruct H as [->|H].

  Lemma fstep_fpinv : forall root l st st', FPInv root st -> fstep l st = Some st' -> FPInv root st'.
  Proof.
    intros root l st st' HI Hs.
    destruct HI as [Hcount Hclosed Hddone Hbdone Hdrain Hbfail Hperrs Hcerrs Hwerrs Hpclean Hcclean Hwparse Hwconv].
    destruct l as [t|t|t|t| | | | |c|c|c| ]; simpl in Hs.
    - (* PSpawn *)
      destruct (nth_error (f_ptasks st) t) as [[f [[|g rest]| | | |]]|] eqn:N; try discriminate.
      injection Hs as <-. constructor; simpl; auto.
      + intros x. rewrite <- (Hcount x).
        pose proof (cnt_set_nth_gen _ ppend _ _ (mkTask f (Parsing rest)) _ x N) as S.
        assert (P1 : ppend (mkTask g (Parsing (inc g))) = E g)
          by (unfold ppend; cbn [t_st t_file]; symmetry; apply E_unfold; exact Hrank).
        assert (P2 : forall y, cnt (ppend (mkTask f (Parsing (g :: rest)))) y =
                               cnt (E g) y + cnt (ppend (mkTask f (Parsing rest))) y).
        { intros y. unfold ppend. cbn [t_st t_file flat_map]. rewrite !count_occ_app. lia. }
        rewrite flat_map_app. cbn [flat_map]. rewrite app_nil_r, P1.
        rewrite !count_occ_app. rewrite P2 in S. lia.
      + intros C. exfalso. apply (pterm_contra _ _ _ _ (Hclosed C) N). reflexivity.
      + intros Pe. destruct (Hpclean Pe) as [A B]. split; [exact A|].
        intros t' Ht'. apply in_app_or in Ht'. destruct Ht' as [Ht'|[<-|[]]].
        * inset Ht'; [simpl; split; discriminate|auto].
        * simpl; split; discriminate.
    - (* PParsed *)
      destruct (nth_error (f_ptasks st) t) as [[f [[|g rest]| | | |]]|] eqn:N; try discriminate.
      destruct (bad f) eqn:Bf; injection Hs as <-; constructor; simpl; auto.
      + intros x. rewrite <- (Hcount x).
        pose proof (cnt_set_nth_gen _ ppend _ _ (mkTask f PFail) _ x N) as S.
        rewrite !count_occ_app in *. unfold ppend at 2 4 in S. simpl in S. lia.
      + intros C. exfalso. apply (pterm_contra _ _ _ _ (Hclosed C) N). reflexivity.
      + intros f' Hf'. apply in_app_or in Hf'. destruct Hf' as [Hf'|[<-|[]]]; auto.
      + intros Pe. destruct (f_perrs st); discriminate.
      + intros _ C. exfalso. apply (pterm_contra _ _ _ _ (Hclosed C) N). reflexivity.
      + intros x. rewrite <- (Hcount x).
        pose proof (cnt_set_nth_gen _ ppend _ _ (mkTask f PRdy) _ x N) as S.
        rewrite !count_occ_app in *. unfold ppend at 2 4 in S. simpl in S. lia.
      + intros C. exfalso. apply (pterm_contra _ _ _ _ (Hclosed C) N). reflexivity.
      + intros Pe. destruct (Hpclean Pe) as [A B]. split; [exact A|].
        intros t' Ht'. inset Ht'; [simpl; split; discriminate|auto].
    - (* PPush *)
      destruct (nth_error (f_ptasks st) t) as [[f [[|g rest]| | | |]]|] eqn:N; try discriminate.
      destruct (dstat_eqb (f_disp st) DRecv) eqn:D; [|discriminate]. apply dstat_eqb_eq in D.
      injection Hs as <-; constructor; simpl; auto.
      + intros x. rewrite <- (Hcount x).
        pose proof (cnt_set_nth_gen _ ppend _ _ (mkTask f PPushed) _ x N) as S.
        rewrite flat_map_app. cbn [flat_map].
        rewrite !count_occ_app in *. unfold ppend at 2 4 in S. simpl in S.
        unfold cpend at 2. simpl. lia.
      + intros C. exfalso. apply (pterm_contra _ _ _ _ (Hclosed C) N). reflexivity.
      + intros C. congruence.
      + intros Pe. destruct (Hpclean Pe) as [A B]. split; [exact A|].
        intros t' Ht'. inset Ht'; [simpl; split; discriminate|auto].
      + intros Ce. destruct (Hcclean Ce) as [A B]. split; [exact A|].
        intros c' Hc'. apply in_app_or in Hc'. destruct Hc' as [Hc'|[<-|[]]]; [auto|simpl; split; discriminate].
    - (* PObserve *)
      destruct (nth_error (f_ptasks st) t) as [[f [[|g rest]| | | |]]|] eqn:N; try discriminate.
      destruct (f_pcancel st) eqn:Pc; [|discriminate].
      injection Hs as <-; constructor; simpl; auto.
      + intros x. rewrite <- (Hcount x).
        pose proof (cnt_set_nth_gen _ ppend _ _ (mkTask f PCancel) _ x N) as S.
        rewrite !count_occ_app in *. unfold ppend at 2 4 in S. simpl in S. lia.
      + intros C. exfalso. apply (pterm_contra _ _ _ _ (Hclosed C) N). reflexivity.
      + intros Pe. destruct (Hpclean Pe) as [A B]. congruence.
    - (* PClose *)
      destruct (negb (f_synclosed st) && forallb task_terminal (f_ptasks st)) eqn:C; [|discriminate].
      apply andb_true_iff in C. destruct C as [C1 C2]. apply negb_true_iff in C1.
      injection Hs as <-; constructor; simpl; auto.
      + intros x. rewrite addfail_app, addfail_first_parse, app_nil_r. apply Hcount.
      + intros B. destruct (Hbfail B) as (f & Hf). exists f. apply in_or_app. auto.
      + intros e He. apply in_app_or in He. destruct He as [He|He]; [auto|].
        apply in_first_err in He. destruct He as (f & -> & Hf). simpl. auto.
      + intros We _. apply app_eq_nil in We. destruct We as [_ We]. eapply first_err_nil; eassumption.
      + intros We. apply app_eq_nil in We. destruct We as [We _]. auto.
    - (* DEnd *)
      destruct (dstat_eqb (f_disp st) DRecv && f_synclosed st) eqn:C; [|discriminate].
      apply andb_true_iff in C. destruct C as [C1 C2]. apply dstat_eqb_eq in C1.
      injection Hs as <-; constructor; simpl; auto; try discriminate.
      + intros B. specialize (Hbdone B). congruence.
    - (* DAbort *)
      destruct (negb drain && dstat_eqb (f_disp st) DRecv && negb (is_nil (f_cerrs st))) eqn:C; [|discriminate].
      apply andb_true_iff in C. destruct C as [C C3]. apply andb_true_iff in C. destruct C as [C1 C2].
      apply dstat_eqb_eq in C2. apply negb_true_iff in C1.
      injection Hs as <-; constructor; simpl; auto; try discriminate.
      + intros B. specialize (Hbdone B). congruence.
      + intros Dr. congruence.
    - (* DRet *)
      destruct (dstat_eqb (f_disp st) DWait && forallb ctask_terminal (f_ctasks st)) eqn:C; [|discriminate].
      apply andb_true_iff in C. destruct C as [C1 C2]. apply dstat_eqb_eq in C1.
      injection Hs as <-; constructor; simpl; auto.
      + intros x. rewrite addfail_app, addfail_first_conv, app_nil_r. apply Hcount.
      + intros Dr _. apply Hdrain; [exact Dr|]. rewrite C1. discriminate.
      + intros B. destruct (Hbfail B) as (f & Hf). exists f. apply in_or_app. auto.
      + intros e He. apply in_app_or in He. destruct He as [He|He]; [auto|].
        apply in_first_err in He. destruct He as (f & -> & Hf). simpl. auto.
      + intros We. apply app_eq_nil in We. destruct We as [We _]. auto.
      + intros We _. apply app_eq_nil in We. destruct We as [_ We]. eapply first_err_nil; eassumption.
    - (* CConv *)
      destruct (nth_error (f_ctasks st) c) as [[f []]|] eqn:N; try discriminate.
      destruct (cbad f) eqn:Bf; injection Hs as <-; constructor; simpl; auto.
      + intros x. rewrite <- (Hcount x).
        pose proof (cnt_set_nth_gen _ cpend _ _ (mkC f CFail) _ x N) as S.
        rewrite !count_occ_app in *. unfold cpend at 2 4 in S. simpl in S. lia.
      + intros D. exfalso. apply (cterm_contra _ _ _ _ (Hddone D) N). reflexivity.
      + intros f' Hf'. apply in_app_or in Hf'. destruct Hf' as [Hf'|[<-|[]]]; auto.
      + intros Ce. destruct (f_cerrs st); discriminate.
      + intros _ D. exfalso. apply (cterm_contra _ _ _ _ (Hddone D) N). reflexivity.
      + intros x. rewrite <- (Hcount x).
        pose proof (cnt_set_nth_gen _ cpend _ _ (mkC f CRdy) _ x N) as S.
        rewrite !count_occ_app in *. unfold cpend at 2 4 in S. simpl in S. lia.
      + intros D. exfalso. apply (cterm_contra _ _ _ _ (Hddone D) N). reflexivity.
      + intros Ce. destruct (Hcclean Ce) as [A B]. split; [exact A|].
        intros c' Hc'. inset Hc'; [simpl; split; discriminate|auto].
    - (* CPush *)
      destruct (nth_error (f_ctasks st) c) as [[f []]|] eqn:N; try discriminate.
      destruct (bstat_eqb (f_bld st) BRecv) eqn:B; [|discriminate]. apply bstat_eqb_eq in B.
      destruct (abad f) eqn:Af; injection Hs as <-; constructor; simpl; auto; try discriminate.
      + intros x. rewrite <- (Hcount x).
        pose proof (cnt_set_nth_gen _ cpend _ _ (mkC f CPushed) _ x N) as S.
        rewrite addfail_app. cbn [addfail flat_map]. rewrite !count_occ_app in *.
        unfold cpend at 2 4 in S. simpl in S. simpl. destruct (Nat.eq_dec f x); lia.
      + intros D. exfalso. apply (cterm_contra _ _ _ _ (Hddone D) N). reflexivity.
      + intros _. exists f. apply in_or_app. right. left. reflexivity.
      + intros e He. apply in_app_or in He. destruct He as [He|[<-|[]]]; [auto|]. simpl. exact Af.
      + intros Ce. destruct (Hcclean Ce) as [A B']. split; [exact A|].
        intros c' Hc'. inset Hc'; [simpl; split; discriminate|auto].
      + intros We. destruct (f_werrs st); discriminate.
      + intros We. destruct (f_werrs st); discriminate.
      + intros x. rewrite <- (Hcount x).
        pose proof (cnt_set_nth_gen _ cpend _ _ (mkC f CPushed) _ x N) as S.
        rewrite !count_occ_app in *.
        unfold cpend at 2 4 in S. simpl in S. simpl. destruct (Nat.eq_dec f x); lia.
      + intros D. exfalso. apply (cterm_contra _ _ _ _ (Hddone D) N). reflexivity.
      + intros Ce. destruct (Hcclean Ce) as [A B']. split; [exact A|].
        intros c' Hc'. inset Hc'; [simpl; split; discriminate|auto].
    - (* CObserve *)
      destruct (nth_error (f_ctasks st) c) as [[f []]|] eqn:N; try discriminate.
      destruct (f_ccancel st) eqn:Cc; [|discriminate].
      injection Hs as <-; constructor; simpl; auto.
      + intros x. rewrite <- (Hcount x).
        pose proof (cnt_set_nth_gen _ cpend _ _ (mkC f CCancel) _ x N) as S.
        rewrite !count_occ_app in *. unfold cpend at 2 4 in S. simpl in S. lia.
      + intros D. exfalso. apply (cterm_contra _ _ _ _ (Hddone D) N). reflexivity.
      + intros Ce. destruct (Hcclean Ce) as [A B]. congruence.
    - (* BEnd *)
      destruct (bstat_eqb (f_bld st) BRecv && dstat_eqb (f_disp st) DDone) eqn:C; [|discriminate].
      apply andb_true_iff in C. destruct C as [C1 C2]. apply bstat_eqb_eq in C1. apply dstat_eqb_eq in C2.
      injection Hs as <-; constructor; simpl; auto; try discriminate.
  Qed.

  Lemma frun_fpinv : forall root sched st, FPInv root st -> FPInv root (frun sched st).
  Proof.
    intros root. induction sched as [|l rest IH]; intros st HI; simpl; [assumption|].
    apply IH. unfold PipeFromPath.fstep_or_stay. destruct (fstep l st) eqn:S; [|assumption].
    eapply fstep_fpinv; eassumption.
  Qed.

  Lemma reachable_fpinv : forall root sched, FPInv root (frun sched (finit root)).
  Proof. intros. apply frun_fpinv. apply fpinv_init. Qed.
End FromPathProofs.
