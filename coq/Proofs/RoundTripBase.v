(* C08 round trip, part 1 (DESIGN.md Appendix B.3): the rune structure of a text and the
   scanner primitives in both directions.

   [chunk c b]: the bytes b are one complete encoding of the rune c, whatever follows them
   (Go's decoder looks at no byte beyond a valid sequence: [decoder_local]).
   [runs r]: r is a sequence of chunks (valid UTF-8 to the end); [cls p x]: x is a sequence of
   chunks whose runes satisfy p; [fr r]: the rune the scanner sees in front of r (EOF on []).

   CONSTRUCTION ([*_cons]): the scanner state is [At s r] -- in Inv, positioned in front of
   the suffix r of the text, r valid to the end.  Each primitive, run in front of
   (x ++ r) with x of the right class and r not extending it, succeeds and ends [At s' r].
   INVERSION ([inv_*]): from a successful run of a primitive from a valid state
   ([VInv]: Inv and not the (RuneError, 1) state) the consumed window [Win s x s'] and its
   class.  Nothing here mentions errors: only successful runs matter for the round trip. *)
From Coq Require Import ZArith List Bool Lia ZifyBool.
From Knut Require Import Model.Bytes Model.Utf8 Model.Scanner Proofs.ScannerProofs.
Import ListNotations.
Open Scope bool_scope.
Open Scope Z_scope.

(* ------------------------------------------------------------------ the decoder is local *)

Definition decoder_local (dec : str -> Z * Z) : Prop :=
  forall l c w, l <> [] -> dec l = (c, w) -> ~ (c = rune_error /\ w = 1) ->
  forall x, dec (firstn (Z.to_nat w) l ++ x) = (c, w).

Lemma utf8_decoder_local : decoder_local Utf8M.decode.
Proof.
  intros l c w Hl H Hv x. destruct l as [|s0 t]; [congruence|].
  unfold decode in H.
  repeat match type of H with
  | context [if ?c then _ else _] => destruct c eqn:?
  | context [match ?x with [] => _ | _ :: _ => _ end] => destruct x
  end; inversion H; subst; try (exfalso; apply Hv; split; reflexivity);
  match goal with |- context [Z.to_nat ?k] => let v := eval compute in (Z.to_nat k) in change (Z.to_nat k) with v end;
  cbn [firstn app]; unfold decode;
  repeat match goal with [ Hx : ?e = _ |- context [?e] ] => rewrite Hx end; reflexivity.
Qed.

(* ------------------------------------------------------------------ lists *)

Lemma zlen_app (a b : str) : zlen (a ++ b) = zlen a + zlen b.
Proof. unfold zlen. rewrite app_length. lia. Qed.

Lemma zlen_nonneg (a : str) : 0 <= zlen a.
Proof. unfold zlen. lia. Qed.

Lemma zlen_cons (x : Z) (a : str) : zlen (x :: a) = 1 + zlen a.
Proof. unfold zlen. cbn [length]. lia. Qed.

Lemma zlen_nil : zlen [] = 0.
Proof. reflexivity. Qed.

Lemma zlen_pos (a : str) : a <> [] -> 1 <= zlen a.
Proof. destruct a; [congruence|]. rewrite zlen_cons. pose proof (zlen_nonneg a). lia. Qed.

Lemma firstn_zlen_app (a b : str) : firstn (Z.to_nat (zlen a)) (a ++ b) = a.
Proof.
  unfold zlen. rewrite Nat2Z.id. rewrite firstn_app, Nat.sub_diag, firstn_all. cbn [firstn].
  apply app_nil_r.
Qed.

Lemma skipn_zlen_app (a b : str) : skipn (Z.to_nat (zlen a)) (a ++ b) = b.
Proof.
  unfold zlen. rewrite Nat2Z.id. rewrite skipn_app, Nat.sub_diag, skipn_all. reflexivity.
Qed.

Lemma app_eq_len (a a' b b' : str) : zlen a = zlen a' -> a ++ b = a' ++ b' -> a = a' /\ b = b'.
Proof.
  intros Hl H. split.
  - rewrite <- (firstn_zlen_app a b), H, Hl. apply firstn_zlen_app.
  - rewrite <- (skipn_zlen_app a b), H, Hl. apply skipn_zlen_app.
Qed.

(* ------------------------------------------------------------------ chunks, runs, classes *)

Section Chunks.
Variable dec : str -> Z * Z.
Hypothesis Hdec : decoder_ok dec.

Definition chunk (c : Z) (b : str) : Prop :=
  b <> [] /\ (forall x, dec (b ++ x) = (c, zlen b)) /\ ~ (c = rune_error /\ zlen b = 1).

Inductive runs : str -> Prop :=
| runs_nil : runs []
| runs_cons c b r : chunk c b -> runs r -> runs (b ++ r).

Inductive cls (p : Z -> bool) : str -> Prop :=
| cls_nil : cls p []
| cls_cons c b x : chunk c b -> p c = true -> cls p x -> cls p (b ++ x).

Definition fr (r : str) : Z := match r with [] => eof | _ => fst (dec r) end.

Definition stops (p : Z -> bool) (r : str) : Prop := p (fr r) && negb (fr r =? eof) = false.

Lemma chunk_nonneg c b : chunk c b -> 0 <= c.
Proof using Hdec.
  intros (_ & H & _). specialize (H []). apply (dec_nonneg _ Hdec) in H. exact H.
Qed.

Lemma chunk_not_eof c b : chunk c b -> c <> eof.
Proof using Hdec. intros H. apply chunk_nonneg in H. unfold eof. lia. Qed.

Lemma chunk_len c b : chunk c b -> 1 <= zlen b.
Proof using. intros (H & _). now apply zlen_pos. Qed.

Lemma chunk_ascii b : 0 <= b < 128 -> chunk b [b].
Proof using Hdec.
  intros Hb. split; [discriminate|]. split.
  - intros x. cbn [app]. now rewrite (dec_ascii _ Hdec b x Hb).
  - unfold rune_error. lia.
Qed.

Lemma chunk_det c b x c' b' x' :
  chunk c b -> chunk c' b' -> b ++ x = b' ++ x' -> c = c' /\ b = b' /\ x = x'.
Proof using.
  intros (_ & H1 & _) (_ & H2 & _) He. specialize (H1 x). specialize (H2 x').
  rewrite He in H1. rewrite H1 in H2. inversion H2 as [[Hc Hl]].
  destruct (app_eq_len b b' x x' Hl He). auto.
Qed.

Lemma fr_chunk c b r : chunk c b -> fr (b ++ r) = c.
Proof using.
  intros (Hne & H & _). unfold fr. destruct (b ++ r) eqn:Hb.
  - destruct b; [congruence|discriminate].
  - rewrite <- Hb, H. reflexivity.
Qed.

Lemma fr_ascii b r : 0 <= b < 128 -> fr (b :: r) = b.
Proof using Hdec. intros Hb. apply (fr_chunk b [b] r). now apply chunk_ascii. Qed.

Lemma fr_nil : fr [] = eof.
Proof using. reflexivity. Qed.

Lemma runs_app x y : runs x -> runs y -> runs (x ++ y).
Proof using.
  induction 1 as [|c b r Hc Hr IH]; intros Hy; [exact Hy|].
  rewrite <- app_assoc. apply (runs_cons c); auto.
Qed.

Lemma runs_chunk_inv c b r : chunk c b -> runs (b ++ r) -> runs r.
Proof using.
  intros Hc Hr. inversion Hr as [Hn|c' b' r' Hc' Hr' He].
  - destruct Hc as (Hne & _). symmetry in Hn. apply app_eq_nil in Hn. tauto.
  - destruct (chunk_det _ _ _ _ _ _ Hc' Hc He) as (_ & _ & ->). exact Hr'.
Qed.

Lemma cls_runs p x : cls p x -> runs x.
Proof using. induction 1; [constructor|econstructor; eauto]. Qed.

Lemma cls_app p x y : cls p x -> cls p y -> cls p (x ++ y).
Proof using.
  induction 1 as [|c b x Hc Hp Hx IH]; intros Hy; [exact Hy|].
  rewrite <- app_assoc. apply (cls_cons p c); auto.
Qed.

Lemma runs_cls_inv p x r : cls p x -> runs (x ++ r) -> runs r.
Proof using.
  induction 1 as [|c b x Hc Hp Hx IH]; intros Hr; [exact Hr|].
  rewrite <- app_assoc in Hr. apply IH. eapply runs_chunk_inv; eauto.
Qed.

Lemma cls_impl (p q : Z -> bool) x : (forall c, p c = true -> q c = true) -> cls p x -> cls q x.
Proof using. intros Hpq. induction 1; [constructor|econstructor; eauto]. Qed.

Lemma cls_ascii p x : Forall (fun b => 0 <= b < 128 /\ p b = true) x -> cls p x.
Proof using Hdec.
  induction 1 as [|b x (Hb & Hp) Hx IH]; [constructor|].
  change (b :: x) with ([b] ++ x). apply (cls_cons p b); auto. now apply chunk_ascii.
Qed.

Lemma runs_ascii_app x r : Forall ascii x -> runs r -> runs (x ++ r).
Proof using Hdec.
  intros Hx Hr. apply runs_app; [|exact Hr]. apply (cls_runs (fun _ => true)).
  apply cls_ascii. eapply Forall_impl; [|exact Hx]. unfold ascii. auto.
Qed.

Lemma runs_cons_ascii b r : 0 <= b < 128 -> runs r -> runs (b :: r).
Proof using Hdec. intros Hb Hr. change (b :: r) with ([b] ++ r). apply (runs_cons b); auto. now apply chunk_ascii. Qed.

Lemma runs_cons_inv b r : 0 <= b < 128 -> runs (b :: r) -> runs r.
Proof using Hdec. intros Hb Hr. apply (runs_chunk_inv b [b] r); [now apply chunk_ascii|exact Hr]. Qed.

(* a non-empty class string starts with a rune of the class *)
Lemma cls_first p x r : cls p x -> x <> [] -> fr (x ++ r) <> eof /\ p (fr (x ++ r)) = true.
Proof using Hdec.
  intros Hx Hne. destruct Hx as [|c b x Hc Hp Hx]; [congruence|].
  rewrite <- app_assoc, (fr_chunk c b _ Hc). split; [eapply chunk_not_eof; eauto|exact Hp].
Qed.

End Chunks.

Arguments runs_nil {dec}.
Arguments cls_nil {dec p}.

(* ------------------------------------------------------------------ the scanner on a text *)

Section WithEnv.
Variable E : env.
Hypothesis Hlen : e_len E = Z.of_nat (length (e_text E)).
Hypothesis Hfuel : (length (e_text E) < e_fuel E)%nat.
Hypothesis Hdec : decoder_ok (e_decode E).
Hypothesis Hloc : decoder_local (e_decode E).

Notation t := (e_text E).
Notation len := (e_len E).
Notation dec := (e_decode E).
Notation Inv := (Inv E).
Notation chunk := (chunk dec).
Notation runs := (runs dec).
Notation cls := (cls dec).
Notation fr := (fr dec).
Notation stops := (stops dec).

Local Notation inv_facts := (ScannerProofs.inv_facts E Hlen Hfuel Hdec).
Local Notation rest_length := (ScannerProofs.rest_length E Hlen Hfuel Hdec).

Definition At (s : state) (r : str) : Prop := Inv s /\ rest s = r /\ runs r.

Lemma At_inv s r : At s r -> Inv s.
Proof using. intros H; apply H. Qed.

Lemma At_len s r : At s r -> zlen r = len - off s.
Proof using All. intros (HI & Hr & _). rewrite <- Hr. unfold zlen. now apply rest_length. Qed.

Lemma At_off s x r s' : At s (x ++ r) -> At s' r -> off s' = off s + zlen x.
Proof using All.
  intros H1 H2. apply At_len in H1. apply At_len in H2. rewrite zlen_app in H1. lia.
Qed.

Lemma At_slice s x r s' : At s (x ++ r) -> At s' r -> slice t (off s) (off s') = x.
Proof using All.
  intros H1 H2. rewrite (At_off s x r s' H1 H2).
  destruct H1 as ((_ & Hr & _) & Hx & _).
  rewrite (slice_rest t (off s) (zlen x) (rest s) Hr), Hx. apply firstn_zlen_app.
Qed.

Lemma At_cur s r : At s r -> cur s = fr r.
Proof using All.
  intros H. pose proof (At_len s r H) as HL. destruct H as (HI & Hr & _).
  destruct HI as (_ & _ & [(Hc & _ & Ho)|(Ho & Hd)]).
  - destruct r; [now rewrite Hc|]. rewrite zlen_cons in HL. pose proof (zlen_nonneg r). lia.
  - destruct r as [|b r]; [rewrite zlen_nil in HL; lia|].
    unfold RoundTripBase.fr. rewrite <- Hr, <- Hd. reflexivity.
Qed.

Lemma At_chunk s c b r : At s (b ++ r) -> chunk c b -> cur s = c /\ clen s = zlen b.
Proof using All.
  intros H Hc. pose proof (At_len s _ H) as HL. pose proof (chunk_len dec c b Hc) as Hb.
  rewrite zlen_app in HL. pose proof (zlen_nonneg r).
  destruct H as (HI & Hr & _). destruct HI as (_ & _ & [(_ & _ & Ho)|(Ho & Hd)]); [lia|].
  destruct Hc as (_ & Hx & _). rewrite Hr, Hx in Hd. inversion Hd. auto.
Qed.

Lemma At_nil_eof s : At s [] -> cur s = eof.
Proof using All. intros H. now rewrite (At_cur s [] H). Qed.

(* ---- Advance ---- *)

Lemma advance_cons s c b r : At s (b ++ r) -> chunk c b ->
  exists s', advance E s = Ok tt s' /\ At s' r.
Proof using All.
  intros HA Hc. destruct (At_chunk s c b r HA Hc) as (Hcur & Hclen).
  pose proof (At_len s _ HA) as HL. rewrite zlen_app in HL.
  pose proof (chunk_len dec c b Hc) as Hb1. pose proof (chunk_not_eof dec Hdec c b Hc) as Hne.
  destruct HA as (HI & Hr & Hruns).
  pose proof (runs_chunk_inv dec c b r Hc Hruns) as Hrr.
  pose proof (inv_facts s HI) as (H0 & _).
  pose proof HI as (_ & Hrest & _).
  assert (Hsk : skipn (Z.to_nat (clen s)) (rest s) = r).
  { rewrite Hr, Hclen. apply skipn_zlen_app. }
  assert (Hsk2 : r = skipn (Z.to_nat (off s + clen s)) t).
  { rewrite <- Hsk, Hrest, skipn_add. f_equal. pose proof (zlen_nonneg b). lia. }
  unfold advance. rewrite Hsk.
  destruct (Z.eqb_spec (off s + clen s) len) as [He|He].
  - assert (Hb : negb (cur s =? eof) = true) by (apply negb_true_iff, Z.eqb_neq; congruence).
    rewrite Hb. cbn [andb]. eexists. split; [reflexivity|].
    assert (Hrn : r = []).
    { destruct r; [reflexivity|]. rewrite zlen_cons in HL. pose proof (zlen_nonneg r). lia. }
    split; [|split; [cbn [rest]; reflexivity|exact Hrr]].
    apply (inv_eof_state E Hlen Hfuel Hdec); [exact He|exact Hsk2].
  - cbn [andb].
    inversion Hrr as [Hn|c' b' r' Hc' Hr' Heq].
    { exfalso. rewrite <- Hn in HL. rewrite zlen_nil in HL. lia. }
    pose proof Hc' as (_ & Hx' & Hv'). rewrite (Hx' r').
    pose proof (chunk_len dec c' b' Hc') as Hb'.
    assert (Hok : exists s', Ok tt (mkState (off s + clen s) c' (zlen b') (b' ++ r')) = Ok tt s' /\ At s' (b' ++ r')).
    { eexists. split; [reflexivity|]. split; [|split; [reflexivity|rewrite Heq; exact Hrr]].
      apply (inv_dec_state E Hlen Hfuel Hdec).
      - pose proof (zlen_nonneg r). lia.
      - rewrite Heq. exact Hsk2.
      - apply Hx'. }
    destruct (Z.eqb_spec c' rune_error) as [Hce|Hce]; [|exact Hok].
    destruct (Z.eqb_spec (zlen b') 0) as [Hw0|Hw0]; [lia|].
    destruct (Z.eqb_spec (zlen b') 1) as [Hw1|Hw1]; [tauto|exact Hok].
Qed.

(* ---- ReadWhile ---- *)

Lemma read_while_loop_cons p x : cls p x ->
  forall n s r start, At s (x ++ r) -> stops p r -> (length x < n)%nat ->
  exists s', read_while_loop E p start n s = Ok (mkRange start (off s')) s' /\ At s' r.
Proof using All.
  induction 1 as [|c b x Hc Hp Hx IH]; intros n s r start HA Hst Hn.
  - destruct n as [|n]; [lia|]. cbn [read_while_loop app] in *.
    rewrite (At_cur s r HA). unfold stops in Hst. rewrite Hst. eauto.
  - destruct n as [|n]; [cbn [length] in Hn; lia|]. cbn [read_while_loop].
    rewrite <- app_assoc in HA.
    destruct (At_chunk s c b _ HA Hc) as (Hcur & _).
    pose proof (chunk_not_eof dec Hdec c b Hc) as Hne.
    rewrite Hcur, Hp. destruct (Z.eqb_spec c eof) as [|_]; [contradiction|]. cbn [andb negb].
    destruct (advance_cons s c b _ HA Hc) as (s1 & -> & HA1).
    apply (IH n s1 r start HA1 Hst).
    rewrite app_length in Hn. pose proof (chunk_len dec c b Hc). unfold zlen in *. lia.
Qed.

Lemma fuel_rest s : Inv s -> (length (rest s) < e_fuel E)%nat.
Proof using All.
  intros HI. pose proof (rest_length s HI). pose proof (inv_facts s HI). lia.
Qed.

Lemma read_while_cons p x s r : At s (x ++ r) -> cls p x -> stops p r ->
  exists s', read_while E p s = Ok (mkRange (off s) (off s')) s' /\ At s' r.
Proof using All.
  intros HA Hx Hst. unfold read_while. apply (read_while_loop_cons p x Hx); try assumption.
  pose proof (fuel_rest s (At_inv _ _ HA)) as Hf. destruct HA as (_ & Hr & _).
  rewrite Hr, app_length in Hf. lia.
Qed.

Lemma read_while1_cons p x s r : At s (x ++ r) -> cls p x -> x <> [] -> stops p r ->
  exists s', read_while1 E p s = Ok (mkRange (off s) (off s')) s' /\ At s' r.
Proof using All.
  intros HA Hx Hne Hst. unfold read_while1.
  destruct (cls_first dec Hdec p x r Hx Hne) as (H1 & H2).
  rewrite (At_cur s _ HA). destruct (Z.eqb_spec (fr (x ++ r)) eof) as [|_]; [contradiction|].
  rewrite H2. cbn [negb].
  apply (read_while_loop_cons p x Hx); try assumption.
  pose proof (fuel_rest s (At_inv _ _ HA)) as Hf. destruct HA as (_ & Hr & _).
  rewrite Hr, app_length in Hf. lia.
Qed.

(* ---- ReadCharacter(With) ---- *)

Lemma read_character_with_cons p s c b r : At s (b ++ r) -> chunk c b -> p c = true ->
  exists s', read_character_with E p s = Ok (mkRange (off s) (off s')) s' /\ At s' r.
Proof using All.
  intros HA Hc Hp. unfold read_character_with.
  destruct (At_chunk s c b _ HA Hc) as (Hcur & _).
  pose proof (chunk_not_eof dec Hdec c b Hc) as Hne.
  rewrite Hcur, Hp. destruct (Z.eqb_spec c eof) as [|_]; [contradiction|]. cbn [negb].
  destruct (advance_cons s c b _ HA Hc) as (s1 & -> & HA1). eauto.
Qed.

Lemma read_character_cons c s r : At s (c :: r) -> 0 <= c < 128 ->
  exists s', read_character E c s = Ok (mkRange (off s) (off s')) s' /\ At s' r.
Proof using All.
  intros HA Hc. unfold read_character.
  apply (read_character_with_cons _ s c [c] r HA); [now apply chunk_ascii|apply Z.eqb_refl].
Qed.

(* ---- ReadString, ReadAlternative ---- *)

Lemma read_string_loop_cons str : Forall ascii str ->
  forall s r start, At s (str ++ r) ->
  exists s', read_string_loop E str start s = Ok (mkRange start (off s')) s' /\ At s' r.
Proof using All.
  induction 1 as [|c str Hc Hstr IH]; intros s r start HA.
  - cbn [read_string_loop app] in *. eauto.
  - cbn [read_string_loop]. cbn [app] in HA.
    pose proof (chunk_ascii dec Hdec c Hc) as Hch.
    destruct (At_chunk s c [c] _ HA Hch) as (Hcur & _).
    rewrite Hcur, Z.eqb_refl. cbn [negb].
    destruct (advance_cons s c [c] _ HA Hch) as (s1 & -> & HA1).
    apply (IH s1 r start HA1).
Qed.

Lemma read_string_cons str s r : Forall ascii str -> At s (str ++ r) ->
  exists s', read_string E str s = Ok (mkRange (off s) (off s')) s' /\ At s' r.
Proof using All. intros Hs HA. unfold read_string. now apply read_string_loop_cons. Qed.

Lemma read_string_fail str s : Forall ascii str -> Inv s -> (forall r', rest s <> str ++ r') ->
  exists e s', read_string E str s = Err e s'.
Proof using All.
  intros Hs HI Hnp. pose proof (read_string_spec E Hlen Hfuel Hdec str s Hs HI) as H.
  destruct (read_string E str s) as [rg s'|e s'|]; cbn [post] in H; [|eauto|contradiction].
  exfalso. destruct H as (_ & _ & _ & Ho & Hsl).
  destruct HI as (_ & Hr & _).
  rewrite Ho, (slice_rest t (off s) _ (rest s) Hr), Nat2Z.id in Hsl.
  apply (Hnp (skipn (length str) (rest s))). rewrite <- Hsl at 1. symmetry. apply firstn_skipn.
Qed.

Lemma read_alternative_loop_cons pre kw post s r :
  Forall (Forall ascii) (pre ++ kw :: post) -> At s (kw ++ r) -> kw <> [] ->
  Forall (fun x => forall r', kw ++ r <> x ++ r') pre ->
  exists s', read_alternative_loop E (pre ++ kw :: post) (off s) s = Ok (mkRange (off s) (off s')) s' /\ At s' r.
Proof using All.
  intros Hasc HA Hne Hpre.
  assert (Hc : cur s <> eof).
  { apply Forall_app in Hasc. destruct Hasc as (_ & Hk). inversion Hk as [|? ? Hkw _]. subst.
    destruct kw as [|c kw]; [congruence|]. inversion Hkw as [|? ? Hcc _]. subst.
    cbn [app] in HA. rewrite (At_cur s _ HA), (fr_ascii dec Hdec c _ Hcc). unfold ascii, eof in *. lia. }
  induction pre as [|x pre IH]; cbn [app read_alternative_loop] in *.
  - inversion Hasc as [|? ? Hkw _]. subst.
    destruct (read_string_cons kw s r Hkw HA) as (s' & -> & HA'). eauto.
  - inversion Hasc as [|? ? Hx Hrest]. subst. inversion Hpre as [|? ? Hnx Hpre']. subst.
    destruct (read_string_fail x s Hx (At_inv _ _ HA)) as (e & s1 & ->).
    { destruct HA as (_ & -> & _). exact Hnx. }
    rewrite (backtrack_id E Hlen Hfuel Hdec s (At_inv _ _ HA) Hc). now apply IH.
Qed.

Lemma read_alternative_cons pre kw post s r :
  Forall (Forall ascii) (pre ++ kw :: post) -> At s (kw ++ r) -> kw <> [] ->
  Forall (fun x => forall r', kw ++ r <> x ++ r') pre ->
  exists s', read_alternative E (pre ++ kw :: post) s = Ok (mkRange (off s) (off s')) s' /\ At s' r.
Proof using All.
  intros Hasc HA Hne Hpre. unfold read_alternative.
  assert (Hc : cur s <> eof).
  { apply Forall_app in Hasc. destruct Hasc as (_ & Hk). inversion Hk as [|? ? Hkw _]. subst.
    destruct kw as [|c kw]; [congruence|]. inversion Hkw as [|? ? Hcc _]. subst.
    cbn [app] in HA. rewrite (At_cur s _ HA), (fr_ascii dec Hdec c _ Hcc). unfold ascii, eof in *. lia. }
  destruct (Z.eqb_spec (cur s) eof) as [|_]; [contradiction|].
  now apply read_alternative_loop_cons.
Qed.

(* ------------------------------------------------------------------ inversion *)

Definition VInv (s : state) : Prop := Inv s /\ ~ (cur s = rune_error /\ clen s = 1).

(* the bytes between two states *)
Definition Win (s : state) (x : str) (s' : state) : Prop := rest s = x ++ rest s'.

Lemma At_VInv s r : At s r -> VInv s.
Proof using All.
  intros HA. split; [apply HA|]. intros (Hc & Hw).
  pose proof (At_len s r HA) as HL. destruct HA as (HI & Hr & Hruns).
  destruct Hruns as [|c b r' Hch Hr'].
  - pose proof HI as (_ & _ & [(Hce & _)|(Ho & _)]); [unfold rune_error, eof in *; lia|].
    rewrite zlen_nil in HL. lia.
  - assert (HA : At s (b ++ r')) by (split; [|split]; auto; econstructor; eauto).
    destruct (At_chunk s c b r' HA Hch) as (Hc1 & Hw1).
    destruct Hch as (_ & _ & Hv). apply Hv. split; congruence.
Qed.

Lemma win_nil s : Win s [] s.
Proof using. reflexivity. Qed.

Lemma win_trans s x s1 y s2 : Win s x s1 -> Win s1 y s2 -> Win s (x ++ y) s2.
Proof using. unfold Win. intros -> ->. now rewrite app_assoc. Qed.

Lemma win_off s x s' : Inv s -> Inv s' -> Win s x s' -> off s' = off s + zlen x.
Proof using All.
  intros H1 H2 Hw. pose proof (rest_length s H1) as L1. pose proof (rest_length s' H2) as L2.
  rewrite Hw, app_length in L1. unfold zlen. lia.
Qed.

Lemma win_slice s x s' : Inv s -> Inv s' -> Win s x s' -> slice t (off s) (off s') = x.
Proof using All.
  intros H1 H2 Hw. rewrite (win_off s x s' H1 H2 Hw). destruct H1 as (_ & Hr & _).
  rewrite (slice_rest t (off s) (zlen x) (rest s) Hr), Hw. apply firstn_zlen_app.
Qed.

Lemma vinv_chunk s : VInv s -> cur s <> eof ->
  exists b, chunk (cur s) b /\ rest s = b ++ skipn (Z.to_nat (clen s)) (rest s) /\ zlen b = clen s.
Proof using All.
  intros (HI & Hv) Hc. pose proof (rest_length s HI) as HL.
  pose proof (inv_facts s HI) as (_ & _ & _ & _ & Hne).
  destruct (Hne Hc) as (Hw & _ & Ho & Hd). symmetry in Hd.
  assert (Hrne : rest s <> []) by (intros Hn; rewrite Hn in HL; cbn [length] in HL; lia).
  pose proof (dec_width _ Hdec _ _ _ Hrne Hd) as Hww.
  exists (firstn (Z.to_nat (clen s)) (rest s)).
  assert (Hzl : zlen (firstn (Z.to_nat (clen s)) (rest s)) = clen s).
  { unfold zlen. rewrite firstn_length. lia. }
  split; [|split; [symmetry; apply firstn_skipn|exact Hzl]].
  split; [|split].
  - intros Hn. rewrite Hn in Hzl. rewrite zlen_nil in Hzl. lia.
  - intros x. rewrite Hzl. apply (Hloc _ _ _ Hrne Hd). exact Hv.
  - rewrite Hzl. exact Hv.
Qed.

Lemma inv_advance s u s' : VInv s -> advance E s = Ok u s' ->
  VInv s' /\ cur s <> eof /\ exists b, chunk (cur s) b /\ Win s b s' /\ off s' = off s + zlen b.
Proof using All.
  intros HV H. pose proof HV as (HI & Hv).
  pose proof (advance_spec E Hlen Hfuel Hdec s HI) as Hs. rewrite H in Hs. cbn [post] in Hs.
  destruct Hs as (HI' & _ & Ho & Hc & _).
  destruct (vinv_chunk s HV Hc) as (b & Hch & Hrb & Hzl).
  assert (Hr' : rest s' = skipn (Z.to_nat (clen s)) (rest s) /\ ~ (cur s' = rune_error /\ clen s' = 1)).
  { unfold advance in H.
    destruct ((off s + clen s =? len) && negb (cur s =? eof)).
    - inversion H; subst s'. cbn [rest cur clen]. split; [reflexivity|]. unfold rune_error, eof. lia.
    - destruct (dec (skipn (Z.to_nat (clen s)) (rest s))) as [c w] eqn:Hd.
      destruct (Z.eqb_spec c rune_error) as [Hce|Hce].
      + destruct (w =? 0); [discriminate|]. destruct (Z.eqb_spec w 1) as [Hw1|Hw1]; [discriminate|].
        inversion H; subst s'. cbn [rest cur clen]. split; [reflexivity|]. lia.
      + inversion H; subst s'. cbn [rest cur clen]. split; [reflexivity|]. lia. }
  destruct Hr' as (Hr' & Hv').
  split; [split; assumption|]. split; [assumption|].
  exists b. split; [assumption|]. split; [unfold Win; rewrite Hr'; exact Hrb|lia].
Qed.

Lemma vinv_cur_fr s : VInv s -> cur s = fr (rest s).
Proof using All.
  intros (HI & _). pose proof (rest_length s HI) as HL.
  destruct HI as (_ & _ & [(Hc & _ & Ho)|(Ho & Hd)]).
  - destruct (rest s); [now rewrite Hc|]. cbn [length] in HL. lia.
  - remember (rest s) as r eqn:Hr. destruct r as [|b r]; [cbn [length] in HL; lia|].
    unfold RoundTripBase.fr. rewrite <- Hd. reflexivity.
Qed.

Lemma inv_read_while_loop p : forall n s start rg s', VInv s ->
  read_while_loop E p start n s = Ok rg s' ->
  VInv s' /\ rg = mkRange start (off s') /\ off s <= off s' /\
  exists x, cls p x /\ Win s x s' /\ stops p (rest s') /\ p (cur s') && negb (cur s' =? eof) = false.
Proof using All.
  induction n as [|n IH]; intros s start rg s' HV H; cbn [read_while_loop] in H; [discriminate|].
  destruct (p (cur s) && negb (cur s =? eof)) eqn:Hp.
  - destruct (advance E s) as [u s1|e s1|] eqn:Ha; try discriminate.
    destruct (inv_advance s u s1 HV Ha) as (HV1 & Hc & b & Hch & Hw & Ho).
    destruct (IH s1 start rg s' HV1 H) as (HV' & Hrg & Hle & x & Hx & Hwx & Hst).
    split; [assumption|]. split; [assumption|]. pose proof (zlen_nonneg b). split; [lia|].
    exists (b ++ x). split; [|split; [eapply win_trans; eauto|exact Hst]].
    apply (cls_cons dec p (cur s)); auto. lia.
  - inversion H; subst. split; [assumption|]. split; [reflexivity|]. split; [lia|].
    exists []. split; [constructor|]. split; [apply win_nil|].
    pose proof (vinv_cur_fr s' HV) as Hcf.
    split; [unfold stops; rewrite <- Hcf; exact Hp|exact Hp].
Qed.

Lemma inv_read_while p s rg s' : VInv s -> read_while E p s = Ok rg s' ->
  VInv s' /\ rg = mkRange (off s) (off s') /\ off s <= off s' /\
  exists x, cls p x /\ Win s x s' /\ stops p (rest s') /\ p (cur s') && negb (cur s' =? eof) = false.
Proof using All. unfold read_while. apply inv_read_while_loop. Qed.

Lemma inv_read_while1 p s rg s' : VInv s -> read_while1 E p s = Ok rg s' ->
  VInv s' /\ rg = mkRange (off s) (off s') /\ off s < off s' /\
  exists x, cls p x /\ x <> [] /\ Win s x s' /\ p (cur s') && negb (cur s' =? eof) = false.
Proof using All.
  intros HV H. unfold read_while1 in H.
  destruct (Z.eqb_spec (cur s) eof) as [Hc|Hc]; [discriminate|].
  destruct (p (cur s)) eqn:Hp; cbn [negb] in H; [|discriminate].
  destruct (inv_read_while_loop p _ s (off s) rg s' HV H) as (HV' & Hrg & Hle & x & Hx & Hw & _ & Hst).
  split; [assumption|]. split; [assumption|].
  assert (Hne : x <> []).
  { intros ->. unfold Win in Hw. cbn [app] in Hw.
    rewrite (vinv_cur_fr s' HV'), <- Hw, <- (vinv_cur_fr s HV), Hp in Hst.
    destruct (Z.eqb_spec (cur s) eof); [contradiction|discriminate]. }
  pose proof (win_off s x s' (proj1 HV) (proj1 HV') Hw) as Ho. pose proof (zlen_pos x Hne).
  split; [lia|]. exists x. auto.
Qed.

Lemma inv_read_character_with p s rg s' : VInv s -> read_character_with E p s = Ok rg s' ->
  VInv s' /\ rg = mkRange (off s) (off s') /\ off s < off s' /\ p (cur s) = true /\
  exists b, chunk (cur s) b /\ Win s b s'.
Proof using All.
  intros HV H. unfold read_character_with in H.
  destruct (Z.eqb_spec (cur s) eof) as [Hc|Hc]; [discriminate|].
  destruct (p (cur s)) eqn:Hp; cbn [negb] in H; [|discriminate].
  destruct (advance E s) as [u s1|e s1|] eqn:Ha; try discriminate. inversion H; subst.
  destruct (inv_advance s u s' HV Ha) as (HV1 & _ & b & Hch & Hw & Ho).
  pose proof (chunk_len dec _ _ Hch).
  split; [assumption|]. split; [reflexivity|]. split; [lia|]. split; [reflexivity|]. eauto.
Qed.

Lemma inv_read_character c s rg s' : VInv s -> 0 <= c < 128 -> read_character E c s = Ok rg s' ->
  VInv s' /\ rg = mkRange (off s) (off s') /\ off s' = off s + 1 /\ cur s = c /\ Win s [c] s'.
Proof using All.
  intros HV Hc H. unfold read_character in H.
  destruct (inv_read_character_with _ s rg s' HV H) as (HV' & Hrg & Hlt & Hp & b & Hch & Hw).
  apply Z.eqb_eq in Hp.
  split; [assumption|]. split; [assumption|].
  assert (Hb : b = [c]).
  { rewrite Hp in Hch. pose proof (chunk_ascii dec Hdec c Hc) as Hc1.
    assert (He : b ++ [] = [c] ++ skipn 1 b).
    { destruct Hch as (Hne & Hx & _). destruct b as [|b0 b]; [congruence|].
      specialize (Hx []). rewrite app_nil_r in Hx.
      destruct (Z_lt_dec b0 0) as [Hn|Hn]; [|destruct (Z_lt_dec b0 128) as [Hl|Hl]].
      - exfalso. destruct (dec_high _ Hdec b0 b c _ ltac:(unfold high; lia) Hx). lia.
      - rewrite (dec_ascii _ Hdec b0 b ltac:(lia)) in Hx. inversion Hx. subst. now rewrite app_nil_r.
      - exfalso. destruct (dec_high _ Hdec b0 b c _ ltac:(unfold high; lia) Hx). lia. }
    destruct (chunk_det dec c b [] c [c] _ Hch Hc1 He) as (_ & Hb & _). exact Hb. }
  subst b. pose proof (win_off s [c] s' (proj1 HV) (proj1 HV') Hw) as Ho.
  rewrite zlen_cons, zlen_nil in Ho. split; [lia|]. auto.
Qed.

Lemma inv_read_string_loop str : Forall ascii str -> forall s start rg s', VInv s ->
  read_string_loop E str start s = Ok rg s' ->
  VInv s' /\ rg = mkRange start (off s') /\ Win s str s'.
Proof using All.
  induction 1 as [|c str Hc Hstr IH]; intros s start rg s' HV H; cbn [read_string_loop] in H.
  - inversion H; subst. split; [assumption|]. split; [reflexivity|apply win_nil].
  - destruct (Z.eqb_spec c (cur s)) as [He|He]; cbn [negb] in H; [|discriminate].
    destruct (advance E s) as [u s1|e s1|] eqn:Ha; try discriminate.
    assert (Hrc : read_character E c s = Ok (mkRange (off s) (off s1)) s1).
    { unfold read_character, read_character_with. rewrite <- He, Z.eqb_refl. cbn [negb].
      destruct (Z.eqb_spec c eof) as [Hce|_]; [unfold ascii, eof in *; lia|]. now rewrite Ha. }
    destruct (inv_read_character c s _ s1 HV Hc Hrc) as (HV1 & _ & _ & _ & Hw1).
    destruct (IH s1 start rg s' HV1 H) as (HV' & Hrg & Hw).
    split; [assumption|]. split; [assumption|]. apply (win_trans s [c] s1 str s' Hw1 Hw).
Qed.

Lemma inv_read_string str s rg s' : Forall ascii str -> VInv s -> read_string E str s = Ok rg s' ->
  VInv s' /\ rg = mkRange (off s) (off s') /\ Win s str s'.
Proof using All. intros Hs HV H. unfold read_string in H. eapply inv_read_string_loop; eauto. Qed.

Lemma inv_read_alternative ss s rg s' : Forall (Forall ascii) ss -> VInv s ->
  read_alternative E ss s = Ok rg s' ->
  VInv s' /\ rg = mkRange (off s) (off s') /\ exists kw, In kw ss /\ Win s kw s'.
Proof using All.
  intros Hss HV H. unfold read_alternative in H.
  destruct (Z.eqb_spec (cur s) eof) as [Hc|Hc]; [discriminate|].
  induction Hss as [|str ss Hstr Hss IH]; cbn [read_alternative_loop] in H; [discriminate|].
  destruct (read_string E str s) as [r1 s1|e s1|] eqn:Hr; try discriminate.
  - inversion H; subst. destruct (inv_read_string str s rg s' Hstr HV Hr) as (HV' & Hrg & Hw).
    split; [assumption|]. split; [assumption|]. exists str. split; [now left|assumption].
  - rewrite (backtrack_id E Hlen Hfuel Hdec s (proj1 HV) Hc) in H.
    destruct (IH H) as (HV' & Hrg & kw & Hin & Hw). split; [assumption|]. split; [assumption|].
    exists kw. split; [now right|assumption].
Qed.

(* the first Advance of ParseFile *)
Lemma inv_advance_init u s : advance E (init_state E) = Ok u s -> VInv s /\ off s = 0.
Proof using All.
  intros H. pose proof (advance_init E Hlen Hfuel Hdec) as Hs. rewrite H in Hs. cbn [post] in Hs.
  destruct Hs as (HI & _ & Ho). split; [|exact Ho]. split; [exact HI|].
  unfold advance, init_state in H. cbn [off clen cur rest] in H.
  destruct ((0 + 0 =? len) && negb (0 =? eof)).
  - inversion H; subst s. cbn [cur clen]. unfold rune_error, eof. lia.
  - destruct (dec (skipn (Z.to_nat 0) t)) as [c w] eqn:Hd.
    destruct (Z.eqb_spec c rune_error) as [Hce|Hce].
    + destruct (w =? 0); [discriminate|]. destruct (Z.eqb_spec w 1) as [Hw1|Hw1]; [discriminate|].
      inversion H; subst s. cbn [cur clen]. lia.
    + inversion H; subst s. cbn [cur clen]. lia.
Qed.

Lemma At_init u s : advance E (init_state E) = Ok u s -> runs t -> At s t.
Proof using All.
  intros H Hr. destruct (inv_advance_init u s H) as ((HI & _) & Ho).
  split; [exact HI|]. split; [|exact Hr]. destruct HI as (_ & Hrest & _). now rewrite Hrest, Ho.
Qed.

End WithEnv.
