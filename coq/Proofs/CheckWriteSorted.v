(* `knut check --write`, fifth layer: the lines of an assertion come out strictly ordered by
   (account type, account name, commodity) -- slices.SortFunc with assertion.CompareBalance on
   positions that are pairwise different -- and with it the full [write_spec]. *)
From Coq Require Import ZArith List Bool Lia Sorting.Sorted Permutation.
From Knut Require Import Model.Str Model.Dec Model.Date Model.Account Model.Ledger Model.Price Model.Journal
     Model.Check Model.Pipeline Model.JPrinter Model.Cli Model.CheckWrite
     Spec.WellformedSpec Spec.CheckWriteSpec
     Proofs.StrProofs Proofs.StableSort Proofs.CheckLemmas Proofs.CheckProofs Proofs.BuilderProofs
     Proofs.CheckMain Proofs.CheckWriteBase Proofs.CheckWriteKeys Proofs.CheckWriteComplete.
Import ListNotations.
Open Scope bool_scope.
Open Scope Z_scope.

(* ------------------------------------------------------------------ insertion sort with distinct keys *)

Section SortSorted.
  Context {A K : Type} (lt : A -> A -> bool) (R : A -> A -> Prop) (key : A -> K).
  Hypothesis R_trans : forall x y z, R x y -> R y z -> R x z.
  Hypothesis lt_R : forall x y, key x <> key y -> lt x y = true -> R x y.
  Hypothesis nlt_R : forall x y, key x <> key y -> lt x y = false -> R y x.

  Lemma insert_sorted_sorted x t :
    (forall y, In y t -> key x <> key y) -> StronglySorted R t -> StronglySorted R (insert_sorted lt x t).
  Proof.
    induction t as [|y t IH]; intros Hd Hs; cbn [insert_sorted]; [constructor; constructor|].
    inversion Hs as [|y' t' Hs' Hall]; subst.
    destruct (lt x y) eqn:E.
    - assert (Rxy : R x y) by (apply lt_R; [apply Hd; left; reflexivity|exact E]).
      constructor; [exact Hs|]. constructor; [exact Rxy|].
      rewrite Forall_forall in *. intros z Hz. apply (R_trans x y z Rxy). apply Hall. exact Hz.
    - constructor.
      + apply IH; [intros z Hz; apply Hd; right; exact Hz|exact Hs'].
      + rewrite Forall_forall in *. intros z Hz.
        apply (Permutation_in _ (insert_sorted_perm lt x t)) in Hz. destruct Hz as [Hz|Hz].
        * subst z. apply nlt_R; [apply Hd; left; reflexivity|exact E].
        * apply Hall. exact Hz.
  Qed.

  Lemma fold_insert_perm r : Permutation (fold_right (insert_sorted lt) [] r) r.
  Proof.
    induction r as [|x r IH]; cbn [fold_right]; [reflexivity|].
    eapply Permutation_trans; [apply insert_sorted_perm|]. constructor. exact IH.
  Qed.

  Lemma sort_by_sorted l : NoDup (map key l) -> StronglySorted R (sort_by lt l).
  Proof.
    intros Hn. unfold sort_by.
    assert (Hr : NoDup (map key (rev l))).
    { apply (Permutation_NoDup (l := map key l)); [apply Permutation_map, Permutation_rev|exact Hn]. }
    clear Hn. induction (rev l) as [|x r IH]; cbn [fold_right]; [constructor|].
    cbn [map] in Hr. inversion Hr as [|k ks Hnin Hr']; subst.
    apply insert_sorted_sorted; [|apply IH; exact Hr'].
    intros y Hy E. apply Hnin. rewrite E. apply in_map.
    apply (Permutation_in _ (fold_insert_perm r)) in Hy. exact Hy.
  Qed.
End SortSorted.

(* ------------------------------------------------------------------ the order of the lines *)

Definition bkey (b : balance) : Z * str * str := (acc_rank (bal_acc b), acc_name (bal_acc b), bal_com b).

Definition klt (k1 k2 : Z * str * str) : Prop :=
  let '(r1, n1, c1) := k1 in let '(r2, n2, c2) := k2 in
  r1 < r2 \/ (r1 = r2 /\ (str_ltb n1 n2 = true \/ (n1 = n2 /\ str_ltb c1 c2 = true))).

Lemma str_ltb_asym a b : str_ltb a b = true -> str_ltb b a = false.
Proof.
  intros H. destruct (str_ltb b a) eqn:E; [|reflexivity].
  pose proof (str_ltb_trans _ _ _ H E) as T. rewrite str_ltb_irrefl in T. discriminate.
Qed.

Lemma str_ltb_cases a b : str_ltb a b = true \/ a = b \/ str_ltb b a = true.
Proof.
  destruct (str_ltb a b) eqn:E1; [left; reflexivity|]. destruct (str_ltb b a) eqn:E2; [right; right; reflexivity|].
  right. left. apply str_ltb_total; assumption.
Qed.

Lemma acc_ltb_spec a b :
  acc_ltb a b = true <-> acc_rank a < acc_rank b \/ (acc_rank a = acc_rank b /\ str_ltb (acc_name a) (acc_name b) = true).
Proof.
  unfold acc_ltb. destruct (Z.ltb_spec (acc_rank a) (acc_rank b)) as [H1|H1].
  - split; [intros _; left; exact H1|reflexivity].
  - destruct (Z.ltb_spec (acc_rank b) (acc_rank a)) as [H2|H2].
    + split; [discriminate|]. intros [H|[H _]]; lia.
    + split; [intros H; right; split; [lia|exact H]|]. intros [H|[_ H]]; [lia|exact H].
Qed.

Lemma klt_trans k1 k2 k3 : klt k1 k2 -> klt k2 k3 -> klt k1 k3.
Proof.
  destruct k1 as [[r1 n1] c1], k2 as [[r2 n2] c2], k3 as [[r3 n3] c3]. unfold klt.
  intros [H1|[E1 H1]] [H2|[E2 H2]]; try (left; lia).
  right. split; [lia|].
  destruct H1 as [H1|[N1 H1]], H2 as [H2|[N2 H2]].
  - left. eapply str_ltb_trans; eassumption.
  - left. subst n3. exact H1.
  - left. subst n2. exact H2.
  - right. split; [congruence|]. eapply str_ltb_trans; eassumption.
Qed.

Lemma klt_total k1 k2 : k1 <> k2 -> klt k1 k2 \/ klt k2 k1.
Proof.
  destruct k1 as [[r1 n1] c1], k2 as [[r2 n2] c2]. unfold klt. intros Hne.
  destruct (Z.lt_trichotomy r1 r2) as [H|[H|H]]; [left; left; exact H| |right; left; exact H].
  subst r2. destruct (str_ltb_cases n1 n2) as [H|[H|H]].
  - left. right. split; [reflexivity|left; exact H].
  - subst n2. destruct (str_ltb_cases c1 c2) as [H|[H|H]].
    + left. right. split; [reflexivity|right; split; [reflexivity|exact H]].
    + subst c2. contradiction Hne. reflexivity.
    + right. right. split; [reflexivity|right; split; [reflexivity|exact H]].
  - right. right. split; [reflexivity|left; exact H].
Qed.

Lemma klt_irrefl k : ~ klt k k.
Proof.
  destruct k as [[r n] c]. unfold klt. intros [H|[_ [H|[_ H]]]]; [lia| |]; rewrite str_ltb_irrefl in H; discriminate.
Qed.

Lemma pos_ltb_klt x y : pos_ltb x y = true <-> klt (bkey x) (bkey y).
Proof.
  unfold pos_ltb, bkey, klt.
  destruct (acc_ltb (bal_acc x) (bal_acc y)) eqn:E1.
  - apply acc_ltb_spec in E1. split; [intros _|reflexivity].
    destruct E1 as [H|[H1 H2]]; [left; exact H|right; split; [exact H1|left; exact H2]].
  - destruct (acc_ltb (bal_acc y) (bal_acc x)) eqn:E2.
    + apply acc_ltb_spec in E2. split; [discriminate|].
      intros [H|[H1 [H2|[H2 H3]]]]; exfalso.
      * destruct E2 as [E2|[E2 _]]; lia.
      * destruct E2 as [E2|[_ E2]]; [lia|]. rewrite (str_ltb_asym _ _ H2) in E2. discriminate.
      * destruct E2 as [E2|[_ E2]]; [lia|]. rewrite H2, str_ltb_irrefl in E2. discriminate.
    + assert (Hr : acc_rank (bal_acc x) = acc_rank (bal_acc y) /\ acc_name (bal_acc x) = acc_name (bal_acc y)).
      { destruct (Z.lt_trichotomy (acc_rank (bal_acc x)) (acc_rank (bal_acc y))) as [H|[H|H]].
        - assert (T : acc_ltb (bal_acc x) (bal_acc y) = true) by (apply acc_ltb_spec; left; exact H). congruence.
        - split; [exact H|]. destruct (str_ltb_cases (acc_name (bal_acc x)) (acc_name (bal_acc y))) as [S|[S|S]]; [|exact S|].
          + assert (T : acc_ltb (bal_acc x) (bal_acc y) = true) by (apply acc_ltb_spec; right; split; assumption). congruence.
          + assert (T : acc_ltb (bal_acc y) (bal_acc x) = true) by (apply acc_ltb_spec; right; split; [symmetry|]; assumption). congruence.
        - assert (T : acc_ltb (bal_acc y) (bal_acc x) = true) by (apply acc_ltb_spec; left; exact H). congruence. }
      destruct Hr as [Hr Hn]. split.
      * intros H. right. split; [exact Hr|right; split; [exact Hn|exact H]].
      * intros [H|[_ [H|[_ H]]]]; [lia| |exact H]. rewrite Hn, str_ltb_irrefl in H. discriminate.
Qed.

(* on different positions the comparison never gets to the quantities *)
Lemma bal_ltb_pos x y : bkey x <> bkey y -> bal_ltb x y = pos_ltb x y.
Proof.
  intros Hne. unfold bal_ltb, pos_ltb.
  destruct (acc_ltb (bal_acc x) (bal_acc y)) eqn:E1; [reflexivity|].
  destruct (acc_ltb (bal_acc y) (bal_acc x)) eqn:E2; [reflexivity|].
  destruct (str_ltb (bal_com x) (bal_com y)) eqn:E3; [reflexivity|].
  destruct (str_ltb (bal_com y) (bal_com x)) eqn:E4; [reflexivity|].
  exfalso. apply Hne.
  assert (P : pos_ltb x y = false) by (unfold pos_ltb; rewrite E1, E2; exact E3).
  assert (Q : pos_ltb y x = false) by (unfold pos_ltb; rewrite E2, E1; exact E4).
  destruct (klt_total (bkey x) (bkey y) Hne) as [H|H]; apply pos_ltb_klt in H; congruence.
Qed.

Lemma day_end_balances_sorted m :
  NoDup (map bkey (map entry_balance m)) ->
  StronglySorted (fun x y => pos_ltb x y = true) (day_end_balances m).
Proof.
  intros Hn. unfold day_end_balances.
  apply (sort_by_sorted bal_ltb (fun x y => pos_ltb x y = true) bkey); [| | |exact Hn].
  - intros x y z H1 H2. apply pos_ltb_klt. apply pos_ltb_klt in H1, H2. eapply klt_trans; eassumption.
  - intros x y Hne H. rewrite (bal_ltb_pos x y Hne) in H. exact H.
  - intros x y Hne H. rewrite (bal_ltb_pos x y Hne) in H.
    destruct (klt_total (bkey x) (bkey y) Hne) as [T|T]; apply pos_ltb_klt in T; [congruence|exact T].
Qed.

(* the positions of a sorted quantity map are pairwise different *)
Lemma keys_sorted_nodup {V} (m : smap V) : keys_sorted m -> NoDup (map fst m).
Proof.
  unfold keys_sorted. induction m as [|x m IH]; intros Hs; cbn [map]; [constructor|].
  inversion Hs as [|y l Hs' Hall]; subst. constructor; [|apply IH; exact Hs'].
  intros Hin. apply in_map_iff in Hin. destruct Hin as [y [E Hy]].
  rewrite Forall_forall in Hall. specialize (Hall y Hy). unfold key_lt in Hall. rewrite E in Hall.
  exact (str_cmp_lt_irrefl _ Hall).
Qed.

Lemma positions_distinct m :
  keys_sorted m -> (forall x, In x m -> entry_ok x) -> NoDup (map bkey (map entry_balance m)).
Proof.
  intros Hs He. pose proof (keys_sorted_nodup m Hs) as Hn.
  apply (NoDup_map_inv (fun k : Z * str * str => let '(_, n, c) := k in n ++ [0] ++ c)).
  rewrite !map_map.
  replace (map (fun x => let '(_, n, c) := bkey (entry_balance x) in n ++ [0] ++ c) m) with (map fst m); [exact Hn|].
  apply map_ext_in. intros [k [[a c] q]] Hx. destruct (He _ Hx) as [Kk _]. cbn [fst snd] in Kk.
  cbn [fst entry_balance bkey bal_acc bal_com]. exact Kk.
Qed.

(* ------------------------------------------------------------------ the full specification *)

Theorem write_complete ds W : syntactic ds -> written ds = ROk W -> write_spec ds W.
Proof.
  intros Hs H. destruct (write_complete_partial ds W Hs H) as (H1 & H2 & H3 & H4).
  constructor; try assumption.
  intros dt bs Hin. pose proof (written_wmatch ds W Hs H) as M.
  destruct (wmatch_entries _ _ _ M dt bs Hin) as (done & d & rest & s & _ & _ & I & _ & _ & Hb). subst bs.
  destruct I as [_ _ Is Ie]. apply day_end_balances_sorted. apply positions_distinct; assumption.
Qed.

(* ------------------------------------------------------------------ the range over the Go map *)

Lemma sorted_perm_eq {A} (R : A -> A -> Prop) :
  (forall x, ~ R x x) -> (forall x y z, R x y -> R y z -> R x z) ->
  forall l1 l2, StronglySorted R l1 -> StronglySorted R l2 -> Permutation l1 l2 -> l1 = l2.
Proof.
  intros Hirr Htr. induction l1 as [|x t1 IH]; intros l2 S1 S2 P.
  - apply Permutation_nil in P. subst l2. reflexivity.
  - destruct l2 as [|y t2]; [apply Permutation_sym, Permutation_nil in P; discriminate|].
    inversion S1 as [|x' t1' S1' H1]; subst. inversion S2 as [|y' t2' S2' H2]; subst.
    rewrite Forall_forall in H1, H2.
    assert (E : x = y).
    { assert (Hx : In x (y :: t2)) by (apply (Permutation_in _ P); left; reflexivity).
      assert (Hy : In y (x :: t1)) by (apply (Permutation_in _ (Permutation_sym P)); left; reflexivity).
      destruct Hx as [Hx|Hx]; [symmetry; exact Hx|]. destruct Hy as [Hy|Hy]; [exact Hy|].
      exfalso. apply (Hirr x). apply (Htr x y x); [apply H1; exact Hy|apply H2; exact Hx]. }
    subst y. f_equal. apply IH; [exact S1'|exact S2'|]. apply (Permutation_cons_inv P).
Qed.

(* Checker.dayEnd ranges over ch.quantities (a Go map) and sorts the balances: whatever the
   order of that range, the slice is the same *)
Theorem day_end_map_order m l :
  keys_sorted m -> (forall x, In x m -> entry_ok x) -> Permutation l m ->
  sort_by bal_ltb (map entry_balance l) = day_end_balances m.
Proof.
  intros Hs He P. pose proof (positions_distinct m Hs He) as Hn.
  assert (Hn' : NoDup (map bkey (map entry_balance l))).
  { apply (Permutation_NoDup (l := map bkey (map entry_balance m))); [|exact Hn].
    apply Permutation_map, Permutation_map, Permutation_sym. exact P. }
  assert (SS : forall k, NoDup (map bkey (map entry_balance k)) ->
               StronglySorted (fun x y => pos_ltb x y = true) (sort_by bal_ltb (map entry_balance k))).
  { intros k Hk. apply (day_end_balances_sorted k Hk). }
  apply (sorted_perm_eq (fun x y => pos_ltb x y = true)).
  - intros x H. apply pos_ltb_klt in H. exact (klt_irrefl _ H).
  - intros x y z H1 H2. apply pos_ltb_klt. apply pos_ltb_klt in H1, H2. eapply klt_trans; eassumption.
  - apply SS. exact Hn'.
  - apply (SS m Hn).
  - unfold day_end_balances.
    eapply Permutation_trans; [apply sort_by_perm|].
    eapply Permutation_trans; [|apply Permutation_sym, sort_by_perm].
    apply Permutation_map. exact P.
Qed.
