(* `knut register`, renderNode: Amounts.Index(cmp) ranges over a Go map and sorts the keys.  With
   the comparison of the repaired code (Model/Register.v rkey_cmp: Other, Commodity if shown,
   Account if shown, Description) -- a total preorder that is a total order on the keys of one
   node -- the index, and so the rows, are the same for every enumeration of the map. *)
From Coq Require Import ZArith List Bool Lia Permutation.
From Knut Require Import Model.Str Model.Dec Model.Date Model.Account Model.Ledger Model.Price Model.Journal
     Model.Pipeline Model.Table Model.Register Proofs.StrProofs Proofs.StableSort Proofs.TxnOrder.
Import ListNotations.
Open Scope bool_scope.
Open Scope Z_scope.

Lemma good_const {A} : good_cmp (fun _ _ : A => Eq).
Proof. constructor; intros; try reflexivity; discriminate. Qed.

Lemma good_if {A} (b : bool) (c : A -> A -> comparison) : good_cmp c -> good_cmp (fun x y => if b then c x y else Eq).
Proof. intros G. destruct b; [exact G|apply good_const]. Qed.

Lemma good_oacc : good_cmp oacc_cmp.
Proof.
  pose proof good_acc as G. constructor.
  - intros [a|]; cbn; [apply (gc_refl _ G)|reflexivity].
  - intros [a|] [b|]; cbn; try reflexivity. apply (gc_anti _ G).
  - intros [a|] [b|] [x|]; cbn; try discriminate; try reflexivity. apply (gc_trans _ G).
  - intros [a|] [b|] [x|]; cbn; try discriminate; try reflexivity. apply (gc_eq_l _ G).
Qed.

Lemma good_rkey rc : good_cmp (rkey_cmp rc).
Proof.
  unfold rkey_cmp.
  apply (good_then (fun k1 k2 => oacc_cmp (rk_other k1) (rk_other k2))); [apply (good_proj rk_other), good_oacc|].
  apply (good_then (fun k1 k2 => if rr_commodities rc then str_cmp (ostr (rk_com k1)) (ostr (rk_com k2)) else Eq)).
  { apply good_if. apply (good_proj (fun k => ostr (rk_com k))), good_str. }
  apply (good_then (fun k1 k2 => if rr_source rc then oacc_cmp (rk_account k1) (rk_account k2) else Eq)).
  { apply good_if. apply (good_proj rk_account), good_oacc. }
  apply (good_proj rk_desc), good_str.
Qed.

Lemma good_rkey_pinned rc : good_cmp (rkey_cmp_pinned rc).
Proof.
  unfold rkey_cmp_pinned.
  apply (good_then (fun k1 k2 => oacc_cmp (rk_other k1) (rk_other k2))); [apply (good_proj rk_other), good_oacc|].
  apply good_if. apply (good_proj (fun k => ostr (rk_com k))), good_str.
Qed.

Lemma rentry_ltb_of cmp a b : rentry_ltb cmp a b = ltb_of (fun x y : rkey * dec => cmp (fst x) (fst y)) a b.
Proof. reflexivity. Qed.

(* the index of a node is the same for every enumeration of its map, provided the comparison
   distinguishes the entries (no two entries compare Equal) *)
Theorem reg_index_order_free cmp l l' :
  good_cmp cmp -> Permutation l l' ->
  (forall x y, In x l -> In y l -> cmp (fst x) (fst y) = Eq -> x = y) ->
  reg_index_with cmp l = reg_index_with cmp l'.
Proof.
  intros G P Hinj. unfold reg_index_with.
  pose proof (good_proj (@fst rkey dec) cmp G) as G'.
  apply (sort_by_perm_inj (rentry_ltb cmp)).
  - intros a. rewrite rentry_ltb_of. apply (ltb_of_irrefl _ G').
  - intros a b c. rewrite !rentry_ltb_of. apply (ltb_of_trans _ G').
  - intros a b c. rewrite !rentry_ltb_of. apply (ltb_of_cotrans _ G').
  - exact P.
  - intros x y Hx Hy E. apply Hinj; try assumption.
    unfold eqv in E. rewrite !rentry_ltb_of in E. unfold ltb_of in E.
    rewrite (gc_anti _ G' x y) in E. cbn beta in E.
    destruct (cmp (fst x) (fst y)); cbn in E; try discriminate. reflexivity.
Qed.

Theorem reg_render_node_order_free rc t l l' :
  Permutation l l' ->
  (forall x y, In x l -> In y l -> rkey_cmp rc (fst x) (fst y) = Eq -> x = y) ->
  reg_render_node rc t l = reg_render_node rc t l'.
Proof.
  intros P H. unfold reg_render_node, reg_render_node_with.
  rewrite (reg_index_order_free (rkey_cmp rc) l l' (good_rkey rc) P H). reflexivity.
Qed.

(* what "the comparison distinguishes the entries" means for the keys the command builds: the
   components that are not shown are constant (nil / ""), so two keys of one date that compare
   Equal agree in every component -- up to the identification of accounts with their names, which
   is how Go interns them (Registry.Get) *)
Definition okey_name_eq (a b : option account) : Prop :=
  match a, b with
  | Some x, Some y => acc_rank x = acc_rank y /\ acc_name x = acc_name y
  | None, None => True
  | _, _ => False
  end.

Lemma oacc_cmp_eq a b : oacc_cmp a b = Eq -> okey_name_eq a b.
Proof.
  destruct a as [a|], b as [b|]; cbn; try discriminate; [|auto].
  rewrite acc_cmp_lex. destruct (Z.compare_spec (acc_rank a) (acc_rank b)) as [E|E|E]; cbn [cmp_then]; try discriminate.
  intros H. apply str_cmp_eq in H. auto.
Qed.

Theorem rkey_cmp_eq_components rc k1 k2 :
  rkey_cmp rc k1 k2 = Eq ->
  okey_name_eq (rk_other k1) (rk_other k2) /\
  (rr_commodities rc = true -> ostr (rk_com k1) = ostr (rk_com k2)) /\
  (rr_source rc = true -> okey_name_eq (rk_account k1) (rk_account k2)) /\
  rk_desc k1 = rk_desc k2.
Proof.
  unfold rkey_cmp, cmp_then. intros H.
  destruct (oacc_cmp (rk_other k1) (rk_other k2)) eqn:E1; try discriminate.
  split; [apply oacc_cmp_eq; exact E1|].
  destruct (rr_commodities rc).
  - destruct (str_cmp (ostr (rk_com k1)) (ostr (rk_com k2))) eqn:E2; try discriminate.
    split; [intros _; apply str_cmp_eq; exact E2|].
    destruct (rr_source rc).
    + destruct (oacc_cmp (rk_account k1) (rk_account k2)) eqn:E3; try discriminate.
      split; [intros _; apply oacc_cmp_eq; exact E3|apply str_cmp_eq; exact H].
    + split; [discriminate|apply str_cmp_eq; exact H].
  - split; [discriminate|].
    destruct (rr_source rc).
    + destruct (oacc_cmp (rk_account k1) (rk_account k2)) eqn:E3; try discriminate.
      split; [intros _; apply oacc_cmp_eq; exact E3|apply str_cmp_eq; exact H].
    + split; [discriminate|apply str_cmp_eq; exact H].
Qed.
