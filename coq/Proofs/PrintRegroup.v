(* C09 (c), first half: what printing does to the ORDER of a journal.
   journal.Print writes the days in date order, per day the prices, opens, transactions (sorted
   with transaction.Compare), assertions, closes.  [printed_dirs days] is that sequence as
   syntax-level directives (one per model directive, as PrintProofs.sdir_of_dir writes them).
   It is a permutation of the directives the journal denotes ([printed_dirs_perm]); by C05
   (Proofs/OrderCmd.v) `knut check` gives the same verdict on it and `knut balance` the same
   table ([accepted_printed_dirs], [reports_printed_dirs]). *)
From Coq Require Import ZArith List Bool Lia Permutation Sorted.
From Knut Require Import Model.Str Model.Dec Model.Date Model.Account Model.Ledger Model.Journal
     Model.Check Model.Pipeline Model.Table Model.Report Model.JPrinter Model.Cli Model.ToModel.
From Knut Require Import Spec.WellformedSpec Spec.PrintSpec.
From Knut Require Import Proofs.StrProofs Proofs.BuilderProofs Proofs.CheckPerm Proofs.OrderProofs Proofs.OrderCmd
     Proofs.PrintProofs.
Import ListNotations.
Open Scope bool_scope.
Open Scope Z_scope.

(* ------------------------------------------------------------------ the canonical sequence is a permutation *)

Lemma flat_map_pick {A K} (key : K) (eqb : K -> K -> bool) (d : A) (f : K -> list A) (L : list K) :
  (forall k, eqb key k = true <-> key = k) -> NoDup L -> In key L ->
  Permutation (flat_map (fun k => (if eqb key k then [d] else []) ++ f k) L) (d :: flat_map f L).
Proof.
  intros Heq. induction L as [|k L IH]; intros Hnd Hin; [destruct Hin|].
  inversion Hnd as [|? ? Hk HL]; subst. cbn [flat_map].
  destruct (eqb key k) eqn:E.
  - apply Heq in E. subst k. cbn [app]. constructor. apply Permutation_app_head.
    assert (Hsame : forall L', ~ In key L' ->
              flat_map (fun k => (if eqb key k then [d] else []) ++ f k) L' = flat_map f L').
    { induction L' as [|k' L' IH']; intros Hn; [reflexivity|]. cbn [flat_map].
      destruct (eqb key k') eqn:E'; [apply Heq in E'; subst k'; exfalso; apply Hn; now left|].
      cbn [app]. f_equal. apply IH'. intros H. apply Hn. now right. }
    rewrite Hsame by exact Hk. reflexivity.
  - cbn [app]. destruct Hin as [->|Hin]; [exfalso; rewrite (proj2 (Heq key) eq_refl) in E; discriminate|].
    eapply Permutation_trans; [apply Permutation_app_head; apply IH; assumption|].
    apply Permutation_sym, Permutation_middle.
Qed.

Lemma group_by_key_perm {A} (key : A -> Z) (l : list A) (L : list Z) :
  NoDup L -> (forall d, In d l -> In (key d) L) ->
  Permutation (flat_map (fun k => filter (fun d => key d =? k) l) L) l.
Proof.
  intros Hnd. induction l as [|d l IH]; intros Hin.
  - clear. induction L as [|k L IH]; [reflexivity|exact IH].
  - assert (E : flat_map (fun k => filter (fun x => key x =? k) (d :: l)) L =
                flat_map (fun k => (if key d =? k then [d] else []) ++ filter (fun x => key x =? k) l) L).
    { apply flat_map_ext. intros k. cbn [filter]. destruct (key d =? k); reflexivity. }
    rewrite E.
    eapply Permutation_trans.
    + apply (flat_map_pick (key d) Z.eqb d); [intros k; apply Z.eqb_eq|exact Hnd|apply Hin; now left].
    + constructor. apply IH. intros x Hx. apply Hin. now right.
Qed.

Lemma perm_mid1 {A} (d : A) a c : Permutation (a ++ d :: c) (d :: a ++ c).
Proof. symmetry. apply Permutation_middle. Qed.
Lemma perm_mid2 {A} (d : A) a b c : Permutation (a ++ b ++ d :: c) (d :: a ++ b ++ c).
Proof. rewrite !app_assoc. apply perm_mid1. Qed.
Lemma perm_mid3 {A} (d : A) a b c e : Permutation (a ++ b ++ c ++ d :: e) (d :: a ++ b ++ c ++ e).
Proof. rewrite !app_assoc. apply perm_mid1. Qed.
Lemma perm_mid4 {A} (d : A) a b c e f : Permutation (a ++ b ++ c ++ e ++ d :: f) (d :: a ++ b ++ c ++ e ++ f).
Proof. rewrite !app_assoc. apply perm_mid1. Qed.

Lemma of_day_perm ds dt : Permutation (of_day ds dt) (filter (fun d => ddate d =? dt) ds).
Proof.
  unfold of_day, sel. induction ds as [|d ds IH]; [reflexivity|]. cbn [filter].
  destruct (ddate d =? dt); cbn [andb]; [|exact IH].
  destruct (dkind_range d) as [K|[K|[K|[K|K]]]]; rewrite K; cbn [Z.eqb Pos.eqb app];
    (eapply Permutation_trans; [|apply perm_skip; exact IH]).
  - reflexivity.
  - apply perm_mid1.
  - apply perm_mid2.
  - apply perm_mid3.
  - apply perm_mid4.
Qed.

Lemma strongly_sorted_lt_nodup (l : list Z) : StronglySorted Z.lt l -> NoDup l.
Proof.
  induction 1 as [|a l Hs IH Hall]; constructor; [|exact IH].
  intros Hin. rewrite Forall_forall in Hall. specialize (Hall a Hin). lia.
Qed.

Theorem canonical_perm ds : Permutation (WellformedSpec.canonical ds) ds.
Proof.
  unfold WellformedSpec.canonical.
  eapply Permutation_trans; [|apply (group_by_key_perm ddate ds (dates ds))].
  - clear. induction (dates ds) as [|dt L IH]; [reflexivity|]. cbn [flat_map].
    apply Permutation_app; [apply of_day_perm|exact IH].
  - apply strongly_sorted_lt_nodup, dates_sorted.
  - intros d Hd. apply dates_in. now apply in_map.
Qed.

(* ------------------------------------------------------------------ the printed sequence *)

Definition printed_model_dirs (days : list day) : list directive :=
  flat_map day_directives (sort_days days).

Definition printed_dirs (days : list day) : list sdirective := map sdir_of_dir (printed_model_dirs days).

Lemma day_directives_sorted_perm d :
  Permutation (day_directives (set_txns d (sort_by txn_ltb (d_txns d)))) (day_directives d).
Proof.
  unfold day_directives. cbn [set_txns d_date d_prices d_opens d_txns d_asserts d_closes].
  apply Permutation_app_head, Permutation_app_head, Permutation_app_tail, Permutation_map, sort_by_perm.
Qed.

Lemma printed_model_dirs_perm ds : Permutation (printed_model_dirs (b_days (builder_of ds))) ds.
Proof.
  unfold printed_model_dirs, sort_days.
  eapply Permutation_trans; [|apply canonical_perm]. rewrite <- builder_flat_canonical.
  induction (b_days (builder_of ds)) as [|d l IH]; [reflexivity|]. cbn [map flat_map].
  apply Permutation_app; [apply day_directives_sorted_perm|exact IH].
Qed.

(* printing permutes the directives the journal denotes *)
Theorem printed_dirs_perm ss ds :
  parse_directives ss = MOk ds -> Permutation (printed_dirs (b_days (builder_of ds))) (denote ss).
Proof.
  intros H. unfold printed_dirs, denote. rewrite H. apply Permutation_map, printed_model_dirs_perm.
Qed.

(* ------------------------------------------------------------------ check and balance do not see it *)

Lemma sd_syntactic_denote ss : sd_syntactic ss -> sd_syntactic (denote ss).
Proof.
  intros Hs ds' H'. unfold denote in H'.
  destruct (parse_directives ss) as [ds| |] eqn:E.
  - pose proof (denote_fixpoint ss ds E) as Hf. unfold denote in Hf. rewrite E in Hf.
    rewrite Hf in H'. inversion H'. subst ds'. apply Hs. exact E.
  - cbn in H'. inversion H'. intros d e [].
  - cbn in H'. inversion H'. intros d e [].
Qed.

Lemma no_conflicting_prices_denote ss : no_conflicting_prices ss -> no_conflicting_prices (denote ss).
Proof.
  intros Hn. unfold denote. destruct (parse_directives ss) as [ds| |] eqn:E; [|intros ? ? ? ? ? ? ? []|intros ? ? ? ? ? ? ? []].
  assert (K : forall d c p t, In (SPrice d c p t) (map sdir_of_dir ds) -> In (SPrice d c p t) ss).
  { intros d c p t Hin. apply in_map_iff in Hin. destruct Hin as (x & Hx & Hin).
    destruct x; cbn [sdir_of_dir] in Hx; try discriminate. inversion Hx; subst.
    eapply parse_price_origin; eassumption. }
  intros d c p t c' p' t' H1 H2. apply (Hn d); [apply K; exact H1|apply K; exact H2].
Qed.

Lemma load_days ss b : load ss = COk b -> exists ds, parse_directives ss = MOk ds /\ b = builder_of ds.
Proof.
  unfold load. destruct (parse_directives ss) as [ds| |]; cbn; try discriminate.
  intros H. inversion H. eauto.
Qed.

Theorem accepted_printed_dirs l ss b :
  sd_syntactic ss -> load ss = COk b -> (accepted l ss <-> accepted l (printed_dirs (b_days b))).
Proof.
  intros Hs Hl. destruct (load_days ss b Hl) as (ds & Hp & ->).
  pose proof (printed_dirs_perm ss ds Hp) as P.
  destruct (verdict_perm _ _ (Permutation_sym P) (sd_syntactic_denote ss Hs)) as (_ & _ & V).
  unfold accepted. rewrite <- (V l).
  rewrite (proj1 (denote_same_commands ss ds Hp) l). reflexivity.
Qed.

(* both fail, or the same bytes *)
Theorem reports_printed_dirs ss b :
  sd_syntactic ss -> no_conflicting_prices ss -> load ss = COk b ->
  (forall cfg, ceq eq (balance_csv cfg (printed_dirs (b_days b))) (balance_csv cfg ss)) /\
  (forall cfg tc, ceq eq (balance_text cfg tc (printed_dirs (b_days b))) (balance_text cfg tc ss)).
Proof.
  intros Hs Hn Hl. destruct (load_days ss b Hl) as (ds & Hp & ->).
  pose proof (printed_dirs_perm ss ds Hp) as P.
  destruct (denote_same_commands ss ds Hp) as (_ & _ & _ & Hc & Ht).
  split; intros cfg; [|intros tc].
  - rewrite <- Hc.
    destruct (balance_bytes_perm cfg _ _ (Permutation_sym P) (sd_syntactic_denote ss Hs) (no_conflicting_prices_denote ss Hn)) as [H _].
    destruct (balance_csv cfg (denote ss)), (balance_csv cfg (printed_dirs (b_days (builder_of ds)))); cbn in *; auto.
  - rewrite <- Ht.
    destruct (balance_bytes_perm cfg _ _ (Permutation_sym P) (sd_syntactic_denote ss Hs) (no_conflicting_prices_denote ss Hn)) as [_ H].
    specialize (H tc).
    destruct (balance_text cfg tc (denote ss)), (balance_text cfg tc (printed_dirs (b_days (builder_of ds)))); cbn in *; auto.
Qed.

(* ------------------------------------------------------------------ the builder gives the printed days back *)

(* a day as the builder makes it: its transactions carry its date *)
Definition day_wf (x : day) : Prop := forall t, In t (d_txns x) -> t_date t = d_date x.

Lemma ddate_day_directives x d : day_wf x -> In d (day_directives x) -> ddate d = d_date x.
Proof.
  intros Hw. unfold day_directives. rewrite !in_app_iff, !in_map_iff.
  intros [(y & <- & _)|[(y & <- & _)|[(y & <- & Hy)|[(y & <- & _)|(y & <- & _)]]]]; try reflexivity.
  cbn [ddate]. now apply Hw.
Qed.

Lemma filter_map_const {A B} (p : B -> bool) (g : A -> B) (b : bool) l :
  (forall a, In a l -> p (g a) = b) -> filter p (map g l) = if b then map g l else [].
Proof.
  induction l as [|a l IH]; intros H; [destruct b; reflexivity|]. cbn [map filter].
  rewrite (H a (or_introl eq_refl)). rewrite IH by (intros y Hy; apply H; now right).
  destruct b; reflexivity.
Qed.

Lemma day_matches_self x : day_wf x -> day_matches (day_directives x) x.
Proof.
  intros Hw. unfold day_matches, sel, day_directives. rewrite !filter_app.
  repeat split.
  all: repeat match goal with
       | |- context [filter ?p (map ?g ?l)] =>
         first [ rewrite (filter_map_const p g true l) by (intros a Ha; cbn [ddate dkind price_directive]; rewrite ?(Hw a Ha), Z.eqb_refl; reflexivity)
               | rewrite (filter_map_const p g false l) by (intros a Ha; cbn [ddate dkind price_directive]; rewrite ?(Hw a Ha), Z.eqb_refl; reflexivity) ]
       end; cbn [app]; rewrite ?app_nil_r; reflexivity.
Qed.

Lemma sel_app a b dt k : sel (a ++ b) dt k = sel a dt k ++ sel b dt k.
Proof. unfold sel. apply filter_app. Qed.

Lemma sel_other_date l dt k : (forall d, In d l -> ddate d <> dt) -> sel l dt k = [].
Proof.
  intros H. apply sel_nil. intros Hin. apply in_map_iff in Hin. destruct Hin as (d & E & Hd). exact (H d Hd E).
Qed.

Lemma day_matches_ext l1 l2 x : (forall k, sel l1 (d_date x) k = sel l2 (d_date x) k) -> day_matches l1 x -> day_matches l2 x.
Proof. intros E (H0 & H1 & H2 & H3 & H4). unfold day_matches. rewrite <- !E. tauto. Qed.

Lemma day_matches_flat D : NoDup (map d_date D) -> Forall day_wf D ->
  forall x, In x D -> day_matches (flat_map day_directives D) x.
Proof.
  induction D as [|y D IH]; intros Hnd Hw x Hx; [destruct Hx|].
  inversion Hnd as [|? ? Hy HD]; subst. inversion Hw as [|? ? Hwy HwD]; subst. cbn [flat_map].
  destruct Hx as [->|Hx].
  - apply (day_matches_ext (day_directives x)); [|now apply day_matches_self].
    intros k. rewrite sel_app. rewrite (sel_other_date (flat_map day_directives D)); [now rewrite app_nil_r|].
    intros d Hd E. apply in_flat_map in Hd. destruct Hd as (z & Hz & Hd).
    rewrite Forall_forall in HwD. rewrite (ddate_day_directives z d (HwD z Hz) Hd) in E.
    apply Hy. rewrite <- E. now apply in_map.
  - apply (day_matches_ext (flat_map day_directives D)); [|now apply IH].
    intros k. rewrite sel_app. rewrite (sel_other_date (day_directives y)); [reflexivity|].
    intros d Hd E. rewrite (ddate_day_directives y d Hwy Hd) in E.
    apply Hy. rewrite E. now apply in_map.
Qed.

(* a day list is determined by its dates and what each day matches *)
Lemma days_unique dl X : forall Y,
  map d_date X = map d_date Y ->
  (forall x, In x X -> day_matches dl x /\ d_normalized x = None) ->
  (forall y, In y Y -> day_matches dl y /\ d_normalized y = None) -> X = Y.
Proof.
  induction X as [|x X IH]; intros [|y Y] E HX HY; cbn [map] in E; try discriminate; [reflexivity|].
  injection E as E1 E2. f_equal; [|apply IH; [exact E2|intros; apply HX; now right|intros; apply HY; now right]].
  destruct (HX x (or_introl eq_refl)) as ((A0 & A1 & A2 & A3 & A4) & An).
  destruct (HY y (or_introl eq_refl)) as ((B0 & B1 & B2 & B3 & B4) & Bn).
  rewrite <- E1 in B0, B1, B2, B3, B4.
  destruct x as [xd xp xo xt xa xc xn], y as [yd yp yo yt ya yc yn]. cbn in *. subst yd xn yn.
  f_equal.
  - apply (map_inj_eq (price_directive xd)); [apply price_directive_inj|congruence].
  - apply (map_inj_eq (DOpen xd)); [intros a b H; now injection H|congruence].
  - apply (map_inj_eq DTxn); [intros a b H; now injection H|congruence].
  - apply (map_inj_eq (DAssert xd)); [intros a b H; now injection H|congruence].
  - apply (map_inj_eq (DClose xd)); [intros a b H; now injection H|congruence].
Qed.

Lemma builder_days_wf ds : Forall day_wf (b_days (builder_of ds)).
Proof.
  apply Forall_forall. intros x Hx t Ht.
  destruct (builder_canonical ds) as (_ & _ & _ & M). destruct (M x Hx) as (_ & _ & M2 & _).
  assert (H : In (DTxn t) (map DTxn (d_txns x))) by now apply in_map.
  rewrite M2 in H. apply sel_in in H. destruct H as (_ & H & _). exact H.
Qed.

Lemma sort_days_dates D : map d_date (sort_days D) = map d_date D.
Proof. unfold sort_days. rewrite map_map. reflexivity. Qed.

Lemma sort_days_wf D : Forall day_wf D -> Forall day_wf (sort_days D).
Proof.
  unfold sort_days. intros H. apply Forall_forall. intros x Hx. apply in_map_iff in Hx.
  destruct Hx as (y & <- & Hy). rewrite Forall_forall in H. intros t Ht.
  cbn [set_txns d_txns d_date] in *. apply (H y Hy).
  eapply Permutation_in; [apply sort_by_perm|exact Ht].
Qed.

Lemma sort_days_normalized D : (forall x, In x D -> d_normalized x = None) ->
  forall x, In x (sort_days D) -> d_normalized x = None.
Proof.
  unfold sort_days. intros H x Hx. apply in_map_iff in Hx. destruct Hx as (y & <- & Hy). exact (H y Hy).
Qed.

(* Builder.Add over the printed sequence builds exactly the days that were printed: the days in
   date order, each with its sorted transactions -- and the same period *)
Theorem builder_of_printed ds :
  builder_of (printed_model_dirs (b_days (builder_of ds))) =
  mkBuilder (sort_days (b_days (builder_of ds))) (b_min (builder_of ds)) (b_max (builder_of ds)).
Proof.
  set (D := sort_days (b_days (builder_of ds))).
  set (dl := printed_model_dirs (b_days (builder_of ds))).
  pose proof (printed_model_dirs_perm ds) as P. fold dl in P.
  destruct (build_perm dl ds P) as (_ & Hmin & Hmax).
  destruct (builder_canonical ds) as (S0 & D0 & _ & _). cbn zeta in *.
  destruct (builder_canonical dl) as (_ & D1 & _ & M1). cbn zeta in *.
  assert (HD : b_days (builder_of dl) = D).
  { apply (days_unique dl).
    - rewrite D1. unfold D. rewrite sort_days_dates, D0. apply dates_perm. exact P.
    - intros x Hx. split; [now apply M1|now apply (builder_not_normalized dl)].
    - intros x Hx. split.
      + unfold dl, printed_model_dirs. fold D. apply day_matches_flat; [| |exact Hx].
        * unfold D. rewrite sort_days_dates. now apply strongly_sorted_lt_nodup.
        * unfold D. apply sort_days_wf, builder_days_wf.
      + revert x Hx. unfold D. apply sort_days_normalized. apply builder_not_normalized. }
  destruct (builder_of dl) as [bd bmin bmax]. cbn [b_days b_min b_max] in *. subst. reflexivity.
Qed.
