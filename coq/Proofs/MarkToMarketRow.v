(* C03 on the rendered report, part 5: the whole row.  A valued row adds up the commodities of an
   account; the valuation commodity itself is carried at its quantity (no Multiply, no
   revaluation), every other commodity obeys the windowed bound; the sum over the commodities the
   account holds is compared with Spec.ValuationSpec.market_value / mtm_expected.

   Part A  the valuation commodity: posted value = quantity, exactly
   Part B  sums over a list of commodities
   Part C  market_value / mtm_expected as sums of mv_cell
   Part D  windowed_row *)
From Coq Require Import ZArith QArith Qabs List Bool Lia Permutation Sorting.Sorted.
From Knut Require Import Model.Str Model.Dec Model.Date Model.Account Model.Ledger Model.Price
     Model.Journal Model.Check Model.Pipeline Model.Table Model.Report Model.Cli
     Spec.DateSpec Spec.WellformedSpec Spec.LedgerSpec Spec.LedgerSyntax Spec.MarkToMarketSpec
     Spec.PriceSpec Spec.PriceDaySpec Spec.ValuationSpec Spec.MarkToMarketReportSpec
     Proofs.DecProofs Proofs.DecValue Proofs.CheckLemmas Proofs.CheckProofs Proofs.PairProofs
     Proofs.DateProofs Proofs.BeancountProofs
     Proofs.LedgerProofs Proofs.CloseProofs Proofs.PriceDayProofs Proofs.ValuationProofs
     Proofs.MarkToMarket Proofs.MarkToMarketReport Proofs.MarkToMarketWindow Proofs.MarkToMarketJournal
     Proofs.MarkToMarketFinal.
Import ListNotations.
Open Scope Q_scope.

(* ------------------------------------------------------------ Part A: the valuation commodity *)

Lemma val_posting_V v a s t p s' p' :
  val_posting v s t p = ROk (s', p') -> posting_in_ok p ->
  (if cellb a v p' then dvalue (p_val p') else 0) == (if cellb a v p then dvalue (p_qty p) else 0).
Proof.
  intros H [_ Hz]. destruct (val_posting_value _ _ _ _ _ _ H) as (Ea & _ & Ec & Eq & Z1 & Z2 & Z3).
  assert (Ecb : cellb a v p' = cellb a v p) by (unfold cellb; rewrite Ea, Ec; reflexivity). rewrite Ecb.
  destruct (cellb a v p) eqn:E; [|reflexivity].
  destruct (is_zero (p_qty p)) eqn:Ez.
  - rewrite (Z1 eq_refl), (Hz eq_refl). symmetry. apply is_zero_value. exact Ez.
  - unfold cellb in E. apply andb_true_iff in E. destruct E as [_ E]. apply str_eqb_eq in E.
    rewrite (Z2 eq_refl); [reflexivity|]. rewrite E. apply str_eqb_refl.
Qed.

Lemma fold_postings_V v a t : forall ps s s' ps',
  fold_postings (val_posting v) t s ps = ROk (s', ps') -> Forall posting_in_ok ps ->
  cell_value a v ps' == cell_qty a v ps.
Proof.
  induction ps as [|p ps IH]; intros s s' ps' H Hin; cbn [fold_postings] in H.
  - injection H as _ <-. reflexivity.
  - destruct (val_posting v s t p) as [[s1 p1]| |] eqn:E1; cbn [rbind fst snd] in H; try discriminate.
    destruct (fold_postings (val_posting v) t s1 ps) as [[s2 ps2]| |] eqn:E2; cbn [rbind fst snd] in H; try discriminate.
    injection H as _ <-. inversion Hin as [|? ? Hp Hrest]; subst.
    rewrite cell_value_cons, cell_qty_cons, (IH _ _ _ E2 Hrest), (val_posting_V v a _ _ _ _ _ E1 Hp). reflexivity.
Qed.

Lemma fold_txns_V v a : forall ts s s' ts',
  fold_txns (valuate_proc v) s ts = ROk (s', ts') -> Forall posting_in_ok (MarkToMarket.txns_postings ts) ->
  cell_value a v (MarkToMarket.txns_postings ts') == cell_qty a v (MarkToMarket.txns_postings ts).
Proof.
  induction ts as [|t ts IH]; intros s s' ts' H Hin; cbn [fold_txns] in H.
  - injection H as _ <-. reflexivity.
  - cbn [valuate_proc pr_txn pr_posting rbind] in H.
    destruct (fold_postings (val_posting v) t s (t_postings t)) as [[s1 ps1]| |] eqn:E1; cbn [rbind fst snd] in H; try discriminate.
    destruct (fold_txns (valuate_proc v) s1 ts) as [[s2 ts2]| |] eqn:E2; cbn [rbind fst snd] in H; try discriminate.
    injection H as _ <-. unfold MarkToMarket.txns_postings in *. cbn [map concat t_postings] in *.
    apply Forall_app in Hin. destruct Hin as [H1 H2].
    rewrite cell_value_app, cell_qty_app, (IH _ _ _ E2 H2), (fold_postings_V v a t _ _ _ _ E1 H1). reflexivity.
Qed.

Lemma adjustments_V0 v a date prev cur pos ts :
  val_adjustments v date prev cur pos = ROk ts ->
  cell_value a v (MarkToMarket.txns_postings ts) == 0 /\ cell_qty a v (MarkToMarket.txns_postings ts) == 0.
Proof.
  intros H. pose proof (val_adjustments_only_AL _ _ _ _ _ _ H) as F. clear H.
  induction F as [|t ts (k & a' & c & q & gain & _ & _ & Hc & _ & Hps) _ IH]; [split; reflexivity|].
  unfold MarkToMarket.txns_postings in *. cbn [map concat]. rewrite cell_value_app, cell_qty_app.
  destruct IH as [I1 I2]. rewrite I1, I2, Hps.
  assert (N : forall p, p_com p = c -> cellb a v p = false).
  { intros p Hp. unfold cellb. rewrite Hp, Hc. apply andb_false_r. }
  unfold pair_build. destruct (is_neg dec_nil || is_zero dec_nil && is_neg gain); cbv beta iota zeta;
    unfold cell_value, cell_qty; cbn [MarkToMarketSpec.qsum]; rewrite !N by reflexivity; split; ring.
Qed.

Lemma val_days_V v a : forall ds s s' ds',
  process_days (valuate_proc v) s ds = ROk (s', ds') -> Forall posting_in_ok (vposts ds) ->
  cell_value a v (vposts ds') == cell_qty a v (vposts ds).
Proof.
  induction ds as [|d r IH]; intros s s' ds' H Hin; cbn [process_days] in H.
  - injection H as _ <-. reflexivity.
  - destruct (process_day (valuate_proc v) s d) as [[s1 d1]| |] eqn:E1; cbn [rbind fst snd] in H; try discriminate.
    destruct (process_days (valuate_proc v) s1 r) as [[s2 r2]| |] eqn:E2; cbn [rbind fst snd] in H; try discriminate.
    injection H as _ <-.
    unfold MarkToMarketSpec.days_postings in *. cbn [map concat] in *. apply Forall_app in Hin. destruct Hin as [Hd Hr].
    rewrite cell_value_app, cell_qty_app, (IH _ _ _ E2 Hr). apply Qplus_comp; [|reflexivity].
    destruct (valuate_day_inv _ _ _ _ _ E1) as (ts & sx & txns' & Eadj & Efold & _ & Etx & _).
    destruct (fold_txns_app _ _ _ _ _ _ Efold) as (sm & o1 & o2 & F1 & F2 & ->).
    pose proof (val_adjustments_only_AL _ _ _ _ _ _ Eadj) as Fz.
    assert (Hzero : Forall zero_qty_txn ts).
    { eapply Forall_impl; [|exact Fz]. intros t (k & a' & c & q & gain & _ & _ & _ & _ & Hps).
      unfold zero_qty_txn. rewrite Hps. unfold pair_build.
      destruct (is_neg dec_nil || is_zero dec_nil && is_neg gain); cbv beta iota zeta; repeat constructor. }
    rewrite (fold_txns_zero v ts sm Hzero) in F2. injection F2 as _ <-.
    unfold MarkToMarketSpec.day_postings. rewrite Etx. fold (MarkToMarket.txns_postings (o1 ++ ts)).
    unfold MarkToMarket.txns_postings. rewrite map_app, concat_app, cell_value_app.
    fold (MarkToMarket.txns_postings o1). fold (MarkToMarket.txns_postings ts).
    rewrite (proj1 (adjustments_V0 v a _ _ _ _ _ Eadj)), Qplus_0_r.
    apply (fold_txns_V v a _ _ _ _ F1). exact Hd.
Qed.

(* the values posted in the valuation commodity up to a date are the quantities booked up to it *)
Lemma prefix_V V a days0 T sP dsP sV dsV :
  StronglySorted Z.lt (dates days0) -> days_dated days0 -> Forall posting_in_ok (vposts days0) ->
  process_days (compute_prices_proc V) (mkCp [] None) days0 = ROk (sP, dsP) ->
  process_days (valuate_proc V) val_init dsP = ROk (sV, dsV) ->
  lsum (fun dp => if (fst dp <=? T)%Z then cval a V dp else 0) (dposts dsV) == qty_on_days a V days0 T.
Proof.
  intros Hsorted Hdated Hin HP HV. pose proof (sorted_split T days0 Hsorted) as Esplit.
  set (U := days_upto T days0) in *. set (R := days_after T days0) in *.
  assert (HU : forall x, In x U -> (d_date x <=? T)%Z = true).
  { intros x Hx. unfold U, days_upto in Hx. apply filter_In in Hx. tauto. }
  assert (HR : forall x, In x R -> (d_date x <=? T)%Z = false).
  { intros x Hx. unfold R, days_after in Hx. apply filter_In in Hx. lia. }
  rewrite Esplit in Hdated, Hin, HP.
  apply days_dated_app in Hdated. destruct Hdated as [HdU HdR].
  apply in_ok_app in Hin. destruct Hin as [HinU HinR].
  destruct (process_days_app _ _ _ _ _ _ HP) as (pu & PU & PR & EPU & EPR & ->).
  destruct (process_days_app _ _ _ _ _ _ HV) as (vu & VU & VR & EVU & EVR & ->).
  destruct (cp_days_shape _ _ _ _ _ EPU) as (DU & SU & TU).
  destruct (cp_days_shape _ _ _ _ _ EPR) as (DR & SR & TR).
  destruct (val_days_dated _ _ _ _ _ EVU (TU HdU)) as [HdVU DVU].
  destruct (val_days_dated _ _ _ _ _ EVR (TR HdR)) as [HdVR DVR].
  rewrite dposts_app, LedgerProofs.qsum_app.
  rewrite (dated_sum_sel (fun d => (d <=? T)%Z) true _ VU HdVU).
  2: { apply (dates_transfer (fun d => (d <=? T)%Z = true) VU U); [congruence|exact HU]. }
  rewrite (dated_sum_sel (fun d => (d <=? T)%Z) false _ VR HdVR).
  2: { apply (dates_transfer (fun d => (d <=? T)%Z = false) VR R); [congruence|exact HR]. }
  rewrite Qplus_0_r, <- cell_value_dposts.
  assert (HinPU : Forall posting_in_ok (vposts PU)) by (rewrite (vposts_of_dposts _ _ SU); exact HinU).
  rewrite (val_days_V V a PU _ _ _ EVU HinPU). unfold qty_on_days. fold U.
  rewrite (vposts_of_dposts _ _ SU). reflexivity.
Qed.

Lemma window_minus (f : Z * posting -> Q) W col l : (W - 1 <= col)%Z ->
  lsum (fun dp => if in_window W col (fst dp) then f dp else 0) l
  == lsum (fun dp => if (fst dp <=? col)%Z then f dp else 0) l - lsum (fun dp => if (fst dp <=? W - 1)%Z then f dp else 0) l.
Proof.
  intros Hle. unfold LedgerProofs.qsum. induction l as [|x l IH]; cbn [fold_right]; [ring|]. rewrite IH.
  unfold in_window. destruct (fst x <=? col)%Z eqn:E1, (fst x <=? W - 1)%Z eqn:E2, (W <=? fst x)%Z eqn:E3; cbn [andb]; try lia; ring.
Qed.

(* the cells of the valuation commodity itself: exactly the quantity booked inside the window *)
Theorem windowed_report_V cfg ds r part V :
  bc_valuation cfg = Some V ->
  balance_report cfg ds = COk (r, part) ->
  exists dl,
    parse_directives ds = MOk dl /\
    new_partition (clip (mkPeriod (bc_from cfg) (bc_to cfg)) (journal_period dl)) (bc_interval cfg) (bc_last cfg) = POk part /\
    (postings_syntactic dl ->
     forall a col, account_ok a = true -> is_AL a = true -> shows_account cfg a -> cfg_where cfg a V = true ->
       (p_start (span part) <= p_end (span part))%Z -> In col (end_dates part) ->
       cum_cell a V part col r == mv_cell dl V a V col - mv_cell dl V a V (p_start (span part) - 1)).
Proof.
  intros Hv H. destruct (cum_cell_window cfg ds r part V Hv H) as (dl & dsP & dsV & Ep & Epart & (sP & sV & EP & EV) & Hcum).
  exists dl. split; [exact Ep|]. split; [exact Epart|].
  intros Hsyn a col Ha HAL Hsh Hw Hspan Hcol.
  rewrite (Hcum Hsyn a V col Ha HAL Hsh Hw Hspan Hcol).
  assert (Hle : (p_start (span part) - 1 <= col)%Z).
  { destruct (partition_facts _ _ _ _ Epart) as [_ Htiles]. destruct (Htiles Hspan) as [Ht Hfs].
    destruct (tiles_facts _ _ _ Ht) as [_ Hb]. rewrite Forall_forall in Hb.
    apply in_map_iff in Hcol. destruct Hcol as (q & <- & Hq). specialize (Hb _ Hq). lia. }
  rewrite (window_minus _ _ _ _ Hle).
  rewrite !(prefix_V V a _ _ sP dsP sV dsV (built_days_sorted _ _ _) (built_days_dated _ _ _)
              (built_days_in_ok' _ ds dl part Ep Hsyn) EP EV).
  rewrite !qty_on_days_journal. unfold mv_cell, ValuationSpec.price_on. rewrite str_eqb_refl. cbn [price_q].
  assert (E1 : dvalue one == 1) by reflexivity. rewrite E1. ring.
Qed.

(* ------------------------------------------------------------ Part B: the sum over commodities *)

Theorem windowed_row cfg ds r part V :
  bc_valuation cfg = Some V ->
  balance_report cfg ds = COk (r, part) ->
  exists dl,
    parse_directives ds = MOk dl /\
    new_partition (clip (mkPeriod (bc_from cfg) (bc_to cfg)) (journal_period dl)) (bc_interval cfg) (bc_last cfg) = POk part /\
    (postings_syntactic dl ->
     forall a col coms, account_ok a = true -> is_AL a = true -> shows_account cfg a ->
       (forall c, In c coms -> cfg_where cfg a c = true) ->
       (p_start (span part) <= p_end (span part))%Z -> In col (end_dates part) ->
       Qabs (row_value a part col r coms
             - (mv_row dl V a col coms - mv_row dl V a (p_start (span part) - 1) coms))
         <= inject_Z (row_steps cfg dl part V a col coms) * (1 # 100000000)).
Proof.
  intros Hv H. destruct (windowed_report cfg ds r part V Hv H) as (dl & Ep & Epart & Hw).
  destruct (windowed_report_V cfg ds r part V Hv H) as (dl' & Ep' & _ & HwV).
  assert (dl' = dl) by congruence. subst dl'.
  exists dl. split; [exact Ep|]. split; [exact Epart|].
  intros Hsyn a col coms Ha HAL Hsh Hwh Hspan Hcol.
  unfold row_value, mv_row. induction coms as [|c coms IH].
  - apply bound_zero. unfold LedgerProofs.qsum. cbn [fold_right]. ring.
  - specialize (IH (fun c' Hc' => Hwh c' (or_intror Hc'))). cbn [row_steps].
    pose proof (Hwh c (or_introl eq_refl)) as Hwc.
    eapply (bound_add (1 # 100000000)
              (cum_cell a c part col r - (mv_cell dl V a c col - mv_cell dl V a c (p_start (span part) - 1)))).
    + destruct (str_eqb c V) eqn:Ec.
      * apply str_eqb_eq in Ec. subst c. apply bound_zero. rewrite (HwV Hsyn a col Ha HAL Hsh Hwc Hspan Hcol). ring.
      * assert (Hcv : c <> V) by (intros ->; rewrite str_eqb_refl in Ec; discriminate).
        exact (Hw Hsyn a c col Ha HAL Hsh Hwc Hcv Hspan Hcol).
    + exact IH.
    + unfold LedgerProofs.qsum. cbn [fold_right]. ring.
Qed.

(* ------------------------------------------------------------ Part C: ValuationSpec.market_value *)

Definition mv_step (dl : list directive) (V : commodity) (a : account) (T : Z) (acc : option dec) (c : commodity) : option dec :=
  match acc with
  | None => None
  | Some s =>
    let q := qty_upto (flat_postings dl) a c T in
    if is_zero q then Some s
    else match ValuationSpec.price_on dl V c T with
         | Some p => Some (add s (mul q p))
         | None => None
         end
  end.

Lemma mv_fold dl V a T : forall coms s x,
  fold_left (mv_step dl V a T) coms (Some s) = Some x -> dvalue x == dvalue s + mv_row dl V a T coms.
Proof.
  unfold mv_row. induction coms as [|c coms IH]; intros s x H; cbn [fold_left] in H.
  - injection H as <-. unfold LedgerProofs.qsum. cbn [fold_right]. ring.
  - unfold LedgerProofs.qsum. cbn [fold_right]. fold (lsum (fun c0 => mv_cell dl V a c0 T) coms).
    unfold mv_step at 2 in H. destruct (is_zero (qty_upto (flat_postings dl) a c T)) eqn:Ez.
    + rewrite (IH _ _ H). unfold mv_cell. apply is_zero_value in Ez. rewrite Ez. ring.
    + destruct (ValuationSpec.price_on dl V c T) as [p|] eqn:Epr.
      * rewrite (IH _ _ H), dvalue_add, dvalue_mul. unfold mv_cell. rewrite Epr. cbn [price_q]. ring.
      * exfalso. clear -H. induction coms as [|c' coms IHc]; cbn [fold_left] in H; [discriminate|]. apply IHc. exact H.
Qed.

Theorem market_value_sum dl V a T x :
  market_value dl V a T = Some x -> dvalue x == mv_row dl V a T (held_commodities (flat_postings dl) a).
Proof.
  intros H. unfold market_value in H. change (fold_left (mv_step dl V a T) (held_commodities (flat_postings dl) a) (Some dec_nil) = Some x) in H.
  rewrite (mv_fold dl V a T _ _ _ H), dvalue_nil. ring.
Qed.

Theorem mtm_expected_sum dl V a W E e :
  mtm_expected dl V a W E = Some e ->
  dvalue e == mv_row dl V a E (held_commodities (flat_postings dl) a) - mv_row dl V a (W - 1) (held_commodities (flat_postings dl) a).
Proof.
  unfold mtm_expected. destruct (market_value dl V a E) as [x|] eqn:E1; [|discriminate].
  destruct (market_value dl V a (W - 1)) as [y|] eqn:E2; [|discriminate].
  intros H. injection H as <-. rewrite dvalue_sub, (market_value_sum _ _ _ _ _ E1), (market_value_sum _ _ _ _ _ E2). reflexivity.
Qed.

(* ------------------------------------------------------------ Part D: the row against mtm_expected *)

Theorem windowed_row_expected cfg ds r part V :
  bc_valuation cfg = Some V ->
  balance_report cfg ds = COk (r, part) ->
  exists dl,
    parse_directives ds = MOk dl /\
    new_partition (clip (mkPeriod (bc_from cfg) (bc_to cfg)) (journal_period dl)) (bc_interval cfg) (bc_last cfg) = POk part /\
    (postings_syntactic dl ->
     forall a col e, account_ok a = true -> is_AL a = true -> shows_account cfg a ->
       (forall c, cfg_where cfg a c = true) ->
       (p_start (span part) <= p_end (span part))%Z -> In col (end_dates part) ->
       mtm_expected dl V a (p_start (span part)) col = Some e ->
       let coms := held_commodities (flat_postings dl) a in
       Qabs (row_value a part col r coms - dvalue e)
         <= inject_Z (row_steps cfg dl part V a col coms) * (1 # 100000000)).
Proof.
  intros Hv H. destruct (windowed_row cfg ds r part V Hv H) as (dl & Ep & Epart & Hw).
  exists dl. split; [exact Ep|]. split; [exact Epart|].
  intros Hsyn a col e Ha HAL Hsh Hwh Hspan Hcol He coms.
  rewrite (mtm_expected_sum _ _ _ _ _ _ He).
  exact (Hw Hsyn a col coms Ha HAL Hsh (fun c _ => Hwh c) Hspan Hcol).
Qed.
