(* C03 on the rendered report, part 1: the cell of an asset/liability account in a valued balance
   report is the sum of the values the Valuate stage put on the account's postings inside the
   window (the valued analogue of C02_cells).

   Part A  shapes: ComputePrices and Valuate keep the dates of the days, every transaction of a
           day carries the day's date, every posting account stays syntactically valid
   Part B  CloseAccounts in a valued run: the closing transactions book between accounts that are
           neither assets nor liabilities, so sums over asset/liability postings are unchanged
   Part C  the query of the balance command on one asset/liability account that is shown as
           itself (no mapping rule or remap touches it)
   Part D  assembly: valued_report_cells *)
From Coq Require Import ZArith QArith Qabs List Bool Lia Permutation Sorting.Sorted.
From Knut Require Import Model.Str Model.Dec Model.Date Model.Account Model.Ledger Model.Price
     Model.Journal Model.Check Model.Pipeline Model.Table Model.Report Model.Cli
     Spec.DateSpec Spec.WellformedSpec Spec.LedgerSpec Spec.LedgerSyntax Spec.MarkToMarketSpec
     Spec.PriceSpec Spec.PriceDaySpec Spec.MarkToMarketReportSpec
     Proofs.DecProofs Proofs.DecValue Proofs.CheckLemmas Proofs.CheckProofs Proofs.PairProofs
     Proofs.ReportSum Proofs.Conservation Proofs.DateProofs Proofs.BeancountProofs
     Proofs.LedgerProofs Proofs.CloseProofs Proofs.PriceDayProofs Proofs.ValuationProofs
     Proofs.MarkToMarket.
Import ListNotations.
Open Scope Q_scope.

(* two vocabularies meet here: dated postings (Proofs/LedgerProofs.v, the report side) and plain
   postings (Spec/MarkToMarketSpec.v, the valuation side) *)
Notation dposts := LedgerProofs.days_postings.
Notation dday := LedgerProofs.day_postings.
Notation vposts := MarkToMarketSpec.days_postings.
Notation vday := MarkToMarketSpec.day_postings.
Notation lsum := LedgerProofs.qsum.
Notation vsum := MarkToMarketSpec.qsum.

(* ------------------------------------------------------------ Part A: shapes *)

Lemma snd_dday d : map snd (dday d) = vday d.
Proof.
  unfold LedgerProofs.day_postings, MarkToMarketSpec.day_postings. rewrite concat_map, map_map.
  f_equal. apply map_ext. intros t. rewrite map_map. cbn [snd]. apply map_id.
Qed.

Lemma snd_dposts ds : map snd (dposts ds) = vposts ds.
Proof.
  unfold LedgerProofs.days_postings, MarkToMarketSpec.days_postings. rewrite concat_map, map_map.
  f_equal. apply map_ext. intros d. apply snd_dday.
Qed.

Lemma vsum_lsum (f : posting -> Q) (l : list (Z * posting)) :
  vsum f (map snd l) == lsum (fun dp => f (snd dp)) l.
Proof.
  unfold LedgerProofs.qsum. induction l as [|x l IH]; cbn [map MarkToMarketSpec.qsum fold_right]; [reflexivity|].
  rewrite IH. reflexivity.
Qed.

(* the three quantities of a cell as sums over dated postings *)
Definition cval (a : account) (c : commodity) (dp : Z * posting) : Q :=
  if cellb a c (snd dp) then dvalue (p_val (snd dp)) else 0.
Definition cqty (a : account) (c : commodity) (dp : Z * posting) : Q :=
  if cellb a c (snd dp) then dvalue (p_qty (snd dp)) else 0.

Lemma cell_value_dposts a c ds : cell_value a c (vposts ds) == lsum (cval a c) (dposts ds).
Proof. unfold cell_value. rewrite <- snd_dposts, vsum_lsum. reflexivity. Qed.

Lemma cell_qty_dposts a c ds : cell_qty a c (vposts ds) == lsum (cqty a c) (dposts ds).
Proof. unfold cell_qty. rewrite <- snd_dposts, vsum_lsum. reflexivity. Qed.

Lemma dposts_app l1 l2 : dposts (l1 ++ l2) = dposts l1 ++ dposts l2.
Proof. unfold LedgerProofs.days_postings. rewrite map_app, concat_app. reflexivity. Qed.

Lemma vposts_app l1 l2 : vposts (l1 ++ l2) = vposts l1 ++ vposts l2.
Proof. unfold MarkToMarketSpec.days_postings. rewrite map_app, concat_app. reflexivity. Qed.

Lemma days_dated_app l1 l2 : days_dated (l1 ++ l2) <-> days_dated l1 /\ days_dated l2.
Proof. unfold days_dated. apply Forall_app. Qed.

(* -- any processor keeps the dates of the transactions it passes on -- *)
Lemma fold_txns_dates {S} (p : processor S) : forall ts s s' ts',
  fold_txns p s ts = ROk (s', ts') -> map t_date ts' = map t_date ts.
Proof.
  induction ts as [|t ts IH]; intros s s' ts' H; cbn [fold_txns] in H.
  - injection H as _ <-. reflexivity.
  - destruct (match pr_txn p with Some f => f s t | None => ROk s end) as [s1| |]; cbn [rbind] in H; try discriminate.
    destruct (match pr_posting p with
              | Some f => rbind (fold_postings f t s1 (t_postings t))
                                (fun sp => ROk (fst sp, mkTxn (t_date t) (t_desc t) (snd sp) (t_targets t)))
              | None => ROk (s1, t) end) as [[s2 t']| |] eqn:E; cbn [rbind fst snd] in H; try discriminate.
    destruct (fold_txns p s2 ts) as [[s3 o]| |] eqn:E2; cbn [rbind fst snd] in H; try discriminate.
    injection H as _ <-. cbn [map]. rewrite (IH _ _ _ E2). f_equal.
    destruct (pr_posting p) as [f|].
    + destruct (fold_postings f t s1 (t_postings t)) as [[s4 ps]| |]; cbn [rbind fst snd] in E; try discriminate.
      injection E as _ <-. reflexivity.
    + injection E as _ <-. reflexivity.
Qed.

Lemma map_const_forall {A} (f : A -> Z) (x : Z) l : Forall (fun t => f t = x) l <-> map f l = map (fun _ => x) l.
Proof.
  induction l as [|y l IH]; cbn [map]; split; intros H; try constructor; try reflexivity.
  - inversion H as [|? ? H1 H2]; subst. f_equal. apply IH. exact H2.
  - injection H as H1 _. exact H1.
  - injection H as _ H2. apply IH. exact H2.
Qed.

Lemma dated_transfer (ts ts' : list txn) (x : Z) :
  map t_date ts' = map t_date ts -> Forall (fun t => t_date t = x) ts -> Forall (fun t => t_date t = x) ts'.
Proof.
  intros E H. apply map_const_forall. apply map_const_forall in H. rewrite E, H.
  assert (L : length ts' = length ts) by (rewrite <- (map_length t_date ts'), E; apply map_length).
  clear -L. revert ts' L. induction ts as [|t ts IH]; intros [|t' ts'] L; cbn in L; try discriminate; cbn [map]; [reflexivity|].
  f_equal. apply IH. lia.
Qed.

(* -- the Valuate stage -- *)
Lemma val_day_dated v s d s' d' :
  process_day (valuate_proc v) s d = ROk (s', d') ->
  Forall (fun t => t_date t = d_date d) (d_txns d) ->
  d_date d' = d_date d /\ Forall (fun t => t_date t = d_date d') (d_txns d').
Proof.
  intros H Hd. destruct (valuate_day_inv _ _ _ _ _ H) as (ts & s2 & txns' & Eadj & Efold & _ & Etx & _ & Edate).
  split; [exact Edate|]. rewrite Etx, Edate.
  apply (dated_transfer (d_txns d ++ ts) txns' (d_date d) (fold_txns_dates _ _ _ _ _ Efold)).
  apply Forall_app. split; [exact Hd|].
  eapply Forall_impl; [|exact (val_adjustments_shape _ _ _ _ _ _ Eadj)]. intros t [Ht _]. exact Ht.
Qed.

Lemma val_days_dated v : forall ds s s' ds',
  process_days (valuate_proc v) s ds = ROk (s', ds') -> days_dated ds ->
  days_dated ds' /\ dates ds' = dates ds.
Proof.
  induction ds as [|d ds IH]; intros s s' ds' H Hd; cbn [process_days] in H.
  - injection H as _ <-. split; [constructor|reflexivity].
  - destruct (process_day (valuate_proc v) s d) as [[s1 d1]| |] eqn:E1; cbn [rbind fst snd] in H; try discriminate.
    destruct (process_days (valuate_proc v) s1 ds) as [[s2 ds2]| |] eqn:E2; cbn [rbind fst snd] in H; try discriminate.
    injection H as _ <-. inversion Hd as [|? ? Hx Hrest]; subst.
    destruct (val_day_dated _ _ _ _ _ E1 Hx) as [A B]. destruct (IH _ _ _ E2 Hrest) as [C D].
    split; [constructor; assumption|]. unfold dates in *. cbn [map]. rewrite A, D. reflexivity.
Qed.

(* -- the ComputePrices stage keeps dates and transactions -- *)
Lemma cp_days_shape v : forall ds s s' ds',
  process_days (compute_prices_proc v) s ds = ROk (s', ds') ->
  dates ds' = dates ds /\ dposts ds' = dposts ds /\ (days_dated ds -> days_dated ds').
Proof.
  induction ds as [|d ds IH]; intros s s' ds' H; cbn [process_days] in H.
  - injection H as _ <-. repeat split; auto.
  - destruct (process_day (compute_prices_proc v) s d) as [[s1 d1]| |] eqn:E1; cbn [rbind fst snd] in H; try discriminate.
    destruct (process_days (compute_prices_proc v) s1 ds) as [[s2 ds2]| |] eqn:E2; cbn [rbind fst snd] in H; try discriminate.
    injection H as _ <-. destruct (IH _ _ _ E2) as (A & B & C).
    assert (Ed : d_date d1 = d_date d /\ d_txns d1 = d_txns d).
    { unfold process_day in E1.
      cbn [compute_prices_proc pr_day_start pr_price pr_open pr_close pr_day_end rbind fst snd] in E1.
      destruct (fold_res cp_price_cb s (d_prices d)) as [sx| |]; cbn [rbind] in E1; try discriminate.
      rewrite fold_txns_cp in E1. cbn [rbind fst snd] in E1. rewrite fold_asserts_cp in E1. cbn [rbind] in E1.
      unfold cp_day_end in E1. cbn [d_prices d_date d_opens d_txns d_asserts d_closes d_normalized] in E1.
      destruct (d_prices d) as [|x l].
      - injection E1 as _ <-. split; reflexivity.
      - destruct (normalize (cp_prices sx) v); [|discriminate]. injection E1 as _ <-. split; reflexivity. }
    destruct Ed as [Ed Et].
    split; [unfold dates in *; cbn [map]; rewrite Ed, A; reflexivity|]. split.
    + unfold LedgerProofs.days_postings in *. cbn [map concat]. rewrite B. f_equal.
      unfold LedgerProofs.day_postings. rewrite Et. reflexivity.
    + intros Hd. inversion Hd as [|? ? Hx Hrest]; subst. constructor; [rewrite Ed, Et; exact Hx|apply C; exact Hrest].
Qed.

(* -- accounts stay syntactically valid through Valuate: bookings keep their account, the
      revaluation transactions book between an account of the position map and its Income mirror -- *)
Definition acc_ok_p (p : posting) : Prop := account_ok (p_acc p) = true.

Lemma fold_postings_acc_ok v t : forall ps s s' ps',
  fold_postings (val_posting v) t s ps = ROk (s', ps') -> Forall acc_ok_p ps -> Forall acc_ok_p ps'.
Proof.
  induction ps as [|p ps IH]; intros s s' ps' H Hok; cbn [fold_postings] in H.
  - injection H as _ <-. constructor.
  - destruct (val_posting v s t p) as [[s1 p1]| |] eqn:E1; cbn [rbind fst snd] in H; try discriminate.
    destruct (fold_postings (val_posting v) t s1 ps) as [[s2 ps2]| |] eqn:E2; cbn [rbind fst snd] in H; try discriminate.
    injection H as _ <-. inversion Hok as [|? ? Hp Hrest]; subst.
    constructor; [|eapply IH; eassumption].
    destruct (val_posting_value _ _ _ _ _ _ E1) as (Ea & _). unfold acc_ok_p. rewrite Ea. exact Hp.
Qed.

Lemma fold_txns_acc_ok v : forall ts s s' ts',
  fold_txns (valuate_proc v) s ts = ROk (s', ts') ->
  Forall acc_ok_p (MarkToMarket.txns_postings ts) -> Forall acc_ok_p (MarkToMarket.txns_postings ts').
Proof.
  induction ts as [|t ts IH]; intros s s' ts' H Hok; cbn [fold_txns] in H.
  - injection H as _ <-. constructor.
  - cbn [valuate_proc pr_txn pr_posting rbind] in H.
    destruct (fold_postings (val_posting v) t s (t_postings t)) as [[s1 ps1]| |] eqn:E1; cbn [rbind fst snd] in H; try discriminate.
    destruct (fold_txns (valuate_proc v) s1 ts) as [[s2 ts2]| |] eqn:E2; cbn [rbind fst snd] in H; try discriminate.
    injection H as _ <-. unfold MarkToMarket.txns_postings in *. cbn [map concat t_postings] in *.
    apply Forall_app in Hok. destruct Hok as [H1 H2]. apply Forall_app. split.
    + eapply fold_postings_acc_ok; eassumption.
    + eapply IH; eassumption.
Qed.

Lemma adjustments_acc_ok v date prev cur pos ts :
  val_adjustments v date prev cur pos = ROk ts -> (forall x, In x pos -> CheckProofs.entry_ok x) ->
  Forall acc_ok_p (MarkToMarket.txns_postings ts).
Proof.
  intros H He. pose proof (val_adjustments_only_AL _ _ _ _ _ _ H) as F. clear H.
  induction F as [|t ts (k & a & c & q & gain & Hin & _ & _ & _ & Hps) _ IH]; [constructor|].
  unfold MarkToMarket.txns_postings in *. cbn [map concat]. apply Forall_app. split; [|exact IH].
  rewrite Hps. pose proof (He _ Hin) as (_ & Ha & _). cbn [fst snd] in Ha.
  unfold pair_build. destruct (is_neg dec_nil || is_zero dec_nil && is_neg gain); cbv beta iota zeta;
    repeat constructor; unfold acc_ok_p; cbn [p_acc]; try exact Ha; apply valuation_account_ok; exact Ha.
Qed.

Lemma in_ok_acc_ok l : Forall posting_in_ok l -> Forall acc_ok_p l.
Proof. apply Forall_impl. intros p [H _]. exact H. Qed.

Lemma val_days_acc_ok v : forall ds s s' ds',
  Forall posting_in_ok (vposts ds) -> entries_ok (v_qty s) ->
  process_days (valuate_proc v) s ds = ROk (s', ds') -> Forall acc_ok_p (vposts ds').
Proof.
  induction ds as [|d r IH]; intros s s' ds' Hin Hs H; cbn [process_days] in H.
  - injection H as _ <-. constructor.
  - destruct (process_day (valuate_proc v) s d) as [[s1 d1]| |] eqn:E1; cbn [rbind fst snd] in H; try discriminate.
    destruct (process_days (valuate_proc v) s1 r) as [[s2 r2]| |] eqn:E2; cbn [rbind fst snd] in H; try discriminate.
    injection H as _ <-.
    unfold MarkToMarketSpec.days_postings in Hin. cbn [map concat] in Hin. apply Forall_app in Hin. destruct Hin as [Hd Hr].
    assert (E1' : process_days (valuate_proc v) s [d] = ROk (s1, [d1])) by (cbn [process_days]; rewrite E1; reflexivity).
    assert (Hd' : Forall posting_in_ok (vposts [d])).
    { unfold MarkToMarketSpec.days_postings. cbn [map concat]. rewrite app_nil_r. exact Hd. }
    pose proof (days_entries_ok v [d] s s1 [d1] Hd' Hs E1') as Hs1.
    unfold MarkToMarketSpec.days_postings in *. cbn [map concat]. apply Forall_app. split; [|exact (IH _ _ _ Hr Hs1 E2)].
    destruct (valuate_day_inv _ _ _ _ _ E1) as (ts & sx & txns' & Eadj & Efold & _ & Etx & _).
    unfold MarkToMarketSpec.day_postings. rewrite Etx. fold (MarkToMarket.txns_postings txns').
    apply (fold_txns_acc_ok _ _ _ _ _ Efold). unfold MarkToMarket.txns_postings. rewrite map_app, concat_app.
    apply Forall_app. split; [apply in_ok_acc_ok; exact Hd|].
    exact (adjustments_acc_ok _ _ _ _ _ _ Eadj (proj2 Hs)).
Qed.

Lemma acc_ok_posts_ok ds : Forall acc_ok_p (vposts ds) -> posts_ok (dposts ds).
Proof.
  intros H dp Hin. rewrite <- snd_dposts in H. rewrite Forall_forall in H. apply H. apply in_map. exact Hin.
Qed.

(* ------------------------------------------------------------ Part B: CloseAccounts in a valued run *)

Lemma closing_txns_nonAL date vs : forall m, Forall CloseProofs.entry_ok m ->
  forall dp, In dp (CloseProofs.txns_postings (closing_txns date m vs)) -> is_AL (p_acc (snd dp)) = false.
Proof.
  induction m as [|[k0 [[a c] qy]] m IH]; intros Hok dp Hin; cbn [closing_txns] in Hin.
  - destruct Hin.
  - inversion Hok as [|? ? Hx Hrest]; subst. destruct Hx as (_ & _ & Hc). cbn [fst snd] in Hc.
    destruct (is_zero qy && is_zero (match pos_get vs a c with Some x => x | None => dec_nil end)).
    + apply IH; assumption.
    + unfold CloseProofs.txns_postings in Hin. cbn [map concat t_date t_postings] in Hin.
      apply in_app_or in Hin. destruct Hin as [Hin|Hin]; [|apply IH; assumption].
      assert (Hna : is_AL a = false).
      { unfold closable in Hc. apply andb_true_iff in Hc. destruct Hc as [Hc _]. apply negb_true_iff in Hc. exact Hc. }
      unfold pair_build in Hin.
      destruct (is_neg qy || is_zero qy && is_neg _); cbn [map] in Hin; destruct Hin as [<-|[<-|[]]]; cbn [snd p_acc];
        try exact Hna; reflexivity.
Qed.

(* a weight that vanishes on accounts that are not assets or liabilities does not see the close stage *)
Lemma close_days_AL cds (f : Z * posting -> Q) :
  (forall dp, account_ok (p_acc (snd dp)) = true -> is_AL (p_acc (snd dp)) = false -> f dp == 0) ->
  forall ds s s' ds',
  map_ok (c_qty s) -> posts_ok (dposts ds) ->
  process_days (close_proc cds) s ds = ROk (s', ds') ->
  lsum f (dposts ds') == lsum f (dposts ds).
Proof.
  intros Hf. induction ds as [|d ds IH]; intros s s' ds' Hm Hok H; cbn [process_days] in H.
  - injection H as _ <-. reflexivity.
  - destruct (process_day (close_proc cds) s d) as [[s1 d1]| |] eqn:E1; cbn [rbind fst snd] in H; try discriminate.
    destruct (process_days (close_proc cds) s1 ds) as [[s2 ds2]| |] eqn:E2; cbn [rbind fst snd] in H; try discriminate.
    injection H as _ <-.
    unfold LedgerProofs.days_postings in Hok. cbn [map concat] in Hok. apply posts_ok_app in Hok. destruct Hok as [Hd Hds].
    destruct (close_day _ _ _ _ _ Hm Hd E1) as (Hd1 & Hm1 & _).
    specialize (IH _ _ _ Hm1 Hds E2).
    unfold LedgerProofs.days_postings in *. cbn [map concat]. rewrite !LedgerProofs.qsum_app, IH.
    apply Qplus_comp; [|reflexivity]. subst d1.
    destruct (existsb (Z.eqb (d_date d)) cds); [|reflexivity].
    rewrite !day_postings_txns. cbn [set_txns d_txns]. rewrite txns_postings_app, LedgerProofs.qsum_app.
    rewrite (LedgerProofs.qsum_zero f (CloseProofs.txns_postings (closing_txns (d_date d) (c_qty s) (c_val s)))); [ring|].
    intros dp Hin. apply Hf.
    + apply (proj2 (closing_txns_psum (fun _ _ => 0) (d_date d) (c_val s) (c_qty s) (proj2 Hm))). exact Hin.
    + apply (closing_txns_nonAL (d_date d) (c_val s) (c_qty s) (proj2 Hm)). exact Hin.
Qed.

(* ------------------------------------------------------------ Part C: the query on one account *)

Lemma rxs_match_nil s : rxs_match [] s = false.
Proof. reflexivity. Qed.

Lemma shows_account_plain cfg a : bc_mapping cfg = [] -> bc_remap cfg = [] -> shows_account cfg a.
Proof.
  intros Hm Hr b _. rewrite Hm, Hr. unfold remap. rewrite rxs_match_nil. reflexivity.
Qed.

(* the column indicator of a dated posting *)
Definition in_col (ps : list period) (col d : Z) : bool :=
  match column_for ps d with Some e => (e =? col)%Z | None => false end.

Lemma acc_eqb_AL b a : account_ok b = true -> account_ok a = true -> is_AL b = false -> is_AL a = true -> acc_eqb b a = false.
Proof.
  intros Hb Ha Hnb Hna. destruct (acc_eqb b a) eqn:E; [|reflexivity].
  apply acc_eqb_name in E. apply acc_name_inj in E; [|assumption|assumption]. congruence.
Qed.

Lemma q_contrib_valued cfg part V a c col d p :
  bc_valuation cfg = Some V -> shows_account cfg a -> account_ok a = true -> cfg_where cfg a c = true ->
  account_ok (p_acc p) = true ->
  q_contrib (balance_query cfg part) a (Some col, Some c) (d, p)
  == if in_col (periods part) col d then cval a c (d, p) else 0.
Proof.
  intros Hv Hsh Ha Hw Hp. rewrite q_contrib_ind. unfold q_ind, balance_query. cbn [q_where q_account q_date q_valued].
  rewrite Hv. unfold cval, cellb, in_col. cbn [snd].
  assert (Hwe : (match bc_accounts cfg with [] => true | rs => rxs_match rs (acc_name (p_acc p)) end
                && match bc_commodities cfg with [] => true | rs => rxs_match rs (p_com p) end)
                = cfg_where cfg (p_acc p) (p_com p)) by reflexivity.
  rewrite Hwe. specialize (Hsh _ Hp).
  unfold Date.align. rewrite align_list_column_for.
  assert (Hgen : forall (x : Q) (b1 b2 : bool), (if b1 then (if b2 then x else 0) else 0) == (if b2 then (if b1 then x else 0) else 0))
    by (intros x [] []; reflexivity).
  destruct (acc_eqb (p_acc p) a) eqn:Ea.
  - destruct (shorten (bc_mapping cfg) (remap (bc_remap cfg) (p_acc p))) as [b'| |]; try discriminate. rewrite Hsh.
    apply acc_eqb_name in Ea. apply acc_name_inj in Ea; [|assumption|assumption].
    destruct (str_eqb (p_com p) c) eqn:Ec.
    + apply str_eqb_eq in Ec. rewrite Ea, Ec, Hw. cbn [andb].
      destruct (column_for (periods part) d) as [e|]; unfold rkey_eqb; cbn [fst snd oz_eqb ocom_eqb].
      * rewrite str_eqb_refl, andb_true_r. destruct (e =? col)%Z; ring.
      * cbn [andb]. ring.
    + cbn [andb]. assert (Hk : rkey_eqb (column_for (periods part) d, Some (p_com p)) (Some col, Some c) = false).
      { unfold rkey_eqb. cbn [fst snd ocom_eqb]. rewrite Ec. apply andb_false_r. }
      rewrite Hk. destruct (cfg_where cfg (p_acc p) (p_com p)), (in_col (periods part) col d); unfold in_col; destruct (column_for (periods part) d); try destruct (_ =? _)%Z; ring.
  - cbn [andb].
    assert (Hz : (if cfg_where cfg (p_acc p) (p_com p)
                  then match shorten (bc_mapping cfg) (remap (bc_remap cfg) (p_acc p)) with
                       | ShAcc a' => if acc_eqb a' a then if rkey_eqb (column_for (periods part) d, Some (p_com p)) (Some col, Some c) then 1 else 0 else 0
                       | _ => 0 end
                  else 0) == 0).
    { destruct (cfg_where cfg (p_acc p) (p_com p)); [|reflexivity].
      destruct (shorten (bc_mapping cfg) (remap (bc_remap cfg) (p_acc p))) as [b'| |]; try reflexivity. rewrite Hsh. reflexivity. }
    rewrite Hz. destruct (column_for (periods part) d); try destruct (_ =? _)%Z; ring.
Qed.

(* ------------------------------------------------------------ Part D: assembly *)

Lemma built_days_perm close dl part : Permutation (dposts (built_days close dl part)) (flat_postings dl).
Proof.
  unfold built_days. destruct close; [rewrite builder_touch_perm|]; apply builder_of_perm.
Qed.

Lemma built_days_dated close dl part : days_dated (built_days close dl part).
Proof.
  unfold built_days. destruct close; [apply builder_touch_dated|]; apply builder_of_dated.
Qed.

Lemma built_days_sorted close dl part : StronglySorted Z.lt (dates (built_days close dl part)).
Proof.
  apply Sorted_StronglySorted; [intros x y z; apply Z.lt_trans|].
  unfold built_days. destruct close; [|apply builder_of_sorted].
  unfold builder_touch. cbn [b_days]. apply touch_sorted. apply builder_of_sorted.
Qed.

Lemma built_days_in_ok' close l dl part :
  parse_directives l = MOk dl -> postings_syntactic dl -> Forall posting_in_ok (vposts (built_days close dl part)).
Proof.
  intros Hl Hsyn. apply (built_days_in_ok l dl (start_dates part) close Hl).
  cbn zeta. fold (built_days close dl part). rewrite <- snd_dposts. rewrite Forall_forall. intros p Hin.
  apply in_map_iff in Hin. destruct Hin as ([d p0] & <- & Hin). cbn [snd].
  apply (Hsyn d p0). eapply Permutation_in; [apply built_days_perm|exact Hin].
Qed.

(* what leaves the Valuate stage of a valued balance command *)
Definition valued_run (cfg : balance_cfg) (V : commodity) (dl : list directive) (part : partition)
           (dsP dsV : list day) : Prop :=
  exists sP sV,
    process_days (compute_prices_proc V) (mkCp [] None) (built_days (bc_close cfg) dl part) = ROk (sP, dsP) /\
    process_days (valuate_proc V) val_init dsP = ROk (sV, dsV).

(* the valued analogue of C02_cells for asset/liability accounts: the cell of account a, column
   col, commodity c holds the sum of the values that Valuate put on the postings of (a, c) dated
   inside the window and attributed to that column *)
Theorem valued_report_cells cfg ds r part V :
  bc_valuation cfg = Some V ->
  balance_report cfg ds = COk (r, part) ->
  exists dl dsP dsV,
    parse_directives ds = MOk dl /\
    new_partition (clip (mkPeriod (bc_from cfg) (bc_to cfg)) (journal_period dl)) (bc_interval cfg) (bc_last cfg) = POk part /\
    valued_run cfg V dl part dsP dsV /\
    (postings_syntactic dl ->
     forall a c col, account_ok a = true -> is_AL a = true -> shows_account cfg a -> cfg_where cfg a c = true ->
       rcell a (Some col, Some c) r ==
       lsum (fun dp => if in_span (span part) (fst dp) && in_col (periods part) col (fst dp) then cval a c dp else 0) (dposts dsV)).
Proof.
  intros Hv H. unfold balance_report in H. rewrite Hv in H.
  destruct (valid_commodity V); [|discriminate]. cbn [cbind] in H.
  unfold load in H. destruct (parse_directives ds) as [dl| |] eqn:Ep; try discriminate. cbn [cbind of_mresult] in H.
  unfold cfg_partition in H. rewrite builder_period_spec in H.
  destruct (new_partition (clip (mkPeriod (bc_from cfg) (bc_to cfg)) (journal_period dl)) (bc_interval cfg) (bc_last cfg)) as [part0| |] eqn:Epart; try discriminate.
  cbn [cbind] in H. unfold run_stage in H.
  change (b_days (if bc_close cfg then builder_touch (builder_of dl) (start_dates part0) else builder_of dl))
    with (built_days (bc_close cfg) dl part0) in H.
  set (days0 := built_days (bc_close cfg) dl part0) in *.
  destruct (process_days (check_proc_current (bc_lenient cfg)) check_init days0) as [[s1 d1]| |] eqn:E1; try discriminate.
  cbn [cbind of_presult fst snd] in H.
  pose proof (check_current_stage_id _ _ _ _ _ E1) as ->.
  destruct (process_days (compute_prices_proc V) (mkCp [] None) days0) as [[sP dsP]| |] eqn:E2; try discriminate.
  cbn [cbind of_presult fst snd] in H.
  destruct (process_days (valuate_proc V) (mkVal None None []) dsP) as [[sV dsV]| |] eqn:E3; try discriminate.
  cbn [cbind of_presult fst snd] in H.
  destruct (process_days (filter_proc (span part0)) tt dsV) as [[s4 d4]| |] eqn:E4; try discriminate.
  cbn [cbind of_presult fst snd] in H.
  pose proof (filter_stage_spec _ _ _ _ _ E4) as ->.
  change (map (fun d => if period_contains (span part0) (d_date d) then d else set_txns d []) dsV)
    with (map (filt (span part0)) dsV) in H.
  assert (Hfin : exists dsC r6 d6,
            (if bc_close cfg
             then exists s5, process_days (close_proc (start_dates part0)) (mkClose [] []) (map (filt (span part0)) dsV) = ROk (s5, dsC)
             else dsC = map (filt (span part0)) dsV) /\
            process_days (query_proc (balance_query cfg part0) report_insert) new_report dsC = ROk (r6, d6) /\
            r6 = r /\ part0 = part).
  { destruct (bc_close cfg).
    - destruct (process_days (close_proc (start_dates part0)) (mkClose [] []) (map (filt (span part0)) dsV)) as [[s5 d5]| |] eqn:E5; try discriminate.
      cbn [cbind of_presult fst snd] in H.
      destruct (process_days (query_proc (balance_query cfg part0) report_insert) new_report d5) as [[r6 d6]| |] eqn:E6; try discriminate.
      cbn [cbind of_presult fst snd] in H. injection H as <- <-. exists d5, r6, d6. split; [exists s5; reflexivity|]. auto.
    - cbn [cbind] in H.
      destruct (process_days (query_proc (balance_query cfg part0) report_insert) new_report (map (filt (span part0)) dsV)) as [[r6 d6]| |] eqn:E6; try discriminate.
      cbn [cbind of_presult fst snd] in H. injection H as <- <-. exists (map (filt (span part0)) dsV), r6, d6. auto. }
  clear H. destruct Hfin as (dsC & r6 & d6 & Hclose & E6 & -> & ->).
  exists dl, dsP, dsV. split; [reflexivity|]. split; [exact Epart|].
  split; [exists sP, sV; split; assumption|].
  intros Hsyn a c col Ha HAL Hsh Hw.
  destruct (query_days (balance_query cfg part) a (Some col, Some c) _ _ _ _ wf_new_report E6) as (_ & _ & Hcell).
  rewrite Hcell, rcell_new, Qplus_0_l. clear Hcell E6.
  (* facts about the valued days *)
  pose proof (built_days_in_ok' (bc_close cfg) ds dl part Ep Hsyn) as Hin0. fold days0 in Hin0.
  destruct (cp_days_shape _ _ _ _ _ E2) as (Hdates2 & Hposts2 & Hdated2).
  assert (HinP : Forall posting_in_ok (vposts dsP)).
  { rewrite <- snd_dposts, Hposts2, snd_dposts. exact Hin0. }
  assert (Hgood0 : entries_ok (v_qty val_init)) by (split; [constructor|intros x []]).
  pose proof (val_days_acc_ok V dsP val_init sV dsV HinP Hgood0 E3) as HokV.
  destruct (val_days_dated V dsP _ _ _ E3 (Hdated2 (built_days_dated _ _ _))) as [HdatedV _].
  assert (HokF : posts_ok (dposts (map (filt (span part)) dsV))).
  { intros dp Hdp. apply (acc_ok_posts_ok dsV HokV). eapply filt_in. exact Hdp. }
  (* the close stage does not touch asset/liability accounts *)
  assert (Hq0 : forall dp, account_ok (p_acc (snd dp)) = true -> is_AL (p_acc (snd dp)) = false ->
                 q_contrib (balance_query cfg part) a (Some col, Some c) dp == 0).
  { intros [d p] Hp Hn. cbn [snd] in Hp, Hn. rewrite (q_contrib_valued cfg part V a c col d p Hv Hsh Ha Hw Hp).
    unfold cval, cellb. cbn [snd]. rewrite (acc_eqb_AL _ _ Hp Ha Hn HAL). cbn [andb].
    destruct (in_col (periods part) col d); reflexivity. }
  assert (Hq : q_total (balance_query cfg part) a (Some col, Some c) (dposts dsC)
               == q_total (balance_query cfg part) a (Some col, Some c) (dposts (map (filt (span part)) dsV))).
  { destruct (bc_close cfg).
    - destruct Hclose as (s5 & E5). rewrite !q_total_qsum.
      apply (close_days_AL (start_dates part) _ Hq0 _ (mkClose [] []) _ _ map_ok_nil HokF E5).
    - subst dsC. reflexivity. }
  rewrite Hq, q_total_qsum, (filt_sum _ _ _ HdatedV).
  apply LedgerProofs.qsum_ext. intros [d p] Hdp. cbn [fst].
  destruct (in_span (span part) d); cbn [andb]; [|reflexivity].
  apply (q_contrib_valued cfg part V a c col d p Hv Hsh Ha Hw).
  apply (acc_ok_posts_ok dsV HokV (d, p) Hdp).
Qed.
