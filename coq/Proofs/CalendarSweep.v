(* Calendar sweeps (slow to compile, kept apart). Facts about the calendar functions of Model/Date.v.
   Method: a vm_compute sweep over one 400-year era (146097 days), lifted to every day by
   the 146097-day / 400-year periodicity of civil and of_civil.  No bound on dates remains
   in any statement. *)
From Coq Require Import ZArith List Bool Lia.
From Knut Require Import Model.Date.
Import ListNotations.
Open Scope bool_scope.
Open Scope Z_scope.

Definition ERA : Z := 146097.

Definition shift_y (t : Z * Z * Z) (k : Z) : Z * Z * Z :=
  let '(y, m, dd) := t in (y + 400 * k, m, dd).

Definition triple_eqb (a b : Z * Z * Z) : bool :=
  let '(y1, m1, d1) := a in let '(y2, m2, d2) := b in
  (y1 =? y2) && (m1 =? m2) && (d1 =? d2).

Lemma triple_eqb_eq a b : triple_eqb a b = true -> a = b.
Proof.
  destruct a as [[y1 m1] d1], b as [[y2 m2] d2]; cbn.
  rewrite !andb_true_iff, !Z.eqb_eq. intros [[-> ->] ->]. reflexivity.
Qed.

Definition next_civil (t : Z * Z * Z) : Z * Z * Z :=
  let '(y, m, dd) := t in
  if dd <? days_in_month y m then (y, m, dd + 1)
  else if m <? 12 then (y, m + 1, 1) else (y + 1, 1, 1).

Definition valid_civil (t : Z * Z * Z) : Prop :=
  let '(y, m, dd) := t in 1 <= m <= 12 /\ 1 <= dd <= days_in_month y m.

Definition valid_civil_b (t : Z * Z * Z) : bool :=
  let '(y, m, dd) := t in
  (1 <=? m) && (m <=? 12) && (1 <=? dd) && (dd <=? days_in_month y m).

Lemma valid_civil_b_iff t : valid_civil_b t = true <-> valid_civil t.
Proof.
  destruct t as [[y m] dd]; cbn.
  rewrite !andb_true_iff, !Z.leb_le. tauto.
Qed.

(* ------------------------------------------------------------ periodicity *)

Lemma civil_period d k : civil (d + ERA * k) = shift_y (civil d) k.
Proof.
  unfold civil, ERA.
  replace (d + 146097 * k + 306) with (d + 306 + k * 146097) by ring.
  rewrite Z.div_add by lia.
  set (z := d + 306). set (era := z / 146097).
  replace (z + k * 146097 - (era + k) * 146097) with (z - era * 146097) by ring.
  set (doe := z - era * 146097).
  set (yoe := (doe - doe / 1460 + doe / 36524 - doe / 146096) / 365).
  cbn zeta. unfold shift_y.
  match goal with |- (if ?c then _ else _, _, _) = _ => destruct c end; f_equal; f_equal; clearbody yoe; clearbody doe; clearbody era; ring.
Qed.

Lemma of_civil_period y m dd k : of_civil (y + 400 * k) m dd = of_civil y m dd + ERA * k.
Proof.
  unfold of_civil, ERA. cbv zeta.
  destruct (m <=? 2).
  - replace (y + 400 * k - 1) with (y - 1 + k * 400) by ring.
    rewrite Z.div_add by lia.
    replace (y - 1 + k * 400 - ((y - 1) / 400 + k) * 400) with (y - 1 - (y - 1) / 400 * 400) by ring.
    ring.
  - replace (y + 400 * k) with (y + k * 400) by ring.
    rewrite Z.div_add by lia.
    replace (y + k * 400 - (y / 400 + k) * 400) with (y - y / 400 * 400) by ring.
    ring.
Qed.

Lemma is_leap_period y k : is_leap (y + 400 * k) = is_leap y.
Proof.
  unfold is_leap.
  replace (y + 400 * k) with (y + (100 * k) * 4) at 1 by ring.
  replace (y + 400 * k) with (y + (4 * k) * 100) at 1 by ring.
  replace (y + 400 * k) with (y + k * 400) by ring.
  rewrite !Z.mod_add by lia. reflexivity.
Qed.

Lemma dim_period y m k : days_in_month (y + 400 * k) m = days_in_month y m.
Proof. unfold days_in_month. rewrite is_leap_period. reflexivity. Qed.

Lemma next_civil_period t k : next_civil (shift_y t k) = shift_y (next_civil t) k.
Proof.
  destruct t as [[y m] dd]; unfold shift_y, next_civil. rewrite dim_period.
  destruct (dd <? days_in_month y m); [reflexivity|].
  destruct (m <? 12); f_equal; f_equal; ring.
Qed.

(* ------------------------------------------------------------ the sweeps *)

Fixpoint zrange (lo : Z) (n : nat) : list Z :=
  match n with O => [] | S k => lo :: zrange (lo + 1) k end.

Lemma zrange_in lo n x : lo <= x < lo + Z.of_nat n -> In x (zrange lo n).
Proof.
  revert lo; induction n as [|n IH]; intros lo H; cbn [zrange].
  - lia.
  - destruct (Z.eq_dec lo x) as [->|Hne]; [left; reflexivity|right].
    apply IH. lia.
Qed.

Definition day_check (r : Z) : bool :=
  let t := civil r in
  let '(y, m, dd) := t in
  valid_civil_b t && (of_civil y m dd =? r) && triple_eqb (civil (r + 1)) (next_civil t).

Lemma day_sweep : forallb day_check (zrange 0 (Z.to_nat ERA)) = true.
Proof. vm_compute. reflexivity. Qed.

(* every valid (y, m, dd) with 0 <= y < 400 *)
Definition triple_check (y m : Z) (dd : Z) : bool :=
  negb (valid_civil_b (y, m, dd)) || triple_eqb (civil (of_civil y m dd)) (y, m, dd).

Definition year_check (y : Z) : bool :=
  forallb (fun m => forallb (triple_check y m) (zrange 1 31)) (zrange 1 12).

Lemma triple_sweep : forallb year_check (zrange 0 400) = true.
Proof. vm_compute. reflexivity. Qed.

