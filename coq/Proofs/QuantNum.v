(* C09 (b), reports: the decimal operations of the valuation stages respect value equality.
   Mul, Sub, Cmp by values (Proofs/DecValue.v); Truncate and DivRound by the integer arithmetic of
   their definitions: value-equal arguments differ by a power of ten in the coefficient, which
   cancels in big.Int.Quo ([truncate_deqv], [div_deqv]: the quotient of value-equal arguments is
   the same record). *)
From Coq Require Import ZArith QArith List Bool Lia.
From Knut Require Import Model.Str Model.Dec Model.Ledger Model.Price Model.Pipeline.
From Knut Require Import Spec.TableSpec Proofs.DecProofs Proofs.DecEqProofs Proofs.DecValue Proofs.DecNormalForm Proofs.TxnOrder
     Proofs.PrintRequant Proofs.QuantReport.
Import ListNotations.
Open Scope bool_scope.
Open Scope Z_scope.

Lemma deqv_value a b : deqv a b <-> (dvalue a == dvalue b)%Q.
Proof. apply dec_equal_value. Qed.

Lemma mul_deqv a a' b b' : deqv a a' -> deqv b b' -> deqv (mul a b) (mul a' b').
Proof. rewrite !deqv_value, !dvalue_mul. intros -> ->. reflexivity. Qed.

Lemma sub_deqv a a' b b' : deqv a a' -> deqv b b' -> deqv (sub a b) (sub a' b').
Proof. rewrite !deqv_value, !dvalue_sub. intros -> ->. reflexivity. Qed.

Lemma cmp_dec_cmp a b : cmp a b = match dec_cmp a b with Lt => -1 | Eq => 0 | Gt => 1 end.
Proof. unfold dec_cmp, cmp. destruct (rescale_pair a b) as [x y]. destruct (coef x ?= coef y); reflexivity. Qed.

Lemma cmp_deqv a a' b b' : deqv a a' -> deqv b b' -> cmp a b = cmp a' b'.
Proof. intros Ha Hb. rewrite !cmp_dec_cmp, (dec_cmp_eqv_l _ _ _ Ha), (dec_cmp_eqv_r _ _ _ Hb). reflexivity. Qed.

Lemma deqv_sgn a b : deqv a b -> Z.sgn (coef a) = Z.sgn (coef b).
Proof. intros H. apply dec_eqv_sign, eqv_of_deqv, H. Qed.

(* ---- the finer of two value-equal decimals has the coarser one's coefficient times a power of ten ---- *)

Lemma deqv_finer a b : deqv a b -> ex a <= ex b -> coef a = coef b * 10 ^ (ex b - ex a).
Proof.
  intros H L. apply (dec_equal_scaled a b (ex a)) in H; [|lia|lia].
  rewrite scale_to_self in H. unfold scale_to, pow10 in H. exact H.
Qed.

Lemma finer_deqv a b : ex a <= ex b -> coef a = coef b * 10 ^ (ex b - ex a) -> deqv a b.
Proof.
  intros L H. apply (dec_equal_scaled a b (ex a)); [lia|lia|]. rewrite scale_to_self. unfold scale_to, pow10. exact H.
Qed.

Lemma p10_nz k : 0 <= k -> 10 ^ k <> 0.
Proof. intros H. pose proof (Z.pow_pos_nonneg 10 k ltac:(lia) H). lia. Qed.

Lemma p10_split j k : 0 <= j -> 0 <= k -> 10 ^ (j + k) = 10 ^ j * 10 ^ k.
Proof. intros. now apply Z.pow_add_r. Qed.

(* ------------------------------------------------------------------ Truncate *)

Lemma rescale_up d e : ex d < e -> rescale d e = mkDec (coef d ÷ 10 ^ (e - ex d)) e.
Proof.
  intros H. unfold rescale, pow10. replace (ex d =? e) with false by lia. replace (ex d <? e) with true by lia.
  replace (Z.abs (e - ex d)) with (e - ex d) by lia. reflexivity.
Qed.

Lemma truncate_finer a b p : 0 <= p -> deqv a b -> ex a <= ex b -> deqv (truncate a p) (truncate b p).
Proof.
  intros Hp H L. pose proof (deqv_finer a b H L) as Hc. unfold truncate. replace (0 <=? p) with true by lia. cbn [andb].
  destruct (ex b <? - p) eqn:Eb.
  - replace (ex a <? - p) with true by lia. rewrite !rescale_up by lia.
    replace (coef a ÷ 10 ^ (- p - ex a)) with (coef b ÷ 10 ^ (- p - ex b)); [apply deqv_refl|].
    rewrite Hc. replace (- p - ex a) with ((- p - ex b) + (ex b - ex a)) by lia.
    rewrite p10_split by lia. symmetry. apply Z.quot_mul_cancel_r; apply p10_nz; lia.
  - destruct (ex a <? - p) eqn:Ea; [|exact H]. rewrite rescale_up by lia.
    apply finer_deqv; cbn [ex coef]; [lia|]. rewrite Hc.
    replace (ex b - ex a) with ((ex b - - p) + (- p - ex a)) by lia. rewrite p10_split by lia.
    rewrite Z.mul_assoc, Z.quot_mul by (apply p10_nz; lia). reflexivity.
Qed.

Theorem truncate_deqv a b p : 0 <= p -> deqv a b -> deqv (truncate a p) (truncate b p).
Proof.
  intros Hp H. destruct (Z.le_ge_cases (ex a) (ex b)) as [L|G].
  - now apply truncate_finer.
  - apply deqv_sym. apply truncate_finer; [exact Hp|now apply deqv_sym|lia].
Qed.

Lemma multiply_deqv a a' b b' : deqv a a' -> deqv b b' -> deqv (multiply a b) (multiply a' b').
Proof. intros Ha Hb. unfold multiply. apply truncate_deqv; [lia|now apply mul_deqv]. Qed.

(* ------------------------------------------------------------------ QuoRem, DivRound *)

Definition qr_rel (x y : dresult (dec * dec)) : Prop :=
  match x, y with
  | DOk (q, r), DOk (q', r') => q = q' /\ deqv r r'
  | DPanic, DPanic => True
  | _, _ => False
  end.

Lemma qr_rel_sym x y : qr_rel x y -> qr_rel y x.
Proof. destruct x as [[q r]|], y as [[q' r']|]; cbn; try tauto. intros [-> H]. split; [reflexivity|now apply deqv_sym]. Qed.

Lemma qr_rel_trans x y z : qr_rel x y -> qr_rel y z -> qr_rel x z.
Proof.
  destruct x as [[q r]|], y as [[q' r']|], z as [[q'' r'']|]; cbn; try tauto.
  intros [-> H1] [-> H2]. split; [reflexivity|eapply deqv_trans; eassumption].
Qed.

Lemma coef_zero_finer a b : coef a = coef b * 10 ^ (ex b - ex a) -> ex a <= ex b -> (coef a =? 0) = (coef b =? 0).
Proof. intros H L. pose proof (p10_nz (ex b - ex a) ltac:(lia)). destruct (Z.eqb_spec (coef b) 0); nia. Qed.

(* the divisor in a finer representation *)
Lemma quo_rem_den_finer d d2 d2' prec : deqv d2' d2 -> ex d2' <= ex d2 -> qr_rel (quo_rem d d2 prec) (quo_rem d d2' prec).
Proof.
  intros H L. pose proof (deqv_finer d2' d2 H L) as Hc. set (k := ex d2 - ex d2') in *.
  unfold quo_rem. rewrite (coef_zero_finer d2' d2 Hc L).
  destruct (Z.eqb_spec (coef d2) 0) as [Z0|NZ]; [exact I|].
  assert (NZ' : coef d2' <> 0) by (rewrite Hc; pose proof (p10_nz k ltac:(unfold k; lia)); nia).
  set (e := ex d - ex d2 - - prec). replace (ex d - ex d2' - - prec) with (e + k) by (unfold e, k; lia).
  unfold pow10.
  destruct (e <? 0) eqn:E1; destruct (e + k <? 0) eqn:E2; cbn [qr_rel]; try lia.
  - (* both below *)
    replace (coef d2' * 10 ^ (- (e + k))) with (coef d2 * 10 ^ (- e)).
    + split; [reflexivity|apply deqv_refl].
    + rewrite Hc. replace (- e) with (k + - (e + k)) by lia. rewrite p10_split by (unfold k; lia). ring.
  - (* crossing *)
    assert (F : 10 ^ (e + k) <> 0) by (apply p10_nz; lia).
    assert (B : coef d2 * 10 ^ (- e) <> 0) by (pose proof (p10_nz (- e) ltac:(lia)); nia).
    assert (Hbb : coef d2' = coef d2 * 10 ^ (- e) * 10 ^ (e + k)).
    { rewrite Hc. replace k with (- e + (e + k)) at 1 by lia. rewrite p10_split by lia. ring. }
    rewrite Hbb, Z.quot_mul_cancel_r, Z.mul_rem_distr_r by assumption.
    split; [reflexivity|]. apply deqv_sym. apply finer_deqv; cbn [ex coef]; [unfold e, k in *; lia|].
    f_equal. f_equal. unfold e, k. lia.
  - (* both above *)
    assert (F : 10 ^ k <> 0) by (apply p10_nz; unfold k; lia).
    rewrite Hc. rewrite p10_split by (unfold k; lia). rewrite Z.mul_assoc.
    rewrite Z.quot_mul_cancel_r, Z.mul_rem_distr_r by assumption.
    split; [reflexivity|]. apply deqv_sym. apply finer_deqv; cbn [ex coef]; [lia|].
    f_equal. f_equal. unfold k. lia.
Qed.

(* the dividend in a finer representation *)
Lemma quo_rem_num_finer d d' d2 prec : deqv d' d -> ex d' <= ex d -> qr_rel (quo_rem d d2 prec) (quo_rem d' d2 prec).
Proof.
  intros H L. pose proof (deqv_finer d' d H L) as Hc. set (k := ex d - ex d') in *.
  unfold quo_rem. destruct (Z.eqb_spec (coef d2) 0) as [Z0|NZ]; [exact I|].
  set (e := ex d - ex d2 - - prec). replace (ex d' - ex d2 - - prec) with (e - k) by (unfold e, k; lia).
  unfold pow10.
  destruct (e <? 0) eqn:E1; destruct (e - k <? 0) eqn:E2; cbn [qr_rel]; try lia.
  - (* both below *)
    assert (F : 10 ^ k <> 0) by (apply p10_nz; unfold k; lia).
    assert (B : coef d2 * 10 ^ (- e) <> 0) by (pose proof (p10_nz (- e) ltac:(lia)); nia).
    rewrite Hc. replace (- (e - k)) with (- e + k) by lia. rewrite p10_split by (unfold k; lia). rewrite Z.mul_assoc.
    rewrite Z.quot_mul_cancel_r, Z.mul_rem_distr_r by assumption.
    split; [reflexivity|]. apply deqv_sym. apply finer_deqv; cbn [ex coef]; [lia|]. f_equal.
  - (* crossing: e >= 0 > e - k *)
    assert (F : 10 ^ (k - e) <> 0) by (apply p10_nz; lia).
    assert (Haa : coef d' = coef d * 10 ^ e * 10 ^ (k - e)).
    { rewrite Hc. replace k with (e + (k - e)) at 1 by lia. rewrite p10_split by lia. ring. }
    rewrite Haa. replace (- (e - k)) with (k - e) by lia.
    rewrite Z.quot_mul_cancel_r, Z.mul_rem_distr_r by assumption.
    split; [reflexivity|]. apply deqv_sym. apply finer_deqv; cbn [ex coef]; [unfold e, k in *; lia|].
    f_equal. f_equal. unfold e, k. lia.
  - (* both above *)
    replace (coef d' * 10 ^ (e - k)) with (coef d * 10 ^ e).
    + split; [reflexivity|apply deqv_refl].
    + rewrite Hc. replace e with (k + (e - k)) at 1 by lia. rewrite p10_split by (unfold k; lia). ring.
Qed.

Theorem quo_rem_deqv d d' d2 d2' prec : deqv d d' -> deqv d2 d2' -> qr_rel (quo_rem d d2 prec) (quo_rem d' d2' prec).
Proof.
  intros Hd Hd2.
  apply (qr_rel_trans _ (quo_rem d' d2 prec)).
  - destruct (Z.le_ge_cases (ex d') (ex d)) as [L|G].
    + apply quo_rem_num_finer; [now apply deqv_sym|exact L].
    + apply qr_rel_sym. apply quo_rem_num_finer; [exact Hd|lia].
  - destruct (Z.le_ge_cases (ex d2') (ex d2)) as [L|G].
    + apply quo_rem_den_finer; [now apply deqv_sym|exact L].
    + apply qr_rel_sym. apply quo_rem_den_finer; [exact Hd2|lia].
Qed.

Theorem div_round_deqv d d' d2 d2' prec : deqv d d' -> deqv d2 d2' -> div_round d d2 prec = div_round d' d2' prec.
Proof.
  intros Hd Hd2. unfold div_round. pose proof (quo_rem_deqv d d' d2 d2' prec Hd Hd2) as H.
  destruct (quo_rem d d2 prec) as [[q r]|], (quo_rem d' d2' prec) as [[q' r']|]; cbn [qr_rel] in H; try contradiction; [|reflexivity].
  destruct H as [<- Hr].
  assert (Hr2 : deqv (mkDec (Z.abs (coef r) * 2) (ex r + prec)) (mkDec (Z.abs (coef r') * 2) (ex r' + prec))).
  { assert (E : forall x, mkDec (Z.abs (coef x) * 2) (ex x + prec) = mul (dabs x) (mkDec 2 prec)).
    { intros x. unfold mul, dabs. destruct (coef x <? 0) eqn:E; cbn [coef ex]; f_equal; lia. }
    rewrite !E. apply mul_deqv; [now apply deqv_dabs|apply deqv_refl]. }
  rewrite (cmp_deqv _ _ _ _ Hr2 (deqv_dabs _ _ Hd2)), (deqv_sgn _ _ Hd), (deqv_sgn _ _ Hd2). reflexivity.
Qed.

Theorem div_deqv d d' d2 d2' : deqv d d' -> deqv d2 d2' -> div d d2 = div d' d2'.
Proof. apply div_round_deqv. Qed.
