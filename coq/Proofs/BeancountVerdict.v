(* C16: the executable verdict does not see the difference between an amount and the amount as it
   is after a trip through its text (reread): every clause looks at values, never at the
   coefficient/exponent pair.  Hence the verdict on the model's own text is the verdict on the
   erased items.

   Part 1  values: reread keeps the value; greater_than, is_zero, within_bound depend on values only
   Part 2  beancount_check, complete_check, mtm_check on reread entries
   Part 3  the verdict on the model's text *)
From Coq Require Import ZArith QArith Qabs List Bool Lia.
From Knut Require Import Model.Str Model.Dec Model.Date Model.Account Model.Ledger Model.Journal
     Model.Cli Model.Beancount Model.CliTranscode
     Spec.TableSpec Spec.ValuationSpec Spec.BeancountSpec Spec.BeancountErase Spec.BeancountMtmSpec Spec.BeancountLex
     Proofs.DecProofs Proofs.DecValue Proofs.DecNormalForm Proofs.TranscodeMtmSum Proofs.BeancountRead.
Import ListNotations.

(* ================================================================== Part 1 *)
Open Scope Q_scope.

Lemma dec_eqv_value a b : dec_eqv a b -> dvalue a == dvalue b.
Proof.
  unfold dec_eqv, coef_at. intros H. set (m := Z.min (ex a) (ex b)) in *.
  rewrite <- (scale_to_value a m), <- (scale_to_value b m) by (unfold m; lia).
  unfold scale_to, pow10. rewrite H. reflexivity.
Qed.

Lemma reread_value q : dvalue (reread q) == dvalue q.
Proof. apply dec_eqv_value. apply reread_eqv. Qed.

Lemma dvalue_nonpos d : (coef d <= 0)%Z -> dvalue d <= 0.
Proof.
  intros H. unfold dvalue. setoid_replace 0 with (0 * Qpower ten (ex d)) by ring.
  apply Qmult_le_compat_r; [|apply Qlt_le_weak; apply Qpower_ten_pos].
  change 0 with (inject_Z 0). rewrite <- Zle_Qle. exact H.
Qed.

Lemma greater_than_iff x y : greater_than x y = true <-> dvalue y < dvalue x.
Proof.
  split; [apply greater_than_value|].
  intros Hlt. destruct (greater_than x y) eqn:G; [reflexivity|exfalso].
  unfold greater_than, cmp in G.
  assert (Hs : (let '(p, q) := rescale_pair x y in coef p - coef q)%Z = coef (sub x y)).
  { unfold sub. destruct (rescale_pair x y). reflexivity. }
  assert (Hp : (coef (sub x y) <= 0)%Z).
  { rewrite <- Hs. destruct (rescale_pair x y) as [p q].
    destruct (coef p ?= coef q)%Z eqn:E; try discriminate.
    - apply Z.compare_eq in E. lia.
    - rewrite Z.compare_lt_iff in E. lia. }
  apply dvalue_nonpos in Hp. rewrite dvalue_sub in Hp.
  apply (Qlt_irrefl (dvalue y)). apply (Qlt_le_trans _ _ _ Hlt).
  apply (Qplus_le_l _ _ (- dvalue y)). setoid_replace (dvalue y + - dvalue y) with 0 by ring. exact Hp.
Qed.

Lemma greater_than_compat x x' y : dvalue x == dvalue x' -> greater_than x y = greater_than x' y.
Proof.
  intros E. destruct (greater_than x y) eqn:G1, (greater_than x' y) eqn:G2; try reflexivity.
  - apply greater_than_iff in G1. rewrite E in G1. apply greater_than_iff in G1. congruence.
  - apply greater_than_iff in G2. rewrite <- E in G2. apply greater_than_iff in G2. congruence.
Qed.

Lemma within_bound_compat o o' e n : dvalue o == dvalue o' -> within_bound o e n = within_bound o' e n.
Proof.
  intros E. unfold within_bound. f_equal. apply greater_than_compat.
  rewrite !dvalue_dabs, !dvalue_sub, E. reflexivity.
Qed.

Lemma is_zero_compat x y : dvalue x == dvalue y -> is_zero x = is_zero y.
Proof.
  intros E. destruct (is_zero x) eqn:Z1, (is_zero y) eqn:Z2; try reflexivity.
  - apply is_zero_value in Z1. rewrite E in Z1. apply is_zero_value in Z1. congruence.
  - apply is_zero_value in Z2. rewrite <- E in Z2. apply is_zero_value in Z2. congruence.
Qed.

(* ================================================================== Part 2 *)

Lemma account_of_reread x : account_of (reread_sposting x) = account_of x.
Proof. reflexivity. Qed.
Lemma commodity_of_reread x : commodity_of (reread_sposting x) = commodity_of x.
Proof. reflexivity. Qed.
Lemma amount_of_reread x : amount_of (reread_sposting x) = reread (amount_of x).
Proof. reflexivity. Qed.

Lemma sum_amounts_reread ps : forall a a', dvalue a == dvalue a' ->
  dvalue (fold_left (fun acc x => add acc (amount_of x)) (map reread_sposting ps) a)
  == dvalue (fold_left (fun acc x => add acc (amount_of x)) ps a').
Proof.
  induction ps as [|x ps IH]; intros a a' E; cbn [map fold_left]; [exact E|].
  apply IH. rewrite !dvalue_add, amount_of_reread, reread_value, E. reflexivity.
Qed.

Lemma txn_balanced_reread ps : txn_balanced_b (map reread_sposting ps) = txn_balanced_b ps.
Proof. unfold txn_balanced_b, sum_amounts. apply is_zero_compat. apply sum_amounts_reread. reflexivity. Qed.

Lemma entry_date_reread e : entry_date (reread_entry e) = entry_date e.
Proof. destruct e; reflexivity. Qed.
Lemma entry_label_reread e : entry_label (reread_entry e) = entry_label e.
Proof. destruct e; reflexivity. Qed.

Lemma next_state_reread st e : next_state st (reread_entry e) = next_state st e.
Proof. destruct e; reflexivity. Qed.

Lemma flat_map_map {A B C} (f : B -> list C) (g : A -> B) l : flat_map f (map g l) = flat_map (fun x => f (g x)) l.
Proof. induction l as [|x l IH]; [reflexivity|]. cbn [map flat_map]. rewrite IH. reflexivity. Qed.

Lemma forallb_map {A B} (f : B -> bool) (g : A -> B) l : forallb f (map g l) = forallb (fun x => f (g x)) l.
Proof. induction l as [|x l IH]; [reflexivity|]. cbn [map forallb]. rewrite IH. reflexivity. Qed.

Lemma check_entry_reread v st e : check_entry v st (reread_entry e) = check_entry v st e.
Proof.
  unfold check_entry. rewrite entry_date_reread, entry_label_reread, next_state_reread.
  destruct e as [d a|d a|d desc ps]; cbn [reread_entry]; try reflexivity.
  rewrite txn_balanced_reread, forallb_map, flat_map_map. reflexivity.
Qed.

Lemma check_entries_reread v es : forall st, check_entries v st (reread_entries es) = check_entries v st es.
Proof.
  induction es as [|e es IH]; intros st; [reflexivity|].
  unfold reread_entries. cbn [map check_entries]. fold (reread_entries es).
  rewrite check_entry_reread. destruct (check_entry v st e) as [vs st']. rewrite IH. reflexivity.
Qed.

Lemma beancount_check_reread v es : beancount_check v (reread_entries es) = beancount_check v es.
Proof. apply check_entries_reread. Qed.

Lemma entry_keys_reread es : entry_keys (reread_entries es) = entry_keys es.
Proof.
  unfold entry_keys, reread_entries. rewrite flat_map_map. apply flat_map_ext. intros e.
  destruct e as [d a|d a|d desc ps]; cbn [reread_entry]; try reflexivity.
  rewrite map_map. reflexivity.
Qed.

Lemma complete_check_reread sds es : complete_check sds (reread_entries es) = complete_check sds es.
Proof. unfold complete_check. rewrite entry_keys_reread. reflexivity. Qed.

Lemma posting_total_reread name ps : forall a a', dvalue a == dvalue a' ->
  dvalue (fold_left (fun a x => if str_eqb (account_of x) name then add a (amount_of x) else a) (map reread_sposting ps) a)
  == dvalue (fold_left (fun a x => if str_eqb (account_of x) name then add a (amount_of x) else a) ps a').
Proof.
  induction ps as [|x ps IH]; intros a a' E; cbn [map fold_left]; [exact E|].
  apply IH. rewrite account_of_reread. destruct (str_eqb (account_of x) name); [|exact E].
  rewrite !dvalue_add, amount_of_reread, reread_value, E. reflexivity.
Qed.

Lemma ledger_total_fold_reread es name : forall a a', dvalue a == dvalue a' ->
  dvalue (fold_left (fun acc e =>
            match e with
            | ETxn _ _ ps => fold_left (fun a x => if str_eqb (account_of x) name then add a (amount_of x) else a) ps acc
            | _ => acc
            end) (reread_entries es) a)
  == dvalue (fold_left (fun acc e =>
            match e with
            | ETxn _ _ ps => fold_left (fun a x => if str_eqb (account_of x) name then add a (amount_of x) else a) ps acc
            | _ => acc
            end) es a').
Proof.
  induction es as [|e es IH]; intros a a' E; [exact E|].
  unfold reread_entries. cbn [map fold_left]. fold (reread_entries es). apply IH.
  destruct e as [d b|d b|d desc ps]; cbn [reread_entry]; try exact E.
  apply posting_total_reread. exact E.
Qed.

Lemma ledger_total_reread es name : dvalue (ledger_total (reread_entries es) name) == dvalue (ledger_total es name).
Proof. unfold ledger_total. apply ledger_total_fold_reread. reflexivity. Qed.

Lemma mtm_check_reread dl V es : mtm_check dl V (reread_entries es) = mtm_check dl V es.
Proof.
  unfold mtm_check. apply flat_map_ext. intros a.
  destruct (market_value dl V a (last_date dl)) as [e|]; [|reflexivity].
  rewrite (within_bound_compat _ _ e _ (ledger_total_reread es (acc_name a))). reflexivity.
Qed.

(* ================================================================== Part 3 *)
Open Scope Z_scope.

(* the three clauses of c16_verdict_mtm on a list of entries *)
Definition c16_violations (sds : list sdirective) (V : commodity) (es : list sentry) : list violation :=
  beancount_check V es ++ complete_check sds es ++
  match parse_directives sds with MOk dl => mtm_check dl V es | _ => [] end.

Lemma c16_violations_reread sds V es : c16_violations sds V (reread_entries es) = c16_violations sds V es.
Proof.
  unfold c16_violations. rewrite beancount_check_reread, complete_check_reread.
  destruct (parse_directives sds); try reflexivity. rewrite mtm_check_reread. reflexivity.
Qed.

Theorem verdict_on_ledger_text sds v es : commodity_lex_b v = true -> entries_lex_b es = true ->
  c16_verdict_mtm sds v (ledger_text v es) = verdict_of (c16_violations sds v (erase_entries v es)).
Proof.
  intros Hv Hes. unfold c16_verdict_mtm. rewrite (read_ledger_text v es Hv Hes).
  fold (c16_violations sds v (reread_entries (erase_entries v es))). rewrite c16_violations_reread. reflexivity.
Qed.

Theorem verdict_on_model_text sds v days : commodity_lex_b v = true ->
  entries_lex_b (transcode_entries days []) = true ->
  c16_verdict_mtm sds v (transcode days v)
  = verdict_of (c16_violations sds v (erase_entries v (transcode_entries days []))).
Proof. intros Hv Hes. rewrite transcode_is_ledger_text. apply verdict_on_ledger_text; assumption. Qed.
