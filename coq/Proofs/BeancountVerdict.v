(* C16: the executable verdict does not see the difference between an amount and the amount as it
   is after a trip through its text (reread): every clause looks at values, never at the
   coefficient/exponent pair.  Hence the verdict on the model's own text is the verdict on the
   erased items.

   Part 1  values: reread keeps the value; greater_than, is_zero, within_bound depend on values only
   Part 2  beancount_check, complete_check, mtm_check on reread entries
   Part 3  the verdict on the model's text *)
From Coq Require Import ZArith QArith Qabs List Bool Lia.
From Knut Require Import Model.Str Model.Dec Model.Date Model.Account Model.Ledger Model.Journal
     Model.Cli Model.Beancount Model.CliTranscode
     Spec.TableSpec Spec.ValuationSpec Spec.BeancountSpec Spec.BeancountErase Spec.BeancountMtmSpec Spec.BeancountLex
     Proofs.DecProofs Proofs.DecValue Proofs.DecNormalForm Proofs.TranscodeMtmSum Proofs.BeancountRead.
Import ListNotations.

(* ================================================================== Part 1 *)
Open Scope Q_scope.

Lemma dec_eqv_value a b : dec_eqv a b -> dvalue a == dvalue b.
Proof.
  unfold dec_eqv, coef_at. intros H. set (m := Z.min (ex a) (ex b)) in *.
  rewrite <- (scale_to_value a m), <- (scale_to_value b m) by (unfold m; lia).
  unfold scale_to, pow10. rewrite H. reflexivity.
Qed.

Lemma reread_value q : dvalue (reread q) == dvalue q.
Proof. apply dec_eqv_value. apply reread_eqv. Qed.

Lemma dvalue_nonpos d : (coef d <= 0)%Z -> dvalue d <= 0.
Proof.
  intros H. unfold dvalue. setoid_replace 0 with (0 * Qpower ten (ex d)) by ring.
  apply Qmult_le_compat_r; [|apply Qlt_le_weak; apply Qpower_ten_pos].
  change 0 with (inject_Z 0). rewrite <- Zle_Qle. exact H.
Qed.

Lemma greater_than_iff x y : greater_than x y = true <-> dvalue y < dvalue x.
Proof.
  split; [apply greater_than_value|].
  intros Hlt. destruct (greater_than x y) eqn:G; [reflexivity|exfalso].
  unfold greater_than, cmp in G.
  assert (Hs : (let '(p, q) := rescale_pair x y in coef p - coef q)%Z = coef (sub x y)).
  { unfold sub. destruct (rescale_pair x y). reflexivity. }
  assert (Hp : (coef (sub x y) <= 0)%Z).
  { rewrite <- Hs. destruct (rescale_pair x y) as [p q].
    destruct (coef p ?= coef q)%Z eqn:E; try discriminate.
    - apply Z.compare_eq in E. lia.
    - rewrite Z.compare_lt_iff in E. lia. }
  apply dvalue_nonpos in Hp. rewrite dvalue_sub in Hp.
  apply (Qlt_irrefl (dvalue y)). apply (Qlt_le_trans _ _ _ Hlt).
  apply (Qplus_le_l _ _ (- dvalue y)). setoid_replace (dvalue y + - dvalue y) with 0 by ring. exact Hp.
Qed.

Lemma greater_than_compat x x' y : dvalue x == dvalue x' -> greater_than x y = greater_than x' y.
Proof.
  intros E. destruct (greater_than x y) eqn:G1, (greater_than x' y) eqn:G2; try reflexivity.
  - apply greater_than_iff in G1. rewrite E in G1. apply greater_than_iff in G1. congruence.
  - apply greater_than_iff in G2. rewrite <- E in G2. apply greater_than_iff in G2. congruence.
Qed.

Lemma within_bound_compat o o' e n : dvalue o == dvalue o' -> within_bound o e n = within_bound o' e n.
Proof.
  intros E. unfold within_bound. f_equal. apply greater_than_compat.
  rewrite !dvalue_dabs, !dvalue_sub, E. reflexivity.
Qed.

Lemma is_zero_compat x y : dvalue x == dvalue y -> is_zero x = is_zero y.
Proof.
  intros E. destruct (is_zero x) eqn:Z1, (is_zero y) eqn:Z2; try reflexivity.
  - apply is_zero_value in Z1. rewrite E in Z1. apply is_zero_value in Z1. congruence.
  - apply is_zero_value in Z2. rewrite <- E in Z2. apply is_zero_value in Z2. congruence.
Qed.

(* ================================================================== Part 2 *)

Lemma account_of_reread x : account_of (reread_sposting x) = account_of x.
Proof. reflexivity. Qed.
Lemma commodity_of_reread x : commodity_of (reread_sposting x) = commodity_of x.
Proof. reflexivity. Qed.
Lemma amount_of_reread x : amount_of (reread_sposting x) = reread (amount_of x).
Proof. reflexivity. Qed.

Lemma sum_amounts_reread ps : forall a a', dvalue a == dvalue a' ->
  dvalue (fold_left (fun acc x => add acc (amount_of x)) (map reread_sposting ps) a)
  == dvalue (fold_left (fun acc x => add acc (amount_of x)) ps a').
Proof.
  induction ps as [|x ps IH]; intros a a' E; cbn [map fold_left]; [exact E|].
  apply IH. rewrite !dvalue_add, amount_of_reread, reread_value, E. reflexivity.
Qed.

Lemma txn_balanced_reread ps : txn_balanced_b (map reread_sposting ps) = txn_balanced_b ps.
Proof. unfold txn_balanced_b, sum_amounts. apply is_zero_compat. apply sum_amounts_reread. reflexivity. Qed.

Lemma entry_date_reread e : entry_date (reread_entry e) = entry_date e.
Proof. destruct e; reflexivity. Qed.
Lemma entry_label_reread e : entry_label (reread_entry e) = entry_label e.
Proof. destruct e; reflexivity. Qed.

Lemma next_state_reread st e : next_state st (reread_entry e) = next_state st e.
Proof. destruct e; reflexivity. Qed.

Lemma flat_map_map {A B C} (f : B -> list C) (g : A -> B) l : flat_map f (map g l) = flat_map (fun x => f (g x)) l.
Proof. induction l as [|x l IH]; [reflexivity|]. cbn [map flat_map]. rewrite IH. reflexivity. Qed.

Lemma forallb_map {A B} (f : B -> bool) (g : A -> B) l : forallb f (map g l) = forallb (fun x => f (g x)) l.
Proof. induction l as [|x l IH]; [reflexivity|]. cbn [map forallb]. rewrite IH. reflexivity. Qed.

Lemma check_entry_reread v st e : check_entry v st (reread_entry e) = check_entry v st e.
Proof.
  unfold check_entry. rewrite entry_date_reread, entry_label_reread, next_state_reread.
  destruct e as [d a|d a|d desc ps]; cbn [reread_entry]; try reflexivity.
  rewrite txn_balanced_reread, forallb_map, flat_map_map. reflexivity.
Qed.

Lemma check_entries_reread v es : forall st, check_entries v st (reread_entries es) = check_entries v st es.
Proof.
  induction es as [|e es IH]; intros st; [reflexivity|].
  unfold reread_entries. cbn [map check_entries]. fold (reread_entries es).
  rewrite check_entry_reread. destruct (check_entry v st e) as [vs st']. rewrite IH. reflexivity.
Qed.

Lemma beancount_check_reread v es : beancount_check v (reread_entries es) = beancount_check v es.
Proof. apply check_entries_reread. Qed.

Lemma entry_keys_reread es : entry_keys (reread_entries es) = entry_keys es.
Proof.
  unfold entry_keys, reread_entries. rewrite flat_map_map. apply flat_map_ext. intros e.
  destruct e as [d a|d a|d desc ps]; cbn [reread_entry]; try reflexivity.
  rewrite map_map. reflexivity.
Qed.

Lemma complete_check_reread sds es : complete_check sds (reread_entries es) = complete_check sds es.
Proof. unfold complete_check. rewrite entry_keys_reread. reflexivity. Qed.

Lemma posting_total_reread name ps : forall a a', dvalue a == dvalue a' ->
  dvalue (fold_left (fun a x => if str_eqb (account_of x) name then add a (amount_of x) else a) (map reread_sposting ps) a)
  == dvalue (fold_left (fun a x => if str_eqb (account_of x) name then add a (amount_of x) else a) ps a').
Proof.
  induction ps as [|x ps IH]; intros a a' E; cbn [map fold_left]; [exact E|].
  apply IH. rewrite account_of_reread. destruct (str_eqb (account_of x) name); [|exact E].
  rewrite !dvalue_add, amount_of_reread, reread_value, E. reflexivity.
Qed.

Lemma ledger_total_fold_reread es name : forall a a', dvalue a == dvalue a' ->
  dvalue (fold_left (fun acc e =>
            match e with
            | ETxn _ _ ps => fold_left (fun a x => if str_eqb (account_of x) name then add a (amount_of x) else a) ps acc
            | _ => acc
            end) (reread_entries es) a)
  == dvalue (fold_left (fun acc e =>
            match e with
            | ETxn _ _ ps => fold_left (fun a x => if str_eqb (account_of x) name then add a (amount_of x) else a) ps acc
            | _ => acc
            end) es a').
Proof.
  induction es as [|e es IH]; intros a a' E; [exact E|].
  unfold reread_entries. cbn [map fold_left]. fold (reread_entries es). apply IH.
  destruct e as [d b|d b|d desc ps]; cbn [reread_entry]; try exact E.
  apply posting_total_reread. exact E.
Qed.

Lemma ledger_total_reread es name : dvalue (ledger_total (reread_entries es) name) == dvalue (ledger_total es name).
Proof. unfold ledger_total. apply ledger_total_fold_reread. reflexivity. Qed.

Lemma mtm_check_reread dl V es : mtm_check dl V (reread_entries es) = mtm_check dl V es.
Proof.
  unfold mtm_check. apply flat_map_ext. intros a.
  destruct (market_value dl V a (last_date dl)) as [e|]; [|reflexivity].
  rewrite (within_bound_compat _ _ e _ (ledger_total_reread es (acc_name a))). reflexivity.
Qed.

(* ================================================================== Part 3 *)
Open Scope Z_scope.

(* the three clauses of c16_verdict_mtm on a list of entries *)
Definition c16_violations (sds : list sdirective) (V : commodity) (es : list sentry) : list violation :=
  beancount_check V es ++ complete_check sds es ++
  match parse_directives sds with MOk dl => mtm_check dl V es | _ => [] end.

Lemma c16_violations_reread sds V es : c16_violations sds V (reread_entries es) = c16_violations sds V es.
Proof.
  unfold c16_violations. rewrite beancount_check_reread, complete_check_reread.
  destruct (parse_directives sds); try reflexivity. rewrite mtm_check_reread. reflexivity.
Qed.

Theorem verdict_on_ledger_text sds v es : commodity_lex_b v = true -> entries_lex_b es = true ->
  c16_verdict_mtm sds v (ledger_text v es) = verdict_of (c16_violations sds v (erase_entries v es)).
Proof.
  intros Hv Hes. unfold c16_verdict_mtm. rewrite (read_ledger_text v es Hv Hes).
  fold (c16_violations sds v (reread_entries (erase_entries v es))). rewrite c16_violations_reread. reflexivity.
Qed.

Theorem verdict_on_model_text sds v days : commodity_lex_b v = true ->
  entries_lex_b (transcode_entries days []) = true ->
  c16_verdict_mtm sds v (transcode days v)
  = verdict_of (c16_violations sds v (erase_entries v (transcode_entries days []))).
Proof. intros Hv Hes. rewrite transcode_is_ledger_text. apply verdict_on_ledger_text; assumption. Qed.

(* ================================================================== Part 4 *)
(* what the existing theorems give about the violations on the model's items: the clauses order,
   unbalanced and commodity of beancount_check find nothing; what is left are posting violations
   (an account without an open directive in force) *)
From Coq Require Import Sorted.
From Knut Require Import Proofs.CalendarSweep Proofs.CalendarProofs Proofs.DateProofs.

Definition posting_kind (x : violation) : Prop :=
  v_kind x = k_unopened \/ v_kind x = k_use_after_close \/ v_kind x = k_unopened_val \/ v_kind x = k_closed_val.

Lemma check_posting_kind st date desc x : Forall posting_kind (check_posting st date desc x).
Proof.
  unfold check_posting. destruct (mem_dated (account_of x) date (st_open st)); [constructor|].
  destruct (valuation_posting st desc (account_of x)).
  - constructor; [|constructor]. unfold posting_kind. cbn [v_kind].
    destruct (mem (account_of x) (st_closed st)); auto.
  - destruct (mem (account_of x) (st_closed st)); (constructor; [|constructor]); unfold posting_kind; cbn [v_kind]; auto.
Qed.

Definition entry_commodity_ok (v : str) (e : sentry) : Prop :=
  match e with ETxn _ _ ps => forallb (fun x => commodity_ok v (commodity_of x)) ps = true | _ => True end.

Lemma check_entries_posting_only v es : forall st,
  StronglySorted Z.le (map entry_date es) -> Forall (fun e => st_last st <= entry_date e) es ->
  Forall entry_balanced es -> Forall (entry_commodity_ok v) es ->
  Forall posting_kind (check_entries v st es).
Proof.
  induction es as [|e es IH]; intros st Hs Hl Hb Hc; cbn [check_entries]; [constructor|].
  inversion Hl as [|? ? Hl1 Hl2]; subst. inversion Hb as [|? ? Hb1 Hb2]; subst. inversion Hc as [|? ? Hc1 Hc2]; subst.
  cbn [map] in Hs. inversion Hs as [|? ? Hs1 Hs2]; subst.
  unfold check_entry.
  replace (entry_date e <? st_last st) with false by (symmetry; apply Z.ltb_ge; exact Hl1).
  cbn [app]. apply Forall_app. split.
  - destruct e as [d a|d a|d desc ps]; try constructor.
    cbn [entry_balanced] in Hb1. cbn [entry_commodity_ok] in Hc1. rewrite Hb1, Hc1. cbn [app].
    apply Forall_forall. intros x Hx. apply in_flat_map in Hx. destruct Hx as (p & _ & Hx).
    pose proof (check_posting_kind st (entry_date (ETxn d desc ps)) desc p) as H. rewrite Forall_forall in H. exact (H x Hx).
  - apply IH; try assumption.
    assert (E : st_last (next_state st e) = Z.max (entry_date e) (st_last st)) by (destruct e; reflexivity).
    rewrite E. rewrite Forall_forall in Hs2 |- *. intros e' He'.
    assert (entry_date e <= entry_date e') by (apply Hs2; apply in_map; exact He'). lia.
Qed.

(* the commodity the writer prints *)
Lemma all_ascii_strip v : all_ascii_letters (strip_non_alphanum v) = true.
Proof.
  induction v as [|b v IH]; [reflexivity|]. cbn [strip_non_alphanum].
  destruct (is_ascii_letter b) eqn:E; [cbn [all_ascii_letters forallb]; unfold is_ascii_letter in E; rewrite E; exact IH|].
  destruct (is_continuation b); [exact IH|]. cbn [all_ascii_letters forallb]. exact IH.
Qed.

Lemma strip_letters v : all_ascii_letters v = true -> strip_non_alphanum v = v.
Proof.
  induction v as [|b v IH]; [reflexivity|]. cbn [all_ascii_letters forallb]. rewrite andb_true_iff. intros [Hb Hv].
  cbn [strip_non_alphanum]. unfold is_ascii_letter. rewrite Hb. f_equal. apply IH. exact Hv.
Qed.

Lemma strip_length v : (length (strip_non_alphanum v) <= length v)%nat.
Proof.
  induction v as [|b v IH]; [reflexivity|]. cbn [strip_non_alphanum].
  destruct (is_ascii_letter b); [cbn [length]; lia|]. destruct (is_continuation b); cbn [length]; lia.
Qed.

Lemma commodity_ok_strip v : commodity_ok v (strip_non_alphanum v) = true.
Proof.
  unfold commodity_ok. destruct (all_ascii_letters v) eqn:E.
  - rewrite (strip_letters v E). apply str_eqb_same.
  - rewrite all_ascii_strip. cbn [andb]. apply Z.leb_le. pose proof (strip_length v). lia.
Qed.

Lemma erased_commodity_ok v es : Forall (entry_commodity_ok v) (erase_entries v es).
Proof.
  unfold erase_entries. apply Forall_forall. intros e He. apply in_map_iff in He. destruct He as (b & <- & _).
  destruct b as [d a|d a|t]; cbn [erase_entry entry_commodity_ok]; try exact I.
  apply forallb_forall. intros x Hx. apply in_map_iff in Hx. destruct Hx as (p & <- & _).
  unfold erase_posting, commodity_of. cbn [snd]. apply commodity_ok_strip.
Qed.

(* the least date of the years 0000..9999 *)
Lemma date_lex_min d : date_lex_b d = true -> min_date <= d.
Proof.
  unfold date_lex_b, min_date. rewrite andb_true_iff, Z.leb_le. intros [Hy _].
  destruct (Z_le_gt_dec (-366) d) as [H|H]; [exact H|exfalso].
  assert (Hle : d <= -367) by lia. pose proof (civil_le_mono d (-367) Hle) as Hc.
  unfold year_of in Hy. change (civil (-367)) with (-1, 12, 31) in Hc.
  destruct (civil d) as [[y m] dd]. cbn [fst] in Hy. destruct Hc as [Hc|Hc].
  - inversion Hc. lia.
  - cbn [lex_lt] in Hc. lia.
Qed.

Lemma entries_lex_min v es : entries_lex_b es = true -> Forall (fun e => min_date <= entry_date e) (erase_entries v es).
Proof.
  unfold entries_lex_b, erase_entries. rewrite forallb_forall. intros H. apply Forall_forall. intros e He.
  apply in_map_iff in He. destruct He as (b & <- & Hb). specialize (H b Hb).
  destruct b as [d a|d a|t]; cbn [entry_lex_b erase_entry entry_date] in *; rewrite ?andb_true_iff in H;
    apply date_lex_min; tauto.
Qed.

Theorem beancount_check_posting_only v es :
  entries_lex_b es = true ->
  StronglySorted Z.le (map entry_date (erase_entries v es)) ->
  Forall entry_balanced (erase_entries v es) ->
  Forall posting_kind (beancount_check v (erase_entries v es)).
Proof.
  intros Hlex Hs Hb. unfold beancount_check. apply check_entries_posting_only; try assumption.
  - exact (entries_lex_min v es Hlex).
  - apply erased_commodity_ok.
Qed.
