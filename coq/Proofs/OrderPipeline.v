(* C05: the stages of `knut balance` after the checker -- ComputePrices, Valuate, Filter,
   CloseAccounts -- map equivalent day lists to equivalent day lists (or fail on both).
   States are sorted maps, so "the same state" is Leibniz equality; the transactions a stage
   appends (value adjustments, closings) are functions of such a map and of the date. *)
From Coq Require Import ZArith List Bool Lia Permutation.
From Knut Require Import Model.Str Model.Dec Model.Date Model.Account Model.Ledger Model.Price Model.Journal
     Model.Check Model.Pipeline Spec.WellformedSpec Proofs.DecProofs Proofs.CheckLemmas Proofs.CheckProofs
     Proofs.CheckPerm Proofs.OrderSMap Proofs.OrderProofs Proofs.OrderStages.
Import ListNotations.
Open Scope bool_scope.
Open Scope Z_scope.

Ltac proc_fields :=
  cbn [compute_prices_proc valuate_proc filter_proc close_proc query_proc
       pr_day_start pr_price pr_open pr_txn pr_posting pr_balance pr_close pr_day_end].

(* ------------------------------------------------------------------ ComputePrices *)

(* the property's exclusion: two price declarations of one day for the same (unordered)
   commodity pair are the same declaration *)
Definition same_pair (x y : commodity * dec * commodity) : Prop :=
  let '(c, _, t) := x in let '(c', _, t') := y in (c = c' /\ t = t') \/ (c = t' /\ t = c').

Definition prices_consistent (l : list (commodity * dec * commodity)) : Prop :=
  forall x y, In x l -> In y l -> same_pair x y -> x = y.

Lemma add_price_comm ps t1 c1 p1 t2 c2 p2 :
  (t1 <> t2 \/ c1 <> c2) ->
  add_price (add_price ps t1 c1 p1) t2 c2 p2 = add_price (add_price ps t2 c2 p2) t1 c1 p1.
Proof.
  intros H. unfold add_price. destruct (SMapProofs.str_eq_dec t1 t2) as [E|N].
  - subst t2. destruct H as [H|H]; [contradiction|].
    rewrite !SMapProofs.sm_get_put_same, !sm_put_put_same. f_equal. apply sm_put_comm. exact H.
  - rewrite (SMapProofs.sm_get_put_other ps t1 _ t2) by congruence.
    rewrite (SMapProofs.sm_get_put_other ps t2 _ t1) by congruence.
    apply sm_put_comm. exact N.
Qed.

(* Prices.Insert: whether it fails depends on the price alone *)
Definition price_pre (p : dec) : presult dec :=
  if is_zero p then RErr k_price_zero [] else match div one p with DPanic => RPanic k_price_zero | DOk inv => ROk (truncate inv 8) end.

Definition price_upd (ps : prices) (x : commodity * dec * commodity) (inv : dec) : prices :=
  let '(c, p, t) := x in add_price (add_price ps t c p) c t inv.

Lemma cp_price_cb_eq s x :
  cp_price_cb s x =
  match price_pre (snd (fst x)) with
  | ROk inv => ROk (mkCp (price_upd (cp_prices s) x inv) (cp_previous s))
  | RErr k _ => RErr k (fst (fst x))
  | RPanic m => RPanic m
  end.
Proof.
  destruct x as [[c p] t]. unfold cp_price_cb, prices_insert, price_pre, price_upd. cbn [fst snd].
  destruct (is_zero p); [reflexivity|]. destruct (div one p); reflexivity.
Qed.

Lemma price_upd_comm ps x y ix iy :
  ~ same_pair x y -> price_upd (price_upd ps x ix) y iy = price_upd (price_upd ps y iy) x ix.
Proof.
  destruct x as [[c p] t], y as [[c' p'] t']. unfold same_pair, price_upd. intros H.
  assert (H1 : t <> t' \/ c <> c').
  { destruct (SMapProofs.str_eq_dec t t'); [|tauto]. destruct (SMapProofs.str_eq_dec c c'); [|tauto]. exfalso. apply H. tauto. }
  assert (H2 : t <> c' \/ c <> t').
  { destruct (SMapProofs.str_eq_dec t c'); [|tauto]. destruct (SMapProofs.str_eq_dec c t'); [|tauto]. exfalso. apply H. tauto. }
  assert (H3 : c <> t' \/ t <> c') by tauto.
  assert (H4 : c <> c' \/ t <> t') by tauto.
  (* x writes (t,c) then (c,t); y writes (t',c') then (c',t') *)
  rewrite (add_price_comm (add_price ps t c p) c t ix t' c' p') by exact H3.
  rewrite (add_price_comm ps t c p t' c' p') by exact H1.
  rewrite (add_price_comm (add_price (add_price ps t' c' p') t c p) c t ix c' t' iy) by exact H4.
  rewrite (add_price_comm (add_price ps t' c' p') t c p c' t' iy) by exact H2.
  reflexivity.
Qed.

Lemma cp_price_comm s x y :
  (same_pair x y -> x = y) ->
  req eq (rbind (cp_price_cb s x) (fun s1 => cp_price_cb s1 y)) (rbind (cp_price_cb s y) (fun s1 => cp_price_cb s1 x)).
Proof.
  intros H. rewrite (cp_price_cb_eq s x), (cp_price_cb_eq s y).
  destruct (price_pre (snd (fst x))) as [ix| |] eqn:Ex, (price_pre (snd (fst y))) as [iy| |] eqn:Ey; cbn [rbind];
    rewrite ?cp_price_cb_eq, ?Ex, ?Ey; cbn [req cp_prices cp_previous]; try exact I.
  f_equal.
  assert (D : x = y \/ ~ same_pair x y).
  { destruct x as [[c p] t], y as [[c' p'] t']. unfold same_pair in *.
    destruct (SMapProofs.str_eq_dec c c'), (SMapProofs.str_eq_dec t t'), (SMapProofs.str_eq_dec c t'), (SMapProofs.str_eq_dec t c');
      try (left; apply H; tauto); right; tauto. }
  destruct D as [->|D]; [congruence|]. apply price_upd_comm. exact D.
Qed.

Lemma prices_consistent_perm l1 l2 : Permutation l1 l2 -> prices_consistent l1 -> prices_consistent l2.
Proof.
  intros P H x y Hx Hy. apply H; eapply Permutation_in; try (apply Permutation_sym; eassumption); assumption.
Qed.

Definition DIcp (d1 d2 : day) : Prop := DIok d1 d2 /\ prices_consistent (d_prices d1).

Lemma set_normalized_equiv d1 d2 n : day_equiv d1 d2 -> day_equiv (set_normalized d1 n) (set_normalized d2 n).
Proof. intros (E0 & E1 & E2 & E3 & E4 & E5 & E6). repeat split; assumption. Qed.

Lemma set_txns_equiv d1 d2 t1 t2 : day_equiv d1 d2 -> Permutation t1 t2 -> day_equiv (set_txns d1 t1) (set_txns d2 t2).
Proof. intros (E0 & E1 & E2 & E3 & E4 & E5 & E6) P. repeat split; assumption. Qed.

Lemma day_eta d : mkDay (d_date d) (d_prices d) (d_opens d) (d_txns d) (d_asserts d) (d_closes d) (d_normalized d) = d.
Proof. destruct d; reflexivity. Qed.

Lemma cp_day_rel v s1 s2 d1 d2 :
  s1 = s2 -> DIcp d1 d2 ->
  req (fun a b => fst a = fst b /\ DIok (snd a) (snd b))
      (process_day (compute_prices_proc v) s1 d1) (process_day (compute_prices_proc v) s2 d2).
Proof.
  intros <- [[De Hok] Hc]. pose proof De as (E0 & E1 & E2 & E3 & E4 & E5 & E6).
  unfold process_day. proc_fields. cbn [rbind fst snd].
  eapply req_bind.
  { apply (fold_res_perm eq cp_price_cb (fun x => In x (d_prices d1))).
    - intros; congruence.
    - intros s s' a _ <-. apply req_refl. reflexivity.
    - intros s a b Ha Hb _. apply cp_price_comm. apply Hc; assumption.
    - exact E1.
    - apply Forall_forall. auto.
    - reflexivity.
    - reflexivity. }
  intros a1 a2 <-. rewrite !fold_txns_none by reflexivity. cbn [rbind fst snd].
  rewrite !fold_asserts_none by reflexivity. cbn [rbind]. rewrite !day_eta.
  unfold cp_day_end.
  destruct (d_prices d1) as [|x1 r1] eqn:P1, (d_prices d2) as [|x2 r2] eqn:P2.
  - cbn [req fst snd]. split; [reflexivity|]. split; [apply set_normalized_equiv; exact De|exact Hok].
  - apply Permutation_nil in E1. discriminate.
  - apply Permutation_sym, Permutation_nil in E1. discriminate.
  - destruct (normalize (cp_prices a1) v); cbn [req fst snd]; [|exact I].
    split; [reflexivity|]. split; [apply set_normalized_equiv; exact De|exact Hok].
Qed.

Theorem cp_stage_rel v s l1 l2 :
  Forall2 DIcp l1 l2 ->
  req (fun a b => fst a = fst b /\ Forall2 DIok (snd a) (snd b))
      (process_days (compute_prices_proc v) s l1) (process_days (compute_prices_proc v) s l2).
Proof.
  intros HF. apply (process_days_rel (compute_prices_proc v) eq DIcp DIok); [|exact HF|reflexivity].
  intros; apply cp_day_rel; assumption.
Qed.

(* ------------------------------------------------------------------ position maps *)

Definition pos_accs_ok (m : positions) : Prop := forall k a c q, In (k, (a, c, q)) m -> account_ok a = true.

Lemma sm_put_in {V} (m : smap V) k v x : In x (sm_put m k v) -> x = (k, v) \/ In x m.
Proof.
  induction m as [|[k0 v0] m IH]; cbn [sm_put].
  - intros [H|[]]; auto.
  - destruct (str_cmp k k0); cbn [In].
    + intros [H|H]; auto.
    + intros [H|H]; auto.
    + intros [H|H]; [auto|]. destruct (IH H); auto.
Qed.

Lemma pos_add_accs_ok m a c q : account_ok a = true -> pos_accs_ok m -> pos_accs_ok (pos_add m a c q).
Proof.
  intros Ha Hm k a' c' q' Hin. unfold pos_add in Hin. apply sm_put_in in Hin. destruct Hin as [E|Hin].
  - inversion E; subst. exact Ha.
  - eapply Hm; eassumption.
Qed.

Lemma pair_build_accs cr db com q v p : In p (pair_build cr db com q v) -> p_acc p = cr \/ p_acc p = db.
Proof.
  unfold pair_build. destruct (is_neg q || is_zero q && is_neg v); cbn [In]; intros [<-|[<-|[]]]; cbn [p_acc]; auto.
Qed.

Lemma account_ok_valuation a : account_ok a = true -> account_ok (valuation_account_for a) = true.
Proof.
  unfold account_ok, valuation_account_for. intros H. apply andb_true_iff in H. destruct H as [H1 H2].
  destruct a as [|s tail]; [discriminate|]. cbn [tl valid_account forallb] in *.
  apply andb_true_iff in H1. destruct H1 as [_ H1]. apply andb_true_iff in H2. destruct H2 as [_ H2].
  rewrite H1, H2. reflexivity.
Qed.

Lemma account_ok_equity : account_ok equity_account = true.
Proof. reflexivity. Qed.

(* ------------------------------------------------------------------ Valuate *)

Definition val_check (v : commodity) (cur : option nprices) (p : posting) : presult dec :=
  if is_zero (p_qty p) then ROk (p_val p)
  else if str_eqb v (p_com p) then ROk (p_qty p)
  else match cur with
       | None => RErr k_no_price (p_com p)
       | Some n => match np_valuate n (p_com p) (p_qty p) with None => RErr k_no_price (p_com p) | Some x => ROk x end
       end.

Definition val_upd (s : val_state) (p : posting) : val_state :=
  if is_zero (p_qty p) then s
  else if is_AL (p_acc p) then mkVal (v_prev s) (v_cur s) (pos_add (v_qty s) (p_acc p) (p_com p) (p_qty p)) else s.

Definition set_val (p : posting) (x : dec) : posting := mkPosting (p_acc p) (p_other p) (p_com p) (p_qty p) x.

Definition val_g (v : commodity) (cur : option nprices) (p : posting) : posting :=
  match val_check v cur p with ROk x => set_val p x | _ => p end.

Lemma val_posting_eq v s t p :
  val_posting v s t p =
  match val_check v (v_cur s) p with
  | ROk x => ROk (val_upd s p, set_val p x)
  | RErr k d => RErr k d
  | RPanic m => RPanic m
  end.
Proof.
  unfold val_posting, val_check, val_upd, set_val. destruct (is_zero (p_qty p)); [destruct p; reflexivity|].
  destruct (str_eqb v (p_com p)); [reflexivity|].
  destruct (v_cur s) as [n|]; [|reflexivity]. destruct (np_valuate n (p_com p) (p_qty p)); reflexivity.
Qed.

Lemma val_upd_cur s p : v_cur (val_upd s p) = v_cur s.
Proof. unfold val_upd. destruct (is_zero (p_qty p)); [reflexivity|]. destruct (is_AL (p_acc p)); reflexivity. Qed.

Lemma val_pstep_eq v s tp :
  pstep (val_posting v) s tp =
  match val_check v (v_cur s) (snd tp) with
  | ROk _ => ROk (val_upd s (snd tp))
  | RErr k d => RErr k d
  | RPanic m => RPanic m
  end.
Proof. unfold pstep. rewrite val_posting_eq. destruct (val_check v (v_cur s) (snd tp)); reflexivity. Qed.

Definition Rval (s s' : val_state) : Prop := s = s' /\ pos_accs_ok (v_qty s).

Lemma val_upd_accs s p : account_ok (p_acc p) = true -> pos_accs_ok (v_qty s) -> pos_accs_ok (v_qty (val_upd s p)).
Proof.
  intros Ha Hs. unfold val_upd. destruct (is_zero (p_qty p)); [exact Hs|].
  destruct (is_AL (p_acc p)); [|exact Hs]. cbn [v_qty]. apply pos_add_accs_ok; assumption.
Qed.

Lemma val_upd_comm s x y :
  account_ok (p_acc x) = true -> account_ok (p_acc y) = true ->
  val_upd (val_upd s x) y = val_upd (val_upd s y) x.
Proof.
  intros Hx Hy. unfold val_upd.
  destruct (is_zero (p_qty x)), (is_zero (p_qty y)); try reflexivity;
    destruct (is_AL (p_acc x)), (is_AL (p_acc y)); try reflexivity.
  cbn [v_prev v_cur v_qty]. f_equal. apply pos_add_comm; assumption.
Qed.

Lemma val_pstep_resp v s s' tp :
  account_ok (p_acc (snd tp)) = true -> Rval s s' -> req Rval (pstep (val_posting v) s tp) (pstep (val_posting v) s' tp).
Proof.
  intros Ha [<- Hs]. rewrite val_pstep_eq. destruct (val_check v (v_cur s) (snd tp)); cbn [req]; try exact I.
  split; [reflexivity|apply val_upd_accs; assumption].
Qed.

Lemma val_pstep_comm v s x y :
  account_ok (p_acc (snd x)) = true -> account_ok (p_acc (snd y)) = true -> Rval s s ->
  req Rval (rbind (pstep (val_posting v) s x) (fun s1 => pstep (val_posting v) s1 y))
           (rbind (pstep (val_posting v) s y) (fun s1 => pstep (val_posting v) s1 x)).
Proof.
  intros Hx Hy [_ Hs]. rewrite !val_pstep_eq.
  destruct (val_check v (v_cur s) (snd x)) eqn:Ex, (val_check v (v_cur s) (snd y)) eqn:Ey; cbn [rbind];
    rewrite ?val_pstep_eq, ?val_upd_cur, ?Ex, ?Ey; cbn [req]; try exact I.
  split; [apply val_upd_comm; assumption|]. apply val_upd_accs; [assumption|]. apply val_upd_accs; assumption.
Qed.

Lemma val_g_acc v cur p : p_acc (val_g v cur p) = p_acc p.
Proof. unfold val_g. destruct (val_check v cur p); reflexivity. Qed.

Lemma txn_map_accs_ok g ts : (forall p, p_acc (g p) = p_acc p) -> txns_accs_ok ts -> txns_accs_ok (map (txn_map g) ts).
Proof.
  intros Hg H t p Ht Hp. apply in_map_iff in Ht. destruct Ht as [t0 [<- Ht0]].
  cbn [txn_map t_postings] in Hp. apply in_map_iff in Hp. destruct Hp as [p0 [<- Hp0]].
  rewrite Hg. eapply H; eassumption.
Qed.

Lemma val_txns_rel v cur s1 s2 ts1 ts2 :
  Rval s1 s2 -> v_cur s1 = cur -> Permutation ts1 ts2 -> txns_accs_ok ts1 ->
  req (fun a b => Rval (fst a) (fst b) /\ snd a = map (txn_map (val_g v cur)) ts1 /\ snd b = map (txn_map (val_g v cur)) ts2)
      (fold_txns (valuate_proc v) s1 ts1) (fold_txns (valuate_proc v) s2 ts2).
Proof.
  intros Hs Hc P Hok. pose proof Hs as [<- Hs'].
  assert (Hout : forall ts s' ts', fold_txns (valuate_proc v) s1 ts = ROk (s', ts') -> ts' = map (txn_map (val_g v cur)) ts).
  { intros ts s' ts' E.
    destruct (fold_txns_out (valuate_proc v) (val_posting v) (fun s => v_cur s = cur) (val_g v cur) eq_refl eq_refl)
      with (ts := ts) (s := s1) (s' := s') (ts' := ts') as [-> _]; auto.
    intros s t x s0 x' Hcur H. rewrite val_posting_eq, Hcur in H. unfold val_g.
    destruct (val_check v cur x); inversion H; subst. split; [reflexivity|]. rewrite val_upd_cur. exact Hcur. }
  apply (req_from_rfst Rval (fun t => t = map (txn_map (val_g v cur)) ts1) (fun t => t = map (txn_map (val_g v cur)) ts2)).
  - rewrite !(fold_txns_state (valuate_proc v) (val_posting v)) by reflexivity.
    apply (fold_res_perm Rval (pstep (val_posting v)) (fun tp => account_ok (p_acc (snd tp)) = true)).
    + intros a b c [-> Ha] [-> Hb]. split; [reflexivity|assumption].
    + intros; apply val_pstep_resp; assumption.
    + intros; apply val_pstep_comm; assumption.
    + apply items_perm. exact P.
    + apply items_accs_ok. exact Hok.
    + exact Hs.
    + exact Hs.
  - intros [s' ts'] E. cbn [snd]. eapply Hout. exact E.
  - intros [s' ts'] E. cbn [snd]. eapply Hout. exact E.
Qed.

Lemma val_adjustments_accs v date prev cur pos ts :
  pos_accs_ok pos -> val_adjustments v date prev cur pos = ROk ts -> txns_accs_ok ts.
Proof.
  revert ts. induction pos as [|[k [[a c] q]] rest IH]; intros ts Hp H; cbn [val_adjustments] in H.
  - inversion H. intros t p [].
  - assert (Hr : pos_accs_ok rest) by (intros k' a' c' q' Hin; eapply Hp; right; exact Hin).
    assert (Ha : account_ok a = true) by (eapply Hp; left; reflexivity).
    destruct (str_eqb c v || negb (is_AL a) || is_zero q); [apply IH; assumption|].
    destruct (np_price_opt prev c); try discriminate.
    destruct (np_price_opt cur c); try discriminate.
    destruct (is_zero (sub d0 d)); [apply IH; assumption|].
    destruct (val_adjustments v date prev cur rest) as [ts'| |]; try discriminate. cbn [rbind] in H.
    inversion H. subst ts. intros t p [<-|Ht] Hpp.
    + cbn [t_postings] in Hpp. apply pair_build_accs in Hpp. destruct Hpp as [->| ->]; [apply account_ok_valuation|]; exact Ha.
    + eapply (IH ts' Hr eq_refl); eassumption.
Qed.

Definition DOval (d1 d2 : day) : Prop := DIok d1 d2.

Lemma val_day_rel v s1 s2 d1 d2 :
  Rval s1 s2 -> DIok d1 d2 ->
  req (fun a b => Rval (fst a) (fst b) /\ DIok (snd a) (snd b))
      (process_day (valuate_proc v) s1 d1) (process_day (valuate_proc v) s2 d2).
Proof.
  intros Hs [De Hok]. pose proof Hs as [<- Hs']. pose proof De as (E0 & E1 & E2 & E3 & E4 & E5 & E6).
  unfold process_day. proc_fields. unfold val_day_start. rewrite <- E0, <- E6.
  destruct (val_adjustments v (d_date d1) (v_prev s1) (d_normalized d1) (v_qty s1)) as [ts| |] eqn:Ea; cbn [rbind req]; try exact I.
  cbn [fst snd set_txns d_txns d_date d_prices d_opens d_asserts d_closes d_normalized].
  set (cur := d_normalized d1).
  pose proof (val_adjustments_accs _ _ _ _ _ _ Hs' Ea) as Hts.
  eapply req_bind.
  { apply (val_txns_rel v cur (mkVal (v_prev s1) cur (v_qty s1)) (mkVal (v_prev s1) cur (v_qty s1))
                        (d_txns d1 ++ ts) (d_txns d2 ++ ts)).
    - split; [reflexivity|exact Hs'].
    - reflexivity.
    - apply Permutation_app_tail. exact E3.
    - apply txns_accs_ok_app; assumption. }
  intros [a1 t1] [a2 t2] (Ha & Ht1 & Ht2). cbn [fst snd] in *. subst t1 t2.
  rewrite !fold_asserts_none by reflexivity. cbn [rbind]. unfold val_day_end. cbn [req fst snd d_normalized].
  destruct Ha as [<- Ha]. unfold cur. rewrite <- ?E6. split; [split; [reflexivity|exact Ha]|].
  split.
  - repeat split; cbn [d_date d_prices d_opens d_txns d_asserts d_closes d_normalized]; try assumption.
    apply Permutation_map. apply Permutation_app_tail. exact E3.
  - unfold day_accs_ok. cbn [d_txns]. apply txn_map_accs_ok; [apply val_g_acc|].
    apply txns_accs_ok_app; assumption.
Qed.

Theorem val_stage_rel v s l1 l2 :
  pos_accs_ok (v_qty s) -> Forall2 DIok l1 l2 ->
  req (fun a b => Rval (fst a) (fst b) /\ Forall2 DIok (snd a) (snd b))
      (process_days (valuate_proc v) s l1) (process_days (valuate_proc v) s l2).
Proof.
  intros Hs HF. apply (process_days_rel (valuate_proc v) Rval DIok DIok); [|exact HF|split; [reflexivity|exact Hs]].
  intros; apply val_day_rel; assumption.
Qed.

(* ------------------------------------------------------------------ Filter *)

Lemma filter_day_rel span (s1 s2 : unit) d1 d2 :
  s1 = s2 -> DIok d1 d2 ->
  req (fun a b => fst a = fst b /\ DIok (snd a) (snd b))
      (process_day (filter_proc span) s1 d1) (process_day (filter_proc span) s2 d2).
Proof.
  intros <- [De Hok]. pose proof De as (E0 & _).
  unfold process_day. proc_fields. cbn [rbind fst snd].
  rewrite !fold_txns_none by reflexivity. cbn [rbind fst snd].
  rewrite !fold_asserts_none by reflexivity. cbn [rbind]. rewrite !day_eta, <- E0.
  cbn [req fst snd]. split; [reflexivity|].
  destruct (period_contains span (d_date d1)).
  - split; assumption.
  - split; [apply set_txns_equiv; [exact De|constructor]|]. intros t p [].
Qed.

Theorem filter_stage_rel span s l1 l2 :
  Forall2 DIok l1 l2 ->
  req (fun a b => fst a = fst b /\ Forall2 DIok (snd a) (snd b))
      (process_days (filter_proc span) s l1) (process_days (filter_proc span) s l2).
Proof.
  intros HF. apply (process_days_rel (filter_proc span) eq DIok DIok); [|exact HF|reflexivity].
  intros; apply filter_day_rel; assumption.
Qed.

(* ------------------------------------------------------------------ CloseAccounts *)

Definition close_upd (s : close_state) (p : posting) : close_state :=
  if is_AL (p_acc p) || acc_eqb (p_acc p) equity_account then s
  else mkClose (pos_add (c_qty s) (p_acc p) (p_com p) (p_qty p)) (pos_add (c_val s) (p_acc p) (p_com p) (p_val p)).

Lemma close_posting_eq s t p : close_posting s t p = ROk (close_upd s p, p).
Proof. unfold close_posting, close_upd. destruct (is_AL (p_acc p) || acc_eqb (p_acc p) equity_account); reflexivity. Qed.

Lemma close_pstep_eq s tp : pstep close_posting s tp = ROk (close_upd s (snd tp)).
Proof. unfold pstep. rewrite close_posting_eq. reflexivity. Qed.

Definition Rclose (s s' : close_state) : Prop := s = s' /\ pos_accs_ok (c_qty s).

Lemma close_upd_accs s p : account_ok (p_acc p) = true -> pos_accs_ok (c_qty s) -> pos_accs_ok (c_qty (close_upd s p)).
Proof.
  intros Ha Hs. unfold close_upd. destruct (is_AL (p_acc p) || acc_eqb (p_acc p) equity_account); [exact Hs|].
  cbn [c_qty]. apply pos_add_accs_ok; assumption.
Qed.

Lemma close_upd_comm s x y :
  account_ok (p_acc x) = true -> account_ok (p_acc y) = true ->
  close_upd (close_upd s x) y = close_upd (close_upd s y) x.
Proof.
  intros Hx Hy. unfold close_upd.
  destruct (is_AL (p_acc x) || acc_eqb (p_acc x) equity_account), (is_AL (p_acc y) || acc_eqb (p_acc y) equity_account);
    try reflexivity.
  cbn [c_qty c_val]. f_equal; apply pos_add_comm; assumption.
Qed.

Lemma close_txns_rel cds s1 s2 ts1 ts2 :
  Rclose s1 s2 -> Permutation ts1 ts2 -> txns_accs_ok ts1 ->
  req (fun a b => Rclose (fst a) (fst b) /\ snd a = ts1 /\ snd b = ts2)
      (fold_txns (close_proc cds) s1 ts1) (fold_txns (close_proc cds) s2 ts2).
Proof.
  intros Hs P Hok. pose proof Hs as [<- Hs'].
  assert (Hout : forall ts s' ts', fold_txns (close_proc cds) s1 ts = ROk (s', ts') -> ts' = ts).
  { intros ts s' ts' E.
    destruct (fold_txns_out (close_proc cds) close_posting (fun _ => True) (fun x => x) eq_refl eq_refl)
      with (ts := ts) (s := s1) (s' := s') (ts' := ts') as [-> _]; auto.
    - intros s t x s0 x' _ H. rewrite close_posting_eq in H. inversion H. auto.
    - apply map_txn_map_id. }
  apply (req_from_rfst Rclose (fun t => t = ts1) (fun t => t = ts2)).
  - rewrite !(fold_txns_state (close_proc cds) close_posting) by reflexivity.
    apply (fold_res_perm Rclose (pstep close_posting) (fun tp => account_ok (p_acc (snd tp)) = true)).
    + intros a b c [-> Ha] [-> Hb]. split; [reflexivity|assumption].
    + intros s s' a Ha [<- Hq]. rewrite close_pstep_eq. cbn [req]. split; [reflexivity|apply close_upd_accs; assumption].
    + intros s a b Ha Hb [_ Hq]. rewrite !close_pstep_eq. cbn [rbind]. rewrite !close_pstep_eq. cbn [req].
      split; [apply close_upd_comm; assumption|]. apply close_upd_accs; [assumption|]. apply close_upd_accs; assumption.
    + apply items_perm. exact P.
    + apply items_accs_ok. exact Hok.
    + exact Hs.
    + exact Hs.
  - intros [s' ts'] E. cbn [snd]. eapply Hout. exact E.
  - intros [s' ts'] E. cbn [snd]. eapply Hout. exact E.
Qed.

Lemma closing_txns_accs date qs vs : pos_accs_ok qs -> txns_accs_ok (closing_txns date qs vs).
Proof.
  induction qs as [|[k [[a c] q]] rest IH]; intros Hp; cbn [closing_txns]; [intros t p []|].
  assert (Hr : pos_accs_ok rest) by (intros k' a' c' q' Hin; eapply Hp; right; exact Hin).
  assert (Ha : account_ok a = true) by (eapply Hp; left; reflexivity).
  destruct (is_zero q && is_zero _); [apply IH; exact Hr|].
  intros t p [<-|Ht] Hpp.
  - cbn [t_postings] in Hpp. apply pair_build_accs in Hpp. destruct Hpp as [->| ->]; [exact Ha|apply account_ok_equity].
  - eapply (IH Hr); eassumption.
Qed.

Lemma close_day_rel cds s1 s2 d1 d2 :
  Rclose s1 s2 -> DIok d1 d2 ->
  req (fun a b => Rclose (fst a) (fst b) /\ DIok (snd a) (snd b))
      (process_day (close_proc cds) s1 d1) (process_day (close_proc cds) s2 d2).
Proof.
  intros Hs [De Hok]. pose proof Hs as [<- Hs']. pose proof De as (E0 & E1 & E2 & E3 & E4 & E5 & E6).
  unfold process_day. proc_fields. unfold close_day_start. rewrite <- E0.
  assert (G : forall x1 x2, day_equiv x1 x2 -> day_accs_ok x1 ->
    req (fun a b => Rclose (fst a) (fst b) /\ DIok (snd a) (snd b))
      (rbind (ROk (s1, x1)) (fun sd =>
         rbind (ROk (fst sd)) (fun s => rbind (ROk s) (fun s =>
         rbind (fold_txns (close_proc cds) s (d_txns (snd sd))) (fun st =>
         rbind (fold_asserts (close_proc cds) (fst st) (d_asserts (snd sd))) (fun s =>
         rbind (ROk s) (fun s => ROk (s, mkDay (d_date (snd sd)) (d_prices (snd sd)) (d_opens (snd sd)) (snd st)
                                              (d_asserts (snd sd)) (d_closes (snd sd)) (d_normalized (snd sd))))))))))
      (rbind (ROk (s1, x2)) (fun sd =>
         rbind (ROk (fst sd)) (fun s => rbind (ROk s) (fun s =>
         rbind (fold_txns (close_proc cds) s (d_txns (snd sd))) (fun st =>
         rbind (fold_asserts (close_proc cds) (fst st) (d_asserts (snd sd))) (fun s =>
         rbind (ROk s) (fun s => ROk (s, mkDay (d_date (snd sd)) (d_prices (snd sd)) (d_opens (snd sd)) (snd st)
                                              (d_asserts (snd sd)) (d_closes (snd sd)) (d_normalized (snd sd))))))))))).
  { intros x1 x2 Dx Hx. pose proof Dx as (F0 & F1 & F2 & F3 & F4 & F5 & F6). cbn [rbind fst snd].
    eapply req_bind; [apply close_txns_rel; [exact Hs|exact F3|exact Hx]|].
    intros [a1 t1] [a2 t2] (Ha & Ht1 & Ht2). cbn [fst snd] in *. subst t1 t2.
    rewrite !fold_asserts_none by reflexivity. cbn [rbind req fst snd]. split; [exact Ha|].
    rewrite !day_eta. split; assumption. }
  destruct (existsb (Z.eqb (d_date d1)) cds).
  - apply G.
    + apply set_txns_equiv; [exact De|]. apply Permutation_app_tail. exact E3.
    + unfold day_accs_ok. cbn [set_txns d_txns]. apply txns_accs_ok_app; [exact Hok|]. apply closing_txns_accs. exact Hs'.
  - apply G; assumption.
Qed.

Theorem close_stage_rel cds s l1 l2 :
  pos_accs_ok (c_qty s) -> Forall2 DIok l1 l2 ->
  req (fun a b => Rclose (fst a) (fst b) /\ Forall2 DIok (snd a) (snd b))
      (process_days (close_proc cds) s l1) (process_days (close_proc cds) s l2).
Proof.
  intros Hs HF. apply (process_days_rel (close_proc cds) Rclose DIok DIok); [|exact HF|split; [reflexivity|exact Hs]].
  intros; apply close_day_rel; assumption.
Qed.
