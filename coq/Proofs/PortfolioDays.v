(* C20, part 1: the days a portfolio command processes.
   - pure_proc_days: a processor built by Perf.pure_proc runs as the fold Perf.pure_days and
     leaves the days unchanged;
   - every stage of the pipeline preserves the dates of the days;
   - the builder keeps its days strictly ascending by date, builder_touch adds the given dates;
   - perf_loop prints one line per processed day that is a period end inside the window;
   hence returns_every_period: with the repaired wiring `portfolio returns` reports exactly one
   return per period of the partition, dated with the period's end. *)
From Coq Require Import ZArith QArith List Bool Lia.
From Knut Require Import Model.Str Model.Dec Model.Date Model.Account Model.Ledger Model.Price
     Model.Journal Model.Check Model.Pipeline Model.Report Model.Cli Model.Perf Model.Weights
     Model.CliPortfolio Spec.DateSpec Proofs.DateProofs.
Import ListNotations.
Open Scope Z_scope.

(* ------------------------------------------------------------ pure processors *)

Lemma txn_eta t : mkTxn (t_date t) (t_desc t) (t_postings t) (t_targets t) = t.
Proof. destruct t; reflexivity. Qed.

Lemma day_eta d : mkDay (d_date d) (d_prices d) (d_opens d) (d_txns d) (d_asserts d) (d_closes d) (d_normalized d) = d.
Proof. destruct d; reflexivity. Qed.

Section PureProc.
  Context {S : Type}.
  Variables (st : option (S -> day -> S)) (tx : option (S -> txn -> S))
            (po : option (S -> txn -> posting -> S)) (en : option (S -> day -> S)).
  Variable q : processor S.
  Hypothesis Hst : pr_day_start q = match st with Some f => Some (fun s d => ROk (f s d, d)) | None => None end.
  Hypothesis Hpr : pr_price q = None.
  Hypothesis Hop : pr_open q = None.
  Hypothesis Htx : pr_txn q = match tx with Some f => Some (fun s t => ROk (f s t)) | None => None end.
  Hypothesis Hpo : pr_posting q = match po with Some f => Some (fun s t p => ROk (f s t p, p)) | None => None end.
  Hypothesis Hba : pr_balance q = None.
  Hypothesis Hcl : pr_close q = None.
  Hypothesis Hen : pr_day_end q = match en with Some f => Some (fun s d => ROk (f s d, d)) | None => None end.

  Lemma pure_fold_postings (f : S -> txn -> posting -> S) t ps : forall s,
    fold_postings (fun s t p => ROk (f s t p, p)) t s ps = ROk (fold_left (fun s p => f s t p) ps s, ps).
  Proof.
    induction ps as [|x ps IH]; intros s; cbn [fold_postings fold_left]; [reflexivity|].
    cbn [rbind fst snd]. rewrite IH. reflexivity.
  Qed.

  Lemma pure_fold_txns ts : forall s, fold_txns q s ts = ROk (fold_left (pure_txn tx po) ts s, ts).
  Proof.
    induction ts as [|t ts IH]; intros s; cbn [fold_txns fold_left]; [reflexivity|].
    rewrite Htx, Hpo. unfold pure_txn, opt_app.
    destruct tx as [ftx|]; destruct po as [fpo|]; cbn [rbind fst snd];
      try rewrite pure_fold_postings; cbn [rbind fst snd]; rewrite IH; cbn [rbind fst snd];
      rewrite ?txn_eta; reflexivity.
  Qed.

  Lemma pure_fold_asserts l : forall s, fold_asserts q s l = ROk s.
  Proof.
    induction l as [|a l IH]; intros s; cbn [fold_asserts]; [reflexivity|].
    rewrite Hba. cbn [rbind]. apply IH.
  Qed.

  Lemma pure_process_day s d : process_day q s d = ROk (pure_day st tx po en s d, d).
  Proof.
    unfold process_day, pure_day, opt_app. rewrite Hst, Hpr, Hop, Hcl, Hen.
    destruct st as [fst_|]; cbn [rbind fst snd]; rewrite pure_fold_txns; cbn [rbind fst snd d_asserts];
      rewrite pure_fold_asserts; cbn [rbind];
      destruct en as [fen|]; cbn [d_date d_prices d_opens d_closes d_normalized]; rewrite day_eta; reflexivity.
  Qed.

  Lemma pure_process_days ds : forall s, process_days q s ds = ROk (pure_days st tx po en s ds, ds).
  Proof.
    unfold pure_days. induction ds as [|d ds IH]; intros s; cbn [process_days fold_left]; [reflexivity|].
    rewrite pure_process_day. cbn [rbind fst snd]. rewrite IH. reflexivity.
  Qed.
End PureProc.

Lemma pure_proc_days {S} (st : option (S -> day -> S)) tx po en ds s :
  process_days (pure_proc st tx po en) s ds = ROk (pure_days st tx po en s ds, ds).
Proof. apply pure_process_days; reflexivity. Qed.

(* ------------------------------------------------------------ dates are preserved *)

Section Dates.
  Context {S : Type} (p : processor S).
  Hypothesis start_date : forall f s d s' d', pr_day_start p = Some f -> f s d = ROk (s', d') -> d_date d' = d_date d.
  Hypothesis end_date : forall f s d s' d', pr_day_end p = Some f -> f s d = ROk (s', d') -> d_date d' = d_date d.

  Lemma process_day_date s d s' d' : process_day p s d = ROk (s', d') -> d_date d' = d_date d.
  Proof.
    unfold process_day. intros H.
    destruct (match pr_day_start p with Some f => f s d | None => ROk (s, d) end) as [[s1 d1]| |] eqn:E1; try discriminate.
    cbn [rbind fst snd] in H.
    assert (H1 : d_date d1 = d_date d).
    { destruct (pr_day_start p) as [f|] eqn:Ef; [exact (start_date f _ _ _ _ eq_refl E1)|inversion E1; reflexivity]. }
    destruct (match pr_price p with Some f => fold_res f s1 (d_prices d1) | None => ROk s1 end); try discriminate.
    cbn [rbind] in H.
    destruct (match pr_open p with Some f => fold_res f a (d_opens d1) | None => ROk a end); try discriminate.
    cbn [rbind] in H.
    destruct (fold_txns p a0 (d_txns d1)) as [[s4 ts']| |]; try discriminate. cbn [rbind fst snd d_asserts d_closes] in H.
    destruct (fold_asserts p s4 (d_asserts d1)); try discriminate. cbn [rbind] in H.
    destruct (match pr_close p with Some f => fold_res f a1 (d_closes d1) | None => ROk a1 end); try discriminate.
    cbn [rbind] in H.
    destruct (pr_day_end p) as [f|] eqn:Ef.
    - rewrite (end_date f _ _ _ _ eq_refl H). cbn [d_date]. exact H1.
    - inversion H; subst. cbn [d_date]. exact H1.
  Qed.

  Lemma process_days_dates ds : forall s s' ds', process_days p s ds = ROk (s', ds') -> map d_date ds' = map d_date ds.
  Proof.
    induction ds as [|d ds IH]; intros s s' ds' H; cbn [process_days] in H.
    - inversion H; reflexivity.
    - destruct (process_day p s d) as [[s1 d1]| |] eqn:E1; try discriminate. cbn [rbind fst snd] in H.
      destruct (process_days p s1 ds) as [[s2 r]| |] eqn:E2; try discriminate. cbn [rbind fst snd] in H.
      inversion H; subst. cbn [map]. rewrite (process_day_date _ _ _ _ E1), (IH _ _ _ E2). reflexivity.
  Qed.
End Dates.

Lemma run_stage_dates {S} (p : processor S) s days r :
  (forall f s d s' d', pr_day_start p = Some f -> f s d = ROk (s', d') -> d_date d' = d_date d) ->
  (forall f s d s' d', pr_day_end p = Some f -> f s d = ROk (s', d') -> d_date d' = d_date d) ->
  run_stage p s days = COk r -> map d_date (snd r) = map d_date days.
Proof.
  intros H1 H2 H. unfold run_stage in H. destruct (process_days p s days) as [[s' ds']| |] eqn:E; cbn in H; try discriminate.
  inversion H; subst. cbn [snd]. eapply process_days_dates; eauto.
Qed.

Lemma prices_stage_dates v s days r :
  run_stage (compute_prices_proc v) s days = COk r -> map d_date (snd r) = map d_date days.
Proof.
  apply run_stage_dates; cbn; intros f s0 d s' d' Hf H; [discriminate|].
  inversion Hf; subst. unfold cp_day_end in H.
  destruct (d_prices d); [inversion H; reflexivity|].
  destruct (normalize _ _); inversion H; reflexivity.
Qed.

Lemma check_stage_dates l s days r :
  run_stage (check_proc l) s days = COk r -> map d_date (snd r) = map d_date days.
Proof. apply run_stage_dates; cbn; intros; discriminate. Qed.

Lemma valuate_stage_dates v s days r :
  run_stage (valuate_proc v) s days = COk r -> map d_date (snd r) = map d_date days.
Proof.
  apply run_stage_dates; cbn; intros f s0 d s' d' Hf H; inversion Hf; subst.
  - unfold val_day_start in H. destruct (val_adjustments _ _ _ _ _); cbn in H; inversion H; reflexivity.
  - unfold val_day_end in H. inversion H; reflexivity.
Qed.

Lemma valued_days_dates cfg days days' : valued_days cfg days = COk days' -> map d_date days' = map d_date days.
Proof.
  unfold valued_days. intros H. destruct (pc_valuation cfg) as [v|].
  - destruct (run_stage (compute_prices_proc v) _ days) as [r1| |] eqn:E1; cbn [cbind] in H; try discriminate.
    destruct (run_stage (check_proc _) _ (snd r1)) as [r2| |] eqn:E2; cbn [cbind] in H; try discriminate.
    destruct (run_stage (valuate_proc v) _ (snd r2)) as [r3| |] eqn:E3; cbn [cbind] in H; try discriminate.
    inversion H; subst.
    rewrite (valuate_stage_dates _ _ _ _ E3), (check_stage_dates _ _ _ _ E2), (prices_stage_dates _ _ _ _ E1). reflexivity.
  - destruct (run_stage (check_proc _) _ days) as [r2| |] eqn:E2; cbn [cbind] in H; try discriminate.
    inversion H; subst. apply (check_stage_dates _ _ _ _ E2).
Qed.

(* ------------------------------------------------------------ ascending dates *)

Fixpoint asc (l : list Z) : Prop :=
  match l with
  | [] => True
  | x :: rest => match rest with [] => True | y :: _ => x < y end /\ asc rest
  end.

Lemma asc_tail x l : asc (x :: l) -> asc l.
Proof. cbn. tauto. Qed.

Lemma asc_lt x l : asc (x :: l) -> forall y, In y l -> x < y.
Proof.
  revert x. induction l as [|z l IH]; intros x H y Hy; [contradiction|].
  destruct H as [Hxz Hr]. destruct Hy as [->|Hy]; [exact Hxz|].
  specialize (IH z Hr y Hy). lia.
Qed.

Lemma insert_date_in d l : In d (insert_date d l).
Proof.
  induction l as [|x l IH]; cbn; [auto|].
  destruct (d =? x) eqn:E; [apply Z.eqb_eq in E; subst; left; reflexivity|].
  destruct (d <? x); [left; reflexivity|right; exact IH].
Qed.

Lemma insert_date_keeps d l y : In y l -> In y (insert_date d l).
Proof.
  induction l as [|x l IH]; cbn; [tauto|]. intros H.
  destruct (d =? x); [exact H|]. destruct (d <? x); [right; exact H|].
  destruct H as [->|H]; [left; reflexivity|right; auto].
Qed.

Lemma insert_date_from d l y : In y (insert_date d l) -> y = d \/ In y l.
Proof.
  induction l as [|x l IH]; cbn [insert_date].
  - intros [H|[]]. left. symmetry. exact H.
  - destruct (d =? x); [intros H; right; exact H|]. destruct (d <? x).
    + intros [H|H]; [left; symmetry; exact H|right; exact H].
    + intros [H|H]; [right; left; exact H|]. destruct (IH H) as [H'|H']; [left; exact H'|right; right; exact H'].
Qed.

Lemma insert_date_asc d l : asc l -> asc (insert_date d l).
Proof.
  induction l as [|x l IH]; intros H; cbn [insert_date]; [cbn; tauto|].
  destruct (d =? x) eqn:E1; [exact H|]. destruct (d <? x) eqn:E2.
  - apply Z.ltb_lt in E2. split; [exact E2|exact H].
  - apply Z.eqb_neq in E1. apply Z.ltb_ge in E2.
    specialize (IH (asc_tail _ _ H)). split; [|exact IH].
    destruct (insert_date d l) as [|y r] eqn:Ei; [exact I|].
    assert (Hy : In y (insert_date d l)) by (rewrite Ei; left; reflexivity).
    destruct (insert_date_from _ _ _ Hy) as [->|Hy']; [lia|]. apply (asc_lt x l H y Hy').
Qed.

(* Builder.Day keeps the day list in the order of insert_date *)
Lemma upd_day_dates days d f :
  (forall x, d_date (f x) = d_date x) ->
  map d_date (upd_day days d f) = insert_date d (map d_date days).
Proof.
  intros Hf. induction days as [|x days IH]; cbn [upd_day map insert_date].
  - rewrite Hf. reflexivity.
  - destruct (d =? d_date x); [cbn [map]; rewrite Hf; reflexivity|].
    destruct (d <? d_date x); cbn [map]; [rewrite Hf; reflexivity|]. rewrite IH. reflexivity.
Qed.

Lemma builder_add_asc b x : asc (map d_date (b_days b)) -> asc (map d_date (b_days (builder_add b x))).
Proof.
  intros H. destruct x; cbn [builder_add b_days]; rewrite upd_day_dates by (intros; reflexivity);
    apply insert_date_asc; exact H.
Qed.

Lemma builder_of_asc ds : asc (map d_date (b_days (builder_of ds))).
Proof.
  unfold builder_of. assert (H0 : asc (map d_date (b_days new_builder))) by exact I.
  revert H0. generalize new_builder. induction ds as [|x ds IH]; intros b H; cbn [fold_left]; [exact H|].
  apply IH. apply builder_add_asc. exact H.
Qed.

Lemma builder_touch_dates b dates :
  map d_date (b_days (builder_touch b dates)) = fold_left (fun l d => insert_date d l) dates (map d_date (b_days b)).
Proof.
  unfold builder_touch. cbn [b_days]. generalize (b_days b). induction dates as [|d dates IH]; intros days; cbn [fold_left]; [reflexivity|].
  rewrite IH. rewrite upd_day_dates by reflexivity. reflexivity.
Qed.

Lemma fold_insert_asc dates : forall l, asc l -> asc (fold_left (fun l d => insert_date d l) dates l).
Proof. induction dates as [|d dates IH]; intros l H; cbn; [exact H|]. apply IH. apply insert_date_asc. exact H. Qed.

Lemma fold_insert_in dates : forall l y, In y dates \/ In y l -> In y (fold_left (fun l d => insert_date d l) dates l).
Proof.
  induction dates as [|d dates IH]; intros l y H; cbn [fold_left]; [destruct H as [[]|H]; exact H|].
  apply IH. destruct H as [[->|H]|H]; [right; apply insert_date_in|left; exact H|right; apply insert_date_keeps; exact H].
Qed.

(* ------------------------------------------------------------ the lines perf_loop prints *)

Definition mem (l : list Z) (d : Z) : bool := existsb (Z.eqb d) l.

Lemma perf_loop_dates part ends l : forall running,
  map fst (perf_loop part ends running l) =
  filter (fun d => partition_contains part d && mem ends d) (map pf_date l).
Proof.
  induction l as [|p l IH]; intros running; cbn [perf_loop map filter]; [reflexivity|].
  destruct (partition_contains part (pf_date p)); cbn [negb andb]; [|apply IH].
  unfold mem. destruct (existsb (Z.eqb (pf_date p)) ends); cbn [map fst]; [f_equal|]; apply IH.
Qed.

Lemma mem_in l d : mem l d = true <-> In d l.
Proof.
  unfold mem. rewrite existsb_exists. split.
  - intros [x [Hx E]]. apply Z.eqb_eq in E. subst. exact Hx.
  - intros H. exists d. split; [exact H|apply Z.eqb_refl].
Qed.

Lemma filter_ext_in' {A} (f g : A -> bool) l : (forall x, In x l -> f x = g x) -> filter f l = filter g l.
Proof.
  induction l as [|x l IH]; intros H; cbn; [reflexivity|].
  rewrite (H x (or_introl eq_refl)). rewrite IH; [reflexivity|]. intros y Hy. apply H. right. exact Hy.
Qed.

(* two strictly ascending lists: filtering the larger by membership in the smaller gives the smaller *)
Lemma filter_mem_asc dates : forall ends, asc dates -> asc ends -> incl ends dates -> filter (mem ends) dates = ends.
Proof.
  induction dates as [|x dates IH]; intros ends Hd He Hi.
  - destruct ends as [|e es]; [reflexivity|]. destruct (Hi e (or_introl eq_refl)).
  - cbn [filter]. destruct ends as [|e es].
    + cbn. rewrite (filter_ext_in' (mem []) (fun _ => false)) by reflexivity.
      clear. induction dates; cbn; auto.
    + destruct (Z.eq_dec e x) as [->|Hne].
      * replace (mem (x :: es) x) with true by (symmetry; apply mem_in; left; reflexivity). f_equal.
        rewrite (filter_ext_in' (mem (x :: es)) (mem es)).
        -- apply IH; [exact (asc_tail _ _ Hd)|exact (asc_tail _ _ He)|].
           intros y Hy. pose proof (asc_lt _ _ He y Hy) as Hlt.
           destruct (Hi y (or_intror Hy)) as [->|H]; [lia|exact H].
        -- intros y Hy. pose proof (asc_lt _ _ Hd y Hy) as Hlt. unfold mem. cbn [existsb].
           replace (y =? x) with false by (symmetry; apply Z.eqb_neq; lia). reflexivity.
      * assert (Hex : x < e).
        { destruct (Hi e (or_introl eq_refl)) as [->|H]; [congruence|]. apply (asc_lt _ _ Hd e H). }
        replace (mem (e :: es) x) with false.
        -- apply IH; [exact (asc_tail _ _ Hd)|exact He|].
           intros y Hy. destruct (Hi y Hy) as [<-|H]; [|exact H].
           destruct Hy as [->|Hy]; [lia|]. pose proof (asc_lt _ _ He x Hy). lia.
        -- symmetry. apply not_true_is_false. intros Hm. apply mem_in in Hm.
           destruct Hm as [->|Hm]; [lia|]. pose proof (asc_lt _ _ He x Hm). lia.
Qed.

(* ------------------------------------------------------------ period ends of a partition *)

Lemma tiles_ends s e ps : tiles s e ps ->
  asc (map p_end ps) /\ Forall (fun d => s <= d <= e) (map p_end ps).
Proof.
  revert s. induction ps as [|p ps IH]; intros s H; [destruct H|].
  cbn [tiles] in H. destruct H as [Hs [Hle Hrest]]. destruct ps as [|q ps'].
  - subst. cbn. split; [tauto|]. constructor; [lia|constructor].
  - destruct (IH _ Hrest) as [Ha Hf]. cbn [map] in *. split.
    + split; [|exact Ha]. inversion Hf; subst. cbn [tiles] in Hrest. lia.
    + constructor; [|eapply Forall_impl; [|exact Hf]; cbn; intros; lia].
      inversion Hf; subst. lia.
Qed.

Lemma partition_ends w iv n part :
  p_start w <= p_end w -> 0 <= n -> new_partition w iv n = POk part ->
  asc (end_dates part) /\ Forall (fun d => partition_contains part d = true) (end_dates part).
Proof.
  intros Hle Hn H. destruct w as [s e]. cbn [p_start p_end] in Hle.
  destruct (new_partition_span _ _ _ _ H) as [Hsp _].
  assert (Hc : forall d, s <= d <= e -> partition_contains part d = true).
  { intros d Hd. unfold partition_contains, period_contains. rewrite Hsp. cbn [p_start p_end].
    rewrite andb_true_iff, !negb_true_iff, !Z.ltb_ge. lia. }
  destruct (interval_eqb iv Once) eqn:Eiv.
  - assert (iv = Once) by (destruct iv; cbn in Eiv; congruence). subst.
    unfold new_partition in H. cbn [p_start] in H. destruct (s =? 0); [discriminate|]. inversion H; subst.
    unfold end_dates. cbn. split; [tauto|]. constructor; [|constructor]. apply Hc. lia.
  - assert (Hiv : iv <> Once) by (intros ->; discriminate).
    destruct (new_partition_tiles s e iv n part Hiv Hle Hn H) as [Ht Hfs].
    destruct (tiles_ends _ _ _ Ht) as [Ha Hf]. unfold end_dates. split; [exact Ha|].
    eapply Forall_impl; [|exact Hf]. cbn. intros d Hd. apply Hc. lia.
Qed.

(* ------------------------------------------------------------ ComputeValues emits one record per day *)

Lemma cv_txns_out c ts : forall s0, cv_out (fold_left (pure_txn None (Some (cv_posting c))) ts s0) = cv_out s0.
Proof.
  induction ts as [|t ts IHt]; intros s0; cbn [fold_left]; [reflexivity|]. rewrite IHt.
  unfold pure_txn, opt_app. generalize (t_postings t). intros ps. revert s0.
  induction ps as [|p ps IHp]; intros s0; cbn [fold_left]; [reflexivity|]. rewrite IHp.
  unfold cv_posting. destruct (negb _); [reflexivity|]. destruct (negb _); reflexivity.
Qed.

Lemma cv_day_out c s d :
  cv_out (pure_day (Some cv_day_start) None (Some (cv_posting c)) (Some cv_day_end) s d) =
  cv_out s ++ [(d_date d, (cv_prev s, vals_pcv (cv_values (fold_left (pure_txn None (Some (cv_posting c))) (d_txns d) (cv_day_start s d)))))].
Proof.
  unfold pure_day, opt_app, cv_day_end. cbn [cv_out]. rewrite cv_txns_out. cbn [cv_day_start cv_out].
  do 3 f_equal.
  assert (G : forall ts s0, cv_v0 (fold_left (pure_txn None (Some (cv_posting c))) ts s0) = cv_v0 s0).
  { induction ts as [|t ts IHt]; intros s0; cbn [fold_left]; [reflexivity|]. rewrite IHt.
    unfold pure_txn, opt_app. generalize (t_postings t). intros ps. revert s0.
    induction ps as [|p ps IHp]; intros s0; cbn [fold_left]; [reflexivity|]. rewrite IHp.
    unfold cv_posting. destruct (negb _); [reflexivity|]. destruct (negb _); reflexivity. }
  rewrite G. reflexivity.
Qed.

Lemma cv_out_dates c days : forall s,
  map fst (cv_out (pure_days (Some cv_day_start) None (Some (cv_posting c)) (Some cv_day_end) s days)) =
  map fst (cv_out s) ++ map d_date days.
Proof.
  unfold pure_days. induction days as [|d days IH]; intros s; cbn [fold_left map]; [rewrite app_nil_r; reflexivity|].
  rewrite IH, cv_day_out, map_app, <- app_assoc. reflexivity.
Qed.

Lemma day_values_dates cfg days vs : day_values cfg days = COk vs -> map fst (fst vs) = map d_date days /\ snd vs = days.
Proof.
  unfold day_values, run_stage, compute_values_proc. rewrite pure_proc_days. cbn [of_presult cbind fst snd].
  intros H. inversion H; subst. cbn [fst snd]. rewrite cv_out_dates. split; reflexivity.
Qed.

Lemma join_perf_dates vs fs : map pf_date (join_perf vs fs) = map fst vs.
Proof. unfold join_perf. rewrite map_map. reflexivity. Qed.

(* ------------------------------------------------------------ the theorem *)

Theorem returns_every_period cfg ds l :
  returns_fixed cfg ds = COk l ->
  0 <= pc_last cfg ->
  exists b part,
    load ds = COk b /\ pf_partition cfg b = COk part /\
    (let w := clip (mkPeriod (pc_from cfg) (pc_to cfg)) (builder_period b) in p_start w <= p_end w ->
     map fst l = end_dates part).
Proof.
  unfold returns_fixed, returns_gen, repaired. cbn [fx_wiring fx_flowfilter]. intros H Hn.
  destruct (check_valuation cfg); cbn [cbind] in H; try discriminate.
  destruct (load ds) as [b| |] eqn:El; cbn [cbind] in H; try discriminate.
  destruct (pf_partition cfg b) as [part| |] eqn:Ep; cbn [cbind] in H; try discriminate.
  exists b, part. split; [reflexivity|]. split; [exact Ep|]. cbv zeta. set (w := clip _ _). intros Hw.
  destruct (valued_days cfg _) as [days| |] eqn:Ev; cbn [cbind] in H; try discriminate.
  destruct (day_values cfg days) as [vs| |] eqn:Edv; cbn [cbind] in H; try discriminate.
  destruct (day_flows _ cfg (snd vs)) as [fs| |] eqn:Ef; cbn [cbind] in H; try discriminate.
  inversion H; subst. clear H.
  rewrite perf_loop_dates, join_perf_dates.
  destruct (day_values_dates _ _ _ Edv) as [Hd _]. rewrite Hd, (valued_days_dates _ _ _ Ev), builder_touch_dates.
  unfold pf_partition in Ep. fold w in Ep.
  destruct (new_partition w (pc_interval cfg) (pc_last cfg)) as [pt| |] eqn:En; try discriminate. inversion Ep; subst pt.
  destruct (partition_ends _ _ _ _ Hw Hn En) as [Ha Hc].
  assert (Hb : asc (map d_date (b_days b))).
  { unfold load in El. destruct (of_mresult _) as [x| |]; cbn [cbind] in El; try discriminate.
    inversion El; subst. apply builder_of_asc. }
  set (dates := fold_left _ (end_dates part) _).
  rewrite (filter_ext_in' _ (mem (end_dates part))).
  - apply filter_mem_asc; [apply fold_insert_asc; exact Hb|exact Ha|].
    intros y Hy. apply fold_insert_in. left. exact Hy.
  - intros x _. destruct (mem (end_dates part) x) eqn:Em; [|apply andb_false_r].
    apply mem_in in Em. rewrite Forall_forall in Hc. rewrite (Hc x Em). reflexivity.
Qed.
