(* Proofs about Model/Scanner.v (DESIGN.md Appendix B.3).

   The rune decoder is a parameter with the five facts of [decoder_ok] (discharged for
   Model/Utf8.v in [utf8_decoder_ok]); letter/digit classifications are arbitrary.

   Invariant [Inv]: 0 <= off, rest = text[off:], and either the scanner is at EOF
   (cur = EOF, clen = 0, off = |text|) or off < |text| and (cur, clen) = decode rest.
   Go's third kind of state -- (RuneError, width 0) at the end of the text, produced by
   Backtrack(len) or by a failed Advance at EOF -- is deliberately NOT in Inv: the lemmas below
   show that from a state in Inv every successful primitive ends in a state in Inv (after a
   failure the parser never continues, except ReadAlternative, which backtracks to the state
   it started from, [backtrack_id]).  Hence that state is unreachable from parser.New+Advance.

   Every primitive gets one lemma of the shape
     Inv s -> post Q (off s) (prim s)
   where [post Q o r] says: Ok a s' -> Inv s' /\ o <= off s' /\ Q a s';
   Err e s' -> o <= off s' <= |text| and all error ranges within [0,|text|]; never OutOfFuel. *)
From Coq Require Import ZArith List Bool Lia ZifyBool.
From Knut Require Import Model.Bytes Model.Utf8 Model.Scanner.
Import ListNotations.
Open Scope bool_scope.
Open Scope Z_scope.

(* ------------------------------------------------------------------ lists, slices *)

Lemma skipn_add {A} (b a : nat) (l : list A) : skipn a (skipn b l) = skipn (b + a) l.
Proof.
  revert l; induction b as [|b IH]; intros l; simpl; [reflexivity|].
  destruct l; [destruct a; reflexivity | apply IH].
Qed.

Lemma firstn_add {A} (m n : nat) (l : list A) :
  firstn (m + n) l = firstn m l ++ firstn n (skipn m l).
Proof.
  revert l; induction m as [|m IH]; intros l; simpl; [reflexivity|].
  destruct l; simpl; [now rewrite firstn_nil | now rewrite IH].
Qed.

Lemma slice_nil t a : slice t a a = [].
Proof. unfold slice. now rewrite Z.sub_diag. Qed.

Lemma slice_app t a b c : 0 <= a <= b -> b <= c -> slice t a c = slice t a b ++ slice t b c.
Proof.
  intros Hab Hbc. unfold slice.
  replace (Z.to_nat (c - a)) with (Z.to_nat (b - a) + Z.to_nat (c - b))%nat by lia.
  rewrite firstn_add, skipn_add.
  now replace (Z.to_nat a + Z.to_nat (b - a))%nat with (Z.to_nat b) by lia.
Qed.

Lemma slice_rest t o w r :
  r = skipn (Z.to_nat o) t -> slice t o (o + w) = firstn (Z.to_nat w) r.
Proof. intros ->. unfold slice. now replace (o + w - o) with w by lia. Qed.

Lemma slice_full t : slice t 0 (zlen t) = t.
Proof.
  unfold slice, zlen. simpl. rewrite Z.sub_0_r, Nat2Z.id. apply firstn_all.
Qed.

Lemma str_eqb_eq a b : str_eqb a b = true <-> a = b.
Proof.
  revert b; induction a as [|x a IH]; intros [|y b]; simpl; split; intros H; try congruence; try reflexivity.
  - apply andb_true_iff in H. destruct H as [H1 H2]. apply Z.eqb_eq in H1. apply IH in H2. congruence.
  - inversion H; subst. rewrite Z.eqb_refl. simpl. now apply IH.
Qed.

(* ------------------------------------------------------------------ decoder facts *)

Definition high (x : Z) : Prop := ~ (0 <= x < 128).

Record decoder_ok (dec : str -> Z * Z) : Prop := mkDecOk {
  dec_nil : dec [] = (rune_error, 0);
  dec_width : forall l r w, l <> [] -> dec l = (r, w) -> 1 <= w <= Z.of_nat (length l);
  dec_nonneg : forall l r w, dec l = (r, w) -> 0 <= r;
  dec_ascii : forall b l, 0 <= b < 128 -> dec (b :: l) = (b, 1);
  dec_high : forall b l r w, high b -> dec (b :: l) = (r, w) ->
             128 <= r /\ Forall high (firstn (Z.to_nat w) (b :: l))
}.

Lemma utf8_decoder_ok : decoder_ok Utf8M.decode.
Proof.
  assert (Hpos : forall p, Z.to_nat (Z.pos p) = Pos.to_nat p) by reflexivity.
  constructor.
  - reflexivity.
  - intros l r w Hl H. destruct l as [|s0 t]; [congruence|].
    cbn [length]. unfold decode, cont, in_rng in H.
    repeat match type of H with
    | context [if ?c then _ else _] => destruct c eqn:?
    | context [match ?x with [] => _ | _ :: _ => _ end] => destruct x; cbn [length]
    end; inversion H; subst; lia.
  - intros l r w H. destruct l as [|s0 t]; [inversion H; unfold rune_error; lia|].
    unfold decode, cont, in_rng, second_lo, second_hi in H.
    repeat match type of H with
    | context [if ?c then _ else _] => destruct c eqn:?
    | context [match ?x with [] => _ | _ :: _ => _ end] => destruct x
    end; inversion H; subst; unfold rune_error; lia.
  - intros b l Hb. unfold decode, in_rng.
    destruct (0 <=? b) eqn:H1; destruct (b <=? 127) eqn:H2; try lia. reflexivity.
  - intros b l r w Hb H. unfold high in *.
    unfold decode, cont, in_rng, second_lo, second_hi in H.
    repeat match type of H with
    | context [if ?c then _ else _] => destruct c eqn:?
    | context [match ?x with [] => _ | _ :: _ => _ end] => destruct x
    end; inversion H; subst; (split; [unfold rune_error; lia|]);
    cbn [Z.to_nat Pos.to_nat Pos.iter_op Nat.add firstn];
    repeat (constructor; try (unfold high; lia)).
Qed.

(* ------------------------------------------------------------------ the invariant *)

Section WithEnv.
Variable E : env.
Hypothesis Hlen : e_len E = Z.of_nat (length (e_text E)).
Hypothesis Hfuel : (length (e_text E) < e_fuel E)%nat.
Hypothesis Hdec : decoder_ok (e_decode E).

Notation t := (e_text E).
Notation len := (e_len E).
Notation dec := (e_decode E).

Definition Inv (s : state) : Prop :=
  0 <= off s /\ rest s = skipn (Z.to_nat (off s)) t /\
  ((cur s = eof /\ clen s = 0 /\ off s = len) \/
   (off s < len /\ (cur s, clen s) = dec (rest s))).

Definition err_ok (x : err) : Prop := 0 <= er_start x <= er_end x /\ er_end x <= len.
Definition errs_ok (e : list err) : Prop := Forall err_ok e.

Definition post {A} (Q : A -> state -> Prop) (o : Z) (r : res A) : Prop :=
  match r with
  | Ok a s' => Inv s' /\ o <= off s' /\ Q a s'
  | Err e s' => o <= off s' <= len /\ errs_ok e
  | OutOfFuel => False
  end.

Lemma post_weaken {A} (Q Q' : A -> state -> Prop) o o' r :
  post Q o r -> o' <= o ->
  (forall a s', Inv s' -> o <= off s' -> Q a s' -> Q' a s') ->
  post Q' o' r.
Proof using All.
  intros H Ho HQ. destruct r as [a s'|e s'|]; simpl in *; [|destruct H; split; [lia|assumption]|assumption].
  destruct H as (Hi & Hle & Hq). split; [assumption|split; [lia|now apply HQ]].
Qed.

Lemma post_ok {A} (Q : A -> state -> Prop) o a s' :
  Inv s' -> o <= off s' -> Q a s' -> post Q o (Ok a s').
Proof using All. intros. simpl. auto. Qed.

Lemma post_err {A} (Q : A -> state -> Prop) o e s' :
  o <= off s' <= len -> errs_ok e -> post Q o (Err e s').
Proof using All. intros. simpl. auto. Qed.

Lemma errs_ok_cons k a b e : 0 <= a <= b -> b <= len -> errs_ok e -> errs_ok (mkErr k a b :: e).
Proof using All. intros. constructor; [unfold err_ok; simpl; lia|assumption]. Qed.

Lemma errs_ok_one k a b : 0 <= a <= b -> b <= len -> errs_ok [mkErr k a b].
Proof using All. intros. apply errs_ok_cons; try assumption. constructor. Qed.

Lemma rest_length s : Inv s -> Z.of_nat (length (rest s)) = len - off s.
Proof using All.
  intros (H0 & Hr & Hd). rewrite Hr, skipn_length.
  assert (off s <= len) by (destruct Hd as [(_ & _ & ?)|(? & _)]; lia). lia.
Qed.

(* consequences of the invariant *)
Lemma inv_facts s : Inv s ->
  0 <= off s /\ 0 <= clen s /\ off s + clen s <= len /\
  (cur s = eof -> clen s = 0 /\ off s = len) /\
  (cur s <> eof -> 1 <= clen s /\ 0 <= cur s /\ off s < len /\ (cur s, clen s) = dec (rest s)).
Proof using All.
  intros HI. pose proof (rest_length s HI) as HL. destruct HI as (H0 & Hr & [(Hc & Hw & Ho)|(Ho & Hd)]).
  - repeat split; try lia; intros; try lia; congruence.
  - assert (Hne : rest s <> []) by (intros Hn; rewrite Hn in HL; simpl in HL; lia).
    symmetry in Hd. pose proof (dec_width _ Hdec _ _ _ Hne Hd) as Hw.
    pose proof (dec_nonneg _ Hdec _ _ _ Hd) as Hn.
    repeat split; try lia; intros; try (unfold eof in *; lia). now symmetry.
Qed.

Lemma inv_eof_len s : Inv s -> cur s = eof -> off s = len.
Proof using All. intros HI Hc. apply inv_facts in HI. tauto. Qed.

(* one decoded rune: either an ASCII byte or bytes that are all >= 0x80 *)
Lemma dec_cases l r w : l <> [] -> dec l = (r, w) ->
  (exists b l', l = b :: l' /\ 0 <= b < 128 /\ r = b /\ w = 1) \/
  (128 <= r /\ Forall high (firstn (Z.to_nat w) l)).
Proof using All.
  intros Hl H. destruct l as [|b l']; [congruence|].
  destruct (Z_le_dec 0 b) as [H0|H0]; [destruct (Z_lt_dec b 128) as [H1|H1]|].
  - left. exists b, l'. rewrite (dec_ascii _ Hdec b l') in H by lia. inversion H. repeat split; lia.
  - right. apply (dec_high _ Hdec b l' r w); [unfold high; lia | assumption].
  - right. apply (dec_high _ Hdec b l' r w); [unfold high; lia | assumption].
Qed.

(* the current rune is the ASCII character c: exactly that byte is at the offset *)
Lemma cur_ascii s c : Inv s -> cur s = c -> 0 <= c < 128 ->
  clen s = 1 /\ slice t (off s) (off s + 1) = [c].
Proof using All.
  intros HI Hc Hr. pose proof (rest_length s HI) as HL.
  pose proof (inv_facts s HI) as (H0 & _ & _ & _ & Hn).
  destruct Hn as (Hw & _ & Ho & Hd); [unfold eof; lia|].
  assert (Hne : rest s <> []) by (intros Hn; rewrite Hn in HL; simpl in HL; lia).
  symmetry in Hd. destruct (dec_cases _ _ _ Hne Hd) as [(b & l' & Hl & Hb & Hrb & Hw1)|(Hhi & _)]; [|lia].
  split; [assumption|]. destruct HI as (_ & Hrest & _).
  rewrite (slice_rest t (off s) 1 (rest s) Hrest), Hl. simpl. congruence.
Qed.

(* ------------------------------------------------------------------ Advance *)

Lemma inv_eof_state o r : o = len -> r = skipn (Z.to_nat o) t -> Inv (mkState o eof 0 r).
Proof using All. intros Ho Hr. unfold Inv; simpl. split; [lia|]. split; [assumption|]. left. auto. Qed.

Lemma inv_dec_state o c w r :
  0 <= o < len -> r = skipn (Z.to_nat o) t -> dec r = (c, w) -> Inv (mkState o c w r).
Proof using All.
  intros Ho Hr Hd. unfold Inv; simpl. split; [lia|]. split; [assumption|]. right.
  split; [lia|now symmetry].
Qed.

Lemma advance_spec s : Inv s ->
  post (fun _ s' => off s' = off s + clen s /\ cur s <> eof /\ off s < off s') (off s) (advance E s).
Proof using All.
  intros HI. pose proof (inv_facts s HI) as (H0 & Hw0 & Hle & Heof & Hne).
  pose proof HI as (_ & Hrest & _).
  unfold advance.
  assert (Hr' : skipn (Z.to_nat (clen s)) (rest s) = skipn (Z.to_nat (off s + clen s)) t).
  { rewrite Hrest, skipn_add. f_equal. lia. }
  destruct (Z.eq_dec (cur s) eof) as [Hc|Hc].
  - (* at EOF: Advance fails with "unexpected end of file" *)
    destruct (Heof Hc) as (Hw & Ho).
    rewrite Hc, Z.eqb_refl, andb_false_r.
    rewrite Hr', Hw, Z.add_0_r, Ho, Hlen, Nat2Z.id, skipn_all, (dec_nil _ Hdec).
    simpl. rewrite <- Hlen. split; [lia|]. apply errs_ok_one; lia.
  - destruct (Hne Hc) as (Hw & Hcn & Ho & Hd).
    destruct (Z.eqb_spec (off s + clen s) len) as [He|He].
    + (* reaches the end of the text: EOF *)
      assert (Hb : negb (cur s =? eof) = true) by (apply negb_true_iff, Z.eqb_neq; assumption).
      rewrite Hb. cbn [andb]. apply post_ok; simpl; [|lia|repeat split; try assumption; lia].
      apply inv_eof_state; assumption.
    + cbn [andb]. rewrite Hr'.
      set (r := skipn (Z.to_nat (off s + clen s)) t).
      assert (HL : Z.of_nat (length r) = len - (off s + clen s)).
      { unfold r. rewrite skipn_length. lia. }
      assert (Hrne : r <> []) by (intros Hn; rewrite Hn in HL; simpl in HL; lia).
      destruct (dec r) as [c w] eqn:Hdr.
      pose proof (dec_width _ Hdec _ _ _ Hrne Hdr) as Hww.
      assert (Hok : post (fun (_ : unit) s' => off s' = off s + clen s /\ cur s <> eof /\ off s < off s')
                      (off s) (Ok tt (mkState (off s + clen s) c w r))).
      { apply post_ok; simpl; [|lia|repeat split; try assumption; lia].
        apply inv_dec_state; [lia|reflexivity|assumption]. }
      destruct (c =? rune_error); [|exact Hok].
      destruct (w =? 0) eqn:Hw0'; [apply Z.eqb_eq in Hw0'; lia|].
      destruct (w =? 1); [|exact Hok].
      apply post_err; simpl; [lia|]. apply errs_ok_one; lia.
Qed.

(* the first Advance of syntax.ParseFile, from scanner.New's state *)
Lemma advance_init :
  post (fun _ s' => off s' = 0) 0 (advance E (init_state E)).
Proof using All.
  unfold advance, init_state. cbn [off clen cur rest]. simpl skipn. rewrite Z.add_0_l.
  destruct (Z.eqb_spec 0 len) as [He|He].
  - cbn [andb negb Z.eqb eof]. apply post_ok; simpl; try lia. apply inv_eof_state; [lia|reflexivity].
  - cbn [andb].
    assert (Hne : t <> []) by (intros Hn; rewrite Hn in Hlen; simpl in Hlen; lia).
    destruct (dec t) as [c w] eqn:Hd.
    pose proof (dec_width _ Hdec _ _ _ Hne Hd) as Hw.
    assert (Hok : post (fun (_ : unit) s' => off s' = 0) 0 (Ok tt (mkState 0 c w t))).
    { apply post_ok; simpl; try lia. apply inv_dec_state; [lia|reflexivity|assumption]. }
    destruct (c =? rune_error); [|exact Hok].
    destruct (w =? 0) eqn:Hw0; [apply Z.eqb_eq in Hw0; lia|].
    destruct (w =? 1); [|exact Hok].
    apply post_err; simpl; [lia|]. apply errs_ok_one; lia.
Qed.

(* Backtrack to the offset of a state that is not at EOF restores that state *)
Lemma backtrack_id s : Inv s -> cur s <> eof -> backtrack E (off s) = s.
Proof using All.
  intros HI Hc. pose proof (inv_facts s HI) as (_ & _ & _ & _ & Hne).
  destruct (Hne Hc) as (_ & _ & _ & Hd). destruct HI as (_ & Hrest & _).
  unfold backtrack. rewrite <- Hrest, <- Hd. destruct s; reflexivity.
Qed.

(* ------------------------------------------------------------------ ReadWhile *)

(* bytes of runes accepted by p have property P *)
Definition rune_bytes (p : Z -> bool) (P : Z -> Prop) : Prop :=
  forall l r w, l <> [] -> dec l = (r, w) -> p r = true -> Forall P (firstn (Z.to_nat w) l).

Lemma rune_bytes_true p : rune_bytes p (fun _ => True).
Proof using All. intros l r w _ _ _. apply Forall_forall. auto. Qed.

Lemma advance_bytes s p P : Inv s -> rune_bytes p P -> cur s <> eof -> p (cur s) = true ->
  Forall P (slice t (off s) (off s + clen s)).
Proof using All.
  intros HI HP Hc Hp. pose proof (rest_length s HI) as HL.
  pose proof (inv_facts s HI) as (_ & _ & _ & _ & Hne).
  destruct (Hne Hc) as (Hw & _ & Ho & Hd). destruct HI as (_ & Hrest & _).
  rewrite (slice_rest t (off s) (clen s) (rest s) Hrest).
  apply (HP (rest s) (cur s) (clen s)); [|now symmetry|assumption].
  intros Hn. rewrite Hn in HL. simpl in HL. lia.
Qed.

Lemma read_while_loop_spec p P start : rune_bytes p P ->
  forall n s, Inv s -> 0 <= start <= off s -> len - off s < Z.of_nat n ->
  Forall P (slice t start (off s)) ->
  post (fun r s' => r = mkRange start (off s') /\ Forall P (slice t start (off s')) /\
                    (p (cur s') = false \/ cur s' = eof))
       (off s) (read_while_loop E p start n s).
Proof using All.
  intros HP. induction n as [|n IH]; intros s HI Hst Hn Hacc.
  - pose proof (inv_facts s HI). lia.
  - cbn [read_while_loop]. destruct (p (cur s)) eqn:Hp; cbn [andb].
    2:{ apply post_ok; [assumption|lia|]. split; [reflexivity|]. split; [assumption|now left]. }
    destruct (Z.eqb_spec (cur s) eof) as [Hc|Hc]; cbn [negb].
    { apply post_ok; [assumption|lia|]. split; [reflexivity|]. split; [assumption|now right]. }
    pose proof (advance_spec s HI) as Ha.
    pose proof (advance_bytes s p P HI HP Hc Hp) as Hb.
    destruct (advance E s) as [[] s1|e s1|]; cbn [post] in Ha; [| |contradiction].
    + destruct Ha as (HI1 & _ & Ho1 & _ & Hlt).
      eapply post_weaken; [apply (IH s1 HI1); try lia| lia | intros a s' _ _ H; exact H].
      rewrite (slice_app t start (off s) (off s1)) by lia.
      apply Forall_app. split; [assumption|]. now rewrite Ho1.
    + destruct Ha as (Hle & He). pose proof (inv_facts s HI).
      apply post_err; [lia|]. apply errs_ok_cons; [lia|lia|assumption].
Qed.

Lemma read_while_spec p P s : rune_bytes p P -> Inv s ->
  post (fun r s' => r = mkRange (off s) (off s') /\ Forall P (slice t (off s) (off s')) /\
                    (p (cur s') = false \/ cur s' = eof))
       (off s) (read_while E p s).
Proof using All.
  intros HP HI. pose proof (inv_facts s HI). unfold read_while.
  apply read_while_loop_spec; try assumption; try lia.
  rewrite slice_nil. constructor.
Qed.

Lemma read_while1_spec p P s : rune_bytes p P -> Inv s ->
  post (fun r s' => r = mkRange (off s) (off s') /\ Forall P (slice t (off s) (off s')) /\
                    off s < off s')
       (off s) (read_while1 E p s).
Proof using All.
  intros HP HI. pose proof (inv_facts s HI) as (H0 & Hcl0 & Hle & _ & _). unfold read_while1.
  destruct (Z.eqb_spec (cur s) eof) as [Hc|Hc].
  { apply post_err; [lia|]. apply errs_ok_one; lia. }
  destruct (p (cur s)) eqn:Hp; cbn [negb].
  2:{ apply post_err; [lia|]. apply errs_ok_one; lia. }
  (* the first iteration of the loop advances *)
  assert (Hex : exists n, e_fuel E = S n /\ (length t <= n)%nat).
  { destruct (e_fuel E) as [|n]; [lia|]. exists n. split; [reflexivity|lia]. }
  destruct Hex as (n & Hf & Hn). rewrite Hf.
  cbn [read_while_loop]. rewrite Hp. destruct (Z.eqb_spec (cur s) eof) as [Hc'|_]; [contradiction|].
  cbn [negb andb].
  pose proof (advance_spec s HI) as Ha.
  pose proof (advance_bytes s p P HI HP Hc Hp) as Hb.
  destruct (advance E s) as [[] s1|e s1|]; cbn [post] in Ha; [| |contradiction].
  - destruct Ha as (HI1 & _ & Ho1 & _ & Hlt).
    eapply post_weaken; [apply (read_while_loop_spec p P (off s) HP n s1 HI1); try lia | lia |].
    + rewrite Ho1. assumption.
    + intros a s' _ Hle' (Hr & Hall & _). split; [assumption|]. split; [assumption|lia].
  - destruct Ha as (Hle' & He).
    apply post_err; [lia|]. apply errs_ok_cons; [lia|lia|assumption].
Qed.

(* ------------------------------------------------------------------ ReadCharacter(With) *)

Lemma read_character_with_spec p s : Inv s ->
  post (fun r s' => r = mkRange (off s) (off s') /\ off s' = off s + clen s /\ off s < off s' /\
                    p (cur s) = true /\ cur s <> eof)
       (off s) (read_character_with E p s).
Proof using All.
  intros HI. pose proof (inv_facts s HI) as (H0 & Hcl0 & Hle & _ & _). unfold read_character_with.
  destruct (Z.eqb_spec (cur s) eof) as [Hc|Hc].
  { apply post_err; [lia|]. apply errs_ok_one; lia. }
  destruct (p (cur s)) eqn:Hp; cbn [negb].
  2:{ apply post_err; [lia|]. apply errs_ok_one; lia. }
  pose proof (advance_spec s HI) as Ha.
  destruct (advance E s) as [[] s1|e s1|]; cbn [post] in Ha; [| |contradiction].
  - destruct Ha as (HI1 & Hle1 & Ho1 & _ & Hlt).
    apply post_ok; [assumption|lia|]. repeat split; try assumption; lia.
  - destruct Ha as (Hle' & He).
    apply post_err; [lia|]. apply errs_ok_cons; [lia|lia|assumption].
Qed.

(* an ASCII character is exactly one byte *)
Lemma read_character_spec c s : Inv s -> 0 <= c < 128 ->
  post (fun r s' => r = mkRange (off s) (off s') /\ off s' = off s + 1 /\
                    slice t (off s) (off s') = [c])
       (off s) (read_character E c s).
Proof using All.
  intros HI Hc. unfold read_character.
  eapply post_weaken; [apply (read_character_with_spec _ s HI)|lia|].
  intros r s' _ _ (Hr & Ho & _ & Hp & _). apply Z.eqb_eq in Hp.
  destruct (cur_ascii s c HI Hp Hc) as (Hw & Hs).
  rewrite Hw in Ho. rewrite Ho in *. repeat split; try assumption; reflexivity.
Qed.

(* ------------------------------------------------------------------ ReadString, ReadAlternative *)

Definition ascii (c : Z) : Prop := 0 <= c < 128.

Lemma read_string_loop_spec str : Forall ascii str ->
  forall start s, Inv s -> 0 <= start <= off s ->
  post (fun r s' => r = mkRange start (off s') /\ off s' = off s + Z.of_nat (length str) /\
                    slice t (off s) (off s') = str)
       (off s) (read_string_loop E str start s).
Proof using All.
  induction 1 as [|c str Hc Hstr IH]; intros start s HI Hst.
  - cbn [read_string_loop length]. apply post_ok; [assumption|lia|].
    rewrite Z.add_0_r, slice_nil. repeat split; lia.
  - pose proof (inv_facts s HI) as (H0 & Hcl0 & Hle & _ & _).
    cbn [read_string_loop]. destruct (Z.eqb_spec c (cur s)) as [He|He]; cbn [negb].
    2:{ apply post_err; [lia|]. apply errs_ok_one; lia. }
    pose proof (advance_spec s HI) as Ha.
    destruct (cur_ascii s c HI (eq_sym He) Hc) as (Hw & Hs).
    destruct (advance E s) as [[] s1|e s1|]; cbn [post] in Ha; [| |contradiction].
    + destruct Ha as (HI1 & Hle1 & Ho1 & _ & Hlt).
      eapply post_weaken; [apply (IH start s1 HI1); lia|lia|].
      intros r s' _ Hle' (Hr & Ho & Hsl). rewrite Hw in Ho1.
      split; [assumption|]. split; [rewrite Ho, Ho1; cbn [length]; lia|].
      rewrite (slice_app t (off s) (off s1) (off s')) by lia.
      rewrite Hsl, Ho1, Hs. reflexivity.
    + destruct Ha as (Hle' & Hee).
      apply post_err; [lia|]. apply errs_ok_cons; [lia|lia|assumption].
Qed.

Lemma read_string_spec str s : Forall ascii str -> Inv s ->
  post (fun r s' => r = mkRange (off s) (off s') /\ off s' = off s + Z.of_nat (length str) /\
                    slice t (off s) (off s') = str)
       (off s) (read_string E str s).
Proof using All.
  intros Hs HI. pose proof (inv_facts s HI). unfold read_string.
  apply read_string_loop_spec; try assumption; lia.
Qed.

Lemma read_alternative_loop_spec ss s : Forall (Forall ascii) ss -> Inv s -> cur s <> eof ->
  post (fun r s' => r = mkRange (off s) (off s') /\ In (slice t (off s) (off s')) ss /\
                    off s' = off s + Z.of_nat (length (slice t (off s) (off s'))))
       (off s) (read_alternative_loop E ss (off s) s).
Proof using All.
  intros Hss HI Hc. pose proof (inv_facts s HI) as (H0 & Hcl0 & Hle & _ & _).
  induction Hss as [|str ss Hstr Hss IH].
  - cbn [read_alternative_loop]. apply post_err; [lia|]. apply errs_ok_one; lia.
  - cbn [read_alternative_loop].
    pose proof (read_string_spec str s Hstr HI) as Hr.
    destruct (read_string E str s) as [r s1|e s1|]; cbn [post] in Hr; [| |contradiction].
    + destruct Hr as (HI1 & Hle1 & Hrr & Ho & Hsl).
      apply post_ok; [assumption|lia|]. split; [assumption|]. split; [left; now symmetry|].
      rewrite Hsl. assumption.
    + rewrite (backtrack_id s HI Hc).
      eapply post_weaken; [apply IH|lia|].
      intros r s' _ _ (Hr' & Hin & Ho). split; [assumption|]. split; [now right|assumption].
Qed.

Lemma read_alternative_spec ss s : Forall (Forall ascii) ss -> Inv s ->
  post (fun r s' => r = mkRange (off s) (off s') /\ In (slice t (off s) (off s')) ss /\
                    off s' = off s + Z.of_nat (length (slice t (off s) (off s'))))
       (off s) (read_alternative E ss s).
Proof using All.
  intros Hss HI. pose proof (inv_facts s HI) as (H0 & Hcl0 & Hle & _ & _). unfold read_alternative.
  destruct (Z.eqb_spec (cur s) eof) as [Hc|Hc].
  - apply post_err; [lia|]. apply errs_ok_one; lia.
  - now apply read_alternative_loop_spec.
Qed.

(* ------------------------------------------------------------------ ReadUntil, ReadN *)
(* not used by the parser; total and in bounds like the others *)

Lemma read_n_loop_spec n : forall start s, Inv s -> 0 <= start <= off s ->
  post (fun r s' => r = mkRange start (off s')) (off s) (read_n_loop E n start s).
Proof using All.
  induction n as [|n IH]; intros start s HI Hst;
    pose proof (inv_facts s HI) as (H0 & Hcl0 & Hle & _ & _).
  - cbn [read_n_loop]. apply post_ok; [assumption|lia|reflexivity].
  - cbn [read_n_loop]. destruct (Z.eqb_spec (cur s) eof) as [Hc|Hc].
    { apply post_err; [lia|]. apply errs_ok_cons; [lia|lia|]. apply errs_ok_one; lia. }
    pose proof (advance_spec s HI) as Ha.
    destruct (advance E s) as [[] s1|e s1|]; cbn [post] in Ha; [| |contradiction].
    + destruct Ha as (HI1 & Hle1 & Ho1 & _ & Hlt).
      eapply post_weaken; [apply (IH start s1 HI1); lia|lia|]. intros r s' _ _ Hr. exact Hr.
    + destruct Ha as (Hle' & Hee).
      apply post_err; [lia|]. apply errs_ok_cons; [lia|lia|assumption].
Qed.

Lemma read_until_loop_spec p start : forall n s, Inv s -> 0 <= start <= off s ->
  len - off s + 1 < Z.of_nat n ->
  post (fun r s' => r = mkRange start (off s')) (off s) (read_until_loop E p start n s).
Proof using All.
  induction n as [|n IH]; intros s HI Hst Hn;
    pose proof (inv_facts s HI) as (H0 & Hcl0 & Hle & _ & _); [lia|].
  cbn [read_until_loop]. destruct (p (cur s)); cbn [negb].
  { apply post_ok; [assumption|lia|reflexivity]. }
  pose proof (advance_spec s HI) as Ha.
  destruct (advance E s) as [[] s1|e s1|]; cbn [post] in Ha; [| |contradiction].
  - destruct Ha as (HI1 & Hle1 & Ho1 & _ & Hlt).
    pose proof (inv_facts s1 HI1) as (_ & _ & Hle2 & _ & _).
    destruct (cur s1 =? eof).
    + apply post_err; [lia|]. apply errs_ok_one; lia.
    + eapply post_weaken; [apply (IH s1 HI1); lia|lia|]. intros r s' _ _ Hr. exact Hr.
  - destruct Ha as (Hle' & Hee).
    apply post_err; [lia|]. apply errs_ok_cons; [lia|lia|assumption].
Qed.

End WithEnv.
