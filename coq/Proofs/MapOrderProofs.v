(* C06, map iteration order.  Where the Go code ranges over a map the model takes an
   association list (kept in key order by Model/Price.v [sm_put]); here each such function is
   shown not to depend on the order of that list: any permutation of the entries gives the
   same result, in the sense that reaches the output.

   1. lookups in a list with distinct keys do not depend on its order;
   2. the DayStart loop of CloseAccounts: the closing transactions are the same multiset;
   3. the DayStart loop of Valuate: the adjustment transactions are the same multiset, and the
      loop fails (missing price) for one order iff it fails for every order;
   4. sorting siblings (balance report): the comparator with the name tie-break of bffd269
      is a strict total order on siblings with distinct names, so the sorted list does not
      depend on the order in which the children map is enumerated, and it is the list the
      model computes (stable sort by weight of the children in name order); without the
      tie-break two enumeration orders give two results;
   5. infer: the candidate list is a function of the set of trained accounts;
   6. portfolio weights: the r.Add calls of a day are the same multiset. *)
From Coq Require Import ZArith QArith List Bool Lia Permutation Sorting.Sorted.
From Knut Require Import Model.Str Model.Dec Model.Date Model.Account Model.Ledger Model.Price
     Model.Journal Model.Check Model.Pipeline Model.Report Model.Perf Model.Weights
     Proofs.StrProofs Proofs.StableSort Proofs.DecValue.
Import ListNotations.
Open Scope bool_scope.
Open Scope Z_scope.

(* ---------------------------------------------------------------- 1. lookups *)

Lemma sm_get_in {V} (m : smap V) k v : sm_get m k = Some v -> In (k, v) m.
Proof.
  induction m as [|[k' v'] m IH]; cbn; [discriminate|].
  destruct (str_eqb k k') eqn:E.
  - apply str_eqb_eq in E. subst. intros H. inversion H. left. reflexivity.
  - intros H. right. apply IH. exact H.
Qed.

Lemma sm_get_nodup {V} (m : smap V) k v : NoDup (map fst m) -> In (k, v) m -> sm_get m k = Some v.
Proof.
  induction m as [|[k' v'] m IH]; cbn; intros Hnd Hin; [contradiction|].
  inversion Hnd as [|? ? Hnot Hnd']; subst. destruct Hin as [H|H].
  - inversion H; subst. rewrite str_eqb_refl. reflexivity.
  - destruct (str_eqb k k') eqn:E.
    + apply str_eqb_eq in E. subst. exfalso. apply Hnot. apply (in_map fst) in H. exact H.
    + apply IH; assumption.
Qed.

(* a Go map lookup: the entries have distinct keys, their order is immaterial *)
Theorem sm_get_perm {V} (m1 m2 : smap V) k :
  NoDup (map fst m1) -> Permutation m1 m2 -> sm_get m1 k = sm_get m2 k.
Proof.
  intros Hnd P.
  assert (Hnd2 : NoDup (map fst m2)) by (eapply Permutation_NoDup; [apply Permutation_map; exact P|exact Hnd]).
  destruct (sm_get m1 k) as [v|] eqn:E1.
  - symmetry. apply sm_get_nodup; [exact Hnd2|]. eapply Permutation_in; [exact P|]. apply sm_get_in. exact E1.
  - destruct (sm_get m2 k) as [v|] eqn:E2; [|reflexivity].
    apply sm_get_in in E2. apply (Permutation_in _ (Permutation_sym P)) in E2.
    apply (sm_get_nodup _ _ _ Hnd) in E2. congruence.
Qed.

Corollary pos_get_perm (m1 m2 : positions) a c :
  NoDup (map fst m1) -> Permutation m1 m2 -> pos_get m1 a c = pos_get m2 a c.
Proof. intros Hnd P. unfold pos_get. rewrite (sm_get_perm m1 m2 _ Hnd P). reflexivity. Qed.

(* ---------------------------------------------------------------- 2. CloseAccounts *)

Lemma closing_txns_values date qs vs1 vs2 :
  (forall a c, pos_get vs1 a c = pos_get vs2 a c) -> closing_txns date qs vs1 = closing_txns date qs vs2.
Proof.
  intros H. induction qs as [|[k [[a c] q]] qs IH]; cbn [closing_txns]; [reflexivity|].
  rewrite H, IH. reflexivity.
Qed.

(* `for k, quantity := range quantities` with `values[k]` looked up: any enumeration order of
   either map gives the same closing transactions, up to their order *)
Theorem closing_txns_perm date qs1 qs2 vs1 vs2 :
  Permutation qs1 qs2 -> NoDup (map fst vs1) -> Permutation vs1 vs2 ->
  Permutation (closing_txns date qs1 vs1) (closing_txns date qs2 vs2).
Proof.
  intros P Hnd Pv.
  rewrite (closing_txns_values date qs2 vs2 vs1) by (intros a c; symmetry; apply pos_get_perm; assumption).
  clear Pv Hnd vs2.
  induction P as [|[k [[a c] q]] l l' P IH|[k1 [[a1 c1] q1]] [k2 [[a2 c2] q2]] l|l l' l'' P1 IH1 P2 IH2].
  - constructor.
  - cbn [closing_txns]. destruct (_ && _); [exact IH|constructor; exact IH].
  - cbn [closing_txns]. destruct (is_zero q2 && _); destruct (is_zero q1 && _); try reflexivity. apply perm_swap.
  - eapply perm_trans; eassumption.
Qed.

(* ---------------------------------------------------------------- 3. Valuate *)

(* one iteration of the loop *)
Inductive adj := AdjSkip | AdjErr (c : commodity) | AdjTxn (t : txn).

Definition adj_of (v : commodity) (date : Z) (prev cur : option nprices) (e : str * (account * commodity * dec)) : adj :=
  let '(_, (a, c, q)) := e in
  if str_eqb c v || negb (is_AL a) || is_zero q then AdjSkip
  else match np_price_opt prev c with
       | None => AdjErr c
       | Some pp =>
         match np_price_opt cur c with
         | None => AdjErr c
         | Some cp =>
           let delta := sub cp pp in
           if is_zero delta then AdjSkip
           else AdjTxn (mkTxn date (s_adjust c a)
                              (pair_build (valuation_account_for a) a c dec_nil (multiply delta q)) (Some [c]))
         end
       end.

Lemma val_adjustments_cons v date prev cur e rest :
  val_adjustments v date prev cur (e :: rest) =
  match adj_of v date prev cur e with
  | AdjSkip => val_adjustments v date prev cur rest
  | AdjErr c => RErr k_no_price c
  | AdjTxn t => rbind (val_adjustments v date prev cur rest) (fun ts => ROk (t :: ts))
  end.
Proof.
  destruct e as [k [[a c] q]]. cbn [val_adjustments adj_of].
  destruct (str_eqb c v || negb (is_AL a) || is_zero q); [reflexivity|].
  destruct (np_price_opt prev c); [|reflexivity]. destruct (np_price_opt cur c); [|reflexivity].
  destruct (is_zero _); reflexivity.
Qed.

(* same transactions up to order; or both fail for a missing price (which commodity the message
   names may differ: the message goes to stderr, the exit status is the same) *)
Definition adj_equiv (r1 r2 : presult (list txn)) : Prop :=
  match r1, r2 with
  | ROk a, ROk b => Permutation a b
  | RErr k1 _, RErr k2 _ => k1 = k_no_price /\ k2 = k_no_price
  | _, _ => False
  end.

Lemma val_adjustments_no_panic v date prev cur pos :
  match val_adjustments v date prev cur pos with
  | ROk _ => True | RErr k _ => k = k_no_price | RPanic _ => False end.
Proof.
  induction pos as [|e pos IH]; [exact I|]. rewrite val_adjustments_cons.
  destruct (adj_of v date prev cur e); [exact IH|reflexivity|].
  destruct (val_adjustments v date prev cur pos); cbn [rbind]; auto.
Qed.

Lemma adj_equiv_refl v date prev cur pos :
  adj_equiv (val_adjustments v date prev cur pos) (val_adjustments v date prev cur pos).
Proof.
  pose proof (val_adjustments_no_panic v date prev cur pos) as H. unfold adj_equiv.
  destruct (val_adjustments v date prev cur pos); [reflexivity|split; assumption|contradiction].
Qed.

Lemma adj_equiv_trans r1 r2 r3 : adj_equiv r1 r2 -> adj_equiv r2 r3 -> adj_equiv r1 r3.
Proof.
  unfold adj_equiv. destruct r1, r2, r3; try tauto.
  intros H1 H2. eapply perm_trans; eassumption.
Qed.

(* `for pos, qty := range quantities`: any enumeration order of the position map *)
Theorem val_adjustments_perm v date prev cur pos1 pos2 :
  Permutation pos1 pos2 ->
  adj_equiv (val_adjustments v date prev cur pos1) (val_adjustments v date prev cur pos2).
Proof.
  intros P. induction P as [|e l l' P IH|e1 e2 l|l l' l'' P1 IH1 P2 IH2].
  - cbn. constructor.
  - rewrite !val_adjustments_cons. destruct (adj_of v date prev cur e).
    + exact IH.
    + cbn. split; reflexivity.
    + unfold adj_equiv in *. destruct (val_adjustments v date prev cur l), (val_adjustments v date prev cur l');
        cbn [rbind]; try tauto. constructor. exact IH.
  - rewrite !val_adjustments_cons.
    pose proof (val_adjustments_no_panic v date prev cur l) as Hl.
    destruct (adj_of v date prev cur e1), (adj_of v date prev cur e2);
      destruct (val_adjustments v date prev cur l); cbn [rbind adj_equiv]; try tauto;
      try reflexivity; try (split; reflexivity); try (split; [reflexivity|assumption]);
      try (split; [assumption|reflexivity]); try (split; assumption).
    apply perm_swap.
  - eapply adj_equiv_trans; eassumption.
Qed.

(* ---------------------------------------------------------------- 4. sorting siblings *)
From Coq Require Import Lqa.
From Knut Require Import Proofs.DecProofs Proofs.CheckPerm.

(* Decimal.LessThan compares values *)
Lemma coef_neg_value d : (coef d < 0)%Z <-> (dvalue d < 0)%Q.
Proof.
  unfold dvalue. pose proof (Qpower_ten_pos (ex d)) as Hp. split; intros H.
  - assert (H1 : (inject_Z (coef d) < 0)%Q) by (rewrite (Zlt_Qlt (coef d) 0) in H; exact H).
    assert (H2 : (inject_Z (coef d) * Qpower ten (ex d) < 0 * Qpower ten (ex d))%Q)
      by (apply Qmult_lt_compat_r; assumption).
    lra.
  - destruct (Z_lt_le_dec (coef d) 0) as [Hlt|Hge]; [exact Hlt|exfalso].
    assert (H1 : (0 <= inject_Z (coef d))%Q) by (rewrite (Zle_Qle 0 (coef d)) in Hge; exact Hge).
    assert (H2 : (0 <= inject_Z (coef d) * Qpower ten (ex d))%Q) by (apply Qmult_le_0_compat; lra).
    lra.
Qed.

Lemma less_than_value a b : less_than a b = true <-> (dvalue a < dvalue b)%Q.
Proof.
  unfold less_than, cmp.
  assert (Hs : (let '(p, q) := rescale_pair a b in coef p - coef q)%Z = coef (sub a b)).
  { unfold sub. destruct (rescale_pair a b). reflexivity. }
  assert (Hz : (coef (sub a b) < 0)%Z <-> (dvalue a < dvalue b)%Q).
  { rewrite coef_neg_value, dvalue_sub. split; intros H; lra. }
  rewrite <- Hz, <- Hs. destruct (rescale_pair a b) as [p q].
  destruct (coef p ?= coef q)%Z eqn:E.
  - apply Z.compare_eq in E. split; [discriminate|lia].
  - rewrite Z.compare_lt_iff in E. split; [lia|reflexivity].
  - rewrite Z.compare_gt_iff in E. split; [discriminate|lia].
Qed.

Lemma less_than_irrefl a : less_than a a = false.
Proof.
  destruct (less_than a a) eqn:E; [|reflexivity]. apply less_than_value in E. lra.
Qed.

Lemma less_than_trans a b c : less_than a b = true -> less_than b c = true -> less_than a c = true.
Proof. rewrite !less_than_value. lra. Qed.

Lemma less_than_cotrans a b c : less_than a b = true -> less_than a c = true \/ less_than c b = true.
Proof.
  rewrite !less_than_value. intros H.
  destruct (Qlt_le_dec (dvalue a) (dvalue c)) as [H1|H1]; [left; exact H1|right; lra].
Qed.

(* the sums that make a weight: `for _, ch := range n.Children { w = w.Add(ch.Value.Weight) }`
   and Amounts.SumOver range over maps; decimal addition is exact, so any order gives the
   same decimal (coefficient and exponent) *)
Lemma fold_add_perm {B} (f : B -> dec) l1 l2 : Permutation l1 l2 ->
  forall w, fold_left (fun w c => add w (f c)) l1 w = fold_left (fun w c => add w (f c)) l2 w.
Proof.
  intros P. apply fold_left_perm; [|exact P].
  intros a x y. rewrite !add_assoc. f_equal. apply add_comm.
Qed.

Theorem node_weight_perm valued s p hv a1 a2 ch1 ch2 :
  Permutation a1 a2 -> Permutation ch1 ch2 ->
  node_weight valued (Node s p hv a1 ch1) = node_weight valued (Node s p hv a2 ch2).
Proof.
  intros Pa Pc. cbn [node_weight].
  rewrite (fold_add_perm (node_weight valued) ch1 ch2 Pc).
  destruct valued; [|reflexivity].
  rewrite (fold_add_perm (fun kv : rkey * dec => snd kv) a1 a2 Pa). reflexivity.
Qed.

(* the three comparators between siblings *)
Definition by_rank (a b : node) : bool := top_ltb a b.
Definition by_name (a b : node) : bool := str_ltb (n_seg a) (n_seg b).
Definition by_weight (valued : bool) (a b : node) : bool := less_than (node_weight valued a) (node_weight valued b).
(* SortWeighted since bffd269: weight, then name *)
Definition by_weight_name (valued : bool) : node -> node -> bool := lex (by_weight valued) by_name.


Lemma by_name_irrefl a : by_name a a = false.
Proof. apply str_ltb_irrefl. Qed.
Lemma by_name_trans a b c : by_name a b = true -> by_name b c = true -> by_name a c = true.
Proof. apply str_ltb_trans. Qed.
Lemma by_name_cotrans a b c : by_name a b = true -> by_name a c = true \/ by_name c b = true.
Proof. apply (klt_cotrans str_ltb str_ltb_trans str_ltb_total). Qed.
Lemma eqv_by_name a b : eqv by_name a b = true <-> n_seg a = n_seg b.
Proof. apply (eqv_by_key str_ltb n_seg str_ltb_irrefl str_ltb_total). Qed.

Lemma by_weight_irrefl valued a : by_weight valued a a = false.
Proof. apply less_than_irrefl. Qed.
Lemma by_weight_trans valued a b c : by_weight valued a b = true -> by_weight valued b c = true -> by_weight valued a c = true.
Proof. apply less_than_trans. Qed.
Lemma by_weight_cotrans valued a b c : by_weight valued a b = true -> by_weight valued a c = true \/ by_weight valued c b = true.
Proof. apply less_than_cotrans. Qed.

Lemma zltb_trans a b c : (a <? b) = true -> (b <? c) = true -> (a <? c) = true.
Proof. rewrite !Z.ltb_lt. lia. Qed.
Lemma zltb_total a b : (a <? b) = false -> (b <? a) = false -> a = b.
Proof. rewrite !Z.ltb_ge. lia. Qed.

Lemma by_rank_irrefl a : by_rank a a = false.
Proof. apply Z.ltb_irrefl. Qed.
Lemma by_rank_trans a b c : by_rank a b = true -> by_rank b c = true -> by_rank a c = true.
Proof. apply zltb_trans. Qed.
Lemma by_rank_cotrans a b c : by_rank a b = true -> by_rank a c = true \/ by_rank c b = true.
Proof. apply (klt_cotrans Z.ltb zltb_trans zltb_total). Qed.
Lemma eqv_by_rank a b : eqv by_rank a b = true <-> acc_rank (n_path a) = acc_rank (n_path b).
Proof. apply (eqv_by_key Z.ltb (fun n => acc_rank (n_path n)) Z.ltb_irrefl zltb_total). Qed.

Lemma nodup_map_inj {A B} (f : A -> B) l x y : NoDup (map f l) -> In x l -> In y l -> f x = f y -> x = y.
Proof.
  induction l as [|z l IH]; cbn; intros Hnd Hx Hy E; [contradiction|].
  inversion Hnd as [|? ? Hnot Hnd']; subst. destruct Hx as [Hx|Hx], Hy as [Hy|Hy]; subst.
  - reflexivity.
  - exfalso. apply Hnot. rewrite E. apply in_map. exact Hy.
  - exfalso. apply Hnot. rewrite <- E. apply in_map. exact Hx.
  - apply IH; assumption.
Qed.

(* the children of a node are the values of a map keyed by segment: distinct names, any order.
   With the comparators of the repaired code the sorted list does not depend on that order. *)
Theorem sort_weight_name_unique valued l1 l2 :
  Permutation l1 l2 -> NoDup (map n_seg l1) ->
  sort_by (by_weight_name valued) l1 = sort_by (by_weight_name valued) l2.
Proof.
  intros P Hnd. unfold by_weight_name.
  apply (sort_by_perm_inj _
           (lex_irrefl _ _ (by_weight_irrefl valued) by_name_irrefl)
           (lex_trans _ _ (by_weight_trans valued) (by_weight_cotrans valued) by_name_trans)
           (lex_cotrans _ _ (by_weight_cotrans valued) by_name_cotrans) l1 l2 P).
  intros x y Hx Hy E. apply eqv_lex in E. destruct E as [_ E]. apply eqv_by_name in E.
  exact (nodup_map_inj n_seg l1 x y Hnd Hx Hy E).
Qed.

Theorem sort_name_unique l1 l2 :
  Permutation l1 l2 -> NoDup (map n_seg l1) -> sort_by by_name l1 = sort_by by_name l2.
Proof.
  intros P Hnd. apply (sort_by_perm_inj _ by_name_irrefl by_name_trans by_name_cotrans l1 l2 P).
  intros x y Hx Hy E. apply eqv_by_name in E. exact (nodup_map_inj n_seg l1 x y Hnd Hx Hy E).
Qed.

(* top level: the account types; the (at most five) top-level accounts have distinct types *)
Theorem sort_rank_unique l1 l2 :
  Permutation l1 l2 -> NoDup (map (fun n => acc_rank (n_path n)) l1) -> sort_by by_rank l1 = sort_by by_rank l2.
Proof.
  intros P Hnd. apply (sort_by_perm_inj _ by_rank_irrefl by_rank_trans by_rank_cotrans l1 l2 P).
  intros x y Hx Hy E. apply eqv_by_rank in E.
  exact (nodup_map_inj (fun n => acc_rank (n_path n)) l1 x y Hnd Hx Hy E).
Qed.

(* the model keeps the children in name order and sorts them stably by weight alone
   (Model/Report.v sibling_ltb): that is the sort by weight, then name *)
Theorem model_sort_is_tiebreak valued l :
  StronglySorted (fun a b => by_name a b = true) l ->
  sort_by (by_weight valued) l = sort_by (by_weight_name valued) l.
Proof. apply (sort_by_tiebreak _ _ by_name_irrefl by_name_trans). Qed.

(* Model/Report.v [sibling_ltb] on siblings below the top level, and at the top level *)
Lemma sibling_ltb_below alpha valued a b :
  acc_level (n_path a) <> 1 ->
  sibling_ltb alpha valued a b = if alpha then by_name a b else by_weight valued a b.
Proof.
  intros H. unfold sibling_ltb. apply Z.eqb_neq in H. rewrite H. reflexivity.
Qed.

Lemma sibling_ltb_top alpha valued a b :
  acc_level (n_path a) = 1 -> acc_level (n_path b) = 1 -> sibling_ltb alpha valued a b = by_rank a b.
Proof. intros Ha Hb. unfold sibling_ltb. rewrite Ha, Hb. reflexivity. Qed.

(* the model's sorted children = the Go comparator applied to any enumeration [l'] of the
   children map *)
Theorem sibling_sort_order_free alpha valued l l' :
  StronglySorted (fun a b => by_name a b = true) l -> NoDup (map n_seg l) -> Permutation l l' ->
  (forall n, In n l -> acc_level (n_path n) <> 1) ->
  sort_by (sibling_ltb alpha valued) l = sort_by (if alpha then by_name else by_weight_name valued) l'.
Proof.
  intros Hs Hnd P Hlev.
  rewrite (sort_by_ext_in (sibling_ltb alpha valued) (if alpha then by_name else by_weight valued) l).
  - destruct alpha.
    + apply sort_name_unique; assumption.
    + rewrite (model_sort_is_tiebreak valued l Hs). apply sort_weight_name_unique; assumption.
  - intros x y Hx Hy. rewrite (sibling_ltb_below alpha valued x y (Hlev x Hx)). destruct alpha; reflexivity.
Qed.

Theorem top_sort_order_free alpha valued l l' :
  NoDup (map (fun n => acc_rank (n_path n)) l) -> Permutation l l' ->
  (forall n, In n l -> acc_level (n_path n) = 1) ->
  sort_by (sibling_ltb alpha valued) l = sort_by by_rank l'.
Proof.
  intros Hnd P Hlev.
  rewrite (sort_by_ext_in (sibling_ltb alpha valued) by_rank l).
  - apply sort_rank_unique; assumption.
  - intros x y Hx Hy. apply sibling_ltb_top; apply Hlev; assumption.
Qed.

(* before bffd269: weight only.  Two accounts without valued amounts (an unvalued report: all
   weights are zero) come out in the order in which the map was enumerated. *)
Definition w_node (name : str) : node := Node name [s_Assets; name] true [] [].

Theorem pinned_sort_refuted :
  exists l1 l2, Permutation l1 l2 /\ NoDup (map n_seg l1) /\
    sort_by (by_weight false) l1 <> sort_by (by_weight false) l2.
Proof.
  exists [w_node [65]; w_node [66]], [w_node [66]; w_node [65]]. split; [apply perm_swap|]. split.
  - cbn. repeat constructor; cbn; intuition discriminate.
  - vm_compute. discriminate.
Qed.

(* ---------------------------------------------------------------- 6. portfolio weights *)

Definition entries_equiv (r1 r2 : wresult (list entry)) : Prop :=
  match r1, r2 with
  | WOk a, WOk b => Permutation a b
  | WPanic, WPanic => True
  | _, _ => False
  end.

Lemma entries_equiv_refl r : entries_equiv r r.
Proof. destruct r; cbn; auto. Qed.

Lemma entries_equiv_trans r1 r2 r3 : entries_equiv r1 r2 -> entries_equiv r2 r3 -> entries_equiv r1 r3.
Proof. destruct r1, r2, r3; cbn; try tauto. apply perm_trans. Qed.

(* `for c, v := range V1 { r.Add(path(c), date, v/total) }`: the same calls in any order (the
   total is the exact sum here; Go adds float64 in map order, see LEVEL_NOTE) *)
Theorem day_entries_perm u m date total v1 v1' :
  Permutation v1 v1' -> entries_equiv (day_entries u m date total v1) (day_entries u m date total v1').
Proof.
  intros P. induction P as [|[c v] l l' P IH|[c1 x1] [c2 x2] l|l l' l'' P1 IH1 P2 IH2].
  - cbn. constructor.
  - cbn [day_entries]. destruct (map_path m (locate u c)); [|exact I].
    destruct (day_entries u m date total l), (day_entries u m date total l'); cbn in *; try tauto.
    constructor. exact IH.
  - cbn [day_entries].
    destruct (map_path m (locate u c1)), (map_path m (locate u c2));
      destruct (day_entries u m date total l); cbn; auto. apply perm_swap.
  - eapply entries_equiv_trans; eassumption.
Qed.

(* ---------------------------------------------------------------- 7. report totals *)
From Coq Require Import Setoid Morphisms.
From Knut Require Import Proofs.ReportSum.
Open Scope Q_scope.

(* a booking into the report: Report.Insert(date, account, commodity, amount) *)
Definition booking_ins := (option Z * account * commodity * dec)%type.

Definition insert_all (l : list booking_ins) (r : report) : report :=
  fold_left (fun r x => let '(d, a, c, v) := x in report_insert r d a c v) l r.

Definition contrib_sum (f : rkey -> rkey) (k' : rkey) (l : list booking_ins) : Q :=
  fold_right (fun x acc => (let '(d, a, c, v) := x in contrib f k' (d, Some c) v) + acc) 0 l.

Lemma rsum_insert_all f k' l : forall r, rsum f k' (insert_all l r) == rsum f k' r + contrib_sum f k' l.
Proof.
  induction l as [|[[[d a] c] v] l IH]; intros r; cbn [insert_all fold_left contrib_sum fold_right].
  - ring.
  - change (fold_left _ l ?r0) with (insert_all l r0). rewrite IH, rsum_insert.
    change (fold_right _ 0 l) with (contrib_sum f k' l). ring.
Qed.

Lemma contrib_sum_perm f k' l1 l2 : Permutation l1 l2 -> contrib_sum f k' l1 == contrib_sum f k' l2.
Proof.
  intros P. induction P as [|x l l' P IH|x y l|l l' l'' P1 IH1 P2 IH2]; cbn [contrib_sum fold_right].
  - reflexivity.
  - change (fold_right _ 0 l) with (contrib_sum f k' l). change (fold_right _ 0 l') with (contrib_sum f k' l').
    rewrite IH. reflexivity.
  - ring.
  - rewrite IH1. exact IH2.
Qed.

(* every total of the report (any cell: f maps the keys of the bookings to the cell's key) is
   the same for every order in which the bookings are inserted -- in particular for every
   order of the adjustment and closing transactions of sections 2 and 3 *)
Theorem report_totals_order_free f k' l1 l2 r :
  Permutation l1 l2 -> rsum f k' (insert_all l1 r) == rsum f k' (insert_all l2 r).
Proof. intros P. rewrite !rsum_insert_all, (contrib_sum_perm f k' l1 l2 P). reflexivity. Qed.
