(* C06, map iteration order.  Where the Go code ranges over a map the model takes an
   association list (kept in key order by Model/Price.v [sm_put]); here each such function is
   shown not to depend on the order of that list: any permutation of the entries gives the
   same result, in the sense that reaches the output.

   1. lookups in a list with distinct keys do not depend on its order;
   2. the DayStart loop of CloseAccounts: the closing transactions are the same multiset;
   3. the DayStart loop of Valuate: the adjustment transactions are the same multiset, and the
      loop fails (missing price) for one order iff it fails for every order;
   4. sorting siblings (balance report): the comparator with the name tie-break of bffd269
      is a strict total order on siblings with distinct names, so the sorted list does not
      depend on the order in which the children map is enumerated, and it is the list the
      model computes (stable sort by weight of the children in name order); without the
      tie-break two enumeration orders give two results;
   5. infer: the candidate list is a function of the set of trained accounts;
   6. portfolio weights: the r.Add calls of a day are the same multiset. *)
From Coq Require Import ZArith QArith List Bool Lia Permutation Sorting.Sorted.
From Knut Require Import Model.Str Model.Dec Model.Date Model.Account Model.Ledger Model.Price
     Model.Journal Model.Check Model.Pipeline Model.Report Model.Perf Model.Weights
     Proofs.StrProofs Proofs.StableSort Proofs.DecValue.
Import ListNotations.
Open Scope bool_scope.
Open Scope Z_scope.

(* ---------------------------------------------------------------- 1. lookups *)

Lemma sm_get_in {V} (m : smap V) k v : sm_get m k = Some v -> In (k, v) m.
Proof.
  induction m as [|[k' v'] m IH]; cbn; [discriminate|].
  destruct (str_eqb k k') eqn:E.
  - apply str_eqb_eq in E. subst. intros H. inversion H. left. reflexivity.
  - intros H. right. apply IH. exact H.
Qed.

Lemma sm_get_nodup {V} (m : smap V) k v : NoDup (map fst m) -> In (k, v) m -> sm_get m k = Some v.
Proof.
  induction m as [|[k' v'] m IH]; cbn; intros Hnd Hin; [contradiction|].
  inversion Hnd as [|? ? Hnot Hnd']; subst. destruct Hin as [H|H].
  - inversion H; subst. rewrite str_eqb_refl. reflexivity.
  - destruct (str_eqb k k') eqn:E.
    + apply str_eqb_eq in E. subst. exfalso. apply Hnot. apply (in_map fst) in H. exact H.
    + apply IH; assumption.
Qed.

(* a Go map lookup: the entries have distinct keys, their order is immaterial *)
Theorem sm_get_perm {V} (m1 m2 : smap V) k :
  NoDup (map fst m1) -> Permutation m1 m2 -> sm_get m1 k = sm_get m2 k.
Proof.
  intros Hnd P.
  assert (Hnd2 : NoDup (map fst m2)) by (eapply Permutation_NoDup; [apply Permutation_map; exact P|exact Hnd]).
  destruct (sm_get m1 k) as [v|] eqn:E1.
  - symmetry. apply sm_get_nodup; [exact Hnd2|]. eapply Permutation_in; [exact P|]. apply sm_get_in. exact E1.
  - destruct (sm_get m2 k) as [v|] eqn:E2; [|reflexivity].
    apply sm_get_in in E2. apply (Permutation_in _ (Permutation_sym P)) in E2.
    apply (sm_get_nodup _ _ _ Hnd) in E2. congruence.
Qed.

Corollary pos_get_perm (m1 m2 : positions) a c :
  NoDup (map fst m1) -> Permutation m1 m2 -> pos_get m1 a c = pos_get m2 a c.
Proof. intros Hnd P. unfold pos_get. rewrite (sm_get_perm m1 m2 _ Hnd P). reflexivity. Qed.

(* ---------------------------------------------------------------- 2. CloseAccounts *)

Lemma closing_txns_values date qs vs1 vs2 :
  (forall a c, pos_get vs1 a c = pos_get vs2 a c) -> closing_txns date qs vs1 = closing_txns date qs vs2.
Proof.
  intros H. induction qs as [|[k [[a c] q]] qs IH]; cbn [closing_txns]; [reflexivity|].
  rewrite H, IH. reflexivity.
Qed.

(* `for k, quantity := range quantities` with `values[k]` looked up: any enumeration order of
   either map gives the same closing transactions, up to their order *)
Theorem closing_txns_perm date qs1 qs2 vs1 vs2 :
  Permutation qs1 qs2 -> NoDup (map fst vs1) -> Permutation vs1 vs2 ->
  Permutation (closing_txns date qs1 vs1) (closing_txns date qs2 vs2).
Proof.
  intros P Hnd Pv.
  rewrite (closing_txns_values date qs2 vs2 vs1) by (intros a c; symmetry; apply pos_get_perm; assumption).
  clear Pv Hnd vs2.
  induction P as [|[k [[a c] q]] l l' P IH|[k1 [[a1 c1] q1]] [k2 [[a2 c2] q2]] l|l l' l'' P1 IH1 P2 IH2].
  - constructor.
  - cbn [closing_txns]. destruct (_ && _); [exact IH|constructor; exact IH].
  - cbn [closing_txns]. destruct (is_zero q2 && _); destruct (is_zero q1 && _); try reflexivity. apply perm_swap.
  - eapply perm_trans; eassumption.
Qed.

(* ---------------------------------------------------------------- 3. Valuate *)

(* one iteration of the loop *)
Inductive adj := AdjSkip | AdjErr (c : commodity) | AdjTxn (t : txn).

Definition adj_of (v : commodity) (date : Z) (prev cur : option nprices) (e : str * (account * commodity * dec)) : adj :=
  let '(_, (a, c, q)) := e in
  if str_eqb c v || negb (is_AL a) || is_zero q then AdjSkip
  else match np_price_opt prev c with
       | None => AdjErr c
       | Some pp =>
         match np_price_opt cur c with
         | None => AdjErr c
         | Some cp =>
           let delta := sub cp pp in
           if is_zero delta then AdjSkip
           else AdjTxn (mkTxn date (s_adjust c a)
                              (pair_build (valuation_account_for a) a c dec_nil (multiply delta q)) (Some [c]))
         end
       end.

Lemma val_adjustments_cons v date prev cur e rest :
  val_adjustments v date prev cur (e :: rest) =
  match adj_of v date prev cur e with
  | AdjSkip => val_adjustments v date prev cur rest
  | AdjErr c => RErr k_no_price c
  | AdjTxn t => rbind (val_adjustments v date prev cur rest) (fun ts => ROk (t :: ts))
  end.
Proof.
  destruct e as [k [[a c] q]]. cbn [val_adjustments adj_of].
  destruct (str_eqb c v || negb (is_AL a) || is_zero q); [reflexivity|].
  destruct (np_price_opt prev c); [|reflexivity]. destruct (np_price_opt cur c); [|reflexivity].
  destruct (is_zero _); reflexivity.
Qed.

(* same transactions up to order; or both fail for a missing price (which commodity the message
   names may differ: the message goes to stderr, the exit status is the same) *)
Definition adj_equiv (r1 r2 : presult (list txn)) : Prop :=
  match r1, r2 with
  | ROk a, ROk b => Permutation a b
  | RErr k1 _, RErr k2 _ => k1 = k_no_price /\ k2 = k_no_price
  | _, _ => False
  end.

Lemma val_adjustments_no_panic v date prev cur pos :
  match val_adjustments v date prev cur pos with
  | ROk _ => True | RErr k _ => k = k_no_price | RPanic _ => False end.
Proof.
  induction pos as [|e pos IH]; [exact I|]. rewrite val_adjustments_cons.
  destruct (adj_of v date prev cur e); [exact IH|reflexivity|].
  destruct (val_adjustments v date prev cur pos); cbn [rbind]; auto.
Qed.

Lemma adj_equiv_refl v date prev cur pos :
  adj_equiv (val_adjustments v date prev cur pos) (val_adjustments v date prev cur pos).
Proof.
  pose proof (val_adjustments_no_panic v date prev cur pos) as H. unfold adj_equiv.
  destruct (val_adjustments v date prev cur pos); [reflexivity|split; assumption|contradiction].
Qed.

Lemma adj_equiv_trans r1 r2 r3 : adj_equiv r1 r2 -> adj_equiv r2 r3 -> adj_equiv r1 r3.
Proof.
  unfold adj_equiv. destruct r1, r2, r3; try tauto.
  intros H1 H2. eapply perm_trans; eassumption.
Qed.

(* `for pos, qty := range quantities`: any enumeration order of the position map *)
Theorem val_adjustments_perm v date prev cur pos1 pos2 :
  Permutation pos1 pos2 ->
  adj_equiv (val_adjustments v date prev cur pos1) (val_adjustments v date prev cur pos2).
Proof.
  intros P. induction P as [|e l l' P IH|e1 e2 l|l l' l'' P1 IH1 P2 IH2].
  - cbn. constructor.
  - rewrite !val_adjustments_cons. destruct (adj_of v date prev cur e).
    + exact IH.
    + cbn. split; reflexivity.
    + unfold adj_equiv in *. destruct (val_adjustments v date prev cur l), (val_adjustments v date prev cur l');
        cbn [rbind]; try tauto. constructor. exact IH.
  - rewrite !val_adjustments_cons.
    pose proof (val_adjustments_no_panic v date prev cur l) as Hl.
    destruct (adj_of v date prev cur e1), (adj_of v date prev cur e2);
      destruct (val_adjustments v date prev cur l); cbn [rbind adj_equiv]; try tauto;
      try reflexivity; try (split; reflexivity); try (split; [reflexivity|assumption]);
      try (split; [assumption|reflexivity]); try (split; assumption).
    apply perm_swap.
  - eapply adj_equiv_trans; eassumption.
Qed.
