(* Concrete runs of the register model (Model/Register.v) on the journal of Proofs/OrderWitness.v:
   the hypotheses of the theorems of Properties/C06reg.v are satisfiable, and the two refutations. *)
From Coq Require Import ZArith List Bool Permutation.
From Knut Require Import Model.Str Model.Dec Model.Date Model.Account Model.Ledger Model.Price Model.Journal
     Model.Check Model.Pipeline Model.Table Model.Report Model.Cli Model.Loader Model.CliSafe Model.Register
     Proofs.OrderCmd Proofs.OrderWitness Proofs.RegisterTotal.
Import ListNotations.
Open Scope bool_scope.
Open Scope Z_scope.

(* register --to .. --months -v CHF -a -d: valued, source and description columns *)
Definition rw_cfg : register_cfg :=
  mkRegisterCfg 0 (w_d0 + 90) Monthly 0 (Some w_chf) false true true false [] [] [] [] [] true.
(* register --to .. -c --digits 2 -k *)
Definition rw_cfg_plain : register_cfg :=
  mkRegisterCfg 0 (w_d0 + 90) Once 0 None true false false false [] [] [] [] [] true.
Definition rw_tc : text_cfg := mkTextCfg false 2.

Lemma rw_bytes_equal :
  register_text rw_cfg rw_tc w_journal = register_text rw_cfg rw_tc w_permuted /\
  register_text rw_cfg_plain rw_tc w_journal = register_text rw_cfg_plain rw_tc w_permuted /\
  (exists out, register_text rw_cfg rw_tc w_journal = COk out /\ (1000 <? Z.of_nat (length out)) = true) /\
  (exists t, register_table rw_cfg w_journal = COk t /\ length (t_rows t) = 15%nat).
Proof.
  vm_compute. repeat split; try reflexivity.
  - eexists. split; reflexivity.
  - eexists. split; reflexivity.
Qed.

(* -m 0,Expenses hides the Dest account Expenses:R *)
Definition rw_hide : list rule := [mkRule 0 0 (Some (mkRx false s_Expenses false))].
Definition rw_cfg_hidden : register_cfg :=
  mkRegisterCfg 0 (w_d0 + 90) Once 0 None false false false false rw_hide [] [] [] [] true.

Lemma rw_hidden_panics :
  register_text rw_cfg_hidden rw_tc w_journal = CPanic k_nil_account /\
  mapping_flag_ok rw_hide = true /\ mapping_shows rw_hide = false.
Proof. vm_compute. repeat split; reflexivity. Qed.

(* two keys of one date with the same Dest and no commodity shown, different descriptions: the
   pinned comparison leaves them in the order of the enumeration *)
Definition rw_k1 : rkey := mkRKey (w_d0 + 1) None (Some w_A) None [50].
Definition rw_k2 : rkey := mkRKey (w_d0 + 1) None (Some w_A) None [51].
Definition rw_entries : list (rkey * dec) := [(rw_k1, mkDec 500 0); (rw_k2, mkDec 77 (-1))].
Definition rw_rc : reg_render_cfg := mkRegRenderCfg false false true.

Lemma rw_pinned_depends_on_enumeration :
  Permutation rw_entries (rev rw_entries) /\ NoDup (map fst rw_entries) /\
  reg_render_node_pinned rw_rc (table_new (reg_groups rw_rc)) rw_entries <>
  reg_render_node_pinned rw_rc (table_new (reg_groups rw_rc)) (rev rw_entries) /\
  reg_render_node rw_rc (table_new (reg_groups rw_rc)) rw_entries =
  reg_render_node rw_rc (table_new (reg_groups rw_rc)) (rev rw_entries).
Proof.
  split; [apply Permutation_rev|].
  split; [repeat constructor; cbn [In]; intros H; repeat (destruct H as [H|H]; [discriminate H|]); exact H|].
  split; [vm_compute; discriminate|vm_compute; reflexivity].
Qed.

(* ------------------------------------------------------------------ register against balance *)
From Coq Require Import QArith.
From Knut Require Import Proofs.DecValue Proofs.LedgerProofs Proofs.RegisterBalance.

(* register -v CHF -c -a -d --months  /  balance -v CHF --months --diff --close=false *)
Definition rw_cfg_c : register_cfg :=
  mkRegisterCfg 0 (w_d0 + 90) Monthly 0 (Some w_chf) true true true false [] [] [] [] [] true.
Definition rw_bcfg : balance_cfg :=
  mkBalanceCfg 0 (w_d0 + 90) Monthly 0 true false (Some w_chf) true [] [] [] [] [] true.
Definition rw_col : Z := Eval vm_compute in Date.of_civil 2020 1 31.

Lemma rw_agree : cfgs_agree rw_cfg_c rw_bcfg.
Proof. constructor; reflexivity. Qed.

Lemma rw_matches :
  exists rr rb part,
    register_report rw_cfg_c w_journal = COk rr /\ balance_report rw_bcfg w_journal = COk (rb, part) /\
    In rw_col (end_dates part) /\ rw_col <> 0%Z /\
    (reg_rows_total rr rw_col w_A w_usd == rcell w_A (Some rw_col, Some w_usd) rb)%Q /\
    ~ (reg_rows_total rr rw_col w_A w_usd == 0)%Q /\
    (reg_rows_total rr rw_col w_I w_chf == rcell w_I (Some rw_col, Some w_chf) rb)%Q.
Proof.
  eexists. eexists. eexists.
  split; [vm_compute; reflexivity|]. split; [vm_compute; reflexivity|].
  split; [vm_compute; auto|]. split; [discriminate|].
  split; [vm_compute; reflexivity|]. split; [vm_compute; discriminate|vm_compute; reflexivity].
Qed.
