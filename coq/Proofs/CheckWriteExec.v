(* The executable specification [write_spec_b] (what the correspondence check evaluates on the
   assertions read back from the binary's output) is the specification [write_spec]. *)
From Coq Require Import ZArith List Bool Lia Sorting.Sorted.
From Knut Require Import Model.Str Model.Dec Model.Account Model.Ledger
     Spec.WellformedSpec Spec.CheckWriteSpec Proofs.CheckLemmas Proofs.BuilderProofs Proofs.CheckWriteKeys.
Import ListNotations.
Open Scope bool_scope.
Open Scope Z_scope.

Lemma sorted_by_spec {A} (lt : A -> A -> bool) l :
  sorted_by lt l = true <-> StronglySorted (fun x y => lt x y = true) l.
Proof.
  induction l as [|x l IH]; cbn [sorted_by]; [split; [constructor|reflexivity]|].
  rewrite andb_true_iff, forallb_forall, IH. split.
  - intros [H1 H2]. constructor; [exact H2|]. apply Forall_forall. exact H1.
  - intros H. inversion H as [|y l' Hs Hall]; subst. split; [apply Forall_forall; exact Hall|exact Hs].
Qed.

Lemma SS_impl {A} (R Q : A -> A -> Prop) l :
  (forall x y, R x y -> Q x y) -> StronglySorted R l -> StronglySorted Q l.
Proof.
  intros H S. induction S as [|x l S IH Hall]; constructor; [exact IH|].
  eapply Forall_impl; [|exact Hall]. intros y Hy. apply H. exact Hy.
Qed.

Lemma sorted_ltb_spec l : sorted_by Z.ltb l = true <-> StronglySorted Z.lt l.
Proof.
  rewrite sorted_by_spec. split; apply SS_impl; intros x y H; apply Z.ltb_lt; exact H.
Qed.

Lemma in_dates_spec dt l : in_dates dt l = true <-> In dt l.
Proof.
  unfold in_dates. rewrite existsb_exists. split.
  - intros [x [Hx E]]. apply Z.eqb_eq in E. subst x. exact Hx.
  - intros H. exists dt. split; [exact H|apply Z.eqb_refl].
Qed.

Lemma asserted_b_spec W dt a c : asserted_b W dt a c = true <-> exists q, asserted W dt a c q.
Proof.
  unfold asserted_b, asserted. rewrite existsb_exists. split.
  - intros [[dt' bs] [Hw H]]. cbn [fst snd] in H. apply andb_true_iff in H. destruct H as [E H].
    apply Z.eqb_eq in E. subst dt'. apply existsb_exists in H. destruct H as [b [Hb H]].
    apply andb_true_iff in H. destruct H as [H1 H2]. apply same_acc_eq in H1. apply same_com_eq in H2.
    exists (bal_qty b), bs. split; [exact Hw|]. subst a c. destruct b. exact Hb.
  - intros [q [bs [Hw Hb]]]. exists (dt, bs). split; [exact Hw|]. cbn [fst snd].
    rewrite Z.eqb_refl. cbn [andb]. apply existsb_exists. exists (mkBalance a q c). split; [exact Hb|].
    cbn [bal_acc bal_com]. rewrite same_acc_refl, same_com_refl. reflexivity.
Qed.

Lemma posted_positions_in pre a c : (exists q, In (EPost a c q) pre) -> In (a, c) (posted_positions pre).
Proof.
  intros [q H]. unfold posted_positions. apply in_flat_map. exists (EPost a c q). split; [exact H|left; reflexivity].
Qed.

Theorem write_spec_b_spec ds W : write_spec_b ds W = true <-> write_spec ds W.
Proof.
  unfold write_spec_b. rewrite !andb_true_iff. split.
  - intros [[[[H1 H2] H3] H4] H5]. constructor.
    + apply sorted_ltb_spec. exact H1.
    + intros dt bs Hin. unfold ws_days_b in H2. rewrite forallb_forall in H2. specialize (H2 _ Hin).
      cbn [fst snd] in H2. apply andb_true_iff in H2. destruct H2 as [A B].
      split; [apply in_dates_spec; exact A|]. destruct bs; [discriminate|discriminate].
    + intros dt bs Hin. unfold ws_sorted_b in H3. rewrite forallb_forall in H3. specialize (H3 _ Hin).
      apply sorted_by_spec. exact H3.
    + intros dt a c q (bs & Hin & Hb). unfold ws_sound_b in H4. rewrite forallb_forall in H4. specialize (H4 _ Hin).
      cbn [fst snd] in H4. rewrite forallb_forall in H4. specialize (H4 _ Hb).
      unfold line_ok_b in H4. cbn [bal_acc bal_com bal_qty] in H4. apply andb_true_iff in H4. exact H4.
    + intros dt a c Hdt L. apply asserted_b_spec.
      unfold ws_complete_b in H5. rewrite forallb_forall in H5. specialize (H5 dt Hdt). cbn zeta in H5.
      rewrite forallb_forall in H5. specialize (H5 (a, c) (posted_positions_in _ a c (live_posted _ a c L))).
      cbn [fst snd] in H5. rewrite L in H5. cbn [negb orb] in H5. exact H5.
  - intros [H1 H2 H3 H4 H5]. repeat split.
    + apply sorted_ltb_spec. exact H1.
    + unfold ws_days_b. apply forallb_forall. intros [dt bs] Hin. cbn [fst snd].
      destruct (H2 dt bs Hin) as [A B]. apply andb_true_iff. split; [apply in_dates_spec; exact A|].
      destruct bs; [contradiction B; reflexivity|reflexivity].
    + unfold ws_sorted_b. apply forallb_forall. intros [dt bs] Hin. cbn [snd]. apply sorted_by_spec. apply (H3 dt bs Hin).
    + unfold ws_sound_b. apply forallb_forall. intros [dt bs] Hin. cbn [fst snd]. apply forallb_forall. intros b Hb.
      unfold line_ok_b. apply andb_true_iff. apply (H4 dt (bal_acc b) (bal_com b) (bal_qty b)).
      exists bs. split; [exact Hin|]. destruct b. exact Hb.
    + unfold ws_complete_b. apply forallb_forall. intros dt Hdt. cbn zeta. apply forallb_forall. intros [a c] _. cbn [fst snd].
      destruct (live (events_upto ds dt) a c) eqn:L; [|reflexivity]. cbn [negb orb].
      apply asserted_b_spec. apply (H5 dt a c Hdt L).
Qed.
