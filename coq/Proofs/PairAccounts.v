(* The posting-pair invariant of Proofs/PairProofs.v, with the accounts: the postings of every
   transaction anywhere in the pipeline are a concatenation of pairs (p, p') with equal commodity,
   qty p = neg (qty p'), val p = neg (val p'), AND p booked on the account p' names as the other
   side and vice versa.  Established by pair_build; preserved by accrual expansion, by the builder,
   and by the processors of the portfolio commands (ComputePrices, Check, Valuate).
   (A copy of the argument of PairProofs.v for the stronger relation; PairProofs.v is unchanged.) *)
From Coq Require Import ZArith List Bool Lia.
From Knut Require Import Model.Str Model.Dec Model.Date Model.Account Model.Ledger Model.Price
     Model.Journal Model.Check Model.Pipeline Proofs.DecProofs.
Import ListNotations.
Open Scope bool_scope.
Open Scope Z_scope.

Definition pair2_ok (p p' : posting) : Prop :=
  p_com p = p_com p' /\ p_qty p = neg (p_qty p') /\ p_val p = neg (p_val p') /\
  p_acc p = p_other p' /\ p_other p = p_acc p'.

Inductive paired2 : list posting -> Prop :=
| paired2_nil : paired2 []
| paired2_cons p p' rest : pair2_ok p p' -> paired2 rest -> paired2 (p :: p' :: rest).

Definition txn2_ok (t : txn) : Prop := paired2 (t_postings t).
Definition day2_ok (d : day) : Prop := Forall txn2_ok (d_txns d).

Lemma paired2_app l1 l2 : paired2 l1 -> paired2 l2 -> paired2 (l1 ++ l2).
Proof. induction 1; intros H2; cbn; [assumption|constructor; auto]. Qed.

Lemma pair_build_paired cr db com q v : paired2 (pair_build cr db com q v).
Proof.
  unfold pair_build.
  destruct (is_neg q || is_zero q && is_neg v); constructor; try constructor;
    unfold pair2_ok; cbn [p_com p_qty p_val]; repeat split; reflexivity.
Qed.

(* ------------------------------------------------------------ Ledger *)

Lemma postings_create_paired bs ps : postings_create bs = MOk ps -> paired2 ps.
Proof.
  revert ps. induction bs as [|b bs IH]; intros ps H; cbn in H.
  - inversion H. constructor.
  - destruct (check_account (b_credit b)); try discriminate. cbn in H.
    destruct (check_account (b_debit b)); try discriminate. cbn in H.
    destruct (postings_create bs) as [ps'| |]; try discriminate. cbn in H. inversion H.
    apply paired2_app; [apply pair_build_paired|apply IH; reflexivity].
Qed.

Lemma accrual_parts_ok desc tg acc p amount rem n i ends :
  Forall txn2_ok (accrual_parts desc tg acc p amount rem n i ends).
Proof.
  revert i. induction ends as [|dt rest IH]; intros i; cbn [accrual_parts]; constructor.
  - unfold txn2_ok. cbn [t_postings]. apply pair_build_paired.
  - apply IH.
Qed.

Lemma expand_posting_ok rebook t ac p l : expand_posting_gen rebook t ac p = MOk l -> Forall txn2_ok l.
Proof.
  unfold expand_posting_gen. intros H.
  assert (H1 : Forall txn2_ok (if rebook (p_acc p)
    then [mkTxn (t_date t) (t_desc t) (pair_build (ac_account ac) (p_acc p) (p_com p) (p_qty p) dec_nil) (t_targets t)]
    else [])).
  { destruct (rebook (p_acc p)); repeat constructor. unfold txn2_ok; cbn. apply pair_build_paired. }
  destruct (is_IE (p_acc p)).
  - destruct (new_partition _ _ _); try discriminate.
    destruct (quo_rem _ _ _) as [[amount rem]|]; try discriminate.
    inversion H. apply Forall_app. split; [exact H1|apply accrual_parts_ok].
  - inversion H; subst. exact H1.
Qed.

Lemma expand_postings_ok rebook t ac ps l : expand_postings_gen rebook t ac ps = MOk l -> Forall txn2_ok l.
Proof.
  revert l. induction ps as [|p ps IH]; intros l H; cbn in H.
  - inversion H. constructor.
  - destruct (expand_posting_gen rebook t ac p) as [l1| |] eqn:E1; try discriminate. cbn in H.
    destruct (expand_postings_gen rebook t ac ps) as [l2| |] eqn:E2; try discriminate. cbn in H. inversion H.
    apply Forall_app. split; [eapply expand_posting_ok; eauto|apply IH; reflexivity].
Qed.

Lemma txn_create_gen_ok rebook s l : txn_create_gen rebook s = MOk l -> Forall txn2_ok l.
Proof.
  unfold txn_create_gen. intros H.
  destruct (postings_create (st_bookings s)) as [ps| |] eqn:E; try discriminate. cbn in H.
  destruct (st_accrual s) as [ac|].
  - unfold expand_gen in H. destruct (check_account (ac_account ac)); try discriminate. cbn in H.
    eapply expand_postings_ok; eauto.
  - inversion H. repeat constructor. unfold txn2_ok; cbn. eapply postings_create_paired; eauto.
Qed.

Lemma txn_create_ok s l : txn_create s = MOk l -> Forall txn2_ok l.
Proof. apply txn_create_gen_ok. Qed.

Definition directive2_ok (d : directive) : Prop :=
  match d with DTxn t => txn2_ok t | _ => True end.

Lemma parse_directive_ok s l : parse_directive s = MOk l -> Forall directive2_ok l.
Proof.
  destruct s; cbn; intros H.
  - inversion H. repeat constructor.
  - destruct (check_account acc); try discriminate. inversion H. repeat constructor.
  - destruct (check_account acc); try discriminate. inversion H. repeat constructor.
  - destruct (check_balances bals); try discriminate. inversion H. repeat constructor.
  - destruct (txn_create t) as [ts| |] eqn:E; try discriminate. cbn in H. inversion H.
    apply txn_create_ok in E. clear - E. induction E; constructor; auto.
  - inversion H. constructor.
Qed.

Lemma parse_directives_ok l ds : parse_directives l = MOk ds -> Forall directive2_ok ds.
Proof.
  revert ds. induction l as [|s l IH]; intros ds H; cbn in H.
  - inversion H. constructor.
  - destruct (parse_directive s) as [d1| |] eqn:E1; try discriminate. cbn in H.
    destruct (parse_directives l) as [d2| |] eqn:E2; try discriminate. cbn in H. inversion H.
    apply Forall_app. split; [eapply parse_directive_ok; eauto|apply IH; reflexivity].
Qed.

(* ------------------------------------------------------------ builder *)

Lemma upd_day_ok days d f :
  Forall day2_ok days -> (forall x, day2_ok x -> day2_ok (f x)) -> Forall day2_ok (upd_day days d f).
Proof.
  intros Hd Hf. induction Hd as [|x rest Hx Hrest IH]; cbn [upd_day].
  - constructor; [apply Hf; constructor|constructor].
  - destruct (d =? d_date x); [constructor; auto|].
    destruct (d <? d_date x); constructor; auto.
    + apply Hf. constructor.
Qed.

Lemma builder_add_ok b d : Forall day2_ok (b_days b) -> directive2_ok d -> Forall day2_ok (b_days (builder_add b d)).
Proof.
  intros Hb Hd. destruct d; cbn [builder_add b_days]; apply upd_day_ok; auto.
  intros x Hx. unfold day2_ok, add_txn_day in *. cbn [d_txns]. apply Forall_app. split; [exact Hx|repeat constructor; exact Hd].
Qed.

Lemma builder_of_ok ds : Forall directive2_ok ds -> Forall day2_ok (b_days (builder_of ds)).
Proof.
  unfold builder_of. assert (H0 : Forall day2_ok (b_days new_builder)) by constructor.
  revert H0. generalize new_builder. induction ds as [|d ds IH]; intros b Hb Hds; cbn [fold_left]; [exact Hb|].
  inversion Hds; subst. apply IH; [apply builder_add_ok; assumption|assumption].
Qed.

Lemma builder_touch_ok b dates : Forall day2_ok (b_days b) -> Forall day2_ok (b_days (builder_touch b dates)).
Proof.
  unfold builder_touch. cbn [b_days]. generalize (b_days b). induction dates as [|d ds IH]; intros days H; cbn [fold_left]; [exact H|].
  apply IH. apply upd_day_ok; auto.
Qed.

(* ------------------------------------------------------------ generic stage lemma *)

Ltac case_opt e f Ef :=
  let Hc := fresh "Hc" in
  assert (Hc : {f0 | e = Some f0} + {e = None}) by (destruct e; eauto);
  destruct Hc as [[f Ef]|Ef].

Section Stage.
  Context {S : Type} (p : processor S).
  (* a state invariant that the callbacks preserve and under which the posting callback maps
     pairs to pairs *)
  Variable Inv : S -> Prop.
  Hypothesis day_start_ok : forall f s d s' d', pr_day_start p = Some f -> Inv s ->
      f s d = ROk (s', d') -> day2_ok d -> Inv s' /\ day2_ok d'.
  Hypothesis day_end_ok : forall f s d s' d', pr_day_end p = Some f -> Inv s ->
      f s d = ROk (s', d') -> day2_ok d -> Inv s' /\ day2_ok d'.
  Hypothesis price_ok : forall f s x s', pr_price p = Some f -> Inv s -> f s x = ROk s' -> Inv s'.
  Hypothesis open_ok : forall f s x s', pr_open p = Some f -> Inv s -> f s x = ROk s' -> Inv s'.
  Hypothesis close_ok : forall f s x s', pr_close p = Some f -> Inv s -> f s x = ROk s' -> Inv s'.
  Hypothesis txn_cb_ok : forall f s x s', pr_txn p = Some f -> Inv s -> f s x = ROk s' -> Inv s'.
  Hypothesis balance_ok : forall f s a b s', pr_balance p = Some f -> Inv s -> f s a b = ROk s' -> Inv s'.
  Hypothesis posting_ok : forall f s t x y s1 x' s2 y', pr_posting p = Some f -> Inv s ->
      pair2_ok x y -> f s t x = ROk (s1, x') -> f s1 t y = ROk (s2, y') -> Inv s2 /\ pair2_ok x' y'.

  Lemma fold_res_inv {A} (f : S -> A -> presult S) l :
    (forall s x s', Inv s -> f s x = ROk s' -> Inv s') ->
    forall s s', Inv s -> fold_res f s l = ROk s' -> Inv s'.
  Proof.
    intros Hf. induction l as [|x l IH]; intros s s' Hs H; cbn in H.
    - inversion H; subst; assumption.
    - destruct (f s x) as [s1| |] eqn:E; try discriminate. cbn [rbind] in H.
      apply (IH s1 s' (Hf s x s1 Hs E) H).
  Qed.

  Lemma fold_postings_ok f t : pr_posting p = Some f ->
    forall ps s s' ps', Inv s -> paired2 ps -> fold_postings f t s ps = ROk (s', ps') -> Inv s' /\ paired2 ps'.
  Proof.
    intros Hf ps s s' ps' Hs Hp. revert s s' ps' Hs.
    induction Hp as [|x y rest Hxy Hrest IH]; intros s s' ps' Hs H.
    - cbn in H. inversion H; subst. split; [assumption|constructor].
    - cbn [fold_postings] in H.
      destruct (f s t x) as [[s1 x']| |] eqn:E1; try discriminate. cbn [rbind fst snd] in H.
      destruct (f s1 t y) as [[s2 y']| |] eqn:E2; try discriminate. cbn [rbind fst snd] in H.
      destruct (fold_postings f t s2 rest) as [[s3 r']| |] eqn:E3; try discriminate. cbn [rbind fst snd] in H.
      inversion H; subst.
      destruct (posting_ok f s t x y s1 x' s2 y' Hf Hs Hxy E1 E2) as [Hs2 Hp2].
      destruct (IH s2 s' r' Hs2 E3) as [Hs3 Hr]. split; [assumption|constructor; assumption].
  Qed.

  Lemma fold_txns_ok ts : forall s s' ts', Inv s -> Forall txn2_ok ts ->
    fold_txns p s ts = ROk (s', ts') -> Inv s' /\ Forall txn2_ok ts'.
  Proof.
    induction ts as [|t ts IH]; intros s s' ts' Hs Hts H; cbn [fold_txns] in H.
    - inversion H; subst. split; [assumption|constructor].
    - inversion Hts as [|? ? Ht Hrest]; subst.
      destruct (match pr_txn p with Some f => f s t | None => ROk s end) as [s1| |] eqn:E1; try discriminate.
      cbn [rbind] in H.
      assert (Hs1 : Inv s1).
      { case_opt (pr_txn p) f Ef; rewrite Ef in E1; [eapply txn_cb_ok; eauto|inversion E1; subst; assumption]. }
      case_opt (pr_posting p) f Ef; rewrite Ef in H.
      + destruct (fold_postings f t s1 (t_postings t)) as [[s2 ps']| |] eqn:E2; try discriminate.
        cbn [rbind fst snd] in H.
        destruct (fold_postings_ok f t Ef _ _ _ _ Hs1 Ht E2) as [Hs2 Hp].
        destruct (fold_txns p s2 ts) as [[s3 r']| |] eqn:E3; try discriminate. cbn [rbind fst snd] in H.
        inversion H; subst. destruct (IH _ _ _ Hs2 Hrest E3) as [Hs3 Hr].
        split; [assumption|constructor; [exact Hp|assumption]].
      + cbn [rbind fst snd] in H.
        destruct (fold_txns p s1 ts) as [[s3 r']| |] eqn:E3; try discriminate. cbn [rbind fst snd] in H.
        inversion H; subst. destruct (IH _ _ _ Hs1 Hrest E3) as [Hs3 Hr].
        split; [assumption|constructor; assumption].
  Qed.

  Lemma fold_asserts_inv l : forall s s', Inv s -> fold_asserts p s l = ROk s' -> Inv s'.
  Proof.
    induction l as [|a l IH]; intros s s' Hs H; cbn [fold_asserts] in H.
    - inversion H; subst; assumption.
    - case_opt (pr_balance p) f Ef; rewrite Ef in H.
      + destruct (fold_res (fun s b => f s a b) s a) as [s1| |] eqn:E; try discriminate. cbn [rbind] in H.
        eapply IH; [|exact H].
        apply (fold_res_inv (fun s b => f s a b) a (fun s0 x s0' Hs0 Hx => balance_ok f s0 a x s0' Ef Hs0 Hx) s s1 Hs E).
      + cbn [rbind] in H. eapply IH; eauto.
  Qed.

  Lemma process_day_ok s d s' d' :
    Inv s -> day2_ok d -> process_day p s d = ROk (s', d') -> Inv s' /\ day2_ok d'.
  Proof.
    intros Hs Hd H. unfold process_day in H.
    destruct (match pr_day_start p with Some f => f s d | None => ROk (s, d) end) as [[s1 d1]| |] eqn:E1; try discriminate.
    cbn [rbind fst snd] in H.
    assert (H1 : Inv s1 /\ day2_ok d1).
    { case_opt (pr_day_start p) f Ef; rewrite Ef in E1; [eapply day_start_ok; eauto|inversion E1; subst; auto]. }
    destruct H1 as [Hs1 Hd1].
    destruct (match pr_price p with Some f => fold_res f s1 (d_prices d1) | None => ROk s1 end) as [s2| |] eqn:E2; try discriminate.
    cbn [rbind] in H.
    assert (Hs2 : Inv s2).
    { case_opt (pr_price p) f Ef; rewrite Ef in E2; [|inversion E2; subst; assumption].
      eapply fold_res_inv; [|exact Hs1|exact E2]. intros; eapply price_ok; eauto. }
    destruct (match pr_open p with Some f => fold_res f s2 (d_opens d1) | None => ROk s2 end) as [s3| |] eqn:E3; try discriminate.
    cbn [rbind] in H.
    assert (Hs3 : Inv s3).
    { case_opt (pr_open p) f Ef; rewrite Ef in E3; [|inversion E3; subst; assumption].
      eapply fold_res_inv; [|exact Hs2|exact E3]. intros; eapply open_ok; eauto. }
    destruct (fold_txns p s3 (d_txns d1)) as [[s4 ts']| |] eqn:E4; try discriminate. cbn [rbind fst snd] in H.
    destruct (fold_txns_ok _ _ _ _ Hs3 Hd1 E4) as [Hs4 Hts].
    cbn [d_asserts d_closes] in H.
    destruct (fold_asserts p s4 (d_asserts d1)) as [s5| |] eqn:E5; try discriminate. cbn [rbind] in H.
    pose proof (fold_asserts_inv _ _ _ Hs4 E5) as Hs5.
    destruct (match pr_close p with Some f => fold_res f s5 (d_closes d1) | None => ROk s5 end) as [s6| |] eqn:E6; try discriminate.
    cbn [rbind] in H.
    assert (Hs6 : Inv s6).
    { case_opt (pr_close p) f Ef; rewrite Ef in E6; [|inversion E6; subst; assumption].
      eapply fold_res_inv; [|exact Hs5|exact E6]. intros; eapply close_ok; eauto. }
    set (d2 := mkDay (d_date d1) (d_prices d1) (d_opens d1) ts' (d_asserts d1) (d_closes d1) (d_normalized d1)) in *.
    assert (Hd2 : day2_ok d2) by exact Hts.
    case_opt (pr_day_end p) f Ef; rewrite Ef in H.
    - eapply day_end_ok; eauto.
    - inversion H; subst. auto.
  Qed.

  Lemma process_days_ok ds : forall s s' ds', Inv s -> Forall day2_ok ds ->
    process_days p s ds = ROk (s', ds') -> Inv s' /\ Forall day2_ok ds'.
  Proof.
    induction ds as [|d ds IH]; intros s s' ds' Hs Hds H; cbn [process_days] in H.
    - inversion H; subst. split; [assumption|constructor].
    - inversion Hds; subst.
      destruct (process_day p s d) as [[s1 d1]| |] eqn:E1; try discriminate. cbn [rbind fst snd] in H.
      destruct (process_day_ok _ _ _ _ Hs H2 E1) as [Hs1 Hd1].
      destruct (process_days p s1 ds) as [[s2 r]| |] eqn:E2; try discriminate. cbn [rbind fst snd] in H.
      inversion H; subst. destruct (IH _ _ _ Hs1 H3 E2). split; [assumption|constructor; assumption].
  Qed.
End Stage.

(* ------------------------------------------------------------ the processors *)

Lemma is_zero_neg q : is_zero (neg q) = is_zero q.
Proof. unfold is_zero, neg. cbn [coef]. destruct (coef q); reflexivity. Qed.

Lemma multiply_neg_l a b : multiply (neg a) b = neg (multiply a b).
Proof. unfold multiply. rewrite mul_neg_l, truncate_odd. reflexivity. Qed.

Lemma set_txns_ok d ts : Forall txn2_ok ts -> day2_ok (set_txns d ts).
Proof. intros H. exact H. Qed.

Lemma set_normalized_ok d n : day2_ok d -> day2_ok (set_normalized d n).
Proof. intros H. exact H. Qed.

(* stages whose posting callback leaves the posting untouched *)
Lemma check_stage_ok lenient s ds s' ds' :
  Forall day2_ok ds -> process_days (check_proc lenient) s ds = ROk (s', ds') -> Forall day2_ok ds'.
Proof.
  intros Hds H.
  refine (proj2 (process_days_ok (check_proc lenient) (fun _ => True) _ _ _ _ _ _ _ _ ds s s' ds' I Hds H));
    cbn [check_proc compute_prices_proc valuate_proc filter_proc close_proc pr_day_start pr_price pr_open pr_txn pr_posting pr_balance pr_close pr_day_end]; try discriminate; try (intros; exact I).
  intros f s0 t x y s1 x' s2 y' Hf _ Hxy H1 H2. injection Hf as <-. split; [exact I|].
  unfold ck_posting_cb in *.
  destruct (negb (is_open s0 (p_acc x))); try discriminate.
  destruct (negb (is_open s1 (p_acc y))); try discriminate.
  destruct (is_AL (p_acc x)); destruct (is_AL (p_acc y)); inversion H1; inversion H2; subst; exact Hxy.
Qed.

Lemma prices_stage_ok v s ds s' ds' :
  Forall day2_ok ds -> process_days (compute_prices_proc v) s ds = ROk (s', ds') -> Forall day2_ok ds'.
Proof.
  intros Hds H.
  refine (proj2 (process_days_ok (compute_prices_proc v) (fun _ => True) _ _ _ _ _ _ _ _ ds s s' ds' I Hds H));
    cbn [check_proc compute_prices_proc valuate_proc filter_proc close_proc pr_day_start pr_price pr_open pr_txn pr_posting pr_balance pr_close pr_day_end]; try discriminate; try (intros; exact I).
  intros f s0 d s1 d1 Hf _ Hd Hok. injection Hf as <-. split; [exact I|].
  unfold cp_day_end in Hd. destruct (d_prices d).
  - inversion Hd; subst. apply set_normalized_ok. exact Hok.
  - destruct (normalize (cp_prices s0) v); try discriminate. inversion Hd; subst. apply set_normalized_ok. exact Hok.
Qed.

Lemma val_adjustments_ok v date prev cur pos ts :
  val_adjustments v date prev cur pos = ROk ts -> Forall txn2_ok ts.
Proof.
  revert ts. induction pos as [|[k [[a c] q]] rest IH]; intros ts H; cbn [val_adjustments] in H.
  - inversion H. constructor.
  - destruct (str_eqb c v || negb (is_AL a) || is_zero q); [apply IH; exact H|].
    destruct (np_price_opt prev c); try discriminate.
    destruct (np_price_opt cur c); try discriminate.
    destruct (is_zero (sub d0 d)); [apply IH; exact H|].
    destruct (val_adjustments v date prev cur rest) as [ts'| |]; try discriminate. cbn [rbind] in H.
    inversion H. constructor; [|apply IH; reflexivity].
    unfold txn2_ok. cbn [t_postings]. apply pair_build_paired.
Qed.

Lemma val_posting_cur v s t p s' p' : val_posting v s t p = ROk (s', p') -> v_cur s' = v_cur s.
Proof.
  unfold val_posting. intros H.
  destruct (is_zero (p_qty p)); [inversion H; reflexivity|].
  destruct (str_eqb v (p_com p)).
  - inversion H. destruct (is_AL (p_acc p)); reflexivity.
  - destruct (v_cur s) as [n|] eqn:E; try discriminate.
    destruct (np_valuate n (p_com p) (p_qty p)); try discriminate.
    inversion H. destruct (is_AL (p_acc p)); cbn [v_cur]; congruence.
Qed.

Lemma valuate_stage_ok v s ds s' ds' :
  Forall day2_ok ds -> process_days (valuate_proc v) s ds = ROk (s', ds') -> Forall day2_ok ds'.
Proof.
  intros Hds H.
  refine (proj2 (process_days_ok (valuate_proc v) (fun _ => True) _ _ _ _ _ _ _ _ ds s s' ds' I Hds H));
    cbn [check_proc compute_prices_proc valuate_proc filter_proc close_proc pr_day_start pr_price pr_open pr_txn pr_posting pr_balance pr_close pr_day_end]; try discriminate; try (intros; exact I).
  - intros f s0 d s1 d1 Hf _ Hd Hok. injection Hf as <-. split; [exact I|].
    unfold val_day_start in Hd.
    destruct (val_adjustments v (d_date d) (v_prev s0) (d_normalized d) (v_qty s0)) as [ts| |] eqn:E; try discriminate.
    cbn [rbind] in Hd. inversion Hd; subst. apply set_txns_ok. apply Forall_app. split; [exact Hok|].
    eapply val_adjustments_ok; eauto.
  - intros f s0 d s1 d1 Hf _ Hd Hok. injection Hf as <-. split; [exact I|].
    unfold val_day_end in Hd. inversion Hd; subst. exact Hok.
  - intros f s0 t x y s1 x' s2 y' Hf _ Hxy H1 H2. injection Hf as <-. split; [exact I|].
    destruct Hxy as (Hc & Hq & Hv & Ha & Ho).
    unfold val_posting in *.
    rewrite Hq, is_zero_neg in H1.
    destruct (is_zero (p_qty y)) eqn:Ez.
    + inversion H1; inversion H2; subst. repeat split; assumption.
    + assert (Hcur : v_cur s1 = v_cur s0).
      { eapply (val_posting_cur v s0 t x s1 x'). unfold val_posting. rewrite Hq, is_zero_neg, Ez. exact H1. }
      rewrite Hcur in H2. rewrite <- Hc in H2.
      destruct (str_eqb v (p_com x)).
      * inversion H1; inversion H2; subst. unfold pair2_ok. cbn [p_com p_qty p_val p_acc p_other]. repeat split; assumption.
      * destruct (v_cur s0) as [n|]; try discriminate. unfold np_valuate in *.
        destruct (sm_get n (p_com x)) as [pr|]; try discriminate.
        inversion H1; inversion H2; subst. unfold pair2_ok. cbn [p_com p_qty p_val p_acc p_other].
        repeat split; try assumption. apply multiply_neg_l.
Qed.

