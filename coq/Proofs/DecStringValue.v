(* Decimal.String depends on the VALUE of a decimal only: two decimals of the same value (whatever
   their coefficient / exponent representation) print the same bytes.  The text of a number in the
   balance CSV is therefore determined by the ledger amount, not by the order in which the report
   tree added it up.  Route: the decimal read back from the text ([reread], DecNormalForm.v) is
   NORMALISED -- exponent <= 0, and when negative the coefficient does not end in 0 -- and two
   normalised decimals of the same value are the same record. *)
From Coq Require Import ZArith QArith List Bool Lia Arith.
From Knut Require Import Model.Str Model.Dec Spec.TableSpec Proofs.DecProofs Proofs.DecValue Proofs.DecEqProofs
     Proofs.DecStringProofs Proofs.DecNormalForm.
Import ListNotations.
Open Scope Z_scope.

Local Ltac Zify.zify_post_hook ::= Z.div_mod_to_equations.

Definition normalised (d : dec) : Prop := ex d <= 0 /\ (ex d < 0 -> coef d mod 10 <> 0).

Lemma normalised_eq a b : normalised a -> normalised b -> dec_eqv a b -> a = b.
Proof.
  intros [Ha1 Ha2] [Hb1 Hb2] H. unfold dec_eqv, coef_at in H.
  destruct a as [ca ea], b as [cb eb]. cbn [coef ex] in *.
  destruct (Z.lt_trichotomy ea eb) as [Hlt|[Heq|Hgt]].
  - exfalso. rewrite Z.min_l in H by lia. rewrite Z.sub_diag, Z.pow_0_r, Z.mul_1_r in H.
    apply (Ha2 ltac:(lia)). subst ca.
    replace (eb - ea) with (Z.succ (eb - ea - 1)) by lia. rewrite Z.pow_succ_r by lia.
    replace (cb * (10 * 10 ^ (eb - ea - 1))) with ((cb * 10 ^ (eb - ea - 1)) * 10) by ring.
    apply Z.mod_mul. lia.
  - subst eb. rewrite Z.min_id, Z.sub_diag, Z.pow_0_r, !Z.mul_1_r in H. subst. reflexivity.
  - exfalso. rewrite Z.min_r in H by lia. rewrite Z.sub_diag, Z.pow_0_r, Z.mul_1_r in H.
    apply (Hb2 ltac:(lia)). subst cb.
    replace (ea - eb) with (Z.succ (ea - eb - 1)) by lia. rewrite Z.pow_succ_r by lia.
    replace (ca * (10 * 10 ^ (ea - eb - 1))) with ((ca * 10 ^ (ea - eb - 1)) * 10) by ring.
    apply Z.mod_mul. lia.
Qed.

Lemma parse_digits_last s c v : parse_digits (s ++ [c]) 0 = Some v -> v mod 10 = c - 48 /\ 48 <= c <= 57.
Proof.
  rewrite parse_digits_app. destruct (parse_digits s 0) as [w|]; [|discriminate].
  cbn [parse_digits]. destruct (is_digit c) eqn:Hc; [|discriminate]. apply is_digit_range in Hc.
  intros H. injection H as <-. split; [|exact Hc]. lia.
Qed.

Lemma reread_normalised q : normalised (reread q).
Proof.
  destruct (to_string_canon q) as (ip & fp & v & Hs & Hc & Dip & Dfp & Htr & Hp & Hneg).
  assert (Hipne : ip <> []) by (destruct Hc as [->|[H _]]; [discriminate|exact H]).
  pose proof (of_string_numeral (coef q <? 0) ip fp v Hipne Dip Dfp Hp) as Hx.
  change (match fp with [] => [] | _ :: _ => [46] ++ fp end) with (frac_tail fp) in Hx.
  change (if coef q <? 0 then [45] else []) with (sgn q) in Hx. rewrite <- Hs in Hx.
  unfold reread. rewrite Hx. split; cbn [ex coef]; [lia|].
  intros Hlen. assert (Hne : fp <> []) by (intros ->; cbn [length] in Hlen; lia).
  unfold trimmed in Htr. destruct (rev fp) as [|c t] eqn:Er.
  { exfalso. apply Hne. rewrite <- (rev_involutive fp), Er. reflexivity. }
  assert (Hfp : fp = rev t ++ [c]) by (rewrite <- (rev_involutive fp), Er; reflexivity).
  rewrite Hfp, app_assoc in Hp. apply parse_digits_last in Hp. destruct Hp as [Hm Hr].
  assert (Hc48 : c <> 48) by (intros ->; exact Htr).
  destruct (coef q <? 0); lia.
Qed.

Lemma dec_eqv_iff_value a b : dec_eqv a b <-> (dvalue a == dvalue b)%Q.
Proof. rewrite <- dec_equal_value, dec_equal_min. unfold dec_eqv, coef_at, scale_to, pow10. reflexivity. Qed.

(* the printed decimal is a function of the value *)
Theorem to_string_value a b : (dvalue a == dvalue b)%Q -> to_string a = to_string b.
Proof.
  intros H. rewrite <- (to_string_reread a), <- (to_string_reread b). f_equal.
  apply normalised_eq; try apply reread_normalised. apply dec_eqv_iff_value.
  rewrite (proj1 (dec_eqv_iff_value _ _) (reread_eqv a)), (proj1 (dec_eqv_iff_value _ _) (reread_eqv b)). exact H.
Qed.

Lemma to_string_nonempty d : to_string d <> [].
Proof.
  destruct (to_string_canon d) as (ip & fp & v & Hs & Hc & _).
  assert (Hipne : ip <> []) by (destruct Hc as [->|[H _]]; [discriminate|exact H]).
  rewrite Hs. intros H. apply app_eq_nil in H. destruct H as [_ H]. apply app_eq_nil in H. tauto.
Qed.

Example to_string_value_example :
  to_string (mkDec 1500 (-3)) = to_string (mkDec 15 (-1)) /\ to_string (mkDec 0 (-2)) = to_string (mkDec 0 5).
Proof. vm_compute. auto. Qed.
