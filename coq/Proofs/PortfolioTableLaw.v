(* C20, part 7: the mapping law on the rendered tables of the model.
   For entries es0 (run without -m) and es = map_entries m es0 (run with -m): the rows of
   render_weights of es0 and of es satisfy Spec/PortfolioSpec.mapping_law_b with tolerance 0,
   provided no path of es0 is a proper prefix of another and no mapped path is empty.  Columns
   with an undefined weight (zero total) are skipped by the statement; in the others the entries
   of the date are defined (PortfolioPerDate). *)
From Coq Require Import ZArith QArith Qabs Qfield List Bool Lia Permutation Sorting.Sorted.
From Knut Require Import Model.Str Model.Dec Model.Date Model.Account Model.Ledger Model.Price
     Model.Journal Model.Cli Model.Perf Model.Weights Model.CliPortfolio Spec.PortfolioSpec Spec.PortfolioMapSpec
     Proofs.SMapProofs Proofs.PortfolioDays Proofs.PortfolioReturns Proofs.PortfolioWeights
     Proofs.PortfolioTree Proofs.PortfolioMapping Proofs.PortfolioTable Proofs.PortfolioPerDate.
Import ListNotations.
Open Scope Q_scope.

(* ------------------------------------------------------------ wn_find and nodes *)

Lemma find_in_nodes t : forall n p x, wn_find t n = Some x -> In (p ++ t, x) (nodes p n).
Proof.
  induction t as [|h t IH]; intros n p x H; cbn [wn_find] in H.
  - inversion H; subst. rewrite app_nil_r, nodes_unfold. left. reflexivity.
  - destruct (find_child h (wn_children n)) as [c|] eqn:Ef; [|discriminate].
    destruct (find_child_in _ _ _ Ef) as [Hin Hseg]. rewrite nodes_unfold. right. unfold below. apply in_flat_map.
    exists c. split; [exact Hin|]. specialize (IH c (p ++ [wn_seg c]) x H). rewrite <- app_assoc in IH. rewrite Hseg in *. exact IH.
Qed.

Lemma nodes_find n : forall p q x, tsorted n -> In (q, x) (nodes p n) -> exists t, q = p ++ t /\ wn_find t n = Some x.
Proof.
  induction n as [s lf w ch IH] using wnode_ind'. intros p q x Hs Hin. rewrite nodes_unfold in Hin. destruct Hin as [Hin|Hin].
  - inversion Hin; subst. exists []. split; [rewrite app_nil_r; reflexivity|reflexivity].
  - unfold below in Hin. apply in_flat_map in Hin. destruct Hin as [c [Hc Hin]]. cbn [wn_children] in Hc.
    apply tall_unfold in Hs. destruct Hs as [Hsort Hall]. cbn [wn_children] in Hsort. rewrite Forall_forall in IH, Hall.
    destruct (IH c Hc _ q x (Hall c Hc) Hin) as [t [Hq Hf]]. exists (wn_seg c :: t). split.
    + rewrite Hq, <- app_assoc. reflexivity.
    + cbn [wn_find wn_children]. rewrite (find_child_self ch c Hsort Hc). exact Hf.
Qed.

Lemma below_find n p q x : tsorted n -> In (q, x) (below p (wn_children n)) ->
  exists t, t <> [] /\ q = p ++ t /\ wn_find t n = Some x.
Proof.
  intros Hs Hin. assert (Hin' : In (q, x) (nodes p n)) by (rewrite nodes_unfold; right; exact Hin).
  unfold below in Hin. apply in_flat_map in Hin. destruct Hin as [c [Hc Hin]].
  pose proof (tall_children _ _ Hs) as Hall. rewrite Forall_forall in Hall.
  destruct (nodes_find c _ q x (Hall c Hc) Hin) as [t [Hq Hf]]. exists (wn_seg c :: t). split; [discriminate|]. split.
  - rewrite Hq, <- app_assoc. reflexivity.
  - cbn [wn_find]. rewrite (find_child_self _ c (tall_here _ _ Hs) Hc). exact Hf.
Qed.

(* ------------------------------------------------------------ which paths have a node *)

Lemma find_build_iff es : forall n q, tsorted n ->
  (wn_find q (build es n) <> None <->
   wn_find q n <> None \/ exists e, In e es /\ path_prefix q (entry_path e) = true).
Proof.
  unfold build. induction es as [|[[ss d] w] es IH]; intros n q Hs; cbn [fold_left].
  - split; [intros H; left; exact H|intros [H|[e [[] _]]]; exact H].
  - rewrite (IH _ q (wn_add_sorted ss d w n Hs)), (wn_find_add ss d w q n Hs). split.
    + intros [H|[e [He Hp]]].
      * destruct (path_prefix q ss) eqn:E; [|left; exact H]. right. exists (ss, d, w). split; [left; reflexivity|exact E].
      * right. exists e. split; [right; exact He|exact Hp].
    + intros [H|[e [[He|He] Hp]]].
      * left. destruct (path_prefix q ss); [discriminate|exact H].
      * subst e. cbn [entry_path] in Hp. rewrite Hp. left. discriminate.
      * right. exists e. split; assumption.
Qed.

Lemma find_report_iff es q : q <> [] ->
  (wn_find q (report_of es) <> None <-> exists e, In e es /\ path_prefix q (entry_path e) = true).
Proof.
  intros Hq. rewrite report_of_build, (find_build_iff es wroot q wroot_sorted). split; [|intros H; right; exact H].
  intros [H|H]; [|exact H]. destruct q; [congruence|]. cbn in H. congruence.
Qed.

(* a node without children is where an entry ends *)
Lemma leaf_node_entry es q x : q <> [] -> wn_find q (report_of es) = Some x -> wn_children x = [] ->
  exists e, In e es /\ entry_path e = q.
Proof.
  intros Hq Hf Hch. assert (Hsome : wn_find q (report_of es) <> None) by congruence.
  apply (find_report_iff es q Hq) in Hsome. destruct Hsome as [e [He Hp]]. exists e. split; [exact He|].
  apply path_prefix_iff in Hp. destruct Hp as [r Hr]. destruct r as [|h r]; [rewrite app_nil_r in Hr; exact Hr|].
  exfalso. assert (Hq' : q ++ [h] <> []) by (destruct q; discriminate).
  assert (H2 : wn_find (q ++ [h]) (report_of es) <> None).
  { apply (find_report_iff es _ Hq'). exists e. split; [exact He|]. apply path_prefix_iff. exists r. rewrite Hr, <- app_assoc. reflexivity. }
  rewrite wn_find_app, Hf in H2. cbn [wn_find] in H2. rewrite Hch in H2. cbn in H2. congruence.
Qed.

(* a node with children is below no entry's end, when the paths are prefix-free *)
Lemma inner_node_no_entry es q x : prefix_free es -> wn_find q (report_of es) = Some x -> wn_children x <> [] ->
  forall e, In e es -> path_eqb q (entry_path e) = false.
Proof.
  intros Hpf Hf Hch e He. destruct (path_eqb q (entry_path e)) eqn:E; [|reflexivity]. exfalso.
  apply path_eqb_eq in E. destruct (wn_children x) as [|c ch] eqn:Ec; [congruence|].
  pose proof (proj1 (report_shape es)) as Hs. pose proof (wn_find_tall _ q _ x Hs Hf) as Hx.
  assert (Hfc : wn_find (q ++ [wn_seg c]) (report_of es) = Some c).
  { rewrite wn_find_app, Hf. cbn [wn_find]. rewrite (find_child_self _ c (tall_here _ _ Hx)); [reflexivity|rewrite Ec; left; reflexivity]. }
  assert (Hq' : q ++ [wn_seg c] <> []) by (destruct q; discriminate).
  assert (Hsome : wn_find (q ++ [wn_seg c]) (report_of es) <> None) by congruence.
  apply (find_report_iff es _ Hq') in Hsome. destruct Hsome as [e' [He' Hp]].
  specialize (Hpf e e' He He'). destruct e as [[ss1 d1] w1], e' as [[ss2 d2] w2]. cbn [entry_path] in *. subst q.
  apply path_prefix_iff in Hp. destruct Hp as [r Hr]. unfold proper_prefix in Hpf. apply andb_false_iff in Hpf. destruct Hpf as [Hpf|Hpf].
  - assert (H : path_prefix ss1 ss2 = true) by (apply path_prefix_iff; exists (wn_seg c :: r); rewrite Hr, <- app_assoc; reflexivity).
    congruence.
  - apply negb_false_iff in Hpf. apply path_prefix_iff in Hpf. destruct Hpf as [r' Hr']. rewrite Hr, <- !app_assoc in Hr'.
    rewrite <- (app_nil_r ss1) in Hr' at 1. apply app_inv_head in Hr'. discriminate.
Qed.

(* ------------------------------------------------------------ a sum over all nodes, selected by path *)

Definition nsum (g : list str -> bool) (d : Z) (l : list (list str * wnode)) : Q :=
  qsum (map (fun px => if g (fst px) then wsum (wn_weights (snd px)) d else 0) l).

Lemma nsum_app g d l1 l2 : nsum g d (l1 ++ l2) == nsum g d l1 + nsum g d l2.
Proof. unfold nsum. rewrite map_app. apply qsum_app. Qed.

Lemma nsum_new g d p h : nsum g d (nodes p (wn_new h)) == 0.
Proof. unfold nsum. cbn. destruct (g p); reflexivity. Qed.

Lemma nsum_upd g d p h f l delta :
  (forall c, wn_seg (f c) = wn_seg c) ->
  (forall c, wn_seg c = h -> tdef_at d c -> nsum g d (nodes (p ++ [h]) (f c)) == nsum g d (nodes (p ++ [h]) c) + delta) ->
  Forall (tdef_at d) l ->
  nsum g d (below p (wchildren_upd h f l)) == nsum g d (below p l) + delta.
Proof.
  intros Hseg Hf. assert (Hnew : nsum g d (nodes (p ++ [h]) (f (wn_new h))) == delta).
  { rewrite (Hf (wn_new h) eq_refl (tdef_at_new d h)), nsum_new. ring. }
  induction l as [|c l IH]; intros Hl; cbn [wchildren_upd].
  - rewrite below_cons, Hseg. cbn [wn_new wn_seg]. rewrite nsum_app, Hnew. unfold below, nsum. cbn. ring.
  - inversion Hl as [|? ? Hc Hl']; subst. destruct (str_cmp h (wn_seg c)) eqn:E.
    + apply str_cmp_eq in E. rewrite !below_cons, !nsum_app, Hseg, <- E, (Hf c (eq_sym E) Hc). ring.
    + rewrite (below_cons p (f (wn_new h))), Hseg. cbn [wn_new wn_seg]. rewrite nsum_app, Hnew. ring.
    + rewrite !below_cons, !nsum_app, (IH Hl'). ring.
Qed.

(* on a date d whose bookings are defined; the entry added may be undefined if it is of another date *)
Lemma nsum_add g ss date x d : (date = d -> x <> None) -> forall p n, tdef_at d n ->
  nsum g d (nodes p (wn_add ss date x n)) ==
  nsum g d (nodes p n) + (if g (p ++ ss) && (date =? d)%Z then oq x else 0).
Proof.
  intros Hx. induction ss as [|h tl IH]; intros p [s lf w ch] Hd; apply tall_unfold in Hd; destruct Hd as [Hw Hch];
    cbn [wn_weights] in Hw;
    cbn [wn_add wn_seg wn_leaf wn_weights wn_children]; rewrite !nodes_unfold; cbn [wn_children];
    unfold nsum at 1 2; cbn [map fst snd wn_weights]; rewrite !qsum_cons.
  - rewrite app_nil_r. fold (nsum g d (below p ch)). destruct (g p); cbn [andb].
    + rewrite (proj2 (wm_add_sum_at w date x d Hw Hx)). ring.
    + ring.
  - fold (nsum g d (below p (wchildren_upd h (wn_add tl date x) ch))). fold (nsum g d (below p ch)).
    rewrite (nsum_upd g d p h (wn_add tl date x) ch (if g (p ++ h :: tl) && (date =? d)%Z then oq x else 0)).
    + ring.
    + intros c. apply wn_add_seg.
    + intros c _ Hc. rewrite (IH (p ++ [h]) c Hc), <- app_assoc. reflexivity.
    + exact Hch.
Qed.

Lemma nsum_build g d es : edef_at d es -> forall n, tdef_at d n ->
  nsum g d (nodes [] (build es n)) ==
  nsum g d (nodes [] n) + qsum (map (fun e : entry => let '(ss, dt, w) := e in if g ss && (dt =? d)%Z then oq w else 0) es).
Proof.
  unfold build. induction es as [|[[ss dt] w] es IH]; intros Hes n Hn; cbn [fold_left map].
  - cbn. ring.
  - inversion Hes as [|? ? Hw Hrest]; subst.
    rewrite (IH Hrest _ (wn_add_def_at d ss dt w n Hw Hn)), (nsum_add g ss dt w d Hw [] n Hn), qsum_cons. cbn [app]. ring.
Qed.

(* over the nodes below the root of a report whose entries have non-empty paths *)
Lemma nsum_report g d es : edef_at d es -> Forall (fun e => entry_path e <> []) es ->
  nsum g d (below [] (wn_children (report_of es))) ==
  qsum (map (fun e : entry => let '(ss, dt, w) := e in if g ss && (dt =? d)%Z then oq w else 0) es).
Proof.
  intros Hd Hne. pose proof (nsum_build g d es Hd wroot (tdef_at_new d [])) as H. rewrite <- report_of_build in H.
  rewrite nodes_unfold in H. unfold nsum at 1 in H. cbn [map fst snd] in H. rewrite qsum_cons in H.
  fold (nsum g d (below [] (wn_children (report_of es)))) in H.
  pose proof (report_root_weights es Hne wroot) as Hw. fold (build es wroot) in Hw. rewrite <- report_of_build in Hw.
  rewrite Hw in H. cbn [wroot wn_new wn_weights] in H.
  assert (Hz : nsum g d (nodes [] wroot) == 0) by apply nsum_new.
  rewrite Hz in H. assert (H0 : (if g [] then wsum [] d else 0) == 0) by (destruct (g []); reflexivity).
  rewrite H0 in H. rewrite !Qplus_0_l in H. exact H.
Qed.

(* ------------------------------------------------------------ cells *)

Lemma scell_wcell w d : scell_q (wcell w d) == cell_q w d.
Proof.
  unfold wcell, cell_q. destruct (wm_get w d) as [[q|]|]; cbn [scell_q oq]; try reflexivity.
  destruct (q_is_zero q) eqn:E; cbn [scell_q]; [|reflexivity]. apply q_is_zero_iff in E. rewrite E. reflexivity.
Qed.

Lemma ccol_nth dates j x : (j < length dates)%nat -> ccol dates j x == cell_q (wn_weights x) (nth j dates 0%Z).
Proof.
  intros Hj. unfold ccol, cells_of. rewrite (nth_indep _ None (wcell (wn_weights x) 0%Z)) by (rewrite map_length; exact Hj).
  rewrite map_nth. apply scell_wcell.
Qed.

(* the cell of a node of the rendered tree = its weight after PropagateWeights *)
Lemma ccol_fin dates j alpha x : (j < length dates)%nat -> wm_asc (wn_weights x) ->
  ccol dates j (fin alpha x) == nweight (propagate x) (nth j dates 0%Z).
Proof.
  intros Hj Ha. rewrite (ccol_nth dates j _ Hj), fin_weights. unfold nweight. apply cell_q_wsum.
  apply propagate_weights_asc. exact Ha.
Qed.

Lemma propagate_leaf x : wn_children x = [] -> propagate x = x.
Proof. destruct x as [s lf w ch]. cbn [wn_children]. intros ->. reflexivity. Qed.

Lemma fin_leafp alpha px : leafp (nmap (fin alpha) px) = leafp px.
Proof.
  unfold leafp, nmap. cbn [snd]. pose proof (fin_children alpha (snd px)) as H.
  destruct (wn_children (snd px)) as [|c ch]; cbn [map] in H.
  - apply Permutation_sym, Permutation_nil in H. rewrite H. reflexivity.
  - destruct (wn_children (fin alpha (snd px))); [apply Permutation_nil in H; discriminate|reflexivity].
Qed.

(* ------------------------------------------------------------ entries *)

Lemma map_entries_in m es0 : forall es e0, map_entries m es0 = Some es -> In e0 es0 ->
  exists q, map_path m (entry_path e0) = Some q /\ exists e, In e es /\ entry_path e = q.
Proof.
  induction es0 as [|[[ss d] w] es0 IH]; intros es e0 H Hin; [destruct Hin|]. cbn [map_entries] in H.
  destruct (map_path m ss) as [q|] eqn:Eq; [|discriminate]. destruct (map_entries m es0) as [l|]; [|discriminate].
  inversion H; subst. destruct Hin as [<-|Hin].
  - exists q. split; [exact Eq|]. exists (q, d, w). split; [left; reflexivity|reflexivity].
  - destruct (IH l e0 eq_refl Hin) as [q' [H1 [e [H2 H3]]]]. exists q'. split; [exact H1|]. exists e. split; [right; exact H2|exact H3].
Qed.

Lemma map_entries_edef_at m d es0 : forall es, map_entries m es0 = Some es -> edef_at d es0 -> edef_at d es.
Proof.
  unfold edef_at. induction es0 as [|[[ss dt] w] es0 IH]; intros es H Hd; cbn [map_entries] in H.
  - inversion H; subst. constructor.
  - destruct (map_path m ss) as [q|]; [|discriminate]. destruct (map_entries m es0) as [l|]; [|discriminate].
    inversion H; subst. inversion Hd; subst. constructor; [assumption|apply IH; [reflexivity|assumption]].
Qed.

Lemma map_path_of_nil m q : map_path m [] = Some q -> q = [].
Proof.
  unfold map_path. destruct (mapping_level m (join [colon] [])) as [[level suffix]|]; [|intros H; inversion H; reflexivity].
  cbn [length Z.of_nat]. destruct (level <? 0 - suffix)%Z; [|intros H; inversion H; reflexivity].
  destruct ((level <? 0)%Z || (suffix <? 0)%Z); [discriminate|]. intros H. inversion H.
  rewrite firstn_nil, skipn_nil. reflexivity.
Qed.

Lemma map_entries_nonempty m es0 : forall es, map_entries m es0 = Some es ->
  Forall (fun e => entry_path e <> []) es -> Forall (fun e => entry_path e <> []) es0.
Proof.
  induction es0 as [|[[ss d] w] es0 IH]; intros es H Hne; [constructor|]. cbn [map_entries] in H.
  destruct (map_path m ss) as [q|] eqn:Eq; [|discriminate]. destruct (map_entries m es0) as [l|]; [|discriminate].
  inversion H; subst. inversion Hne as [|? ? H1 H2]; subst. constructor; [|exact (IH l eq_refl H2)].
  cbn [entry_path] in *. intros ->. apply map_path_of_nil in Eq. congruence.
Qed.

Lemma report_dates_map m es0 : forall es, map_entries m es0 = Some es -> report_dates es = report_dates es0.
Proof.
  unfold report_dates. generalize (@nil Z). induction es0 as [|[[ss d] w] es0 IH]; intros acc es H; cbn [map_entries] in H.
  - inversion H; subst. reflexivity.
  - destruct (map_path m ss) as [q|]; [|discriminate]. destruct (map_entries m es0) as [l|] eqn:El; [|discriminate].
    inversion H; subst. cbn [fold_left]. apply IH. reflexivity.
Qed.

Lemma qsum_filter {A} (P : A -> bool) (F : A -> Q) l :
  qsum (map F (filter P l)) == qsum (map (fun x => if P x then F x else 0) l).
Proof.
  induction l as [|x l IH]; cbn [filter map]; [reflexivity|]. destruct (P x); cbn [map]; rewrite !qsum_cons, IH; ring.
Qed.

(* the rows of the table of the model *)
Lemma srows_render al e :
  srows (render_weights al e) = flat_map (render_s (report_dates e) 0) (wn_children (fin al (report_of e))).
Proof.
  unfold srows, render_weights, fin. cbn [snd]. rewrite map_flat_map. apply flat_map_Forall_eq.
  apply Forall_forall. intros c _. exact (render_s_eq (report_dates e) c 0).
Qed.

(* ------------------------------------------------------------ the law on the tables *)

Section Law.
  Variables (m : list rule) (es0 es : list entry) (a0 a : bool).
  Hypothesis Hmap : map_entries m es0 = Some es.
  Hypothesis Hpf : prefix_free es0.
  Hypothesis Hne : Forall (fun e => entry_path e <> []) es.

  Local Notation dates := (report_dates es).
  Local Notation T0 := (report_of es0).
  Local Notation T := (report_of es).
  Local Notation leaves := (map (nrow dates) (filter leafp (below [] (wn_children (fin a0 T0))))).
  Local Notation prs := (map (nrow dates) (below [] (wn_children (fin a T)))).

  Lemma Hne0 : Forall (fun e => entry_path e <> []) es0.
  Proof. exact (map_entries_nonempty m es0 es Hmap Hne). Qed.

  (* which unmapped paths the mapping sends to p *)
  Definition gm (p q0 : list str) : bool := match map_path m q0 with Some q => path_eqb q p | None => false end.

  (* a column in which every leaf row of the table without -m is a finite number: the entries of its date are defined *)
  Lemma column_defined j : (j < length dates)%nat ->
    forallb (fun lf => scol_finite j (snd lf)) leaves = true -> edef_at (nth j dates 0%Z) es0.
  Proof.
    intros Hj Hfin. apply Forall_forall. intros [[q0 dt] w] He0 Hdt. destruct w as [v|]; [discriminate|]. exfalso. subst dt.
    pose proof (none_report q0 _ es0 He0) as Hn. unfold none_at in Hn. destruct (wn_find q0 T0) as [x0|] eqn:Ef; [|exact Hn].
    assert (Hch : wn_children x0 = []).
    { destruct (wn_children x0) as [|c0 ch0] eqn:Ec; [reflexivity|]. exfalso.
      assert (Hc : wn_children x0 <> []) by (rewrite Ec; discriminate).
      pose proof (inner_node_no_entry es0 q0 x0 Hpf Ef Hc _ He0) as Hno. cbn [entry_path] in Hno.
      rewrite (proj2 (path_eqb_eq q0 q0) eq_refl) in Hno. discriminate. }
    assert (Hq0 : q0 <> []) by (pose proof Hne0 as H; rewrite Forall_forall in H; exact (H _ He0)).
    pose proof (find_in_nodes q0 T0 [] x0 Ef) as Hnode. cbn [app] in Hnode. rewrite nodes_unfold in Hnode.
    destruct Hnode as [Hh|Hnode]; [inversion Hh; congruence|].
    rewrite forallb_forall in Hfin.
    assert (Hin : In (nrow dates (nmap (fin a0) (q0, x0))) leaves).
    { apply in_map. apply filter_In. split.
      - apply (Permutation_in _ (Permutation_sym (below_fin a0 T0 []))). apply in_map. exact Hnode.
      - rewrite fin_leafp. unfold leafp. cbn [snd]. rewrite Hch. reflexivity. }
    specialize (Hfin _ Hin). unfold scol_finite, nrow, nmap in Hfin. cbn [fst snd] in Hfin. unfold cells_of in Hfin.
    rewrite (nth_indep _ None (wcell (wn_weights (fin a0 x0)) 0%Z)) in Hfin by (rewrite map_length; exact Hj).
    rewrite map_nth, fin_weights, (propagate_leaf x0 Hch) in Hfin. unfold wcell in Hfin. rewrite Hn in Hfin. discriminate.
  Qed.

  (* what the mapping folds into the row at p, read off the leaf rows of the table without -m *)
  Lemma own_sum_leaves p j : (j < length dates)%nat -> edef_at (nth j dates 0%Z) es0 ->
    own_sum m leaves p j == own_weight es p (nth j dates 0%Z).
  Proof.
    intros Hj Hed0. unfold own_sum. rewrite map_map.
    rewrite (map_ext _ (fun px => if gm p (fst px) then ccol dates j (snd px) else 0)) by (intros px; reflexivity).
    rewrite qsum_filter.
    rewrite (qsum_perm _ _ (Permutation_map _ (below_fin a0 T0 []))), map_map.
    rewrite (own_weight_map m es0 p (nth j dates 0%Z) es Hmap).
    transitivity (nsum (gm p) (nth j dates 0%Z) (below [] (wn_children T0))).
    - unfold nsum. apply qsum_map_ext. intros [q x] Hin. rewrite fin_leafp. cbn [nmap fst snd].
      destruct (report_shape es0) as [Hs Ha].
      destruct (below_find T0 [] q x Hs Hin) as [t [Ht [Hq Hf]]]. cbn [app] in Hq. subst t.
      pose proof (tall_here _ _ (wn_find_tall _ q _ x Ha Hf)) as Hax. cbn beta in Hax.
      unfold leafp. cbn [snd]. destruct (wn_children x) as [|c ch] eqn:Ec.
      + destruct (gm p q); [|reflexivity]. rewrite (ccol_fin dates j a0 x Hj Hax), (propagate_leaf x Ec). reflexivity.
      + destruct (gm p q); [|reflexivity]. rewrite (own_at_find_at _ es0 q x Hed0 Hf). symmetry. unfold own_weight.
        apply qsum_zero. intros [[ss dt] w] He.
        assert (Hch : wn_children x <> []) by (rewrite Ec; discriminate).
        pose proof (inner_node_no_entry es0 q x Hpf Hf Hch _ He) as Hno. cbn [entry_path] in Hno. rewrite Hno. reflexivity.
    - rewrite (nsum_report (gm p) (nth j dates 0%Z) es0 Hed0 Hne0). unfold folded_weight. apply qsum_map_ext.
      intros [[ss dt] w] _. unfold gm. destruct (map_path m ss); reflexivity.
  Qed.

  (* every row of the table with -m satisfies the law *)
  Lemma loc_all : Forall (LOC dates (length dates) m leaves) (below [] (wn_children (fin a T))).
  Proof.
    apply Forall_forall. intros px' Hin'.
    apply (Permutation_in _ (below_fin a T [])) in Hin'. apply in_map_iff in Hin'. destruct Hin' as [[q x] [<- Hin]].
    destruct (report_shape es) as [Hs Ha].
    destruct (below_find T [] q x Hs Hin) as [t [Ht [Hq Hf]]]. cbn [app] in Hq. subst t.
    pose proof (wn_find_tall _ q _ x Ha Hf) as Hax.
    intros j Hj Hfin. cbn [nmap fst snd].
    pose proof (column_defined j Hj Hfin) as Hed0.
    pose proof (map_entries_edef_at m _ es0 es Hmap Hed0) as Hed.
    pose proof (wn_find_tall _ q _ x (report_def_at _ es Hed) Hf) as Hdx.
    rewrite (ccol_fin dates j a x Hj (tall_here _ _ Hax)).
    rewrite (qsum_perm _ _ (Permutation_map (ccol dates j) (fin_children a x))), map_map.
    rewrite (own_sum_leaves q j Hj Hed0), <- (own_at_find_at _ es q x Hed Hf).
    rewrite (proj2 (propagate_at _ x Hdx)).
    apply Qplus_inj_l. apply qsum_map_ext. intros c Hc. symmetry. apply ccol_fin; [exact Hj|].
    pose proof (tall_children _ _ Hax) as Hall. rewrite Forall_forall in Hall.
    exact (tall_here _ _ (Hall c Hc)).
  Qed.

  (* every leaf row of the table without -m has a row of the table with -m to be folded into *)
  Lemma placed_all : leaves_placed_b m leaves prs = true.
  Proof.
    unfold leaves_placed_b. apply forallb_forall. intros lf Hlf. apply in_map_iff in Hlf. destruct Hlf as [px' [<- Hin']].
    apply filter_In in Hin'. destruct Hin' as [Hin' Hleaf].
    apply (Permutation_in _ (below_fin a0 T0 [])) in Hin'. apply in_map_iff in Hin'. destruct Hin' as [[q0 x0] [<- Hin]].
    rewrite fin_leafp in Hleaf. unfold leafp in Hleaf. cbn [snd] in Hleaf.
    destruct (wn_children x0) as [|c0 ch0] eqn:Ec; [|discriminate].
    destruct (below_find T0 [] q0 x0 (proj1 (report_shape es0)) Hin) as [t [Ht [Hq Hf]]]. cbn [app] in Hq. subst t.
    destruct (leaf_node_entry es0 q0 x0 Ht Hf Ec) as [e0 [He0 Hp0]].
    destruct (map_entries_in m es0 es e0 Hmap He0) as [q [Hmq [e [He Hpe]]]]. rewrite Hp0 in Hmq.
    assert (Hqne : q <> []) by (rewrite Forall_forall in Hne; rewrite <- Hpe; apply Hne; exact He).
    assert (Hsome : wn_find q T <> None).
    { apply (find_report_iff es q Hqne). exists e. split; [exact He|]. rewrite Hpe. apply path_prefix_refl. }
    destruct (wn_find q T) as [xm|] eqn:Efm; [|congruence].
    pose proof (find_in_nodes q T [] xm Efm) as Hnode. cbn [app] in Hnode. rewrite nodes_unfold in Hnode.
    destruct Hnode as [Hhead|Hnode]; [inversion Hhead; congruence|].
    apply existsb_exists. exists (nrow dates (nmap (fin a) (q, xm))). split.
    - apply in_map. apply (Permutation_in _ (Permutation_sym (below_fin a T []))). apply in_map. exact Hnode.
    - unfold mapped_to. cbn [nrow nmap fst snd]. rewrite Hmq. apply path_eqb_eq. reflexivity.
  Qed.

  Theorem table_law :
    mapping_law_b 0 (length (report_dates es)) m (srows (render_weights a0 es0)) (srows (render_weights a es)) = true.
  Proof.
    unfold mapping_law_b. rewrite !srows_render, <- (report_dates_map m es0 es Hmap).
    rewrite !row_paths_top, leaf_rows_top. apply andb_true_iff. split; [exact placed_all|].
    apply gok_top. exact loc_all.
  Qed.
End Law.

(* ------------------------------------------------------------ the command *)

Theorem mapping_law_table cfg ds es0 es t0 t :
  weights_entries (pf_unmapped cfg) ds = COk es0 -> weights_entries cfg ds = COk es ->
  prefix_free es0 -> Forall (fun e => entry_path e <> []) es ->
  weights_table (pf_unmapped cfg) ds = COk t0 -> weights_table cfg ds = COk t ->
  mapping_law_b 0 (length (fst t)) (pc_mapping cfg) (srows t0) (srows t) = true.
Proof.
  intros H0 H Hpf Hne. unfold weights_table. rewrite H0, H. cbn [cbind]. intros E0 E. inversion E0; inversion E; subst.
  cbn [render_weights fst]. change (pc_alpha (pf_unmapped cfg)) with (pc_alpha cfg).
  exact (table_law (pc_mapping cfg) es0 es (pc_alpha cfg) (pc_alpha cfg) (weights_entries_map cfg ds es0 es H0 H) Hpf Hne).
Qed.
