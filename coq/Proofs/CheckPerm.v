(* C04/C05 overlap: well-formedness (hence acceptance by the repaired checker) does not depend on
   the order of the directive list at all.  The canonical sequence is a concatenation of blocks
   (one per date and kind); permuting the input permutes each block; and a block of opens, of
   transactions, of assertions or of closes means the same in every order:
   - opens/closes of a day: all ok iff the accounts are distinct and each is ok on its own;
   - postings: ok iff the account is open (postings do not open or close anything); the
     quantities afterwards are the same because decimal addition is commutative and associative
     on records (Proofs/DecProofs.v);
   - assertions change nothing. *)
From Coq Require Import ZArith List Bool Lia Permutation Sorting.Sorted.
From Knut Require Import Model.Str Model.Dec Model.Account Model.Ledger Model.Journal Model.Check
     Spec.WellformedSpec Proofs.DecProofs Proofs.CheckLemmas Proofs.CheckProofs Proofs.BuilderProofs Proofs.CheckMain.
Import ListNotations.
Open Scope bool_scope.
Open Scope Z_scope.

(* ------------------------------------------------------------------ all_ok_before, structurally *)

Lemma all_ok_nil pre : all_ok_before pre [].
Proof. intros p e q H. destruct p; discriminate. Qed.

Lemma all_ok_cons pre e l : all_ok_before pre (e :: l) <-> ok_event pre e /\ all_ok_before (pre ++ [e]) l.
Proof.
  unfold all_ok_before. split.
  - intros H. split.
    + specialize (H [] e l eq_refl). rewrite app_nil_r in H. exact H.
    + intros p e' q Hr. specialize (H (e :: p) e' q). rewrite <- app_assoc. apply H. rewrite Hr. reflexivity.
  - intros [H1 H2] p e' q H. destruct p as [|x p]; cbn in H; inversion H; subst.
    + rewrite app_nil_r. exact H1.
    + specialize (H2 p e' q eq_refl). rewrite <- app_assoc in H2. exact H2.
Qed.

Lemma all_ok_app l1 : forall pre l2,
  all_ok_before pre (l1 ++ l2) <-> all_ok_before pre l1 /\ all_ok_before (pre ++ l1) l2.
Proof.
  induction l1 as [|e l1 IH]; intros pre l2; cbn [app].
  - rewrite app_nil_r. split; [intros H; split; [apply all_ok_nil|exact H]|tauto].
  - rewrite !all_ok_cons, IH. rewrite <- app_assoc. cbn [app]. tauto.
Qed.

(* ------------------------------------------------------------------ equivalent histories *)

Definition heq (p1 p2 : list event) : Prop :=
  (forall a, open_after p1 a = open_after p2 a) /\ (forall a c, quantity p1 a c = quantity p2 a c).

Lemma heq_refl p : heq p p.
Proof. split; reflexivity. Qed.

Lemma heq_snoc p1 p2 e : heq p1 p2 -> heq (p1 ++ [e]) (p2 ++ [e]).
Proof.
  intros [Ho Hq]. split.
  - intros a. rewrite !open_after_snoc, Ho. reflexivity.
  - intros a c. rewrite !quantity_snoc, Hq. reflexivity.
Qed.

Lemma ok_event_heq p1 p2 e : heq p1 p2 -> (ok_event p1 e <-> ok_event p2 e).
Proof.
  intros [Ho Hq]. destruct e as [a|a c q|a c q|a]; cbn [ok_event]; rewrite ?Ho.
  - reflexivity.
  - reflexivity.
  - rewrite Hq. reflexivity.
  - split; intros [H1 H2]; (split; [exact H1|]); intros Al c; [rewrite <- Hq|rewrite Hq]; apply H2; exact Al.
Qed.

Lemma all_ok_heq l : forall p1 p2, heq p1 p2 -> (all_ok_before p1 l <-> all_ok_before p2 l).
Proof.
  induction l as [|e l IH]; intros p1 p2 H.
  - split; intros _; apply all_ok_nil.
  - rewrite !all_ok_cons. rewrite (ok_event_heq p1 p2 e H). rewrite (IH _ _ (heq_snoc _ _ e H)). reflexivity.
Qed.

Lemma heq_app l : forall p1 p2, heq p1 p2 -> heq (p1 ++ l) (p2 ++ l).
Proof.
  induction l as [|e l IH]; intros p1 p2 H.
  - rewrite !app_nil_r. exact H.
  - replace (p1 ++ e :: l) with ((p1 ++ [e]) ++ l) by (rewrite <- app_assoc; reflexivity).
    replace (p2 ++ e :: l) with ((p2 ++ [e]) ++ l) by (rewrite <- app_assoc; reflexivity).
    apply IH. apply heq_snoc. exact H.
Qed.

Lemma heq_trans p1 p2 p3 : heq p1 p2 -> heq p2 p3 -> heq p1 p3.
Proof. intros [A1 A2] [B1 B2]. split; intros; [rewrite A1; apply B1|rewrite A2; apply B2]. Qed.

(* blocks that mean the same after equivalent histories *)
Definition bequiv (b1 b2 : list event) : Prop :=
  forall p1 p2, heq p1 p2 -> (all_ok_before p1 b1 <-> all_ok_before p2 b2) /\ heq (p1 ++ b1) (p2 ++ b2).

Lemma bequiv_nil : bequiv [] [].
Proof. intros p1 p2 H. rewrite !app_nil_r. split; [split; intros _; apply all_ok_nil|exact H]. Qed.

Lemma bequiv_app a1 a2 b1 b2 : bequiv a1 a2 -> bequiv b1 b2 -> bequiv (a1 ++ b1) (a2 ++ b2).
Proof.
  intros Ha Hb p1 p2 H. destruct (Ha p1 p2 H) as [A1 A2]. destruct (Hb _ _ A2) as [B1 B2].
  rewrite !all_ok_app, !app_assoc. split; [rewrite A1, B1; reflexivity|exact B2].
Qed.

Lemma bequiv_concat bs1 bs2 : Forall2 bequiv bs1 bs2 -> bequiv (concat bs1) (concat bs2).
Proof. induction 1; cbn [concat]; [apply bequiv_nil|apply bequiv_app; assumption]. Qed.

(* ------------------------------------------------------------------ fold_left over a permutation *)

Lemma fold_left_perm {A B} (f : A -> B -> A) (l1 l2 : list B) :
  (forall a x y, f (f a x) y = f (f a y) x) -> Permutation l1 l2 -> forall a, fold_left f l1 a = fold_left f l2 a.
Proof.
  intros Hc P. induction P; intros a; cbn.
  - reflexivity.
  - apply IHP.
  - rewrite Hc. reflexivity.
  - rewrite IHP1. apply IHP2.
Qed.

Lemma qty_step_comm a c q x y : qty_step a c (qty_step a c q x) y = qty_step a c (qty_step a c q y) x.
Proof.
  destruct x as [?|ax cx qx|? ? ?|?], y as [?|ay cy qy|? ? ?|?]; cbn [qty_step]; try reflexivity.
  destruct (same_acc a ax && same_com c cx), (same_acc a ay && same_com c cy); try reflexivity.
  rewrite !add_assoc. f_equal. apply add_comm.
Qed.

Lemma open_step_comm_post a o x y :
  (forall b, x <> EOpen b /\ x <> EClose b) -> open_step a (open_step a o x) y = open_step a (open_step a o y) x.
Proof. intros H. destruct x as [b| | |b]; try reflexivity; destruct (H b) as [H1 H2]; congruence. Qed.

(* ------------------------------------------------------------------ blocks of opens and closes *)

Lemma existsb_same_acc_perm a l1 l2 : Permutation l1 l2 -> existsb (same_acc a) l1 = existsb (same_acc a) l2.
Proof.
  intros P. destruct (existsb (same_acc a) l1) eqn:E1, (existsb (same_acc a) l2) eqn:E2; try reflexivity.
  - apply existsb_exists in E1. destruct E1 as [x [H1 H2]].
    assert (existsb (same_acc a) l2 = true) by (apply existsb_exists; exists x; split; [eapply Permutation_in; eassumption|exact H2]).
    congruence.
  - apply existsb_exists in E2. destruct E2 as [x [H1 H2]].
    assert (existsb (same_acc a) l1 = true)
      by (apply existsb_exists; exists x; split; [eapply Permutation_in; [apply Permutation_sym; eassumption|exact H1]|exact H2]).
    congruence.
Qed.

Lemma open_after_opens l : forall pre a,
  open_after (pre ++ map EOpen l) a = open_after pre a || existsb (same_acc a) l.
Proof.
  induction l as [|b l IH]; intros pre a; cbn [map existsb].
  - rewrite app_nil_r, orb_false_r. reflexivity.
  - replace (pre ++ EOpen b :: map EOpen l) with ((pre ++ [EOpen b]) ++ map EOpen l) by (rewrite <- app_assoc; reflexivity).
    rewrite IH, open_after_snoc. cbn [open_step].
    destruct (same_acc a b); cbn; [rewrite orb_true_r; reflexivity|reflexivity].
Qed.

Lemma open_after_closes l : forall pre a,
  open_after (pre ++ map EClose l) a = open_after pre a && negb (existsb (same_acc a) l).
Proof.
  induction l as [|b l IH]; intros pre a; cbn [map existsb].
  - rewrite app_nil_r, andb_true_r. reflexivity.
  - replace (pre ++ EClose b :: map EClose l) with ((pre ++ [EClose b]) ++ map EClose l) by (rewrite <- app_assoc; reflexivity).
    rewrite IH, open_after_snoc. cbn [open_step].
    destruct (same_acc a b); cbn; [rewrite andb_false_r; reflexivity|reflexivity].
Qed.

Lemma quantity_neutral l : forall pre a c,
  (forall e, In e l -> forall a' c' x, e <> EPost a' c' x) -> quantity (pre ++ l) a c = quantity pre a c.
Proof.
  induction l as [|e l IH]; intros pre a c H.
  - rewrite app_nil_r. reflexivity.
  - replace (pre ++ e :: l) with ((pre ++ [e]) ++ l) by (rewrite <- app_assoc; reflexivity).
    rewrite IH by (intros e' He'; apply H; right; exact He'). rewrite quantity_snoc.
    destruct e as [?|a' c' x|? ? ?|?]; cbn [qty_step]; try reflexivity.
    exfalso. apply (H (EPost a' c' x) (or_introl eq_refl) a' c' x). reflexivity.
Qed.

Lemma open_after_neutral l : forall pre a,
  (forall e, In e l -> forall b, e <> EOpen b /\ e <> EClose b) -> open_after (pre ++ l) a = open_after pre a.
Proof.
  induction l as [|e l IH]; intros pre a H.
  - rewrite app_nil_r. reflexivity.
  - replace (pre ++ e :: l) with ((pre ++ [e]) ++ l) by (rewrite <- app_assoc; reflexivity).
    rewrite IH by (intros e' He'; apply H; right; exact He'). rewrite open_after_snoc.
    destruct e as [b|? ? ?|? ? ?|b]; cbn [open_step]; try reflexivity;
      destruct (H _ (or_introl eq_refl) b) as [H1 H2]; congruence.
Qed.

Lemma not_post_open l e : In e (map EOpen l) -> forall a' c' x, e <> EPost a' c' x.
Proof. rewrite in_map_iff. intros [b [H _]]. subst e. discriminate. Qed.

Lemma not_post_close l e : In e (map EClose l) -> forall a' c' x, e <> EPost a' c' x.
Proof. rewrite in_map_iff. intros [b [H _]]. subst e. discriminate. Qed.

Lemma all_ok_opens l : forall pre,
  all_ok_before pre (map EOpen l) <-> NoDup l /\ forall a, In a l -> open_after pre a = false.
Proof.
  induction l as [|b l IH]; intros pre; cbn [map].
  - split; [intros _; split; [constructor|intros a []]|intros _; apply all_ok_nil].
  - rewrite all_ok_cons, IH. cbn [ok_event]. split.
    + intros [H1 [H2 H3]]. split.
      * constructor; [|exact H2]. intros Hin. specialize (H3 b Hin).
        rewrite open_after_snoc in H3. cbn [open_step] in H3. rewrite same_acc_refl in H3. discriminate.
      * intros a [Ha|Ha]; [subst a; exact H1|].
        specialize (H3 a Ha). rewrite open_after_snoc in H3. cbn [open_step] in H3.
        destruct (same_acc a b); [discriminate|exact H3].
    + intros [H1 H2]. inversion H1 as [|? ? Hn Hd]; subst.
      split; [apply H2; left; reflexivity|]. split; [exact Hd|].
      intros a Ha. rewrite open_after_snoc. cbn [open_step].
      destruct (same_acc a b) eqn:E; [apply same_acc_eq in E; subst a; contradiction|apply H2; right; exact Ha].
Qed.

Lemma all_ok_closes l : forall pre,
  all_ok_before pre (map EClose l) <-> NoDup l /\ forall a, In a l -> ok_event pre (EClose a).
Proof.
  induction l as [|b l IH]; intros pre; cbn [map].
  - split; [intros _; split; [constructor|intros a []]|intros _; apply all_ok_nil].
  - rewrite all_ok_cons, IH.
    assert (Hq : forall a c, quantity (pre ++ [EClose b]) a c = quantity pre a c)
      by (intros a c; rewrite quantity_snoc; reflexivity).
    assert (Ho : forall a, open_after (pre ++ [EClose b]) a = if same_acc a b then false else open_after pre a)
      by (intros a; rewrite open_after_snoc; reflexivity).
    split.
    + intros [H1 [H2 H3]]. split.
      * constructor; [|exact H2]. intros Hin. destruct (H3 b Hin) as [H4 _].
        rewrite Ho, same_acc_refl in H4. discriminate.
      * intros a [Ha|Ha]; [subst a; exact H1|].
        destruct (H3 a Ha) as [H4 H5]. rewrite Ho in H4. destruct (same_acc a b); [discriminate|].
        split; [exact H4|]. intros Al c. rewrite <- Hq. apply H5. exact Al.
    + intros [H1 H2]. inversion H1 as [|? ? Hn Hd]; subst.
      split; [apply H2; left; reflexivity|]. split; [exact Hd|].
      intros a Ha. destruct (H2 a (or_intror Ha)) as [H4 H5]. split.
      * rewrite Ho. destruct (same_acc a b) eqn:E; [apply same_acc_eq in E; subst a; contradiction|exact H4].
      * intros Al c. rewrite Hq. apply H5. exact Al.
Qed.

Lemma bequiv_opens l1 l2 : Permutation l1 l2 -> bequiv (map EOpen l1) (map EOpen l2).
Proof.
  intros P p1 p2 H. pose proof H as [Ho Hq]. split.
  - rewrite !all_ok_opens. split; intros [N F]; split.
    + eapply Permutation_NoDup; eassumption.
    + intros a Ha. rewrite <- Ho. apply F. eapply Permutation_in; [apply Permutation_sym; eassumption|exact Ha].
    + eapply Permutation_NoDup; [apply Permutation_sym; eassumption|exact N].
    + intros a Ha. rewrite Ho. apply F. eapply Permutation_in; eassumption.
  - split.
    + intros a. rewrite !open_after_opens, Ho, (existsb_same_acc_perm a l1 l2 P). reflexivity.
    + intros a c. rewrite !quantity_neutral by apply not_post_open. apply Hq.
Qed.

Lemma bequiv_closes l1 l2 : Permutation l1 l2 -> bequiv (map EClose l1) (map EClose l2).
Proof.
  intros P p1 p2 H. pose proof H as [Ho Hq]. split.
  - rewrite !all_ok_closes. split; intros [N F]; split.
    + eapply Permutation_NoDup; eassumption.
    + intros a Ha. apply (ok_event_heq p1 p2 _ H). apply F. eapply Permutation_in; [apply Permutation_sym; eassumption|exact Ha].
    + eapply Permutation_NoDup; [apply Permutation_sym; eassumption|exact N].
    + intros a Ha. apply (ok_event_heq p1 p2 _ H). apply F. eapply Permutation_in; eassumption.
  - split.
    + intros a. rewrite !open_after_closes, Ho, (existsb_same_acc_perm a l1 l2 P). reflexivity.
    + intros a c. rewrite !quantity_neutral by apply not_post_close. apply Hq.
Qed.

(* ------------------------------------------------------------------ blocks of postings and of assertions *)

Definition is_post (e : event) : Prop := exists a c q, e = EPost a c q.
Definition is_assert (e : event) : Prop := exists a c q, e = EAssert a c q.

Lemma post_not_openclose e : is_post e -> forall b, e <> EOpen b /\ e <> EClose b.
Proof. intros [a [c [q H]]] b. subst e. split; discriminate. Qed.

Lemma assert_not_openclose e : is_assert e -> forall b, e <> EOpen b /\ e <> EClose b.
Proof. intros [a [c [q H]]] b. subst e. split; discriminate. Qed.

Lemma assert_not_post e : is_assert e -> forall a' c' x, e <> EPost a' c' x.
Proof. intros [a [c [q H]]] a' c' x. subst e. discriminate. Qed.

(* a block that opens and closes nothing: every event is judged as at the start of the block, as
   far as openness is concerned *)
Lemma all_ok_posts l : forall pre,
  (forall e, In e l -> is_post e) ->
  (all_ok_before pre l <-> forall e, In e l -> ok_event pre e).
Proof.
  induction l as [|e l IH]; intros pre Hp.
  - split; [intros _ e []|intros _; apply all_ok_nil].
  - rewrite all_ok_cons, IH by (intros e' He'; apply Hp; right; exact He').
    assert (Hsame : forall e', is_post e' -> (ok_event (pre ++ [e]) e' <-> ok_event pre e')).
    { intros e' [a [c [q He']]]. subst e'. cbn [ok_event].
      rewrite (open_after_neutral [e] pre a); [reflexivity|].
      intros x [Hx|[]] b. subst x. apply post_not_openclose. apply Hp. left. reflexivity. }
    split.
    + intros [H1 H2] e' [He'|He']; [subst e'; exact H1|].
      apply Hsame; [apply Hp; right; exact He'|apply H2; exact He'].
    + intros H. split; [apply H; left; reflexivity|].
      intros e' He'. apply Hsame; [apply Hp; right; exact He'|apply H; right; exact He'].
Qed.

Lemma all_ok_asserts l : forall pre,
  (forall e, In e l -> is_assert e) ->
  (all_ok_before pre l <-> forall e, In e l -> ok_event pre e).
Proof.
  induction l as [|e l IH]; intros pre Hp.
  - split; [intros _ e []|intros _; apply all_ok_nil].
  - rewrite all_ok_cons, IH by (intros e' He'; apply Hp; right; exact He').
    assert (Hh : heq (pre ++ [e]) pre).
    { split.
      - intros a. apply open_after_neutral. intros x [Hx|[]] b. subst x. apply assert_not_openclose. apply Hp. left. reflexivity.
      - intros a c. apply quantity_neutral. intros x [Hx|[]]. subst x. apply assert_not_post. apply Hp. left. reflexivity. }
    split.
    + intros [H1 H2] e' [He'|He']; [subst e'; exact H1|].
      apply (ok_event_heq _ _ e' Hh). apply H2. exact He'.
    + intros H. split; [apply H; left; reflexivity|].
      intros e' He'. apply (ok_event_heq _ _ e' Hh). apply H. right. exact He'.
Qed.

Lemma bequiv_posts l1 l2 :
  Permutation l1 l2 -> (forall e, In e l1 -> is_post e) -> bequiv l1 l2.
Proof.
  intros P Hp1 p1 p2 H. pose proof H as [Ho Hq].
  assert (Hp2 : forall e, In e l2 -> is_post e)
    by (intros e He; apply Hp1; eapply Permutation_in; [apply Permutation_sym; eassumption|exact He]).
  split.
  - rewrite (all_ok_posts l1 p1 Hp1), (all_ok_posts l2 p2 Hp2). split; intros F e He.
    + apply (ok_event_heq p1 p2 e H). apply F. eapply Permutation_in; [apply Permutation_sym; eassumption|exact He].
    + apply (ok_event_heq p1 p2 e H). apply F. eapply Permutation_in; eassumption.
  - split.
    + intros a. rewrite !open_after_neutral by (intros e He; apply post_not_openclose; auto). apply Ho.
    + intros a c. unfold quantity. rewrite !fold_left_app. fold (quantity p1 a c). fold (quantity p2 a c).
      rewrite Hq. apply fold_left_perm; [intros; apply qty_step_comm|exact P].
Qed.

Lemma bequiv_asserts l1 l2 :
  Permutation l1 l2 -> (forall e, In e l1 -> is_assert e) -> bequiv l1 l2.
Proof.
  intros P Hp1 p1 p2 H. pose proof H as [Ho Hq].
  assert (Hp2 : forall e, In e l2 -> is_assert e)
    by (intros e He; apply Hp1; eapply Permutation_in; [apply Permutation_sym; eassumption|exact He]).
  split.
  - rewrite (all_ok_asserts l1 p1 Hp1), (all_ok_asserts l2 p2 Hp2). split; intros F e He.
    + apply (ok_event_heq p1 p2 e H). apply F. eapply Permutation_in; [apply Permutation_sym; eassumption|exact He].
    + apply (ok_event_heq p1 p2 e H). apply F. eapply Permutation_in; eassumption.
  - split.
    + intros a. rewrite !open_after_neutral by (intros e He; apply assert_not_openclose; auto). apply Ho.
    + intros a c. rewrite !quantity_neutral by (intros e He; apply assert_not_post; auto). apply Hq.
Qed.

(* ------------------------------------------------------------------ blocks of directives of one kind *)

Lemma perm_flat_map {A B} (f : A -> list B) l1 l2 : Permutation l1 l2 -> Permutation (flat_map f l1) (flat_map f l2).
Proof.
  induction 1; cbn.
  - constructor.
  - apply Permutation_app_head. assumption.
  - rewrite !app_assoc. apply Permutation_app_tail. apply Permutation_app_comm.
  - eapply Permutation_trans; eassumption.
Qed.

Lemma perm_filter {A} (f : A -> bool) l1 l2 : Permutation l1 l2 -> Permutation (filter f l1) (filter f l2).
Proof.
  induction 1; cbn.
  - constructor.
  - destruct (f x); [constructor|]; assumption.
  - destruct (f x), (f y); try apply Permutation_refl. constructor.
  - eapply Permutation_trans; eassumption.
Qed.

Definition open_accs (l : list directive) : list account :=
  flat_map (fun d => match d with DOpen _ a => [a] | _ => [] end) l.
Definition close_accs (l : list directive) : list account :=
  flat_map (fun d => match d with DClose _ a => [a] | _ => [] end) l.

Lemma events_opens l : (forall d, In d l -> dkind d = 1) -> flat_map events_of l = map EOpen (open_accs l).
Proof.
  induction l as [|d l IH]; intros H; [reflexivity|].
  cbn [flat_map open_accs]. fold (open_accs l). rewrite map_app, <- IH by (intros d' Hd'; apply H; right; exact Hd').
  specialize (H d (or_introl eq_refl)). destruct d; cbn in H; try discriminate. reflexivity.
Qed.

Lemma events_closes l : (forall d, In d l -> dkind d = 4) -> flat_map events_of l = map EClose (close_accs l).
Proof.
  induction l as [|d l IH]; intros H; [reflexivity|].
  cbn [flat_map close_accs]. fold (close_accs l). rewrite map_app, <- IH by (intros d' Hd'; apply H; right; exact Hd').
  specialize (H d (or_introl eq_refl)). destruct d; cbn in H; try discriminate. reflexivity.
Qed.

Lemma events_prices l : (forall d, In d l -> dkind d = 0) -> flat_map events_of l = [].
Proof.
  induction l as [|d l IH]; intros H; [reflexivity|].
  cbn [flat_map]. rewrite IH by (intros d' Hd'; apply H; right; exact Hd').
  specialize (H d (or_introl eq_refl)). destruct d; cbn in H; try discriminate. reflexivity.
Qed.

Lemma events_txns l e : (forall d, In d l -> dkind d = 2) -> In e (flat_map events_of l) -> is_post e.
Proof.
  intros H. rewrite in_flat_map. intros [d [Hd He]]. specialize (H d Hd).
  destruct d; cbn in H; try discriminate. cbn in He. apply in_map_iff in He. destruct He as [p [Hp _]].
  subst e. eexists _, _, _. reflexivity.
Qed.

Lemma events_asserts l e : (forall d, In d l -> dkind d = 3) -> In e (flat_map events_of l) -> is_assert e.
Proof.
  intros H. rewrite in_flat_map. intros [d [Hd He]]. specialize (H d Hd).
  destruct d; cbn in H; try discriminate. cbn in He. apply in_map_iff in He. destruct He as [p [Hp _]].
  subst e. eexists _, _, _. reflexivity.
Qed.

Lemma dkind_range d : dkind d = 0 \/ dkind d = 1 \/ dkind d = 2 \/ dkind d = 3 \/ dkind d = 4.
Proof. destruct d; cbn; tauto. Qed.

Lemma bequiv_kind k l1 l2 :
  Permutation l1 l2 -> (forall d, In d l1 -> dkind d = k) ->
  bequiv (flat_map events_of l1) (flat_map events_of l2).
Proof.
  intros P H1.
  assert (H2 : forall d, In d l2 -> dkind d = k)
    by (intros d Hd; apply H1; eapply Permutation_in; [apply Permutation_sym; eassumption|exact Hd]).
  destruct l1 as [|d0 l1'] eqn:El1.
  - apply Permutation_nil in P. subst l2. apply bequiv_nil.
  - rewrite <- El1 in *. assert (Hk : dkind d0 = k) by (apply H1; rewrite El1; left; reflexivity).
    destruct (dkind_range d0) as [K|[K|[K|[K|K]]]]; rewrite K in Hk; subst k.
    + rewrite (events_prices l1 H1), (events_prices l2 H2). apply bequiv_nil.
    + rewrite (events_opens l1 H1), (events_opens l2 H2). apply bequiv_opens. apply perm_flat_map. exact P.
    + apply bequiv_posts; [apply perm_flat_map; exact P|]. intros e He. eapply events_txns; eassumption.
    + apply bequiv_asserts; [apply perm_flat_map; exact P|]. intros e He. eapply events_asserts; eassumption.
    + rewrite (events_closes l1 H1), (events_closes l2 H2). apply bequiv_closes. apply perm_flat_map. exact P.
Qed.

(* ------------------------------------------------------------------ the whole journal *)

Lemma bequiv_day ds1 ds2 dt :
  Permutation ds1 ds2 -> bequiv (flat_map events_of (of_day ds1 dt)) (flat_map events_of (of_day ds2 dt)).
Proof.
  intros P.
  assert (K : forall k, bequiv (flat_map events_of (sel ds1 dt k)) (flat_map events_of (sel ds2 dt k))).
  { intros k. apply (bequiv_kind k).
    - unfold sel. apply perm_filter. exact P.
    - intros d Hd. apply sel_in in Hd. tauto. }
  unfold of_day. rewrite !flat_map_app.
  repeat apply bequiv_app; apply K.
Qed.

Lemma bequiv_days ds1 ds2 (l : list Z) :
  Permutation ds1 ds2 ->
  bequiv (flat_map events_of (flat_map (of_day ds1) l)) (flat_map events_of (flat_map (of_day ds2) l)).
Proof.
  intros P. induction l as [|dt l IH]; cbn [flat_map]; [apply bequiv_nil|].
  rewrite !flat_map_app. apply bequiv_app; [apply bequiv_day; exact P|exact IH].
Qed.

Lemma dates_perm ds1 ds2 : Permutation ds1 ds2 -> dates ds1 = dates ds2.
Proof.
  intros P. apply sorted_unique; try apply dates_sorted.
  intros x. rewrite !dates_in. split; intros H.
  - eapply Permutation_in; [apply Permutation_map; eassumption|exact H].
  - eapply Permutation_in; [apply Permutation_map; apply Permutation_sym; eassumption|exact H].
Qed.

Theorem wellformed_perm ds1 ds2 : Permutation ds1 ds2 -> (wellformed ds1 <-> wellformed ds2).
Proof.
  intros P. unfold wellformed, events, canonical. rewrite <- (dates_perm ds1 ds2 P).
  rewrite <- !all_ok_before_nil.
  apply (bequiv_days ds1 ds2 (dates ds1) P [] [] (heq_refl [])).
Qed.

Lemma syntactic_perm ds1 ds2 : Permutation ds1 ds2 -> syntactic ds1 -> syntactic ds2.
Proof.
  intros P S d e Hd He. apply (S d e); [|exact He].
  eapply Permutation_in; [apply Permutation_sym; eassumption|exact Hd].
Qed.

Theorem check_perm ds1 ds2 :
  Permutation ds1 ds2 -> syntactic ds1 -> (check_model ds1 = VOk <-> check_model ds2 = VOk).
Proof.
  intros P S. rewrite (check_iff ds1 S), (check_iff ds2 (syntactic_perm _ _ P S)). apply wellformed_perm. exact P.
Qed.
