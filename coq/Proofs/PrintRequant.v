(* C09 (b), second half: what re-reading does to the QUANTITIES of a journal.
   The text carries Decimal.String of every quantity; reading it back gives [reread q]
   (DecNormalForm.v): same value, same text, in general another exponent.  [rq_sdir] is that
   change on a syntax-level directive, [rq_dir]/[rq_day] on model directives and days (the credit
   half of a posting pair is the negation of the re-read debit half, as posting.Builder makes it).
   Here: the model layer and the builder commute with it ([parse_rq], [builder_of_rq]), the sort
   of journal.Print commutes with it ([sort_days_rq]), and the printer does not see it
   ([print_journal_rq]). *)
From Coq Require Import ZArith List Bool Lia Permutation.
From Knut Require Import Model.Str Model.Dec Model.Date Model.Account Model.Ledger Model.Journal
     Model.Check Model.Pipeline Model.Table Model.Report Model.JPrinter Model.Cli Model.ToModel.
From Knut Require Import Spec.TableSpec Spec.WellformedSpec Spec.PrintSpec.
From Knut Require Import Proofs.DecProofs Proofs.DecEqProofs Proofs.DecNormalForm Proofs.StableSort
     Proofs.BuilderProofs Proofs.PrintProofs Proofs.PrintRegroup Proofs.TxnOrder.
Import ListNotations.
Open Scope bool_scope.
Open Scope Z_scope.

(* ------------------------------------------------------------------ definitions *)

Definition set_qty (p : posting) (q : dec) : posting := mkPosting (p_acc p) (p_other p) (p_com p) q (p_val p).

Fixpoint rq_postings (ps : list posting) : list posting :=
  match ps with
  | p1 :: p2 :: rest =>
    set_qty p1 (neg (reread (p_qty p2))) :: set_qty p2 (reread (p_qty p2)) :: rq_postings rest
  | _ => ps
  end.

Definition rq_txn (t : txn) : txn := mkTxn (t_date t) (t_desc t) (rq_postings (t_postings t)) (t_targets t).
Definition rq_balance (b : balance) : balance := mkBalance (bal_acc b) (reread (bal_qty b)) (bal_com b).
Definition rq_price (x : commodity * dec * commodity) : commodity * dec * commodity :=
  (fst (fst x), reread (snd (fst x)), snd x).

Definition rq_dir (d : directive) : directive :=
  match d with
  | DPrice dt c p t => DPrice dt c (reread p) t
  | DAssert dt bs => DAssert dt (map rq_balance bs)
  | DTxn t => DTxn (rq_txn t)
  | _ => d
  end.

Definition rq_day (x : day) : day :=
  mkDay (d_date x) (map rq_price (d_prices x)) (d_opens x) (map rq_txn (d_txns x))
        (map (map rq_balance) (d_asserts x)) (d_closes x) (d_normalized x).

Definition rq_booking (b : booking) : booking := mkBooking (b_credit b) (b_debit b) (reread (b_qty b)) (b_com b).

(* a syntax-level directive after a trip through its text *)
Definition rq_sdir (s : sdirective) : sdirective :=
  match s with
  | SPrice d c p t => SPrice d c (reread p) t
  | SAssert d bs => SAssert d (map rq_balance bs)
  | STxn st => STxn (mkStxn (st_date st) (st_desc st) (map rq_booking (st_bookings st)) (st_targets st) (st_accrual st))
  | _ => s
  end.

(* ------------------------------------------------------------------ lists in pairs *)

Lemma list_pair_ind {A} (P : list A -> Prop) :
  P [] -> (forall a, P [a]) -> (forall a b l, P l -> P (a :: b :: l)) -> forall l, P l.
Proof.
  intros H0 H1 H2.
  assert (H : forall l, P l /\ forall a, P (a :: l)).
  { induction l as [|x l [IH1 IH2]]; split; auto. }
  intros l. apply H.
Qed.

Lemma odd_postings_rq ps :
  odd_postings (rq_postings ps) = map (fun p => set_qty p (reread (p_qty p))) (odd_postings ps).
Proof.
  induction ps as [|a|a b l IH] using list_pair_ind; try reflexivity.
  cbn [rq_postings odd_postings map]. now rewrite IH.
Qed.

(* ------------------------------------------------------------------ the model layer commutes *)

Lemma sdir_of_rq d : sdir_of_dir (rq_dir d) = rq_sdir (sdir_of_dir d).
Proof.
  destruct d as [dt c p t|dt a|dt a|dt bs|t]; try reflexivity.
  cbn [rq_dir sdir_of_dir rq_sdir]. f_equal. unfold stxn_of_txn, rq_txn.
  cbn [t_date t_desc t_postings t_targets st_date st_desc st_bookings st_targets st_accrual].
  f_equal. rewrite odd_postings_rq, !map_map. apply map_ext. intros p. reflexivity.
Qed.

Lemma canonical_rq ps : canonical ps -> canonical (rq_postings ps).
Proof.
  induction 1 as [|p1 p2 rest (H1 & H2 & H3 & H4 & H5) Hr IH]; [constructor|].
  cbn [rq_postings]. constructor; [|exact IH].
  unfold canonical_pair, set_qty. cbn [p_acc p_other p_com p_qty p_val].
  subst p1. cbn [p_acc p_other p_com p_qty p_val]. rewrite H3.
  repeat split; try assumption. rewrite reread_is_neg. exact H2.
Qed.

(* a model directive that its own printed form denotes *)
Definition dir_ok (d : directive) : Prop := parse_directive (sdir_of_dir d) = MOk [d].

Lemma check_balances_rq bs : check_balances (map rq_balance bs) = check_balances bs.
Proof. induction bs as [|b bs IH]; [reflexivity|]. cbn [map check_balances rq_balance bal_acc]. now rewrite IH. Qed.

Lemma dir_ok_txn_canonical t : dir_ok (DTxn t) -> canonical (t_postings t).
Proof.
  unfold dir_ok. cbn [sdir_of_dir parse_directive]. unfold txn_create, txn_create_gen, stxn_of_txn.
  cbn [st_bookings st_accrual st_date st_desc st_targets].
  destruct (postings_create (map booking_of (odd_postings (t_postings t)))) as [ps| |] eqn:E; cbn [mbind]; try discriminate.
  intros H. injection H as H1. apply postings_create_canonical in E.
  rewrite <- H1. exact E.
Qed.

Lemma dir_ok_rq d : dir_ok d -> dir_ok (rq_dir d).
Proof.
  destruct d as [dt c p t|dt a|dt a|dt bs|t]; intros H; try exact H.
  - reflexivity.
  - unfold dir_ok in *. cbn [rq_dir sdir_of_dir parse_directive] in *. rewrite check_balances_rq.
    destruct (check_balances bs); cbn [mbind] in *; try discriminate. reflexivity.
  - unfold dir_ok. cbn [rq_dir sdir_of_dir parse_directive].
    rewrite txn_create_printed; [reflexivity|]. unfold rq_txn. cbn [t_postings].
    apply canonical_rq, dir_ok_txn_canonical, H.
Qed.

Theorem parse_rq ds : Forall dir_ok ds ->
  parse_directives (map rq_sdir (map sdir_of_dir ds)) = MOk (map rq_dir ds).
Proof.
  intros H. rewrite map_map. rewrite (map_ext _ (fun d => sdir_of_dir (rq_dir d))) by (intros; symmetry; apply sdir_of_rq).
  rewrite <- map_map. apply parse_directives_denoted. intros d Hd.
  apply in_map_iff in Hd. destruct Hd as (x & <- & Hx). apply dir_ok_rq.
  rewrite Forall_forall in H. now apply H.
Qed.

(* ------------------------------------------------------------------ the builder commutes *)

Definition map_builder (g : day -> day) (b : builder) : builder := mkBuilder (map g (b_days b)) (b_min b) (b_max b).

Lemma upd_day_map (g : day -> day) f f' : forall days dt,
  (forall x, d_date (g x) = d_date x) -> (forall x, g (f x) = f' (g x)) -> g (empty_day dt) = empty_day dt ->
  upd_day (map g days) dt f' = map g (upd_day days dt f).
Proof.
  intros days dt Hd Hf He. induction days as [|x days IH]; cbn [map upd_day].
  - now rewrite Hf, He.
  - rewrite Hd. destruct (dt =? d_date x); [cbn [map]; now rewrite Hf|].
    destruct (dt <? d_date x); cbn [map]; [now rewrite Hf, He|now rewrite IH].
Qed.

Lemma ddate_rq d : ddate (rq_dir d) = ddate d.
Proof. destruct d; reflexivity. Qed.

Lemma rq_day_add d x : rq_day (add_to_day d x) = add_to_day (rq_dir d) (rq_day x).
Proof.
  destruct d as [dt c p t|dt a|dt a|dt bs|t]; unfold rq_day, add_to_day, add_txn_day;
    cbn [rq_dir d_date d_prices d_opens d_txns d_asserts d_closes d_normalized]; rewrite ?map_app; reflexivity.
Qed.

Lemma builder_add_rq b d : builder_add (map_builder rq_day b) (rq_dir d) = map_builder rq_day (builder_add b d).
Proof.
  assert (Hdays : b_days (builder_add (map_builder rq_day b) (rq_dir d)) = map rq_day (b_days (builder_add b d))).
  { rewrite !builder_add_days, ddate_rq. unfold map_builder. cbn [b_days].
    apply upd_day_map; [reflexivity|apply rq_day_add|reflexivity]. }
  destruct d as [dt c p t|dt a|dt a|dt bs|t]; unfold map_builder in *;
    cbn [builder_add rq_dir b_days b_min b_max rq_txn t_date] in *; rewrite Hdays; reflexivity.
Qed.

Theorem builder_of_rq ds : builder_of (map rq_dir ds) = map_builder rq_day (builder_of ds).
Proof.
  induction ds as [|d ds IH] using rev_ind; [reflexivity|].
  rewrite map_app. cbn [map]. rewrite !builder_of_snoc, IH. apply builder_add_rq.
Qed.

Lemma day_directives_rq x : day_directives (rq_day x) = map rq_dir (day_directives x).
Proof.
  unfold day_directives, rq_day. cbn [d_date d_prices d_opens d_txns d_asserts d_closes].
  rewrite !map_app, !map_map. repeat f_equal.
Qed.

Lemma flat_day_directives_rq D : flat_map day_directives (map rq_day D) = map rq_dir (flat_map day_directives D).
Proof. induction D as [|x D IH]; [reflexivity|]. cbn [map flat_map]. now rewrite map_app, day_directives_rq, IH. Qed.

(* ------------------------------------------------------------------ the same values *)

Lemma deqv_of_eqv a b : dec_eqv a b -> dec_equal a b = true.
Proof. unfold dec_eqv, coef_at. intros H. apply dec_equal_min. unfold scale_to, pow10. exact H. Qed.

Lemma deqv_reread q : dec_equal (reread q) q = true.
Proof. apply deqv_of_eqv, reread_eqv. Qed.

Lemma deqv_neg a b : dec_equal a b = true -> dec_equal (neg a) (neg b) = true.
Proof.
  intros H. apply dec_equal_min in H. apply dec_equal_min. unfold scale_to, neg in *. cbn [coef ex].
  rewrite !Z.mul_opp_l. now rewrite H.
Qed.

(* ------------------------------------------------------------------ the sort commutes *)

Lemma posting_cmp_set_qty p r a b :
  dec_equal a (p_qty p) = true -> dec_equal b (p_qty r) = true ->
  posting_cmp (set_qty p a) (set_qty r b) = posting_cmp p r.
Proof.
  intros Ha Hb. unfold posting_cmp, set_qty. cbn [p_acc p_other p_qty p_val p_com].
  now rewrite (dec_cmp_eqv_l _ _ _ Ha), (dec_cmp_eqv_r _ _ _ Hb).
Qed.

Lemma postings_cmp_rq ps : canonical ps -> forall qs, canonical qs ->
  postings_cmp (rq_postings ps) (rq_postings qs) = postings_cmp ps qs.
Proof.
  induction 1 as [|p1 p2 rest (H1 & _) Hr IH]; intros qs Hq.
  - destruct Hq; reflexivity.
  - destruct Hq as [|r1 r2 rest' (K1 & _) Hr']; [reflexivity|].
    cbn [rq_postings postings_cmp]. subst p1 r1.
    rewrite !posting_cmp_set_qty, (IH rest' Hr'); try reflexivity; cbn [p_qty];
      try apply deqv_reread; apply deqv_neg, deqv_reread.
Qed.

Lemma txn_ltb_rq a b : txn_canonical a -> txn_canonical b -> txn_ltb (rq_txn a) (rq_txn b) = txn_ltb a b.
Proof.
  intros Ha Hb. unfold txn_ltb, txn_cmp, rq_txn. cbn [t_date t_desc t_postings].
  now rewrite postings_cmp_rq.
Qed.

Lemma insert_sorted_map {A} (lt : A -> A -> bool) (f : A -> A) x l :
  (forall y, In y l -> lt (f x) (f y) = lt x y) ->
  insert_sorted lt (f x) (map f l) = map f (insert_sorted lt x l).
Proof.
  induction l as [|y l IH]; intros H; [reflexivity|]. cbn [map insert_sorted].
  rewrite (H y (or_introl eq_refl)). destruct (lt x y); [reflexivity|].
  cbn [map]. rewrite IH by (intros z Hz; apply H; now right). reflexivity.
Qed.

Lemma sort_by_map {A} (lt : A -> A -> bool) (f : A -> A) l :
  (forall x y, In x l -> In y l -> lt (f x) (f y) = lt x y) ->
  sort_by lt (map f l) = map f (sort_by lt l).
Proof.
  induction l as [|x l IH] using rev_ind; intros H; [reflexivity|].
  rewrite map_app. cbn [map]. rewrite !sort_by_snoc.
  rewrite IH by (intros a b Ha Hb; apply H; apply in_or_app; now left).
  apply insert_sorted_map. intros y Hy. apply H; apply in_or_app; [right; now left|left].
  eapply Permutation_in; [apply StrProofs.sort_by_perm|exact Hy].
Qed.

Definition day_canonical (x : day) : Prop := Forall txn_canonical (d_txns x).

Lemma sort_days_rq D : Forall day_canonical D -> sort_days (map rq_day D) = map rq_day (sort_days D).
Proof.
  unfold sort_days. intros H. rewrite !map_map. apply map_ext_in. intros x Hx.
  rewrite Forall_forall in H. specialize (H x Hx). unfold day_canonical in H. rewrite Forall_forall in H.
  unfold set_txns, rq_day. cbn [d_date d_prices d_opens d_txns d_asserts d_closes d_normalized].
  f_equal. apply sort_by_map. intros a b Ha Hb. apply txn_ltb_rq; now apply H.
Qed.

(* ------------------------------------------------------------------ the printer does not see it *)

Lemma print_posting_rq pad p : print_posting pad (set_qty p (reread (p_qty p))) = print_posting pad p.
Proof. unfold print_posting, set_qty. cbn [p_acc p_other p_qty p_com]. now rewrite to_string_reread. Qed.

Lemma print_txn_rq pad t : print_txn pad (rq_txn t) = print_txn pad t.
Proof.
  unfold print_txn, rq_txn. cbn [t_date t_desc t_postings t_targets].
  rewrite odd_postings_rq, map_map.
  rewrite (map_ext (fun x => print_posting pad (set_qty x (reread (p_qty x))) ++ [10]) (fun p => print_posting pad p ++ [10]))
    by (intros p; now rewrite print_posting_rq).
  reflexivity.
Qed.

Lemma print_price_rq dt x : print_price dt (rq_price x) = print_price dt x.
Proof. destruct x as [[c p] t]. unfold rq_price, print_price. cbn [fst snd]. now rewrite to_string_reread. Qed.

Lemma print_balance_line_rq b : print_balance_line (rq_balance b) = print_balance_line b.
Proof. unfold print_balance_line, rq_balance. cbn [bal_acc bal_qty bal_com]. now rewrite to_string_reread. Qed.

Lemma print_assertion_rq dt bs : print_assertion dt (map rq_balance bs) = print_assertion dt bs.
Proof.
  unfold print_assertion. f_equal. f_equal.
  destruct bs as [|b [|b2 bs]]; cbn [map].
  - reflexivity.
  - now rewrite print_balance_line_rq.
  - cbn [map concat]. rewrite !print_balance_line_rq, map_map.
    rewrite (map_ext (fun x => [10] ++ print_balance_line (rq_balance x)) (fun b => [10] ++ print_balance_line b))
      by (intros x; now rewrite print_balance_line_rq).
    reflexivity.
Qed.

Lemma print_asserts_rq dt l : print_asserts dt (map (map rq_balance) l) = print_asserts dt l.
Proof.
  induction l as [|a rest IH]; [reflexivity|]. cbn [map print_asserts]. rewrite print_assertion_rq.
  destruct rest as [|b rest']; [reflexivity|]. cbn [map] in *. rewrite IH.
  destruct a as [|x [|y a']]; reflexivity.
Qed.

Lemma print_day_rq pad x : print_day pad (rq_day x) = print_day pad x.
Proof.
  unfold print_day, rq_day. cbn [d_date d_prices d_opens d_txns d_asserts d_closes].
  rewrite print_asserts_rq, !map_map.
  rewrite (map_ext (fun y => print_price (d_date x) (rq_price y) ++ [10]) (fun y => print_price (d_date x) y ++ [10]))
    by (intros y; now rewrite print_price_rq).
  rewrite (map_ext (fun y => print_txn pad (rq_txn y) ++ [10]) (fun y => print_txn pad y ++ [10]))
    by (intros y; now rewrite print_txn_rq).
  destruct (d_prices x), (d_asserts x); reflexivity.
Qed.

Lemma padding_postings_rq (f : Z -> posting -> Z) ps :
  (forall pad p q, f pad (set_qty p q) = f pad p) ->
  forall pad, fold_left f (rq_postings ps) pad = fold_left f ps pad.
Proof.
  intros Hf. induction ps as [|a|a b l IH] using list_pair_ind; intros pad; try reflexivity.
  cbn [rq_postings fold_left]. now rewrite !Hf, IH.
Qed.

Lemma padding_of_rq D : padding_of (map rq_day D) = padding_of D.
Proof.
  unfold padding_of. generalize 0. induction D as [|x D IH]; intros pad; [reflexivity|].
  cbn [map fold_left]. rewrite IH. f_equal.
  unfold rq_day. cbn [d_txns]. generalize pad. clear. induction (d_txns x) as [|t ts IH]; intros pad; [reflexivity|].
  cbn [map fold_left]. rewrite IH. f_equal. unfold rq_txn. cbn [t_postings].
  apply padding_postings_rq. reflexivity.
Qed.

Theorem print_journal_rq D : Forall day_canonical D -> print_journal (map rq_day D) = print_journal D.
Proof.
  intros H. unfold print_journal. cbv zeta. rewrite (sort_days_rq D H), padding_of_rq, map_map.
  f_equal. apply map_ext. intros x. apply print_day_rq.
Qed.
