(* C09_same_reports for configurations without --val: the re-read printed sequence has the
   reports of the printed sequence (QuantStages.balance_csv_unvalued_v on PrintNormal's loads),
   hence of the journal (PrintRegroup.reports_printed_dirs). *)
From Coq Require Import ZArith List Bool Lia Permutation.
From Knut Require Import Model.Str Model.Dec Model.Date Model.Account Model.Ledger Model.Journal
     Model.Check Model.Pipeline Model.Table Model.Report Model.JPrinter Model.Cli Model.ToModel.
From Knut Require Import Spec.PrintSpec.
From Knut Require Import Proofs.DecEqProofs Proofs.DecNormalForm Proofs.OrderProofs Proofs.OrderCmd Proofs.CheckQuant
     Proofs.PrintProofs Proofs.PrintRegroup Proofs.PrintRequant Proofs.PrintNormal Proofs.QuantSim Proofs.QuantReport Proofs.QuantStages
     Proofs.QuantValue Proofs.QuantText Proofs.PrintText Proofs.PrintReportsDirect.
Import ListNotations.
Open Scope bool_scope.
Open Scope Z_scope.

Lemma postings_v_rq ps : canonical ps -> Forall2 posting_v ps (rq_postings ps).
Proof.
  induction 1 as [|p1 p2 rest (H1 & _) Hr IH]; [constructor|]. cbn [rq_postings].
  constructor; [|constructor; [|exact IH]]; unfold posting_v, set_qty; cbn [p_acc p_other p_com p_qty p_val].
  - repeat split; try apply deqv_refl. subst p1. cbn [p_qty]. apply deqv_neg, deqv_sym, deqv_reread.
  - repeat split; try apply deqv_refl. apply deqv_sym, deqv_reread.
Qed.

Lemma day_v_rq x : day_canonical x -> day_v x (rq_day x).
Proof.
  intros H. unfold day_v, rq_day. cbn [d_date d_prices d_opens d_txns d_asserts d_closes d_normalized].
  split; [reflexivity|]. split; [|split; [reflexivity|split; [|split; [|split; [reflexivity|apply np_v_refl]]]]].
  - induction (d_prices x) as [|[[c p] t] l IH]; cbn [map]; constructor; [|exact IH].
    unfold price_v, rq_price. cbn [fst snd]. repeat split. apply deqv_sym, deqv_reread.
  - unfold day_canonical in H. induction H as [|t ts Ht Hts IH]; cbn [map]; constructor; [|exact IH].
    unfold txn_v, rq_txn. cbn [t_date t_desc t_targets t_postings]. repeat split. now apply postings_v_rq.
  - induction (d_asserts x) as [|a l IH]; cbn [map]; constructor; [|exact IH].
    induction a as [|b a IHa]; cbn [map]; constructor; [|exact IHa].
    unfold bal_q, rq_balance. cbn [bal_acc bal_com bal_qty]. repeat split. apply deqv_sym, deqv_reread.
Qed.

Lemma days_v_rq D : Forall day_canonical D -> Forall2 day_v D (map rq_day D).
Proof. induction 1 as [|x D Hx HD IH]; cbn [map]; constructor; [now apply day_v_rq|exact IH]. Qed.

Lemma ceq_eq_sym {A} (x y : cresult A) : ceq eq x y -> ceq eq y x.
Proof. destruct x, y; cbn; auto. Qed.
Lemma ceq_eq_trans {A} (x y z : cresult A) : ceq eq x y -> ceq eq y z -> ceq eq x z.
Proof. destruct x, y, z; cbn; try tauto; congruence. Qed.

Theorem reports_reparsed_unvalued ss b cfg :
  load ss = COk b -> bc_valuation cfg = None ->
  ceq eq (balance_csv cfg (printed_dirs (b_days b))) (balance_csv cfg (reparsed_dirs (b_days b))).
Proof.
  intros Hl Hval. destruct (load_days ss b Hl) as (ds & Hp & ->).
  eapply (balance_csv_unvalued_v cfg _ _ _ _ Hval (load_printed_dirs ss ds Hp) (load_reparsed_dirs ss ds Hp)); cbn [b_days b_min b_max]; try reflexivity.
  apply days_v_rq, sort_days_canonical, (builder_days_canonical ds), (parsed_dir_ok ss ds Hp).
Qed.

(* C09_same_reports, configurations without valuation *)
Theorem print_same_reports_unvalued l ss text :
  lex_ok ss -> no_conflicting_prices ss -> printed (print_cmd l) ss text ->
  exists ss', reparse text = MOk ss' /\
    forall cfg, bc_valuation cfg = None -> ceq eq (balance_csv cfg ss') (balance_csv cfg ss).
Proof.
  intros HL Hn Hpr. destruct (printed_text l ss text HL Hpr) as (b & Hl & _ & Hr).
  exists (reparsed_dirs (b_days b)). split; [exact Hr|]. intros cfg Hval.
  eapply ceq_eq_trans; [apply ceq_eq_sym, (reports_reparsed_unvalued ss b cfg Hl Hval)|].
  exact (proj1 (reports_printed_dirs ss b (proj1 HL) Hn Hl) cfg).
Qed.

(* ------------------------------------------------------------------ every configuration *)

Theorem balance_text_v cfg tc X X' b b' :
  load X = COk b -> load X' = COk b' ->
  Forall2 day_v (b_days b) (b_days b') -> b_min b = b_min b' -> b_max b = b_max b' ->
  ceq eq (balance_text cfg tc X) (balance_text cfg tc X').
Proof.
  intros HX HX' Hd Hmin Hmax. unfold balance_text.
  eapply ceq_bind; [apply (balance_table_v cfg X X' b b'); assumption|].
  intros t t' Ht. cbn [ceq]. now apply render_text_v.
Qed.

(* the re-read printed sequence has the reports of the printed sequence *)
Theorem reports_reparsed ss b :
  load ss = COk b ->
  (forall cfg, ceq eq (balance_csv cfg (printed_dirs (b_days b))) (balance_csv cfg (reparsed_dirs (b_days b)))) /\
  (forall cfg tc, ceq eq (balance_text cfg tc (printed_dirs (b_days b))) (balance_text cfg tc (reparsed_dirs (b_days b)))).
Proof.
  intros Hl. destruct (load_days ss b Hl) as (ds & Hp & ->).
  assert (Hv : Forall2 day_v (sort_days (b_days (builder_of ds))) (map rq_day (sort_days (b_days (builder_of ds))))).
  { apply days_v_rq, sort_days_canonical, (builder_days_canonical ds), (parsed_dir_ok ss ds Hp). }
  split; intros cfg; [|intros tc].
  - eapply (balance_csv_v cfg _ _ _ _ (load_printed_dirs ss ds Hp) (load_reparsed_dirs ss ds Hp)); cbn [b_days b_min b_max]; try reflexivity. exact Hv.
  - eapply (balance_text_v cfg tc _ _ _ _ (load_printed_dirs ss ds Hp) (load_reparsed_dirs ss ds Hp)); cbn [b_days b_min b_max]; try reflexivity. exact Hv.
Qed.

(* C09_same_reports *)
Theorem print_same_reports l ss text :
  lex_ok ss -> printed (print_cmd l) ss text ->
  exists ss', reparse text = MOk ss' /\
    (forall cfg, ceq eq (balance_csv cfg ss') (balance_csv cfg ss)) /\
    (forall cfg tc, ceq eq (balance_text cfg tc ss') (balance_text cfg tc ss)).
Proof.
  intros HL Hpr. destruct (printed_text l ss text HL Hpr) as (b & Hl & _ & Hr).
  exists (reparsed_dirs (b_days b)). split; [exact Hr|].
  destruct (reports_reparsed ss b Hl) as (R1 & R2). destruct (reports_printed_dirs_direct ss b (proj1 HL) Hl) as (P1 & P2).
  split; [intros cfg|intros cfg tc].
  - eapply ceq_eq_trans; [apply ceq_eq_sym, R1|apply ceq_eq_sym, P1].
  - eapply ceq_eq_trans; [apply ceq_eq_sym, R2|apply ceq_eq_sym, P2].
Qed.

(* all of C09 for one and the same re-read journal *)
Theorem print_roundtrip l ss text :
  lex_ok ss -> printed (print_cmd l) ss text ->
  exists ss', reparse text = MOk ss' /\ accepted l ss' /\ printed (print_cmd l) ss' text /\
    (forall cfg, ceq eq (balance_csv cfg ss') (balance_csv cfg ss)) /\
    (forall cfg tc, ceq eq (balance_text cfg tc ss') (balance_text cfg tc ss)).
Proof.
  intros HL Hpr. destruct (printed_text l ss text HL Hpr) as (b & Hl & _ & Hr).
  exists (reparsed_dirs (b_days b)). split; [exact Hr|].
  split; [apply (accepted_reparsed l ss b (proj1 HL) Hl), (printed_fixed_accepted l ss text Hpr)|].
  split; [exact (print_reparsed_dirs l ss b text (proj1 HL) Hl Hpr)|].
  destruct (reports_reparsed ss b Hl) as (R1 & R2). destruct (reports_printed_dirs_direct ss b (proj1 HL) Hl) as (P1 & P2).
  split; [intros cfg|intros cfg tc].
  - eapply ceq_eq_trans; [apply ceq_eq_sym, R1|apply ceq_eq_sym, P1].
  - eapply ceq_eq_trans; [apply ceq_eq_sym, R2|apply ceq_eq_sym, P2].
Qed.
