(* C20, part 5: the algebra under the two portfolio laws.
   - dec_q (the rational ComputeValues / ComputeFlows convert a decimal to) is the exact value
     of the decimal (DecValue.dvalue), hence additive under Dec.add and odd under Dec.neg;
   - sorted association lists (Model/Price.smap with strictly ascending keys): the sum of a
     function of the bound values after sm_put / after removing a key;
   - the values map of ComputeValues under vals_add (Amounts.Add with deletion of zero
     entries): what a key reads afterwards, and the sum over all keys;
   - pcv_add (m[c] += q) on ascending keys: the sum over all keys grows by q. *)
From Coq Require Import ZArith QArith Qpower Qfield List Bool Lia.
From Knut Require Import Model.Str Model.Dec Model.Account Model.Ledger Model.Price Model.Journal Model.Perf
     Spec.PortfolioSpec Proofs.DecProofs Proofs.DecValue Proofs.SMapProofs Proofs.PortfolioDays
     Proofs.PortfolioReturns Proofs.PortfolioWeights.
Import ListNotations.
Open Scope Q_scope.

(* ------------------------------------------------------------ dec_q is the exact value *)

Lemma dec_q_value d : dec_q d == dvalue d.
Proof.
  unfold dec_q, dvalue. destruct (0 <=? ex d)%Z eqn:E.
  - apply Z.leb_le in E. rewrite inject_Z_mult, pow10_as_Q by exact E. reflexivity.
  - apply Z.leb_gt in E. rewrite Qred_correct.
    assert (Hp : (0 < pow10 (- ex d))%Z) by (apply pow10_nonneg_pos; lia).
    rewrite Qmake_Qdiv, Z2Pos.id by exact Hp. rewrite pow10_as_Q by lia.
    rewrite Qpower_opp. unfold Qdiv. rewrite Qinv_involutive. reflexivity.
Qed.

Lemma dec_q_add a b : dec_q (add a b) == dec_q a + dec_q b.
Proof. rewrite !dec_q_value. apply dvalue_add. Qed.

Lemma dec_q_neg a : dec_q (neg a) == - dec_q a.
Proof. rewrite !dec_q_value. apply dvalue_neg. Qed.

Lemma dec_q_zero a : is_zero a = true -> dec_q a == 0.
Proof. intros H. rewrite dec_q_value. apply is_zero_value. exact H. Qed.

Lemma dec_q_nil : dec_q dec_nil == 0.
Proof. reflexivity. Qed.

(* ------------------------------------------------------------ sums *)

Lemma qsum_cons x l : qsum (x :: l) == x + qsum l.
Proof. reflexivity. Qed.

Lemma qsum_map_plus {A} (f g : A -> Q) l : qsum (map (fun x => f x + g x) l) == qsum (map f l) + qsum (map g l).
Proof. induction l as [|x l IH]; cbn [map]; [reflexivity|]. rewrite !qsum_cons, IH. ring. Qed.

Lemma qsum_map_ext {A} (f g : A -> Q) l : (forall x, In x l -> f x == g x) -> qsum (map f l) == qsum (map g l).
Proof.
  induction l as [|x l IH]; intros H; cbn [map]; [reflexivity|]. rewrite !qsum_cons, (H x (or_introl eq_refl)), IH; [reflexivity|].
  intros y Hy. apply H. right. exact Hy.
Qed.

Lemma qsum_map_zero {A} (f : A -> Q) l : (forall x, In x l -> f x == 0) -> qsum (map f l) == 0.
Proof.
  intros H. rewrite (qsum_map_ext f (fun _ => 0) l H). clear H. induction l as [|x l IH]; cbn [map]; [reflexivity|].
  rewrite qsum_cons, IH. ring.
Qed.

Lemma qsum_map_scale {A} (f : A -> Q) c l : qsum (map (fun x => c * f x) l) == c * qsum (map f l).
Proof. induction l as [|x l IH]; cbn [map]; [unfold qsum; cbn; ring|]. rewrite !qsum_cons, IH. ring. Qed.

(* ------------------------------------------------------------ sorted association lists *)

Section SortedSums.
  Context {V : Type}.
  Variable f : V -> Q.
  Implicit Types (m : smap V) (k : str) (v : V).

  (* the sum over all keys *)
  Definition smsum m : Q := qsum (map (fun kv => f (snd kv)) m).
  (* what a key contributes *)
  Definition smval m k : Q := match sm_get m k with Some y => f y | None => 0 end.

  Lemma sm_get_below m k : (forall k', In k' (keys m) -> str_cmp k k' = Lt) -> sm_get m k = None.
  Proof.
    intros H. apply sm_get_none. intros Hin. specialize (H k Hin). rewrite str_cmp_refl in H. discriminate.
  Qed.

  Lemma smsum_put m k v : sorted m -> smsum (sm_put m k v) == smsum m - smval m k + f v.
  Proof.
    unfold smsum, smval. induction 1 as [|k0 v0 m Hs IH Hlt]; cbn [sm_put sm_get map].
    - rewrite !qsum_cons. cbn [snd]. unfold qsum. cbn. ring.
    - destruct (str_cmp k k0) eqn:E.
      + apply str_cmp_eq in E. subst k0. rewrite str_eqb_refl. cbn [map]. rewrite !qsum_cons. cbn [snd]. ring.
      + assert (Hnone : sm_get ((k0, v0) :: m) k = None).
        { apply sm_get_below. cbn [keys map fst]. intros k' [<-|Hk']; [exact E|].
          eapply str_cmp_lt_trans; [exact E|apply Hlt; exact Hk']. }
        cbn [sm_get] in Hnone. rewrite Hnone. cbn [map]. rewrite !qsum_cons. cbn [snd]. ring.
      + unfold str_eqb. rewrite E. cbn [map]. rewrite !qsum_cons, IH. cbn [snd]. ring.
  Qed.
End SortedSums.

(* ------------------------------------------------------------ removing a key *)

Lemma vals_remove_keys_in (m : vals) k k' : In k' (keys (vals_remove m k)) -> In k' (keys m).
Proof.
  induction m as [|[k0 v0] m IH]; cbn [vals_remove]; [tauto|].
  destruct (str_eqb k k0); cbn [keys map fst]; [intros H; right; exact H|].
  intros [H|H]; [left; exact H|right; apply IH; exact H].
Qed.

Lemma vals_remove_sorted (m : vals) k : sorted m -> sorted (vals_remove m k).
Proof.
  induction 1 as [|k0 v0 m Hs IH Hlt]; cbn [vals_remove]; [constructor|].
  destruct (str_eqb k k0); [exact Hs|]. constructor; [exact IH|].
  intros k' Hk'. apply Hlt. eapply vals_remove_keys_in. exact Hk'.
Qed.

Lemma vals_remove_get_other (m : vals) k k' : k' <> k -> sm_get (vals_remove m k) k' = sm_get m k'.
Proof.
  intros Hne. induction m as [|[k0 v0] m IH]; cbn [vals_remove sm_get]; [reflexivity|].
  destruct (str_eqb k k0) eqn:E.
  - apply str_eqb_eq in E. subst k0. apply str_eqb_neq in Hne. rewrite Hne. reflexivity.
  - cbn [sm_get]. destruct (str_eqb k' k0); [reflexivity|exact IH].
Qed.

Lemma vals_remove_get_same (m : vals) k : sorted m -> sm_get (vals_remove m k) k = None.
Proof.
  induction 1 as [|k0 v0 m Hs IH Hlt]; cbn [vals_remove sm_get]; [reflexivity|].
  destruct (str_eqb k k0) eqn:E.
  - apply str_eqb_eq in E. subst k0. apply sm_get_none. intros Hin. specialize (Hlt k Hin).
    rewrite str_cmp_refl in Hlt. discriminate.
  - cbn [sm_get]. rewrite E. exact IH.
Qed.

Lemma vals_remove_sum (f : dec -> Q) (m : vals) k : sorted m -> smsum f (vals_remove m k) == smsum f m - smval f m k.
Proof.
  unfold smsum, smval. induction 1 as [|k0 v0 m Hs IH Hlt]; cbn [vals_remove sm_get map].
  - unfold qsum. cbn. ring.
  - destruct (str_eqb k k0) eqn:E.
    + rewrite qsum_cons. cbn [snd]. ring.
    + cbn [map]. rewrite !qsum_cons, IH. cbn [snd]. ring.
Qed.

(* ------------------------------------------------------------ the values map under vals_add *)

(* the decimal a key reads *)
Definition vget (m : vals) (k : commodity) : dec := match sm_get m k with Some y => y | None => dec_nil end.

Lemma smval_vget m k : smval dec_q m k == dec_q (vget m k).
Proof. unfold smval, vget. destruct (sm_get m k); reflexivity. Qed.

Lemma vals_add_sorted m k v : sorted m -> sorted (vals_add m k v).
Proof.
  intros H. unfold vals_add. destruct (is_zero _); [apply vals_remove_sorted|apply sorted_put]; exact H.
Qed.

(* reading key k' after adding v under k *)
Lemma vals_add_get m k v k' : sorted m ->
  dec_q (vget (vals_add m k v) k') == dec_q (vget m k') + (if str_eqb k k' then dec_q v else 0).
Proof.
  intros Hs. unfold vals_add. fold (vget m k). destruct (str_eqb k k') eqn:Ek.
  - apply str_eqb_eq in Ek. subst k'. destruct (is_zero (add (vget m k) v)) eqn:Ez.
    + unfold vget at 1. rewrite vals_remove_get_same by exact Hs.
      apply dec_q_zero in Ez. rewrite dec_q_add in Ez. rewrite Ez. reflexivity.
    + unfold vget at 1. rewrite sm_get_put_same. apply dec_q_add.
  - apply str_eqb_neq in Ek. assert (Hne : k' <> k) by congruence.
    destruct (is_zero (add (vget m k) v)); unfold vget at 1.
    + rewrite vals_remove_get_other by exact Hne. fold (vget m k'). ring.
    + rewrite sm_get_put_other by exact Hne. fold (vget m k'). ring.
Qed.

(* the sum over all keys after adding v *)
Lemma vals_add_sum m k v : sorted m -> smsum dec_q (vals_add m k v) == smsum dec_q m + dec_q v.
Proof.
  intros Hs. unfold vals_add. fold (vget m k). destruct (is_zero (add (vget m k) v)) eqn:Ez.
  - rewrite vals_remove_sum by exact Hs. rewrite smval_vget.
    apply dec_q_zero in Ez. rewrite dec_q_add in Ez.
    assert (H : dec_q v == - dec_q (vget m k)).
    { rewrite <- (Qplus_0_l (- dec_q (vget m k))), <- Ez. ring. }
    rewrite H. ring.
  - rewrite smsum_put by exact Hs. rewrite smval_vget, dec_q_add. ring.
Qed.

(* vals_pcv: the float map ComputeValues stores *)
Lemma pcv_get_vals m k : pcv_get (vals_pcv m) k == dec_q (vget m k).
Proof.
  unfold pcv_get, vget, vals_pcv. induction m as [|[k0 v0] m IH]; cbn [map sm_get fst snd]; [reflexivity|].
  destruct (str_eqb k k0); [reflexivity|exact IH].
Qed.

Lemma pcv_sum_vals m : pcv_sum (vals_pcv m) == smsum dec_q m.
Proof. rewrite pcv_sum_spec. unfold vals_pcv, smsum. rewrite map_map. reflexivity. Qed.

(* ------------------------------------------------------------ pcv_add on ascending keys *)

Lemma pcv_sum_smsum (m : pcv) : pcv_sum m == smsum (fun q => q) m.
Proof. rewrite pcv_sum_spec. reflexivity. Qed.

Lemma pcv_add_sorted (m : pcv) c q : sorted m -> sorted (pcv_add m c q).
Proof. apply sorted_put. Qed.

Lemma pcv_add_sum (m : pcv) c q : sorted m -> pcv_sum (pcv_add m c q) == pcv_sum m + q.
Proof.
  intros Hs. rewrite !pcv_sum_smsum. unfold pcv_add. rewrite smsum_put by exact Hs.
  rewrite qadd_eq. unfold smval, pcv_get. destruct (sm_get m c); ring.
Qed.
