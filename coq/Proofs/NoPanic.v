(* C14: which inputs reach a Panic in the model, and that the repaired variants never do.

   Panic is reachable in Model/Cli.v through
     - parse_directives  -> expand_posting: new_partition on a zero start (PPanic), quo_rem by
                            the size of an empty partition (DPanic)
     - cfg_partition     -> new_partition on a zero start
     - query_posting     -> shorten with a negative level or suffix (ShPanic)
   and, as artefacts of fuel-bounded recursion that are excluded here for every input:
     - new_partition's POutOfFuel (DateProofs.new_partition_no_fuel_exhaustion)
     - cp_day_end's normalize = None and prices_insert's InsPanic
       (PriceDayProofs.compute_prices_from_empty_no_panic, by the C12 development). *)
From Coq Require Import ZArith List Bool Lia.
From Knut Require Import Model.Str Model.Dec Model.Date Model.Account Model.Ledger Model.Price
     Model.Journal Model.Check Model.Pipeline Model.Table Model.Report Model.JPrinter Model.Cli
     Model.Loader Model.CliSafe Spec.FailSpec.
From Knut Require Import Proofs.StrProofs Proofs.DateProofs Proofs.PriceDayProofs Proofs.LoaderProofs.
Import ListNotations.
Open Scope bool_scope.
Open Scope Z_scope.

(* ---------------------------------------------------------------- processors *)

Definition np {A} (r : Journal.presult A) : Prop := forall m, r <> RPanic m.

Lemma np_ok {A} (a : A) : np (ROk a).
Proof. intros m. discriminate. Qed.
Lemma np_err {A} k d : np (@RErr A k d).
Proof. intros m. discriminate. Qed.

Lemma rbind_np {A B} (x : Journal.presult A) (f : A -> Journal.presult B) :
  np x -> (forall a, np (f a)) -> np (rbind x f).
Proof.
  intros Hx Hf. destruct x as [a|k d|msg]; cbn [rbind].
  - apply Hf.
  - apply np_err.
  - exfalso. exact (Hx msg eq_refl).
Qed.

Section Safe.
  Context {S : Type} (p : processor S).

  (* no callback of the processor panics, whatever its state and argument *)
  Definition proc_safe : Prop :=
    (forall f, pr_day_start p = Some f -> forall s d, np (f s d)) /\
    (forall f, pr_price p = Some f -> forall s x, np (f s x)) /\
    (forall f, pr_open p = Some f -> forall s x, np (f s x)) /\
    (forall f, pr_txn p = Some f -> forall s x, np (f s x)) /\
    (forall f, pr_posting p = Some f -> forall s t x, np (f s t x)) /\
    (forall f, pr_balance p = Some f -> forall s a b, np (f s a b)) /\
    (forall f, pr_close p = Some f -> forall s x, np (f s x)) /\
    (forall f, pr_day_end p = Some f -> forall s d, np (f s d)).

  Lemma fold_res_np {A} (f : S -> A -> Journal.presult S) :
    (forall s x, np (f s x)) -> forall l s, np (fold_res f s l).
  Proof.
    intros Hf. induction l as [|x l IH]; intros s; cbn [fold_res]; [apply np_ok|].
    apply rbind_np; [apply Hf|]. intros s'. apply IH.
  Qed.

  Lemma fold_postings_np f t :
    (forall s x, np (f s t x)) -> forall ps s, np (fold_postings (S:=S) f t s ps).
  Proof.
    intros Hf. induction ps as [|x ps IH]; intros s; cbn [fold_postings]; [apply np_ok|].
    apply rbind_np; [apply Hf|]. intros sp. apply rbind_np; [apply IH|]. intros sr. apply np_ok.
  Qed.

  Hypothesis Hsafe : proc_safe.

  Lemma fold_txns_np : forall ts s, np (fold_txns p s ts).
  Proof.
    destruct Hsafe as (_ & _ & _ & Htxn & Hpost & _).
    induction ts as [|t ts IH]; intros s; cbn [fold_txns]; [apply np_ok|].
    apply rbind_np.
    { destruct (pr_txn p) as [f|] eqn:E; [apply (Htxn f eq_refl)|apply np_ok]. }
    intros s1. apply rbind_np.
    { destruct (pr_posting p) as [f|] eqn:E; [|apply np_ok].
      apply rbind_np; [apply fold_postings_np; intros; apply (Hpost f eq_refl)|]. intros sp. apply np_ok. }
    intros st. apply rbind_np; [apply IH|]. intros sr. apply np_ok.
  Qed.

  Lemma fold_asserts_np : forall l s, np (fold_asserts p s l).
  Proof.
    destruct Hsafe as (_ & _ & _ & _ & _ & Hbal & _).
    induction l as [|a l IH]; intros s; cbn [fold_asserts]; [apply np_ok|].
    apply rbind_np; [|intros s'; apply IH].
    destruct (pr_balance p) as [f|] eqn:E; [|apply np_ok].
    apply fold_res_np. intros s0 b. apply (Hbal f eq_refl).
  Qed.

  Lemma process_day_np s d : np (process_day p s d).
  Proof.
    pose proof Hsafe as (Hds & Hpr & Hop & _ & _ & _ & Hcl & Hde).
    unfold process_day.
    apply rbind_np.
    { destruct (pr_day_start p) as [f|] eqn:E; [apply (Hds f eq_refl)|apply np_ok]. }
    intros sd. apply rbind_np.
    { destruct (pr_price p) as [f|] eqn:E; [apply fold_res_np; apply (Hpr f eq_refl)|apply np_ok]. }
    intros s1. apply rbind_np.
    { destruct (pr_open p) as [f|] eqn:E; [apply fold_res_np; apply (Hop f eq_refl)|apply np_ok]. }
    intros s2. apply rbind_np; [apply fold_txns_np|].
    intros st. apply rbind_np; [apply fold_asserts_np|].
    intros s3. apply rbind_np.
    { destruct (pr_close p) as [f|] eqn:E; [apply fold_res_np; apply (Hcl f eq_refl)|apply np_ok]. }
    intros s4. destruct (pr_day_end p) as [f|] eqn:E; [apply (Hde f eq_refl)|apply np_ok].
  Qed.

  Lemma process_days_np : forall ds s, np (process_days p s ds).
  Proof.
    induction ds as [|d ds IH]; intros s; cbn [process_days]; [apply np_ok|].
    apply rbind_np; [apply process_day_np|]. intros sd.
    apply rbind_np; [apply IH|]. intros sr. apply np_ok.
  Qed.
End Safe.

Ltac some_inv :=
  match goal with
  | |- forall f, Some _ = Some f -> _ => let f := fresh "f" in let E := fresh "E" in intros f E; inversion E; subst f; clear E
  | |- forall f, None = Some f -> _ => let f := fresh "f" in let E := fresh "E" in intros f E; discriminate E
  end.

Ltac np_cases :=
  intros; intros ?m;
  repeat match goal with
         | |- context [if ?c then _ else _] => destruct c
         | |- context [match ?x with _ => _ end] => destruct x
         end; discriminate.

Lemma check_proc_safe lenient : proc_safe (check_proc lenient).
Proof.
  unfold proc_safe, check_proc. cbn [pr_day_start pr_price pr_open pr_txn pr_posting pr_balance pr_close pr_day_end].
  repeat split; some_inv.
  - unfold ck_open_cb. np_cases.
  - unfold ck_posting_cb. np_cases.
  - unfold ck_balance_cb. np_cases.
  - unfold ck_close_cb. np_cases.
Qed.

Lemma check_proc_fixed_safe : proc_safe check_proc_fixed.
Proof.
  unfold proc_safe, check_proc_fixed. cbn [pr_day_start pr_price pr_open pr_txn pr_posting pr_balance pr_close pr_day_end].
  repeat split; some_inv.
  - unfold ck_open_cb. np_cases.
  - unfold ck_posting_cb. np_cases.
  - unfold ck_balance_fixed, ck_balance_cb. np_cases.
  - unfold ck_close_cb. np_cases.
Qed.

Lemma check_proc_current_safe b : proc_safe (check_proc_current b).
Proof. unfold check_proc_current. destruct b; [apply check_proc_fixed_safe|apply check_proc_safe]. Qed.

Lemma val_adjustments_np v date prev cur pos : np (val_adjustments v date prev cur pos).
Proof.
  induction pos as [|[k [[a c] q]] rest IH]; cbn [val_adjustments]; [apply np_ok|].
  destruct (str_eqb c v || negb (is_AL a) || is_zero q); [exact IH|].
  destruct (np_price_opt prev c); [|apply np_err].
  destruct (np_price_opt cur c); [|apply np_err].
  destruct (is_zero _); [exact IH|].
  apply rbind_np; [exact IH|]. intros ts. apply np_ok.
Qed.

Lemma valuate_proc_safe v : proc_safe (valuate_proc v).
Proof.
  unfold proc_safe, valuate_proc. cbn [pr_day_start pr_price pr_open pr_txn pr_posting pr_balance pr_close pr_day_end].
  repeat split; some_inv.
  - intros s d. unfold val_day_start. apply rbind_np; [apply val_adjustments_np|]. intros ts. apply np_ok.
  - unfold val_posting. np_cases.
  - intros s d. apply np_ok.
Qed.

Lemma filter_proc_safe sp : proc_safe (filter_proc sp).
Proof.
  unfold proc_safe, filter_proc. cbn [pr_day_start pr_price pr_open pr_txn pr_posting pr_balance pr_close pr_day_end].
  repeat split; some_inv. intros s d. apply np_ok.
Qed.

Lemma close_proc_safe cds : proc_safe (close_proc cds).
Proof.
  unfold proc_safe, close_proc. cbn [pr_day_start pr_price pr_open pr_txn pr_posting pr_balance pr_close pr_day_end].
  repeat split; some_inv.
  - unfold close_day_start. np_cases.
  - unfold close_posting. np_cases.
Qed.

Lemma query_proc_safe {C} (q : query) (ins : C -> option Z -> account -> commodity -> dec -> C) :
  (forall a, q_account q a <> ShPanic) -> proc_safe (query_proc q ins).
Proof.
  intros Hq.
  unfold proc_safe, query_proc. cbn [pr_day_start pr_price pr_open pr_txn pr_posting pr_balance pr_close pr_day_end].
  repeat split; some_inv.
  intros s t x. unfold query_posting.
  destruct (q_where q (p_acc x) (p_com x)); [|apply np_ok].
  destruct (q_account q (p_acc x)) eqn:E; [apply np_ok|apply np_ok|].
  exfalso. exact (Hq _ E).
Qed.

(* ---------------------------------------------------------------- command level *)

Definition cnp {A} (r : cresult A) : Prop := forall m, r <> CPanic m.

Lemma cnp_ok {A} (a : A) : cnp (COk a).
Proof. intros m. discriminate. Qed.
Lemma cnp_err {A} k d : cnp (@CErr A k d).
Proof. intros m. discriminate. Qed.

Lemma cbind_np {A B} (x : cresult A) (f : A -> cresult B) : cnp x -> (forall a, cnp (f a)) -> cnp (cbind x f).
Proof.
  intros Hx Hf. destruct x as [a|k d|msg]; cbn [cbind].
  - apply Hf.
  - apply cnp_err.
  - exfalso. exact (Hx msg eq_refl).
Qed.

Lemma run_stage_np {S} (p : processor S) s days : proc_safe p -> cnp (run_stage p s days).
Proof.
  intros Hp m. unfold run_stage. pose proof (process_days_np p Hp days s) as H.
  destruct (process_days p s days) as [a|k d|msg]; cbn [of_presult]; try discriminate.
  exfalso. exact (H msg eq_refl).
Qed.

Lemma compute_prices_stage_np v days : cnp (run_stage (compute_prices_proc v) (mkCp [] None) days).
Proof.
  intros m. unfold run_stage.
  destruct (process_days (compute_prices_proc v) (mkCp [] None) days) as [a|k d|msg] eqn:E; cbn [of_presult]; try discriminate.
  exfalso. exact (compute_prices_from_empty_no_panic v days msg E).
Qed.

(* ---------------------------------------------------------------- lib/model: depanic *)

Definition mnp {A} (r : mresult A) : Prop := forall m, r <> MPanic m.

(* the repair of transaction.expand turns the panic into an error and changes nothing else *)
Definition depanic {A} (r : mresult A) : mresult A :=
  match r with MPanic m => MErr m | _ => r end.

Lemma depanic_mnp {A} (r : mresult A) : mnp (depanic r).
Proof. intros m. destruct r; discriminate. Qed.

Lemma depanic_id {A} (r : mresult A) : mnp r -> depanic r = r.
Proof. intros H. destruct r as [a|e|m]; try reflexivity. exfalso. exact (H m eq_refl). Qed.

Lemma depanic_mbind {A B} (x : mresult A) (f : A -> mresult B) :
  depanic (mbind x f) = mbind (depanic x) (fun a => depanic (f a)).
Proof. destruct x; reflexivity. Qed.

Lemma mbind_ext {A B} (x : mresult A) (f g : A -> mresult B) : (forall a, f a = g a) -> mbind x f = mbind x g.
Proof. intros H. destruct x; cbn [mbind]; [apply H|reflexivity|reflexivity]. Qed.

Lemma mbind_mnp {A B} (x : mresult A) (f : A -> mresult B) : mnp x -> (forall a, x = MOk a -> mnp (f a)) -> mnp (mbind x f).
Proof.
  intros Hx Hf. destruct x as [a|e|m]; cbn [mbind].
  - apply Hf. reflexivity.
  - intros m. discriminate.
  - exfalso. exact (Hx m eq_refl).
Qed.

Lemma check_account_mnp a : mnp (check_account a).
Proof. intros m. unfold check_account. destruct (valid_account a); discriminate. Qed.

Lemma postings_create_mnp bs : mnp (postings_create bs).
Proof.
  induction bs as [|b bs IH]; cbn [postings_create]; [intros m; discriminate|].
  apply mbind_mnp; [apply check_account_mnp|]. intros _ _.
  apply mbind_mnp; [apply check_account_mnp|]. intros _ _.
  apply mbind_mnp; [exact IH|]. intros ps _ m. discriminate.
Qed.

Lemma check_balances_mnp bs : mnp (check_balances bs).
Proof.
  induction bs as [|b bs IH]; cbn [check_balances]; [intros m; discriminate|].
  apply mbind_mnp; [apply check_account_mnp|]. intros _ _. exact IH.
Qed.

Lemma expand_posting_safe_eq t ac p : expand_posting_safe t ac p = depanic (expand_posting t ac p).
Proof. unfold expand_posting_safe, depanic. destruct (expand_posting t ac p); reflexivity. Qed.

Lemma expand_postings_safe_eq t ac ps : expand_postings_safe t ac ps = depanic (expand_postings t ac ps).
Proof.
  unfold expand_postings.
  induction ps as [|p ps IH]; cbn [expand_postings_safe expand_postings_gen]; [reflexivity|].
  change (expand_posting_gen rebook_fixed t ac p) with (expand_posting t ac p).
  rewrite depanic_mbind, expand_posting_safe_eq.
  apply mbind_ext. intros l1. rewrite depanic_mbind, IH. apply mbind_ext. intros l2. reflexivity.
Qed.

Lemma expand_safe_eq t ac : expand_safe t ac = depanic (expand t ac).
Proof.
  unfold expand_safe, expand, expand_gen. rewrite depanic_mbind, (depanic_id _ (check_account_mnp _)).
  apply mbind_ext. intros _. apply expand_postings_safe_eq.
Qed.

Lemma txn_create_safe_eq s : txn_create_safe s = depanic (txn_create s).
Proof.
  unfold txn_create_safe, txn_create, txn_create_gen. rewrite depanic_mbind, (depanic_id _ (postings_create_mnp _)).
  apply mbind_ext. intros ps. destruct (st_accrual s); [apply expand_safe_eq|reflexivity].
Qed.

Lemma parse_directive_safe_eq s : parse_directive_safe s = depanic (parse_directive s).
Proof.
  destruct s as [d c p t|d a|d a|d bs|t|]; cbn [parse_directive_safe parse_directive]; try reflexivity.
  - symmetry. apply depanic_id. apply mbind_mnp; [apply check_account_mnp|]. intros _ _ m. discriminate.
  - symmetry. apply depanic_id. apply mbind_mnp; [apply check_account_mnp|]. intros _ _ m. discriminate.
  - symmetry. apply depanic_id. apply mbind_mnp; [apply check_balances_mnp|]. intros _ _ m. discriminate.
  - rewrite depanic_mbind, txn_create_safe_eq. apply mbind_ext. intros ts. reflexivity.
Qed.

Lemma parse_directives_safe_eq l : parse_directives_safe l = depanic (parse_directives l).
Proof.
  induction l as [|s l IH]; cbn [parse_directives_safe parse_directives]; [reflexivity|].
  rewrite depanic_mbind, parse_directive_safe_eq. apply mbind_ext. intros ds.
  rewrite depanic_mbind, IH. apply mbind_ext. intros ds'. reflexivity.
Qed.

Lemma load_safe_np ds : cnp (load_safe ds).
Proof.
  unfold load_safe. rewrite parse_directives_safe_eq. intros m.
  pose proof (depanic_mnp (parse_directives ds)) as H.
  destruct (depanic (parse_directives ds)) as [a|e|msg]; cbn [of_mresult cbind]; try discriminate.
  exfalso. exact (H msg eq_refl).
Qed.

Lemma load_safe_agrees ds : mnp (parse_directives ds) -> load_safe ds = Cli.load ds.
Proof. intros H. unfold load_safe, Cli.load. rewrite parse_directives_safe_eq, (depanic_id _ H). reflexivity. Qed.

(* ---------------------------------------------------------------- accrual expansion: exactly when it panics *)

Lemma quo_rem_panic_iff d d2 prec : quo_rem d d2 prec = DPanic <-> coef d2 = 0.
Proof.
  unfold quo_rem. destruct (coef d2 =? 0) eqn:E.
  - apply Z.eqb_eq in E. tauto.
  - apply Z.eqb_neq in E. split; [|tauto].
    destruct (ex d - ex d2 - - prec <? 0); discriminate.
Qed.

Lemma accrual_partition s e iv :
  s <> 0 -> exists pt, new_partition (mkPeriod s e) iv 0 = POk pt /\ (periods pt = [] <-> (iv <> Once /\ e < s)).
Proof.
  intros Hs. destruct (match iv with Once => true | _ => false end) eqn:Eiv.
  - assert (iv = Once) by (destruct iv; congruence). subst iv.
    rewrite (partition_once s e 0 Hs). eexists. split; [reflexivity|]. cbn [periods].
    split; [discriminate|]. intros [H _]. congruence.
  - assert (Hiv : iv <> Once) by (intros ->; discriminate).
    rewrite (new_partition_unlimited s e iv Hiv Hs). eexists. split; [reflexivity|]. cbn [periods].
    pose proof (full_periods_chain s e iv Hiv) as Hch. split.
    + intros Hnil. split; [exact Hiv|]. destruct (Z_lt_le_dec e s) as [Hlt|Hle]; [exact Hlt|].
      exfalso. exact (chain_nonempty _ _ _ _ Hch Hle Hnil).
    + intros [_ Hlt]. exact (chain_empty _ _ _ _ Hch Hlt).
Qed.

Lemma accrual_window_ok_false ac :
  accrual_window_ok ac = false <-> ac_start ac = 0 \/ (ac_interval ac <> Once /\ ac_end ac < ac_start ac).
Proof.
  unfold accrual_window_ok. destruct (ac_start ac =? 0) eqn:Es; cbn [negb andb].
  - apply Z.eqb_eq in Es. tauto.
  - apply Z.eqb_neq in Es. destruct (ac_interval ac).
    1: { split; [discriminate|]. intros [H|[H _]]; [lia|congruence]. }
    all: rewrite Z.leb_gt; split; [intros H; right; split; [discriminate|exact H]|intros [H|[_ H]]; [lia|exact H]].
Qed.

(* transaction.expand panics on a posting iff the posting is on an income/expense account
   and the accrual window starts on day 0 or is empty *)
Theorem expand_posting_panics_iff t ac p :
  (exists m, expand_posting t ac p = MPanic m) <-> (is_IE (p_acc p) = true /\ accrual_window_ok ac = false).
Proof.
  unfold expand_posting, expand_posting_gen. destruct (is_IE (p_acc p)) eqn:EIE.
  2: { split; [intros [m H]; discriminate|intros [H _]; discriminate]. }
  rewrite accrual_window_ok_false.
  destruct (Z.eq_dec (ac_start ac) 0) as [Hz|Hnz].
  - rewrite Hz. change (new_partition (mkPeriod 0 (ac_end ac)) (ac_interval ac) 0) with (@PPanic partition).
    split; [intros _; split; [reflexivity|left; reflexivity]|intros _; eexists; reflexivity].
  - destruct (accrual_partition (ac_start ac) (ac_end ac) (ac_interval ac) Hnz) as (pt & Hpt & Hnil).
    rewrite Hpt.
    destruct (quo_rem (p_qty p) (of_int (Z.of_nat (length (periods pt)))) 1) as [[am rm]|] eqn:Eq.
    + split; [intros [m H]; discriminate|]. intros [_ [H|H]]; [contradiction|].
      apply Hnil in H. rewrite H in Eq. cbn [length Z.of_nat] in Eq.
      assert (Hp : quo_rem (p_qty p) (of_int 0) 1 = DPanic) by (apply quo_rem_panic_iff; reflexivity).
      congruence.
    + split; [|intros _; eexists; reflexivity]. intros _. split; [reflexivity|]. right.
      apply Hnil. apply quo_rem_panic_iff in Eq. cbn [of_int coef] in Eq.
      destruct (periods pt); [reflexivity|cbn [length] in Eq; lia].
Qed.

Lemma expand_posting_np t ac p :
  (is_IE (p_acc p) = true -> accrual_window_ok ac = true) -> mnp (expand_posting t ac p).
Proof.
  intros H m Hm. assert (Hex : exists m, expand_posting t ac p = MPanic m) by eauto.
  apply expand_posting_panics_iff in Hex. destruct Hex as [H1 H2]. rewrite (H H1) in H2. discriminate.
Qed.

Lemma expand_postings_np t ac ps :
  (forall p, In p ps -> is_IE (p_acc p) = true -> accrual_window_ok ac = true) -> mnp (expand_postings t ac ps).
Proof.
  unfold expand_postings.
  induction ps as [|p ps IH]; intros H; cbn [expand_postings_gen]; [intros m; discriminate|].
  change (expand_posting_gen rebook_fixed t ac p) with (expand_posting t ac p).
  apply mbind_mnp; [apply expand_posting_np; apply H; left; reflexivity|]. intros l1 _.
  apply mbind_mnp; [apply IH; intros q Hq; apply H; right; exact Hq|]. intros l2 _ m. discriminate.
Qed.

Lemma pair_build_accs cr db com q v p :
  In p (pair_build cr db com q v) -> p_acc p = cr \/ p_acc p = db.
Proof.
  unfold pair_build. destruct (is_neg q || (is_zero q && is_neg v)); cbn; intros [<-|[<-|[]]]; cbn; auto.
Qed.

Lemma postings_create_accs bs ps :
  postings_create bs = MOk ps -> forall p, In p ps -> exists b, In b bs /\ (p_acc p = b_credit b \/ p_acc p = b_debit b).
Proof.
  revert ps. induction bs as [|b bs IH]; cbn [postings_create]; intros ps H p Hp.
  - inversion H. subst. destruct Hp.
  - destruct (check_account (b_credit b)); cbn [mbind] in H; try discriminate.
    destruct (check_account (b_debit b)); cbn [mbind] in H; try discriminate.
    destruct (postings_create bs) as [ps'| |] eqn:E; cbn [mbind] in H; try discriminate.
    inversion H. subst ps. apply in_app_or in Hp. destruct Hp as [Hp|Hp].
    + exists b. split; [left; reflexivity|]. eapply pair_build_accs. exact Hp.
    + destruct (IH ps' eq_refl p Hp) as (b' & Hb & Hacc). exists b'. split; [right; exact Hb|exact Hacc].
Qed.

Lemma txn_create_np s : sdirective_ok (STxn s) = true -> mnp (txn_create s).
Proof.
  cbn [sdirective_ok]. intros Hok. unfold txn_create, txn_create_gen.
  apply mbind_mnp; [apply postings_create_mnp|]. intros ps Hps.
  destruct (st_accrual s) as [ac|]; [|intros m; discriminate].
  unfold expand_gen. apply mbind_mnp; [apply check_account_mnp|]. intros _ _.
  change (expand_postings_gen rebook_fixed) with expand_postings.
  apply expand_postings_np. cbn [t_postings]. intros p Hp HIE.
  destruct (accrual_window_ok ac); [reflexivity|]. rewrite orb_false_r in Hok.
  apply negb_true_iff in Hok. exfalso.
  destruct (postings_create_accs _ _ Hps p Hp) as (b & Hb & Hacc).
  assert (books_IE s = true); [|congruence].
  unfold books_IE. apply existsb_exists. exists b. split; [exact Hb|].
  destruct Hacc as [<-|<-]; rewrite HIE; [reflexivity|apply orb_true_r].
Qed.

Lemma parse_directive_np s : sdirective_ok s = true -> mnp (parse_directive s).
Proof.
  intros Hok. destruct s as [d c p t|d a|d a|d bs|t|]; cbn [parse_directive]; try (intros m; discriminate).
  - apply mbind_mnp; [apply check_account_mnp|]. intros _ _ m. discriminate.
  - apply mbind_mnp; [apply check_account_mnp|]. intros _ _ m. discriminate.
  - apply mbind_mnp; [apply check_balances_mnp|]. intros _ _ m. discriminate.
  - apply mbind_mnp; [apply txn_create_np; exact Hok|]. intros ts _ m. discriminate.
Qed.

Theorem parse_directives_np ds : accruals_ok ds = true -> mnp (parse_directives ds).
Proof.
  unfold accruals_ok. induction ds as [|s ds IH]; cbn [forallb parse_directives]; intros H; [intros m; discriminate|].
  apply andb_true_iff in H. destruct H as [H1 H2].
  apply mbind_mnp; [apply parse_directive_np; exact H1|]. intros l1 _.
  apply mbind_mnp; [apply IH; exact H2|]. intros l2 _ m. discriminate.
Qed.

(* ---------------------------------------------------------------- the reporting window *)

Lemma b_min_fold l : forall b,
  b_min (fold_left builder_add l b) =
  fold_left (fun m d => match d with DTxn t => Z.min m (t_date t) | _ => m end) l (b_min b).
Proof.
  induction l as [|d l IH]; intros b; cbn [fold_left]; [reflexivity|].
  rewrite IH. f_equal. destruct d; cbn [builder_add b_min]; try reflexivity.
  destruct (t_date t <? b_min b) eqn:E; [apply Z.ltb_lt in E|apply Z.ltb_ge in E]; lia.
Qed.

Lemma b_min_builder_of l : b_min (builder_of l) = first_txn_date l.
Proof. unfold builder_of, first_txn_date. rewrite b_min_fold. reflexivity. Qed.

Lemma clip_start cfg b :
  p_start (clip (mkPeriod (bc_from cfg) (bc_to cfg)) (builder_period b)) = Z.max (bc_from cfg) (b_min b).
Proof.
  unfold clip, builder_period. cbn [p_start].
  destruct (bc_from cfg <? b_min b) eqn:E; [apply Z.ltb_lt in E|apply Z.ltb_ge in E]; lia.
Qed.

(* Multiperiod.Partition panics iff the clipped window starts on day 0 *)
Theorem cfg_partition_panics_iff cfg b :
  (exists m, cfg_partition cfg b = CPanic m) <-> Z.max (bc_from cfg) (b_min b) = 0.
Proof.
  rewrite <- clip_start. unfold cfg_partition.
  set (p := clip (mkPeriod (bc_from cfg) (bc_to cfg)) (builder_period b)).
  destruct (new_partition p (bc_interval cfg) (bc_last cfg)) as [pt| |] eqn:E.
  - split; [intros [m H]; discriminate|]. intros Hz. unfold new_partition in E. rewrite Hz in E. discriminate.
  - split; [|intros _; eexists; reflexivity]. intros _. unfold new_partition in E.
    destruct (p_start p =? 0) eqn:Ez; [apply Z.eqb_eq; exact Ez|].
    destruct (bc_interval cfg); try discriminate;
      match type of E with context [np_loop ?f ?s ?iv ?l ?c ?e ?a] => destruct (np_loop f s iv l c e a) end; discriminate.
  - exfalso. exact (new_partition_no_fuel_exhaustion _ _ _ E).
Qed.

Lemma cfg_partition_safe_np cfg b : cnp (cfg_partition_safe cfg b).
Proof.
  intros m. unfold cfg_partition_safe.
  set (p := clip (mkPeriod (bc_from cfg) (bc_to cfg)) (builder_period b)).
  destruct (p_start p =? 0) eqn:Ez; [discriminate|].
  destruct (new_partition p (bc_interval cfg) (bc_last cfg)) as [pt| |] eqn:E; [discriminate| |].
  - exfalso. unfold new_partition in E. rewrite Ez in E.
    destruct (bc_interval cfg); try discriminate;
      match type of E with context [np_loop ?f ?s ?iv ?l ?c ?e ?a] => destruct (np_loop f s iv l c e a) end; discriminate.
  - exfalso. exact (new_partition_no_fuel_exhaustion _ _ _ E).
Qed.

Lemma cfg_partition_safe_agrees cfg b :
  Z.max (bc_from cfg) (b_min b) <> 0 -> cfg_partition_safe cfg b = cfg_partition cfg b.
Proof.
  rewrite <- clip_start. intros H. unfold cfg_partition_safe, cfg_partition.
  destruct (p_start _ =? 0) eqn:Ez; [apply Z.eqb_eq in Ez; contradiction|reflexivity].
Qed.

(* ---------------------------------------------------------------- account.Shorten *)

Lemma mapping_level_in m s l sf :
  mapping_level m s = Some (l, sf) -> exists r, In r m /\ r_level r = l /\ r_suffix r = sf.
Proof.
  induction m as [|r m IH]; cbn [mapping_level]; [discriminate|].
  destruct (rule_match r s) as [[l' sf']|] eqn:E.
  - intros H. inversion H. subst. exists r. split; [left; reflexivity|].
    unfold rule_match in E. destruct (r_rx r) as [x|]; [destruct (rx_match x s)|]; inversion E; auto.
  - intros H. destruct (IH H) as (r' & Hin & Hl). exists r'. split; [right; exact Hin|exact Hl].
Qed.

(* account.Shorten panics iff the matching rule applies (level not 0, the account is deep
   enough) and its level or suffix is negative *)
Theorem shorten_panics_iff m a :
  shorten m a = ShPanic <->
  exists level suffix, mapping_level m (acc_name a) = Some (level, suffix) /\
    level <> 0 /\ suffix < acc_level a /\ level <= acc_level a - suffix /\ (level < 0 \/ suffix < 0).
Proof.
  unfold shorten. destruct m as [|r m'].
  - split; [discriminate|]. intros (l & sf & H & _). discriminate.
  - destruct (mapping_level (r :: m') (acc_name a)) as [[l sf]|].
    2: { split; [discriminate|]. intros (l & sf & H & _). discriminate. }
    destruct (l =? 0) eqn:E0; [apply Z.eqb_eq in E0|apply Z.eqb_neq in E0].
    { split; [discriminate|]. intros (l' & sf' & H & Hn & _). inversion H. subst. contradiction. }
    destruct (acc_level a <=? sf) eqn:E1; [apply Z.leb_le in E1|apply Z.leb_gt in E1].
    { split; [discriminate|]. intros (l' & sf' & H & _ & Hs & _). inversion H. subst. lia. }
    destruct (acc_level a - sf <? l) eqn:E2; [apply Z.ltb_lt in E2|apply Z.ltb_ge in E2].
    { split; [discriminate|]. intros (l' & sf' & H & _ & _ & Hl & _). inversion H. subst. lia. }
    destruct ((l <? 0) || (sf <? 0)) eqn:E3.
    + split; [|reflexivity]. intros _. exists l, sf. repeat split; try assumption.
      apply orb_true_iff in E3. destruct E3 as [E3|E3]; apply Z.ltb_lt in E3; auto.
    + split; [discriminate|]. intros (l' & sf' & H & _ & _ & _ & Hneg). inversion H. subst.
      apply orb_false_iff in E3. destruct E3 as [E3 E4]. apply Z.ltb_ge in E3. apply Z.ltb_ge in E4. lia.
Qed.

Lemma shorten_np m a : mapping_nonneg m = true -> shorten m a <> ShPanic.
Proof.
  intros Hm H. apply shorten_panics_iff in H. destruct H as (l & sf & Hl & _ & _ & _ & Hneg).
  destruct (mapping_level_in _ _ _ _ Hl) as (r & Hin & <- & <-).
  unfold mapping_nonneg in Hm. rewrite forallb_forall in Hm. specialize (Hm r Hin).
  unfold rule_nonneg in Hm. apply andb_true_iff in Hm. destruct Hm as [H1 H2].
  apply Z.leb_le in H1. apply Z.leb_le in H2. lia.
Qed.

Lemma shorten_safe_agrees m a : mapping_nonneg m = true -> shorten m a = shorten_result_of (shorten_safe m a).
Proof.
  intros Hm. pose proof (shorten_np m a Hm) as Hnp. unfold shorten, shorten_safe in *.
  destruct m as [|r m']; [reflexivity|].
  destruct (mapping_level (r :: m') (acc_name a)) as [[l sf]|]; [|reflexivity].
  destruct (l =? 0); [reflexivity|]. destruct (acc_level a <=? sf); [reflexivity|].
  destruct (acc_level a - sf <? l); [reflexivity|].
  destruct ((l <? 0) || (sf <? 0)); [contradiction|reflexivity].
Qed.

Lemma mapping_flag_ok_eq m : mapping_flag_ok m = mapping_nonneg m.
Proof. reflexivity. Qed.

(* ---------------------------------------------------------------- the repaired commands never panic *)

Theorem balance_table_safe_np cfg ds : cnp (balance_table_safe cfg ds).
Proof.
  unfold balance_table_safe. apply cbind_np; [|intros rp; apply cnp_ok].
  unfold balance_report_safe.
  destruct (mapping_flag_ok (bc_mapping cfg)) eqn:Emf; cbn [negb]; [|apply cnp_err].
  apply cbind_np.
  { destruct (bc_valuation cfg) as [v|]; [destruct (valid_commodity v); [apply cnp_ok|apply cnp_err]|apply cnp_ok]. }
  intros _. apply cbind_np; [apply load_safe_np|]. intros b.
  apply cbind_np; [apply cfg_partition_safe_np|]. intros part. cbv zeta.
  apply cbind_np; [apply run_stage_np, check_proc_current_safe|]. intros r1.
  apply cbind_np.
  { destruct (bc_valuation cfg) as [v|]; [|apply cnp_ok].
    apply cbind_np; [apply compute_prices_stage_np|]. intros r2.
    apply cbind_np; [apply run_stage_np, valuate_proc_safe|]. intros r3. apply cnp_ok. }
  intros days. apply cbind_np; [apply run_stage_np, filter_proc_safe|]. intros r4.
  apply cbind_np.
  { destruct (bc_close cfg); [|apply cnp_ok].
    apply cbind_np; [apply run_stage_np, close_proc_safe|]. intros r5. apply cnp_ok. }
  intros days2. apply cbind_np; [|intros r6; apply cnp_ok].
  apply run_stage_np, query_proc_safe. intros a. cbn [balance_query q_account].
  apply shorten_np. rewrite <- mapping_flag_ok_eq. exact Emf.
Qed.

Theorem check_cmd_safe_np lenient ds : cnp (check_cmd_safe lenient ds).
Proof.
  unfold check_cmd_safe. apply cbind_np; [apply load_safe_np|]. intros b.
  apply cbind_np; [apply run_stage_np, check_proc_safe|]. intros r. apply cnp_ok.
Qed.

Theorem print_cmd_safe_np lenient ds : cnp (print_cmd_safe lenient ds).
Proof.
  unfold print_cmd_safe. apply cbind_np; [apply load_safe_np|]. intros b.
  apply cbind_np; [apply run_stage_np, check_proc_current_safe|]. intros r. apply cnp_ok.
Qed.

Lemma run_fs_np {A} fs root (k : list sdirective -> cresult A) : (forall ds, cnp (k ds)) -> cnp (run_fs fs root k).
Proof.
  intros Hk. unfold run_fs. pose proof (load_terminates fs root) as Ht.
  destruct (LoaderM.load (fuel_for fs) fs root) as [ds|e|]; [apply Hk|apply cnp_err|contradiction].
Qed.

(* ---------------------------------------------------------------- the repair changes nothing where the pinned code did not panic *)

Lemma cbind_ext_on {A B} (x : cresult A) (f g : A -> cresult B) :
  (forall a, x = COk a -> f a = g a) -> cbind x f = cbind x g.
Proof. intros H. destruct x; cbn [cbind]; [apply H; reflexivity|reflexivity|reflexivity]. Qed.

Lemma load_ok_inv ds b : Cli.load ds = COk b -> exists l, parse_directives ds = MOk l /\ b = builder_of l.
Proof.
  unfold Cli.load. destruct (parse_directives ds) as [l|e|m]; cbn [of_mresult cbind]; intros H; inversion H.
  exists l. auto.
Qed.

Theorem balance_table_safe_agrees cfg ds : guards cfg ds = true -> balance_table_safe cfg ds = balance_table cfg ds.
Proof.
  unfold guards. intros H. apply andb_true_iff in H. destruct H as [H Hw].
  apply andb_true_iff in H. destruct H as [Hm Ha].
  unfold balance_table_safe, balance_table. f_equal.
  unfold balance_report_safe, balance_report.
  rewrite mapping_flag_ok_eq, Hm. cbn [negb].
  apply cbind_ext_on. intros _ _.
  rewrite (load_safe_agrees ds (parse_directives_np ds Ha)).
  apply cbind_ext_on. intros b Hb.
  rewrite cfg_partition_safe_agrees; [reflexivity|].
  destruct (load_ok_inv _ _ Hb) as (l & Hl & ->).
  unfold window_start_ok in Hw. rewrite Hl in Hw. apply negb_true_iff in Hw. apply Z.eqb_neq in Hw.
  rewrite b_min_builder_of. exact Hw.
Qed.

(* ---------------------------------------------------------------- the pinned commands under the guards *)

Theorem balance_table_np cfg ds : guards cfg ds = true -> cnp (balance_table cfg ds).
Proof. intros H. rewrite <- (balance_table_safe_agrees cfg ds H). apply balance_table_safe_np. Qed.

Theorem check_cmd_np lenient ds : accruals_ok ds = true -> cnp (check_cmd lenient ds).
Proof.
  intros Ha. pose proof (check_cmd_safe_np lenient ds) as H. unfold check_cmd_safe in H.
  rewrite (load_safe_agrees ds (parse_directives_np ds Ha)) in H. exact H.
Qed.

Theorem print_cmd_np lenient ds : accruals_ok ds = true -> cnp (print_cmd lenient ds).
Proof.
  intros Ha. pose proof (print_cmd_safe_np lenient ds) as H. unfold print_cmd_safe in H.
  rewrite (load_safe_agrees ds (parse_directives_np ds Ha)) in H. exact H.
Qed.

(* the converse for check: without the accrual guard the model panics unless an earlier
   directive fails first *)
Theorem check_cmd_panics_iff lenient ds :
  (exists m, check_cmd lenient ds = CPanic m) <-> (exists m, parse_directives ds = MPanic m).
Proof.
  unfold check_cmd, Cli.load. destruct (parse_directives ds) as [l|e|m]; cbn [of_mresult cbind].
  - split; [|intros [m H]; discriminate]. intros [m H]. exfalso.
    revert H. apply cbind_np; [apply run_stage_np, check_proc_safe|]. intros r. apply cnp_ok.
  - split; intros [m H]; discriminate.
  - split; intros _; eexists; reflexivity.
Qed.

(* ---------------------------------------------------------------- each guard is necessary: witnesses *)

Definition w_bank : account := [s_Assets; [66]].
Definition w_rent : account := [s_Expenses; [82]].
Definition w_chf : commodity := [67; 72; 70].
Definition w_booking : booking := mkBooking w_bank w_rent (of_int 12) w_chf.

(* open both accounts and book once on day [d] *)
Definition w_journal (d : Z) (ac : option accrual) : list sdirective :=
  [SOpen d w_bank; SOpen d w_rent; STxn (mkStxn d [] [w_booking] None ac)].

Definition w_cfg (mapping : list rule) : balance_cfg :=
  mkBalanceCfg 0 740000 Once 0 false false None true mapping [] [] [] [] true.

Definition w_day : Z := 737425.   (* 2020-01-01 *)

(* -m -1,Assets *)
Definition w_neg_level : list rule := [mkRule (-1) 0 (Some (mkRx false s_Assets false))].
(* -m 1:-2,Assets *)
Definition w_neg_suffix : list rule := [mkRule 1 (-2) (Some (mkRx false s_Assets false))].
(* @accrue monthly 2020-06-01 2020-01-01 *)
Definition w_inverted : accrual := mkAccrual Monthly (w_day + 152) w_day w_bank.
(* @accrue monthly 0001-01-01 0001-03-01 *)
Definition w_zero_accrual : accrual := mkAccrual Monthly 0 59 w_bank.

Lemma witness_ok : guards (w_cfg []) (w_journal w_day None) = true /\
                   exists t, balance_table (w_cfg []) (w_journal w_day None) = COk t.
Proof. split; [vm_compute; reflexivity|eexists; vm_compute; reflexivity]. Qed.

Lemma witness_neg_level :
  mapping_nonneg w_neg_level = false /\
  accruals_ok (w_journal w_day None) = true /\ window_start_ok (w_cfg w_neg_level) (w_journal w_day None) = true /\
  balance_table (w_cfg w_neg_level) (w_journal w_day None) = CPanic k_shorten.
Proof. repeat split; vm_compute; reflexivity. Qed.

Lemma witness_neg_suffix :
  mapping_nonneg w_neg_suffix = false /\
  balance_table (w_cfg w_neg_suffix) (w_journal w_day None) = CPanic k_shorten.
Proof. repeat split; vm_compute; reflexivity. Qed.

Lemma witness_inverted_accrual :
  accruals_ok (w_journal w_day (Some w_inverted)) = false /\
  mapping_nonneg [] = true /\
  check_cmd true (w_journal w_day (Some w_inverted)) = CPanic e_divzero /\
  balance_table (w_cfg []) (w_journal w_day (Some w_inverted)) = CPanic e_divzero.
Proof. repeat split; vm_compute; reflexivity. Qed.

Lemma witness_zero_accrual :
  accruals_ok (w_journal w_day (Some w_zero_accrual)) = false /\
  check_cmd true (w_journal w_day (Some w_zero_accrual)) = CPanic e_zerotime.
Proof. repeat split; vm_compute; reflexivity. Qed.

Lemma witness_zero_day :
  window_start_ok (w_cfg []) (w_journal 0 None) = false /\
  accruals_ok (w_journal 0 None) = true /\
  check_cmd true (w_journal 0 None) = COk tt /\
  balance_table (w_cfg []) (w_journal 0 None) = CPanic k_zerotime.
Proof. repeat split; vm_compute; reflexivity. Qed.

(* a transaction in year 0000 (before day 0) and no --from: the window starts on day 0 too *)
Lemma witness_year_zero :
  window_start_ok (w_cfg []) (w_journal (-200) None) = false /\
  balance_table (w_cfg []) (w_journal (-200) None) = CPanic k_zerotime.
Proof. repeat split; vm_compute; reflexivity. Qed.

(* the repaired commands on the same inputs: errors *)
Lemma witness_repaired :
  (exists k d, balance_table_safe (w_cfg w_neg_level) (w_journal w_day None) = CErr k d) /\
  (exists k d, balance_table_safe (w_cfg []) (w_journal w_day (Some w_inverted)) = CErr k d) /\
  (exists k d, check_cmd_safe true (w_journal w_day (Some w_zero_accrual)) = CErr k d) /\
  (exists k d, balance_table_safe (w_cfg []) (w_journal 0 None) = CErr k d).
Proof. repeat split; eexists; eexists; vm_compute; reflexivity. Qed.

(* ---------------------------------------------------------------- an invalid directive anywhere fails every command *)

Lemma cbind_ok_inv {A B} (x : cresult A) (f : A -> cresult B) b :
  cbind x f = COk b -> exists a, x = COk a /\ f a = COk b.
Proof. destruct x as [a|k d|m]; cbn [cbind]; intros H; try discriminate. exists a. auto. Qed.

Lemma load_safe_not_ok ds d :
  In d ds -> (forall o, parse_directive d <> MOk o) -> forall b, load_safe ds <> COk b.
Proof.
  intros Hin Hbad b H. unfold load_safe in H. rewrite parse_directives_safe_eq in H.
  destruct (parse_directives ds) as [l|e|m] eqn:E; cbn [depanic of_mresult cbind] in H; try discriminate.
  destruct (parse_directives_ok_all _ _ E d Hin) as (o & Ho). exact (Hbad o Ho).
Qed.

Theorem invalid_directive_fails_all fs root p items d :
  reach fs root p -> lookup fs p = Some (FOk items) -> In (IDir d) items ->
  (forall o, parse_directive d <> MOk o) ->
  (forall l u, run_fs fs root (check_cmd_safe l) <> COk u) /\
  (forall l s, run_fs fs root (print_cmd_safe l) <> COk s) /\
  (forall cfg t, run_fs fs root (balance_table_safe cfg) <> COk t).
Proof.
  intros Hr Hlk Hin Hbad. unfold run_fs.
  destruct (LoaderM.load (fuel_for fs) fs root) as [ds|e|] eqn:El.
  2: { repeat split; intros; discriminate. }
  2: { repeat split; intros; discriminate. }
  pose proof (included_directive_loaded fs root p items d Hr Hlk Hin _ _ El) as Hd.
  pose proof (load_safe_not_ok ds d Hd Hbad) as Hno.
  repeat split.
  - intros l u H. unfold check_cmd_safe in H. apply cbind_ok_inv in H. destruct H as (b & Hb & _). exact (Hno b Hb).
  - intros l s H. unfold print_cmd_safe in H. apply cbind_ok_inv in H. destruct H as (b & Hb & _). exact (Hno b Hb).
  - intros cfg t H. unfold balance_table_safe in H. apply cbind_ok_inv in H. destruct H as (rp & H & _).
    unfold balance_report_safe in H. destruct (negb (mapping_flag_ok (bc_mapping cfg))); [discriminate|].
    apply cbind_ok_inv in H. destruct H as (u & _ & H).
    apply cbind_ok_inv in H. destruct H as (b & Hb & _). exact (Hno b Hb).
Qed.

(* the commands on a file tree never panic and never run out of fuel *)
Theorem commands_fs_np cfg lenient fs root :
  check_fs lenient fs root <> PredPANIC /\ print_fs lenient fs root <> PredPANIC /\ balance_fs cfg fs root <> PredPANIC.
Proof.
  assert (H : forall A (r : cresult A), cnp r -> predict r <> PredPANIC).
  { intros A r Hr. destruct r as [a|k d|m]; cbn [predict]; try discriminate. exfalso. exact (Hr m eq_refl). }
  unfold check_fs, print_fs, balance_fs. repeat split; apply H; apply run_fs_np; intros ds.
  - apply check_cmd_safe_np.
  - apply print_cmd_safe_np.
  - apply balance_table_safe_np.
Qed.

(* a failing command has no output: the result type of the commands carries output only in COk *)
Lemma error_no_output (r : cresult str) k d : r = CErr k d -> stdout_of r = [].
Proof. intros ->. reflexivity. Qed.

Lemma repaired_np_all cfg lenient ds m :
  balance_table_safe cfg ds <> CPanic m /\ check_cmd_safe lenient ds <> CPanic m /\ print_cmd_safe lenient ds <> CPanic m.
Proof. split; [apply balance_table_safe_np|]. split; [apply check_cmd_safe_np|apply print_cmd_safe_np]. Qed.

Lemma error_empty_stdout_all cfg tc lenient ds k d :
  (balance_csv cfg ds = CErr k d -> stdout_of (balance_csv cfg ds) = []) /\
  (balance_text cfg tc ds = CErr k d -> stdout_of (balance_text cfg tc ds) = []) /\
  (print_cmd lenient ds = CErr k d -> stdout_of (print_cmd lenient ds) = []) /\
  (balance_csv_safe cfg ds = CErr k d -> stdout_of (balance_csv_safe cfg ds) = []) /\
  (print_cmd_safe lenient ds = CErr k d -> stdout_of (print_cmd_safe lenient ds) = []).
Proof. repeat split; apply error_no_output. Qed.

Lemma clean_run_examples :
  clean_run_b true ClOK false false = true /\ clean_run_b true ClERR true true = true /\
  clean_run_b true ClERR false true = false /\ clean_run_b true ClERR true false = false /\
  clean_run_b false ClERR false true = true /\
  clean_run_b true ClPANIC true true = false /\ clean_run_b true ClHANG true false = false /\
  clean_run_b true ClOOM true true = false /\ clean_run_b false ClEXIT true true = false.
Proof. repeat split. Qed.
