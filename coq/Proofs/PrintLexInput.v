(* C09: the hypothesis of the text-level statements, on the INPUT.
   [sdir_lex s]: what the parser guarantees of a syntax-level directive -- years 0..9999, account
   segments and commodities non-empty runs of letters and digits, descriptions valid UTF-8 without
   a double quote, at least one booking / balance, and for an @accrue annotation an account of that
   shape and a window between years 0..9999.  The model layer keeps it: every model directive of
   a journal of such directives satisfies PrintLex.mdir_lex ([parse_lex]; accrual expansions get
   the description suffix " (accrual i/n)" and the period ends as dates), and its accounts are
   what C04/C05 call syntactic ([parse_syntactic]).  Hence [input_lex ss -> PrintText.lex_ok ss]. *)
From Coq Require Import ZArith List Bool Lia.
From Knut Require Import Model.Bytes Model.Utf8 Model.UnicodeTables Model.Scanner Model.Parser.
From Knut Require Import Model.Str Model.Dec Model.Date Model.Account Model.Ledger Model.Journal Model.JPrinter.
From Knut Require Import Spec.WellformedSpec Spec.DateSpec Proofs.CalendarSweep Proofs.CalendarProofs Proofs.DateProofs.
From Knut Require Import Proofs.DecStringProofs Proofs.ScannerProofs Proofs.RoundTripBase Proofs.RoundTripLeaf
     Proofs.OrderCmd Proofs.PrintProofs Proofs.PrintRequant Proofs.PrintNormal Proofs.PrintSem Proofs.PrintWeave Proofs.PrintLex Proofs.PrintText.
Import ListNotations.
Open Scope bool_scope.
Open Scope Z_scope.

Definition acc_lex0 (a : Account.account) : Prop := a <> [] /\ Forall seg_lex a.

Definition accrual_lex (ac : Ledger.accrual) : Prop :=
  acc_lex0 (ac_account ac) /\ date_printable (ac_start ac) /\ date_printable (ac_end ac).

(* the period ends of a window lie in the window, hence in years 0..9999 if its ends do *)
Lemma year_mono d1 d2 : d1 <= d2 -> year_of d1 <= year_of d2.
Proof.
  intros H. destruct (civil_le_mono d1 d2 H) as [E|L].
  - unfold year_of. rewrite E. lia.
  - rewrite (year_month_day d1), (year_month_day d2) in L. unfold lex_lt in L. lia.
Qed.

Lemma tiles_end_lower s e ps : tiles s e ps -> Forall (fun p => s <= p_end p) ps.
Proof.
  revert s. induction ps as [|p ps IH]; intros s H; [constructor|].
  cbn [tiles] in H. destruct H as (Hs & Hpe & Hrest). constructor; [lia|].
  destruct ps as [|q ps]; [constructor|]. specialize (IH _ Hrest).
  eapply Forall_impl; [|exact IH]. cbv beta. intros x Hx. lia.
Qed.

Lemma accrual_dates s e iv part :
  date_printable s -> date_printable e -> new_partition (mkPeriod s e) iv 0 = POk part ->
  Forall date_printable (end_dates part).
Proof.
  intros Hs He H. destruct (Z.eq_dec s 0) as [->|Hnz].
  { unfold new_partition in H. cbn [p_start] in H. discriminate. }
  assert (Hcase : iv = Once \/ iv <> Once) by (destruct iv; (now left) || (right; discriminate)).
  destruct Hcase as [->|Hiv].
  - rewrite (partition_once s e 0 Hnz) in H. inversion H. subst part. unfold end_dates. cbn [periods map p_end].
    constructor; [exact He|constructor].
  - destruct (partition_unlimited s e iv Hiv Hnz) as (ps & Hp & Hinv & Htiles & _).
    rewrite Hp in H. inversion H. subst part. unfold end_dates. cbn [periods].
    destruct (Z_lt_ge_dec e s) as [L|G]; [rewrite (Hinv L); constructor|].
    specialize (Htiles ltac:(lia)). destruct (tiles_end_ge s e ps Htiles) as (Hup & _).
    pose proof (tiles_end_lower s e ps Htiles) as Hlo.
    apply Forall_forall. intros d Hd. apply in_map_iff in Hd. destruct Hd as (p & <- & Hin).
    rewrite Forall_forall in Hup, Hlo. specialize (Hup p Hin). specialize (Hlo p Hin). cbv beta in *.
    unfold date_printable in *. pose proof (year_mono s (p_end p) Hlo). pose proof (year_mono (p_end p) e Hup). lia.
Qed.

Definition booking_lex (b : Ledger.booking) : Prop := acc_lex0 (b_credit b) /\ acc_lex0 (b_debit b) /\ com_lex (b_com b).

Definition sdir_lex (s : sdirective) : Prop :=
  match s with
  | SPrice d c _ t => date_printable d /\ com_lex c /\ com_lex t
  | SOpen d a => date_printable d /\ acc_lex0 a
  | SClose d a => date_printable d /\ acc_lex0 a
  | SAssert d bs => date_printable d /\ bs <> [] /\ Forall (fun b => acc_lex0 (bal_acc b) /\ com_lex (bal_com b)) bs
  | STxn st =>
    date_printable (st_date st) /\ ucls RoundTripLeaf.notquote (st_desc st) /\ st_bookings st <> [] /\
    Forall booking_lex (st_bookings st) /\
    match st_targets st with Some ts => Forall com_lex ts | None => True end /\
    match st_accrual st with Some ac => accrual_lex ac | None => True end
  | SInclude => True
  end.

Definition input_lex (ss : list sdirective) : Prop := Forall sdir_lex ss.

(* ------------------------------------------------------------------ small facts *)

Lemma acc_lex_of a : acc_lex0 a -> valid_account a = true -> acc_lex a.
Proof. intros (H1 & H2) H3. repeat split; assumption. Qed.

Lemma check_account_valid a : check_account a = MOk tt -> valid_account a = true.
Proof. unfold check_account. destruct (valid_account a); [reflexivity|discriminate]. Qed.

Lemma check_balances_valid bs : check_balances bs = MOk tt -> Forall (fun b => valid_account (bal_acc b) = true) bs.
Proof.
  induction bs as [|b bs IH]; [constructor|]. cbn [check_balances].
  destruct (check_account (bal_acc b)) as [[]| |] eqn:E; cbn [mbind]; try discriminate.
  intros H. constructor; [now apply check_account_valid|now apply IH].
Qed.

(* the posting pair of a booking: the printed half lies between the two accounts of the booking *)
Lemma pair_build_odd cr db com q : exists p,
  odd_postings (pair_build cr db com q Ledger.dec_nil) = [p] /\ p_com p = com /\
  ((p_acc p = db /\ p_other p = cr) \/ (p_acc p = cr /\ p_other p = db)).
Proof.
  unfold pair_build. destruct (is_neg q || is_zero q && is_neg Ledger.dec_nil); eexists; (split; [reflexivity|]);
    cbn [p_com p_acc p_other]; (split; [reflexivity|]); [right|left]; split; reflexivity.
Qed.

Lemma pair_build_length cr db com q v : exists p1 p2, pair_build cr db com q v = [p1; p2].
Proof. unfold pair_build. destruct (is_neg q || is_zero q && is_neg v); eauto. Qed.

Lemma odd_postings_pair_app p1 p2 rest : odd_postings ([p1; p2] ++ rest) = p2 :: odd_postings rest.
Proof. reflexivity. Qed.

Lemma postings_create_lex bs ps : postings_create bs = MOk ps -> Forall booking_lex bs ->
  Forall posting_lex (odd_postings ps) /\ (bs <> [] -> odd_postings ps <> []) /\
  Forall (fun p => acc_lex (p_acc p) /\ com_lex (p_com p)) ps.
Proof.
  revert ps. induction bs as [|b bs IH]; intros ps H HL; cbn [postings_create] in H.
  - inversion H. subst. split; [constructor|]. split; [congruence|constructor].
  - inversion HL as [|? ? (Hc & Hd & Hm) HL']; subst.
    destruct (check_account (b_credit b)) as [[]| |] eqn:Ec; cbn [mbind] in H; try discriminate.
    destruct (check_account (b_debit b)) as [[]| |] eqn:Ed; cbn [mbind] in H; try discriminate.
    destruct (postings_create bs) as [ps'| |] eqn:E; cbn [mbind] in H; try discriminate.
    inversion H. subst ps. destruct (IH ps' eq_refl HL') as (I1 & _ & I3).
    pose proof (acc_lex_of _ Hc (check_account_valid _ Ec)) as Lc.
    pose proof (acc_lex_of _ Hd (check_account_valid _ Ed)) as Ld.
    destruct (pair_build_odd (b_credit b) (b_debit b) (b_com b) (b_qty b)) as (p & Ho & Hcom & Hacc).
    destruct (pair_build_length (b_credit b) (b_debit b) (b_com b) (b_qty b) Ledger.dec_nil) as (p1 & p2 & Hp).
    rewrite Hp in *. rewrite odd_postings_pair_app. cbn [odd_postings] in Ho. injection Ho as ->.
    assert (Lp : posting_lex p).
    { unfold posting_lex. rewrite Hcom. destruct Hacc as [(-> & ->)|(-> & ->)]; (split; [|split]); assumption. }
    split; [constructor; assumption|]. split; [discriminate|].
    assert (Hp1 : acc_lex (p_acc p1) /\ com_lex (p_com p1)).
    { unfold pair_build in Hp. destruct (is_neg (b_qty b) || is_zero (b_qty b) && is_neg Ledger.dec_nil);
        injection Hp as <- _; cbn [p_acc p_com]; split; assumption. }
    constructor; [exact Hp1|]. constructor; [|exact I3]. destruct Lp as (A & _ & C). split; assumption.
Qed.

(* the accrual suffix is plain ASCII without a quote *)
Lemma cls_notquote_ascii x : Forall (fun b => 0 <= b < 128 /\ b <> 34) x -> ucls RoundTripLeaf.notquote x.
Proof.
  intros H. apply (cls_ascii udec utf8_decoder_ok). eapply Forall_impl; [|exact H].
  intros b (Hb & Hq). split; [exact Hb|]. unfold RoundTripLeaf.notquote. apply negb_true_iff. lia.
Qed.

Lemma digits_plain n : 0 <= n -> Forall (fun b => 0 <= b < 128 /\ b <> 34) (digits n).
Proof.
  intros Hn. pose proof (digits_all_digits n Hn) as H. rewrite forallb_forall in H. apply Forall_forall.
  intros b Hb. specialize (H b Hb). apply is_digit_range in H. lia.
Qed.

Lemma accrual_suffix_lex i n : 0 <= i -> 0 <= n -> ucls RoundTripLeaf.notquote (accrual_suffix i n).
Proof.
  intros Hi Hn. apply cls_notquote_ascii. unfold accrual_suffix.
  repeat (apply Forall_app; split); try (apply digits_plain; assumption); repeat constructor; lia.
Qed.

Lemma pair_single_lex acc a com q :
  acc_lex acc -> acc_lex a -> com_lex com ->
  Forall posting_lex (odd_postings (pair_build acc a com q Ledger.dec_nil)) /\ odd_postings (pair_build acc a com q Ledger.dec_nil) <> [].
Proof.
  intros La Lb Lc. destruct (pair_build_odd acc a com q) as (p & -> & Hcom & Hacc).
  split; [|discriminate]. constructor; [|constructor]. unfold posting_lex. rewrite Hcom.
  destruct Hacc as [(-> & ->)|(-> & ->)]; (split; [|split]); assumption.
Qed.

Lemma accrual_parts_lex desc tg acc p amount rem n ends : forall i,
  0 <= i -> 0 <= n -> ucls RoundTripLeaf.notquote desc ->
  match tg with Some ts => Forall com_lex ts | None => True end ->
  acc_lex acc -> acc_lex (p_acc p) -> com_lex (p_com p) -> Forall date_printable ends ->
  Forall (fun t => mdir_lex (DTxn t)) (accrual_parts desc tg acc p amount rem n i ends).
Proof.
  induction ends as [|dt rest IH]; intros i Hi Hn Hd Ht La Lp Lc He; cbn [accrual_parts]; constructor.
  - inversion He as [|? ? Hdt Hrest]; subst. cbn [mdir_lex t_date t_desc t_postings t_targets].
    destruct (pair_single_lex acc (p_acc p) (p_com p) (if i =? 0 then add amount rem else amount) La Lp Lc) as (H1 & H2).
    split; [exact Hdt|]. split; [apply (cls_app udec); [exact Hd|apply accrual_suffix_lex; lia]|].
    split; [exact H2|]. split; [exact H1|exact Ht].
  - inversion He as [|? ? Hdt Hrest]; subst. apply IH; try assumption; lia.
Qed.

Lemma expand_posting_lex t ac p l :
  date_printable (t_date t) -> ucls RoundTripLeaf.notquote (t_desc t) ->
  match t_targets t with Some ts => Forall com_lex ts | None => True end ->
  accrual_lex ac -> valid_account (ac_account ac) = true -> acc_lex (p_acc p) -> com_lex (p_com p) ->
  expand_posting t ac p = MOk l -> Forall (fun t => mdir_lex (DTxn t)) l.
Proof.
  intros Hd Hq Ht (La0 & Hs0 & He0) Hv Lp Lc. pose proof (acc_lex_of _ La0 Hv) as La.
  unfold expand_posting, expand_posting_gen.
  set (r1 := if rebook_fixed (p_acc p) then _ else _).
  assert (Hr1 : Forall (fun t => mdir_lex (DTxn t)) r1).
  { unfold r1. destruct (rebook_fixed (p_acc p)); constructor; [|constructor].
    cbn [mdir_lex t_date t_desc t_postings t_targets].
    destruct (pair_single_lex (ac_account ac) (p_acc p) (p_com p) (p_qty p) La Lp Lc) as (H1 & H2).
    split; [exact Hd|]. split; [exact Hq|]. split; [exact H2|]. split; [exact H1|exact Ht]. }
  destruct (is_IE (p_acc p)); [|intros H; inversion H; subst; exact Hr1].
  destruct (new_partition _ _ _) as [part| |] eqn:Ep; try discriminate.
  destruct (quo_rem _ _ _) as [[amount rem]|]; try discriminate.
  intros H. inversion H. apply Forall_app. split; [exact Hr1|].
  apply accrual_parts_lex; try assumption; try lia. exact (accrual_dates _ _ _ part Hs0 He0 Ep).
Qed.

Lemma expand_postings_lex t ac ps l :
  date_printable (t_date t) -> ucls RoundTripLeaf.notquote (t_desc t) ->
  match t_targets t with Some ts => Forall com_lex ts | None => True end ->
  accrual_lex ac -> valid_account (ac_account ac) = true ->
  Forall (fun p => acc_lex (p_acc p) /\ com_lex (p_com p)) ps ->
  expand_postings t ac ps = MOk l -> Forall (fun t => mdir_lex (DTxn t)) l.
Proof.
  intros Hd Hq Ht La Hv. unfold expand_postings. revert l. induction ps as [|p ps IH]; intros l Hps H; cbn [expand_postings_gen] in H.
  - inversion H. constructor.
  - inversion Hps as [|? ? (Lp & Lc) Hps']; subst.
    destruct (expand_posting_gen rebook_fixed t ac p) as [l1| |] eqn:E1; cbn [mbind] in H; try discriminate.
    destruct (expand_postings_gen rebook_fixed t ac ps) as [l2| |] eqn:E2; cbn [mbind] in H; try discriminate.
    inversion H. apply Forall_app. split; [eapply expand_posting_lex; eassumption|now apply IH].
Qed.

Lemma txn_create_lex st ts : sdir_lex (STxn st) -> txn_create st = MOk ts -> Forall (fun t => mdir_lex (DTxn t)) ts.
Proof.
  cbn [sdir_lex]. intros (Hd & Hq & Hne & Hb & Ht & Ha). unfold txn_create, txn_create_gen.
  destruct (postings_create (st_bookings st)) as [ps| |] eqn:E; cbn [mbind]; try discriminate.
  destruct (postings_create_lex _ _ E Hb) as (I1 & I2 & I3).
  destruct (st_accrual st) as [ac|].
  - unfold expand_gen. destruct (check_account (ac_account ac)) as [[]| |] eqn:Ec; cbn [mbind]; try discriminate.
    intros H. eapply (expand_postings_lex (mkTxn (st_date st) (st_desc st) ps (st_targets st)) ac ps); try eassumption.
    now apply check_account_valid.
  - intros H. inversion H. constructor; [|constructor]. cbn [mdir_lex t_date t_desc t_postings t_targets].
    split; [exact Hd|]. split; [exact Hq|]. split; [now apply I2|]. split; [exact I1|exact Ht].
Qed.

Lemma parse_directive_lex s ds : sdir_lex s -> parse_directive s = MOk ds -> Forall mdir_lex ds.
Proof.
  destruct s as [dt c p t|dt a|dt a|dt bs|st|]; cbn [parse_directive].
  - intros H E. inversion E. constructor; [exact H|constructor].
  - intros (Hd & Ha). destruct (check_account a) as [[]| |] eqn:Ec; cbn [mbind]; try discriminate.
    intros E. inversion E. constructor; [|constructor]. split; [exact Hd|]. apply acc_lex_of; [exact Ha|now apply check_account_valid].
  - intros (Hd & Ha). destruct (check_account a) as [[]| |] eqn:Ec; cbn [mbind]; try discriminate.
    intros E. inversion E. constructor; [|constructor]. split; [exact Hd|]. apply acc_lex_of; [exact Ha|now apply check_account_valid].
  - intros (Hd & Hne & Hb). destruct (check_balances bs) as [[]| |] eqn:Ec; cbn [mbind]; try discriminate.
    intros E. inversion E. constructor; [|constructor]. split; [exact Hd|]. split; [exact Hne|].
    pose proof (check_balances_valid bs Ec) as Hv. rewrite Forall_forall in *. intros b Hin.
    destruct (Hb b Hin) as (Ha & Hc). split; [|exact Hc]. apply acc_lex_of; [exact Ha|now apply Hv].
  - intros HL. destruct (txn_create st) as [ts| |] eqn:E; cbn [mbind]; try discriminate.
    intros H. inversion H. apply Forall_forall. intros d Hd. apply in_map_iff in Hd. destruct Hd as (t & <- & Ht).
    pose proof (txn_create_lex st ts HL E) as HF. rewrite Forall_forall in HF. now apply HF.
  - intros _ E. inversion E. constructor.
Qed.

Theorem parse_lex ss ds : input_lex ss -> parse_directives ss = MOk ds -> Forall mdir_lex ds.
Proof.
  unfold input_lex. revert ds. induction ss as [|s ss IH]; intros ds HL H; cbn [parse_directives] in H.
  - inversion H. constructor.
  - inversion HL as [|? ? Hs HL']; subst.
    destruct (parse_directive s) as [l1| |] eqn:E1; cbn [mbind] in H; try discriminate.
    destruct (parse_directives ss) as [l2| |] eqn:E2; cbn [mbind] in H; try discriminate.
    inversion H. apply Forall_app. split; [now apply (parse_directive_lex s)|now apply IH].
Qed.

(* ------------------------------------------------------------------ syntactic accounts *)

Lemma ualnum_0 : ualnum 0 = false. Proof. vm_compute. reflexivity. Qed.

Lemma cls_alnum_no_nul s : ucls ualnum s -> ~ In 0 s.
Proof.
  induction 1 as [|c b x Hc Hp Hx IH]; [intros []|]. intros Hin. apply in_app_or in Hin. destruct Hin as [Hin|Hin]; [|tauto].
  destruct (chunk_shape c b Hc) as (b0 & bt & -> & _ & _ & Hlo & Hhi).
  destruct (Z_lt_ge_dec b0 128) as [L|G].
  - destruct (Hlo L) as (-> & ->). destruct Hin as [E|[]]. rewrite E, ualnum_0 in Hp. discriminate.
  - destruct Hin as [E|Hin]; [lia|]. specialize (Hhi ltac:(lia)). rewrite Forall_forall in Hhi. specialize (Hhi _ Hin). lia.
Qed.

Lemma account_ok_lex a : acc_lex a -> account_ok a = true.
Proof.
  intros (_ & Hseg & Hv). unfold account_ok. rewrite Hv. cbn [andb]. apply forallb_forall. intros s Hs.
  rewrite Forall_forall in Hseg. destruct (Hseg s Hs) as (Hc & _).
  unfold WellformedSpec.seg_ok. apply forallb_forall. intros c Hin.
  pose proof (cls_alnum_no_colon s Hc) as H58. pose proof (cls_alnum_no_nul s Hc) as H0.
  apply andb_true_iff. split; apply negb_true_iff; apply Z.eqb_neq; intros ->; unfold colon in *; tauto.
Qed.

Lemma canonical_all_lex ps : canonical ps -> Forall posting_lex (odd_postings ps) -> Forall (fun p => acc_lex (p_acc p)) ps.
Proof.
  induction 1 as [|p1 p2 rest (H1 & _) Hr IH]; intros H; [constructor|].
  cbn [odd_postings] in H. inversion H as [|? ? (La & Lo & _) H']; subst.
  constructor; [cbn [p_acc]; exact Lo|]. constructor; [exact La|now apply IH].
Qed.

Theorem parse_syntactic ss : input_lex ss -> sd_syntactic ss.
Proof.
  intros HL ds Hp. pose proof (parse_lex ss ds HL Hp) as HF. pose proof (parsed_dir_ok ss ds Hp) as Hok.
  intros d e Hd He. rewrite Forall_forall in HF, Hok. specialize (HF d Hd). specialize (Hok d Hd).
  apply account_ok_lex.
  destruct d as [dt c p t|dt a|dt a|dt bs|t]; cbn [events_of] in He.
  - destruct He.
  - destruct He as [<-|[]]. exact (proj2 HF).
  - destruct He as [<-|[]]. exact (proj2 HF).
  - apply in_map_iff in He. destruct He as (b & <- & Hb). destruct HF as (_ & _ & HF). rewrite Forall_forall in HF.
    exact (proj1 (HF b Hb)).
  - apply in_map_iff in He. destruct He as (p & <- & Hp'). destruct HF as (_ & _ & _ & HF & _).
    pose proof (canonical_all_lex _ (dir_ok_txn_canonical t Hok) HF) as Hall. rewrite Forall_forall in Hall. exact (Hall p Hp').
Qed.

Theorem input_lex_ok ss : input_lex ss -> lex_ok ss.
Proof. intros H. split; [now apply parse_syntactic|intros ds Hp; now apply (parse_lex ss)]. Qed.

(* ------------------------------------------------------------------ the hypotheses are satisfiable *)

Lemma chunk_2 b0 b1 c : Utf8M.decode [b0; b1] = (c, 2) -> (forall x, Utf8M.decode (b0 :: b1 :: x) = Utf8M.decode [b0; b1]) -> uchunk c [b0; b1].
Proof.
  intros H Hx. split; [discriminate|]. split; [intros x; cbn [app]; now rewrite Hx, H|].
  intros (_ & E). vm_compute in E. discriminate.
Qed.

Ltac ascii_cls := apply (cls_ascii udec utf8_decoder_ok); repeat constructor; try lia; vm_compute; reflexivity.

Lemma x_seg_bank : seg_lex [66;195;164;110;107].
Proof.
  split; [|discriminate].
  change [66;195;164;110;107] with ([66] ++ [195;164] ++ [110;107]).
  apply (cls_app udec); [ascii_cls|]. apply (cls_cons udec _ 228 [195;164] [110;107]).
  - apply chunk_2; [vm_compute; reflexivity|intros x; reflexivity].
  - vm_compute. reflexivity.
  - ascii_cls.
Qed.

Ltac seg_tac := first [exact x_seg_bank | (split; [ascii_cls|discriminate])].
Ltac forall_tac tac := repeat (apply Forall_cons; [tac|]); apply Forall_nil.
Ltac acc0_tac := split; [discriminate|forall_tac seg_tac].
Ltac date_tac := unfold date_printable; vm_compute; split; discriminate.
Ltac booking_tac := split; [acc0_tac|split; [acc0_tac|seg_tac]].
Ltac bal_tac := split; [acc0_tac|seg_tac].

Example x_journal_input_lex : input_lex x_journal.
Proof.
  unfold input_lex, x_journal.
  repeat (apply Forall_cons); try apply Forall_nil; cbn [sdir_lex st_date st_desc st_bookings st_targets st_accrual].
  - split; [date_tac|]. split; seg_tac.
  - split; [date_tac|acc0_tac].
  - split; [date_tac|acc0_tac].
  - split; [date_tac|acc0_tac].
  - split; [date_tac|acc0_tac].
  - split; [date_tac|]. split; [ascii_cls|]. split; [discriminate|].
    split; [forall_tac booking_tac|]. split; [forall_tac seg_tac|].
    split; [acc0_tac|]. split; date_tac.
  - split; [date_tac|]. split; [ascii_cls|]. split; [discriminate|].
    split; [forall_tac booking_tac|]. split; [apply Forall_nil|exact I].
  - split; [date_tac|]. split; [discriminate|]. forall_tac bal_tac.
  - split; [date_tac|]. split; [discriminate|]. forall_tac bal_tac.
  - split; [date_tac|]. split; [discriminate|]. forall_tac bal_tac.
  - split; [date_tac|acc0_tac].
Qed.
