(* C03 on the rendered report, part 3: quantities and prices of the builder's days are those of the
   directives as loaded (Spec/ValuationSpec.v qty_upto, price_on: no days, no processors).

   Part A  quantities: the bookings dated up to T
   Part B  price declarations: the days up to T carry, in date order and within a day in journal
           order, the declarations dated up to T = the stable sort by date of ValuationSpec
   Part C  prices: PriceDaySpec.price_on on the days = ValuationSpec.price_on on the directives *)
From Coq Require Import ZArith QArith Qabs List Bool Lia Permutation Sorting.Sorted.
From Knut Require Import Model.Str Model.Dec Model.Date Model.Account Model.Ledger Model.Price
     Model.Journal Model.Check Model.Pipeline Model.Table Model.Report Model.Cli
     Spec.DateSpec Spec.WellformedSpec Spec.LedgerSpec Spec.LedgerSyntax Spec.MarkToMarketSpec
     Spec.PriceSpec Spec.PriceDaySpec Spec.ValuationSpec Spec.MarkToMarketReportSpec
     Proofs.DecProofs Proofs.DecValue Proofs.CheckLemmas Proofs.CheckProofs Proofs.PairProofs
     Proofs.DateProofs Proofs.BuilderProofs Proofs.StableSort Proofs.BeancountProofs
     Proofs.LedgerProofs Proofs.CloseProofs Proofs.PriceDayProofs Proofs.ValuationProofs
     Proofs.MarkToMarket Proofs.MarkToMarketReport Proofs.MarkToMarketWindow.
Import ListNotations.
Open Scope Q_scope.

(* ------------------------------------------------------------ Part A: quantities *)

Lemma dated_filter_sum (P : Z -> bool) (f : Z * posting -> Q) : forall ds, days_dated ds ->
  lsum f (dposts (filter (fun x => P (d_date x)) ds)) == lsum (fun dp => if P (fst dp) then f dp else 0) (dposts ds).
Proof.
  induction ds as [|d ds IH]; intros Hd; [reflexivity|].
  inversion Hd as [|? ? Hx Hrest]; subst. specialize (IH Hrest).
  cbn [filter]. unfold LedgerProofs.days_postings in *. cbn [map concat]. rewrite LedgerProofs.qsum_app.
  destruct (P (d_date d)) eqn:E; cbn [map concat]; rewrite ?LedgerProofs.qsum_app, IH.
  - apply Qplus_comp; [|reflexivity]. apply LedgerProofs.qsum_ext. intros dp Hin.
    rewrite (day_postings_date d dp Hx Hin), E. reflexivity.
  - rewrite (LedgerProofs.qsum_zero (fun dp => if P (fst dp) then f dp else 0) (dday d)); [ring|].
    intros dp Hin. rewrite (day_postings_date d dp Hx Hin), E. reflexivity.
Qed.

Theorem qty_on_days_journal close dl part a c T :
  qty_on_days a c (built_days close dl part) T == dvalue (qty_upto (flat_postings dl) a c T).
Proof.
  unfold qty_on_days, days_upto. rewrite cell_qty_dposts.
  rewrite (dated_filter_sum (fun d => (d <=? T)%Z) (cqty a c) _ (built_days_dated close dl part)).
  rewrite (LedgerProofs.qsum_perm _ _ _ (built_days_perm close dl part)).
  unfold qty_upto. rewrite dvalue_dsum, qsum_concat_map. apply LedgerProofs.qsum_ext. intros [d p] _.
  unfold cqty, cellb. cbn [fst snd]. rewrite <- andb_assoc.
  destruct (d <=? T)%Z; cbn [andb]; [|reflexivity].
  destruct (acc_eqb (p_acc p) a && str_eqb (p_com p) c); unfold LedgerProofs.qsum; cbn [fold_right]; ring.
Qed.

(* ------------------------------------------------------------ Part B: price declarations *)

Definition tdecl := (Z * commodity * dec * commodity)%type.
Definition tkey (x : tdecl) : Z := fst (fst (fst x)).
Definition tlt (x y : tdecl) : bool := (tkey x <? tkey y)%Z.
Definition untag (x : tdecl) : decl := (snd (fst (fst x)), snd (fst x), snd x).
Definition tag (dt : Z) (p : decl) : tdecl := (dt, fst (fst p), snd (fst p), snd p).

(* the tagged declarations of a directive / of a day *)
Definition pd (d : directive) : list tdecl := match d with DPrice dt c p t => [(dt, c, p, t)] | _ => [] end.
Definition dd (x : day) : list tdecl := map (tag (d_date x)) (d_prices x).

Lemma tlt_irrefl x : tlt x x = false.
Proof. unfold tlt. lia. Qed.
Lemma tlt_trans x y z : tlt x y = true -> tlt y z = true -> tlt x z = true.
Proof. unfold tlt. lia. Qed.
Lemma tlt_cotrans x y z : tlt x y = true -> tlt x z = true \/ tlt z y = true.
Proof. unfold tlt. intros H. destruct (tkey x <? tkey z)%Z eqn:E; [left; reflexivity|right; lia]. Qed.

Lemma teqv x y : eqv tlt x y = (tkey y =? tkey x)%Z.
Proof. unfold eqv, tlt. lia. Qed.

Lemma price_decls_raw dl T :
  price_decls dl T = sort_by tlt (filter (fun x => (tkey x <=? T)%Z) (concat (map pd dl))).
Proof.
  unfold price_decls. f_equal. induction dl as [|d dl IH]; [reflexivity|].
  cbn [map concat]. rewrite filter_app, IH. f_equal.
  destruct d; cbn [pd filter]; reflexivity.
Qed.

Lemma ss_app {A} (R : A -> A -> Prop) l1 l2 :
  StronglySorted R l1 -> StronglySorted R l2 -> (forall x y, In x l1 -> In y l2 -> R x y) -> StronglySorted R (l1 ++ l2).
Proof.
  induction l1 as [|x l1 IH]; intros H1 H2 H; cbn [app]; [exact H2|].
  inversion H1 as [|? ? H1' Hall]; subst. constructor.
  - apply IH; [exact H1'|exact H2|]. intros a b Ha Hb. apply H; [right; exact Ha|exact Hb].
  - apply Forall_app. split; [exact Hall|]. apply Forall_forall. intros y Hy. apply H; [left; reflexivity|exact Hy].
Qed.

Lemma dd_key x y : In y (dd x) -> tkey y = d_date x.
Proof. unfold dd. intros H. apply in_map_iff in H. destruct H as (p & <- & _). reflexivity. Qed.

Lemma days_decls_sorted : forall ds, StronglySorted Z.lt (map d_date ds) ->
  sorted tlt (concat (map dd ds)).
Proof.
  unfold sorted. induction ds as [|x ds IH]; intros Hs; cbn [map concat]; [constructor|].
  cbn [map] in Hs. inversion Hs as [|? ? Hs' Hall]; subst. rewrite Forall_forall in Hall.
  apply ss_app; [|exact (IH Hs')|].
  - assert (G : forall l, (forall y, In y l -> tkey y = d_date x) -> StronglySorted (fun a b => tlt b a = false) l).
    { induction l as [|y l IHl]; intros Hk; constructor.
      - apply IHl. intros z Hz. apply Hk. right. exact Hz.
      - apply Forall_forall. intros z Hz. unfold tlt. rewrite (Hk y (or_introl eq_refl)), (Hk z (or_intror Hz)). lia. }
    apply G. intros y Hy. exact (dd_key x y Hy).
  - intros a b Ha Hb. apply in_concat in Hb. destruct Hb as (l & Hl & Hb). apply in_map_iff in Hl. destruct Hl as (z & <- & Hz).
    unfold tlt. rewrite (dd_key x a Ha), (dd_key z b Hb).
    assert (Hd : In (d_date z) (map d_date ds)) by (apply in_map; exact Hz). specialize (Hall _ Hd). lia.
Qed.

Lemma filter_concat_map {A B} (f : B -> bool) (g : A -> list B) l :
  filter f (concat (map g l)) = concat (map (fun x => filter f (g x)) l).
Proof. induction l as [|x l IH]; cbn [map concat]; [reflexivity|]. rewrite filter_app, IH. reflexivity. Qed.

Lemma concat_nil_all {A B} (g : A -> list B) l : (forall x, In x l -> g x = []) -> concat (map g l) = [].
Proof.
  induction l as [|x l IH]; intros H; cbn [map concat]; [reflexivity|].
  rewrite (H x (or_introl eq_refl)), IH; [reflexivity|]. intros y Hy. apply H. right. exact Hy.
Qed.

(* in a list of days with strictly ascending dates, selecting by date picks one day *)
Lemma select_day {B} (g : day -> list B) k : forall ds x, StronglySorted Z.lt (map d_date ds) ->
  In x ds -> d_date x = k ->
  concat (map (fun y => if (d_date y =? k)%Z then g y else []) ds) = g x.
Proof.
  induction ds as [|y ds IH]; intros x Hs Hin Hk; [destruct Hin|].
  cbn [map] in Hs. inversion Hs as [|? ? Hs' Hall]; subst. rewrite Forall_forall in Hall. cbn [map concat].
  destruct Hin as [->|Hin].
  - rewrite Z.eqb_refl. rewrite concat_nil_all; [apply app_nil_r|].
    intros z Hz. assert (Hd : In (d_date z) (map d_date ds)) by (apply in_map; exact Hz). specialize (Hall _ Hd).
    replace (d_date z =? d_date x)%Z with false by lia. reflexivity.
  - assert (Hd : In (d_date x) (map d_date ds)) by (apply in_map; exact Hin). specialize (Hall _ Hd).
    replace (d_date y =? d_date x)%Z with false by lia. cbn [app]. apply IH; auto.
Qed.

Lemma filter_key_dd k x : filter (fun z => (tkey z =? k)%Z) (dd x) = if (d_date x =? k)%Z then dd x else [].
Proof.
  destruct (d_date x =? k)%Z eqn:E.
  - apply filter_all_true. intros z Hz. rewrite (dd_key x z Hz). exact E.
  - apply filter_all_false. intros z Hz. rewrite (dd_key x z Hz). exact E.
Qed.

Lemma pd_sel dl k : concat (map pd (sel dl k 0)) = filter (fun z => (tkey z =? k)%Z) (concat (map pd dl)).
Proof.
  unfold sel. induction dl as [|d dl IH]; [reflexivity|]. cbn [filter map concat]. rewrite filter_app, <- IH.
  destruct d; cbn [ddate dkind pd]; rewrite ?andb_false_r; cbn [filter app]; try reflexivity.
  unfold tkey. cbn [fst]. rewrite andb_true_r. destruct (date =? k)%Z; reflexivity.
Qed.

Lemma pd_price_directives k l : concat (map pd (map (price_directive k) l)) = map (tag k) l.
Proof. induction l as [|[[c p] t] l IH]; [reflexivity|]. cbn [map concat pd price_directive fst snd app]. rewrite IH. reflexivity. Qed.

(* the declarations carried by the days up to T are the journal's declarations dated up to T in
   the order ValuationSpec gives them *)
Theorem days_decls_journal dl T :
  concat (map dd (days_upto T (b_days (builder_of dl)))) = price_decls dl T.
Proof.
  rewrite price_decls_raw.
  destruct (builder_canonical dl) as (Hsorted & _ & Hdates & Hmatch). cbn zeta in *.
  set (days := b_days (builder_of dl)) in *.
  apply (sort_by_unique tlt tlt_irrefl tlt_trans tlt_cotrans).
  - apply days_decls_sorted.
    pose proof (sorted_split T days Hsorted) as E. rewrite E in Hsorted. rewrite map_app in Hsorted.
    exact (proj1 (ss_app_l _ _ _ Hsorted)).
  - intros a0. set (k := tkey a0).
    rewrite (filter_ext (eqv tlt a0) (fun z => (tkey z =? k)%Z)) by (intros z; apply teqv).
    rewrite (filter_ext (eqv tlt a0) (fun z => (tkey z =? k)%Z)) by (intros z; apply teqv).
    rewrite filter_concat_map.
    rewrite (map_ext _ (fun x => if (d_date x =? k)%Z then dd x else [])) by (intros x; apply filter_key_dd).
    (* right-hand side: the class of k in the raw list *)
    assert (ER : filter (fun z => (tkey z =? k)%Z) (filter (fun x => (tkey x <=? T)%Z) (concat (map pd dl)))
                 = if (k <=? T)%Z then concat (map pd (sel dl k 0)) else []).
    { rewrite pd_sel. destruct (k <=? T)%Z eqn:E.
      - apply filter_filter_impl. intros z Hz. lia.
      - apply filter_all_false. intros z Hz. apply filter_In in Hz. lia. }
    rewrite ER. clear ER.
    destruct (k <=? T)%Z eqn:ET.
    + destruct (in_dec Z.eq_dec k (map d_date days)) as [Hin|Hnin].
      * apply in_map_iff in Hin. destruct Hin as (x & Hxk & Hx).
        assert (Hxu : In x (days_upto T days)) by (unfold days_upto; apply filter_In; split; [exact Hx|lia]).
        assert (HsU : StronglySorted Z.lt (map d_date (days_upto T days))).
        { pose proof (sorted_split T days Hsorted) as E. rewrite E in Hsorted. rewrite map_app in Hsorted.
          exact (proj1 (ss_app_l _ _ _ Hsorted)). }
        rewrite (select_day dd k _ x HsU Hxu Hxk).
        destruct (Hmatch x Hx) as (Hp & _). rewrite Hxk in Hp. rewrite <- Hp, pd_price_directives.
        unfold dd. rewrite Hxk. reflexivity.
      * rewrite concat_nil_all.
        2: { intros x Hx. unfold days_upto in Hx. apply filter_In in Hx. destruct Hx as [Hx _].
             destruct (d_date x =? k)%Z eqn:E; [|reflexivity]. exfalso. apply Hnin. apply in_map_iff. exists x. split; [lia|exact Hx]. }
        rewrite sel_nil; [reflexivity|]. intros Hc. apply Hnin. apply Hdates. exact Hc.
    + apply concat_nil_all. intros x Hx. unfold days_upto in Hx. apply filter_In in Hx.
      replace (d_date x =? k)%Z with false by lia. reflexivity.
Qed.

(* ------------------------------------------------------------ Part C: prices *)

Lemma untag_tag k p : untag (tag k p) = p.
Proof. destruct p as [[c p] t]. reflexivity. Qed.

Lemma untag_dd x : map untag (dd x) = d_prices x.
Proof. unfold dd. rewrite map_map. rewrite (map_ext _ (fun p => p)) by (intros p; apply untag_tag). apply map_id. Qed.

Lemma days_history_journal dl T :
  concat (map d_prices (days_upto T (b_days (builder_of dl)))) = map untag (price_decls dl T).
Proof.
  rewrite <- days_decls_journal, concat_map, map_map. f_equal. apply map_ext. intros x. symmetry. apply untag_dd.
Qed.

(* the days --close touches carry no declarations *)
Lemma upd_day_id_prices (P : day -> bool) d : forall days,
  concat (map d_prices (filter P (upd_day days d (fun x => x)))) = concat (map d_prices (filter P days)).
Proof.
  assert (He : forall l, concat (map d_prices (filter P (empty_day d :: l))) = concat (map d_prices (filter P l))).
  { intros l. cbn [filter]. destruct (P (empty_day d)); reflexivity. }
  induction days as [|x days IH]; cbn [upd_day]; [apply (He [])|].
  destruct (d =? d_date x)%Z; [reflexivity|]. destruct (d <? d_date x)%Z; [apply He|].
  cbn [filter]. destruct (P x); cbn [map concat]; rewrite IH; reflexivity.
Qed.

Lemma built_days_history close dl part T :
  concat (map d_prices (days_upto T (built_days close dl part))) = map untag (price_decls dl T).
Proof.
  rewrite <- days_history_journal. unfold built_days. destruct close; [|reflexivity].
  unfold builder_touch. cbn [b_days]. generalize (b_days (builder_of dl)). generalize (start_dates part).
  induction l as [|d l IH]; intros days; cbn [fold_left]; [reflexivity|].
  rewrite IH. apply upd_day_id_prices.
Qed.

Lemma fold_prices_build (l : list tdecl) : forall acc,
  fold_left (fun acc x =>
    match acc with
    | None => None
    | Some ps => let '(_, c, p, t) := x in
                 match prices_insert ps c p t with InsOk ps' => Some ps' | _ => None end
    end) l acc
  = match acc with None => None | Some ps => build_from ps (map untag l) end.
Proof.
  induction l as [|[[[dt c] p] t] l IH]; intros acc; cbn [fold_left map build_from untag fst snd].
  - destruct acc; reflexivity.
  - rewrite IH. destruct acc as [ps|]; [|reflexivity]. destruct (prices_insert ps c p t); reflexivity.
Qed.

Lemma prices_upto_build dl T : prices_upto dl T = build (map untag (price_decls dl T)).
Proof. unfold prices_upto, build. apply fold_prices_build. Qed.

Lemma normalize_nil V : normalize [] V = Some [(V, one)].
Proof. reflexivity. Qed.

Lemma no_price_in_nil V c : c <> V -> np_price [(V, one)] c = None.
Proof. intros H. unfold np_price. cbn [sm_get]. rewrite (str_eqb_neq _ _ H). reflexivity. Qed.

Lemma firstn_prefix {A} (l1 l2 : list A) : firstn (length l1) (l1 ++ l2) = l1.
Proof. rewrite firstn_app, Nat.sub_diag, firstn_all. cbn [firstn]. apply app_nil_r. Qed.

(* the price of c in force on the last day dated up to T is the price ValuationSpec computes from
   the declarations dated up to T *)
Theorem price_on_days_journal close dl part V c T : c <> V ->
  price_on_days V c (built_days close dl part) T = price_q (ValuationSpec.price_on dl V c T).
Proof.
  intros Hcv. unfold price_on_days, ValuationSpec.price_on. rewrite (str_eqb_neq _ _ Hcv).
  rewrite prices_upto_build, <- (built_days_history close dl part T).
  set (days := built_days close dl part). set (U := days_upto T days).
  assert (Hnil : price_q (match build [] with
                          | Some ps => match normalize ps V with Some np => np_price np c | None => None end
                          | None => None end) = 0).
  { cbn [build build_from]. rewrite normalize_nil, (no_price_in_nil V c Hcv). reflexivity. }
  destruct U as [|x U'] eqn:EU.
  - cbn [length prices_after map concat]. symmetry. exact Hnil.
  - rewrite <- EU. assert (Hlen : length U = S (length U')) by (rewrite EU; reflexivity). rewrite Hlen.
    cbn [prices_after]. unfold PriceDaySpec.price_on, history_upto. rewrite <- Hlen.
    pose proof (sorted_split T days (built_days_sorted close dl part)) as Esplit. fold U in Esplit.
    rewrite Esplit at 1. rewrite firstn_prefix.
    unfold prices_of_history. destruct (concat (map d_prices U)) as [|h0 h] eqn:Eh.
    + symmetry. exact Hnil.
    + unfold price_value. destruct (build (h0 :: h)) as [ps|]; [|reflexivity].
      destruct (normalize ps V) as [np|]; reflexivity.
Qed.

(* ------------------------------------------------------------ Part D: the number of steps *)
Open Scope Z_scope.

Lemma cell_count_filter a c l : cell_count a c l = Z.of_nat (length (filter (cellb a c) l)).
Proof.
  induction l as [|p l IH]; [reflexivity|]. cbn [cell_count filter]. rewrite IH.
  destruct (cellb a c p); cbn [length]; lia.
Qed.

Lemma filter_map_length {A B} (f : B -> bool) (g : A -> B) l : length (filter f (map g l)) = length (filter (fun x => f (g x)) l).
Proof. induction l as [|x l IH]; [reflexivity|]. cbn [map filter]. destruct (f (g x)); cbn [length]; rewrite IH; reflexivity. Qed.

Lemma filter_filter_and {A} (f g : A -> bool) l : filter f (filter g l) = filter (fun x => g x && f x) l.
Proof.
  induction l as [|x l IH]; [reflexivity|]. cbn [filter]. destruct (g x); cbn [filter andb]; [|exact IH].
  destruct (f x); rewrite IH; reflexivity.
Qed.

Lemma dposts_filter (P : Z -> bool) : forall ds, days_dated ds ->
  dposts (filter (fun x => P (d_date x)) ds) = filter (fun dp => P (fst dp)) (dposts ds).
Proof.
  induction ds as [|d ds IH]; intros Hd; [reflexivity|]. inversion Hd as [|? ? Hx Hrest]; subst.
  unfold LedgerProofs.days_postings in *. cbn [filter map concat]. rewrite filter_app, <- (IH Hrest).
  destruct (P (d_date d)) eqn:E; cbn [map concat].
  - f_equal. symmetry. apply filter_all_true. intros dp Hin. rewrite (day_postings_date d dp Hx Hin). exact E.
  - rewrite (filter_all_false (fun dp => P (fst dp)) (dday d)); [reflexivity|].
    intros dp Hin. rewrite (day_postings_date d dp Hx Hin). exact E.
Qed.

Lemma count_on_days close dl part a c T :
  cell_count a c (vposts (days_upto T (built_days close dl part)))
  = Z.of_nat (length (filter (fun dp : Z * posting => (fst dp <=? T) && cellb a c (snd dp)) (flat_postings dl))).
Proof.
  rewrite cell_count_filter, <- snd_dposts, filter_map_length. unfold days_upto.
  rewrite (dposts_filter (fun d => d <=? T) _ (built_days_dated close dl part)), filter_filter_and.
  f_equal. apply Permutation_length. apply perm_filter'. apply built_days_perm.
Qed.

Lemma split_count {A} (key : A -> Z) (g : A -> bool) W col : W - 1 <= col -> forall l,
  length (filter (fun x => (key x <=? col) && g x) l)
  = Nat.add (length (filter (fun x => (key x <=? W - 1) && g x) l)) (length (filter (fun x => in_window W col (key x) && g x) l)).
Proof.
  intros Hle. induction l as [|x l IH]; [reflexivity|]. cbn [filter]. unfold in_window in *.
  destruct (g x); rewrite ?andb_false_r, ?andb_true_r; [|exact IH].
  destruct (key x <=? col) eqn:E1, (key x <=? W - 1) eqn:E2, (W <=? key x) eqn:E3; cbn [andb length]; try lia.
Qed.

Lemma days_upto_length T ds : length (days_upto T ds) = length (filter (fun d => d <=? T) (dates ds)).
Proof. unfold days_upto, dates. rewrite filter_map_length. reflexivity. Qed.

Lemma filter_insert_date (P : Z -> bool) x : forall l, (length (filter P (insert_date x l)) <= length (filter P l) + 1)%nat.
Proof.
  induction l as [|y l IH]; cbn [insert_date filter].
  - destruct (P x); cbn [length]; lia.
  - destruct (x =? y); [cbn [filter]; lia|]. destruct (x <? y); cbn [filter].
    + destruct (P x); cbn [length]; lia.
    + destruct (P y); cbn [length]; lia.
Qed.

Lemma built_days_dates_count (P : Z -> bool) close dl part :
  (length (filter P (dates (built_days close dl part)))
   <= length (filter P (WellformedSpec.dates dl)) + (if close then length (periods part) else 0))%nat.
Proof.
  destruct (builder_canonical dl) as (_ & Hd & _). cbn zeta in Hd.
  unfold built_days. destruct close.
  - unfold builder_touch. cbn [b_days]. unfold start_dates. rewrite <- (map_length p_start (periods part)).
    unfold dates at 1. rewrite <- Hd. generalize (b_days (builder_of dl)). generalize (map p_start (periods part)).
    induction l as [|d l IH]; intros days; cbn [fold_left length]; [lia|].
    specialize (IH (upd_day days d (fun x => x))).
    rewrite (upd_day_dates days d (fun x => x) (fun x => eq_refl)) in IH.
    pose proof (filter_insert_date P d (map d_date days)). lia.
  - unfold dates at 1. rewrite Hd. lia.
Qed.

Theorem day_steps_journal cfg dl part a c col :
  p_start (span part) - 1 <= col ->
  day_steps a c (built_days (bc_close cfg) dl part) (p_start (span part) - 1) col <= cell_steps cfg dl part a c col.
Proof.
  intros Hle. unfold day_steps, cell_steps, bookings_in, days_in. set (W := p_start (span part)) in *.
  rewrite !count_on_days, !days_upto_length.
  rewrite (split_count (fun dp : Z * posting => fst dp) (fun dp => cellb a c (snd dp)) W col Hle).
  pose proof (split_count (fun d : Z => d) (fun _ => true) W col Hle (dates (built_days (bc_close cfg) dl part))) as Hs.
  rewrite !(filter_ext (fun x => (x <=? col) && true) (fun d => d <=? col)) in Hs by (intros; apply andb_true_r).
  rewrite !(filter_ext (fun x => (x <=? W - 1) && true) (fun d => d <=? W - 1)) in Hs by (intros; apply andb_true_r).
  rewrite !(filter_ext (fun x => in_window W col x && true) (in_window W col)) in Hs by (intros; apply andb_true_r).
  pose proof (built_days_dates_count (in_window W col) (bc_close cfg) dl part) as Hc.
  destruct (bc_close cfg); lia.
Qed.
