(* C02, table level, part 4: the numbers of the Total (A+L), Total (E+I+E) and Delta lines
   against the ledger computation: the period amounts summed over all A/L accounts, over all
   other accounts, over all accounts. *)
From Coq Require Import ZArith QArith List Bool Lia Permutation.
From Knut Require Import Model.Str Model.Dec Model.Date Model.Account Model.Ledger Model.Price
     Model.Journal Model.Check Model.Pipeline Model.Table Model.Report Model.Cli
     Spec.WellformedSpec Spec.LedgerSpec Spec.LedgerSyntax Spec.BalanceTableSpec
     Proofs.DecValue Proofs.StrProofs Proofs.CheckLemmas Proofs.ReportSum Proofs.Conservation Proofs.LedgerProofs
     Proofs.CloseProofs Proofs.LayoutProofs Proofs.MarkToMarketMapped
     Proofs.BalanceTableLayout Proofs.BalanceTableTree Proofs.BalanceTableCells.
Import ListNotations.
Open Scope Q_scope.

Definition ev (sel : account -> bool) (c : commodity) (col : Z) (e : entry) : Q :=
  let '(col', a, c', v) := e in if (col' =? col)%Z && sel a && str_eqb c' c then dvalue v else 0.

Lemma period_amount_q es sel c col : dvalue (period_amount es sel c col) == qsum (ev sel c col) es.
Proof.
  unfold period_amount. rewrite dvalue_dsum, qsum_concat_map. apply qsum_ext.
  intros [[[col' a] c'] v] _. unfold ev.
  destruct ((col' =? col)%Z && sel a && str_eqb c' c); unfold qsum; cbn [fold_right]; ring.
Qed.

Lemma qsum_map {A B} (f : B -> Q) (g : A -> B) l : qsum f (map g l) == qsum (fun x => f (g x)) l.
Proof. unfold qsum. induction l as [|x l IH]; cbn [map fold_right]; [reflexivity|]. rewrite IH. reflexivity. Qed.

Lemma tsum_lines f k n : tsum f k n == qsum (fun l => esum f k (l_amts l)) (tree_lines n).
Proof.
  induction n as [s p hv a ch IH] using node_ind_size. rewrite tsum_unfold. cbn [tree_lines].
  unfold qsum at 1. cbn [fold_right]. fold (qsum (fun l => esum f k (l_amts l)) (flat_map tree_lines ch)).
  unfold l_amts at 1. cbn [snd]. apply Qplus_comp; [reflexivity|].
  unfold csum. induction IH as [|c ch Hc _ IHch]; cbn [fold_right flat_map]; [reflexivity|].
  rewrite qsum_app, Hc, IHch. reflexivity.
Qed.

(* the A/L root never receives an amount *)
Lemma al_root_empty cfg ds r part : balance_report cfg ds = COk (r, part) -> n_amts (r_al r) = [].
Proof.
  intros H. destruct (balance_report_query _ _ _ _ H) as (days & days' & Hq).
  refine (query_days_inv (balance_query cfg part) (fun r => n_amts (r_al r) = []) _ days new_report r days' eq_refl Hq).
  intros r0 d a c v H0. unfold report_insert. destruct (is_AL a) eqn:Ea; cbn [r_al]; [|exact H0].
  destruct a as [|h t]; [discriminate|]. destruct (r_al r0) as [s p hv am ch]. cbn [n_amts] in *. exact H0.
Qed.

Lemma prefixes_from_self : forall rest acc, rest <> [] -> In (acc ++ rest) (prefixes_from acc rest).
Proof.
  induction rest as [|s t IH]; intros acc Hne; [contradiction|]. cbn [prefixes_from].
  destruct t as [|s' t']; [left; reflexivity|]. right.
  replace (acc ++ s :: s' :: t') with ((acc ++ [s]) ++ s' :: t') by (rewrite <- app_assoc; reflexivity).
  apply IH. discriminate.
Qed.

Lemma nodup_app_inv {A} (a b : list A) : NoDup (a ++ b) -> NoDup a /\ NoDup b.
Proof.
  induction a as [|x a IH]; cbn [app]; intros H; [split; [constructor|exact H]|].
  inversion H as [|? ? Hx Hr]; subst. destruct (IH Hr) as [Ha Hb]. split; [|exact Hb].
  constructor; [|exact Ha]. intros Hin. apply Hx. apply in_or_app. left. exact Hin.
Qed.

Section Totals.
  Variables (cfg : balance_cfg) (ds : list sdirective) (r : report) (part : partition) (dl : list directive).
  Hypothesis Hv : bc_valuation cfg = None.
  Hypothesis Hrun : balance_report cfg ds = COk (r, part).
  Hypothesis Hp : parse_directives ds = MOk dl.
  Hypothesis Hsyn : postings_syntactic dl.

  Let es := ledger_entries cfg dl part.

  Lemma Hcells : forall row c col, rcell row (Some col, Some c) r == dvalue (period_amount es (acc_eqb row) c col).
  Proof.
    destruct (report_cells cfg ds r part Hv Hrun) as (dl' & Hp' & _ & H). rewrite Hp in Hp'. inversion Hp'; subst dl'.
    exact (H (fun _ => Hsyn)).
  Qed.

  Lemma Hpart : new_partition (clip (mkPeriod (bc_from cfg) (bc_to cfg)) (journal_period dl)) (bc_interval cfg) (bc_last cfg) = POk part.
  Proof.
    destruct (report_cells cfg ds r part Hv Hrun) as (dl' & Hp' & H & _). rewrite Hp in Hp'. inversion Hp'; subst dl'. exact H.
  Qed.

  Lemma Hrows : forall row, In row (rows r) <-> ledger_row cfg dl row.
  Proof.
    destruct (report_rows cfg ds r part Hv Hrun) as (dl' & Hp' & H). rewrite Hp in Hp'. inversion Hp'; subst dl'.
    exact (H (fun _ => Hsyn)).
  Qed.

  Lemma Hacc : forall x, In x (rows r) -> account_ok x = true.
  Proof. intros x Hx. apply (ledger_row_account_ok cfg dl x Hsyn). apply Hrows. exact Hx. Qed.

  Lemma entry_is_row col a c v : In (col, a, c, v) es -> In a (rows r) /\ account_ok a = true.
  Proof.
    intros He. pose proof (ledger_entry_account_ok cfg dl part col a c v Hsyn He) as Hok. split; [|exact Hok].
    apply Hrows. unfold ledger_row. rewrite Hpart. exists (col, a, c, v). split; [exact He|].
    apply (prefixes_from_self a []). intros ->. discriminate.
  Qed.

  (* summing the cells of a set of distinct rows P: every entry counts once iff its account is in P *)
  Lemma rows_sum (P : list account) c col :
    NoDup P -> (forall x, In x P -> account_ok x = true) ->
    qsum (fun p => dvalue (period_amount es (acc_eqb p) c col)) P ==
    qsum (fun e : entry => let '(col', a, c', v) := e in
            if (col' =? col)%Z && str_eqb c' c then qsum (fun p => if acc_eqb a p then dvalue v else 0) P else 0) es.
  Proof.
    intros Hnd Hok.
    rewrite (qsum_ext _ (fun p => qsum (fun e => ev (acc_eqb p) c col e) es)) by (intros p _; apply period_amount_q).
    rewrite qsum_swap. apply qsum_ext. intros [[[col' a] c'] v] _. unfold ev.
    destruct ((col' =? col)%Z) eqn:E1, (str_eqb c' c) eqn:E2; cbn [andb].
    - apply qsum_ext. intros p _. rewrite (acc_eqb_sym p a), andb_true_r. reflexivity.
    - rewrite qsum_zero; [reflexivity|]. intros p _. rewrite andb_false_r. reflexivity.
    - apply qsum_zero. intros; reflexivity.
    - apply qsum_zero. intros; reflexivity.
  Qed.

  Lemma pick (P : list account) a v :
    NoDup P -> (forall x, In x P -> account_ok x = true) -> account_ok a = true ->
    (In a P -> qsum (fun p => if acc_eqb a p then v else 0) P == v) /\
    (~ In a P -> qsum (fun p => if acc_eqb a p then v else 0) P == 0).
  Proof.
    intros Hnd Hok Ha. split; [apply sum_pick_in; assumption|].
    intros Hn. apply qsum_zero. intros p Hp0. destruct (acc_eqb a p) eqn:E; [|reflexivity]. exfalso. apply Hn.
    apply acc_eqb_name in E. apply acc_name_inj in E; [subst; exact Hp0|exact Ha|exact (Hok p Hp0)].
  Qed.

  Let Hok := balance_report_ok _ _ _ _ Hrun.

  Lemma al_paths_nodup : NoDup (cpaths (n_children (r_al r))) /\ NoDup (cpaths (n_children (r_eie r))).
  Proof.
    pose proof (rows_nodup r Hok) as Hnd. unfold rows in Hnd. exact (nodup_app_inv _ _ Hnd).
  Qed.

  (* the sum of everything stored in the children of a root = the ledger amount over the accounts of its kind *)
  Lemma children_total (al : bool) c col :
    qsum (fun l => esum idk (Some col, Some c) (l_amts l))
         (flat_map tree_lines (n_children (if al then r_al r else r_eie r)))
    == dvalue (period_amount es (fun a => if al then is_AL a else negb (is_AL a)) c col).
  Proof.
    set (root := if al then r_al r else r_eie r).
    assert (Hsub : forall x, In x (cpaths (n_children root)) -> In x (rows r)).
    { intros x Hx. unfold rows. apply in_or_app. destruct al; [left|right]; exact Hx. }
    rewrite (qsum_ext _ (fun l => dvalue (period_amount es (acc_eqb (l_path l)) c col))).
    2: { intros [[s p] a] Hl. unfold l_amts, l_path. cbn [fst snd]. rewrite <- Hcells. symmetry.
         apply (rcell_node r s p a _ Hok Hacc). apply in_or_app. destruct al; [left|right]; exact Hl. }
    rewrite <- (qsum_map (fun p => dvalue (period_amount es (acc_eqb p) c col)) l_path), clines_paths.
    assert (Hnd : NoDup (cpaths (n_children root))) by (destruct al; apply al_paths_nodup).
    assert (HokP : forall x, In x (cpaths (n_children root)) -> account_ok x = true) by (intros x Hx; apply Hacc, Hsub, Hx).
    rewrite (rows_sum _ c col Hnd HokP), period_amount_q.
    apply qsum_ext. intros [[[col' a] c'] v] He. unfold ev.
    destruct (entry_is_row _ _ _ _ He) as [Hrow Hoka].
    destruct (pick (cpaths (n_children root)) a (dvalue v) Hnd HokP Hoka) as [Pin Pout].
    destruct Hok as (_ & _ & _ & T1 & T2 & _).
    destruct ((col' =? col)%Z), (str_eqb c' c); cbn [andb]; rewrite ?andb_false_r; try reflexivity.
    rewrite andb_true_r. unfold rows in Hrow. apply in_app_or in Hrow.
    destruct al; cbn [root] in *.
    - destruct (is_AL a) eqn:Ea.
      + apply Pin. destruct Hrow as [H|H]; [exact H|]. rewrite (T2 a H) in Ea. discriminate.
      + apply Pout. intros H. rewrite (T1 a H) in Ea. discriminate.
    - destruct (is_AL a) eqn:Ea; cbn [negb].
      + apply Pout. intros H. rewrite (T2 a H) in Ea. discriminate.
      + apply Pin. destruct Hrow as [H|H]; [|exact H]. rewrite (T1 a H) in Ea. discriminate.
  Qed.

  (* nothing of a period column is stored in the roots *)
  Lemma eie_root_zero c col : esum idk (Some col, Some c) (n_amts (r_eie r)) == 0.
  Proof.
    pose proof (Hcells [] c col) as H.
    assert (Hz : dvalue (period_amount es (acc_eqb []) c col) == 0).
    { rewrite period_amount_q. apply qsum_zero. intros [[[col' a] c'] v] He. unfold ev.
      destruct (entry_is_row _ _ _ _ He) as [_ Hoka]. rewrite (acc_eqb_nil_ok a Hoka), andb_false_r. reflexivity. }
    rewrite Hz in H. pose proof (al_root_empty _ _ _ _ Hrun) as Hal.
    destruct Hok as ((W1 & W2 & P1 & P2) & _).
    unfold rcell in H. pose proof Hacc as Hacc'. unfold rows in Hacc'.
    destruct (r_al r) as [s1 p1 hv1 a1 ch1], (r_eie r) as [s2 p2 hv2 a2 ch2]. cbn [n_path n_amts n_children] in *. subst p1 p2 a1.
    rewrite !LedgerProofs.psum_unfold, !pcsum_lines in H. rewrite acc_eqb_refl in H. cbn [esum] in H.
    rewrite (qsum_zero (line_term [] (Some col, Some c)) (flat_map tree_lines ch1)) in H.
    2: { intros l Hl. unfold line_term. rewrite acc_eqb_sym, acc_eqb_nil_ok; [reflexivity|].
         apply Hacc'. apply in_or_app. left. rewrite <- clines_paths. apply in_map. exact Hl. }
    rewrite (qsum_zero (line_term [] (Some col, Some c)) (flat_map tree_lines ch2)) in H.
    2: { intros l Hl. unfold line_term. rewrite acc_eqb_sym, acc_eqb_nil_ok; [reflexivity|].
         apply Hacc'. apply in_or_app. right. rewrite <- clines_paths. apply in_map. exact Hl. }
    rewrite <- H. ring.
  Qed.

  Lemma tree_total (al : bool) c col :
    tsum idk (Some col, Some c) (if al then r_al r else r_eie r)
    == dvalue (period_amount es (fun a => if al then is_AL a else negb (is_AL a)) c col).
  Proof.
    rewrite tsum_lines, <- (children_total al c col).
    pose proof (al_root_empty _ _ _ _ Hrun) as Hal. pose proof (eie_root_zero c col) as He.
    destruct al.
    - destruct (r_al r) as [s1 p1 hv1 a1 ch1]. cbn [n_amts n_children tree_lines] in *. subst a1.
      unfold qsum at 1. cbn [fold_right]. unfold l_amts at 1. cbn [snd esum]. unfold qsum. ring.
    - destruct (r_eie r) as [s2 p2 hv2 a2 ch2]. cbn [n_amts n_children tree_lines] in *.
      unfold qsum at 1. cbn [fold_right]. unfold l_amts at 1. cbn [snd]. rewrite He. unfold qsum. ring.
  Qed.

  Let rc := balance_render_cfg cfg.

  Lemma totals_value (al : bool) c col :
    dvalue (ra_get0 (node_totals (total_key rc) (if al then sorted_al rc r else sorted_eie rc r) []) (Some col, Some c))
    == dvalue (period_amount es (fun a => if al then is_AL a else negb (is_AL a)) c col).
  Proof.
    rewrite ra_get0_esum by (apply node_totals_unique; constructor).
    rewrite esum_node_totals. cbn [esum]. rewrite Qplus_0_l.
    rewrite <- (tree_total al c col).
    assert (Hext : forall n, tsum (fun k => idk (total_key rc k)) (Some col, Some c) n == tsum idk (Some col, Some c) n).
    { intros n. rewrite !tsum_lines. apply qsum_ext. intros l _. unfold total_key, rc, balance_render_cfg. cbn [rc_valuation]. rewrite Hv.
      cbn [negb]. rewrite (esum_ext (fun k => idk (collapse_key true k)) idk); [reflexivity|]. intros x. unfold idk. apply collapse_key_true. }
    rewrite Hext. destruct al; unfold sorted_al, sorted_eie; apply tsum_node_sort.
  Qed.

  (* the numbers of the three total lines *)
  Theorem total_lines c :
    let dates := end_dates part in
    let total_al := node_totals (total_key rc) (sorted_al rc r) [] in
    let total_eie := node_totals (total_key rc) (sorted_eie rc r) [] in
    Forall2 num_is (row_numbers (bc_diff cfg) false total_al (Some c) dates dec_nil)
                   (cell_amounts (bc_diff cfg) false es is_AL c dates dec_nil) /\
    Forall2 num_is (row_numbers (bc_diff cfg) true total_eie (Some c) dates dec_nil)
                   (cell_amounts (bc_diff cfg) true es (fun a => negb (is_AL a)) c dates dec_nil) /\
    Forall2 num_is (row_numbers (bc_diff cfg) false (ra_plus total_al total_eie) (Some c) dates dec_nil)
                   (cell_amounts (bc_diff cfg) false es (fun _ => true) c dates dec_nil).
  Proof.
    cbv zeta. split; [|split].
    - apply row_numbers_amounts; [|reflexivity]. intros col. exact (totals_value true c col).
    - apply row_numbers_amounts; [|reflexivity]. intros col. exact (totals_value false c col).
    - apply row_numbers_amounts; [|reflexivity]. intros col.
      rewrite ra_get0_esum by (apply ra_plus_unique, node_totals_unique; constructor).
      rewrite esum_plus, <- !ra_get0_esum by (apply node_totals_unique; constructor).
      rewrite (totals_value true c col), (totals_value false c col), !period_amount_q, <- qsum_plus.
      apply qsum_ext. intros [[[col' a] c'] v] _. unfold ev.
      destruct ((col' =? col)%Z), (str_eqb c' c), (is_AL a); cbn [andb negb]; ring.
  Qed.
End Totals.
