(* journal.Builder (Model/Journal.v [builder_of]) groups and orders as the specification says:
   the days are strictly ascending by date, the dates are exactly the dates of the directives,
   and each day's five lists are the sublists of the input of that date and kind, in input
   order.  Hence the days, flattened, are the canonical sequence of Spec/WellformedSpec.v. *)
From Coq Require Import ZArith List Bool Lia Sorting.Sorted.
From Knut Require Import Model.Str Model.Dec Model.Account Model.Ledger Model.Price Model.Journal
     Spec.WellformedSpec.
Import ListNotations.
Open Scope bool_scope.
Open Scope Z_scope.

(* ------------------------------------------------------------------ dates *)

Lemma insert_date_in x y l : In x (insert_date y l) <-> x = y \/ In x l.
Proof.
  induction l as [|z l IH]; cbn.
  - split; intros [H|H]; auto.
  - destruct (y =? z) eqn:E1.
    + apply Z.eqb_eq in E1. subst z. cbn. split; [tauto|]. intros [H|H]; [left; symmetry; exact H|exact H].
    + destruct (y <? z) eqn:E2; cbn.
      * split; [intros [H|H]; [left; symmetry; exact H|right; exact H]|intros [H|H]; [left; symmetry; exact H|right; exact H]].
      * rewrite IH. tauto.
Qed.

Lemma insert_date_sorted x l : StronglySorted Z.lt l -> StronglySorted Z.lt (insert_date x l).
Proof.
  induction l as [|z l IH]; cbn; intros Hs.
  - constructor; constructor.
  - inversion Hs as [|y l' Hs' Hall]; subst.
    destruct (x =? z) eqn:E1; [exact Hs|].
    destruct (x <? z) eqn:E2.
    + constructor; [exact Hs|]. constructor; [lia|].
      rewrite Forall_forall in *. intros y Hy. specialize (Hall y Hy). lia.
    + constructor; [apply IH; exact Hs'|].
      rewrite Forall_forall in *. intros y Hy. apply insert_date_in in Hy. destruct Hy as [Hy|Hy].
      * subst y. apply Z.eqb_neq in E1. lia.
      * apply Hall. exact Hy.
Qed.

Lemma dates_snoc ds d : dates (ds ++ [d]) = insert_date (ddate d) (dates ds).
Proof. unfold dates. rewrite fold_left_app. reflexivity. Qed.

Lemma dates_sorted ds : StronglySorted Z.lt (dates ds).
Proof.
  induction ds as [|d ds IH] using rev_ind; [constructor|].
  rewrite dates_snoc. apply insert_date_sorted. exact IH.
Qed.

Lemma dates_in ds x : In x (dates ds) <-> In x (map ddate ds).
Proof.
  induction ds as [|d ds IH] using rev_ind; [reflexivity|].
  rewrite dates_snoc, insert_date_in, map_app, in_app_iff, IH. cbn. intuition.
Qed.

(* a strictly ascending list is determined by its members *)
Lemma sorted_unique (l1 l2 : list Z) :
  StronglySorted Z.lt l1 -> StronglySorted Z.lt l2 -> (forall x, In x l1 <-> In x l2) -> l1 = l2.
Proof.
  revert l2. induction l1 as [|a l1 IH]; intros [|b l2] S1 S2 H.
  - reflexivity.
  - exfalso. apply (H b). left. reflexivity.
  - exfalso. apply (H a). left. reflexivity.
  - inversion S1 as [|? ? S1' A1]; inversion S2 as [|? ? S2' A2]; subst.
    rewrite Forall_forall in A1, A2.
    assert (a = b).
    { destruct (proj1 (H a) (or_introl eq_refl)) as [E|E]; [symmetry; exact E|].
      destruct (proj2 (H b) (or_introl eq_refl)) as [E'|E']; [exact E'|].
      specialize (A1 _ E'). specialize (A2 _ E). lia. }
    subst b. f_equal. apply IH; try assumption.
    intros x. split; intros Hx.
    + destruct (proj1 (H x) (or_intror Hx)) as [E|E]; [|exact E]. subst x. specialize (A1 _ Hx). lia.
    + destruct (proj2 (H x) (or_intror Hx)) as [E|E]; [|exact E]. subst x. specialize (A2 _ Hx). lia.
Qed.

(* ------------------------------------------------------------------ selections *)

Lemma sel_snoc ds d dt k :
  sel (ds ++ [d]) dt k = sel ds dt k ++ (if (ddate d =? dt) && (dkind d =? k) then [d] else []).
Proof. unfold sel. rewrite filter_app. reflexivity. Qed.

Lemma sel_nil ds dt k : ~ In dt (map ddate ds) -> sel ds dt k = [].
Proof.
  intros H. unfold sel. induction ds as [|d ds IH]; cbn; [reflexivity|].
  cbn in H. destruct (ddate d =? dt) eqn:E.
  - apply Z.eqb_eq in E. exfalso. apply H. left. exact E.
  - cbn. apply IH. tauto.
Qed.

Lemma sel_in ds dt k d : In d (sel ds dt k) -> In d ds /\ ddate d = dt /\ dkind d = k.
Proof.
  unfold sel. rewrite filter_In. intros [H1 H2]. apply andb_true_iff in H2.
  destruct H2 as [H2 H3]. apply Z.eqb_eq in H2. apply Z.eqb_eq in H3. tauto.
Qed.

(* ------------------------------------------------------------------ days *)

Definition price_directive (dt : Z) (p : commodity * dec * commodity) : directive :=
  DPrice dt (fst (fst p)) (snd (fst p)) (snd p).

(* the day's five lists are the input's directives of that date, kind by kind, in input order *)
Definition day_matches (ds : list directive) (x : day) : Prop :=
  map (price_directive (d_date x)) (d_prices x) = sel ds (d_date x) 0 /\
  map (DOpen (d_date x)) (d_opens x) = sel ds (d_date x) 1 /\
  map DTxn (d_txns x) = sel ds (d_date x) 2 /\
  map (DAssert (d_date x)) (d_asserts x) = sel ds (d_date x) 3 /\
  map (DClose (d_date x)) (d_closes x) = sel ds (d_date x) 4.

Definition day_directives (x : day) : list directive :=
  map (price_directive (d_date x)) (d_prices x) ++ map (DOpen (d_date x)) (d_opens x) ++
  map DTxn (d_txns x) ++ map (DAssert (d_date x)) (d_asserts x) ++ map (DClose (d_date x)) (d_closes x).

(* what Builder.Add does to the day of the directive *)
Definition add_to_day (d : directive) (x : day) : day :=
  match d with
  | DPrice _ c p t => mkDay (d_date x) (d_prices x ++ [(c, p, t)]) (d_opens x) (d_txns x) (d_asserts x) (d_closes x) (d_normalized x)
  | DOpen _ a => mkDay (d_date x) (d_prices x) (d_opens x ++ [a]) (d_txns x) (d_asserts x) (d_closes x) (d_normalized x)
  | DTxn t => add_txn_day t x
  | DAssert _ bs => mkDay (d_date x) (d_prices x) (d_opens x) (d_txns x) (d_asserts x ++ [bs]) (d_closes x) (d_normalized x)
  | DClose _ a => mkDay (d_date x) (d_prices x) (d_opens x) (d_txns x) (d_asserts x) (d_closes x ++ [a]) (d_normalized x)
  end.

Lemma builder_add_days b d : b_days (builder_add b d) = upd_day (b_days b) (ddate d) (add_to_day d).
Proof. destruct d; reflexivity. Qed.

Lemma add_to_day_date d x : d_date (add_to_day d x) = d_date x.
Proof. destruct d; reflexivity. Qed.

Lemma upd_day_dates days dt f :
  (forall x, d_date (f x) = d_date x) ->
  map d_date (upd_day days dt f) = insert_date dt (map d_date days).
Proof.
  intros Hf. induction days as [|x days IH]; cbn.
  - rewrite Hf. reflexivity.
  - destruct (dt =? d_date x) eqn:E1; cbn.
    + rewrite Hf. reflexivity.
    + destruct (dt <? d_date x) eqn:E2; cbn.
      * rewrite Hf. reflexivity.
      * rewrite IH. reflexivity.
Qed.

(* proof rule for a property of all days after Builder.Day(dt) has been modified by f *)
Lemma upd_day_rule (P Q : day -> Prop) days dt f :
  StronglySorted Z.lt (map d_date days) ->
  (forall y, In y days -> P y) ->
  (forall y, d_date y <> dt -> P y -> Q y) ->
  (forall x, d_date x = dt -> P x -> Q (f x)) ->
  (~ In dt (map d_date days) -> Q (f (empty_day dt))) ->
  forall y, In y (upd_day days dt f) -> Q y.
Proof.
  intros Hs HP Hother Hsame Hnew.
  induction days as [|x days IH]; cbn.
  - intros y [H|[]]. subst y. apply Hnew. intros [].
  - cbn in Hs. inversion Hs as [|? ? Hs' Hall]; subst. rewrite Forall_forall in Hall.
    destruct (dt =? d_date x) eqn:E1.
    + apply Z.eqb_eq in E1. intros y [H|H].
      * subst y. apply Hsame; [symmetry; exact E1|apply HP; left; reflexivity].
      * apply Hother; [|apply HP; right; exact H].
        specialize (Hall (d_date y) (in_map d_date _ _ H)). lia.
    + apply Z.eqb_neq in E1. destruct (dt <? d_date x) eqn:E2.
      * apply Z.ltb_lt in E2. intros y [H|H].
        -- subst y. apply Hnew. cbn. intros [H|H]; [lia|]. specialize (Hall _ H). lia.
        -- apply Hother; [|apply HP; exact H].
           destruct H as [H|H]; [subst y; lia|]. specialize (Hall (d_date y) (in_map d_date _ _ H)). lia.
      * intros y [H|H].
        -- subst y. apply Hother; [lia|apply HP; left; reflexivity].
        -- apply IH; try assumption.
           ++ intros z Hz. apply HP. right. exact Hz.
           ++ intros Hn. apply Hnew. cbn. intros [H1|H1]; [lia|contradiction].
Qed.

Lemma day_matches_other ds d y : d_date y <> ddate d -> day_matches ds y -> day_matches (ds ++ [d]) y.
Proof.
  intros Hne [H0 [H1 [H2 [H3 H4]]]]. unfold day_matches. rewrite !sel_snoc.
  replace (ddate d =? d_date y) with false by (symmetry; apply Z.eqb_neq; congruence).
  cbn [andb]. rewrite !app_nil_r. tauto.
Qed.

Lemma day_matches_same ds d x : d_date x = ddate d -> day_matches ds x -> day_matches (ds ++ [d]) (add_to_day d x).
Proof.
  intros He [H0 [H1 [H2 [H3 H4]]]]. unfold day_matches. rewrite add_to_day_date. rewrite !sel_snoc.
  rewrite <- He. rewrite Z.eqb_refl. cbn [andb].
  destruct d as [dt c p t|dt a|dt a|dt bs|t]; cbn [ddate] in He; cbn [dkind add_to_day add_txn_day d_prices d_opens d_txns d_asserts d_closes d_date];
    rewrite ?map_app; cbn [map Z.eqb Pos.eqb app]; rewrite ?app_nil_r;
    rewrite ?H0, ?H1, ?H2, ?H3, ?H4; repeat split; try reflexivity.
  - unfold price_directive. cbn [fst snd]. rewrite He. reflexivity.
  - rewrite He. reflexivity.
  - rewrite He. reflexivity.
  - rewrite He. reflexivity.
Qed.

Lemma day_matches_empty ds dt : ~ In dt (map ddate ds) -> day_matches ds (empty_day dt).
Proof.
  intros H. unfold day_matches, empty_day. cbn [d_date d_prices d_opens d_txns d_asserts d_closes map].
  rewrite !sel_nil by exact H. tauto.
Qed.

Lemma builder_of_snoc ds d : builder_of (ds ++ [d]) = builder_add (builder_of ds) d.
Proof. unfold builder_of. rewrite fold_left_app. reflexivity. Qed.

Theorem builder_canonical ds :
  let days := b_days (builder_of ds) in
  StronglySorted Z.lt (map d_date days) /\
  map d_date days = dates ds /\
  (forall dt, In dt (map d_date days) <-> In dt (map ddate ds)) /\
  (forall x, In x days -> day_matches ds x).
Proof.
  cbn zeta.
  assert (H : map d_date (b_days (builder_of ds)) = dates ds /\
              forall x, In x (b_days (builder_of ds)) -> day_matches ds x).
  { induction ds as [|d ds IH] using rev_ind.
    - split; [reflexivity|intros x []].
    - destruct IH as [IH1 IH2].
      rewrite builder_of_snoc, builder_add_days. split.
      + rewrite upd_day_dates by apply add_to_day_date. rewrite IH1, dates_snoc. reflexivity.
      + apply (upd_day_rule (day_matches ds) (day_matches (ds ++ [d]))).
        * rewrite IH1. apply dates_sorted.
        * exact IH2.
        * intros y Hy. apply day_matches_other. exact Hy.
        * intros x Hx. apply day_matches_same. exact Hx.
        * intros Hn. apply day_matches_same; [reflexivity|].
          apply day_matches_empty. rewrite IH1 in Hn. rewrite <- dates_in. exact Hn. }
  destruct H as [H1 H2]. split; [rewrite H1; apply dates_sorted|].
  split; [exact H1|]. split; [|exact H2].
  intros dt. rewrite H1. apply dates_in.
Qed.

(* the days, flattened, are the canonical sequence *)
Lemma day_directives_of_day ds x : day_matches ds x -> day_directives x = of_day ds (d_date x).
Proof.
  intros [H0 [H1 [H2 [H3 H4]]]]. unfold day_directives, of_day.
  rewrite H0, H1, H2, H3, H4. reflexivity.
Qed.

Lemma flat_days_of_day ds days :
  (forall x, In x days -> day_matches ds x) ->
  flat_map day_directives days = flat_map (of_day ds) (map d_date days).
Proof.
  induction days as [|x days IH]; intros Hm; [reflexivity|].
  cbn [flat_map map]. rewrite (day_directives_of_day ds x) by (apply Hm; left; reflexivity).
  f_equal. apply IH. intros y Hy. apply Hm. right. exact Hy.
Qed.

Lemma builder_flat_canonical ds : flat_map day_directives (b_days (builder_of ds)) = canonical ds.
Proof.
  destruct (builder_canonical ds) as [_ [Hd [_ Hm]]]. cbn zeta in *.
  unfold canonical. rewrite <- Hd. apply flat_days_of_day. exact Hm.
Qed.

Lemma canonical_incl ds d : In d (canonical ds) -> In d ds.
Proof.
  unfold canonical. rewrite in_flat_map. intros [dt [_ H]]. unfold of_day in H.
  repeat (apply in_app_or in H; destruct H as [H|H]); apply sel_in in H; tauto.
Qed.

(* [dates] is the strictly ascending list of the dates that occur, and the only one *)
Lemma dates_spec ds :
  StronglySorted Z.lt (dates ds) /\ (forall x, In x (dates ds) <-> In x (map ddate ds)) /\
  (forall l, StronglySorted Z.lt l -> (forall x, In x l <-> In x (map ddate ds)) -> l = dates ds).
Proof.
  split; [apply dates_sorted|]. split; [apply dates_in|].
  intros l Hs Hl. apply sorted_unique; [exact Hs|apply dates_sorted|].
  intros x. rewrite Hl, dates_in. reflexivity.
Qed.
