(* C03: the expectation of the runtime check is defined whenever the run succeeds.
   ValuationSpec.market_value dl V a T is None only if a commodity the account holds with a
   non-zero quantity on day T has no price (in V) from the declarations dated up to T.  A
   successful run of ComputePrices and Valuate over the journal's days excludes that for every
   asset/liability account and EVERY date T (not only the period ends): the prefix of the run over
   the days dated up to T is itself a successful run, and at the end of a successful run every
   non-zero asset/liability position has a price (Proofs/MarkToMarket.v held_has_price: a position
   that is open at the start of a day is revalued, which needs the day's price; a booking of a
   non-zero quantity needs the price of its day).

   Part A  the option-level link between the days' prices and ValuationSpec.price_on
   Part B  a held commodity has a price on every date
   Part C  market_value, mtm_expected, mtm_row are defined
   Part D  the accounts the runtime check visits (ValuationSpec.al_accounts) *)
From Coq Require Import ZArith QArith Qabs List Bool Lia Permutation Sorting.Sorted.
From Knut Require Import Model.Str Model.Dec Model.Date Model.Account Model.Ledger Model.Price
     Model.Journal Model.Check Model.Pipeline Model.Table Model.Report Model.Cli
     Spec.DateSpec Spec.WellformedSpec Spec.LedgerSpec Spec.LedgerSyntax Spec.MarkToMarketSpec
     Spec.PriceSpec Spec.PriceDaySpec Spec.ValuationSpec Spec.MarkToMarketReportSpec
     Proofs.DecProofs Proofs.DecValue Proofs.CheckLemmas Proofs.CheckProofs Proofs.PairProofs
     Proofs.DateProofs Proofs.BuilderProofs Proofs.StableSort Proofs.BeancountProofs
     Proofs.LedgerProofs Proofs.CloseProofs Proofs.PriceDayProofs Proofs.ValuationProofs
     Proofs.MarkToMarket Proofs.MarkToMarketReport Proofs.MarkToMarketWindow Proofs.MarkToMarketJournal
     Proofs.MarkToMarketRow Proofs.MarkToMarketFinal.
Import ListNotations.
Open Scope Q_scope.

(* ------------------------------------------------------------ Part A: prices, as options *)

(* price_on_days_journal (Proofs/MarkToMarketJournal.v) without the rational reading: the price of
   c in force after the days dated up to T IS ValuationSpec.price_on, None included *)
Theorem price_after_days_journal close dl part V c T : c <> V ->
  np_price_opt (prices_after V (built_days close dl part) (length (days_upto T (built_days close dl part)))) c
  = ValuationSpec.price_on dl V c T.
Proof.
  intros Hcv. unfold ValuationSpec.price_on. rewrite (str_eqb_neq _ _ Hcv).
  rewrite prices_upto_build, <- (built_days_history close dl part T).
  set (days := built_days close dl part). set (U := days_upto T days).
  assert (Hnil : match build [] with
                 | Some ps => match normalize ps V with Some np => np_price np c | None => None end
                 | None => None end = None).
  { cbn [build build_from]. rewrite normalize_nil. exact (no_price_in_nil V c Hcv). }
  destruct U as [|x U'] eqn:EU.
  - cbn [length prices_after map concat np_price_opt]. symmetry. exact Hnil.
  - rewrite <- EU. assert (Hlen : length U = S (length U')) by (rewrite EU; reflexivity). rewrite Hlen.
    cbn [prices_after]. unfold PriceDaySpec.price_on, history_upto. rewrite <- Hlen.
    pose proof (sorted_split T days (built_days_sorted close dl part)) as Esplit. fold U in Esplit.
    rewrite Esplit at 1. rewrite firstn_prefix.
    unfold prices_of_history. destruct (concat (map d_prices U)) as [|h0 h] eqn:Eh.
    + cbn [np_price_opt]. symmetry. exact Hnil.
    + destruct (build (h0 :: h)) as [ps|]; [|reflexivity].
      destruct (normalize ps V) as [np|]; reflexivity.
Qed.

(* ------------------------------------------------------------ Part B: a held commodity has a price *)

(* on the days: the two stages succeed on the whole list, hence on the days dated up to T *)
Theorem held_price_on_days V a c days0 T sP dsP sV dsV :
  account_ok a = true -> is_AL a = true -> c <> V ->
  StronglySorted Z.lt (dates days0) -> Forall posting_in_ok (vposts days0) ->
  process_days (compute_prices_proc V) (mkCp [] None) days0 = ROk (sP, dsP) ->
  process_days (valuate_proc V) val_init dsP = ROk (sV, dsV) ->
  ~ qty_on_days a c days0 T == 0 ->
  exists pr, np_price_opt (prices_after V days0 (length (days_upto T days0))) c = Some pr.
Proof.
  intros Ha HAL Hcv Hsorted Hin HP HV Hq. pose proof (sorted_split T days0 Hsorted) as Esplit.
  set (U := days_upto T days0) in *. set (R := days_after T days0) in *.
  pose proof HP as HP0. rewrite Esplit in HP, Hin.
  apply in_ok_app in Hin. destruct Hin as [HinU _].
  destruct (process_days_app _ _ _ _ _ _ HP) as (pu & PU & PR & EPU & EPR & EdsP).
  rewrite EdsP in HV.
  destruct (process_days_app _ _ _ _ _ _ HV) as (vu & VU & VR & EVU & _ & _).
  destruct (cp_days_shape _ _ _ _ _ EPU) as (_ & SU & _).
  assert (HinPU : Forall posting_in_ok (vposts PU)) by (rewrite (vposts_of_dposts _ _ SU); exact HinU).
  assert (HqPU : ~ cell_qty a c (vposts PU) == 0).
  { rewrite (vposts_of_dposts _ _ SU). exact Hq. }
  destruct (held_has_price V a c PU vu VU Ha HAL Hcv HinPU EVU HqPU) as [pr Hpr].
  exists pr. rewrite <- Hpr. f_equal.
  assert (LU : length PU = length U) by (eapply process_days_length; exact EPU).
  rewrite <- LU. symmetry. exact (prefix_prices V days0 sP dsP PU PR HP0 EdsP).
Qed.

(* what the Valuate stage of a valued balance command guarantees, on the directives: whenever the
   bookings of an asset/liability account a in a commodity c other than V, dated up to T, do not
   add up to zero, the declarations dated up to T give c a price in V *)
Theorem held_price_journal cfg V l dl part dsP dsV a c T :
  parse_directives l = MOk dl -> postings_syntactic dl ->
  valued_run cfg V dl part dsP dsV ->
  account_ok a = true -> is_AL a = true -> c <> V ->
  is_zero (qty_upto (flat_postings dl) a c T) = false ->
  exists pr, ValuationSpec.price_on dl V c T = Some pr.
Proof.
  intros Ep Hsyn (sP & sV & EP & EV) Ha HAL Hcv Hz.
  rewrite <- (price_after_days_journal (bc_close cfg) dl part V c T Hcv).
  apply (held_price_on_days V a c _ T sP dsP sV dsV Ha HAL Hcv
           (built_days_sorted _ _ _) (built_days_in_ok' _ l dl part Ep Hsyn) EP EV).
  rewrite qty_on_days_journal. intros Hq. apply is_zero_value in Hq. rewrite Hq in Hz. discriminate.
Qed.

(* ------------------------------------------------------------ Part C: the expectation is defined *)

Lemma mv_fold_defined dl V a T : forall coms s,
  (forall c, In c coms -> is_zero (qty_upto (flat_postings dl) a c T) = false ->
             exists pr, ValuationSpec.price_on dl V c T = Some pr) ->
  exists x, fold_left (mv_step dl V a T) coms (Some s) = Some x.
Proof.
  induction coms as [|c coms IH]; intros s H; cbn [fold_left]; [exists s; reflexivity|].
  unfold mv_step at 2. destruct (is_zero (qty_upto (flat_postings dl) a c T)) eqn:Ez.
  - apply IH. intros c' Hc'. apply H. right. exact Hc'.
  - destruct (H c (or_introl eq_refl) Ez) as [pr ->].
    apply IH. intros c' Hc'. apply H. right. exact Hc'.
Qed.

Lemma price_on_V dl V T : ValuationSpec.price_on dl V V T = Some one.
Proof. unfold ValuationSpec.price_on. rewrite str_eqb_refl. reflexivity. Qed.

Theorem market_value_defined cfg V l dl part dsP dsV a T :
  parse_directives l = MOk dl -> postings_syntactic dl ->
  valued_run cfg V dl part dsP dsV ->
  account_ok a = true -> is_AL a = true ->
  exists x, market_value dl V a T = Some x.
Proof.
  intros Ep Hsyn Hrun Ha HAL. unfold market_value.
  change (exists x, fold_left (mv_step dl V a T) (held_commodities (flat_postings dl) a) (Some dec_nil) = Some x).
  apply mv_fold_defined. intros c _ Hz.
  destruct (str_eqb c V) eqn:Ecv.
  - apply str_eqb_eq in Ecv. subst c. exists one. apply price_on_V.
  - apply (held_price_journal cfg V l dl part dsP dsV a c T Ep Hsyn Hrun Ha HAL); [|exact Hz].
    intros ->. rewrite str_eqb_refl in Ecv. discriminate.
Qed.

(* C03_expected_defined: a successful valued balance command has every price the check's
   expectation needs -- for every asset/liability account with a valid name (every account of the
   journal has one: postings_syntactic), every window start W and every date E, in particular for
   the window of the report and each of its columns.  No condition on the mapping, the filters or
   the window. *)
Theorem expected_defined cfg ds r part V :
  bc_valuation cfg = Some V ->
  balance_report cfg ds = COk (r, part) ->
  exists dl,
    parse_directives ds = MOk dl /\
    (postings_syntactic dl ->
     forall a, account_ok a = true -> is_AL a = true ->
       (forall T, exists x, market_value dl V a T = Some x) /\
       (forall W E, exists e, mtm_expected dl V a W E = Some e) /\
       exists exps,
         mtm_row cfg dl a = Some exps /\ length exps = length (end_dates part) /\
         forall j eo n, nth_error exps j = Some (eo, n) -> exists e, eo = Some e).
Proof.
  intros Hv H. destruct (valued_report_cells cfg ds r part V Hv H) as (dl & dsP & dsV & Ep & Epart & Hrun & _).
  exists dl. split; [exact Ep|].
  intros Hsyn a Ha HAL.
  assert (Hmv : forall T, exists x, market_value dl V a T = Some x).
  { intros T. exact (market_value_defined cfg V ds dl part dsP dsV a T Ep Hsyn Hrun Ha HAL). }
  assert (Hexp : forall W E, exists e, mtm_expected dl V a W E = Some e).
  { intros W E. unfold mtm_expected. destruct (Hmv E) as [x ->]. destruct (Hmv (W - 1)%Z) as [y ->].
    exists (sub x y). reflexivity. }
  split; [exact Hmv|]. split; [exact Hexp|].
  exists (map (fun p => (mtm_expected dl V a (p_start (span part)) (p_end p), step_bound dl a (p_start (span part)) (p_end p)))
              (periods part)).
  split; [unfold mtm_row; rewrite Hv, Epart; reflexivity|].
  split; [unfold end_dates; rewrite !map_length; reflexivity|].
  intros j eo n Hj. rewrite nth_error_map in Hj.
  destruct (nth_error (periods part) j) as [p|]; cbn [option_map] in Hj; [|discriminate].
  injection Hj as <- _. exact (Hexp _ _).
Qed.

(* ------------------------------------------------------------ Part D: the accounts the check visits *)

Lemma insert_row_in r x : forall l, In x (insert_row r l) -> x = r \/ In x l.
Proof.
  induction l as [|y l IH]; cbn [insert_row]; intros H.
  - destruct H as [<-|[]]. left. reflexivity.
  - destruct (row_ltb r y).
    + destruct H as [<-|H]; [left; reflexivity|right; exact H].
    + destruct (row_ltb y r); [|right; exact H].
      destruct H as [<-|H]; [right; left; reflexivity|].
      destruct (IH H) as [->|Hl]; [left; reflexivity|right; right; exact Hl].
Qed.

Lemma al_accounts_in dl a : In a (al_accounts dl) ->
  is_AL a = true /\ exists d p, In (d, p) (flat_postings dl) /\ p_acc p = a.
Proof.
  unfold al_accounts.
  assert (G : forall posts acc,
            (forall x, In x acc -> is_AL x = true /\ exists d p, In (d, p) (flat_postings dl) /\ p_acc p = x) ->
            (forall dp, In dp posts -> In dp (flat_postings dl)) ->
            forall x, In x (fold_left (fun l (dp : Z * posting) => let '(_, p) := dp in
                                         if is_AL (p_acc p) then insert_row (p_acc p) l else l) posts acc) ->
            is_AL x = true /\ exists d p, In (d, p) (flat_postings dl) /\ p_acc p = x).
  { induction posts as [|[d p] posts IH]; intros acc Hacc Hsub x Hx; cbn [fold_left] in Hx; [exact (Hacc x Hx)|].
    refine (IH _ _ (fun dp Hdp => Hsub dp (or_intror Hdp)) x Hx).
    intros y Hy. destruct (is_AL (p_acc p)) eqn:EAL; [|exact (Hacc y Hy)].
    destruct (insert_row_in _ _ _ Hy) as [->|Hl]; [|exact (Hacc y Hl)].
    split; [exact EAL|]. exists d, p. split; [apply Hsub; left; reflexivity|reflexivity]. }
  intros Hin. apply (G (flat_postings dl) [] (fun x Hx => match Hx with end) (fun dp Hdp => Hdp) a Hin).
Qed.

(* ------------------------------------------------------------ example data (Properties/C03.v) *)
(* the journal of C03_example_windowed_report with one more booking: on 03-03 Assets:B also
   receives 0 Z, a commodity that is never priced.  Valuate asks for no price of a zero quantity,
   so the command succeeds; Z is among the held commodities of Assets:B and has no price on any
   day: market_value must skip it (is_zero), otherwise the expectation would be undefined *)
Open Scope Z_scope.
Definition exd_z : commodity := [90].
Definition exd_journal : list sdirective :=
  [ SOpen exr_d0 exr_a; SOpen exr_d0 exr_o;
    SPrice exr_d0 exr_c (mkDec 123456789 (-8)) exr_V;
    STxn (mkStxn exr_d0 [] [mkBooking exr_o exr_a (mkDec 15 (-1)) exr_c] None None);
    SPrice (exr_d0 + 1) exr_c (mkDec 200000001 (-8)) exr_V;
    STxn (mkStxn (exr_d0 + 2) [] [mkBooking exr_o exr_a (mkDec 3 (-1)) exr_c; mkBooking exr_o exr_a (mkDec 0 0) exd_z] None None);
    SPrice (exr_d0 + 3) exr_c (mkDec 333333333 (-8)) exr_V ].

(* ------------------------------------------------------------ Part E: the statements of Properties/C03.v *)

(* the contrapositive of C03_missing_price_fails, lifted to the report: if the command succeeds,
   every commodity other than V of which an asset/liability account holds a non-zero quantity on a
   date T has a price in V from the declarations dated up to T -- for every T *)
Theorem held_price_report cfg ds r part V :
  bc_valuation cfg = Some V ->
  balance_report cfg ds = COk (r, part) ->
  exists dl,
    parse_directives ds = MOk dl /\
    (postings_syntactic dl ->
     forall a c T, account_ok a = true -> is_AL a = true -> c <> V ->
       is_zero (qty_upto (flat_postings dl) a c T) = false ->
       exists pr, ValuationSpec.price_on dl V c T = Some pr).
Proof.
  intros Hv H. destruct (valued_report_cells cfg ds r part V Hv H) as (dl & dsP & dsV & Ep & Epart & Hrun & _).
  exists dl. split; [exact Ep|].
  intros Hsyn a c T Ha HAL Hcv Hz.
  exact (held_price_journal cfg V ds dl part dsP dsV a c T Ep Hsyn Hrun Ha HAL Hcv Hz).
Qed.

(* the accounts the runtime check visits are the asset/liability accounts of the journal's
   bookings; postings_syntactic gives their names' validity: no side condition on a is left *)
Theorem expected_defined_accounts cfg ds r part V :
  bc_valuation cfg = Some V ->
  balance_report cfg ds = COk (r, part) ->
  exists dl,
    parse_directives ds = MOk dl /\
    (postings_syntactic dl ->
     forall a, In a (al_accounts dl) ->
       exists exps,
         mtm_row cfg dl a = Some exps /\ length exps = length (end_dates part) /\
         forall j eo n, nth_error exps j = Some (eo, n) -> exists e, eo = Some e).
Proof.
  intros Hv H. destruct (expected_defined cfg ds r part V Hv H) as (dl & Ep & Hd).
  exists dl. split; [exact Ep|].
  intros Hsyn a Hin. destruct (al_accounts_in dl a Hin) as (HAL & d & p & Hp & <-).
  exact (proj2 (proj2 (Hd Hsyn (p_acc p) (Hsyn d p Hp) HAL))).
Qed.
