(* C06, arrival order: journal.Builder.Build with the source sort (Model/Source.v) returns the
   same journal for every order in which the files' directives reach Builder.Add.

   1. [src_ltb] (sourceBefore) is a strict total order on (path, offset).
   2. The tagged builder is characterised: its days are the dates that occur, ascending, and
      each of a day's five lists is the selection of the arrival sequence by date and kind.
   3. Erasing the tags from the tagged builder gives the builder of Model/Journal.v.
   4. [build_sorted_canonical]: Build = the builder of Model/Journal.v run on the arrival
      sequence sorted (stably) by source -- the journal is what a sequential load in source
      order would have produced.
   5. Arrival theorems: equal classes / permutation with injective keys / permutation of whole
      files; the commands; one file keeps its textual order; the pinned Build is refuted. *)
From Coq Require Import ZArith QArith List Bool Lia Permutation Sorting.Sorted.
From Knut Require Import Model.Str Model.Dec Model.Date Model.Account Model.Ledger Model.Price
     Model.Journal Model.Check Model.Pipeline Model.Table Model.Report Model.JPrinter Model.Cli
     Model.Beancount Model.CliTranscode Model.Perf Model.Weights Model.CliPortfolio Model.Source
     Spec.WellformedSpec Proofs.StrProofs Proofs.StableSort Proofs.BuilderProofs Proofs.CheckPerm.
Import ListNotations.
Open Scope bool_scope.
Open Scope Z_scope.

(* ---------------------------------------------------------------- 1. the order on sources *)

Lemma src_ltb_irrefl a : src_ltb a a = false.
Proof. unfold src_ltb. rewrite str_eqb_refl. apply Z.ltb_irrefl. Qed.

Lemma src_ltb_trans a b c : src_ltb a b = true -> src_ltb b c = true -> src_ltb a c = true.
Proof.
  unfold src_ltb. destruct a as [pa oa], b as [pb ob], c as [pc oc]. cbn [s_path s_start].
  destruct (str_eqb pa pb) eqn:E1; destruct (str_eqb pb pc) eqn:E2; intros H1 H2.
  - apply str_eqb_eq in E1, E2. subst. rewrite str_eqb_refl. apply Z.ltb_lt in H1, H2. apply Z.ltb_lt. lia.
  - apply str_eqb_eq in E1. subst. rewrite E2. exact H2.
  - apply str_eqb_eq in E2. subst. rewrite E1. exact H1.
  - pose proof (str_ltb_trans _ _ _ H1 H2) as H3.
    destruct (str_eqb pa pc) eqn:E3; [|exact H3].
    apply str_eqb_eq in E3. subst. rewrite str_ltb_irrefl in H3. discriminate.
Qed.

Lemma src_ltb_total a b : src_ltb a b = false -> src_ltb b a = false -> a = b.
Proof.
  unfold src_ltb. destruct a as [pa oa], b as [pb ob]. cbn [s_path s_start].
  destruct (str_eqb pa pb) eqn:E1.
  - apply str_eqb_eq in E1. subst. rewrite str_eqb_refl. intros H1 H2.
    apply Z.ltb_ge in H1, H2. f_equal. lia.
  - replace (str_eqb pb pa) with false.
    + intros H1 H2. apply str_eqb_false in E1. exfalso. apply E1. apply str_ltb_total; assumption.
    + symmetry. apply str_eqb_false. apply str_eqb_false in E1. congruence.
Qed.

Lemma src_ltb_cotrans a b c : src_ltb a b = true -> src_ltb a c = true \/ src_ltb c b = true.
Proof. apply (klt_cotrans src_ltb src_ltb_trans src_ltb_total). Qed.

(* [by_src] compares the first components *)
Section BySrc.
  Context {A : Type}.
  Lemma by_src_irrefl (x : src * A) : by_src x x = false.
  Proof. apply src_ltb_irrefl. Qed.
  Lemma by_src_trans (x y z : src * A) : by_src x y = true -> by_src y z = true -> by_src x z = true.
  Proof. apply src_ltb_trans. Qed.
  Lemma by_src_cotrans (x y z : src * A) : by_src x y = true -> by_src x z = true \/ by_src z y = true.
  Proof. apply src_ltb_cotrans. Qed.
  Lemma eqv_by_src (x y : src * A) : eqv by_src x y = true <-> fst x = fst y.
  Proof. apply (eqv_by_key src_ltb fst src_ltb_irrefl src_ltb_total). Qed.
End BySrc.

(* the elements with source [k] *)
Definition has_src {A} (k : src) (x : src * A) : bool := eqv by_src (k, snd x) x.

Lemma has_src_spec {A} k (x : src * A) : has_src k x = true <-> fst x = k.
Proof. unfold has_src. rewrite eqv_by_src. cbn [fst]. split; congruence. Qed.

Lemma filter_eqv_has_src {A} (a : src * A) l : filter (eqv by_src a) l = filter (has_src (fst a)) l.
Proof.
  apply filter_ext. intros x. unfold has_src.
  destruct (eqv by_src a x) eqn:E1; destruct (eqv by_src (fst a, snd x) x) eqn:E2; try reflexivity.
  - apply eqv_by_src in E1. assert (H : eqv by_src (fst a, snd x) x = true) by (apply eqv_by_src; exact E1). congruence.
  - apply eqv_by_src in E2. assert (H : eqv by_src a x = true) by (apply eqv_by_src; exact E2). congruence.
Qed.

(* ---------------------------------------------------------------- 2. the tagged builder *)

Definition pj_price (dt : Z) (x : src * directive) : option (src * (commodity * dec * commodity)) :=
  match snd x with DPrice d c p t => if d =? dt then Some (fst x, (c, p, t)) else None | _ => None end.
Definition pj_open (dt : Z) (x : src * directive) : option (src * account) :=
  match snd x with DOpen d a => if d =? dt then Some (fst x, a) else None | _ => None end.
Definition pj_txn (dt : Z) (x : src * directive) : option (src * txn) :=
  match snd x with DTxn t => if t_date t =? dt then Some (fst x, t) else None | _ => None end.
Definition pj_assert (dt : Z) (x : src * directive) : option (src * list balance) :=
  match snd x with DAssert d bs => if d =? dt then Some (fst x, bs) else None | _ => None end.
Definition pj_close (dt : Z) (x : src * directive) : option (src * account) :=
  match snd x with DClose d a => if d =? dt then Some (fst x, a) else None | _ => None end.

(* the day of date [dt] of the arrival sequence [l]: selections, in arrival order *)
Definition tday_of (l : list (src * directive)) (dt : Z) : tday :=
  mkTDay dt (select (pj_price dt) l) (select (pj_open dt) l) (select (pj_txn dt) l)
         (select (pj_assert dt) l) (select (pj_close dt) l).

Definition tdates (l : list (src * directive)) : list Z := dates (map snd l).

Lemma select_snoc {A B} (g : A -> option B) l x :
  select g (l ++ [x]) = select g l ++ match g x with Some b => [b] | None => [] end.
Proof. unfold select. rewrite flat_map_app. cbn. rewrite app_nil_r. reflexivity. Qed.

Lemma tday_of_snoc_same l s d :
  tday_of (l ++ [(s, d)]) (ddate d) = tadd_to_day s d (tday_of l (ddate d)).
Proof.
  unfold tday_of. rewrite !select_snoc.
  destruct d as [dt c p t|dt a|dt a|dt bs|t]; cbn [ddate]; unfold pj_price, pj_open, pj_txn, pj_assert, pj_close;
    cbn [snd fst]; rewrite ?Z.eqb_refl, ?app_nil_r; reflexivity.
Qed.

Lemma tday_of_snoc_other l s d dt : dt <> ddate d -> tday_of (l ++ [(s, d)]) dt = tday_of l dt.
Proof.
  intros Hne. unfold tday_of. rewrite !select_snoc.
  assert (E : (ddate d =? dt) = false) by (apply Z.eqb_neq; congruence).
  destruct d as [d0 c p t|d0 a|d0 a|d0 bs|t]; cbn [ddate] in E; unfold pj_price, pj_open, pj_txn, pj_assert, pj_close;
    cbn [snd fst]; rewrite ?E, ?app_nil_r; reflexivity.
Qed.

Lemma tday_of_absent l dt : ~ In dt (map ddate (map snd l)) -> tday_of l dt = tempty_day dt.
Proof.
  induction l as [|[s d] l IH] using rev_ind; intros H; [reflexivity|].
  rewrite !map_app, in_app_iff in H. cbn in H.
  rewrite tday_of_snoc_other by (intros E; apply H; right; left; symmetry; exact E).
  apply IH. tauto.
Qed.

Lemma tbuilder_add_days b s d :
  tb_days (tbuilder_add b (s, d)) = tupd_day (tb_days b) (ddate d) (tadd_to_day s d).
Proof. destruct d; reflexivity. Qed.

Lemma tbuilder_of_snoc l x : tbuilder_of (l ++ [x]) = tbuilder_add (tbuilder_of l) x.
Proof. unfold tbuilder_of. rewrite fold_left_app. reflexivity. Qed.

Lemma map_tday_of_other l s d (L : list Z) :
  ~ In (ddate d) L -> map (tday_of (l ++ [(s, d)])) L = map (tday_of l) L.
Proof.
  intros H. apply map_ext_in. intros dt Hdt. apply tday_of_snoc_other. congruence.
Qed.

Lemma tupd_day_spec l s d (L : list Z) :
  StronglySorted Z.lt L ->
  (~ In (ddate d) L -> tday_of l (ddate d) = tempty_day (ddate d)) ->
  tupd_day (map (tday_of l) L) (ddate d) (tadd_to_day s d) =
  map (tday_of (l ++ [(s, d)])) (insert_date (ddate d) L).
Proof.
  induction L as [|y L IH]; intros Hs Habs.
  - cbn. rewrite tday_of_snoc_same, Habs by tauto. reflexivity.
  - inversion Hs as [|? ? Hs' Hall]; subst. rewrite Forall_forall in Hall.
    cbn [map tupd_day insert_date]. change (td_date (tday_of l y)) with y.
    destruct (ddate d =? y) eqn:E1.
    + apply Z.eqb_eq in E1. subst y. cbn [map]. rewrite tday_of_snoc_same. f_equal.
      symmetry. apply map_tday_of_other. intros Hin. specialize (Hall _ Hin). lia.
    + apply Z.eqb_neq in E1. destruct (ddate d <? y) eqn:E2.
      * apply Z.ltb_lt in E2.
        assert (Hn : ~ In (ddate d) (y :: L)).
        { intros [H|H]; [congruence|]. specialize (Hall _ H). lia. }
        cbn [map]. rewrite tday_of_snoc_same, (Habs Hn). f_equal.
        symmetry. exact (map_tday_of_other l s d (y :: L) Hn).
      * apply Z.ltb_ge in E2. cbn [map]. rewrite tday_of_snoc_other by congruence. f_equal.
        apply IH; [exact Hs'|]. intros Hn. apply Habs. intros [H|H]; [congruence|contradiction].
Qed.

(* the days of the tagged builder *)
Theorem tbuilder_days l : tb_days (tbuilder_of l) = map (tday_of l) (tdates l).
Proof.
  induction l as [|[s d] l IH] using rev_ind; [reflexivity|].
  rewrite tbuilder_of_snoc, tbuilder_add_days, IH. unfold tdates.
  rewrite map_app. cbn [map]. rewrite dates_snoc. apply tupd_day_spec.
  - apply dates_sorted.
  - intros Hn. apply tday_of_absent. rewrite <- dates_in. exact Hn.
Qed.

(* ---------------------------------------------------------------- 3. erasing the tags *)

Definition erase_b (b : tbuilder) : builder := tbuild_pinned b.

Lemma upd_day_erase days dt f tf :
  (forall x, f (erase_day x) = erase_day (tf x)) ->
  upd_day (map erase_day days) dt f = map erase_day (tupd_day days dt tf).
Proof.
  intros Hf. induction days as [|x days IH]; cbn [map upd_day tupd_day].
  - change (empty_day dt) with (erase_day (tempty_day dt)). rewrite Hf. reflexivity.
  - change (d_date (erase_day x)) with (td_date x).
    destruct (dt =? td_date x); [cbn [map]; rewrite Hf; reflexivity|].
    destruct (dt <? td_date x).
    + change (empty_day dt) with (erase_day (tempty_day dt)). cbn [map]. rewrite Hf. reflexivity.
    + cbn [map]. rewrite IH. reflexivity.
Qed.

Lemma builder_add_erase b s d : builder_add (erase_b b) d = erase_b (tbuilder_add b (s, d)).
Proof.
  destruct b as [days mn mx]. unfold erase_b, tbuild_pinned.
  destruct d as [dt c p t|dt a|dt a|dt bs|t];
    cbn [builder_add tbuilder_add b_days b_min b_max tb_days tb_min tb_max]; f_equal;
    apply upd_day_erase; intros x; unfold erase_day, add_txn_day;
    cbn [tadd_to_day td_date td_prices td_opens td_txns td_asserts td_closes d_date d_prices d_opens d_txns d_asserts d_closes d_normalized];
    rewrite ?map_app; reflexivity.
Qed.

Lemma builder_of_erase_gen l : forall b,
  fold_left builder_add (map snd l) (erase_b b) = erase_b (fold_left tbuilder_add l b).
Proof.
  induction l as [|[s d] l IH]; intros b; [reflexivity|].
  cbn [map fold_left snd]. rewrite (builder_add_erase b s d). apply IH.
Qed.

(* Build without the sort is the builder of Model/Journal.v on the arrival sequence *)
Theorem build_pinned_spec l : build_pinned_b l = builder_of (map snd l).
Proof. unfold build_pinned_b, builder_of. symmetry. apply (builder_of_erase_gen l new_tbuilder). Qed.

Lemma tb_min_spec l : tb_min (tbuilder_of l) = b_min (builder_of (map snd l)).
Proof. rewrite <- build_pinned_spec. reflexivity. Qed.
Lemma tb_max_spec l : tb_max (tbuilder_of l) = b_max (builder_of (map snd l)).
Proof. rewrite <- build_pinned_spec. reflexivity. Qed.

(* Builder.Period does not depend on the order of the directives *)
Definition mm_step (m : Z * Z) (d : directive) : Z * Z :=
  match d with
  | DPrice dt _ _ _ => (fst m, Z.max (snd m) dt)
  | DTxn t => (Z.min (fst m) (t_date t), Z.max (snd m) (t_date t))
  | _ => m
  end.

Lemma builder_mm l : forall b,
  (b_min (fold_left builder_add l b), b_max (fold_left builder_add l b)) = fold_left mm_step l (b_min b, b_max b).
Proof.
  induction l as [|d l IH]; intros b; [reflexivity|].
  cbn [fold_left]. rewrite IH. f_equal.
  destruct d; cbn [builder_add b_min b_max mm_step fst snd]; try reflexivity.
  - f_equal. destruct (b_max b <? date) eqn:E; [apply Z.ltb_lt in E|apply Z.ltb_ge in E]; lia.
  - f_equal.
    + destruct (t_date t <? b_min b) eqn:E; [apply Z.ltb_lt in E|apply Z.ltb_ge in E]; lia.
    + destruct (b_max b <? t_date t) eqn:E; [apply Z.ltb_lt in E|apply Z.ltb_ge in E]; lia.
Qed.

Lemma mm_step_comm m x y : mm_step (mm_step m x) y = mm_step (mm_step m y) x.
Proof.
  destruct m as [a b]. destruct x, y; cbn [mm_step fst snd]; try reflexivity; f_equal; lia.
Qed.

Lemma builder_period_perm l1 l2 :
  Permutation l1 l2 ->
  b_min (builder_of l1) = b_min (builder_of l2) /\ b_max (builder_of l1) = b_max (builder_of l2).
Proof.
  intros P. unfold builder_of.
  pose proof (builder_mm l1 new_builder) as H1. pose proof (builder_mm l2 new_builder) as H2.
  rewrite (fold_left_perm mm_step l1 l2 mm_step_comm P) in H1. rewrite <- H2 in H1.
  apply pair_equal_spec in H1. exact H1.
Qed.

(* ---------------------------------------------------------------- 4. Build = load in source order *)

Lemma pj_price_lt dt a a' b b' : pj_price dt a = Some b -> pj_price dt a' = Some b' -> by_src b b' = by_src a a'.
Proof.
  unfold pj_price. destruct (snd a); try discriminate. destruct (snd a'); try discriminate.
  destruct (_ =? dt); try discriminate. destruct (_ =? dt); try discriminate.
  intros H1 H2. inversion H1; inversion H2; subst. reflexivity.
Qed.
Lemma pj_open_lt dt a a' b b' : pj_open dt a = Some b -> pj_open dt a' = Some b' -> by_src b b' = by_src a a'.
Proof.
  unfold pj_open. destruct (snd a); try discriminate. destruct (snd a'); try discriminate.
  destruct (_ =? dt); try discriminate. destruct (_ =? dt); try discriminate.
  intros H1 H2. inversion H1; inversion H2; subst. reflexivity.
Qed.
Lemma pj_txn_lt dt a a' b b' : pj_txn dt a = Some b -> pj_txn dt a' = Some b' -> by_src b b' = by_src a a'.
Proof.
  unfold pj_txn. destruct (snd a); try discriminate. destruct (snd a'); try discriminate.
  destruct (_ =? dt); try discriminate. destruct (_ =? dt); try discriminate.
  intros H1 H2. inversion H1; inversion H2; subst. reflexivity.
Qed.
Lemma pj_assert_lt dt a a' b b' : pj_assert dt a = Some b -> pj_assert dt a' = Some b' -> by_src b b' = by_src a a'.
Proof.
  unfold pj_assert. destruct (snd a); try discriminate. destruct (snd a'); try discriminate.
  destruct (_ =? dt); try discriminate. destruct (_ =? dt); try discriminate.
  intros H1 H2. inversion H1; inversion H2; subst. reflexivity.
Qed.
Lemma pj_close_lt dt a a' b b' : pj_close dt a = Some b -> pj_close dt a' = Some b' -> by_src b b' = by_src a a'.
Proof.
  unfold pj_close. destruct (snd a); try discriminate. destruct (snd a'); try discriminate.
  destruct (_ =? dt); try discriminate. destruct (_ =? dt); try discriminate.
  intros H1 H2. inversion H1; inversion H2; subst. reflexivity.
Qed.

Lemma select_sort_src {B} (g : src * directive -> option (src * B)) l :
  (forall a a' b b', g a = Some b -> g a' = Some b' -> by_src b b' = by_src a a') ->
  sort_src (select g l) = map snd (select g (sort_by by_src l)).
Proof.
  intros Hg. unfold sort_src. f_equal. symmetry.
  apply (select_sort_by by_src by_src_irrefl by_src_trans by_src_cotrans by_src g Hg).
Qed.

(* the arrival sequence in source order *)
Definition canon (l : list (src * directive)) : list (src * directive) := sort_by by_src l.

Lemma sort_day_tday_of l dt : sort_day (tday_of l dt) = erase_day (tday_of (canon l) dt).
Proof.
  unfold sort_day, erase_day, tday_of, canon.
  cbn [td_date td_prices td_opens td_txns td_asserts td_closes].
  rewrite (select_sort_src _ l (pj_price_lt dt)), (select_sort_src _ l (pj_open_lt dt)),
          (select_sort_src _ l (pj_txn_lt dt)), (select_sort_src _ l (pj_assert_lt dt)),
          (select_sort_src _ l (pj_close_lt dt)).
  reflexivity.
Qed.

Lemma canon_perm l : Permutation (canon l) l.
Proof. apply sort_by_perm. Qed.

Lemma tdates_canon l : tdates (canon l) = tdates l.
Proof. unfold tdates. apply dates_perm. apply Permutation_map. apply canon_perm. Qed.

(* Build() of the directives in any arrival order = Model/Journal.v's builder run on the
   directives in source order *)
Theorem build_sorted_canonical l : build_sorted_b l = builder_of (map snd (canon l)).
Proof.
  rewrite <- build_pinned_spec. unfold build_sorted_b, build_pinned_b, tbuild, tbuild_pinned.
  rewrite !tbuilder_days, tdates_canon, !tb_min_spec, !tb_max_spec.
  destruct (builder_period_perm (map snd (canon l)) (map snd l)) as [Hmin Hmax].
  { apply Permutation_map. apply canon_perm. }
  rewrite Hmin, Hmax. f_equal.
  rewrite !map_map. apply map_ext. intros dt. apply sort_day_tday_of.
Qed.

Corollary build_sorted_days l : build_sorted l = b_days (builder_of (map snd (canon l))).
Proof. rewrite <- build_sorted_canonical. reflexivity. Qed.

(* ---------------------------------------------------------------- 5. arrival order *)

(* the journal depends only on, for each source position, the directives made from it in
   their order (these are made and added together: the parts of one accrual) *)
Theorem arrival_classes l1 l2 :
  (forall k, filter (has_src k) l1 = filter (has_src k) l2) -> build_sorted_b l1 = build_sorted_b l2.
Proof.
  intros H. rewrite !build_sorted_canonical. unfold canon.
  rewrite (sort_by_classes by_src by_src_irrefl by_src_trans by_src_cotrans l1 l2); [reflexivity|].
  intros a. rewrite !filter_eqv_has_src. apply H.
Qed.

(* any permutation, when directives with the same source position are equal *)
Theorem arrival_perm l1 l2 :
  Permutation l1 l2 ->
  (forall x y, In x l1 -> In y l1 -> fst x = fst y -> x = y) ->
  build_sorted_b l1 = build_sorted_b l2.
Proof.
  intros P Hinj. rewrite !build_sorted_canonical. unfold canon.
  rewrite (sort_by_perm_inj by_src by_src_irrefl by_src_trans by_src_cotrans l1 l2 P); [reflexivity|].
  intros x y Hx Hy E. apply Hinj; try assumption. apply eqv_by_src. exact E.
Qed.

Lemma filter_concat {A} (p : A -> bool) (ls : list (list A)) :
  filter p (concat ls) = concat (map (filter p) ls).
Proof.
  induction ls as [|l ls IH]; [reflexivity|]. cbn. rewrite filter_app, IH. reflexivity.
Qed.

Lemma concat_perm_blocks {A} (m1 m2 : list (list A)) :
  Permutation m1 m2 ->
  (forall x y, In x m1 -> In y m1 -> x = [] \/ y = [] \/ x = y) ->
  concat m1 = concat m2.
Proof.
  intros P. induction P as [|x l l' P IH|x y l|l l' l'' P1 IH1 P2 IH2]; intros H.
  - reflexivity.
  - cbn. f_equal. apply IH. intros a b Ha Hb. apply H; right; assumption.
  - cbn. rewrite !app_assoc. f_equal.
    destruct (H x y) as [E|[E|E]]; [right; left; reflexivity|left; reflexivity| | |]; subst;
      rewrite ?app_nil_r; reflexivity.
  - rewrite IH1 by exact H. apply IH2. intros a b Ha Hb.
    apply H; eapply Permutation_in; try (apply Permutation_sym; exact P1); assumption.
Qed.

(* the files' batches in any order.  Batches with a common path are batches of the same file
   (a file included twice is parsed twice, with the same result). *)
Theorem arrival_files (fs1 fs2 : list (list (src * directive))) :
  Permutation fs1 fs2 ->
  (forall f g x y, In f fs1 -> In g fs1 -> In x f -> In y g -> s_path (fst x) = s_path (fst y) -> f = g) ->
  build_sorted_b (concat fs1) = build_sorted_b (concat fs2).
Proof.
  intros P Hfile. apply arrival_classes. intros k. rewrite !filter_concat.
  apply concat_perm_blocks; [apply Permutation_map; exact P|].
  intros x y Hx Hy. apply in_map_iff in Hx, Hy.
  destruct Hx as [f [Ef Hf]], Hy as [g [Eg Hg]].
  destruct x as [|a x']; [left; reflexivity|]. destruct y as [|b y']; [right; left; reflexivity|].
  right. right. rewrite <- Ef, <- Eg.
  assert (Ha : In a (filter (has_src k) f)) by (rewrite Ef; left; reflexivity).
  assert (Hb : In b (filter (has_src k) g)) by (rewrite Eg; left; reflexivity).
  apply filter_In in Ha, Hb. destruct Ha as [Ha Ka], Hb as [Hb Kb].
  apply has_src_spec in Ka, Kb.
  rewrite (Hfile f g a b Hf Hg Ha Hb); [reflexivity|]. rewrite Ka, Kb. reflexivity.
Qed.

(* a sequence that is already in source order (one file: its directives in textual order)
   is built as Model/Journal.v builds it *)
Theorem build_sorted_in_order l : sorted by_src l -> build_sorted_b l = builder_of (map snd l).
Proof.
  intros Hs. rewrite build_sorted_canonical. unfold canon.
  rewrite (sort_by_sorted_id by_src by_src_irrefl by_src_trans by_src_cotrans l Hs). reflexivity.
Qed.

Lemma file_directives_sorted path ods :
  StronglySorted Z.le (map fst ods) -> sorted by_src (file_directives path ods).
Proof.
  unfold sorted, file_directives. induction ods as [|[o d] ods IH]; intros Hs; cbn [map]; [constructor|].
  cbn [map fst] in Hs. inversion Hs as [|? ? Hs' Hall]; subst. constructor; [apply IH; exact Hs'|].
  rewrite Forall_forall in *. intros [s' d'] Hin. apply in_map_iff in Hin.
  destruct Hin as [[o' d''] [E Hin]]. inversion E; subst.
  unfold by_src, src_ltb. cbn [fst snd s_path s_start]. rewrite str_eqb_refl.
  apply Z.ltb_ge. apply Hall. apply in_map_iff. exists (o', d'). split; [reflexivity|exact Hin].
Qed.

Lemma map_snd_file_directives path ods : map snd (file_directives path ods) = map snd ods.
Proof. unfold file_directives. rewrite map_map. reflexivity. Qed.

(* one file, offsets not decreasing (the parts of an accrual share an offset) *)
Theorem single_file_textual_order path ods :
  StronglySorted Z.le (map fst ods) ->
  build_sorted_b (file_directives path ods) = builder_of (map snd ods).
Proof.
  intros Hs. rewrite build_sorted_in_order by (apply file_directives_sorted; exact Hs).
  rewrite map_snd_file_directives. reflexivity.
Qed.

(* Builder.Days (the touch of period boundaries) before Build = after Build *)
Lemma upd_day_map (e : tday -> day) days dt f tf :
  (forall x, d_date (e x) = td_date x) ->
  (forall d, e (tempty_day d) = empty_day d) ->
  (forall x, f (e x) = e (tf x)) ->
  upd_day (map e days) dt f = map e (tupd_day days dt tf).
Proof.
  intros Hd He Hf. induction days as [|x days IH]; cbn [map upd_day tupd_day].
  - rewrite <- He, Hf. reflexivity.
  - rewrite Hd.
    destruct (dt =? td_date x); [cbn [map]; rewrite Hf; reflexivity|].
    destruct (dt <? td_date x).
    + rewrite <- He. cbn [map]. rewrite Hf. reflexivity.
    + cbn [map]. rewrite IH. reflexivity.
Qed.

Theorem touch_then_build b ds : tbuild (tbuilder_touch b ds) = builder_touch (tbuild b) ds.
Proof.
  unfold tbuild, tbuilder_touch, builder_touch. cbn [tb_days tb_min tb_max b_days b_min b_max]. f_equal.
  generalize (tb_days b). induction ds as [|d ds IH]; intros days; [reflexivity|].
  cbn [fold_left]. rewrite IH. f_equal. symmetry. apply upd_day_map; reflexivity.
Qed.

(* ---------------------------------------------------------------- 6. the commands *)

Lemma balance_table_factor cfg ds :
  balance_table cfg ds =
  cbind (match bc_valuation cfg with
         | Some v => if valid_commodity v then COk tt else CErr k_valuation v
         | None => COk tt end) (fun _ => cbind (load ds) (balance_table_of cfg)).
Proof.
  unfold balance_table, balance_report, balance_table_of, balance_report_of.
  destruct (match bc_valuation cfg with Some v => if valid_commodity v then COk tt else CErr k_valuation v | None => COk tt end);
    cbn [cbind]; try reflexivity.
  destruct (load ds); reflexivity.
Qed.

Lemma check_factor repaired ds : check_cmd_current repaired ds = cbind (load ds) (check_of repaired).
Proof. reflexivity. Qed.

Lemma print_factor lenient ds : print_cmd lenient ds = cbind (load ds) (print_of lenient).
Proof. reflexivity. Qed.

Lemma transcode_factor lenient v ds :
  transcode_cmd lenient v ds =
  cbind (valuation_flag v) (fun vo =>
  match vo with
  | Some c => cbind (load ds) (transcode_of lenient c)
  | None => CErr k_valuation []
  end).
Proof.
  unfold transcode_cmd, transcode_of, transcode_days.
  destruct (valuation_flag v) as [[c|]| |]; cbn [cbind]; try reflexivity.
  destruct (load ds); reflexivity.
Qed.

Lemma weights_factor cfg ds :
  weights_csv_cmd cfg ds =
  cbind (match pc_universe cfg with Some y => universe_load [] y | None => COk [] end) (fun u =>
  cbind (check_valuation cfg) (fun _ => cbind (load ds) (weights_csv_of cfg u))).
Proof.
  unfold weights_csv_cmd, weights_table, weights_entries, weights_csv_of, weights_entries_of.
  destruct (match pc_universe cfg with Some y => universe_load [] y | None => COk [] end); cbn [cbind]; try reflexivity.
  destruct (check_valuation cfg); cbn [cbind]; try reflexivity.
  destruct (load ds) as [b| |]; cbn [cbind]; try reflexivity.
  destruct (pf_partition cfg b); cbn [cbind]; try reflexivity.
  destruct (valued_days cfg _); cbn [cbind]; try reflexivity.
  destruct (day_values cfg _); cbn [cbind]; try reflexivity.
  destruct (query_entries _ _ _ _); reflexivity.
Qed.

Lemma returns_factor fx cfg ds :
  returns_cmd fx cfg ds = cbind (check_valuation cfg) (fun _ => cbind (load ds) (returns_of fx cfg)).
Proof.
  unfold returns_cmd, returns_gen, returns_of.
  destruct (check_valuation cfg); cbn [cbind]; try reflexivity.
  destruct (load ds) as [b| |]; cbn [cbind]; try reflexivity.
  destruct (pf_partition cfg b); cbn [cbind]; try reflexivity.
  destruct (valued_days cfg _); cbn [cbind]; try reflexivity.
  destruct (day_values cfg _); cbn [cbind]; try reflexivity.
  destruct (day_flows fx cfg _); reflexivity.
Qed.

(* every command that reads the built journal *)
Theorem run_sorted_arrival {R} (cmd : builder -> R) l1 l2 :
  build_sorted_b l1 = build_sorted_b l2 -> run_sorted cmd l1 = run_sorted cmd l2.
Proof. unfold run_sorted. intros ->. reflexivity. Qed.

(* the command on the arrival sequence = the command of Model/Cli.v on the journal loaded in
   source order *)
Theorem run_sorted_canonical {R} (cmd : builder -> R) l :
  run_sorted cmd l = cmd (builder_of (map snd (canon l))).
Proof. unfold run_sorted. rewrite build_sorted_canonical. reflexivity. Qed.

(* ---------------------------------------------------------------- 7. the pinned Build *)

(* two files, each opening an account on 2020-01-01 *)
Definition w_day : Z := of_civil 2020 1 1.
Definition w_file_a : list (src * directive) :=
  file_directives [97;46;107;110;117;116] [(0, DOpen w_day [s_Assets; [65]])].          (* a.knut: open Assets:A *)
Definition w_file_b : list (src * directive) :=
  file_directives [98;46;107;110;117;116] [(0, DOpen w_day [s_Assets; [66]])].          (* b.knut: open Assets:B *)

Lemma w_keys_injective (x y : src * directive) :
  In x (w_file_a ++ w_file_b) -> In y (w_file_a ++ w_file_b) -> fst x = fst y -> x = y.
Proof.
  cbn. intros [<-|[<-|[]]] [<-|[<-|[]]] E; try reflexivity; discriminate E.
Qed.

(* Build without the sort: `knut print` writes the opens in arrival order *)
Theorem pinned_arrival_refuted :
  exists l1 l2,
    Permutation l1 l2 /\
    (forall x y, In x l1 -> In y l1 -> fst x = fst y -> x = y) /\
    run_pinned (print_of true) l1 <> run_pinned (print_of true) l2.
Proof.
  exists (w_file_a ++ w_file_b), (w_file_b ++ w_file_a). split; [|split].
  - apply Permutation_app_comm.
  - exact w_keys_injective.
  - vm_compute. discriminate.
Qed.

(* ---------------------------------------------------------------- 8. sort.SliceStable, the commands together *)

(* the documented contract of sort.SliceStable(list, sourceBefore) -- ordered, and elements
   that compare equal (same source) keep their original order -- has exactly one solution,
   the list [sort_by by_src] computes *)
Theorem slice_stable_contract {A} (l l' : list (src * A)) :
  sorted by_src l' -> (forall k, filter (has_src k) l' = filter (has_src k) l) -> l' = sort_by by_src l.
Proof.
  intros Hs H. apply (sort_by_unique by_src by_src_irrefl by_src_trans by_src_cotrans l l' Hs).
  intros a. rewrite !filter_eqv_has_src. apply H.
Qed.

Theorem sort_src_contract {A} (l : list (src * A)) :
  sorted by_src (sort_by by_src l) /\ Permutation (sort_by by_src l) l /\
  forall k, filter (has_src k) (sort_by by_src l) = filter (has_src k) l.
Proof.
  split; [apply (sort_by_sorted by_src by_src_irrefl by_src_trans)|].
  split; [apply sort_by_perm|].
  intros k. destruct (filter (has_src k) l) as [|a t] eqn:E.
  - destruct (filter (has_src k) (sort_by by_src l)) as [|b t'] eqn:E'; [reflexivity|exfalso].
    assert (Hb : In b (filter (has_src k) (sort_by by_src l))) by (rewrite E'; left; reflexivity).
    apply filter_In in Hb. destruct Hb as [Hb Kb].
    assert (Hb' : In b (filter (has_src k) l)).
    { apply filter_In. split; [|exact Kb]. eapply Permutation_in; [apply sort_by_perm|exact Hb]. }
    rewrite E in Hb'. exact Hb'.
  - assert (Ha : In a (filter (has_src k) l)) by (rewrite E; left; reflexivity).
    apply filter_In in Ha. destruct Ha as [_ Ka]. apply has_src_spec in Ka. subst k.
    rewrite <- E, <- !filter_eqv_has_src.
    apply (sort_by_stable by_src by_src_irrefl by_src_trans by_src_cotrans).
Qed.

(* all commands of the model that read the journal, for two arrival orders with the same build *)
Theorem commands_arrival l1 l2 :
  build_sorted_b l1 = build_sorted_b l2 ->
  (forall cfg, run_sorted (balance_table_of cfg) l1 = run_sorted (balance_table_of cfg) l2) /\
  (forall cfg, run_sorted (balance_csv_of cfg) l1 = run_sorted (balance_csv_of cfg) l2) /\
  (forall cfg tc, run_sorted (balance_text_of cfg tc) l1 = run_sorted (balance_text_of cfg tc) l2) /\
  (forall repaired, run_sorted (check_of repaired) l1 = run_sorted (check_of repaired) l2) /\
  (forall lenient, run_sorted (print_of lenient) l1 = run_sorted (print_of lenient) l2) /\
  (forall lenient c, run_sorted (transcode_of lenient c) l1 = run_sorted (transcode_of lenient c) l2) /\
  (forall cfg u, run_sorted (weights_csv_of cfg u) l1 = run_sorted (weights_csv_of cfg u) l2) /\
  (forall fx cfg, run_sorted (returns_of fx cfg) l1 = run_sorted (returns_of fx cfg) l2).
Proof. intros H. unfold run_sorted. rewrite H. repeat split. Qed.

(* a file with an accrual: two transactions made from the directive at offset 0 *)
Definition w_txn (desc : Z) : txn :=
  mkTxn w_day [desc] (pair_build [s_Assets; [65]] [s_Assets; [66]] [67;72;70] (of_int 1) dec_nil) None.
Definition w_file_c : list (src * directive) :=
  file_directives [99;46;107;110;117;116] [(0, DTxn (w_txn 120)); (0, DTxn (w_txn 121))].

Lemma w_files_hyp (f g : list (src * directive)) x y :
  In f [w_file_c; w_file_a; w_file_b] -> In g [w_file_c; w_file_a; w_file_b] ->
  In x f -> In y g -> s_path (fst x) = s_path (fst y) -> f = g.
Proof.
  intros [<-|[<-|[<-|[]]]] [<-|[<-|[<-|[]]]]; try reflexivity; cbn;
    intros Hx Hy; repeat (destruct Hx as [<-|Hx]); try contradiction;
    repeat (destruct Hy as [<-|Hy]); try contradiction; cbn; intros E; discriminate E.
Qed.

Theorem arrival_perm_both l1 l2 :
  Permutation l1 l2 ->
  (forall x y, In x l1 -> In y l1 -> fst x = fst y -> x = y) ->
  build_sorted l1 = build_sorted l2 /\ build_sorted_b l1 = build_sorted_b l2.
Proof.
  intros P H. pose proof (arrival_perm l1 l2 P H) as E. split; [|exact E].
  exact (f_equal b_days E).
Qed.
