(* C14 for transcode, portfolio weights and portfolio returns (the continuation of Proofs/NoPanic.v).

   Panic is reachable in Model/CliTranscode.v and Model/CliPortfolio.v through
     - Cli.load          -> parse_directives -> expand_posting (empty or zero-dated accrual window)
     - pf_partition      -> new_partition on a zero start
     - query_entries     -> map_path with a negative level or suffix (slice bounds)
     - transcode_cmd_pinned without -v (nil commodity; repaired by 864fd70 in transcode_cmd)
   and, excluded for every input: new_partition's fuel, compute_prices' normalize/insert (C12).
   The processors Sort, ComputeValues, ComputeFlows, Perf have no failing callback at all. *)
From Coq Require Import ZArith QArith List Bool Lia.
From Knut Require Import Model.Str Model.Dec Model.Date Model.Account Model.Ledger Model.Price
     Model.Journal Model.Check Model.Pipeline Model.Table Model.Report Model.JPrinter Model.Cli
     Model.Loader Model.CliSafe Model.Beancount Model.CliTranscode Model.Perf Model.Weights Model.CliPortfolio
     Model.CliSafeMore Spec.FailSpec Spec.FailSpecMore.
From Knut Require Import Proofs.StrProofs Proofs.DateProofs Proofs.PriceDayProofs Proofs.LoaderProofs Proofs.NoPanic
     Proofs.PortfolioDays.
Import ListNotations.
Open Scope bool_scope.
Open Scope Z_scope.

(* ---------------------------------------------------------------- processors *)

Lemma sort_proc_safe : proc_safe sort_proc.
Proof.
  unfold proc_safe, sort_proc. cbn [pr_day_start pr_price pr_open pr_txn pr_posting pr_balance pr_close pr_day_end].
  repeat split; some_inv. intros s d. apply np_ok.
Qed.

(* a processor built by Perf.pure_proc (ComputeValues, ComputeFlows) always succeeds *)
Lemma pure_stage_ok {S} (st : option (S -> day -> S)) tx po en s days :
  run_stage (pure_proc st tx po en) s days = COk (pure_days st tx po en s days, days).
Proof. unfold run_stage. rewrite pure_proc_days. reflexivity. Qed.

Lemma day_values_ok cfg days : exists r, day_values cfg days = COk r.
Proof. unfold day_values, compute_values_proc. rewrite pure_stage_ok. cbn [cbind]. eauto. Qed.

Lemma day_flows_ok fx cfg days : exists r, day_flows fx cfg days = COk r.
Proof. unfold day_flows, compute_flows_proc. rewrite pure_stage_ok. cbn [cbind]. eauto. Qed.

Lemma transcode_stages_np lenient v days : cnp (transcode_stages lenient v days).
Proof.
  unfold transcode_stages.
  apply cbind_np; [apply run_stage_np, sort_proc_safe|]. intros r0.
  apply cbind_np; [apply compute_prices_stage_np|]. intros r1.
  apply cbind_np; [apply run_stage_np, check_proc_safe|]. intros r2.
  apply cbind_np; [apply run_stage_np, valuate_proc_safe|]. intros r3. apply cnp_ok.
Qed.

Lemma valued_days_np cfg days : cnp (valued_days cfg days).
Proof.
  unfold valued_days. destruct (pc_valuation cfg) as [v|].
  - apply cbind_np; [apply compute_prices_stage_np|]. intros r1.
    apply cbind_np; [apply run_stage_np, check_proc_safe|]. intros r2.
    apply cbind_np; [apply run_stage_np, valuate_proc_safe|]. intros r3. apply cnp_ok.
  - apply cbind_np; [apply run_stage_np, check_proc_safe|]. intros r2. apply cnp_ok.
Qed.

Lemma valuation_flag_np v : cnp (valuation_flag v).
Proof.
  unfold valuation_flag. destruct v as [c|]; [|apply cnp_ok].
  destruct c as [|x c]; [apply cnp_ok|]. destruct (valid_commodity (x :: c)); [apply cnp_ok|apply cnp_err].
Qed.

Lemma check_valuation_np cfg : cnp (check_valuation cfg).
Proof.
  unfold check_valuation. destruct (pc_valuation cfg) as [v|]; [|apply cnp_ok].
  destruct (valid_commodity v); [apply cnp_ok|apply cnp_err].
Qed.

Lemma universe_class_np class cs : forall u, cnp (universe_class u class cs).
Proof.
  induction cs as [|c cs IH]; intros u; cbn [universe_class]; [apply cnp_ok|].
  destruct (negb (valid_commodity c)); [apply cnp_err|].
  destruct (sm_has u c); [apply cnp_err|apply IH].
Qed.

Lemma universe_load_np y : forall u, cnp (universe_load u y).
Proof.
  induction y as [|[class cs] y IH]; intros u; cbn [universe_load]; [apply cnp_ok|].
  apply cbind_np; [apply universe_class_np|]. intros u'. apply IH.
Qed.

(* ---------------------------------------------------------------- the -m mapping on a class path *)

(* weights.Query.Execute panics (slice bounds) on a path iff the matching rule applies (level
   below the kept length) and its level or suffix is negative *)
Theorem map_path_panics_iff m ss :
  map_path m ss = None <->
  exists level suffix, mapping_level m (join [colon] ss) = Some (level, suffix) /\
    level < Z.of_nat (length ss) - suffix /\ (level < 0 \/ suffix < 0).
Proof.
  unfold map_path. destruct (mapping_level m (join [colon] ss)) as [[l sf]|].
  2: { split; [discriminate|]. intros (l & sf & H & _). discriminate. }
  destruct (l <? Z.of_nat (length ss) - sf) eqn:E1; [apply Z.ltb_lt in E1|apply Z.ltb_ge in E1].
  2: { split; [discriminate|]. intros (l' & sf' & H & Hl & _). inversion H. subst. lia. }
  destruct ((l <? 0) || (sf <? 0)) eqn:E2.
  - split; [|reflexivity]. intros _. exists l, sf. repeat split; try assumption.
    apply orb_true_iff in E2. destruct E2 as [E2|E2]; apply Z.ltb_lt in E2; auto.
  - split; [discriminate|]. intros (l' & sf' & H & _ & Hneg). inversion H. subst.
    apply orb_false_iff in E2. destruct E2 as [E2 E3]. apply Z.ltb_ge in E2. apply Z.ltb_ge in E3. lia.
Qed.

Lemma map_path_np m ss : mapping_nonneg m = true -> map_path m ss <> None.
Proof.
  intros Hm H. apply map_path_panics_iff in H. destruct H as (l & sf & Hl & _ & Hneg).
  destruct (mapping_level_in _ _ _ _ Hl) as (r & Hin & <- & <-).
  unfold mapping_nonneg in Hm. rewrite forallb_forall in Hm. specialize (Hm r Hin).
  unfold rule_nonneg in Hm. apply andb_true_iff in Hm. destruct Hm as [H1 H2].
  apply Z.leb_le in H1. apply Z.leb_le in H2. lia.
Qed.

Theorem day_entries_panics_iff u m date total v1 :
  day_entries u m date total v1 = WPanic <-> exists c q, In (c, q) v1 /\ map_path m (locate u c) = None.
Proof.
  induction v1 as [|[c v] rest IH]; cbn [day_entries].
  - split; [discriminate|]. intros (c & q & [] & _).
  - destruct (map_path m (locate u c)) as [ss|] eqn:E.
    + destruct (day_entries u m date total rest) as [l|] eqn:E2.
      * split; [discriminate|]. intros (c' & q' & [Heq|Hin] & Hn).
        -- inversion Heq. subst c'. congruence.
        -- assert (Hp : @WOk (list entry) l = WPanic) by (apply IH; eauto). discriminate Hp.
      * split; [intros _|reflexivity].
        destruct (proj1 IH eq_refl) as (c' & q' & Hin & Hn). exists c', q'. split; [right; exact Hin|exact Hn].
    + split; [|reflexivity]. intros _. exists c, v. split; [left; reflexivity|exact E].
Qed.

(* the command's Query panics iff on some period end some commodity of the portfolio has a
   class path on which the mapping panics *)
Theorem query_entries_panics_iff u m ends l :
  query_entries u m ends l = WPanic <->
  exists d v0 v1 c q, In (d, (v0, v1)) l /\ existsb (Z.eqb d) ends = true /\ In (c, q) v1 /\
                      map_path m (locate u c) = None.
Proof.
  induction l as [|[d [v0 v1]] rest IH]; cbn [query_entries].
  - split; [discriminate|]. intros (d & v0 & v1 & c & q & [] & _).
  - destruct (existsb (Z.eqb d) ends) eqn:Ee.
    + destruct (day_entries u m d (pcv_sum v1) v1) as [es|] eqn:E1.
      * destruct (query_entries u m ends rest) as [es'|] eqn:E2.
        -- split; [discriminate|]. intros (d' & v0' & v1' & c & q & [Heq|Hin] & He & Hc & Hn).
           ++ inversion Heq. subst d' v0' v1'.
              assert (Hp : @WOk (list entry) es = WPanic) by (rewrite <- E1; apply day_entries_panics_iff; eauto).
              discriminate Hp.
           ++ assert (Hp : @WOk (list entry) es' = WPanic) by (apply IH; exists d', v0', v1', c, q; auto).
              discriminate Hp.
        -- split; [intros _|reflexivity].
           destruct (proj1 IH eq_refl) as (d' & v0' & v1' & c & q & Hin & He & Hc & Hn).
           exists d', v0', v1', c, q. split; [right; exact Hin|auto].
      * split; [intros _|reflexivity].
        apply day_entries_panics_iff in E1. destruct E1 as (c & q & Hc & Hn).
        exists d, v0, v1, c, q. split; [left; reflexivity|auto].
    + rewrite IH. split.
      * intros (d' & v0' & v1' & c & q & Hin & H). exists d', v0', v1', c, q. split; [right; exact Hin|exact H].
      * intros (d' & v0' & v1' & c & q & [Heq|Hin] & He & H).
        -- inversion Heq. subst d' v0' v1'. congruence.
        -- exists d', v0', v1', c, q. auto.
Qed.

Lemma query_entries_np u m ends l : mapping_nonneg m = true -> query_entries u m ends l <> WPanic.
Proof.
  intros Hm H. apply query_entries_panics_iff in H. destruct H as (d & v0 & v1 & c & q & _ & _ & _ & Hn).
  exact (map_path_np m _ Hm Hn).
Qed.

(* ---------------------------------------------------------------- the reporting window *)

Lemma pf_clip_start cfg b :
  p_start (clip (mkPeriod (pc_from cfg) (pc_to cfg)) (builder_period b)) = Z.max (pc_from cfg) (b_min b).
Proof.
  unfold clip, builder_period. cbn [p_start].
  destruct (pc_from cfg <? b_min b) eqn:E; [apply Z.ltb_lt in E|apply Z.ltb_ge in E]; lia.
Qed.

(* Multiperiod.Partition (weights, returns) panics iff the clipped window starts on day 0 *)
Theorem pf_partition_panics_iff cfg b :
  (exists m, pf_partition cfg b = CPanic m) <-> Z.max (pc_from cfg) (b_min b) = 0.
Proof.
  rewrite <- pf_clip_start. unfold pf_partition.
  set (p := clip (mkPeriod (pc_from cfg) (pc_to cfg)) (builder_period b)).
  destruct (new_partition p (pc_interval cfg) (pc_last cfg)) as [pt| |] eqn:E.
  - split; [intros [m H]; discriminate|]. intros Hz. unfold new_partition in E. rewrite Hz in E. discriminate.
  - split; [|intros _; eexists; reflexivity]. intros _. unfold new_partition in E.
    destruct (p_start p =? 0) eqn:Ez; [apply Z.eqb_eq; exact Ez|].
    destruct (pc_interval cfg); try discriminate;
      match type of E with context [np_loop ?f ?s ?iv ?l ?c ?e ?a] => destruct (np_loop f s iv l c e a) end; discriminate.
  - exfalso. exact (new_partition_no_fuel_exhaustion _ _ _ E).
Qed.

Lemma pf_partition_safe_np cfg b : cnp (pf_partition_safe cfg b).
Proof.
  intros m. unfold pf_partition_safe.
  set (p := clip (mkPeriod (pc_from cfg) (pc_to cfg)) (builder_period b)).
  destruct (p_start p =? 0) eqn:Ez; [discriminate|].
  destruct (new_partition p (pc_interval cfg) (pc_last cfg)) as [pt| |] eqn:E; [discriminate| |].
  - exfalso. unfold new_partition in E. rewrite Ez in E.
    destruct (pc_interval cfg); try discriminate;
      match type of E with context [np_loop ?f ?s ?iv ?l ?c ?e ?a] => destruct (np_loop f s iv l c e a) end; discriminate.
  - exfalso. exact (new_partition_no_fuel_exhaustion _ _ _ E).
Qed.

Lemma pf_partition_safe_agrees cfg b :
  Z.max (pc_from cfg) (b_min b) <> 0 -> pf_partition_safe cfg b = pf_partition cfg b.
Proof.
  rewrite <- pf_clip_start. intros H. unfold pf_partition_safe, pf_partition.
  destruct (p_start _ =? 0) eqn:Ez; [apply Z.eqb_eq in Ez; contradiction|reflexivity].
Qed.

Lemma pf_window_of_load cfg ds b :
  pf_window_start_ok cfg ds = true -> Cli.load ds = COk b -> Z.max (pc_from cfg) (b_min b) <> 0.
Proof.
  intros Hw Hb. destruct (load_ok_inv _ _ Hb) as (l & Hl & ->).
  unfold pf_window_start_ok in Hw. rewrite Hl in Hw. apply negb_true_iff in Hw. apply Z.eqb_neq in Hw.
  rewrite b_min_builder_of. exact Hw.
Qed.

(* ---------------------------------------------------------------- the repaired commands never panic *)

Theorem transcode_cmd_safe_np lenient v ds : cnp (transcode_cmd_safe lenient v ds).
Proof.
  unfold transcode_cmd_safe. apply cbind_np; [apply valuation_flag_np|]. intros [c|]; [|apply cnp_err].
  apply cbind_np; [|intros days; apply cnp_ok].
  unfold transcode_days_safe. apply cbind_np; [apply load_safe_np|]. intros b. apply transcode_stages_np.
Qed.

Theorem weights_csv_cmd_safe_np cfg ds : cnp (weights_csv_cmd_safe cfg ds).
Proof.
  unfold weights_csv_cmd_safe. apply cbind_np; [|intros t; apply cnp_ok].
  unfold weights_table_safe. apply cbind_np; [|intros es; apply cnp_ok].
  unfold weights_entries_safe.
  destruct (mapping_flag_ok (pc_mapping cfg)) eqn:Emf; cbn [negb]; [|apply cnp_err].
  apply cbind_np.
  { destruct (pc_universe cfg) as [y|]; [apply universe_load_np|apply cnp_ok]. }
  intros u. apply cbind_np; [apply check_valuation_np|]. intros _.
  apply cbind_np; [apply load_safe_np|]. intros b.
  apply cbind_np; [apply pf_partition_safe_np|]. intros part. cbv zeta.
  apply cbind_np; [apply valued_days_np|]. intros days.
  destruct (day_values_ok cfg days) as (vs & ->). cbn [cbind].
  destruct (query_entries u (pc_mapping cfg) (end_dates part) (fst vs)) as [es|] eqn:Eq; [apply cnp_ok|].
  exfalso. revert Eq. apply query_entries_np. rewrite <- mapping_flag_ok_eq. exact Emf.
Qed.

Theorem returns_cmd_safe_np fx cfg ds : cnp (returns_cmd_safe fx cfg ds).
Proof.
  unfold returns_cmd_safe. apply cbind_np; [|intros l; apply cnp_ok].
  unfold returns_gen_safe.
  apply cbind_np; [apply check_valuation_np|]. intros _.
  apply cbind_np; [apply load_safe_np|]. intros b.
  apply cbind_np; [apply pf_partition_safe_np|]. intros part. cbv zeta.
  apply cbind_np; [apply valued_days_np|]. intros days.
  destruct (day_values_ok cfg days) as (vs & ->). cbn [cbind].
  destruct (day_flows_ok fx cfg (snd vs)) as (fs & ->). cbn [cbind]. apply cnp_ok.
Qed.

(* ---------------------------------------------------------------- the repair changes nothing where the pinned code did not panic *)

Theorem transcode_cmd_safe_agrees lenient v ds :
  accruals_ok ds = true -> transcode_cmd_safe lenient v ds = transcode_cmd lenient v ds.
Proof.
  intros Ha. unfold transcode_cmd_safe, transcode_cmd, transcode_days_safe, transcode_days.
  rewrite (load_safe_agrees ds (parse_directives_np ds Ha)). reflexivity.
Qed.

Theorem weights_csv_cmd_safe_agrees cfg ds :
  pf_guards cfg ds = true -> weights_csv_cmd_safe cfg ds = weights_csv_cmd cfg ds.
Proof.
  unfold pf_guards. intros H. apply andb_true_iff in H. destruct H as [H Hw].
  apply andb_true_iff in H. destruct H as [Hm Ha].
  unfold weights_csv_cmd_safe, weights_csv_cmd, weights_table_safe, weights_table. do 2 f_equal.
  unfold weights_entries_safe, weights_entries.
  rewrite mapping_flag_ok_eq, Hm. cbn [negb].
  apply cbind_ext_on. intros u _. apply cbind_ext_on. intros _ _.
  rewrite (load_safe_agrees ds (parse_directives_np ds Ha)).
  apply cbind_ext_on. intros b Hb.
  rewrite (pf_partition_safe_agrees cfg b (pf_window_of_load cfg ds b Hw Hb)). reflexivity.
Qed.

Theorem returns_cmd_safe_agrees fx cfg ds :
  returns_guards cfg ds = true -> returns_cmd_safe fx cfg ds = returns_cmd fx cfg ds.
Proof.
  unfold returns_guards. intros H. apply andb_true_iff in H. destruct H as [Ha Hw].
  unfold returns_cmd_safe, returns_cmd. f_equal.
  unfold returns_gen_safe, returns_gen.
  apply cbind_ext_on. intros _ _.
  rewrite (load_safe_agrees ds (parse_directives_np ds Ha)).
  apply cbind_ext_on. intros b Hb.
  rewrite (pf_partition_safe_agrees cfg b (pf_window_of_load cfg ds b Hw Hb)). reflexivity.
Qed.

(* ---------------------------------------------------------------- the commands of CliTranscode / CliPortfolio under the guards *)

Theorem transcode_cmd_np lenient v ds : accruals_ok ds = true -> cnp (transcode_cmd lenient v ds).
Proof. intros H. rewrite <- (transcode_cmd_safe_agrees lenient v ds H). apply transcode_cmd_safe_np. Qed.

Theorem weights_csv_cmd_np cfg ds : pf_guards cfg ds = true -> cnp (weights_csv_cmd cfg ds).
Proof. intros H. rewrite <- (weights_csv_cmd_safe_agrees cfg ds H). apply weights_csv_cmd_safe_np. Qed.

Theorem returns_cmd_np fx cfg ds : returns_guards cfg ds = true -> cnp (returns_cmd fx cfg ds).
Proof. intros H. rewrite <- (returns_cmd_safe_agrees fx cfg ds H). apply returns_cmd_safe_np. Qed.

(* ---------------------------------------------------------------- exactly when they panic *)

(* transcode (after 864fd70) panics iff a valuation commodity was given and accepted and
   lib/model panics on a directive before any earlier directive is rejected *)
Theorem transcode_cmd_panics_iff lenient v ds :
  (exists m, transcode_cmd lenient v ds = CPanic m) <->
  ((exists c, valuation_flag v = COk (Some c)) /\ (exists m, parse_directives ds = MPanic m)).
Proof.
  unfold transcode_cmd. pose proof (valuation_flag_np v) as Hv.
  destruct (valuation_flag v) as [[c|]|k d|msg]; cbn [cbind].
  - unfold transcode_days, Cli.load.
    destruct (parse_directives ds) as [l|e|m]; cbn [of_mresult cbind].
    + split; [|intros [_ [m H]]; discriminate]. intros [m H]. exfalso. revert H.
      apply cbind_np; [apply transcode_stages_np|]. intros days. apply cnp_ok.
    + split; [intros [m H]; discriminate|intros [_ [m H]]; discriminate].
    + split; [intros _; split; eauto|intros _; eauto].
  - split; [intros [m H]; discriminate|intros [[c H] _]; discriminate].
  - split; [intros [m H]; discriminate|intros [[c H] _]; discriminate].
  - exfalso. exact (Hv msg eq_refl).
Qed.

(* the pinned transcode without -v: it panics unless the journal is rejected first *)
Theorem transcode_cmd_pinned_noval lenient ds :
  (exists k d, transcode_cmd_pinned lenient None ds = CErr k d) \/ (exists m, transcode_cmd_pinned lenient None ds = CPanic m).
Proof.
  unfold transcode_cmd_pinned, valuation_flag. cbn [cbind].
  destruct (Cli.load ds) as [b|k d|m]; cbn [cbind]; [|left; eauto|right; eauto].
  destruct (run_stage sort_proc tt (b_days b)) as [r0|k d|m]; cbn [cbind]; [|left; eauto|right; eauto].
  destruct (run_stage (check_proc lenient) check_init (snd r0)) as [r1|k d|m]; cbn [cbind]; [right; eauto|left; eauto|right; eauto].
Qed.

(* portfolio returns panics iff the valuation flag is accepted and either lib/model panics on
   a directive, or the journal loads and the reporting window starts on day 0 *)
Theorem returns_cmd_panics_iff fx cfg ds :
  (exists m, returns_cmd fx cfg ds = CPanic m) <->
  ((exists u, check_valuation cfg = COk u) /\
   ((exists m, parse_directives ds = MPanic m) \/ pf_window_start_ok cfg ds = false)).
Proof.
  unfold returns_cmd, returns_gen. pose proof (check_valuation_np cfg) as Hv.
  destruct (check_valuation cfg) as [u|k d|msg]; cbn [cbind].
  3: { exfalso. exact (Hv msg eq_refl). }
  2: { split; [intros [m H]; discriminate|intros [[u H] _]; discriminate]. }
  unfold pf_window_start_ok, Cli.load.
  destruct (parse_directives ds) as [l|e|m]; cbn [of_mresult cbind].
  - destruct (pf_partition cfg (builder_of l)) as [part|k d|msg] eqn:Ep; cbn [cbind].
    + assert (Hne : window_start (pc_from cfg) l <> 0).
      { unfold window_start. rewrite <- b_min_builder_of. intros Hz.
        apply (proj2 (pf_partition_panics_iff cfg (builder_of l))) in Hz. destruct Hz as [m Hm]. congruence. }
      apply Z.eqb_neq in Hne. rewrite Hne. cbn [negb].
      split; [|intros [_ [[m H]|H]]; discriminate]. intros [m H]. exfalso. revert H.
      apply cbind_np; [|intros r; apply cnp_ok].
      apply cbind_np; [apply valued_days_np|]. intros days.
      destruct (day_values_ok cfg days) as (vs & ->). cbn [cbind].
      destruct (day_flows_ok fx cfg (snd vs)) as (fs & ->). cbn [cbind]. apply cnp_ok.
    + assert (Hne : window_start (pc_from cfg) l <> 0).
      { unfold window_start. rewrite <- b_min_builder_of. intros Hz.
        apply (proj2 (pf_partition_panics_iff cfg (builder_of l))) in Hz. destruct Hz as [m Hm]. congruence. }
      apply Z.eqb_neq in Hne. rewrite Hne. cbn [negb].
      split; [intros [m H]; discriminate|intros [_ [[m H]|H]]; discriminate].
    + assert (Hz : window_start (pc_from cfg) l = 0).
      { unfold window_start. rewrite <- b_min_builder_of. apply pf_partition_panics_iff. eauto. }
      rewrite Hz. cbn [Z.eqb negb].
      split; [intros _; split; eauto|intros _; eauto].
  - split; [intros [m H]; discriminate|intros [_ [[m H]|H]]; discriminate].
  - split; [intros _; split; eauto|intros _; eauto].
Qed.

(* ---------------------------------------------------------------- each guard is necessary: witnesses *)

(* portfolio flags: no --from, --to 3027-01-27, once, -v CHF; mapping as given *)
Definition w_pf (mapping : list rule) : pf_cfg :=
  mkPfCfg 0 740000 Once 0 (Some w_chf) [] [] mapping true None true.

(* -m -1 (a rule without regex applies to every class path) *)
Definition w_neg_level_all : list rule := [mkRule (-1) 0 None].
(* -m 1:-2 *)
Definition w_neg_suffix_all : list rule := [mkRule 1 (-2) None].

Lemma witness_pf_ok :
  pf_guards (w_pf []) (w_journal w_day None) = true /\
  (exists out, weights_csv_cmd (w_pf []) (w_journal w_day None) = COk out) /\
  (exists out, returns_cmd repaired (w_pf []) (w_journal w_day None) = COk out) /\
  (exists out, transcode_cmd true (Some w_chf) (w_journal w_day None) = COk out).
Proof. split; [vm_compute; reflexivity|]. repeat split; eexists; vm_compute; reflexivity. Qed.

Lemma witness_weights_neg_level :
  mapping_nonneg w_neg_level_all = false /\
  accruals_ok (w_journal w_day None) = true /\ pf_window_start_ok (w_pf w_neg_level_all) (w_journal w_day None) = true /\
  weights_csv_cmd (w_pf w_neg_level_all) (w_journal w_day None) = CPanic k_bounds.
Proof. repeat split; vm_compute; reflexivity. Qed.

Lemma witness_weights_neg_suffix :
  mapping_nonneg w_neg_suffix_all = false /\
  weights_csv_cmd (w_pf w_neg_suffix_all) (w_journal w_day None) = CPanic k_bounds.
Proof. repeat split; vm_compute; reflexivity. Qed.

Lemma witness_pf_inverted_accrual :
  accruals_ok (w_journal w_day (Some w_inverted)) = false /\ mapping_nonneg [] = true /\
  weights_csv_cmd (w_pf []) (w_journal w_day (Some w_inverted)) = CPanic e_divzero /\
  returns_cmd repaired (w_pf []) (w_journal w_day (Some w_inverted)) = CPanic e_divzero /\
  transcode_cmd true (Some w_chf) (w_journal w_day (Some w_inverted)) = CPanic e_divzero.
Proof. repeat split; vm_compute; reflexivity. Qed.

Lemma witness_pf_zero_day :
  pf_window_start_ok (w_pf []) (w_journal 0 None) = false /\ accruals_ok (w_journal 0 None) = true /\
  weights_csv_cmd (w_pf []) (w_journal 0 None) = CPanic k_zerotime /\
  returns_cmd repaired (w_pf []) (w_journal 0 None) = CPanic k_zerotime.
Proof. repeat split; vm_compute; reflexivity. Qed.

(* F9: the pinned transcode without -v on a journal that check accepts *)
Lemma witness_transcode_noval :
  accruals_ok (w_journal w_day None) = true /\ check_cmd true (w_journal w_day None) = COk tt /\
  transcode_cmd_pinned true None (w_journal w_day None) = CPanic k_nil_commodity /\
  transcode_cmd true None (w_journal w_day None) = CErr k_valuation [].
Proof. repeat split; vm_compute; reflexivity. Qed.

(* the repaired commands on the same inputs: errors *)
Lemma witness_repaired_more :
  (exists k d, weights_csv_cmd_safe (w_pf w_neg_level_all) (w_journal w_day None) = CErr k d) /\
  (exists k d, weights_csv_cmd_safe (w_pf []) (w_journal w_day (Some w_inverted)) = CErr k d) /\
  (exists k d, returns_cmd_safe repaired (w_pf []) (w_journal w_day (Some w_inverted)) = CErr k d) /\
  (exists k d, transcode_cmd_safe true (Some w_chf) (w_journal w_day (Some w_inverted)) = CErr k d) /\
  (exists k d, weights_csv_cmd_safe (w_pf []) (w_journal 0 None) = CErr k d) /\
  (exists k d, returns_cmd_safe repaired (w_pf []) (w_journal 0 None) = CErr k d).
Proof. repeat split; eexists; eexists; vm_compute; reflexivity. Qed.

(* ---------------------------------------------------------------- an invalid directive anywhere fails these commands too *)

Theorem invalid_directive_fails_more fs root p items d :
  reach fs root p -> lookup fs p = Some (FOk items) -> In (IDir d) items ->
  (forall o, parse_directive d <> MOk o) ->
  (forall l v s, run_fs fs root (transcode_cmd_safe l v) <> COk s) /\
  (forall cfg s, run_fs fs root (weights_csv_cmd_safe cfg) <> COk s) /\
  (forall fx cfg s, run_fs fs root (returns_cmd_safe fx cfg) <> COk s).
Proof.
  intros Hr Hlk Hin Hbad. unfold run_fs.
  destruct (LoaderM.load (fuel_for fs) fs root) as [ds|e|] eqn:El.
  2: { repeat split; intros; discriminate. }
  2: { repeat split; intros; discriminate. }
  pose proof (included_directive_loaded fs root p items d Hr Hlk Hin _ _ El) as Hd.
  pose proof (load_safe_not_ok ds d Hd Hbad) as Hno.
  repeat split.
  - intros l v s H. unfold transcode_cmd_safe in H. apply cbind_ok_inv in H. destruct H as ([c|] & _ & H); [|discriminate].
    apply cbind_ok_inv in H. destruct H as (days & H & _). unfold transcode_days_safe in H.
    apply cbind_ok_inv in H. destruct H as (b & Hb & _). exact (Hno b Hb).
  - intros cfg s H. unfold weights_csv_cmd_safe in H. apply cbind_ok_inv in H. destruct H as (t & H & _).
    unfold weights_table_safe in H. apply cbind_ok_inv in H. destruct H as (es & H & _).
    unfold weights_entries_safe in H. destruct (negb (mapping_flag_ok (pc_mapping cfg))); [discriminate|].
    apply cbind_ok_inv in H. destruct H as (u & _ & H).
    apply cbind_ok_inv in H. destruct H as (u' & _ & H).
    apply cbind_ok_inv in H. destruct H as (b & Hb & _). exact (Hno b Hb).
  - intros fx cfg s H. unfold returns_cmd_safe in H. apply cbind_ok_inv in H. destruct H as (l & H & _).
    unfold returns_gen_safe in H. apply cbind_ok_inv in H. destruct H as (u' & _ & H).
    apply cbind_ok_inv in H. destruct H as (b & Hb & _). exact (Hno b Hb).
Qed.

(* ---------------------------------------------------------------- on a file tree; by the result type *)

Theorem commands_fs_np_more lenient v cfg fs root :
  transcode_fs lenient v fs root <> PredPANIC /\ weights_fs cfg fs root <> PredPANIC /\ returns_fs cfg fs root <> PredPANIC.
Proof.
  assert (H : forall A (r : cresult A), cnp r -> predict r <> PredPANIC).
  { intros A r Hr. destruct r as [a|k d|m]; cbn [predict]; try discriminate. exfalso. exact (Hr m eq_refl). }
  unfold transcode_fs, weights_fs, returns_fs. repeat split; apply H; apply run_fs_np; intros ds.
  - apply transcode_cmd_safe_np.
  - apply weights_csv_cmd_safe_np.
  - apply returns_cmd_safe_np.
Qed.

Lemma repaired_np_more lenient v fx cfg ds m :
  transcode_cmd_safe lenient v ds <> CPanic m /\ weights_csv_cmd_safe cfg ds <> CPanic m /\
  returns_cmd_safe fx cfg ds <> CPanic m.
Proof. split; [apply transcode_cmd_safe_np|]. split; [apply weights_csv_cmd_safe_np|apply returns_cmd_safe_np]. Qed.

Lemma error_empty_stdout_more lenient v fx cfg ds k d :
  (transcode_cmd lenient v ds = CErr k d -> stdout_of (transcode_cmd lenient v ds) = []) /\
  (weights_csv_cmd cfg ds = CErr k d -> stdout_of (weights_csv_cmd cfg ds) = []) /\
  (returns_cmd fx cfg ds = CErr k d -> stdout_of (returns_cmd fx cfg ds) = []) /\
  (transcode_cmd_safe lenient v ds = CErr k d -> stdout_of (transcode_cmd_safe lenient v ds) = []) /\
  (weights_csv_cmd_safe cfg ds = CErr k d -> stdout_of (weights_csv_cmd_safe cfg ds) = []) /\
  (returns_cmd_safe fx cfg ds = CErr k d -> stdout_of (returns_cmd_safe fx cfg ds) = []).
Proof. repeat split; apply error_no_output. Qed.
