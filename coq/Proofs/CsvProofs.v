(* Model/Csv.v: the reader never runs out of fuel (every loop consumes input), and every record it returns has the
   number of fields FieldsPerRecord demands. *)
From Coq Require Import ZArith List Bool Lia.
From Knut Require Import Model.Bytes Model.Csv.
Import ListNotations.
Open Scope Z_scope.

(* ---------------------------------------------------------------- unfolding equations *)
Lemma trim_line_cons : forall a t,
  trim_line (a :: t) =
    if a =? b_nl then (t, true)
    else if ws1 a then trim_line t
    else match t with
         | b :: t2 =>
           if ws2 a b then trim_line t2
           else match t2 with
                | c :: t3 => if ws3 a b c then trim_line t3 else (a :: t, false)
                | [] => (a :: t, false)
                end
         | [] => (a :: t, false)
         end.
Proof. reflexivity. Qed.

Lemma scan_quoted_cons : forall lz comma c t,
  scan_quoted lz comma (c :: t) =
    if c =? b_quote then
      match t with
      | [] => QDone [] TEol []
      | d :: t' =>
        if d =? b_quote then qcons b_quote (scan_quoted lz comma t')
        else if d =? comma then QDone [] TComma t'
        else if d =? b_nl then QDone [] TEol t'
        else if lz then qcons b_quote (scan_quoted lz comma t)
        else QErr ErrQuote
      end
    else qcons c (scan_quoted lz comma t).
Proof. reflexivity. Qed.

Definition field_start (cfg : csv_cfg) (s : str) : str * bool :=
  if cc_trim cfg then trim_line s else (s, false).

Lemma parse_fields_S : forall cfg fuel s,
  parse_fields cfg (S fuel) s =
    let '(s1, ended) := field_start cfg s in
    if ended then RecOk [[]] s1
    else
      match s1 with
      | c :: t =>
        if c =? b_quote then
          match scan_quoted (cc_lazy cfg) (cc_comma cfg) t with
          | QErr e => RecErr e
          | QDone f TComma r => rcons f (parse_fields cfg fuel r)
          | QDone f TEol r => RecOk [f] r
          end
        else
          let '(f, tm, r) := scan_unquoted (cc_comma cfg) s1 in
          if negb (cc_lazy cfg) && has_quote f then RecErr ErrBareQuote
          else match tm with
               | TComma => rcons f (parse_fields cfg fuel r)
               | TEol => RecOk [f] r
               end
      | [] => RecOk [[]] []
      end.
Proof. reflexivity. Qed.

(* ---------------------------------------------------------------- every scanner returns a suffix no longer than its input *)
Lemma trim_line_len_n : forall n s, (length s <= n)%nat -> forall s1 b, trim_line s = (s1, b) ->
  (length s1 <= length s)%nat /\ (b = true -> s <> [] -> (length s1 < length s)%nat).
Proof.
  induction n as [|n IH]; intros s Hn s1 b H.
  - destruct s as [|a t]; [|simpl in Hn; lia]. cbn in H. inversion H; subst. split; [lia|congruence].
  - destruct s as [|a t]; [cbn in H; inversion H; subst; split; [lia|congruence]|].
    rewrite trim_line_cons in H. simpl in Hn.
    destruct (a =? b_nl). { inversion H; subst. simpl. split; intros; lia. }
    destruct (ws1 a). { apply IH in H; [|lia]. destruct H as [H1 _]. simpl. split; intros; lia. }
    destruct t as [|b0 t2]. { inversion H; subst. split; [lia|discriminate]. }
    destruct (ws2 a b0). { apply IH in H; [|simpl in *; lia]. destruct H as [H1 _]. simpl in *. split; intros; lia. }
    destruct t2 as [|c t3]. { inversion H; subst. split; [lia|discriminate]. }
    destruct (ws3 a b0 c). { apply IH in H; [|simpl in *; lia]. destruct H as [H1 _]. simpl in *. split; intros; lia. }
    inversion H; subst. split; [lia|discriminate].
Qed.

Lemma field_start_len : forall cfg s s1 b, field_start cfg s = (s1, b) ->
  (length s1 <= length s)%nat /\ (b = true -> s <> [] -> (length s1 < length s)%nat).
Proof.
  intros cfg s s1 b H. unfold field_start in H. destruct (cc_trim cfg).
  - eapply trim_line_len_n; [apply le_n|exact H].
  - inversion H; subst. split; [lia|discriminate].
Qed.

Lemma scan_unquoted_len : forall c s f tm r, scan_unquoted c s = (f, tm, r) ->
  (length r <= length s)%nat /\ (s <> [] -> (length r < length s)%nat).
Proof.
  induction s as [|a t IH]; intros f tm r H; cbn [scan_unquoted] in H.
  - inversion H; subst. split; [lia|congruence].
  - destruct (a =? b_nl). { inversion H; subst. simpl. split; intros; lia. }
    destruct (a =? c). { inversion H; subst. simpl. split; intros; lia. }
    destruct (scan_unquoted c t) as [[f' tm'] r'] eqn:E. inversion H; subst.
    destruct (IH _ _ _ eq_refl) as [H1 _]. simpl. split; intros; lia.
Qed.

Lemma scan_quoted_len_n : forall lz c n s, (length s <= n)%nat -> forall f tm r,
  scan_quoted lz c s = QDone f tm r -> (length r <= length s)%nat.
Proof.
  induction n as [|n IH]; intros s Hn f tm r H.
  - destruct s as [|a t]; [|simpl in Hn; lia]. cbn in H. destruct lz; inversion H; subst; simpl; lia.
  - destruct s as [|a t]. { cbn in H. destruct lz; inversion H; subst; simpl; lia. }
    rewrite scan_quoted_cons in H. simpl in Hn.
    destruct (a =? b_quote).
    + destruct t as [|d t']. { inversion H; subst; simpl; lia. }
      destruct (d =? b_quote).
      { destruct (scan_quoted lz c t') as [f0 tm0 r0|e0] eqn:E; cbn [qcons] in H; [|discriminate].
        inversion H; subst. apply IH in E; [|simpl in *; lia]. simpl; lia. }
      destruct (d =? c). { inversion H; subst; simpl; lia. }
      destruct (d =? b_nl). { inversion H; subst; simpl; lia. }
      destruct lz; [|discriminate].
      destruct (scan_quoted true c (d :: t')) as [f0 tm0 r0|e0] eqn:E; cbn [qcons] in H; [|discriminate].
      inversion H; subst. apply IH in E; [|simpl in *; lia]. simpl in *; lia.
    + destruct (scan_quoted lz c t) as [f0 tm0 r0|e0] eqn:E; cbn [qcons] in H; [|discriminate].
      inversion H; subst. apply IH in E; [|lia]. simpl; lia.
Qed.

Lemma scan_quoted_len : forall lz c s f tm r, scan_quoted lz c s = QDone f tm r -> (length r <= length s)%nat.
Proof. intros. eapply scan_quoted_len_n; [apply le_n|eassumption]. Qed.

Lemma skip_lines_len : forall cfg s b, (length (skip_lines cfg b s) <= length s)%nat.
Proof.
  induction s as [|c t IH]; intros b; cbn [skip_lines]; [lia|].
  destruct b. { specialize (IH (negb (c =? b_nl))). simpl; lia. }
  destruct (c =? b_nl). { specialize (IH false). simpl; lia. }
  destruct (negb (cc_comment cfg =? 0) && (c =? cc_comment cfg)). { specialize (IH true). simpl; lia. }
  lia.
Qed.

(* ---------------------------------------------------------------- a record: at least one field, input consumed *)
Lemma parse_fields_ok_len : forall cfg fuel s fs rest, parse_fields cfg fuel s = RecOk fs rest ->
  (length rest <= length s)%nat /\ (s <> [] -> (length rest < length s)%nat) /\ fs <> [].
Proof.
  induction fuel as [|fuel IH]; intros s fs rest H; [discriminate|].
  rewrite parse_fields_S in H.
  destruct (field_start cfg s) as [s1 ended] eqn:E. apply field_start_len in E. destruct E as [L1 L2].
  destruct ended.
  { inversion H; subst. split; [lia|]. split; [intros; apply L2; auto|discriminate]. }
  destruct s1 as [|c t].
  { inversion H; subst. simpl. split; [lia|]. split; [|discriminate]. destruct s; [congruence|simpl; lia]. }
  simpl in L1.
  destruct (c =? b_quote).
  - destruct (scan_quoted (cc_lazy cfg) (cc_comma cfg) t) as [f tm r|e] eqn:Q; [|discriminate].
    apply scan_quoted_len in Q. destruct tm.
    + destruct (parse_fields cfg fuel r) as [fs0 rest0|e0|] eqn:P; cbn [rcons] in H; try discriminate.
      inversion H; subst. apply IH in P. destruct P as [P1 _].
      split; [lia|]. split; [intros; lia|discriminate].
    + inversion H; subst. split; [lia|]. split; [intros; lia|discriminate].
  - destruct (scan_unquoted (cc_comma cfg) (c :: t)) as [[f tm] r] eqn:U.
    apply scan_unquoted_len in U. destruct U as [_ U2]. specialize (U2 ltac:(discriminate)). simpl in U2.
    destruct (negb (cc_lazy cfg) && has_quote f); [discriminate|].
    destruct tm.
    + destruct (parse_fields cfg fuel r) as [fs0 rest0|e0|] eqn:P; cbn [rcons] in H; try discriminate.
      inversion H; subst. apply IH in P. destruct P as [P1 _].
      split; [lia|]. split; [intros; lia|discriminate].
    + inversion H; subst. split; [lia|]. split; [intros; lia|discriminate].
Qed.

Lemma parse_fields_fuel_ok : forall cfg fuel s, (length s < fuel)%nat -> parse_fields cfg fuel s <> RecFuel.
Proof.
  induction fuel as [|fuel IH]; intros s Hl; [lia|].
  rewrite parse_fields_S.
  destruct (field_start cfg s) as [s1 ended] eqn:E. apply field_start_len in E. destruct E as [L1 _].
  destruct ended; [discriminate|].
  destruct s1 as [|c t]; [discriminate|]. simpl in L1.
  destruct (c =? b_quote).
  - destruct (scan_quoted (cc_lazy cfg) (cc_comma cfg) t) as [f tm r|e] eqn:Q; [|discriminate].
    apply scan_quoted_len in Q. destruct tm; [|discriminate].
    assert (Hr : parse_fields cfg fuel r <> RecFuel) by (apply IH; lia).
    destruct (parse_fields cfg fuel r); cbn [rcons]; congruence.
  - destruct (scan_unquoted (cc_comma cfg) (c :: t)) as [[f tm] r] eqn:U.
    apply scan_unquoted_len in U. destruct U as [_ U2]. specialize (U2 ltac:(discriminate)). simpl in U2.
    destruct (negb (cc_lazy cfg) && has_quote f); [discriminate|].
    destruct tm; [|discriminate].
    assert (Hr : parse_fields cfg fuel r <> RecFuel) by (apply IH; lia).
    destruct (parse_fields cfg fuel r); cbn [rcons]; congruence.
Qed.

Lemma read_all_fuel_ok : forall cfg fuel fpr s, (length s < fuel)%nat -> read_all cfg fuel fpr s <> CsvOutOfFuel.
Proof.
  induction fuel as [|fuel IH]; intros fpr s Hl; [lia|].
  cbn [read_all].
  pose proof (skip_lines_len cfg s false) as K.
  destruct (skip_lines cfg false s) as [|a s']; [discriminate|].
  destruct (parse_fields cfg (S (length (a :: s'))) (a :: s')) as [fs rest|e|] eqn:P.
  - destruct (count_bad fpr fs); [discriminate|].
    apply parse_fields_ok_len in P. destruct P as [_ [P2 _]]. specialize (P2 ltac:(discriminate)).
    assert (Hr : read_all cfg fuel (next_fpr fpr fs) rest <> CsvOutOfFuel) by (apply IH; lia).
    destruct (read_all cfg fuel (next_fpr fpr fs) rest); congruence.
  - discriminate.
  - exfalso. revert P. apply parse_fields_fuel_ok. lia.
Qed.

Lemma csv_read_all_total : forall cfg input,
  (exists rs, csv_read_all cfg input = CsvRecords rs) \/
  (exists before e, csv_read_all cfg input = CsvError before e).
Proof.
  intros cfg input. unfold csv_read_all.
  destruct (delims_ok cfg); [|right; eauto].
  pose proof (read_all_fuel_ok cfg (S (length (csv_normalize input))) (cc_fpr cfg) (csv_normalize input) ltac:(lia)) as H.
  destruct (read_all cfg (S (length (csv_normalize input))) (cc_fpr cfg) (csv_normalize input)); [left|right|congruence]; eauto.
Qed.

(* ---------------------------------------------------------------- field counts *)
Fixpoint count_ok (fpr : Z) (rs : list (list str)) : Prop :=
  match rs with
  | [] => True
  | r :: rest => r <> [] /\ (0 < fpr -> Z.of_nat (length r) = fpr) /\ count_ok (next_fpr fpr r) rest
  end.

Lemma count_bad_false : forall fpr fs, count_bad fpr fs = false -> 0 < fpr -> Z.of_nat (length fs) = fpr.
Proof.
  intros fpr fs H Hp. unfold count_bad in H.
  destruct (Z.ltb_spec 0 fpr); [|lia].
  destruct (Z.eqb_spec (Z.of_nat (length fs)) fpr); [assumption|discriminate].
Qed.

Lemma read_all_count : forall cfg fuel fpr s,
  match read_all cfg fuel fpr s with
  | CsvRecords rs => count_ok fpr rs
  | CsvError before _ => count_ok fpr before
  | CsvOutOfFuel => True
  end.
Proof.
  induction fuel as [|fuel IH]; intros fpr s; [exact I|].
  cbn [read_all].
  destruct (skip_lines cfg false s) as [|a s']; [exact I|].
  destruct (parse_fields cfg (S (length (a :: s'))) (a :: s')) as [fs rest|e|] eqn:P; [|exact I|exact I].
  destruct (count_bad fpr fs) eqn:C; [exact I|].
  apply parse_fields_ok_len in P. destruct P as [_ [_ P3]].
  specialize (IH (next_fpr fpr fs) rest).
  destruct (read_all cfg fuel (next_fpr fpr fs) rest); cbn [count_ok]; auto using count_bad_false.
Qed.

Lemma next_fpr_nonzero : forall fpr r, fpr <> 0 -> next_fpr fpr r = fpr.
Proof. intros fpr r H. unfold next_fpr. destruct (Z.eqb_spec fpr 0); [contradiction|reflexivity]. Qed.

Lemma count_ok_nonempty : forall rs fpr, count_ok fpr rs -> Forall (fun r => r <> []) rs.
Proof. induction rs as [|r rs IH]; intros fpr H; [constructor|]. destruct H as [H1 [_ H3]]. constructor; eauto. Qed.

Lemma count_ok_pos : forall rs fpr, 0 < fpr -> count_ok fpr rs -> Forall (fun r => Z.of_nat (length r) = fpr) rs.
Proof.
  induction rs as [|r rs IH]; intros fpr Hp H; [constructor|]. destruct H as [_ [H2 H3]].
  rewrite next_fpr_nonzero in H3 by lia. constructor; auto.
Qed.

Lemma count_ok_zero : forall rs, count_ok 0 rs -> exists n, Forall (fun r => length r = n) rs.
Proof.
  intros [|r rs] H; [exists O; constructor|]. destruct H as [H1 [_ H3]]. exists (length r).
  constructor; [reflexivity|].
  unfold next_fpr in H3. cbn in H3.
  assert (Hp : 0 < Z.of_nat (length r)) by (destruct r; [congruence|simpl length; lia]).
  apply count_ok_pos in H3; [|exact Hp].
  eapply Forall_impl; [|exact H3]. cbv beta. intros x Hx. lia.
Qed.

Lemma csv_read_all_field_count : forall cfg input rs,
  (csv_read_all cfg input = CsvRecords rs \/ exists e, csv_read_all cfg input = CsvError rs e) ->
  Forall (fun r => r <> []) rs /\
  (0 < cc_fpr cfg -> Forall (fun r => Z.of_nat (length r) = cc_fpr cfg) rs) /\
  (cc_fpr cfg = 0 -> exists n, Forall (fun r => length r = n) rs).
Proof.
  intros cfg input rs H.
  assert (C : count_ok (cc_fpr cfg) rs).
  { unfold csv_read_all in H. destruct (delims_ok cfg).
    - pose proof (read_all_count cfg (S (length (csv_normalize input))) (cc_fpr cfg) (csv_normalize input)) as R.
      destruct H as [H|[e H]]; rewrite H in R; exact R.
    - destruct H as [H|[e H]]; [discriminate|]. inversion H; subst. exact I. }
  split; [eapply count_ok_nonempty; exact C|]. split.
  - intros Hp. apply count_ok_pos; assumption.
  - intros Hz. rewrite Hz in C. apply count_ok_zero; assumption.
Qed.
