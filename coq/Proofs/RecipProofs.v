(* The reciprocal that Prices.Insert stores, one.Div(p).Truncate(8), characterised without
   the division algorithm of shopspring/decimal: it is 10^16/p rounded to the nearest integer
   (ties away from zero), cut toward zero to 8 decimals. *)
From Coq Require Import ZArith List Bool Lia.
From Knut Require Import Model.Str Model.Dec Model.Price Spec.PriceSpec Proofs.DecProofs.
Import ListNotations.
Open Scope bool_scope.
Open Scope Z_scope.

Lemma round_core a b :
  0 < a -> b <> 0 ->
  (2 * Z.abs (Z.rem a b) < Z.abs b -> nearest_half_away a b (Z.quot a b)) /\
  (Z.abs b <= 2 * Z.abs (Z.rem a b) ->
   nearest_half_away a b (if Z.sgn b <? 0 then Z.quot a b - 1 else Z.quot a b + 1)).
Proof.
  intros Ha Hb.
  pose proof (Z.quot_rem' a b) as E.
  assert (0 <= Z.rem a b < Z.abs b) as Hr.
  { split; [apply Z.rem_nonneg; lia|]. pose proof (Z.rem_bound_abs a b Hb) as H.
    rewrite (Z.abs_eq (Z.rem a b)) in H by (apply Z.rem_nonneg; lia). exact H. }
  set (q := Z.quot a b) in *. set (r := Z.rem a b) in *. unfold nearest_half_away.
  assert (a - q * b = r) as D0 by lia.
  split.
  - intros H. rewrite D0. split; [lia|]. intros T. lia.
  - intros H. destruct (Z.sgn b <? 0) eqn:S.
    + apply Z.ltb_lt in S. assert (b < 0) as Hneg by (destruct b; cbn in S; lia).
      assert (a - (q - 1) * b = r + b) as D1 by lia. rewrite D1.
      assert ((q - 1) * b = a - (r + b)) as D2 by lia. rewrite D2. split; lia.
    + apply Z.ltb_ge in S. assert (0 < b) as Hpos by (destruct b; cbn in S; lia).
      assert (a - (q + 1) * b = r - b) as D1 by lia. rewrite D1.
      assert ((q + 1) * b = a - (r - b)) as D2 by lia. rewrite D2. split; lia.
Qed.

Lemma cmp_same_ex a b e :
  cmp (mkDec a e) (mkDec b e) = match a ?= b with Lt => -1 | Eq => 0 | Gt => 1 end.
Proof. unfold cmp, rescale_pair. cbn [ex coef]. rewrite Z.eqb_refl. reflexivity. Qed.

Lemma cmp_lt0 x y : (match x ?= y with Lt => -1 | Eq => 0 | Gt => 1 end <? 0) = (x <? y).
Proof. unfold Z.ltb at 2. destruct (x ?= y); reflexivity. Qed.

Lemma coef_dabs p : coef (dabs p) = Z.abs (coef p) /\ ex (dabs p) = ex p.
Proof.
  unfold dabs. destruct (coef p <? 0) eqn:E; cbn [coef ex]; [split; reflexivity|].
  apply Z.ltb_ge in E. rewrite Z.abs_eq by exact E. split; reflexivity.
Qed.

Lemma recip_is_recip p : is_zero p = false -> is_recip p (recip p).
Proof.
  unfold is_zero. intros Hz. apply Z.eqb_neq in Hz.
  destruct p as [c e]. cbn [coef] in Hz.
  unfold is_recip, recip_fraction, recip, div, div_round, quo_rem, one, of_int, division_precision.
  cbn [coef ex]. apply Z.eqb_neq in Hz. rewrite Hz. apply Z.eqb_neq in Hz.
  assert (forall n, truncate (mkDec n (-16)) 8 = mkDec (Z.quot n (pow10 8)) (-8)) as Htr.
  { intros n. reflexivity. }
  replace (0 - e - - (16)) with (16 - e) by lia.
  replace (- (16) + e) with (e - 16) by lia.
  change (- (16)) with (-16).
  destruct (Z.leb_spec e 16) as [He|He].
  - (* 10^(16-e) / c *)
    assert (16 - e <? 0 = false) as -> by (apply Z.ltb_ge; lia).
    rewrite Z.mul_1_l.
    cbn [fst snd coef ex].
    assert (0 < pow10 (16 - e)) as Hpos by (apply pow10_nonneg_pos; lia).
    destruct (round_core (pow10 (16 - e)) c Hpos Hz) as [R1 R2].
    replace (e - 16 + 16) with e by lia.
    destruct (coef_dabs (mkDec c e)) as [Hc He']. cbn [coef ex] in Hc, He'.
    assert (dabs (mkDec c e) = mkDec (Z.abs c) e) as -> by (destruct (dabs (mkDec c e)); cbn in *; congruence).
    rewrite cmp_same_ex, cmp_lt0.
    destruct (Z.ltb_spec (Z.abs (Z.rem (pow10 (16 - e)) c) * 2) (Z.abs c)) as [Hlt|Hge].
    + eexists. split; [apply R1; lia|]. apply Htr.
    + rewrite Z.sgn_pos by lia. rewrite Z.mul_1_l.
      unfold sub, add, dec_new, rescale_pair. cbn [coef ex]. rewrite Z.eqb_refl. cbn [coef ex].
      specialize (R2 ltac:(lia)). destruct (Z.sgn c <? 0); eexists; (split; [exact R2 | apply Htr]).
  - (* 1 / (c * 10^(e-16)) *)
    assert (16 - e <? 0 = true) as -> by (apply Z.ltb_lt; lia).
    replace (- (16 - e)) with (e - 16) by lia.
    cbn [fst snd coef ex].
    assert (0 < pow10 (e - 16)) as Hpos by (apply pow10_nonneg_pos; lia).
    assert (c * pow10 (e - 16) <> 0) as Hb by nia.
    destruct (round_core 1 (c * pow10 (e - 16)) ltac:(lia) Hb) as [R1 R2].
    destruct (coef_dabs (mkDec c e)) as [Hc He']. cbn [coef ex] in Hc, He'.
    assert (dabs (mkDec c e) = mkDec (Z.abs c) e) as -> by (destruct (dabs (mkDec c e)); cbn in *; congruence).
    assert (cmp (mkDec (Z.abs (Z.rem 1 (c * pow10 (e - 16))) * 2) (0 + 16)) (mkDec (Z.abs c) e)
            = match Z.abs (Z.rem 1 (c * pow10 (e - 16))) * 2 ?= Z.abs c * pow10 (e - 16) with
              | Lt => -1 | Eq => 0 | Gt => 1 end) as ->.
    { unfold cmp, rescale_pair, rescale. cbn [coef ex].
      assert (0 + 16 =? e = false) as -> by (apply Z.eqb_neq; lia).
      rewrite Z.min_l by lia. rewrite Z.eqb_refl. cbn [negb coef ex].
      assert (e =? 0 + 16 = false) as -> by (apply Z.eqb_neq; lia).
      assert (e <? 0 + 16 = false) as -> by (apply Z.ltb_ge; lia).
      cbn [coef ex]. replace (Z.abs (0 + 16 - e)) with (e - 16) by lia. reflexivity. }
    rewrite cmp_lt0.
    assert (Z.abs (c * pow10 (e - 16)) = Z.abs c * pow10 (e - 16)) as Habs.
    { rewrite Z.abs_mul. rewrite (Z.abs_eq (pow10 (e - 16))) by lia. reflexivity. }
    destruct (Z.ltb_spec (Z.abs (Z.rem 1 (c * pow10 (e - 16))) * 2) (Z.abs c * pow10 (e - 16))) as [Hlt|Hge].
    + eexists. split; [apply R1; lia|]. apply Htr.
    + rewrite Z.sgn_pos by lia. rewrite Z.mul_1_l.
      unfold sub, add, dec_new, rescale_pair. cbn [coef ex]. rewrite Z.eqb_refl. cbn [coef ex].
      specialize (R2 ltac:(lia)).
      assert (Z.sgn (c * pow10 (e - 16)) = Z.sgn c) as Hs.
      { rewrite Z.sgn_mul, (Z.sgn_pos (pow10 (e - 16))) by lia. lia. }
      rewrite Hs in R2. destruct (Z.sgn c <? 0); eexists; (split; [exact R2 | apply Htr]).
Qed.
