(* The rational value of a decimal record (Spec/AccrualSpec.v dvalue) and the exactness of the
   decimal operations the accrual expansion uses: add, neg, mul, of_int, quo_rem. *)
From Coq Require Import ZArith QArith Qpower List Bool Lia.
From Knut Require Import Model.Dec Proofs.DecProofs Spec.AccrualSpec.
Import ListNotations.
Open Scope bool_scope.
Open Scope Z_scope.

Definition ten : Q := 10 # 1.

Lemma ten_nz : ~ (ten == 0)%Q.
Proof. unfold ten, Qeq. cbn. lia. Qed.

Lemma inject_pow10 k : 0 <= k -> (inject_Z (pow10 k) == Qpower ten k)%Q.
Proof.
  intros Hk. unfold pow10. rewrite Zpower_Qpower by assumption. reflexivity.
Qed.

Lemma qpow_split a b : (Qpower ten (a + b) == Qpower ten a * Qpower ten b)%Q.
Proof. apply Qpower_plus. exact ten_nz. Qed.

Lemma dvalue_unfold d : dvalue d = (inject_Z (coef d) * Qpower ten (ex d))%Q.
Proof. reflexivity. Qed.

(* the value at any smaller exponent *)
Lemma dvalue_scale d m : m <= ex d -> (dvalue d == inject_Z (scale_to d m) * Qpower ten m)%Q.
Proof.
  intros H. rewrite dvalue_unfold. unfold scale_to.
  rewrite inject_Z_mult, inject_pow10 by lia.
  replace (ex d) with ((ex d - m) + m) at 1 by ring.
  rewrite qpow_split. ring.
Qed.

Lemma dvalue_add a b : (dvalue (add a b) == dvalue a + dvalue b)%Q.
Proof.
  rewrite add_normal. set (m := Z.min (ex a) (ex b)).
  rewrite (dvalue_scale a m), (dvalue_scale b m) by (unfold m; lia).
  rewrite dvalue_unfold. cbn [coef ex]. rewrite inject_Z_plus. ring.
Qed.

Lemma dvalue_neg d : (dvalue (neg d) == - dvalue d)%Q.
Proof.
  rewrite !dvalue_unfold. unfold neg. cbn [coef ex]. rewrite inject_Z_opp. ring.
Qed.

Lemma dvalue_mul a b : (dvalue (mul a b) == dvalue a * dvalue b)%Q.
Proof.
  rewrite !dvalue_unfold. unfold mul. cbn [coef ex]. rewrite inject_Z_mult, qpow_split. ring.
Qed.

Lemma dvalue_of_int n : (dvalue (of_int n) == inject_Z n)%Q.
Proof. rewrite dvalue_unfold. unfold of_int. cbn [coef ex]. cbn [Qpower]. ring. Qed.

Lemma dvalue_zero_coef e : (dvalue (mkDec 0 e) == 0)%Q.
Proof. rewrite dvalue_unfold. cbn [coef ex]. unfold inject_Z. ring. Qed.

Lemma dvalue_is_zero d : is_zero d = true -> (dvalue d == 0)%Q.
Proof.
  unfold is_zero. intros H. apply Z.eqb_eq in H. rewrite dvalue_unfold, H. unfold inject_Z. ring.
Qed.

(* Decimal.QuoRem by an integer at precision 1: d = n * q + r exactly *)
Lemma quo_rem_spec d n q r :
  quo_rem d (of_int n) 1 = DOk (q, r) ->
  (dvalue d == inject_Z n * dvalue q + dvalue r)%Q.
Proof.
  unfold quo_rem, of_int. cbn [coef ex]. change (- (1)) with (-1).
  replace (ex d - 0 - -1) with (ex d + 1) by ring. replace (-1 + 0) with (-1) by ring.
  destruct (n =? 0) eqn:En; [discriminate|]. apply Z.eqb_neq in En.
  destruct (ex d + 1 <? 0) eqn:Ee; intros H; injection H as Hq Hr; subst q r;
    rewrite !dvalue_unfold; cbn [coef ex].
  - apply Z.ltb_lt in Ee.
    remember (- (ex d + 1)) as k eqn:Hk.
    remember (n * pow10 k) as bb eqn:Hbb.
    pose proof (Z.quot_rem' (coef d) bb) as Hqr.
    rewrite Hqr at 1. rewrite inject_Z_plus, inject_Z_mult. rewrite Hbb at 1.
    rewrite inject_Z_mult, inject_pow10 by lia.
    assert (Hp : (Qpower ten k * Qpower ten (ex d) == Qpower ten (-1))%Q).
    { rewrite <- qpow_split. replace (k + ex d) with (-1) by lia. reflexivity. }
    rewrite <- Hp. ring.
  - apply Z.ltb_ge in Ee.
    remember (ex d + 1) as e eqn:He.
    pose proof (Z.quot_rem' (coef d * pow10 e) n) as Hqr.
    assert (Hv : (inject_Z (coef d) * Qpower ten (ex d) == inject_Z (coef d * pow10 e) * Qpower ten (-1))%Q).
    { rewrite inject_Z_mult, inject_pow10 by lia.
      replace (ex d) with (e + -1) at 1 by lia. rewrite qpow_split. ring. }
    rewrite Hv. rewrite Hqr at 1. rewrite inject_Z_plus, inject_Z_mult. ring.
Qed.

(* the quotient has exponent -1 (one decimal place), the remainder is smaller than n units of
   that place in absolute value *)
Lemma quo_rem_ok d n : n <> 0 -> exists q r, quo_rem d (of_int n) 1 = DOk (q, r).
Proof.
  intros Hn. unfold quo_rem, of_int. cbn [coef ex].
  replace (n =? 0) with false by lia.
  destruct (ex d - 0 - - (1) <? 0); eexists; eexists; reflexivity.
Qed.

Lemma quo_rem_zero_panics d : quo_rem d (of_int 0) 1 = DPanic.
Proof. reflexivity. Qed.
