(* C20, part 3: the weights report, over rationals.
   - the entries of a day are value / total, and sum to 1 when the total is not zero;
   - Report.Add / PropagateWeights: after propagation a node's weight is its own weight plus
     the weights of its children, and equals the sum of all entries booked in its subtree;
     the top-level rows together carry every entry.
   Weights are read with [wsum] (the sum of a date's entries of a weight map); on the maps the
   report builds (ascending dates, [wm_asc]) this is the cell the renderer reads ([wsum_get]). *)
From Coq Require Import ZArith QArith Qfield List Bool Lia.
From Knut Require Import Model.Str Model.Dec Model.Date Model.Account Model.Ledger Model.Price
     Model.Journal Model.Perf Model.Weights Spec.PortfolioSpec Proofs.PortfolioDays Proofs.PortfolioReturns.
Import ListNotations.
Open Scope Q_scope.

Ltac qring := unfold qsum; ring.

Lemma qsum_app a b : qsum (a ++ b) == qsum a + qsum b.
Proof. unfold qsum. induction a as [|x a IH]; cbn [app fold_right]; [qring|rewrite IH; qring]. Qed.

(* ------------------------------------------------------------ sums of a pcv *)

Lemma pcv_sum_spec (m : pcv) : pcv_sum m == qsum (map snd m).
Proof.
  unfold pcv_sum. assert (G : forall acc, fold_left (fun a kv => qadd a (snd kv)) m acc == acc + qsum (map snd m)).
  { induction m as [|kv m IH]; intros acc; cbn [fold_left map qsum fold_right]; [qring|].
    rewrite IH, qadd_eq. unfold qsum. qring. }
  rewrite G. qring.
Qed.

(* ------------------------------------------------------------ the entries of one day *)

Definition entry_w (e : entry) : Q := let '(_, _, w) := e in oq w.
Definition entry_date (e : entry) : Z := let '(_, d, _) := e in d.
Definition entry_path (e : entry) : list str := let '(ss, _, _) := e in ss.

(* each entry of a day is the commodity's value over the day's total *)
Lemma day_entries_def u m date total v1 es :
  day_entries u m date total v1 = WOk es ->
  map (fun e => (entry_date e, let '(_, _, w) := e in w)) es = map (fun kv => (date, qdiv (snd kv) total)) v1 /\
  Forall2 (fun e kv => map_path m (locate u (fst kv)) = Some (entry_path e)) es v1.
Proof.
  revert es. induction v1 as [|[c v] v1 IH]; intros es H; cbn [day_entries] in H.
  - inversion H; subst. split; [reflexivity|constructor].
  - destruct (map_path m (locate u c)) as [ss|] eqn:Em; try discriminate.
    destruct (day_entries u m date total v1) as [l|] eqn:El; try discriminate.
    inversion H; subst. destruct (IH l eq_refl) as [H1 H2]. split.
    + cbn [map entry_date snd]. rewrite H1. reflexivity.
    + constructor; [exact Em|exact H2].
Qed.

(* with a non-zero total the entries are defined and sum to 1 *)
Lemma day_entries_sum u m date total v1 es :
  day_entries u m date total v1 = WOk es -> ~ total == 0 ->
  defined_entries es /\ qsum (map entry_w es) == qsum (map snd v1) / total.
Proof.
  intros H Hnz. revert es H. induction v1 as [|[c v] v1 IH]; intros es H; cbn [day_entries] in H.
  - inversion H; subst. split; [constructor|]. cbn. field. exact Hnz.
  - destruct (map_path m (locate u c)) as [ss|]; try discriminate.
    destruct (day_entries u m date total v1) as [l|]; try discriminate.
    inversion H; subst. destruct (IH l eq_refl) as [Hd Hs]. split.
    + constructor; [|exact Hd]. intros Hn. apply qdiv_none in Hn. contradiction.
    + cbn [map qsum fold_right entry_w snd]. fold (qsum (map entry_w l)). fold (qsum (map snd v1)). rewrite Hs.
      destruct (qdiv v total) as [q|] eqn:Eq; [|apply qdiv_none in Eq; contradiction].
      destruct (qdiv_some _ _ _ Eq) as [_ Hq]. cbn [oq]. rewrite Hq. field. exact Hnz.
Qed.

Lemma day_entries_top u m date v1 es :
  day_entries u m date (pcv_sum v1) v1 = WOk es -> ~ pcv_sum v1 == 0 ->
  defined_entries es /\ qsum (map entry_w es) == 1.
Proof.
  intros H Hnz. destruct (day_entries_sum _ _ _ _ _ _ H Hnz) as [Hd Hs]. split; [exact Hd|].
  rewrite Hs, <- pcv_sum_spec. field. exact Hnz.
Qed.

(* ------------------------------------------------------------ weight maps *)

Definition wsum (m : wmap) (d : Z) : Q := qsum (map (fun kv => if (fst kv =? d)%Z then oq (snd kv) else 0) m).
Definition wdefined (m : wmap) : Prop := Forall (fun kv => snd kv <> None) m.

Lemma wm_add_sum m d q d' :
  wdefined m ->
  wdefined (wm_add m d (Some q)) /\ wsum (wm_add m d (Some q)) d' == wsum m d' + (if (d =? d')%Z then q else 0).
Proof.
  unfold wsum. induction m as [|[k w] m IH]; intros Hd; cbn [wm_add].
  - split; [constructor; [discriminate|constructor]|]. cbn [map qsum fold_right fst snd oq]. destruct (d =? d')%Z; qring.
  - inversion Hd as [|? ? Hw Hm]; subst. cbn [snd] in Hw. destruct (d =? k)%Z eqn:E1.
    + apply Z.eqb_eq in E1. subst k. destruct w as [x|]; [|congruence]. split.
      * constructor; [cbn; discriminate|exact Hm].
      * cbn [map qsum fold_right fst snd oadd oq]. destruct (d =? d')%Z; [rewrite qadd_eq|]; qring.
    + destruct (d <? k)%Z.
      * split; [constructor; [discriminate|exact Hd]|]. cbn [map qsum fold_right fst snd oq].
        destruct (d =? d')%Z; qring.
      * destruct (IH Hm) as [H1 H2]. split; [constructor; assumption|].
        cbn [map qsum fold_right fst snd]. unfold qsum in H2. rewrite H2. qring.
Qed.

Lemma wm_plus_sum b : forall a d, wdefined a -> wdefined b ->
  wdefined (wm_plus a b) /\ wsum (wm_plus a b) d == wsum a d + wsum b d.
Proof.
  unfold wm_plus. induction b as [|[k w] b IH]; intros a d Ha Hb; cbn [fold_left].
  - split; [exact Ha|]. unfold wsum. cbn. qring.
  - inversion Hb as [|? ? Hw Hb']; subst. cbn [snd fst] in *. destruct w as [q|]; [|congruence].
    destruct (wm_add_sum a k q d Ha) as [H1 H2]. destruct (IH _ d H1 Hb') as [H3 H4]. split; [exact H3|].
    rewrite H4, H2. unfold wsum. cbn [map qsum fold_right fst snd oq]. destruct (k =? d)%Z; qring.
Qed.

(* on a map with ascending dates the renderer's lookup reads the same number *)
Definition wm_asc (m : wmap) : Prop := asc (map fst m).

Lemma wsum_absent m d : (forall k, In k (map fst m) -> (d < k)%Z) -> wsum m d == 0.
Proof.
  unfold wsum. induction m as [|[k w] m IH]; intros H; cbn; [reflexivity|].
  assert (Hk : (d < k)%Z) by (apply H; left; reflexivity).
  replace (k =? d)%Z with false by (symmetry; apply Z.eqb_neq; lia).
  unfold qsum in IH. rewrite IH; [qring|]. intros k' Hk'. apply H. right. exact Hk'.
Qed.

Lemma wsum_get m d : wm_asc m ->
  wsum m d == match wm_get m d with Some w => oq w | None => 0 end.
Proof.
  unfold wm_asc. induction m as [|[k w] m IH]; intros Ha; cbn [wm_get]; [reflexivity|].
  unfold wsum. cbn [map qsum fold_right fst snd]. destruct (d =? k)%Z eqn:E.
  - apply Z.eqb_eq in E. subst k. rewrite Z.eqb_refl.
    pose proof (wsum_absent m d) as Hz. unfold wsum, qsum in Hz. rewrite Hz; [qring|].
    intros k Hk. cbn [map fst] in Ha. apply (asc_lt d _ Ha k Hk).
  - replace (k =? d)%Z with false by (symmetry; rewrite Z.eqb_sym; exact E).
    specialize (IH (asc_tail _ _ Ha)). unfold wsum, qsum in IH. rewrite IH. qring.
Qed.

Lemma wm_add_dates m d w : map fst (wm_add m d w) = insert_date d (map fst m).
Proof.
  induction m as [|[k x] m IH]; cbn [wm_add map fst insert_date]; [reflexivity|].
  destruct (d =? k)%Z; [reflexivity|]. destruct (d <? k)%Z; [reflexivity|]. cbn [map fst]. rewrite IH. reflexivity.
Qed.

Lemma wm_add_asc m d w : wm_asc m -> wm_asc (wm_add m d w).
Proof. unfold wm_asc. rewrite wm_add_dates. apply insert_date_asc. Qed.

Lemma wm_plus_asc b : forall a, wm_asc a -> wm_asc (wm_plus a b).
Proof.
  unfold wm_plus. induction b as [|kv b IH]; intros a Ha; cbn [fold_left]; [exact Ha|].
  apply IH. apply wm_add_asc. exact Ha.
Qed.

(* ------------------------------------------------------------ trees *)

Section WnodeInd.
  Variable P : wnode -> Prop.
  Hypothesis H : forall s lf w ch, Forall P ch -> P (WNode s lf w ch).
  Fixpoint wnode_ind' (n : wnode) : P n :=
    match n with
    | WNode s lf w ch =>
      H s lf w ch ((fix go (l : list wnode) : Forall P l :=
                      match l with [] => Forall_nil P | c :: r => Forall_cons c (wnode_ind' c) (go r) end) ch)
    end.
End WnodeInd.

(* all weight maps of a subtree *)
Fixpoint tree_maps (n : wnode) : list wmap :=
  match n with WNode _ _ w ch => w :: flat_map tree_maps ch end.

Definition tdefined (n : wnode) : Prop := Forall wdefined (tree_maps n).
Definition tasc (n : wnode) : Prop := Forall wm_asc (tree_maps n).
(* everything booked in the subtree on date d *)
Definition ttotal (n : wnode) (d : Z) : Q := qsum (map (fun m => wsum m d) (tree_maps n)).
Definition ctotal (ch : list wnode) (d : Z) : Q := qsum (map (fun c => ttotal c d) ch).
(* the weight of a node *)
Definition nweight (n : wnode) (d : Z) : Q := wsum (wn_weights n) d.

Lemma ttotal_unfold s lf w ch d : ttotal (WNode s lf w ch) d == wsum w d + ctotal ch d.
Proof.
  unfold ttotal, ctotal. cbn [tree_maps map qsum fold_right]. fold (qsum (map (fun m => wsum m d) (flat_map tree_maps ch))).
  assert (G : qsum (map (fun m => wsum m d) (flat_map tree_maps ch)) == qsum (map (fun c => ttotal c d) ch)).
  { induction ch as [|c ch IH]; cbn [flat_map map]; [reflexivity|].
    rewrite map_app, qsum_app, IH. cbn [qsum fold_right]. unfold ttotal. reflexivity. }
  rewrite G. reflexivity.
Qed.

Lemma tdefined_unfold s lf w ch : tdefined (WNode s lf w ch) <-> wdefined w /\ Forall tdefined ch.
Proof.
  unfold tdefined. cbn [tree_maps]. rewrite Forall_cons_iff. apply and_iff_compat_l.
  induction ch as [|c ch IH]; cbn [flat_map]; [split; constructor|].
  rewrite Forall_app, Forall_cons_iff, IH. reflexivity.
Qed.

(* PropagateWeights: own + children, and the sum over the subtree *)
Lemma fold_plus_sum ms : forall acc d, wdefined acc -> Forall wdefined ms ->
  wdefined (fold_left wm_plus ms acc) /\
  wsum (fold_left wm_plus ms acc) d == wsum acc d + qsum (map (fun m => wsum m d) ms).
Proof.
  induction ms as [|m ms IH]; intros acc d Ha Hm; cbn [fold_left map qsum fold_right].
  - split; [exact Ha|qring].
  - inversion Hm; subst. destruct (wm_plus_sum m acc d Ha H1) as [H3 H4].
    destruct (IH _ d H3 H2) as [H5 H6]. split; [exact H5|]. rewrite H6, H4. unfold qsum. qring.
Qed.

Lemma propagate_weights s lf w ch :
  wn_weights (propagate (WNode s lf w ch)) = fold_left wm_plus (map (fun c => wn_weights (propagate c)) ch) w.
Proof.
  cbn [propagate wn_weights]. generalize w. induction ch as [|c ch IH]; intros w0; cbn [map fold_left]; [reflexivity|].
  apply IH.
Qed.

Lemma propagate_children s lf w ch : wn_children (propagate (WNode s lf w ch)) = map propagate ch.
Proof. reflexivity. Qed.

Lemma propagate_spec n : tdefined n -> forall d,
  wdefined (wn_weights (propagate n)) /\ nweight (propagate n) d == ttotal n d.
Proof.
  induction n as [s lf w ch IH] using wnode_ind'. intros Hd d. apply tdefined_unfold in Hd. destruct Hd as [Hw Hch].
  unfold nweight. rewrite propagate_weights.
  assert (Hall : Forall wdefined (map (fun c => wn_weights (propagate c)) ch)).
  { rewrite Forall_map. rewrite Forall_forall in *. intros c Hc. exact (proj1 (IH c Hc (Hch c Hc) d)). }
  destruct (fold_plus_sum _ w d Hw Hall) as [H1 H2]. split; [exact H1|].
  rewrite H2, ttotal_unfold. apply Qplus_inj_l. unfold ctotal. rewrite map_map.
  clear H1 H2 Hall. induction ch as [|c ch IHc]; cbn [map qsum fold_right]; [reflexivity|].
  inversion IH; subst. inversion Hch; subst. fold (qsum (map (fun x => wsum (wn_weights (propagate x)) d) ch)).
  fold (qsum (map (fun c0 => ttotal c0 d) ch)). rewrite (IHc H2 H4). apply Qplus_inj_r. exact (proj2 (H1 H3 d)).
Qed.

(* a group's weight is the sum of its members (its own bookings, if any, and its children) *)
Lemma propagate_local s lf w ch : tdefined (WNode s lf w ch) -> forall d,
  nweight (propagate (WNode s lf w ch)) d == wsum w d + qsum (map (fun c => nweight (propagate c) d) ch).
Proof.
  intros Hd d. rewrite (proj2 (propagate_spec _ Hd d)), ttotal_unfold. apply Qplus_inj_l.
  apply tdefined_unfold in Hd. destruct Hd as [_ Hch]. unfold ctotal.
  induction ch as [|c ch IH]; cbn [map qsum fold_right]; [reflexivity|]. inversion Hch; subst.
  fold (qsum (map (fun c0 => ttotal c0 d) ch)). fold (qsum (map (fun c0 => nweight (propagate c0) d) ch)).
  rewrite (IH H2), (proj2 (propagate_spec c H1 d)). reflexivity.
Qed.

(* Report.Add books the entry somewhere in the tree, once *)
Lemma wchildren_upd_total h f l d (delta : Q) :
  (forall c, Forall wdefined (tree_maps c) -> Forall wdefined (tree_maps (f c)) /\ ttotal (f c) d == ttotal c d + delta) ->
  Forall tdefined l ->
  Forall tdefined (wchildren_upd h f l) /\ ctotal (wchildren_upd h f l) d == ctotal l d + delta.
Proof.
  intros Hf. assert (Hnew : tdefined (wn_new h)) by (repeat constructor).
  assert (Hn0 : ttotal (wn_new h) d == 0) by reflexivity.
  induction l as [|c l IH]; intros Hl; cbn [wchildren_upd].
  - destruct (Hf _ Hnew) as [H1 H2]. split; [constructor; [exact H1|constructor]|].
    unfold ctotal. cbn [map qsum fold_right]. rewrite H2, Hn0. qring.
  - inversion Hl; subst. unfold ctotal. destruct (str_cmp h (wn_seg c)).
    + destruct (Hf _ H1) as [H3 H4]. split; [constructor; assumption|]. cbn [map qsum fold_right]. rewrite H4. qring.
    + destruct (Hf _ Hnew) as [H3 H4]. split; [constructor; assumption|]. cbn [map qsum fold_right]. rewrite H4, Hn0. qring.
    + destruct (IH H2) as [H3 H4]. split; [constructor; assumption|]. cbn [map qsum fold_right].
      unfold ctotal, qsum in H4. rewrite H4. qring.
Qed.

Lemma wn_add_total ss date q d : forall n, tdefined n ->
  tdefined (wn_add ss date (Some q) n) /\
  ttotal (wn_add ss date (Some q) n) d == ttotal n d + (if (date =? d)%Z then q else 0).
Proof.
  induction ss as [|h tl IH]; intros [s lf w ch] Hd; cbn [wn_add wn_seg wn_leaf wn_weights wn_children];
    apply tdefined_unfold in Hd; destruct Hd as [Hw Hch].
  - destruct (wm_add_sum w date q d Hw) as [H1 H2]. split; [apply tdefined_unfold; split; assumption|].
    rewrite !ttotal_unfold, H2. qring.
  - destruct (wchildren_upd_total h (wn_add tl date (Some q)) ch d (if (date =? d)%Z then q else 0) IH Hch) as [H1 H2].
    split; [apply tdefined_unfold; split; assumption|]. rewrite !ttotal_unfold, H2. qring.
Qed.

Lemma wn_add_root_weights h tl date w n : wn_weights (wn_add (h :: tl) date w n) = wn_weights n.
Proof. reflexivity. Qed.

(* the report of a list of defined entries carries each of them exactly once *)
Lemma report_total es d : defined_entries es ->
  forall n, tdefined n ->
  tdefined (fold_left (fun n e => let '(ss, d, w) := e in wn_add ss d w n) es n) /\
  ttotal (fold_left (fun n e => let '(ss, d, w) := e in wn_add ss d w n) es n) d ==
  ttotal n d + qsum (map (fun e => if (entry_date e =? d)%Z then entry_w e else 0) es).
Proof.
  induction es as [|[[ss dt] w] es IH]; intros Hes n Hn; cbn [fold_left map qsum fold_right].
  - split; [exact Hn|qring].
  - inversion Hes as [|? ? Hw Hrest]; subst. destruct w as [q|]; [|congruence].
    destruct (wn_add_total ss dt q d n Hn) as [H1 H2]. destruct (IH Hrest _ H1) as [H3 H4].
    split; [exact H3|]. rewrite H4, H2. cbn [entry_date entry_w oq]. unfold qsum. destruct (dt =? d)%Z; qring.
Qed.

Lemma report_root_weights es : Forall (fun e => entry_path e <> []) es -> forall n,
  wn_weights (fold_left (fun n e => let '(ss, d, w) := e in wn_add ss d w n) es n) = wn_weights n.
Proof.
  induction es as [|[[ss dt] w] es IH]; intros Hes n; cbn [fold_left]; [reflexivity|].
  inversion Hes; subst. rewrite (IH H2). cbn [entry_path] in H1. destruct ss as [|h tl]; [congruence|reflexivity].
Qed.

(* the rows of the top level together carry every entry of the date *)
Theorem top_level_sum es d :
  defined_entries es -> Forall (fun e => entry_path e <> []) es ->
  qsum (map (fun c => nweight c d) (wn_children (propagate (report_of es)))) ==
  qsum (map (fun e => if (entry_date e =? d)%Z then entry_w e else 0) es).
Proof.
  intros Hd Hp. unfold report_of.
  assert (Hroot : tdefined wroot) by (repeat constructor).
  destruct (report_total es d Hd wroot Hroot) as [H1 H2].
  pose proof (report_root_weights es Hp wroot) as Hw.
  set (r := fold_left (fun n e => let '(ss, d, w) := e in wn_add ss d w n) es wroot) in *.
  destruct r as [s lf w ch]. cbn [wn_weights] in Hw. subst w.
  pose proof (propagate_local s lf _ ch H1 d) as Hl. pose proof (proj2 (propagate_spec _ H1 d)) as Hs.
  rewrite propagate_children, map_map.
  assert (Hz : ttotal wroot d == 0) by reflexivity.
  assert (Hz2 : wsum (wn_weights wroot) d == 0) by reflexivity.
  transitivity (nweight (propagate (WNode s lf (wn_weights wroot) ch)) d).
  - rewrite Hl, Hz2. qring.
  - rewrite Hs, H2, Hz. qring.
Qed.

(* ------------------------------------------------------------ the values ComputeValues accumulates *)

(* one posting's effect on the values map *)
Definition values_step (c : calc) (m : vals) (p : posting) : vals :=
  if ca_com c (p_com p) && is_portfolio c (p_acc p) then vals_add m (p_com p) (p_val p) else m.

Definition day_postings (d : day) : list posting := flat_map t_postings (d_txns d).

Lemma cv_txns_values c ts : forall s,
  cv_values (fold_left (pure_txn None (Some (cv_posting c))) ts s) =
  fold_left (values_step c) (flat_map t_postings ts) (cv_values s).
Proof.
  induction ts as [|t ts IH]; intros s; cbn [fold_left flat_map]; [reflexivity|].
  rewrite IH, fold_left_app. f_equal. unfold pure_txn, opt_app. generalize (t_postings t). intros ps. revert s.
  induction ps as [|p ps IHp]; intros s; cbn [fold_left]; [reflexivity|]. rewrite IHp. f_equal.
  unfold cv_posting, values_step. destruct (ca_com c (p_com p)); cbn [negb andb]; [|reflexivity].
  destruct (is_portfolio c (p_acc p)); reflexivity.
Qed.

Lemma cv_day_values c s d :
  cv_values (pure_day (Some cv_day_start) None (Some (cv_posting c)) (Some cv_day_end) s d) =
  fold_left (values_step c) (day_postings d) (cv_values s).
Proof. unfold pure_day, opt_app, cv_day_end. cbn [cv_values]. rewrite cv_txns_values. reflexivity. Qed.

Lemma cv_run_values c days : forall s,
  cv_values (cv_run c s days) = fold_left (values_step c) (flat_map day_postings days) (cv_values s).
Proof.
  unfold cv_run, pure_days. induction days as [|d days IH]; intros s; cbn [fold_left flat_map]; [reflexivity|].
  rewrite IH, cv_day_values, fold_left_app. reflexivity.
Qed.

(* the record ComputeValues emits for a day: V1 is the map of the decimals accumulated (with
   Amounts.Add, entries that become zero deleted) over the bookings of all days up to and
   including it that are on portfolio accounts and in commodities passing the filter *)
Lemma cv_record c pre d post :
  exists v0, nth_error (cv_out (cv_run c cv_init (pre ++ d :: post))) (length pre) =
             Some (d_date d, (v0, vals_pcv (fold_left (values_step c) (flat_map day_postings (pre ++ [d])) []))).
Proof.
  unfold cv_run, pure_days. rewrite fold_left_app. cbn [fold_left].
  fold (pure_days (Some cv_day_start) None (Some (cv_posting c)) (Some cv_day_end) cv_init pre).
  fold (cv_run c cv_init pre). set (s := cv_run c cv_init pre).
  destruct (cv_records_chain c post (pure_day (Some cv_day_start) None (Some (cv_posting c)) (Some cv_day_end) s d)) as [tail [Ht _]].
  unfold cv_run, pure_days in Ht. rewrite Ht, cv_day_out.
  assert (Hlen : length (cv_out s) = length pre).
  { pose proof (cv_out_dates c pre cv_init) as H. apply (f_equal (@length Z)) in H.
    rewrite app_length, !map_length in H. cbn in H. exact H. }
  exists (cv_prev s). rewrite <- app_assoc, nth_error_app2 by lia. rewrite Hlen, Nat.sub_diag. cbn [app nth_error].
  do 4 f_equal. rewrite cv_txns_values. cbn [cv_day_start cv_values]. subst s. rewrite cv_run_values.
  rewrite flat_map_app, fold_left_app. cbn [flat_map]. rewrite app_nil_r. reflexivity.
Qed.
