(* The include loader (Model/Loader.v) and the visit relation of Proofs/OrderLayout.v, the
   converse of C05_layout: if the include tree below a file is FINITE -- [visits fs root vs]
   has a derivation: every file of the tree exists and parses, no file is below itself -- then
   the repaired loader succeeds on it.  Together with [load_layout]: the loader succeeds
   exactly on the finite include trees, and then returns the directives of the visit list.

   [visits] is an inductive predicate nested in Forall2; [visits_ind2] is its induction
   principle with the induction hypothesis for every include target. *)
From Coq Require Import ZArith List Bool Lia Permutation.
From Knut Require Import Model.Str Model.Ledger Model.Loader Proofs.LoaderProofs Proofs.OrderLayout.
Import ListNotations.

Lemma visits_ind2 (fs : fsys) (P : path -> list path -> Prop) :
  (forall p items vss, lookup fs p = Some (FOk items) ->
     Forall2 (fun t vs => visits fs (resolve p t) vs /\ P (resolve p t) vs) (inc_targets items) vss ->
     P p (p :: concat vss)) ->
  forall p vs, visits fs p vs -> P p vs.
Proof.
  intros Hstep. fix IH 3. intros p vs H. destruct H as [p items vss Hl HF].
  apply (Hstep p items vss Hl). revert HF. generalize (inc_targets items) as ts. revert vss.
  fix IHF 3. intros vss ts HF. destruct HF as [|t vs ts' vss' Hv HF']; constructor.
  - split; [exact Hv|apply IH; exact Hv].
  - apply IHF. exact HF'.
Qed.

Lemma Forall2_weaken {A B} (R S : A -> B -> Prop) l l' :
  (forall a b, R a b -> S a b) -> Forall2 R l l' -> Forall2 S l l'.
Proof. intros H. induction 1; constructor; auto. Qed.

Lemma Forall2_in_r {A B} (R : A -> B -> Prop) l l' b :
  Forall2 R l l' -> In b l' -> exists a, In a l /\ R a b.
Proof.
  induction 1 as [|a0 b0 l l' H0 _ IH]; intros Hin; [destruct Hin|].
  destruct Hin as [<-|Hin]; [exists a0; split; [now left|assumption]|].
  destruct (IH Hin) as (a & Ha & HR). exists a. split; [now right|assumption].
Qed.

Lemma Forall2_in_l {A B} (R : A -> B -> Prop) l l' a :
  Forall2 R l l' -> In a l -> exists b, In b l' /\ R a b.
Proof.
  induction 1 as [|a0 b0 l l' H0 _ IH]; intros Hin; [destruct Hin|].
  destruct Hin as [<-|Hin]; [exists b0; split; [now left|assumption]|].
  destruct (IH Hin) as (b & Hb & HR). exists b. split; [now right|assumption].
Qed.

Lemma length_concat_in {A} (l : list A) ls : In l ls -> (length l <= length (concat ls))%nat.
Proof.
  induction ls as [|x ls IH]; intros H; [destruct H|]. cbn [concat]. rewrite app_length.
  destruct H as [->|H]; [lia|]. specialize (IH H). lia.
Qed.

Section Visits.
Variable fs : fsys.

(* every visited file exists and parses *)
Lemma visits_lookup p vs : visits fs p vs -> forall q, In q vs -> exists items, lookup fs q = Some (FOk items).
Proof.
  intros H. induction H as [p items vss Hl HF] using visits_ind2. intros q [<-|Hq]; [eauto|].
  apply in_concat in Hq. destruct Hq as (vs_t & Hvt & Hq).
  destruct (Forall2_in_r _ _ _ _ HF Hvt) as (t & _ & _ & IH). exact (IH q Hq).
Qed.

(* the visit list of a file is determined by the file system *)
Lemma visits_det p vs : visits fs p vs -> forall vs', visits fs p vs' -> vs = vs'.
Proof.
  intros H. induction H as [p items vss Hl HF] using visits_ind2. intros vs' H'.
  inversion H' as [p' items' vss' Hl' HF' E1 E2]. subst. rewrite Hl in Hl'. inversion Hl'. subst items'.
  f_equal. f_equal. clear H' Hl Hl'. revert vss' HF'.
  induction HF as [|t vs ts vss (_ & IHv) _ IH]; intros vss' HF'; inversion HF'; subst; [reflexivity|].
  f_equal; [apply IHv; assumption|apply IH; assumption].
Qed.

(* a file visited below [p] has its own, not longer, visit list *)
Lemma visits_sub p vs : visits fs p vs ->
  forall q, In q vs -> exists vs_q, visits fs q vs_q /\ (length vs_q <= length vs)%nat.
Proof.
  intros H. induction H as [p items vss Hl HF] using visits_ind2. intros q [<-|Hq].
  - exists (p :: concat vss). split; [|lia].
    econstructor; [exact Hl|]. eapply Forall2_weaken; [|exact HF]. intros a b (Hv & _). exact Hv.
  - apply in_concat in Hq. destruct Hq as (vs_t & Hvt & Hq).
    destruct (Forall2_in_r _ _ _ _ HF Hvt) as (t & _ & _ & IH).
    destruct (IH q Hq) as (vs_q & Hv & Hlen). exists vs_q. split; [exact Hv|].
    pose proof (length_concat_in _ _ Hvt). cbn [length]. lia.
Qed.

(* a file is not visited below itself *)
Lemma visits_not_below p items vss vs_t :
  lookup fs p = Some (FOk items) ->
  Forall2 (fun t vs => visits fs (resolve p t) vs) (inc_targets items) vss ->
  In vs_t vss -> ~ In p vs_t.
Proof.
  intros Hl HF Hvt Hp.
  destruct (Forall2_in_r _ _ _ _ HF Hvt) as (t & _ & Hv).
  destruct (visits_sub _ _ Hv p Hp) as (vs_p & Hvp & Hlen).
  assert (Hfull : visits fs p (p :: concat vss)) by (econstructor; eassumption).
  rewrite (visits_det _ _ Hvp _ Hfull) in Hlen.
  pose proof (length_concat_in _ _ Hvt). cbn [length] in Hlen. lia.
Qed.

Lemma load_items_err sub its : forall e,
  load_items sub its = LErr e -> exists t e', In (IInc t) its /\ sub t = LErr e'.
Proof.
  induction its as [|[d|t] its IH]; intros e; cbn [load_items]; [discriminate| |].
  - destruct (load_items sub its) as [b|e'|] eqn:E; cbn [seq]; try discriminate.
    intros _. destruct (IH e' eq_refl) as (t & e'' & Hin & Ht). exists t, e''. split; [now right|assumption].
  - destruct (sub t) as [a|e1|] eqn:Es.
    + destruct (load_items sub its) as [b|e'|] eqn:E; cbn [seq]; try discriminate.
      intros _. destruct (IH e' eq_refl) as (t' & e'' & Hin & Ht). exists t', e''. split; [now right|assumption].
    + intros _. exists t, e1. split; [now left|assumption].
    + cbn [seq]. discriminate.
Qed.

Lemma in_inc_targets t its : In (IInc t) its -> In t (inc_targets its).
Proof.
  unfold inc_targets. intros H. apply in_flat_map. exists (IInc t). split; [assumption|now left].
Qed.

(* on a finite include tree the repaired loader reports no error, whatever chain of including
   files it starts with, as long as none of them is in the tree *)
Lemma visits_no_error p vs : visits fs p vs ->
  forall f anc, (forall a, In a anc -> ~ In a vs) -> forall e, load_file f fs anc p <> LErr e.
Proof.
  intros H. induction H as [p items vss Hl HF] using visits_ind2. intros f anc Hdis e.
  destruct f as [|f]; [discriminate|]. cbn [load_file].
  destruct (mem_path p anc) eqn:Hm.
  - apply mem_path_in in Hm. exfalso. apply (Hdis p Hm). now left.
  - rewrite Hl. intros Herr. apply load_items_err in Herr. destruct Herr as (t & e' & Hin & Ht).
    destruct (Forall2_in_l _ _ _ _ HF (in_inc_targets _ _ Hin)) as (vs_t & Hvt & _ & IH).
    revert Ht. apply IH. intros a [<-|Ha].
    + eapply visits_not_below; [exact Hl| |exact Hvt].
      eapply Forall2_weaken; [|exact HF]. intros x y (Hv & _). exact Hv.
    + intros Hin'. apply (Hdis a Ha). right. apply in_concat. exists vs_t. split; assumption.
Qed.

(* THE CONVERSE OF C05_layout: a finite include tree loads *)
Theorem visits_load root vs : visits fs root vs -> exists ds, load (fuel_for fs) fs root = LOk ds.
Proof.
  intros H. destruct (load (fuel_for fs) fs root) as [ds|e|] eqn:E.
  - eauto.
  - exfalso. revert E. unfold load. apply (visits_no_error _ _ H). intros a [].
  - exfalso. revert E. apply load_terminates.
Qed.

(* and what it returns is, up to order, the directives of THE visit list *)
Theorem visits_load_layout root vs : visits fs root vs ->
  exists ds, load (fuel_for fs) fs root = LOk ds /\ Permutation ds (flat_map (file_directives fs) vs).
Proof.
  intros H. destruct (visits_load root vs H) as (ds & Hl). exists ds. split; [exact Hl|].
  destruct (load_layout _ _ _ _ Hl) as (vs' & Hv' & Hp). now rewrite (visits_det _ _ H _ Hv').
Qed.

End Visits.
