(* C17: addThousandsSep (Model/Table.v) meets the reverse-reading grouping specification of
   Spec/TableSpec.v on every numeral of the grammar -?digits(.digits)?, and removing the
   commas gives the input back. *)
From Coq Require Import ZArith List Bool Lia Arith.
From Knut Require Import Model.Str Model.Dec Model.Table Spec.TableSpec.
Import ListNotations.
Open Scope bool_scope.
Open Scope Z_scope.

Ltac Zify.zify_post_hook ::= Z.div_mod_to_equations.

(* ------------------------------------------------------------------ digits *)
Lemma is_digit_range : forall c, is_digit c = true -> 48 <= c <= 57.
Proof.
  intros c H. unfold is_digit in H. apply andb_true_iff in H. destruct H as [H1 H2].
  apply Z.leb_le in H1. apply Z.leb_le in H2. lia.
Qed.

Lemma all_digits_In : forall ds c, all_digits ds = true -> In c ds -> 48 <= c <= 57.
Proof.
  intros ds c H Hin. unfold all_digits in H. rewrite forallb_forall in H.
  apply is_digit_range. apply H. exact Hin.
Qed.

Lemma all_digits_cons : forall c t,
  all_digits (c :: t) = true -> is_digit c = true /\ all_digits t = true.
Proof.
  intros c t H. unfold all_digits in H. cbn [forallb] in H. apply andb_true_iff in H. exact H.
Qed.

Lemma all_digits_app : forall a b,
  all_digits (a ++ b) = true -> all_digits a = true /\ all_digits b = true.
Proof.
  intros a b H. unfold all_digits in *. rewrite forallb_app in H. apply andb_true_iff in H. exact H.
Qed.

(* ------------------------------------------------------------------ A: strip_commas *)
Lemma strip_commas_app : forall a b, strip_commas (a ++ b) = strip_commas a ++ strip_commas b.
Proof. intros a b. unfold strip_commas. apply filter_app. Qed.

Lemma strip_commas_cons : forall c t, c <> 44 -> strip_commas (c :: t) = c :: strip_commas t.
Proof.
  intros c t Hc.
  change (strip_commas (c :: t)) with (if negb (c =? 44) then c :: strip_commas t else strip_commas t).
  destruct (c =? 44) eqn:E.
  - apply Z.eqb_eq in E. contradiction.
  - reflexivity.
Qed.

Lemma strip_commas_id : forall s, ~ In 44 s -> strip_commas s = s.
Proof.
  induction s as [|c t IH]; intros Hn.
  - reflexivity.
  - rewrite strip_commas_cons.
    + f_equal. apply IH. intros H. apply Hn. right. exact H.
    + intros H. apply Hn. left. exact H.
Qed.

Lemma thousands_loop_cons : forall ch rest i index ok,
  thousands_loop (ch :: rest) i index ok =
  if (index <=? i) && negb (ch =? 45) then ch :: rest
  else (if ((index - i) mod 3 =? 0) && ok then [44] else []) ++
       ch :: thousands_loop rest (i + 1) index (ok || is_digit ch).
Proof. reflexivity. Qed.

Lemma strip_commas_thousands_loop : forall s i index ok,
  ~ In 44 s -> strip_commas (thousands_loop s i index ok) = s.
Proof.
  induction s as [|c t IH]; intros i index ok Hn.
  - reflexivity.
  - rewrite thousands_loop_cons.
    destruct ((index <=? i) && negb (c =? 45)).
    + apply strip_commas_id. exact Hn.
    + assert (Hc : c <> 44) by (intros H; apply Hn; left; exact H).
      assert (Ht : ~ In 44 t) by (intros H; apply Hn; right; exact H).
      rewrite strip_commas_app. rewrite strip_commas_cons by exact Hc.
      rewrite IH by exact Ht.
      destruct (((index - i) mod 3 =? 0) && ok); reflexivity.
Qed.

Theorem strip_commas_add_thousands_sep : forall s,
  ~ In 44 s -> strip_commas (add_thousands_sep s) = s.
Proof.
  intros s Hn. unfold add_thousands_sep. apply strip_commas_thousands_loop. exact Hn.
Qed.

(* ------------------------------------------------------------------ B: the grammar *)
Lemma split_at_dot_cons : forall c t,
  split_at_dot (c :: t) =
  if c =? 46 then ([], Some t) else (c :: fst (split_at_dot t), snd (split_at_dot t)).
Proof.
  intros c t. cbn [split_at_dot]. destruct (split_at_dot t) as [a b]. reflexivity.
Qed.

Lemma split_at_dot_spec : forall s ip fp,
  split_at_dot s = (ip, fp) ->
  ~ In 46 ip /\ match fp with None => s = ip | Some f => s = ip ++ 46 :: f end.
Proof.
  induction s as [|c t IH]; intros ip fp H.
  - cbn [split_at_dot] in H. injection H as <- <-. split; [intros [] | reflexivity].
  - rewrite split_at_dot_cons in H. destruct (c =? 46) eqn:E.
    + apply Z.eqb_eq in E. subst c. injection H as <- <-. split; [intros [] | reflexivity].
    + apply Z.eqb_neq in E. destruct (split_at_dot t) as [a b] eqn:Et.
      cbn [fst snd] in H. injection H as <- <-.
      destruct (IH a b eq_refl) as [Hn Hs]. split.
      * intros [H | H]; [apply E; exact H | apply Hn; exact H].
      * destruct b as [f|]; rewrite Hs at 1; reflexivity.
Qed.

Lemma split_at_dot_nodot : forall a, ~ In 46 a -> split_at_dot a = (a, None).
Proof.
  induction a as [|c t IH]; intros Hn.
  - reflexivity.
  - rewrite split_at_dot_cons. destruct (c =? 46) eqn:E.
    + apply Z.eqb_eq in E. exfalso. apply Hn. left. exact E.
    + rewrite IH by (intros H; apply Hn; right; exact H). reflexivity.
Qed.

Lemma split_at_dot_app_dot : forall a f, ~ In 46 a -> split_at_dot (a ++ 46 :: f) = (a, Some f).
Proof.
  induction a as [|c t IH]; intros f Hn.
  - cbn [app]. rewrite split_at_dot_cons. reflexivity.
  - change ((c :: t) ++ 46 :: f) with (c :: (t ++ 46 :: f)).
    rewrite split_at_dot_cons. destruct (c =? 46) eqn:E.
    + apply Z.eqb_eq in E. exfalso. apply Hn. left. exact E.
    + rewrite IH by (intros H; apply Hn; right; exact H). reflexivity.
Qed.

Lemma unsign_eq : forall s,
  unsign s = match s with
             | [] => (false, [])
             | c :: t => if c =? 45 then (true, t) else (false, s)
             end.
Proof.
  intros s. destruct s as [|c t]; [reflexivity|].
  destruct c as [|p|p]; try reflexivity.
  do 6 (try (destruct p as [p|p|]; try reflexivity)).
Qed.

Lemma nonempty_ne : forall (A : Type) (l : list A), nonempty l = true -> l <> [].
Proof. intros A l H. destruct l; [discriminate H | discriminate]. Qed.

Theorem numstr_decompose : forall s, is_numstr_b s = true ->
  exists sign ip frac, s = sign ++ ip ++ frac /\ (sign = [] \/ sign = [45]) /\ ip <> [] /\
    all_digits ip = true /\ (frac = [] \/ exists f, frac = 46 :: f /\ all_digits f = true).
Proof.
  intros s H. unfold is_numstr_b in H.
  assert (Hu : exists sign, (sign = [] \/ sign = [45]) /\ s = sign ++ snd (unsign s)).
  { rewrite unsign_eq. destruct s as [|c t].
    - exists []. split; [left|]; reflexivity.
    - destruct (c =? 45) eqn:E.
      + apply Z.eqb_eq in E. subst c. exists [45]. split; [right|]; reflexivity.
      + exists []. split; [left|]; reflexivity. }
  destruct Hu as [sign [Hsign Hs]].
  destruct (split_at_dot (snd (unsign s))) as [ip fp] eqn:Esp.
  apply split_at_dot_spec in Esp. destruct Esp as [Hn46 Hsp].
  apply andb_true_iff in H. destruct H as [H Hf].
  apply andb_true_iff in H. destruct H as [Hne Hd].
  apply nonempty_ne in Hne.
  destruct fp as [f|].
  - apply andb_true_iff in Hf. destruct Hf as [_ Hfd].
    exists sign, ip, (46 :: f). split.
    + rewrite <- Hsp. exact Hs.
    + split; [exact Hsign|]. split; [exact Hne|]. split; [exact Hd|].
      right. exists f. split; [reflexivity | exact Hfd].
  - exists sign, ip, []. split.
    + rewrite app_nil_r. rewrite <- Hsp. exact Hs.
    + split; [exact Hsign|]. split; [exact Hne|]. split; [exact Hd|]. left. reflexivity.
Qed.

(* ------------------------------------------------------------------ C: the loop, without indices *)
Fixpoint group_loop (ds : str) (ok : bool) : str :=
  match ds with
  | [] => []
  | ch :: rest =>
    (if (Z.of_nat (length ds) mod 3 =? 0) && ok then [44] else []) ++ ch :: group_loop rest true
  end.

Lemma group_loop_cons : forall ch rest ok,
  group_loop (ch :: rest) ok =
  (if (Z.of_nat (S (length rest)) mod 3 =? 0) && ok then [44] else []) ++
  ch :: group_loop rest true.
Proof. reflexivity. Qed.

Lemma thousands_loop_digits : forall ip i index ok rest,
  all_digits ip = true -> index = i + Z.of_nat (length ip) ->
  (rest = [] \/ exists f, rest = 46 :: f) ->
  thousands_loop (ip ++ rest) i index ok = group_loop ip ok ++ rest.
Proof.
  induction ip as [|c t IH]; intros i index ok rest Hd Hi Hr.
  - cbn [length] in Hi. assert (Hii : index = i) by lia. clear Hi. subst index.
    cbn [app group_loop].
    destruct Hr as [-> | [f ->]].
    + reflexivity.
    + rewrite thousands_loop_cons. rewrite Z.leb_refl. reflexivity.
  - cbn [length] in Hi.
    apply all_digits_cons in Hd. destruct Hd as [Hc Ht].
    change ((c :: t) ++ rest) with (c :: (t ++ rest)).
    rewrite thousands_loop_cons, group_loop_cons.
    assert (E1 : (index <=? i) = false) by (apply Z.leb_gt; lia).
    rewrite E1. cbn [andb]. rewrite Hc, orb_true_r.
    replace (index - i) with (Z.of_nat (S (length t))) by lia.
    rewrite (IH (i + 1) index true rest Ht ltac:(lia) Hr).
    rewrite <- app_assoc. reflexivity.
Qed.

Lemma index_of_notin : forall c s i, ~ In c s -> index_of c s i = None.
Proof.
  induction s as [|x t IH]; intros i Hn.
  - reflexivity.
  - cbn [index_of]. destruct (x =? c) eqn:E.
    + apply Z.eqb_eq in E. exfalso. apply Hn. left. exact E.
    + apply IH. intros H. apply Hn. right. exact H.
Qed.

Lemma index_of_app : forall c a f i,
  ~ In c a -> index_of c (a ++ c :: f) i = Some (i + Z.of_nat (length a)).
Proof.
  induction a as [|x t IH]; intros f i Hn.
  - cbn [app index_of length]. rewrite Z.eqb_refl. f_equal. lia.
  - cbn [app index_of length]. destruct (x =? c) eqn:E.
    + apply Z.eqb_eq in E. exfalso. apply Hn. left. exact E.
    + rewrite IH by (intros H; apply Hn; right; exact H). f_equal. lia.
Qed.

Lemma sign_ip_no_dot : forall sign ip,
  (sign = [] \/ sign = [45]) -> all_digits ip = true -> ~ In 46 (sign ++ ip).
Proof.
  intros sign ip Hsign Hd H. apply in_app_or in H. destruct H as [H | H].
  - destruct Hsign as [-> | ->].
    + destruct H.
    + destruct H as [H | []]. lia.
  - apply (all_digits_In _ _ Hd) in H. lia.
Qed.

Theorem add_thousands_sep_shape : forall sign ip frac,
  (sign = [] \/ sign = [45]) -> ip <> [] -> all_digits ip = true ->
  (frac = [] \/ exists f, frac = 46 :: f /\ all_digits f = true) ->
  add_thousands_sep (sign ++ ip ++ frac) = sign ++ group_loop ip false ++ frac.
Proof.
  intros sign ip frac Hsign Hne Hd Hfrac. unfold add_thousands_sep.
  assert (Hidx : match index_of 46 (sign ++ ip ++ frac) 0 with
                 | Some i => i
                 | None => Z.of_nat (length (sign ++ ip ++ frac))
                 end = Z.of_nat (length sign) + Z.of_nat (length ip)).
  { pose proof (sign_ip_no_dot sign ip Hsign Hd) as Hn.
    destruct Hfrac as [-> | [f [-> Hf]]].
    - rewrite app_nil_r. rewrite index_of_notin by exact Hn. rewrite app_length. lia.
    - rewrite app_assoc. rewrite index_of_app by exact Hn. rewrite app_length. lia. }
  rewrite Hidx.
  assert (Hrest : frac = [] \/ exists f, frac = 46 :: f).
  { destruct Hfrac as [-> | [f [-> _]]]; [left; reflexivity | right; exists f; reflexivity]. }
  destruct Hsign as [-> | ->].
  - cbn [app length]. apply thousands_loop_digits; [exact Hd | lia | exact Hrest].
  - change ([45] ++ ip ++ frac) with (45 :: (ip ++ frac)).
    rewrite thousands_loop_cons.
    change (negb (45 =? 45)) with false. rewrite !andb_false_r.
    change (false || is_digit 45) with false.
    cbn [app length]. f_equal.
    apply thousands_loop_digits; [exact Hd | lia | exact Hrest].
Qed.

(* ------------------------------------------------------------------ D: group_loop meets the spec *)
Lemma group_loop_snoc3 : forall ds ok a b c,
  ds <> [] -> group_loop (ds ++ [a; b; c]) ok = group_loop ds ok ++ [44; a; b; c].
Proof.
  induction ds as [|x t IH]; intros ok a b c Hne.
  - contradiction Hne. reflexivity.
  - destruct t as [|y t'].
    + destruct ok; reflexivity.
    + change ((x :: y :: t') ++ [a; b; c]) with (x :: ((y :: t') ++ [a; b; c])).
      rewrite (group_loop_cons x ((y :: t') ++ [a; b; c])).
      rewrite (group_loop_cons x (y :: t')).
      rewrite IH by discriminate.
      replace (Z.of_nat (S (length ((y :: t') ++ [a; b; c]))) mod 3)
        with (Z.of_nat (S (length (y :: t'))) mod 3).
      * rewrite <- app_assoc. reflexivity.
      * rewrite app_length. cbn [length]. lia.
Qed.

Lemma snoc3_decompose : forall ds : str, (4 <= length ds)%nat ->
  exists ds0 a b c, ds = ds0 ++ [a; b; c] /\ ds0 <> [].
Proof.
  intros ds Hl. rewrite <- (rev_involutive ds). rewrite <- rev_length in Hl.
  destruct (rev ds) as [|c [|b [|a [|x r]]]]; cbn [length] in Hl; try lia.
  exists (rev r ++ [x]), a, b, c. split.
  - cbn [rev]. repeat rewrite <- app_assoc. reflexivity.
  - intros H. apply app_eq_nil in H. destruct H as [_ H]. discriminate H.
Qed.

Lemma group_loop_ok_n : forall n ds, (length ds <= n)%nat -> ds <> [] ->
  all_digits ds = true -> groups_rev_ok (rev (group_loop ds false)) = true.
Proof.
  induction n as [|n IH]; intros ds Hl Hne Hd.
  - destruct ds; [contradiction Hne; reflexivity | cbn [length] in Hl; lia].
  - destruct (le_lt_dec 4 (length ds)) as [H4 | H4].
    + destruct (snoc3_decompose ds H4) as [ds0 [a [b [c [-> Hne0]]]]].
      rewrite group_loop_snoc3 by exact Hne0. rewrite rev_app_distr.
      apply all_digits_app in Hd. destruct Hd as [Hd0 Habc].
      apply all_digits_cons in Habc. destruct Habc as [Ha Habc].
      apply all_digits_cons in Habc. destruct Habc as [Hb Habc].
      apply all_digits_cons in Habc. destruct Habc as [Hc _].
      change (rev [44; a; b; c]) with [c; b; a; 44]. cbn [app].
      change (groups_rev_ok (c :: b :: a :: 44 :: rev (group_loop ds0 false)))
        with (is_digit c && is_digit b && is_digit a && (44 =? 44) &&
              groups_rev_ok (rev (group_loop ds0 false))).
      rewrite Hc, Hb, Ha.
      rewrite IH; [reflexivity | | exact Hne0 | exact Hd0].
      rewrite app_length in Hl. cbn [length] in Hl. lia.
    + destruct ds as [|x [|y [|z [|w t]]]].
      * contradiction Hne. reflexivity.
      * apply all_digits_cons in Hd. destruct Hd as [Hx _].
        change (groups_rev_ok (rev (group_loop [x] false))) with (is_digit x). exact Hx.
      * apply all_digits_cons in Hd. destruct Hd as [Hx Hd].
        apply all_digits_cons in Hd. destruct Hd as [Hy _].
        change (groups_rev_ok (rev (group_loop [x; y] false))) with (is_digit y && is_digit x).
        rewrite Hx, Hy. reflexivity.
      * apply all_digits_cons in Hd. destruct Hd as [Hx Hd].
        apply all_digits_cons in Hd. destruct Hd as [Hy Hd].
        apply all_digits_cons in Hd. destruct Hd as [Hz _].
        change (groups_rev_ok (rev (group_loop [x; y; z] false)))
          with (is_digit z && is_digit y && is_digit x).
        rewrite Hx, Hy, Hz. reflexivity.
      * cbn [length] in H4. lia.
Qed.

Theorem group_loop_ok : forall ds, ds <> [] -> all_digits ds = true ->
  groups_rev_ok (rev (group_loop ds false)) = true.
Proof.
  intros ds Hne Hd. apply (group_loop_ok_n (length ds) ds (le_n _) Hne Hd).
Qed.

Lemma group_loop_chars : forall ds ok c, In c (group_loop ds ok) -> In c ds \/ c = 44.
Proof.
  induction ds as [|x t IH]; intros ok c H.
  - destruct H.
  - rewrite group_loop_cons in H. apply in_app_or in H. destruct H as [H | H].
    + right. destruct ((Z.of_nat (S (length t)) mod 3 =? 0) && ok).
      * destruct H as [H | []]. symmetry. exact H.
      * destruct H.
    + destruct H as [H | H].
      * left. left. exact H.
      * apply IH in H. destruct H as [H | H]; [left; right; exact H | right; exact H].
Qed.

Theorem group_loop_no_dot : forall ds ok, all_digits ds = true -> ~ In 46 (group_loop ds ok).
Proof.
  intros ds ok Hd H. apply group_loop_chars in H. destruct H as [H | H].
  - apply (all_digits_In _ _ Hd) in H. lia.
  - lia.
Qed.

Lemma group_loop_head : forall x t, group_loop (x :: t) false = x :: group_loop t true.
Proof. intros x t. rewrite group_loop_cons. rewrite andb_false_r. reflexivity. Qed.

(* ------------------------------------------------------------------ E: main theorem *)
Theorem add_thousands_sep_grouping_ok : forall s,
  is_numstr_b s = true -> grouping_ok_b (add_thousands_sep s) = true.
Proof.
  intros s H.
  destruct (numstr_decompose s H) as [sign [ip [frac [-> [Hsign [Hne [Hd Hfrac]]]]]]].
  rewrite add_thousands_sep_shape by assumption.
  pose proof (group_loop_ok ip Hne Hd) as Hg.
  pose proof (group_loop_no_dot ip false Hd) as Hnd.
  assert (Hhead : exists x r, group_loop ip false = x :: r /\ x <> 45).
  { destruct ip as [|x t]; [contradiction Hne; reflexivity|].
    exists x, (group_loop t true). split; [apply group_loop_head|].
    apply all_digits_cons in Hd. destruct Hd as [Hx _]. apply is_digit_range in Hx. lia. }
  destruct Hhead as [x [r [HG Hx]]].
  remember (group_loop ip false) as G eqn:HeqG.
  assert (Hu : snd (unsign (sign ++ G ++ frac)) = G ++ frac).
  { rewrite unsign_eq. destruct Hsign as [-> | ->].
    - cbn [app]. rewrite HG. cbn [app]. destruct (x =? 45) eqn:E.
      + apply Z.eqb_eq in E. contradiction.
      + reflexivity.
    - reflexivity. }
  unfold grouping_ok_b. rewrite Hu.
  destruct Hfrac as [-> | [f [-> Hf]]].
  - rewrite app_nil_r. rewrite split_at_dot_nodot by exact Hnd. rewrite Hg. reflexivity.
  - rewrite split_at_dot_app_dot by exact Hnd. rewrite Hg, Hf. reflexivity.
Qed.

Lemma numstr_no_comma : forall s, is_numstr_b s = true -> ~ In 44 s.
Proof.
  intros s H.
  destruct (numstr_decompose s H) as [sign [ip [frac [-> [Hsign [Hne [Hd Hfrac]]]]]]].
  intros Hin. apply in_app_or in Hin. destruct Hin as [Hin | Hin].
  - destruct Hsign as [-> | ->].
    + destruct Hin.
    + destruct Hin as [Hin | []]. lia.
  - apply in_app_or in Hin. destruct Hin as [Hin | Hin].
    + apply (all_digits_In _ _ Hd) in Hin. lia.
    + destruct Hfrac as [-> | [f [-> Hf]]].
      * destruct Hin.
      * destruct Hin as [Hin | Hin]; [lia|].
        apply (all_digits_In _ _ Hf) in Hin. lia.
Qed.

Theorem add_thousands_sep_strip : forall s,
  is_numstr_b s = true -> strip_commas (add_thousands_sep s) = s.
Proof.
  intros s H. apply strip_commas_add_thousands_sep. apply numstr_no_comma. exact H.
Qed.

(* ------------------------------------------------------------------ F: sign and characters *)
Theorem add_thousands_sep_starts_minus : forall s,
  is_numstr_b s = true -> starts_minus (add_thousands_sep s) = starts_minus s.
Proof.
  intros s H.
  destruct (numstr_decompose s H) as [sign [ip [frac [-> [Hsign [Hne [Hd Hfrac]]]]]]].
  rewrite add_thousands_sep_shape by assumption.
  unfold starts_minus. rewrite !unsign_eq.
  destruct Hsign as [-> | ->].
  - destruct ip as [|x t]; [contradiction Hne; reflexivity|].
    rewrite group_loop_head. cbn [app].
    destruct (x =? 45); reflexivity.
  - reflexivity.
Qed.

Lemma thousands_loop_chars : forall s i index ok c,
  In c (thousands_loop s i index ok) -> In c s \/ c = 44.
Proof.
  induction s as [|x t IH]; intros i index ok c H.
  - destruct H.
  - rewrite thousands_loop_cons in H.
    destruct ((index <=? i) && negb (x =? 45)).
    + left. exact H.
    + apply in_app_or in H. destruct H as [H | H].
      * right. destruct (((index - i) mod 3 =? 0) && ok).
        -- destruct H as [H | []]. symmetry. exact H.
        -- destruct H.
      * destruct H as [H | H].
        -- left. left. exact H.
        -- apply IH in H. destruct H as [H | H]; [left; right; exact H | right; exact H].
Qed.

Theorem add_thousands_sep_chars : forall s c,
  In c (add_thousands_sep s) -> In c s \/ c = 44.
Proof.
  intros s c H. unfold add_thousands_sep in H. apply thousands_loop_chars in H. exact H.
Qed.
