(* C07, keywords: in a successfully parsed tree the kind of every node is justified by the text
   ([wf_keywords_b], Spec/LeafSpec.v): blanks, the keyword of the payload's kind and blanks
   between the date and the payload; `include` and blanks before the path; `@performance(` ...
   `)` and `@accrue` blanks for present addons.

   Two kinds of facts are combined:
   * STRUCTURAL facts, read off a success equation by unfolding (no invariant): a node's range
     starts at the offset at which its parse function was entered, and the first rune a parse
     function accepts ([account_start], [commodity_start], [quoted_start], ...);
   * WINDOW facts from the scanner invariant (Proofs/RoundTripBase.v): the bytes consumed by
     readWhitespace1, ReadAlternative, ReadString ([Win]).
   That the blanks AFTER `open`, `close`, `price` are not empty needs that a newline is not
   alphanumeric ([class_ok]); everything else holds for every classification.               *)
From Coq Require Import String ZArith List Bool Lia ZifyBool.
From Knut Require Import Model.Bytes Model.Utf8 Model.Scanner Model.Parser Spec.SyntaxSpec Spec.FormatSpec
  Spec.LeafSpec Proofs.ScannerProofs Proofs.ParserProofs Proofs.RoundTripBase Proofs.RoundTripLeaf
  Proofs.RoundTripInv Proofs.LeafProofs Model.UnicodeTables Proofs.RoundTripTop.
Import ListNotations.
Open Scope bool_scope.
Open Scope Z_scope.

(* ================================================================== bytes *)

Lemma drop_prefix_app p r : drop_prefix p (p ++ r) = Some r.
Proof. induction p as [|a p IH]; cbn [app drop_prefix]; [reflexivity|]. now rewrite Z.eqb_refl. Qed.

Lemma drop_blanks_app W r : blanks_b W = true -> drop_blanks (W ++ r) = drop_blanks r.
Proof.
  induction W as [|b W IH]; cbn [app drop_blanks blanks_b forallb]; intros H; [reflexivity|].
  apply andb_true_iff in H. destruct H as (Hb & H). rewrite Hb. now apply IH.
Qed.

Lemma blanks1_intro W : blanks_b W = true -> W <> [] -> blanks1_b W = true.
Proof. intros H Hne. unfold blanks1_b. rewrite H. destruct W; [congruence|reflexivity]. Qed.

Lemma kw_glue_ok k kw' nl W1 r : blanks1_b W1 = true -> is_ws_byte k = false ->
  (blanks1_b r = true \/ (nl = true /\ exists W2, blanks_b W2 = true /\ r = W2 ++ [10])) ->
  kw_glue (k :: kw') nl (W1 ++ (k :: kw') ++ r) = true.
Proof.
  intros H1 Hk Hr. destruct W1 as [|b W1]; [discriminate|].
  unfold blanks1_b in H1. cbn [nonnil andb] in H1. pose proof H1 as H1'.
  cbn [blanks_b forallb] in H1. apply andb_true_iff in H1. destruct H1 as (Hb & _).
  cbn [app kw_glue]. rewrite Hb. cbn [andb].
  change (b :: W1 ++ k :: kw' ++ r) with ((b :: W1) ++ (k :: kw') ++ r).
  rewrite (drop_blanks_app _ _ H1'). cbn [app drop_blanks]. rewrite Hk.
  change (k :: kw' ++ r) with ((k :: kw') ++ r). rewrite drop_prefix_app.
  destruct Hr as [->|(-> & W2 & HW2 & ->)]; [reflexivity|].
  rewrite (drop_blanks_app _ _ HW2). cbn [drop_blanks]. apply orb_true_r.
Qed.

Lemma kw_then_blanks_ok kw W : blanks1_b W = true -> kw_then_blanks kw (kw ++ W) = true.
Proof. intros H. unfold kw_then_blanks. now rewrite drop_prefix_app. Qed.

Section Dec.
Variable dec : str -> Z * Z.
Hypothesis Hdec : decoder_ok dec.

Lemma chunk_ascii_inv c b : chunk dec c b -> 0 <= c < 128 -> b = [c].
Proof using Hdec.
  intros (Hne & Hd & _) Hc. destruct b as [|b0 b']; [congruence|].
  specialize (Hd []). rewrite app_nil_r in Hd.
  destruct (Z_lt_ge_dec b0 0) as [Hlo|Hlo]; [|destruct (Z_lt_ge_dec b0 128) as [Hhi|Hhi]].
  - assert (Hh : high b0) by (unfold high; lia).
    destruct (dec_high _ Hdec b0 b' _ _ Hh Hd) as (H128 & _). lia.
  - rewrite (dec_ascii _ Hdec b0 b') in Hd by lia. apply pair_equal_spec in Hd. destruct Hd as (Hc0 & Hl).
    subst c. rewrite zlen_cons in Hl. destruct b'; [reflexivity|]. rewrite zlen_cons in Hl. pose proof (zlen_nonneg b'). lia.
  - assert (Hh : high b0) by (unfold high; lia).
    destruct (dec_high _ Hdec b0 b' _ _ Hh Hd) as (H128 & _). lia.
Qed.

Lemma wsl_blanks W : wsl dec W -> blanks_b W = true.
Proof using Hdec.
  induction 1 as [|c b x Hc Hp Hx IH]; [reflexivity|].
  assert (Hr : 0 <= c < 128) by (unfold is_whitespace in Hp; lia).
  rewrite (chunk_ascii_inv c b Hc Hr). cbn [app blanks_b forallb].
  unfold blanks_b in IH. rewrite IH. unfold is_ws_byte. unfold is_whitespace in Hp. rewrite Hp. reflexivity.
Qed.

End Dec.

(* ================================================================== structural facts *)

(* the scrutinee of the match a success equation starts with (bind, annot) *)
Ltac scrut H a s1 Ha :=
  match type of H with
  | match ?x with _ => _ end = _ => destruct x as [a s1|?|] eqn:Ha; [|discriminate H|discriminate H]
  end.

Section Structure.
Variable E : env.

Definition tok_start (s : state) : Prop :=
  cur s <> eof /\ (cur s = 36 \/ is_alphanumeric E (cur s) = true).

Lemma read_while1_start p s rg s' : read_while1 E p s = Ok rg s' -> cur s <> eof /\ p (cur s) = true.
Proof using.
  unfold read_while1. destruct (Z.eqb_spec (cur s) eof); [discriminate|].
  destruct (p (cur s)); [auto|discriminate].
Qed.

Lemma read_character_start c s rg s' : read_character E c s = Ok rg s' -> cur s = c.
Proof using.
  unfold read_character, read_character_with. destruct (cur s =? eof); [discriminate|].
  destruct (Z.eqb_spec (cur s) c); [auto|discriminate].
Qed.

Lemma account_loop_start sc : forall n s a s', account_loop E sc n s = Ok a s' -> r_start (acc_range a) = sc_start sc.
Proof using.
  induction n as [|n IH]; intros s a s' H; cbn [account_loop] in H; [discriminate|].
  unfold ifM in H. destruct (negb (cur s =? 58)).
  - unfold ret_with in H. inversion H. reflexivity.
  - unfold bind in H. scrut H x1 s1 H1. scrut H x2 s2 H2. eapply IH; eauto.
Qed.

Lemma account_start s a s' : parse_account E s = Ok a s' -> r_start (acc_range a) = off s /\ tok_start s.
Proof using.
  unfold parse_account, annot. intros H. scrut H a0 s0 H0. inversion H; subst a0 s0. clear H.
  unfold ifM, cur_is in H0. destruct (Z.eqb_spec (cur s) 36) as [H36|H36].
  - unfold bind in H0. scrut H0 x1 s1 H1. scrut H0 x2 s2 H2. unfold ret_with in H0. inversion H0.
    split; [reflexivity|]. split; [unfold eof; lia|now left].
  - unfold bind in H0. scrut H0 x1 s1 H1.
    apply account_loop_start in H0. destruct (read_while1_start _ _ _ _ H1) as (He & Ha).
    split; [exact H0|]. split; [exact He|now right].
Qed.

Lemma commodity_start s r s' : parse_commodity E s = Ok r s' ->
  r_start r = off s /\ cur s <> eof /\ is_alphanumeric E (cur s) = true.
Proof using.
  unfold parse_commodity, annot. intros H. scrut H a0 s0 H0. inversion H; subst a0 s0. clear H.
  unfold bind in H0. scrut H0 x1 s1 H1. unfold ret_with in H0. inversion H0.
  split; [reflexivity|]. exact (read_while1_start _ _ _ _ H1).
Qed.

Lemma quoted_start s q s' : parse_quoted_string E s = Ok q s' -> r_start (qs_range q) = off s /\ cur s = 34.
Proof using.
  unfold parse_quoted_string, annot. intros H. scrut H a0 s0 H0. inversion H; subst a0 s0. clear H.
  unfold bind in H0. scrut H0 x1 s1 H1. scrut H0 x2 s2 H2. scrut H0 x3 s3 H3.
  unfold ret_with in H0. inversion H0. split; [reflexivity|]. exact (read_character_start _ _ _ _ H1).
Qed.

Lemma balance_start s b s' : parse_balance E s = Ok b s' -> r_start (bl_range b) = off s /\ tok_start s.
Proof using.
  unfold parse_balance, annot. intros H. scrut H a0 s0 H0. inversion H; subst a0 s0. clear H.
  unfold bind in H0. scrut H0 x1 s1 H1. scrut H0 x2 s2 H2. scrut H0 x3 s3 H3. scrut H0 x4 s4 H4. scrut H0 x5 s5 H5.
  unfold ret_with in H0. inversion H0. split; [reflexivity|]. exact (proj2 (account_start _ _ _ H1)).
Qed.

Lemma balances_loop_start n s bs s' : balances_loop E n s = Ok bs s' ->
  exists b bs', bs = b :: bs' /\ r_start (bl_range b) = off s /\ tok_start s.
Proof using.
  destruct n as [|n]; cbn [balances_loop]; intros H; [discriminate|].
  unfold bind in H. scrut H b s1 H1. scrut H x2 s2 H2.
  destruct (balance_start _ _ _ H1) as (Hs & Ht).
  unfold ifM in H. destruct (is_whitespace_or_newline (cur s2) || (cur s2 =? eof)).
  - unfold ret in H. inversion H. eauto.
  - scrut H bs3 s3 H3. unfold ret in H. inversion H. eauto.
Qed.

Lemma open_start sc date s o s' : parse_open E sc date s = Ok o s' ->
  op_date o = date /\ r_start (acc_range (op_account o)) = off s /\ tok_start s.
Proof using.
  unfold parse_open, annot. intros H. scrut H a0 s0 H0. inversion H; subst a0 s0. clear H.
  unfold bind in H0. scrut H0 x1 s1 H1. unfold ret_with in H0. inversion H0. prj.
  split; [reflexivity|]. exact (account_start _ _ _ H1).
Qed.

Lemma close_start sc date s o s' : parse_close E sc date s = Ok o s' ->
  cl_date o = date /\ r_start (acc_range (cl_account o)) = off s /\ tok_start s.
Proof using.
  unfold parse_close, annot. intros H. scrut H a0 s0 H0. inversion H; subst a0 s0. clear H.
  unfold bind in H0. scrut H0 x1 s1 H1. unfold ret_with in H0. inversion H0. prj.
  split; [reflexivity|]. exact (account_start _ _ _ H1).
Qed.

Lemma price_start sc date s p s' : parse_price E sc date s = Ok p s' ->
  pr_date p = date /\ r_start (pr_commodity p) = off s /\ tok_start s.
Proof using.
  unfold parse_price. intros H. unfold bind in H at 1. scrut H cp s4 H4.
  unfold annot in H4. scrut H4 a0 s0 H0. inversion H4; subst a0 s0. clear H4.
  unfold bind in H0. scrut H0 c s1 H1. scrut H0 x2 s2 H2. scrut H0 p0 s3 H3. scrut H0 x4 s5 H5.
  unfold ret in H0. inversion H0; subst cp s5. clear H0.
  unfold bind in H. scrut H tg s6 H6. unfold ret_with in H. inversion H. prj.
  destruct (commodity_start _ _ _ H1) as (Hs & He & Ha).
  split; [reflexivity|]. split; [exact Hs|]. split; [exact He|now right].
Qed.

Lemma transaction_start sc date ad s x s' : parse_transaction E sc date ad s = Ok x s' ->
  tx_date x = date /\ tx_addons x = ad /\ r_start (qs_range (tx_desc x)) = off s /\ cur s = 34.
Proof using.
  unfold parse_transaction, annot. intros H. scrut H a0 s0 H0. inversion H; subst a0 s0. clear H.
  unfold bind in H0. scrut H0 q s1 H1. scrut H0 x2 s2 H2. scrut H0 bs s3 H3.
  unfold ret_with in H0. inversion H0. prj.
  split; [reflexivity|]. split; [reflexivity|]. exact (quoted_start _ _ _ H1).
Qed.

End Structure.

(* ================================================================== window facts *)

Section WithEnv.
Variable E : env.
Hypothesis Hlen : e_len E = Z.of_nat (length (e_text E)).
Hypothesis Hfuel : (length (e_text E) < e_fuel E)%nat.
Hypothesis Hdec : decoder_ok (e_decode E).
Hypothesis Hloc : decoder_local (e_decode E).

Notation t := (e_text E).
Notation dec := (e_decode E).
Notation letter := (e_letter E).
Notation digit := (e_digit E).
Notation VInv := (VInv E).
Notation ipost := (@ipost E _).
Notation fr := (fr dec).
Notation tok_start := (tok_start E).

Local Notation ipost_bind := (@RoundTripLeaf.ipost_bind E Hlen Hfuel Hdec Hloc _ _).
Local Notation ipost_annot := (@RoundTripLeaf.ipost_annot E Hlen Hfuel Hdec Hloc _).
Local Notation ipost_ret := (@RoundTripLeaf.ipost_ret E Hlen Hfuel Hdec Hloc _).
Local Notation ipost_ok := (@RoundTripLeaf.ipost_ok E Hlen Hfuel Hdec Hloc _).
Local Notation ipost_ret_with := (@RoundTripLeaf.ipost_ret_with E Hlen Hfuel Hdec Hloc _).
Local Notation ipost_weaken := (@RoundTripLeaf.ipost_weaken E Hlen Hfuel Hdec Hloc _).
Local Notation i_rw := (RoundTripLeaf.i_rw E Hlen Hfuel Hdec Hloc).
Local Notation i_rc := (RoundTripLeaf.i_rc E Hlen Hfuel Hdec Hloc).
Local Notation i_rs := (RoundTripLeaf.i_rs E Hlen Hfuel Hdec Hloc).
Local Notation i_ra := (RoundTripLeaf.i_ra E Hlen Hfuel Hdec Hloc).
Local Notation i_ws1 := (RoundTripLeaf.i_ws1 E Hlen Hfuel Hdec Hloc).
Local Notation i_rest := (RoundTripLeaf.i_rest E Hlen Hfuel Hdec Hloc).
Local Notation i_date := (RoundTripLeaf.i_date E Hlen Hfuel Hdec Hloc).
Local Notation i_account := (RoundTripLeaf.i_account E Hlen Hfuel Hdec Hloc).
Local Notation i_commodity := (RoundTripLeaf.i_commodity E Hlen Hfuel Hdec Hloc).
Local Notation i_quoted := (RoundTripLeaf.i_quoted E Hlen Hfuel Hdec Hloc).
Local Notation i_perf_loop := (RoundTripInv.i_perf_loop E Hlen Hfuel Hdec Hloc).
Local Notation i_open := (RoundTripInv.i_open E Hlen Hfuel Hdec Hloc).
Local Notation i_close := (RoundTripInv.i_close E Hlen Hfuel Hdec Hloc).
Local Notation i_price := (RoundTripInv.i_price E Hlen Hfuel Hdec Hloc).
Local Notation i_balance := (RoundTripInv.i_balance E Hlen Hfuel Hdec Hloc).
Local Notation i_balances_loop := (RoundTripInv.i_balances_loop E Hlen Hfuel Hdec Hloc).
Local Notation i_transaction := (RoundTripInv.i_transaction E Hlen Hfuel Hdec Hloc).
Local Notation win_slice := (RoundTripBase.win_slice E Hlen Hfuel Hdec Hloc).
Local Notation win_off := (RoundTripBase.win_off E Hlen Hfuel Hdec Hloc).
Local Notation vinv_cur_fr := (RoundTripBase.vinv_cur_fr E Hlen Hfuel Hdec Hloc).
Local Notation inv_facts := (ScannerProofs.inv_facts E Hlen Hfuel Hdec).

Tactic Notation "istep" uconstr(L) "as" simple_intropattern(xpat) ident(s1) ident(HV) ident(Hle) simple_intropattern(HQ) :=
  eapply ipost_bind; [ eapply L; eauto | lia | intros xpat s1 HV Hle; cbv beta; intros HQ ].

(* a post-condition and a fact read off the success equation *)
Lemma ipost_and {A} (Q R : A -> state -> Prop) o (m : res A) :
  ipost Q o m -> (forall a s', m = Ok a s' -> R a s') -> ipost (fun a s' => Q a s' /\ R a s') o m.
Proof using.
  intros HQ HR. destruct m as [a s'|e s'|]; cbn [RoundTripLeaf.ipost] in *; auto.
  destruct HQ as (HV & Hle & Hq). split; [assumption|]. split; [assumption|]. split; [assumption|]. now apply HR.
Qed.

Lemma cur_win_ascii s k x s' : VInv s -> Win s (k :: x) s' -> 0 <= k < 128 -> cur s = k.
Proof using All.
  intros HV Hw Hk. rewrite (vinv_cur_fr s HV). unfold RoundTripBase.Win in Hw. rewrite Hw. cbn [app].
  now apply fr_ascii.
Qed.

Lemma cur_win_nil s s' : VInv s -> VInv s' -> Win s [] s' -> cur s' = cur s.
Proof using All.
  intros HV HV' Hw. rewrite (vinv_cur_fr s HV), (vinv_cur_fr s' HV'). unfold RoundTripBase.Win in Hw.
  cbn [app] in Hw. now rewrite Hw.
Qed.

(* readWhitespace1: blanks, and if there are none the next rune is a newline or the end *)
Definition ws1Q (s : state) (s' : state) : Prop :=
  exists W, blanks_b W = true /\ Win s W s' /\ (W = [] -> cur s' = 10 \/ cur s' = eof).

Lemma i_ws1w s : VInv s -> ipost (fun _ s' => ws1Q s s') (off s) (read_whitespace1 E s).
Proof using All.
  intros HV. unfold read_whitespace1.
  destruct (negb (is_whitespace_or_newline (cur s)) && negb (cur s =? eof)) eqn:Hg; [exact I|].
  eapply ipost_weaken; [apply i_rw; assumption|lia|].
  intros rg s' HV' _ (_ & x & Hx & Hw & Hst). exists x. split; [now apply (wsl_blanks dec Hdec)|].
  split; [exact Hw|]. intros ->. pose proof (cur_win_nil s s' HV HV' Hw) as Hc. rewrite Hc in *.
  unfold is_whitespace_or_newline, is_newline, is_whitespace, eof in *. lia.
Qed.

(* blanks, a keyword, blanks: the window and what makes the blanks non-empty *)
Lemma glue_window nl s2 s3 s4 s5 W1 k kw' W2 :
  VInv s2 -> VInv s3 -> VInv s4 -> VInv s5 ->
  blanks_b W1 = true -> Win s2 W1 s3 -> (W1 = [] -> cur s3 = 10 \/ cur s3 = eof) ->
  Win s3 (k :: kw') s4 -> 0 <= k < 128 -> is_ws_byte k = false -> k <> 10 ->
  blanks_b W2 = true -> Win s4 W2 s5 -> (W2 = [] -> cur s5 = 10 \/ cur s5 = eof) ->
  cur s5 <> 10 -> cur s5 <> eof ->
  kw_glue (k :: kw') nl (slice t (off s2) (off s5)) = true.
Proof using All.
  intros HV2 HV3 HV4 HV5 HW1 Hw1 Hn1 Hwk Hk Hkb Hk10 HW2 Hw2 Hn2 H10 Heof.
  pose proof (win_trans _ _ _ _ _ Hw1 (win_trans _ _ _ _ _ Hwk Hw2)) as Hw.
  rewrite (win_slice s2 _ s5 (proj1 HV2) (proj1 HV5) Hw).
  apply kw_glue_ok; [| exact Hkb |].
  - apply blanks1_intro; [exact HW1|]. intros Hn. specialize (Hn1 Hn).
    pose proof (cur_win_ascii s3 k kw' s4 HV3 Hwk Hk) as Hc. unfold eof in Hn1. lia.
  - left. apply blanks1_intro; [exact HW2|]. intros Hn. specialize (Hn2 Hn). tauto.
Qed.

(* ---- include, transaction ---- *)

Lemma i_include_kw s : VInv s ->
  ipost (fun i _ => kw_then_blanks kw_include (slice t (r_start (in_range i)) (r_start (qs_range (in_path i)))) = true)
        (off s) (parse_include E s).
Proof using All.
  intros HV. unfold parse_include. apply ipost_annot.
  istep i_rs as ? s1 HV1 L1 Hw1. { repeat constructor; unfold ascii; lia. }
  istep i_ws1w as ? s2 HV2 L2 (W & HW & Hw2 & Hn).
  eapply ipost_bind; [apply ipost_and; [apply i_quoted; assumption|]|lia|].
  { intros q s3 Hq. exact (quoted_start E _ _ _ Hq). }
  intros q s3 HV3 L3 (_ & Hqs & H34). cbv beta in *.
  apply ipost_ret_with; [assumption|lia|]. prj. rewrite Hqs.
  pose proof (win_trans _ _ _ _ _ Hw1 Hw2) as Hw.
  change (sc_start (new_scope DIncl s)) with (off s).
  rewrite (win_slice s _ s2 (proj1 HV) (proj1 HV2) Hw).
  apply kw_then_blanks_ok. apply blanks1_intro; [exact HW|].
  intros Hnil. specialize (Hn Hnil). unfold eof in Hn. lia.
Qed.

(* ---- assertion: where the first balance starts ---- *)

Definition asQ (date : range) (s : state) (a : assertion) : Prop :=
  as_date a = date /\
  exists b bs, as_balances a = b :: bs /\
    ((r_start (bl_range b) = off s /\ cur s <> 10 /\ cur s <> eof) \/
     (r_start (bl_range b) = off s + 1 /\ slice t (off s) (off s + 1) = [10])).

Lemma i_assertion_kw sc date s : VInv s ->
  ipost (fun a _ => asQ date s a) (off s) (parse_assertion E sc date s).
Proof using All.
  intros HV. unfold parse_assertion. apply ipost_annot.
  unfold ifM. destruct (is_newline (cur s)) eqn:Hnl.
  - istep i_rest as ? s1 HV1 L1 (W & HW & Hrl).
    eapply ipost_bind; [apply ipost_and; [apply i_balances_loop; assumption|]|lia|].
    { intros bs s2 Hbs. exact (balances_loop_start E _ _ _ _ Hbs). }
    intros bs s2 HV2 L2 (_ & b & bs' & -> & Hst & (Hne & _)). cbv beta in *.
    apply ipost_ret_with; [assumption|lia|]. unfold asQ. prj. split; [reflexivity|].
    exists b, bs'. split; [reflexivity|]. right.
    destruct Hrl as [Hw|(_ & Heof)]; [|congruence].
    assert (HWn : W = []).
    { destruct W as [|w0 W'] eqn:HeqW; [reflexivity|]. exfalso. rewrite <- HeqW in *.
      assert (Hne' : W <> []) by (rewrite HeqW; discriminate).
      pose proof (wsl_first dec Hdec W ([10] ++ rest s1) HW Hne') as Hin.
      unfold RoundTripBase.Win in Hw. rewrite <- app_assoc in Hw.
      rewrite (vinv_cur_fr s HV), Hw in Hnl. unfold is_newline in Hnl. cbn [In] in Hin. lia. }
    subst W. cbn [app] in Hw.
    pose proof (win_off s _ s1 (proj1 HV) (proj1 HV1) Hw) as Ho. rewrite zlen_cons, zlen_nil in Ho.
    split; [lia|]. replace (off s + 1) with (off s1) by lia.
    exact (win_slice s _ s1 (proj1 HV) (proj1 HV1) Hw).
  - eapply ipost_bind; [apply ipost_and; [apply i_balance; assumption|]|lia|].
    { intros b s1 Hb. exact (balance_start E _ _ _ Hb). }
    intros b s1 HV1 L1 (_ & Hst & (Hne & _)). cbv beta in *.
    apply ipost_ret_with; [assumption|lia|]. unfold asQ. prj. split; [reflexivity|].
    exists b, []. split; [reflexivity|]. left. split; [exact Hst|]. split; [|exact Hne].
    unfold is_newline in Hnl. lia.
Qed.

(* ---- addons ---- *)

Lemma i_performance_kw s : VInv s ->
  ipost (fun p s' => pf_range p = mkRange (off s) (off s') /\ off s + 2 <= off s' /\
                     slice t (off s) (off s + 1) = [40] /\ slice t (off s' - 1) (off s') = [41])
        (off s) (parse_performance E s).
Proof using All.
  intros HV. unfold parse_performance. apply ipost_annot.
  istep i_rc as ? s1 HV1 L1 (Ho1 & _ & Hw1). { lia. }
  istep i_rw as ? s2 HV2 L2 _.
  eapply ipost_bind with (Q1 := fun _ _ => True); [|lia|].
  { unfold ifM. destruct (negb (cur s2 =? 41)).
    - istep i_commodity as c s3 HV3 L3 _. istep i_rw as ? s4 HV4 L4 _. apply ipost_ret; [assumption|lia|exact I].
    - apply ipost_ret; [assumption|lia|exact I]. }
  intros first s3 HV3 L3 _.
  istep i_perf_loop as more s4 HV4 L4 _.
  istep i_rc as ? s5 HV5 L5 (Ho5 & _ & Hw5). { lia. }
  apply ipost_ret_with; [assumption|lia|]. prj. split; [reflexivity|]. split; [lia|]. split.
  - replace (off s + 1) with (off s1) by lia. exact (win_slice s _ s1 (proj1 HV) (proj1 HV1) Hw1).
  - replace (off s5 - 1) with (off s4) by lia. exact (win_slice s4 _ s5 (proj1 HV4) (proj1 HV5) Hw5).
Qed.

Lemma interval_first kw : In kw [kw_daily; kw_weekly; kw_monthly; kw_quarterly] ->
  exists k kw', kw = k :: kw' /\ 0 <= k < 128 /\ k <> 10.
Proof using.
  clear Hlen Hfuel Hdec Hloc.
  cbn [In]. intros [<-|[<-|[<-|[<-|[]]]]]; eexists _, _; (split; [reflexivity|lia]).
Qed.

Lemma i_accrual_kw s : VInv s ->
  ipost (fun a s' => ac_range a = mkRange (off s) (off s') /\
           exists W, blanks1_b W = true /\ r_start (ac_interval a) = off s + zlen W /\
                     slice t (off s) (off s + zlen W) = W)
        (off s) (parse_accrual E s).
Proof using All.
  intros HV. unfold parse_accrual. apply ipost_annot.
  istep i_ws1w as ? s1 HV1 L1 (W & HW & Hw & Hn).
  eapply ipost_bind with (Q1 := fun iv _ => r_start iv = off s1 /\ cur s1 <> 10 /\ cur s1 <> eof); [|lia|].
  { unfold parse_interval. apply ipost_annot.
    istep i_ra as rg s2 HV2 L2 (_ & kw & Hin & Hwk). { apply (intervals_ascii E Hlen Hfuel Hdec Hloc). }
    apply ipost_ret_with; [assumption|lia|]. prj. split; [reflexivity|].
    destruct (interval_first kw Hin) as (k & kw' & -> & Hk & Hk10).
    rewrite (cur_win_ascii s1 k kw' s2 HV1 Hwk Hk). unfold eof. lia. }
  intros iv s2 HV2 L2 (Hiv & H10 & Heof).
  istep i_ws1 as ? s3 HV3 L3 _.
  istep i_date as st s4 HV4 L4 _.
  istep i_ws1 as ? s5 HV5 L5 _.
  istep i_date as en s6 HV6 L6 _.
  istep i_ws1 as ? s7 HV7 L7 _.
  istep i_account as acc s8 HV8 L8 _.
  apply ipost_ret_with; [assumption|lia|]. prj. split; [reflexivity|].
  exists W. pose proof (win_off s W s1 (proj1 HV) (proj1 HV1) Hw) as Ho.
  split; [|split; [lia|]].
  - apply blanks1_intro; [exact HW|]. intros Hnil. specialize (Hn Hnil). tauto.
  - rewrite <- Ho. exact (win_slice s W s1 (proj1 HV) (proj1 HV1) Hw).
Qed.

Lemma kw_addons_zero : kw_addons t zero_addons = true.
Proof using. reflexivity. Qed.

Lemma extend_range a b c : a < b -> b <= c -> extend (mkRange b c) (mkRange a b) = mkRange a c.
Proof using. clear Hlen Hfuel Hdec Hloc. intros H1 H2. unfold extend. prj.
  destruct (Z.ltb_spec a b); [|lia]. destruct (Z.ltb_spec c b); [lia|]. reflexivity.
Qed.

Lemma i_addons_loop_kw sc : forall n s ad, VInv s -> kw_addons t ad = true ->
  ipost (fun a _ => kw_addons t a = true) (off s) (addons_loop E sc n ad s).
Proof using All.
  induction n as [|n IH]; intros s ad HV Had; cbn [addons_loop]; [exact I|].
  istep i_ra as r s1 HV1 L1 (Hr & kw & Hin & Hw). { repeat constructor; unfold ascii; lia. }
  pose proof (win_off s kw s1 (proj1 HV) (proj1 HV1) Hw) as Ho.
  pose proof (win_slice s kw s1 (proj1 HV) (proj1 HV1) Hw) as Hsl.
  assert (Hex : extract E r = kw) by (rewrite Hr; unfold extract; prj; exact Hsl).
  pose proof (inv_facts s (proj1 HV)) as (H0 & _).
  assert (Hlt : off s < off s1).
  { assert (1 <= zlen kw) by (cbn [In] in Hin; destruct Hin as [<-|[<-|[]]]; vm_compute; discriminate). lia. }
  unfold kw_addons in Had. apply andb_true_iff in Had. destruct Had as (Hp & Ha).
  eapply ipost_bind with (Q1 := fun ad' _ => kw_addons t ad' = true); [|lia|].
  { destruct (str_eqb (extract E r) kw_performance) eqn:E1.
    - destruct (negb (range_empty (pf_range (ad_perf ad)))); [exact I|].
      istep i_performance_kw as p s2 HV2 L2 (Hpr & Hlen2 & H40 & H41).
      apply ipost_ret; [assumption|lia|]. unfold kw_addons. prj. rewrite Ha, andb_true_r.
      apply str_eqb_eq in E1. rewrite Hex in E1. rewrite E1 in Ho, Hsl.
      assert (Ho1 : off s1 = off s + 12) by (rewrite Ho; reflexivity).
      unfold kw_perf. apply orb_true_iff. right. prj. rewrite Hpr, Hr, (extend_range _ _ _ Hlt) by lia. prj.
      change (zlen kw_paren) with 13.
      assert (Hle : (off s + 13 + 1 <=? off s2) = true) by lia. rewrite Hle. cbn [andb].
      rewrite (slice_app t (off s) (off s1) (off s + 13)) by lia.
      rewrite Hsl. replace (off s + 13) with (off s1 + 1) by lia. rewrite H40, H41. reflexivity.
    - destruct (str_eqb (extract E r) kw_accrue) eqn:E2.
      + destruct (negb (range_empty (ac_range (ad_accrual ad)))); [exact I|].
        istep i_accrual_kw as a s2 HV2 L2 (Har & W & HW & Hiv & HsW).
        apply ipost_ret; [assumption|lia|]. unfold kw_addons. prj. rewrite Hp. cbn [andb].
        apply str_eqb_eq in E2. rewrite Hex in E2. rewrite E2 in Ho, Hsl.
        unfold kw_accrual. apply orb_true_iff. right. prj. rewrite Har, Hr, (extend_range _ _ _ Hlt) by lia. prj.
        rewrite Hiv. pose proof (zlen_nonneg W).
        rewrite (slice_app t (off s) (off s1) (off s1 + zlen W)) by lia.
        rewrite Hsl, HsW. now apply kw_then_blanks_ok.
      + apply ipost_ok; [assumption|lia|]. unfold kw_addons. now rewrite Hp, Ha. }
  intros ad' s2 HV2 L2 Had'.
  eapply ipost_bind with (Q1 := fun _ _ => True);
    [apply replace_err_ipost; eapply ipost_weaken; [apply i_rest; assumption|lia|auto]|lia|].
  intros _ s3 HV3 L3 _.
  unfold ifM. destruct (negb (cur s3 =? 64)).
  - apply ipost_ret_with; [assumption|lia|]. exact Had'.
  - eapply ipost_weaken; [apply (IH s3 ad' HV3 Had')|lia|]. auto.
Qed.

Lemma i_addons_kw s : VInv s -> ipost (fun a _ => kw_addons t a = true) (off s) (parse_addons E s).
Proof using All.
  intros HV. unfold parse_addons. apply ipost_annot.
  apply i_addons_loop_kw; [assumption|apply kw_addons_zero].
Qed.

(* ---- directive ---- *)

Hypothesis Hcls : class_ok letter digit.

Lemma tok_not_nl s : tok_start s -> cur s <> 10 /\ cur s <> eof.
Proof using Hcls.
  clear Hlen Hfuel Hdec Hloc.
  intros (He & [H36|Ha]); [lia|]. split; [|exact He]. intros H10. rewrite H10 in Ha.
  destruct (co_sep _ _ Hcls 10) as (Hl & Hd); [cbn [In]; tauto|].
  unfold is_alphanumeric in Ha. rewrite Hl, Hd in Ha. discriminate.
Qed.

Lemma i_directive_kw s : VInv s ->
  ipost (fun d _ => kw_body t (d_body d) = true) (off s) (parse_directive E s).
Proof using All.
  intros HV. unfold parse_directive. apply ipost_annot.
  set (sc := new_scope DDir s).
  eapply ipost_bind with (Q1 := fun ad _ => kw_addons t ad = true); [|lia|].
  { unfold ifM, cur_is. destruct (cur s =? 64).
    - apply i_addons_kw; assumption.
    - apply ipost_ret; [assumption|lia|]. apply kw_addons_zero. }
  intros ad s1 HV1 L1 Had.
  unfold ifM at 1. destruct (cur_is 105 s1).
  - istep i_include_kw as i s2 HV2 L2 Hi.
    apply ipost_ret_with; [assumption|lia|]. prj. exact Hi.
  - istep i_date as date s2 HV2 L2 (Hdate & _ & _).
    istep i_ws1w as ? s3 HV3 L3 (W1 & HW1 & Hw1 & Hn1).
    unfold ifM at 1. destruct (cur_is 34 s3).
    + eapply ipost_bind; [apply ipost_and; [apply i_transaction; assumption|]|lia|].
      { intros x s4 Hx. exact (transaction_start E _ _ _ _ _ _ Hx). }
      intros x s4 HV4 L4 (_ & Hxd & Hxa & Hxs & H34). cbv beta in *.
      apply ipost_ret_with; [assumption|lia|]. prj. cbn [kw_body].
      rewrite Hxd, Hxa, Hxs, Hdate, Had, andb_true_r. prj.
      rewrite (win_slice s2 W1 s3 (proj1 HV2) (proj1 HV3) Hw1).
      apply blanks1_intro; [exact HW1|]. intros Hnil. specialize (Hn1 Hnil). unfold eof in Hn1. lia.
    + istep i_ra as kw s4 HV4 L4 (Hkw & k & Hin & Hwk). { repeat constructor; unfold ascii; lia. }
      istep i_ws1w as ? s5 HV5 L5 (W2 & HW2 & Hw2 & Hn2).
      assert (Hex : extract E kw = k).
      { rewrite Hkw. unfold extract. prj. apply (win_slice s3 k s4 (proj1 HV3) (proj1 HV4) Hwk). }
      destruct (str_eqb (extract E kw) kw_open) eqn:E1; [|
      destruct (str_eqb (extract E kw) kw_close) eqn:E2; [|
      destruct (str_eqb (extract E kw) kw_balance) eqn:E3; [|
      destruct (str_eqb (extract E kw) kw_price) eqn:E4]]].
      * apply str_eqb_eq in E1. rewrite Hex in E1. rewrite E1 in Hwk.
        eapply ipost_bind; [apply ipost_and; [apply i_open; assumption|]|lia|].
        { intros x s6 Hx. exact (open_start E _ _ _ _ _ Hx). }
        intros x s6 HV6 L6 (_ & Hxd & Hxs & Htok). cbv beta in *.
        apply ipost_ret_with; [assumption|lia|]. prj. cbn [kw_body]. rewrite Hxd, Hxs, Hdate. prj.
        destruct (tok_not_nl s5 Htok) as (H10 & Heof).
        apply (glue_window _ s2 s3 s4 s5 W1 _ _ W2); try assumption; try lia; reflexivity.
      * apply str_eqb_eq in E2. rewrite Hex in E2. rewrite E2 in Hwk.
        eapply ipost_bind; [apply ipost_and; [apply i_close; assumption|]|lia|].
        { intros x s6 Hx. exact (close_start E _ _ _ _ _ Hx). }
        intros x s6 HV6 L6 (_ & Hxd & Hxs & Htok). cbv beta in *.
        apply ipost_ret_with; [assumption|lia|]. prj. cbn [kw_body]. rewrite Hxd, Hxs, Hdate. prj.
        destruct (tok_not_nl s5 Htok) as (H10 & Heof).
        apply (glue_window _ s2 s3 s4 s5 W1 _ _ W2); try assumption; try lia; reflexivity.
      * apply str_eqb_eq in E3. rewrite Hex in E3. rewrite E3 in Hwk.
        istep i_assertion_kw as x s6 HV6 L6 (Hxd & b & bs & Hbs & Hb).
        apply ipost_ret_with; [assumption|lia|]. prj. cbn [kw_body]. rewrite Hxd, Hbs, Hdate. prj.
        destruct Hb as [(Hst & H10 & Heof)|(Hst & Hnl)]; rewrite Hst.
        -- apply (glue_window _ s2 s3 s4 s5 W1 _ _ W2); try assumption; try lia; reflexivity.
        -- pose proof (win_trans _ _ _ _ _ Hw1 (win_trans _ _ _ _ _ Hwk Hw2)) as Hw.
           pose proof (inv_facts s2 (proj1 HV2)) as (H0 & _).
           pose proof (win_off s2 _ s5 (proj1 HV2) (proj1 HV5) Hw) as Ho.
           pose proof (zlen_nonneg (W1 ++ kw_balance ++ W2)).
           rewrite (slice_app t (off s2) (off s5) (off s5 + 1)) by lia.
           rewrite (win_slice s2 _ s5 (proj1 HV2) (proj1 HV5) Hw), Hnl, <- !app_assoc.
           apply kw_glue_ok; [|reflexivity|].
           ++ apply blanks1_intro; [exact HW1|]. intros Hnil. specialize (Hn1 Hnil).
              pose proof (cur_win_ascii s3 _ _ s4 HV3 Hwk ltac:(lia)) as Hc. unfold eof in Hn1. lia.
           ++ right. split; [reflexivity|]. exists W2. split; [exact HW2|reflexivity].
      * apply str_eqb_eq in E4. rewrite Hex in E4. rewrite E4 in Hwk.
        eapply ipost_bind; [apply ipost_and; [apply i_price; assumption|]|lia|].
        { intros x s6 Hx. exact (price_start E _ _ _ _ _ Hx). }
        intros x s6 HV6 L6 (_ & Hxd & Hxs & Htok). cbv beta in *.
        apply ipost_ret_with; [assumption|lia|]. prj. cbn [kw_body]. rewrite Hxd, Hxs, Hdate. prj.
        destruct (tok_not_nl s5 Htok) as (H10 & Heof).
        apply (glue_window _ s2 s3 s4 s5 W1 _ _ W2); try assumption; try lia; reflexivity.
      * exfalso. rewrite Hex in E1, E2, E3, E4. cbn [In] in Hin.
        destruct Hin as [<-|[<-|[<-|[<-|[]]]]];
          [rewrite str_eqb_refl in E1|rewrite str_eqb_refl in E2|rewrite str_eqb_refl in E3|rewrite str_eqb_refl in E4];
          discriminate.
Qed.

Lemma parse_env_keywords f : parse_env E = ParseOk f -> wf_keywords_b t f = true.
Proof using All.
  unfold parse_env. destruct (advance E (init_state E)) as [u s|e s|] eqn:Ha; try discriminate.
  destruct (inv_advance_init E Hlen Hfuel Hdec Hloc u s Ha) as (HV & Ho).
  unfold parse_file, annot, bind.
  pose proof (i_file_loop_all E Hlen Hfuel Hdec Hloc (fun d => kw_body t (d_body d) = true)
                i_directive_kw (loop_fuel E) s HV) as Hf.
  destruct (file_loop E (loop_fuel E) s) as [ds s'|e s'|]; cbn [RoundTripLeaf.ipost] in Hf; try discriminate.
  unfold ret_with. intros H. inversion H. subst f. unfold wf_keywords_b. prj.
  destruct Hf as (_ & _ & Hf). apply forallb_forall. rewrite Forall_forall in Hf. exact Hf.
Qed.

End WithEnv.

(* ================================================================== the theorem *)

Theorem parse_text_keywords letter digit t f : class_ok letter digit ->
  parse_text letter digit t = ParseOk f -> wf_keywords_b t f = true.
Proof.
  intros Hcls Hp. set (E := mk_env Utf8M.decode letter digit t).
  assert (Hfuel : (length (e_text E) < e_fuel E)%nat) by (cbn [E mk_env e_text e_fuel]; lia).
  exact (parse_env_keywords E eq_refl Hfuel utf8_decoder_ok utf8_decoder_local Hcls f Hp).
Qed.

(* without [class_ok] the blanks after a keyword may be missing: a classification that calls the
   newline a letter makes the account of `open` start with the newline *)
Definition nl_letter (c : Z) : bool := (c =? 10) || ((65 <=? c) && (c <=? 90)).
Definition nl_digit (c : Z) : bool := (48 <=? c) && (c <=? 57).
Definition nl_text : str := Eval vm_compute in
  runes_of_string "2020-01-01 open
A"%string.

Theorem keywords_unrestricted_refuted :
  exists letter digit t f, parse_text letter digit t = ParseOk f /\ wf_keywords_b t f = false.
Proof.
  exists nl_letter, nl_digit, nl_text. eexists. split; [vm_compute; reflexivity|]. vm_compute. reflexivity.
Qed.

(* everything that is proved of a tree, for the tables of the Go toolchain *)
Theorem parse_text_total_unicode t :
  match parse_text is_letter is_digit t with
  | ParseOk f => wf_tree_b t f = true /\ cover_b t f = true /\ interleave t f = t /\
                 wf_leaves_b is_letter is_digit t f = true /\ wf_keywords_b t f = true
  | ParseErr e => err_in_bounds_b t e = true
  | ParseFuel => False
  end.
Proof.
  pose proof (parse_text_total is_letter is_digit t) as H.
  destruct (parse_text is_letter is_digit t) as [f|e|] eqn:Hp; [|exact H|exact H].
  destruct H as (H1 & H2 & H3). repeat split; try assumption.
  - now apply parse_text_leaves.
  - exact (parse_text_keywords is_letter is_digit t f unicode_class_ok Hp).
Qed.
