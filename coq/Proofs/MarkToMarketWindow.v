(* C03 on the rendered report, part 2: the window.  The cells of an asset/liability account,
   cumulated up to a period end col, are the values Valuate posted on the days dated in
   [window start, col]; by the delta form of the stage theorem (Proofs/MarkToMarket.v mtm_delta)
   that is  Q(col) p(col) - Q(W-1) p(W-1)  up to one 10^-8 per contributing Multiply, with
   quantities and prices read off the builder's days (linked to the directives in
   Proofs/MarkToMarketJournal.v).

   Part A  the columns: summing the column indicator over the period ends up to col
   Part B  splitting a date-sorted list of days at a date; sums over dated postings
   Part C  the run of ComputePrices and Valuate over a split list
   Part D  windowed_days *)
From Coq Require Import ZArith QArith Qabs List Bool Lia Permutation Sorting.Sorted.
From Knut Require Import Model.Str Model.Dec Model.Date Model.Account Model.Ledger Model.Price
     Model.Journal Model.Check Model.Pipeline Model.Table Model.Report Model.Cli
     Spec.DateSpec Spec.WellformedSpec Spec.LedgerSpec Spec.LedgerSyntax Spec.MarkToMarketSpec
     Spec.PriceSpec Spec.PriceDaySpec Spec.MarkToMarketReportSpec
     Proofs.DecProofs Proofs.DecValue Proofs.CheckLemmas Proofs.CheckProofs Proofs.PairProofs
     Proofs.DateProofs Proofs.BeancountProofs
     Proofs.LedgerProofs Proofs.CloseProofs Proofs.PriceDayProofs Proofs.ValuationProofs
     Proofs.MarkToMarket Proofs.MarkToMarketReport.
Import ListNotations.
Open Scope Q_scope.

(* ------------------------------------------------------------ Part A: columns *)

Lemma tiles_ends_sorted : forall ps s e, tiles s e ps -> StronglySorted Z.lt (map p_end ps).
Proof.
  induction ps as [|p ps IH]; intros s e H; [destruct H|].
  cbn [tiles] in H. destruct H as (Hs & Hle & Hrest). cbn [map]. destruct ps as [|p2 ps].
  - repeat constructor.
  - constructor; [exact (IH _ _ Hrest)|].
    destruct (tiles_facts _ _ _ Hrest) as [_ Hb]. rewrite Forall_forall in *. intros x Hx.
    apply in_map_iff in Hx. destruct Hx as (q & <- & Hq). specialize (Hb _ Hq). lia.
Qed.

(* column_for picks the first period end that is not before the date *)
Lemma column_for_some : forall ps d e0, StronglySorted Z.lt (map p_end ps) ->
  column_for ps d = Some e0 ->
  In e0 (map p_end ps) /\ (d <= e0)%Z /\ forall e, In e (map p_end ps) -> (d <= e)%Z -> (e0 <= e)%Z.
Proof.
  induction ps as [|p ps IH]; intros d e0 Hs H; cbn [column_for] in H; [discriminate|].
  cbn [map] in Hs. inversion Hs as [|? ? Hs' Hall]; subst. rewrite Forall_forall in Hall.
  destruct (d <=? p_end p)%Z eqn:E.
  - injection H as <-. split; [left; reflexivity|]. split; [lia|].
    intros e [<-|He] _; [lia|]. specialize (Hall _ He). lia.
  - destruct (IH _ _ Hs' H) as (A & B & C). split; [right; exact A|]. split; [exact B|].
    intros e [<-|He] Hd; [lia|]. apply C; assumption.
Qed.

Lemma column_for_none : forall ps d, column_for ps d = None -> forall e, In e (map p_end ps) -> (e < d)%Z.
Proof.
  induction ps as [|p ps IH]; intros d H e He; [destruct He|]. cbn [column_for] in H.
  destruct (d <=? p_end p)%Z eqn:E; [discriminate|]. destruct He as [<-|He]; [lia|]. apply IH; assumption.
Qed.

Lemma count_in_sorted (e0 : Z) : forall l, StronglySorted Z.lt l -> In e0 l ->
  lsum (fun e => if (e0 =? e)%Z then 1 else 0) l == 1.
Proof.
  induction l as [|x l IH]; intros Hs Hin; [destruct Hin|].
  inversion Hs as [|? ? Hs' Hall]; subst. rewrite Forall_forall in Hall.
  unfold LedgerProofs.qsum. cbn [fold_right]. fold (lsum (fun e => if (e0 =? e)%Z then 1 else 0) l).
  destruct Hin as [->|Hin].
  - rewrite Z.eqb_refl. rewrite LedgerProofs.qsum_zero; [ring|].
    intros y Hy. specialize (Hall _ Hy). replace (e0 =? y)%Z with false by lia. reflexivity.
  - rewrite (IH Hs' Hin). specialize (Hall _ Hin). replace (e0 =? x)%Z with false by lia. ring.
Qed.

(* over the period ends up to col, a date inside the window is counted once iff it is <= col *)
Lemma cum_indicator ps col d E :
  StronglySorted Z.lt (map p_end ps) -> In col (map p_end ps) ->
  Forall (fun p => (p_end p <= E)%Z) ps -> In E (map p_end ps) -> (d <= E)%Z ->
  lsum (fun e => if (e <=? col)%Z && in_col ps e d then 1 else 0) (map p_end ps) == if (d <=? col)%Z then 1 else 0.
Proof.
  intros Hs Hcol Hle HE Hd. unfold in_col. destruct (column_for ps d) as [e0|] eqn:Ec.
  - destruct (column_for_some _ _ _ Hs Ec) as (A & B & C).
    assert (Heq : (e0 <=? col)%Z = (d <=? col)%Z).
    { destruct (d <=? col)%Z eqn:E1.
      - apply Z.leb_le. apply C; [exact Hcol|lia].
      - apply Z.leb_gt. lia. }
    rewrite <- Heq. destruct (e0 <=? col)%Z eqn:E0.
    + rewrite <- (count_in_sorted e0 _ Hs A). apply LedgerProofs.qsum_ext. intros e _.
      destruct (e0 =? e)%Z eqn:E2; [apply Z.eqb_eq in E2; subst e; rewrite E0; reflexivity|].
      rewrite andb_false_r. reflexivity.
    + apply LedgerProofs.qsum_zero. intros e _. destruct (e0 =? e)%Z eqn:E2; [apply Z.eqb_eq in E2; subst e; rewrite E0; reflexivity|].
      rewrite andb_false_r. reflexivity.
  - pose proof (column_for_none _ _ Ec E HE). lia.
Qed.

(* ------------------------------------------------------------ Part B: splitting sorted days *)

Lemma ss_app_l {A} (R : A -> A -> Prop) l1 l2 : StronglySorted R (l1 ++ l2) -> StronglySorted R l1 /\ StronglySorted R l2.
Proof.
  induction l1 as [|x l1 IH]; cbn [app]; intros H; [split; [constructor|exact H]|].
  inversion H as [|? ? H1 H2]; subst. destruct (IH H1) as [I1 I2]. split; [|exact I2].
  constructor; [exact I1|]. apply Forall_app in H2. tauto.
Qed.

Lemma filter_all_false {A} (f : A -> bool) l : (forall x, In x l -> f x = false) -> filter f l = [].
Proof.
  induction l as [|x l IH]; intros H; cbn [filter]; [reflexivity|].
  rewrite (H x (or_introl eq_refl)). apply IH. intros y Hy. apply H. right. exact Hy.
Qed.

Lemma filter_all_true {A} (f : A -> bool) l : (forall x, In x l -> f x = true) -> filter f l = l.
Proof.
  induction l as [|x l IH]; intros H; cbn [filter]; [reflexivity|].
  rewrite (H x (or_introl eq_refl)). f_equal. apply IH. intros y Hy. apply H. right. exact Hy.
Qed.

Lemma filter_filter_impl {A} (f g : A -> bool) l : (forall x, f x = true -> g x = true) -> filter f (filter g l) = filter f l.
Proof.
  intros H. induction l as [|x l IH]; cbn [filter]; [reflexivity|].
  destruct (g x) eqn:Eg; cbn [filter].
  - rewrite IH. reflexivity.
  - destruct (f x) eqn:Ef; [rewrite (H x Ef) in Eg; discriminate|exact IH].
Qed.

Definition days_after (T : Z) (ds : list day) : list day := filter (fun x => (T <? d_date x)%Z) ds.

Lemma sorted_split T : forall ds, StronglySorted Z.lt (dates ds) -> ds = days_upto T ds ++ days_after T ds.
Proof.
  induction ds as [|x ds IH]; intros Hs; [reflexivity|].
  unfold dates in Hs. cbn [map] in Hs. inversion Hs as [|? ? Hs' Hall]; subst. rewrite Forall_forall in Hall.
  unfold days_upto, days_after. cbn [filter]. destruct (d_date x <=? T)%Z eqn:E.
  - replace (T <? d_date x)%Z with false by lia. cbn [app]. f_equal. apply IH. exact Hs'.
  - replace (T <? d_date x)%Z with true by lia.
    rewrite (filter_all_false (fun y => (d_date y <=? T)%Z) ds), (filter_all_true (fun y => (T <? d_date y)%Z) ds); [reflexivity| |].
    + intros y Hy. assert (Hd : In (d_date y) (map d_date ds)) by (apply in_map; exact Hy). specialize (Hall _ Hd). lia.
    + intros y Hy. assert (Hd : In (d_date y) (map d_date ds)) by (apply in_map; exact Hy). specialize (Hall _ Hd). lia.
Qed.

(* three parts: before the window, inside [W, col], after col *)
Lemma sorted_split3 W col ds : StronglySorted Z.lt (dates ds) -> (W - 1 <= col)%Z ->
  exists B, ds = days_upto (W - 1) ds ++ B ++ days_after col ds /\
            days_upto col ds = days_upto (W - 1) ds ++ B /\
            (forall x, In x B -> (W <= d_date x <= col)%Z).
Proof.
  intros Hs Hle. pose proof (sorted_split col ds Hs) as E1.
  assert (HsU : StronglySorted Z.lt (dates (days_upto col ds))).
  { rewrite E1 in Hs. unfold dates in *. rewrite map_app in Hs. exact (proj1 (ss_app_l _ _ _ Hs)). }
  pose proof (sorted_split (W - 1) _ HsU) as E2.
  assert (E3 : days_upto (W - 1) (days_upto col ds) = days_upto (W - 1) ds).
  { unfold days_upto. apply filter_filter_impl. intros x Hx. lia. }
  rewrite E3 in E2. exists (days_after (W - 1) (days_upto col ds)).
  split; [rewrite app_assoc, <- E2; exact E1|]. split; [exact E2|].
  intros x Hx. unfold days_after, days_upto in Hx. apply filter_In in Hx. destruct Hx as [Hx H1].
  apply filter_In in Hx. destruct Hx as [_ H2]. lia.
Qed.

(* sums over the dated postings of days, selected by a predicate on the date *)
Lemma dated_sum_sel (P : Z -> bool) (b : bool) (f : Z * posting -> Q) : forall ds,
  days_dated ds -> (forall x, In x ds -> P (d_date x) = b) ->
  lsum (fun dp => if P (fst dp) then f dp else 0) (dposts ds) == if b then lsum f (dposts ds) else 0.
Proof.
  induction ds as [|d ds IH]; intros Hd HP.
  - destruct b; reflexivity.
  - inversion Hd as [|? ? Hx Hrest]; subst.
    specialize (IH Hrest (fun x Hin => HP x (or_intror Hin))).
    unfold LedgerProofs.days_postings in *. cbn [map concat].
    destruct b; rewrite !LedgerProofs.qsum_app, IH.
    + apply Qplus_comp; [|reflexivity].
      apply LedgerProofs.qsum_ext. intros dp Hin. rewrite (day_postings_date d dp Hx Hin), (HP d (or_introl eq_refl)). reflexivity.
    + rewrite Qplus_0_r.
      apply LedgerProofs.qsum_zero. intros dp Hin. rewrite (day_postings_date d dp Hx Hin), (HP d (or_introl eq_refl)). reflexivity.
Qed.

(* ------------------------------------------------------------ Part C: the two stages over a split list *)

Lemma prefix_prices V ds s dsP PU PR :
  process_days (compute_prices_proc V) (mkCp [] None) ds = ROk (s, dsP) -> dsP = PU ++ PR ->
  last_normalized None PU = prices_after V ds (length PU).
Proof.
  intros H E. destruct PU as [|x PU'] eqn:EP; [reflexivity|]. rewrite <- EP in *.
  assert (Hne : PU <> []) by (rewrite EP; discriminate).
  destruct (last_normalized_nth PU None Hne) as (d & Hd & Hl).
  destruct (compute_prices_days V _ _ _ H) as [_ Hn].
  assert (Hlen : length PU = S (pred (length PU))) by (rewrite EP; reflexivity).
  rewrite Hl, Hlen. cbn [prices_after]. apply Hn. rewrite E, nth_error_app1; [exact Hd|]. lia.
Qed.

Lemma dates_transfer (Q : Z -> Prop) (l1 l2 : list day) :
  dates l1 = dates l2 -> (forall y, In y l2 -> Q (d_date y)) -> forall x, In x l1 -> Q (d_date x).
Proof.
  intros E H x Hx. assert (Hd : In (d_date x) (dates l1)) by (apply in_map; exact Hx).
  rewrite E in Hd. apply in_map_iff in Hd. destruct Hd as (y & <- & Hy). apply H. exact Hy.
Qed.

Lemma vposts_of_dposts l1 l2 : dposts l1 = dposts l2 -> vposts l1 = vposts l2.
Proof. intros E. rewrite <- !snd_dposts, E. reflexivity. Qed.

Lemma in_ok_app l1 l2 : Forall posting_in_ok (vposts (l1 ++ l2)) <-> Forall posting_in_ok (vposts l1) /\ Forall posting_in_ok (vposts l2).
Proof. rewrite vposts_app. apply Forall_app. Qed.

(* ------------------------------------------------------------ Part D: the window on the days *)

(* number of contributing Multiply calls, read off the days: bookings of the cell dated in
   (T1, T2] plus one revaluation per day dated in (T1, T2] *)
Definition day_steps (a : account) (c : commodity) (ds : list day) (T1 T2 : Z) : Z :=
  (cell_count a c (vposts (days_upto T2 ds)) - cell_count a c (vposts (days_upto T1 ds))
   + (Z.of_nat (length (days_upto T2 ds)) - Z.of_nat (length (days_upto T1 ds))))%Z.

Theorem window_stage V a c days0 W col sP dsP sV dsV :
  account_ok a = true -> is_AL a = true -> c <> V ->
  StronglySorted Z.lt (dates days0) -> days_dated days0 -> Forall posting_in_ok (vposts days0) ->
  (W - 1 <= col)%Z ->
  process_days (compute_prices_proc V) (mkCp [] None) days0 = ROk (sP, dsP) ->
  process_days (valuate_proc V) val_init dsP = ROk (sV, dsV) ->
  Qabs (lsum (fun dp => if in_window W col (fst dp) then cval a c dp else 0) (dposts dsV)
        - (qty_on_days a c days0 col * price_on_days V c days0 col
           - qty_on_days a c days0 (W - 1) * price_on_days V c days0 (W - 1)))
    <= inject_Z (day_steps a c days0 (W - 1) col) * eps8.
Proof.
  intros Ha HAL Hcv Hsorted Hdated Hin Hle HP HV.
  destruct (sorted_split3 W col days0 Hsorted Hle) as (B & Esplit & EU & HB).
  set (A := days_upto (W - 1) days0) in *. set (C := days_after col days0) in *.
  assert (HA : forall x, In x A -> (d_date x <= W - 1)%Z).
  { intros x Hx. unfold A, days_upto in Hx. apply filter_In in Hx. lia. }
  assert (HC : forall x, In x C -> (col < d_date x)%Z).
  { intros x Hx. unfold C, days_after in Hx. apply filter_In in Hx. lia. }
  (* split the inputs *)
  rewrite Esplit in Hdated, Hin.
  apply days_dated_app in Hdated. destruct Hdated as [HdA Hdated]. apply days_dated_app in Hdated. destruct Hdated as [HdB HdC].
  apply in_ok_app in Hin. destruct Hin as [HinA Hin]. apply in_ok_app in Hin. destruct Hin as [HinB HinC].
  (* split the runs *)
  pose proof HP as HP0. rewrite Esplit in HP.
  destruct (process_days_app _ _ _ _ _ _ HP) as (pa & PA & P2 & EPA & EP2 & EdsP).
  destruct (process_days_app _ _ _ _ _ _ EP2) as (pb & PB & PC & EPB & EPC & ->).
  rewrite EdsP in HV, HP0.
  destruct (process_days_app _ _ _ _ _ _ HV) as (va & VA & V2 & EVA & EV2 & ->).
  destruct (process_days_app _ _ _ _ _ _ EV2) as (vb & VB & VC & EVB & EVC & ->).
  destruct (cp_days_shape _ _ _ _ _ EPA) as (DA & SA & TA).
  destruct (cp_days_shape _ _ _ _ _ EPB) as (DB & SB & TB).
  destruct (cp_days_shape _ _ _ _ _ EPC) as (DC & SC & TC).
  destruct (val_days_dated _ _ _ _ _ EVA (TA HdA)) as [HdVA DVA].
  destruct (val_days_dated _ _ _ _ _ EVB (TB HdB)) as [HdVB DVB].
  destruct (val_days_dated _ _ _ _ _ EVC (TC HdC)) as [HdVC DVC].
  (* the window sum sees exactly the middle part *)
  assert (Hsum : lsum (fun dp => if in_window W col (fst dp) then cval a c dp else 0) (dposts (VA ++ VB ++ VC))
                 == lsum (cval a c) (dposts VB)).
  { rewrite !dposts_app, !LedgerProofs.qsum_app.
    rewrite (dated_sum_sel (in_window W col) false _ VA HdVA).
    2: { apply (dates_transfer (fun d => in_window W col d = false) VA A); [congruence|].
         intros y Hy. specialize (HA _ Hy). unfold in_window. lia. }
    rewrite (dated_sum_sel (in_window W col) true _ VB HdVB).
    2: { apply (dates_transfer (fun d => in_window W col d = true) VB B); [congruence|].
         intros y Hy. specialize (HB _ Hy). unfold in_window. lia. }
    rewrite (dated_sum_sel (in_window W col) false _ VC HdVC).
    2: { apply (dates_transfer (fun d => in_window W col d = false) VC C); [congruence|].
         intros y Hy. specialize (HC _ Hy). unfold in_window. lia. }
    ring. }
  rewrite Hsum, <- cell_value_dposts. clear Hsum.
  (* the stage theorem in delta form on the two first parts *)
  assert (HinPA : Forall posting_in_ok (vposts PA)) by (rewrite (vposts_of_dposts _ _ SA); exact HinA).
  assert (HinPB : Forall posting_in_ok (vposts PB)) by (rewrite (vposts_of_dposts _ _ SB); exact HinB).
  destruct (mtm_delta V a c PA val_init va VA Ha HAL Hcv HinPA (good_nil a c PT) EVA) as (A1 & A2 & A5 & _).
  destruct (mtm_delta V a c PB va vb VB Ha HAL Hcv HinPB A2 EVB) as (B1 & B2 & B5 & B6).
  cbn [val_init v_prev v_qty] in A1, A5. rewrite posq_nil, Qplus_0_l in A5.
  (* prices *)
  assert (LA : length PA = length A) by (eapply process_days_length; exact EPA).
  assert (LB : length PB = length B) by (eapply process_days_length; exact EPB).
  assert (PrA : v_prev va = prices_after V days0 (length A)).
  { rewrite A1, <- LA. apply (prefix_prices V days0 sP (PA ++ PB ++ PC) PA (PB ++ PC) HP0 eq_refl). }
  assert (PrB : v_prev vb = prices_after V days0 (length (days_upto col days0))).
  { rewrite B1, A1, EU, app_length, <- LA, <- LB, <- app_length.
    assert (E : last_normalized (last_normalized None PA) PB = last_normalized None (PA ++ PB))
      by (unfold last_normalized; rewrite fold_left_app; reflexivity).
    rewrite E. apply (prefix_prices V days0 sP (PA ++ PB ++ PC) (PA ++ PB) PC HP0). rewrite app_assoc. reflexivity. }
  (* quantities *)
  assert (QA : posq a c (v_qty va) == qty_on_days a c days0 (W - 1)).
  { rewrite A5. unfold qty_on_days. fold A. rewrite (vposts_of_dposts _ _ SA). reflexivity. }
  assert (QB : posq a c (v_qty vb) == qty_on_days a c days0 col).
  { rewrite B5, QA. unfold qty_on_days. fold A. rewrite EU, vposts_app, cell_qty_app, (vposts_of_dposts _ _ SB). reflexivity. }
  (* the number of steps *)
  assert (Hn : (cell_count a c (vposts VB) <= day_steps a c days0 (W - 1) col)%Z).
  { assert (Hea : entries_ok (v_qty va)).
    { apply (days_entries_ok V PA val_init va VA HinPA); [split; [constructor|intros x []]|exact EVA]. }
    pose proof (days_count V a c Ha HAL PB va vb VB HinPB Hea EVB) as Hc.
    unfold day_steps. fold A. rewrite EU, vposts_app, cell_count_app, app_length, Nat2Z.inj_add.
    rewrite (vposts_of_dposts _ _ SB), LB in Hc. lia. }
  eapply Qle_trans; [|apply Qmult_le_compat_r; [rewrite <- Zle_Qle; exact Hn|exact eps8_nonneg]].
  eapply Qle_trans; [|exact B6]. apply Qle_lteq. right. apply Qabs_wd.
  unfold price_on_days. fold A. rewrite <- PrA, <- PrB, <- QA, <- QB. reflexivity.
Qed.

(* ------------------------------------------------------------ Part E: the cumulated cells of the report *)

Lemma tiles_last_end : forall ps s e, tiles s e ps -> In e (map p_end ps).
Proof.
  induction ps as [|p ps IH]; intros s e H; [destruct H|]. cbn [tiles] in H. destruct H as (_ & _ & Hrest).
  destruct ps as [|p2 ps]; [left; exact Hrest|right; exact (IH _ _ Hrest)].
Qed.

Lemma lsum_scale_r {A} (f : A -> Q) (k : Q) l : lsum (fun x => f x * k) l == lsum f l * k.
Proof. unfold LedgerProofs.qsum. induction l as [|x l IH]; cbn [fold_right]; [ring|]. rewrite IH. ring. Qed.

(* the cells of account a under commodity c, cumulated over the columns up to col, hold the values
   posted inside [window start, col] *)
Theorem cum_cell_window cfg ds r part V :
  bc_valuation cfg = Some V ->
  balance_report cfg ds = COk (r, part) ->
  exists dl dsP dsV,
    parse_directives ds = MOk dl /\
    new_partition (clip (mkPeriod (bc_from cfg) (bc_to cfg)) (journal_period dl)) (bc_interval cfg) (bc_last cfg) = POk part /\
    valued_run cfg V dl part dsP dsV /\
    (postings_syntactic dl ->
     forall a c col, account_ok a = true -> is_AL a = true -> shows_account cfg a -> cfg_where cfg a c = true ->
       (p_start (span part) <= p_end (span part))%Z -> In col (end_dates part) ->
       cum_cell a c part col r ==
       lsum (fun dp => if in_window (p_start (span part)) col (fst dp) then cval a c dp else 0) (dposts dsV)).
Proof.
  intros Hv H. destruct (valued_report_cells cfg ds r part V Hv H) as (dl & dsP & dsV & Ep & Epart & Hrun & Hcells).
  exists dl, dsP, dsV. split; [exact Ep|]. split; [exact Epart|]. split; [exact Hrun|].
  intros Hsyn a c col Ha HAL Hsh Hw Hspan Hcol.
  destruct (partition_facts _ _ _ _ Epart) as [_ Htiles]. destruct (Htiles Hspan) as [Ht Hfs].
  pose proof (tiles_ends_sorted _ _ _ Ht) as Hsorted.
  destruct (tiles_end_ge _ _ _ Ht) as [Hends _].
  pose proof (tiles_last_end _ _ _ Ht) as HE.
  unfold cum_cell, end_dates.
  transitivity (lsum (fun e => lsum (fun dp => (if in_span (span part) (fst dp) then cval a c dp else 0)
                                               * (if (e <=? col)%Z && in_col (periods part) e (fst dp) then 1 else 0)) (dposts dsV))
                     (map p_end (periods part))).
  { apply LedgerProofs.qsum_ext. intros e _. destruct (e <=? col)%Z eqn:E.
    - rewrite (Hcells Hsyn a c e Ha HAL Hsh Hw). apply LedgerProofs.qsum_ext. intros dp _.
      destruct (in_span (span part) (fst dp)), (in_col (periods part) e (fst dp)); cbn [andb]; ring.
    - symmetry. apply LedgerProofs.qsum_zero. intros dp _. cbn [andb]. ring. }
  rewrite qsum_swap. apply LedgerProofs.qsum_ext. intros [d p] _. cbn [fst].
  rewrite qsum_scale.
  unfold in_span, in_window. destruct (p_start (span part) <=? d)%Z eqn:E1; cbn [andb]; [|ring].
  assert (Hcole : (col <= p_end (span part))%Z).
  { rewrite Forall_forall in Hends. apply in_map_iff in Hcol. destruct Hcol as (q & <- & Hq). exact (Hends _ Hq). }
  destruct (d <=? p_end (span part))%Z eqn:E2.
  - rewrite (cum_indicator (periods part) col d (p_end (span part)) Hsorted Hcol Hends HE) by lia.
    destruct (d <=? col)%Z; ring.
  - replace (d <=? col)%Z with false by lia. ring.
Qed.

(* the window on the report, with quantities and prices of the builder's days *)
Theorem windowed_report_days cfg ds r part V :
  bc_valuation cfg = Some V ->
  balance_report cfg ds = COk (r, part) ->
  exists dl,
    parse_directives ds = MOk dl /\
    new_partition (clip (mkPeriod (bc_from cfg) (bc_to cfg)) (journal_period dl)) (bc_interval cfg) (bc_last cfg) = POk part /\
    (postings_syntactic dl ->
     forall a c col, account_ok a = true -> is_AL a = true -> shows_account cfg a -> cfg_where cfg a c = true -> c <> V ->
       (p_start (span part) <= p_end (span part))%Z -> In col (end_dates part) ->
       let days := built_days (bc_close cfg) dl part in
       let W := p_start (span part) in
       Qabs (cum_cell a c part col r
             - (qty_on_days a c days col * price_on_days V c days col
                - qty_on_days a c days (W - 1) * price_on_days V c days (W - 1)))
         <= inject_Z (day_steps a c days (W - 1) col) * eps8).
Proof.
  intros Hv H. destruct (cum_cell_window cfg ds r part V Hv H) as (dl & dsP & dsV & Ep & Epart & (sP & sV & EP & EV) & Hcum).
  exists dl. split; [exact Ep|]. split; [exact Epart|].
  intros Hsyn a c col Ha HAL Hsh Hw Hcv Hspan Hcol days W.
  rewrite (Hcum Hsyn a c col Ha HAL Hsh Hw Hspan Hcol).
  assert (Hle : (W - 1 <= col)%Z).
  { destruct (partition_facts _ _ _ _ Epart) as [_ Htiles]. destruct (Htiles Hspan) as [Ht Hfs].
    destruct (tiles_facts _ _ _ Ht) as [_ Hb]. rewrite Forall_forall in Hb.
    apply in_map_iff in Hcol. destruct Hcol as (q & <- & Hq). specialize (Hb _ Hq). unfold W. lia. }
  apply (window_stage V a c days W col sP dsP sV dsV Ha HAL Hcv
           (built_days_sorted _ _ _) (built_days_dated _ _ _) (built_days_in_ok' _ ds dl part Ep Hsyn) Hle EP EV).
Qed.
