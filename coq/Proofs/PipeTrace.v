(* Proofs about Model/Pipe.v, part 4: the event traces.  [trace_ok] decides [tr_spec]; every run
   of the transition system emits a trace satisfying it (completeness); what [tr_spec] implies
   (order per stage, alternation, hand-over precedence, projection onto a stage).            *)
From Coq Require Import List Bool Arith PeanoNat Lia.
From Knut Require Import Model.Pipe Spec.PipeSpec Proofs.PipeInv Proofs.PipeProofs.
Import ListNotations.

Definition ev_match (i : nat) (p : evphase) (e : event) : bool :=
  (ev_stage e =? i) && evphase_eqb (ev_ph e) p.

Lemma count_ev_cons : forall i p e l,
  count_ev i p (e :: l) = (if ev_match i p e then 1 else 0) + count_ev i p l.
Proof. intros. unfold count_ev, ev_match. simpl. destruct ((ev_stage e =? i) && evphase_eqb (ev_ph e) p); reflexivity. Qed.

Lemma count_ev_app : forall i p l1 l2, count_ev i p (l1 ++ l2) = count_ev i p l1 + count_ev i p l2.
Proof. intros. unfold count_ev. rewrite filter_app, app_length. reflexivity. Qed.

Lemma count_ev_rev : forall i p l, count_ev i p (rev l) = count_ev i p l.
Proof.
  induction l as [|e l IH]; [reflexivity|]. simpl. rewrite count_ev_app, IH.
  rewrite (count_ev_cons i p e l). rewrite (count_ev_cons i p e []). unfold count_ev at 2. simpl. lia.
Qed.

Lemma evphase_eqb_eq : forall a b, evphase_eqb a b = true <-> a = b.
Proof. destruct a, b; simpl; split; intro; try reflexivity; discriminate. Qed.

Lemma ev_ok_b_spec : forall n pre e, ev_ok_b n pre e = true <-> ev_ok n pre e.
Proof.
  intros n pre e. unfold ev_ok_b, ev_ok. destruct (ev_ph e).
  - rewrite !andb_true_iff, orb_true_iff, Nat.leb_le, Nat.leb_le, !Nat.eqb_eq, Nat.ltb_lt, forallb_forall.
    assert (F : (forall x, In x (seq 1 (n - ev_stage e)) ->
                   (ev_item e <=? count_ev (ev_stage e + x) EvEnd pre + x) = true) <->
                (forall j, 1 <= j -> ev_stage e + j <= n ->
                   ev_item e <= count_ev (ev_stage e + j) EvEnd pre + j)).
    { split.
      - intros H j H1 H2. apply Nat.leb_le. apply H. apply in_seq. lia.
      - intros H x Hx. apply in_seq in Hx. apply Nat.leb_le. apply H; lia. }
    rewrite F. tauto.
  - rewrite !andb_true_iff, Nat.leb_le, Nat.leb_le, !Nat.eqb_eq. tauto.
Qed.

Lemma ev_ok_rev : forall n pre e, ev_ok n (rev pre) e <-> ev_ok n pre e.
Proof.
  intros. unfold ev_ok. rewrite !count_ev_rev.
  assert (F : (forall j, 1 <= j -> ev_stage e + j <= n ->
                 ev_item e <= count_ev (ev_stage e + j) EvEnd (rev pre) + j) <->
              (forall j, 1 <= j -> ev_stage e + j <= n ->
                 ev_item e <= count_ev (ev_stage e + j) EvEnd pre + j)).
  { split; intros H j H1 H2; specialize (H j H1 H2); rewrite count_ev_rev in *; assumption. }
  destruct (ev_ph e); [rewrite F|]; tauto.
Qed.

Lemma trace_ok_aux_spec : forall n tr pre,
  trace_ok_aux n (rev pre) tr = true <->
  (forall p e q, tr = p ++ e :: q -> ev_ok n (pre ++ p) e).
Proof.
  intros n. induction tr as [|a tr IH]; intros pre; simpl.
  - split; [|reflexivity]. intros _ p e q H. destruct p; discriminate.
  - rewrite andb_true_iff, ev_ok_b_spec, ev_ok_rev.
    replace (a :: rev pre) with (rev (pre ++ [a])) by (rewrite rev_app_distr; reflexivity).
    rewrite IH. split.
    + intros [H0 H1] p e q E. destruct p as [|b p].
      * simpl in E. injection E as <- <-. rewrite app_nil_r. assumption.
      * simpl in E. injection E as <- E. specialize (H1 p e q E).
        rewrite <- app_assoc in H1. exact H1.
    + intros H. split.
      * specialize (H [] a tr eq_refl). rewrite app_nil_r in H. assumption.
      * intros p e q E. specialize (H (a :: p) e q). rewrite <- app_assoc. apply H. simpl. rewrite E. reflexivity.
Qed.

(* the checker decides the specification *)
Lemma trace_ok_iff : forall n tr, trace_ok n tr = true <-> tr_spec n tr.
Proof. intros. unfold trace_ok, tr_spec. apply (trace_ok_aux_spec n tr []). Qed.

Lemma tr_spec_snoc : forall n tr e, tr_spec n tr -> ev_ok n tr e -> tr_spec n (tr ++ [e]).
Proof.
  intros n tr e HS HE pre e' post E.
  destruct post as [|x post'] using rev_ind.
  - apply app_inj_tail in E. destruct E as [-> ->]. assumption.
  - clear IHpost'. rewrite app_comm_cons, app_assoc in E. apply app_inj_tail in E. destruct E as [E _].
    apply (HS pre e' post'). assumption.
Qed.

Lemma tr_spec_snoc_inv : forall n tr e, tr_spec n (tr ++ [e]) -> tr_spec n tr /\ ev_ok n tr e.
Proof.
  intros n tr e HS. split.
  - intros pre e' post E. apply (HS pre e' (post ++ [e])). rewrite E. rewrite <- app_assoc. reflexivity.
  - apply (HS tr e []). reflexivity.
Qed.

Lemma tr_spec_nil : forall n, tr_spec n [].
Proof. intros n pre e post E. destruct pre; discriminate. Qed.

(* ------------------------------------------------------------------ what the spec implies *)
Lemma begins_of_length : forall i tr, length (begins_of i tr) = count_ev i EvBegin tr.
Proof. intros. unfold begins_of, count_ev. apply map_length. Qed.
Lemma ends_of_length : forall i tr, length (ends_of i tr) = count_ev i EvEnd tr.
Proof. intros. unfold ends_of, count_ev. apply map_length. Qed.

Lemma begins_of_snoc : forall i tr e,
  begins_of i (tr ++ [e]) = begins_of i tr ++ (if ev_match i EvBegin e then [ev_item e] else []).
Proof.
  intros. unfold begins_of, ev_match. rewrite filter_app, map_app. simpl.
  destruct ((ev_stage e =? i) && evphase_eqb (ev_ph e) EvBegin); reflexivity.
Qed.
Lemma ends_of_snoc : forall i tr e,
  ends_of i (tr ++ [e]) = ends_of i tr ++ (if ev_match i EvEnd e then [ev_item e] else []).
Proof.
  intros. unfold ends_of, ev_match. rewrite filter_app, map_app. simpl.
  destruct ((ev_stage e =? i) && evphase_eqb (ev_ph e) EvEnd); reflexivity.
Qed.

(* each stage begins (and ends) the items in source order 0,1,2,...; in particular none twice *)
Lemma tr_spec_in_order : forall n tr, tr_spec n tr -> forall i,
  begins_of i tr = seq 0 (count_ev i EvBegin tr) /\ ends_of i tr = seq 0 (count_ev i EvEnd tr).
Proof.
  intros n tr. induction tr as [|e tr IH] using rev_ind; intros HS i.
  - split; reflexivity.
  - apply tr_spec_snoc_inv in HS. destruct HS as [HS HE]. destruct (IH HS i) as [IB IE].
    rewrite begins_of_snoc, ends_of_snoc, !count_ev_app.
    rewrite (count_ev_cons i EvBegin e []), (count_ev_cons i EvEnd e []).
    unfold count_ev at 2 4. simpl. unfold ev_ok in HE. unfold ev_match.
    destruct (ev_stage e =? i) eqn:Ei; simpl.
    + apply Nat.eqb_eq in Ei. rewrite Ei in HE. destruct (ev_ph e); simpl.
      * destruct HE as (_ & K & _). rewrite K, IB, !Nat.add_0_r.
        replace (count_ev i EvBegin tr + 1) with (S (count_ev i EvBegin tr)) by lia.
        rewrite seq_S, app_nil_r. simpl. auto.
      * destruct HE as (_ & _ & K). rewrite K, IE, !Nat.add_0_r.
        replace (count_ev i EvEnd tr + 1) with (S (count_ev i EvEnd tr)) by lia.
        rewrite seq_S, app_nil_r. simpl. auto.
    + rewrite !app_nil_r, !Nat.add_0_r. auto.
Qed.

Lemma in_ends_of : forall i k tr, In k (ends_of i tr) -> In (mkEv i EvEnd k) tr.
Proof.
  intros i k tr H. unfold ends_of in H. apply in_map_iff in H. destruct H as (e & E & H).
  apply filter_In in H. destruct H as [H1 H2]. apply andb_true_iff in H2. destruct H2 as [A B].
  apply Nat.eqb_eq in A. apply evphase_eqb_eq in B. destruct e as [s p it]. simpl in *. subst. assumption.
Qed.
Lemma in_begins_of : forall i k tr, In k (begins_of i tr) -> In (mkEv i EvBegin k) tr.
Proof.
  intros i k tr H. unfold begins_of in H. apply in_map_iff in H. destruct H as (e & E & H).
  apply filter_In in H. destruct H as [H1 H2]. apply andb_true_iff in H2. destruct H2 as [A B].
  apply Nat.eqb_eq in A. apply evphase_eqb_eq in B. destruct e as [s p it]. simpl in *. subst. assumption.
Qed.

Lemma tr_spec_prefix : forall n pre post, tr_spec n (pre ++ post) -> tr_spec n pre.
Proof.
  intros n pre post HS p e q E. apply (HS p e (q ++ post)). rewrite E, <- app_assoc. reflexivity.
Qed.

(* hand-over: stage i >= 2 begins item k only after stage i-1 has ended item k;
   and a stage ends item k only after it began item k *)
Lemma tr_spec_handover : forall n tr, tr_spec n tr -> forall pre i k post,
  tr = pre ++ mkEv i EvBegin k :: post -> 2 <= i -> In (mkEv (pred i) EvEnd k) pre.
Proof.
  intros n tr HS pre i k post E Hi. pose proof (HS pre _ post E) as HE. unfold ev_ok in HE. simpl in HE.
  destruct HE as (_ & _ & _ & [H|H] & _); [lia|].
  rewrite E in HS. apply tr_spec_prefix in HS.
  destruct (tr_spec_in_order n pre HS (pred i)) as [_ IE].
  apply in_ends_of. rewrite IE. apply in_seq. lia.
Qed.

Lemma tr_spec_end_after_begin : forall n tr, tr_spec n tr -> forall pre i k post,
  tr = pre ++ mkEv i EvEnd k :: post -> In (mkEv i EvBegin k) pre.
Proof.
  intros n tr HS pre i k post E. pose proof (HS pre _ post E) as HE. unfold ev_ok in HE. simpl in HE.
  destruct HE as (_ & B & K).
  rewrite E in HS. apply tr_spec_prefix in HS.
  destruct (tr_spec_in_order n pre HS i) as [IB _].
  apply in_begins_of. rewrite IB. apply in_seq. lia.
Qed.

(* projection onto one stage: begin/end pairs of items 0,1,2,.. possibly followed by an open begin *)
Lemma stage_events_S : forall i c,
  stage_events i (S c) = stage_events i c ++ [mkEv i EvBegin c; mkEv i EvEnd c].
Proof.
  intros. unfold stage_events. rewrite seq_S, flat_map_app. simpl. reflexivity.
Qed.

Lemma count_ev_snoc : forall i p tr e,
  count_ev i p (tr ++ [e]) = count_ev i p tr + (if ev_match i p e then 1 else 0).
Proof.
  intros. rewrite count_ev_app, (count_ev_cons i p e []). change (count_ev i p []) with 0. lia.
Qed.

Lemma proj_stage_spec : forall n tr, tr_spec n tr -> forall i,
  proj_stage i tr =
  stage_events i (count_ev i EvEnd tr) ++
  (if count_ev i EvBegin tr =? count_ev i EvEnd tr then [] else [mkEv i EvBegin (count_ev i EvEnd tr)]).
Proof.
  intros n tr. induction tr as [|e tr IH] using rev_ind; intros HS i.
  - reflexivity.
  - apply tr_spec_snoc_inv in HS. destruct HS as [HS HE]. specialize (IH HS i).
    unfold proj_stage in *. rewrite filter_app, IH. rewrite !count_ev_snoc.
    unfold ev_match. unfold ev_ok in HE. cbn [filter].
    destruct (ev_stage e =? i) eqn:Ei; cbn [andb].
    + apply Nat.eqb_eq in Ei. destruct e as [s p k]. cbn [ev_stage ev_ph ev_item] in *. subst s.
      destruct p; cbn [evphase_eqb] in *.
      * destruct HE as (_ & K & B & _). rewrite B, Nat.eqb_refl, !Nat.add_0_r, app_nil_r.
        replace (count_ev i EvEnd tr + 1 =? count_ev i EvEnd tr) with false
          by (symmetry; apply Nat.eqb_neq; lia).
        rewrite K, B. reflexivity.
      * destruct HE as (_ & B & K). rewrite B, !Nat.add_0_r.
        replace (S (count_ev i EvEnd tr) =? count_ev i EvEnd tr) with false
          by (symmetry; apply Nat.eqb_neq; lia).
        replace (S (count_ev i EvEnd tr) =? count_ev i EvEnd tr + 1) with true
          by (symmetry; apply Nat.eqb_eq; lia).
        replace (count_ev i EvEnd tr + 1) with (S (count_ev i EvEnd tr)) by lia.
        rewrite stage_events_S, K, app_nil_r, <- app_assoc. reflexivity.
    + rewrite !Nat.add_0_r, app_nil_r. reflexivity.
Qed.

(* projection of the sequential program's trace onto a stage *)
Lemma proj_stage_app : forall i a b, proj_stage i (a ++ b) = proj_stage i a ++ proj_stage i b.
Proof. intros. unfold proj_stage. apply filter_app. Qed.

Lemma proj_stage_item_events : forall n i k, 1 <= i <= n ->
  proj_stage i (item_events n k) = [mkEv i EvBegin k; mkEv i EvEnd k].
Proof.
  intros n i k Hi. unfold item_events.
  assert (G : forall len s, s <= i < s + len ->
            proj_stage i (flat_map (fun j => [mkEv j EvBegin k; mkEv j EvEnd k]) (seq s len))
            = [mkEv i EvBegin k; mkEv i EvEnd k]).
  { induction len as [|len IH]; intros s Hs; [lia|]. simpl.
    destruct (Nat.eq_dec s i) as [->|Hne].
    - rewrite Nat.eqb_refl. simpl. f_equal. f_equal.
      assert (Z : forall len' s', i < s' ->
                proj_stage i (flat_map (fun j => [mkEv j EvBegin k; mkEv j EvEnd k]) (seq s' len')) = []).
      { induction len' as [|l' IH']; intros s' Hs'; [reflexivity|]. simpl.
        replace (s' =? i) with false by (symmetry; apply Nat.eqb_neq; lia). apply IH'. lia. }
      apply Z. lia.
    - replace (s =? i) with false by (symmetry; apply Nat.eqb_neq; lia). apply IH. lia. }
  apply G. lia.
Qed.

Lemma proj_stage_seq_trace : forall n m i, 1 <= i <= n ->
  proj_stage i (seq_trace n m) = stage_events i m.
Proof.
  intros n m i Hi. unfold seq_trace, stage_events.
  generalize 0 as s. induction m as [|m IH]; intros s; [reflexivity|].
  simpl. rewrite proj_stage_app, proj_stage_item_events by assumption. rewrite IH. reflexivity.
Qed.

(* ------------------------------------------------------------------ completeness *)
Section Complete.
  Variable n m : nat.
  Variable fails : nat -> nat -> bool.
  Notation step := (step n m fails).
  Notation run := (run n m fails).
  Notation Inv := (Inv n m fails).

  Record TInv (st : state) : Prop := {
    T_spec : tr_spec n (rev (trace_rev st));
    T_count : forall i, 1 <= i <= n ->
      count_ev i EvBegin (trace_rev st) = begun (nodes st i) /\
      count_ev i EvEnd (trace_rev st) = ended (nodes st i)
  }.

  Lemma tinv_init : TInv init.
  Proof. constructor; simpl; [apply tr_spec_nil | intros; split; reflexivity]. Qed.

  (* back-pressure: node i+d has passed on at least (what node i has passed on) - d items *)
  Lemma cnt_chain : forall st, Inv st -> forall d i, i + d <= S n ->
    cnt (nodes st i) <= cnt (nodes st (i + d)) + d.
  Proof.
    intros st HI. induction d as [|d IH]; intros i Hle.
    - rewrite !Nat.add_0_r. lia.
    - specialize (IH i ltac:(lia)).
      pose proof (I_chan _ _ _ _ HI (i + d) ltac:(lia)) as E.
      replace (i + S d) with (S (i + d)) by lia.
      unfold sent, recv in E. destruct (ph (nodes st (S (i + d)))); lia.
  Qed.

  Ltac tcount HT :=
    let j := fresh "j" in let Hj := fresh "Hj" in
    intros j Hj; pose proof (T_count _ HT j Hj); updc; subst;
    unfold begun, ended in *; simpl in *; rwph; simpl in *; try lia; try assumption.

  Lemma step_tinv : forall l st st', Inv st -> TInv st -> step l st = Some st' -> TInv st'.
  Proof.
    intros l st st' HI HT Hs.
    destruct l as [|i|i|i|i|i|i]; simpl in Hs;
    match type of Hs with (if ?c then _ else _) = _ => destruct c eqn:Hc; [|discriminate] end;
    bfacts.
    - (* Fetch *) injection Hs as <-. constructor; simpl; [apply (T_spec _ HT)|]. tcount HT.
    - (* Hand *)
      pose proof (I_chan _ _ _ _ HI i H) as E. unfold sent, recv in E. rewrite H2 in E.
      destruct (cancelled st); injection Hs as <-; (constructor; simpl; [apply (T_spec _ HT)|]); tcount HT.
    - (* Begin *)
      destruct (i <=? n) eqn:Hin; bfacts; injection Hs as <-.
      + pose proof (T_count _ HT i ltac:(lia)) as [CB CE].
        unfold begun, ended in CB, CE. rewrite H2 in CB, CE.
        constructor; simpl.
        * apply tr_spec_snoc; [apply (T_spec _ HT)|].
          unfold ev_ok. simpl. rewrite !count_ev_rev. split; [lia|]. split; [lia|]. split; [lia|].
          split.
          { destruct (Nat.eq_dec i 1) as [->|Hne]; [left; reflexivity|right].
            pose proof (T_count _ HT (pred i) ltac:(lia)) as [_ CE'].
            rewrite CE'.
            pose proof (I_chan _ _ _ _ HI (pred i) ltac:(lia)) as E.
            replace (S (pred i)) with i in E by lia. unfold recv in E. rewrite H2 in E.
            pose proof (sent_le_ended (nodes st (pred i))). lia. }
          { intros j Hj1 Hj2. rewrite count_ev_rev.
            pose proof (T_count _ HT (i + j) ltac:(lia)) as [_ CE'].
            rewrite CE'.
            pose proof (cnt_chain st HI j i ltac:(lia)).
            pose proof (sent_le_ended (nodes st (i + j))) as SE. unfold sent in SE. lia. }
        * intros j Hj. pose proof (T_count _ HT j Hj) as [CB' CE'].
          rewrite !count_ev_cons. unfold ev_match. cbn [ev_stage ev_ph ev_item evphase_eqb].
          updc; subst; unfold begun, ended in *; cbn [ph cnt stat] in *; rwph;
            rewrite ?andb_false_r, ?andb_true_r; cbn [andb];
            try (destruct (fails _ _)); cbn [ph cnt stat]; lia.
      + constructor; simpl; [apply (T_spec _ HT)|]. tcount HT.
    - (* End *)
      destruct (i <=? n) eqn:Hin; bfacts; injection Hs as <-.
      + pose proof (T_count _ HT i ltac:(lia)) as [CB CE].
        unfold begun, ended in CB, CE. rewrite H2 in CB, CE.
        constructor; simpl.
        * apply tr_spec_snoc; [apply (T_spec _ HT)|].
          unfold ev_ok. simpl. rewrite !count_ev_rev. split; [lia|]. split; lia.
        * intros j Hj. pose proof (T_count _ HT j Hj) as [CB' CE'].
          rewrite !count_ev_cons. unfold ev_match. cbn [ev_stage ev_ph ev_item evphase_eqb].
          updc; subst; unfold begun, ended in *; cbn [ph cnt stat] in *; rwph;
            rewrite ?andb_false_r, ?andb_true_r; cbn [andb];
            try (destruct (fails _ _)); cbn [ph cnt stat]; lia.
      + constructor; simpl; [apply (T_spec _ HT)|]. tcount HT.
    - (* Report *) injection Hs as <-. constructor; simpl; [apply (T_spec _ HT)|]. tcount HT.
    - (* CloseCh *)
      destruct ((i =? 0) || negb (cancelled st)); [destruct (i =? S n)|]; injection Hs as <-;
        (constructor; simpl; [apply (T_spec _ HT)|]); tcount HT.
    - injection Hs as <-. constructor; simpl; [apply (T_spec _ HT)|]. tcount HT.
    - injection Hs as <-. constructor; simpl; [apply (T_spec _ HT)|]. tcount HT.
  Qed.

  Lemma run_tinv : forall sched st, Inv st -> TInv st -> Inv (run sched st) /\ TInv (run sched st).
  Proof.
    induction sched as [|l rest IH]; intros st HI HT; simpl; [auto|].
    unfold Pipe.step_or_stay. destruct (step l st) as [st'|] eqn:E.
    - apply IH; [eapply step_inv; eassumption | eapply step_tinv; eassumption].
    - apply IH; assumption.
  Qed.

  Lemma reachable_tinv : forall sched, TInv (run sched init).
  Proof. intros. apply run_tinv; [apply inv_init | apply tinv_init]. Qed.

  (* completeness: the checker accepts the trace of every run *)
  Lemma trace_ok_complete_run : forall sched, trace_ok n (trace (run sched init)) = true.
  Proof. intros. apply trace_ok_iff. unfold trace. apply (T_spec _ (reachable_tinv sched)). Qed.

End Complete.
