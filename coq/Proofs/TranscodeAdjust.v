(* C16: what Valuate adds to a day, with the facts the verdict's reader of "Adjust value of C in
   account A" needs.  Valuate's position map is keyed by pos_key (account name, NUL, commodity)
   and kept strictly ascending (sm_put); when every posting of the journal has a syntactic account
   and a commodity without space (Spec/BeancountAdjLex.v), then
     - every position (k, (a, c, q)) has k = pos_key a c, account_ok a, no space in c   [pos_inv];
     - the adjustments of one day have pairwise different descriptions                   [val_adjustments_nodup]
       (s_adjust is injective on such (c, a): s_adjust_inj; the keys are pairwise different);
     - every posting handed to beancount.Transcode has a syntactic account and a commodity without
       space [day_good], hence every value adjustment among them is one for such (c, a) [adjustment_strong].
   The stage is followed day by day with the invariant on the state, as in Proofs/BeancountLexDays.v. *)
From Coq Require Import ZArith List Bool Lia Permutation Sorted.
From Knut Require Import Model.Str Model.Dec Model.Date Model.Account Model.Ledger Model.Price
     Model.Journal Model.Check Model.Pipeline Model.Cli Model.Beancount Model.CliTranscode
     Spec.WellformedSpec Spec.LedgerSpec Spec.LedgerSyntax Spec.BeancountLex Spec.BeancountAdjLex
     Proofs.StrProofs Proofs.CheckLemmas Proofs.BeancountProofs Proofs.BeancountRead Proofs.BeancountLexDays.
Import ListNotations.
Open Scope bool_scope.
Open Scope Z_scope.

(* ================================================================== postings, transactions, days *)

Definition posting_good (p : posting) : Prop := account_ok (p_acc p) = true /\ no_byte 32 (p_com p) = true.
Definition txn_good (t : txn) : Prop := Forall posting_good (t_postings t).
Definition day_good (d : day) : Prop := Forall txn_good (d_txns d).

Lemma posting_sim_good p p' : posting_sim p p' -> posting_good p -> posting_good p'.
Proof. intros (Ha & _ & Hc & _) (G1 & G2). unfold posting_good. rewrite Ha, Hc. split; assumption. Qed.

Lemma txn_sim_good t t' : txn_sim t t' -> txn_good t -> txn_good t'.
Proof.
  intros (_ & _ & _ & Hp) Hg. unfold txn_good in *.
  eapply Forall2_Forall_r; [|exact Hp|exact Hg]. intros x y Hxy Hx. eapply posting_sim_good; eauto.
Qed.

Lemma account_ok_valuation a : account_ok a = true -> account_ok (valuation_account_for a) = true.
Proof.
  unfold account_ok, valuation_account_for. intros H. apply andb_true_iff in H. destruct H as [H1 H2].
  destruct a as [|s tail]; [discriminate|]. cbn [tl valid_account forallb] in *.
  apply andb_true_iff in H1. destruct H1 as [_ H1]. apply andb_true_iff in H2. destruct H2 as [_ H2].
  rewrite H1, H2. reflexivity.
Qed.

(* the two postings of a pair *)
Lemma pair_build_shape cr db c q x : exists p1 p2, pair_build cr db c q x = [p1; p2] /\
  p_com p1 = c /\ p_com p2 = c /\ ((p_acc p1 = cr /\ p_acc p2 = db) \/ (p_acc p1 = db /\ p_acc p2 = cr)).
Proof.
  unfold pair_build. destruct (is_neg q || is_zero q && is_neg x); eexists; eexists; (split; [reflexivity|]);
    cbn [p_com p_acc]; repeat split; auto.
Qed.

Lemma pair_build_good cr db c q x : account_ok cr = true -> account_ok db = true -> no_byte 32 c = true ->
  Forall posting_good (pair_build cr db c q x).
Proof.
  intros Hcr Hdb Hc. destruct (pair_build_shape cr db c q x) as (p1 & p2 & -> & C1 & C2 & HA).
  assert (G1 : posting_good p1) by (unfold posting_good; rewrite C1; destruct HA as [(-> & _)|(-> & _)]; split; assumption).
  assert (G2 : posting_good p2) by (unfold posting_good; rewrite C2; destruct HA as [(_ & ->)|(_ & ->)]; split; assumption).
  apply Forall_cons; [exact G1|]. apply Forall_cons; [exact G2|apply Forall_nil].
Qed.

(* ================================================================== the description determines the position *)

Lemma s_adjust_inj c a c' a' :
  no_byte 32 c = true -> no_byte 32 c' = true -> account_ok a = true -> account_ok a' = true ->
  s_adjust c a = s_adjust c' a' -> c = c' /\ a = a'.
Proof.
  intros Hc Hc' Ha Ha' H. apply no_byte_iff in Hc. apply no_byte_iff in Hc'. unfold s_adjust in H.
  apply app_inv_head in H.
  change ([32;105;110;32;97;99;99;111;117;110;116;32] ++ acc_name a)
    with (32 :: ([105;110;32;97;99;99;111;117;110;116;32] ++ acc_name a)) in H.
  change ([32;105;110;32;97;99;99;111;117;110;116;32] ++ acc_name a')
    with (32 :: ([105;110;32;97;99;99;111;117;110;116;32] ++ acc_name a')) in H.
  apply split_at_sep in H; [|assumption|assumption]. destruct H as [E1 E2]. split; [exact E1|].
  apply app_inv_head in E2. apply acc_name_inj; assumption.
Qed.

(* ================================================================== the position map *)

Definition pos_inv (m : positions) : Prop :=
  keys_sorted m /\
  forall k a c q, In (k, (a, c, q)) m -> k = pos_key a c /\ account_ok a = true /\ no_byte 32 c = true.

Lemma pos_inv_nil : pos_inv [].
Proof. split; [constructor|intros k a c q []]. Qed.

Lemma pos_inv_tail x m : pos_inv (x :: m) -> pos_inv m.
Proof.
  intros [Hs Hm]. split.
  - unfold keys_sorted in *. inversion Hs; assumption.
  - intros k a c q Hin. apply (Hm k a c q). right. exact Hin.
Qed.

Lemma pos_add_inv m a c q : pos_inv m -> account_ok a = true -> no_byte 32 c = true -> pos_inv (pos_add m a c q).
Proof.
  intros [Hs Hm] Ha Hc. unfold pos_add. split; [apply sm_put_sorted; exact Hs|].
  intros k a' c' q' Hin. apply CheckLemmas.sm_put_in in Hin. destruct Hin as [E|Hin]; [|eapply Hm; eauto].
  inversion E; subst. repeat split; assumption.
Qed.

(* ================================================================== the adjustments of one day *)

(* a value adjustment for a position (a, c) with a syntactic account and a commodity without space *)
Definition adjustment_lex (dt : Z) (t : txn) : Prop :=
  exists c a gain, is_AL a = true /\ account_ok a = true /\ no_byte 32 c = true /\
    t_date t = dt /\ t_desc t = s_adjust c a /\
    Forall2 posting_sim (pair_build (valuation_account_for a) a c dec_nil gain) (t_postings t).

Lemma adjustment_lex_weak dt t : adjustment_lex dt t -> adjustment dt t.
Proof. intros (c & a & g & H1 & _ & _ & H2 & H3 & H4). exists c, a, g. repeat split; assumption. Qed.

Lemma adjustment_lex_sim dt t t' : txn_sim t t' -> adjustment_lex dt t -> adjustment_lex dt t'.
Proof.
  intros (H1 & H2 & _ & H4) (c & a & gain & Ha & Hok & Hc & Hd & Hs & Hp). exists c, a, gain.
  repeat split; try congruence. eapply Forall2_trans; [exact posting_sim_trans|exact Hp|exact H4].
Qed.

(* a value adjustment whose postings are good is one for a good position *)
Lemma adjustment_strong dt t : adjustment dt t -> txn_good t -> adjustment_lex dt t.
Proof.
  intros (c & a & gain & Ha & Hd & Hs & Hp) Hg. exists c, a, gain.
  assert (Hac : account_ok a = true /\ no_byte 32 c = true).
  { destruct (pair_build_shape (valuation_account_for a) a c dec_nil gain) as (p1 & p2 & E & C1 & C2 & HA).
    rewrite E in Hp. unfold txn_good in Hg.
    inversion Hp as [|x1 y1 l1 l1' S1 Hp1 E1 E2]. inversion Hp1 as [|x2 y2 l2 l2' S2 Hp2 E3 E4].
    rewrite <- E2, <- E4 in Hg. apply Forall_cons_iff in Hg. destruct Hg as [G1 Hg1].
    apply Forall_cons_iff in Hg1. destruct Hg1 as [G2 _].
    destruct S1 as (A1 & _ & K1 & _). destruct S2 as (A2 & _ & K2 & _).
    destruct G1 as [G1a G1c]. destruct G2 as [G2a G2c].
    rewrite K1, C1 in G1c. rewrite A1 in G1a. rewrite A2 in G2a.
    destruct HA as [(_ & HA)|(HA & _)]; [rewrite HA in G2a|rewrite HA in G1a]; split; assumption. }
  destruct Hac as [Hok Hc]. repeat split; assumption.
Qed.

(* every adjustment of the day comes from an entry of the position map *)
Lemma val_adjustments_from v date prev cur pos ts :
  val_adjustments v date prev cur pos = ROk ts ->
  Forall (fun t => exists k a c q gain, In (k, (a, c, q)) pos /\ is_AL a = true /\
            t = mkTxn date (s_adjust c a) (pair_build (valuation_account_for a) a c dec_nil gain) (Some [c])) ts.
Proof.
  revert ts. induction pos as [|[k [[a c] q]] rest IH]; intros ts H; cbn [val_adjustments] in H.
  - inversion H. constructor.
  - assert (Hw : forall ts', val_adjustments v date prev cur rest = ROk ts' ->
             Forall (fun t => exists k0 a0 c0 q0 gain, In (k0, (a0, c0, q0)) ((k, (a, c, q)) :: rest) /\ is_AL a0 = true /\
               t = mkTxn date (s_adjust c0 a0) (pair_build (valuation_account_for a0) a0 c0 dec_nil gain) (Some [c0])) ts').
    { intros ts' H'. eapply Forall_impl; [|exact (IH ts' H')].
      intros t (k0 & a0 & c0 & q0 & g & Hin & R). exists k0, a0, c0, q0, g. split; [right; exact Hin|exact R]. }
    destruct (str_eqb c v || negb (is_AL a) || is_zero q) eqn:E; [apply Hw; exact H|].
    destruct (np_price_opt prev c); try discriminate.
    destruct (np_price_opt cur c); try discriminate.
    destruct (is_zero (sub d0 d)); [apply Hw; exact H|].
    destruct (val_adjustments v date prev cur rest) as [ts'| |]; try discriminate. cbn [rbind] in H.
    inversion H. constructor; [|apply Hw; reflexivity].
    exists k, a, c, q, (multiply (sub d0 d) q). split; [left; reflexivity|]. split; [|reflexivity].
    apply orb_false_elim in E. destruct E as [E _]. apply orb_false_elim in E. destruct E as [_ E].
    apply negb_false_iff in E. exact E.
Qed.

Lemma val_adjustments_strong v date prev cur pos ts :
  val_adjustments v date prev cur pos = ROk ts -> pos_inv pos -> Forall (adjustment_lex date) ts.
Proof.
  intros H [_ Hm]. eapply Forall_impl; [|exact (val_adjustments_from _ _ _ _ _ _ H)].
  intros t (k & a & c & q & g & Hin & HAL & ->). destruct (Hm k a c q Hin) as (_ & Hok & Hc).
  exists c, a, g. cbn [t_date t_desc t_postings]. repeat split; try assumption.
  apply Forall2_refl. exact posting_sim_refl.
Qed.

Lemma val_adjustments_nodup v date prev cur pos ts :
  val_adjustments v date prev cur pos = ROk ts -> pos_inv pos -> NoDup (map t_desc ts).
Proof.
  revert ts. induction pos as [|[k [[a c] q]] rest IH]; intros ts H Hinv; cbn [val_adjustments] in H.
  - inversion H. constructor.
  - pose proof (pos_inv_tail _ _ Hinv) as Hrest.
    destruct (str_eqb c v || negb (is_AL a) || is_zero q); [apply IH; assumption|].
    destruct (np_price_opt prev c); try discriminate.
    destruct (np_price_opt cur c); try discriminate.
    destruct (is_zero (sub d0 d)); [apply IH; assumption|].
    destruct (val_adjustments v date prev cur rest) as [ts'| |] eqn:E'; try discriminate. cbn [rbind] in H.
    inversion H. cbn [map t_desc]. constructor; [|apply IH; [reflexivity|assumption]].
    intros Hin. apply in_map_iff in Hin. destruct Hin as (t' & Hd' & Ht').
    pose proof (val_adjustments_from _ _ _ _ _ _ E') as Hfrom. rewrite Forall_forall in Hfrom.
    destruct (Hfrom t' Ht') as (k' & a' & c' & q' & g' & Hin' & _ & ->). cbn [t_desc] in Hd'.
    destruct Hinv as [Hs Hm].
    destruct (Hm k a c q (or_introl eq_refl)) as (Hk & Hok & Hc).
    destruct (Hm k' a' c' q' (or_intror Hin')) as (Hk' & Hok' & Hc').
    destruct (s_adjust_inj c' a' c a Hc' Hc Hok' Hok Hd') as [-> ->].
    unfold keys_sorted in Hs. inversion Hs as [|? ? _ Hall]; subst. rewrite Forall_forall in Hall.
    specialize (Hall _ Hin'). unfold key_lt in Hall. cbn [fst] in Hall.
    exact (str_cmp_lt_irrefl _ Hall).
Qed.

(* ================================================================== one day of the Valuate stage *)

Lemma val_posting_inv v s t p s' p' : val_posting v s t p = ROk (s', p') ->
  pos_inv (v_qty s) -> posting_good p -> pos_inv (v_qty s') /\ posting_good p'.
Proof.
  intros H Hs Hp. split; [|eapply posting_sim_good; [eapply val_posting_sim; exact H|exact Hp]].
  unfold val_posting in H.
  destruct (is_zero (p_qty p)); [inversion H; subst; exact Hs|].
  assert (Hs1 : pos_inv (v_qty (if is_AL (p_acc p)
                                then mkVal (v_prev s) (v_cur s) (pos_add (v_qty s) (p_acc p) (p_com p) (p_qty p)) else s))).
  { destruct (is_AL (p_acc p)); [|exact Hs]. cbn [v_qty]. destruct Hp as [Ha Hc]. apply pos_add_inv; assumption. }
  destruct (str_eqb v (p_com p)); [inversion H; subst; exact Hs1|].
  destruct (v_cur s); try discriminate.
  destruct (np_valuate n (p_com p) (p_qty p)); try discriminate.
  inversion H; subst; exact Hs1.
Qed.

Lemma val_fold_postings_inv v t ps : forall s s' ps',
  fold_postings (val_posting v) t s ps = ROk (s', ps') -> pos_inv (v_qty s) -> Forall posting_good ps ->
  pos_inv (v_qty s') /\ Forall posting_good ps'.
Proof.
  induction ps as [|x ps IH]; intros s s' ps' H Hs Hp; cbn [fold_postings] in H.
  - inversion H; subst. split; [exact Hs|constructor].
  - inversion Hp as [|? ? Hx Hps]; subst.
    destruct (val_posting v s t x) as [[s1 x']| |] eqn:E1; try discriminate. cbn [rbind fst snd] in H.
    destruct (fold_postings (val_posting v) t s1 ps) as [[s2 r']| |] eqn:E2; try discriminate. cbn [rbind fst snd] in H.
    inversion H; subst.
    destruct (val_posting_inv _ _ _ _ _ _ E1 Hs Hx) as [Hs1 Hx'].
    destruct (IH _ _ _ E2 Hs1 Hps) as [Hs2 Hr]. split; [exact Hs2|]. constructor; assumption.
Qed.

Lemma val_fold_txns_inv v ts : forall s s' ts',
  fold_txns (valuate_proc v) s ts = ROk (s', ts') -> pos_inv (v_qty s) -> Forall txn_good ts ->
  pos_inv (v_qty s') /\ Forall txn_good ts'.
Proof.
  induction ts as [|t ts IH]; intros s s' ts' H Hs Hts; cbn [fold_txns valuate_proc pr_txn pr_posting] in H.
  - inversion H; subst. split; [exact Hs|constructor].
  - inversion Hts as [|? ? Ht Hrest]; subst. cbn [rbind] in H.
    destruct (fold_postings (val_posting v) t s (t_postings t)) as [[s2 ps']| |] eqn:E2; try discriminate.
    cbn [rbind fst snd] in H.
    destruct (fold_txns (valuate_proc v) s2 ts) as [[s3 r']| |] eqn:E3; try discriminate. cbn [rbind fst snd] in H.
    inversion H; subst.
    destruct (val_fold_postings_inv _ _ _ _ _ _ E2 Hs Ht) as [Hs2 Hp'].
    destruct (IH _ _ _ E3 Hs2 Hrest) as [Hs3 Hr]. split; [exact Hs3|]. constructor; [|exact Hr].
    unfold txn_good. cbn [t_postings]. exact Hp'.
Qed.

Lemma val_fold_txns_sim v ts s s' ts' :
  fold_txns (valuate_proc v) s ts = ROk (s', ts') -> Forall2 txn_sim ts ts'.
Proof.
  apply (fold_txns_sim (valuate_proc v)). cbn [valuate_proc pr_posting].
  intros f s0 t x s1 x' Hf H. injection Hf as <-. eapply val_posting_sim; eauto.
Qed.

(* what Valuate does to a day: the date is kept; the transactions are those of the input day followed
   by the day's adjustments [ts], rewritten posting by posting (values filled in) *)
Definition val_day_rel (d d' : day) : Prop :=
  d_date d' = d_date d /\
  exists ts, Forall2 txn_sim (d_txns d ++ ts) (d_txns d') /\
             Forall (adjustment_lex (d_date d)) ts /\ NoDup (map t_desc ts).

Lemma adjustment_lex_good dt t : adjustment_lex dt t -> txn_good t.
Proof.
  intros (c & a & gain & _ & Hok & Hc & _ & _ & Hp). unfold txn_good.
  eapply Forall2_Forall_r; [|exact Hp|apply pair_build_good; [apply account_ok_valuation; exact Hok|exact Hok|exact Hc]].
  intros x y Hxy Hx. eapply posting_sim_good; eauto.
Qed.

Lemma val_process_day_strong v s d s' d' : process_day (valuate_proc v) s d = ROk (s', d') ->
  pos_inv (v_qty s) -> day_good d -> pos_inv (v_qty s') /\ val_day_rel d d' /\ day_good d'.
Proof.
  intros H Hs Hd. unfold process_day in H.
  cbn [valuate_proc pr_day_start pr_price pr_open pr_close pr_day_end] in H. unfold val_day_start in H.
  destruct (val_adjustments v (d_date d) (v_prev s) (d_normalized d) (v_qty s)) as [adj| |] eqn:E0; try discriminate.
  cbn [rbind fst snd set_txns d_date d_prices d_opens d_txns d_asserts d_closes d_normalized] in H.
  pose proof (val_adjustments_strong _ _ _ _ _ _ E0 Hs) as Hadj.
  pose proof (val_adjustments_nodup _ _ _ _ _ _ E0 Hs) as Hnd.
  destruct (fold_txns (valuate_proc v) (mkVal (v_prev s) (d_normalized d) (v_qty s)) (d_txns d ++ adj))
    as [[s4 ts']| |] eqn:E4; try discriminate.
  cbn [rbind fst snd] in H. rewrite val_fold_asserts in H. cbn [rbind] in H.
  unfold val_day_end in H. inversion H; subst. cbn [v_qty].
  assert (Hin : Forall txn_good (d_txns d ++ adj)).
  { apply Forall_app. split; [exact Hd|]. eapply Forall_impl; [|exact Hadj]. intros t Ht. eapply adjustment_lex_good; eauto. }
  destruct (val_fold_txns_inv _ _ _ _ _ E4 Hs Hin) as [Hs4 Hts].
  split; [exact Hs4|]. split; [|exact Hts].
  unfold val_day_rel. cbn [d_date d_txns]. split; [reflexivity|]. exists adj.
  split; [eapply val_fold_txns_sim; exact E4|]. split; assumption.
Qed.

Lemma val_process_days_strong v ds : forall s s' ds', process_days (valuate_proc v) s ds = ROk (s', ds') ->
  pos_inv (v_qty s) -> Forall day_good ds -> Forall2 val_day_rel ds ds' /\ Forall day_good ds'.
Proof.
  induction ds as [|d ds IH]; intros s s' ds' H Hs Hds; cbn [process_days] in H.
  - inversion H; subst. split; constructor.
  - inversion Hds as [|? ? Hd Hrest]; subst.
    destruct (process_day (valuate_proc v) s d) as [[s1 d1]| |] eqn:E1; try discriminate. cbn [rbind fst snd] in H.
    destruct (process_days (valuate_proc v) s1 ds) as [[s2 r]| |] eqn:E2; try discriminate. cbn [rbind fst snd] in H.
    inversion H; subst. destruct (val_process_day_strong _ _ _ _ _ E1 Hs Hd) as (Hs1 & Hrel & Hd1).
    destruct (IH _ _ _ E2 Hs1 Hrest) as [R1 R2]. split; constructor; assumption.
Qed.

(* ================================================================== the days before Valuate *)

Lemma in_all_txns_intro t d days : In d days -> In t (d_txns d) -> In t (all_txns days).
Proof. intros Hd Ht. unfold all_txns. apply in_concat. exists (d_txns d). split; [apply in_map; exact Hd|exact Ht]. Qed.

Lemma in_directive_txns t ds : In t (directive_txns ds) -> In (DTxn t) ds.
Proof.
  unfold directive_txns. intros H. apply in_flat_map in H. destruct H as (d & Hd & Ht).
  destruct d as [? ? ? ?|? ?|? ?|? ?|t0]; cbn [In] in Ht; try contradiction. destruct Ht as [<-|[]]. exact Hd.
Qed.

Lemma journal_adj_lex_txn dl t : journal_adj_lex_b dl = true -> In (DTxn t) dl -> txn_good t.
Proof.
  unfold journal_adj_lex_b. rewrite forallb_forall. intros H Hin. unfold txn_good. apply Forall_forall. intros p Hp.
  assert (Hf : In (t_date t, p) (flat_postings dl)).
  { unfold flat_postings. apply in_concat. exists (map (fun p => (t_date t, p)) (t_postings t)). split.
    - apply in_map_iff. exists (DTxn t). split; [reflexivity|exact Hin].
    - apply in_map. exact Hp. }
  specialize (H _ Hf). cbn [snd] in H. unfold posting_adj_lex_b in H. apply andb_true_iff in H. exact H.
Qed.

Lemma journal_adj_lex_syntactic dl : journal_adj_lex_b dl = true -> postings_syntactic dl.
Proof.
  unfold journal_adj_lex_b, postings_syntactic. rewrite forallb_forall. intros H d p Hin.
  specialize (H _ Hin). cbn [snd] in H. unfold posting_adj_lex_b in H. apply andb_true_iff in H. tauto.
Qed.

Lemma builder_of_good dl : journal_adj_lex_b dl = true -> Forall day_good (b_days (builder_of dl)).
Proof.
  intros H. apply Forall_forall. intros d Hd. unfold day_good. apply Forall_forall. intros t Ht.
  apply (journal_adj_lex_txn dl t H). apply in_directive_txns.
  apply (Permutation_in _ (builder_of_txns dl)). eapply in_all_txns_intro; eauto.
Qed.

Lemma day_step_no_extra_good d d' : day_step no_extra d d' -> day_good d -> day_good d'.
Proof.
  intros (_ & _ & _ & extra & mid & He & Hs & Hp) Hd. unfold day_good in *.
  eapply Permutation_Forall; [exact Hp|].
  eapply Forall2_Forall_r; [|exact Hs|].
  - intros x y Hxy Hx. eapply txn_sim_good; eauto.
  - apply Forall_app. split; [exact Hd|]. eapply Forall_impl; [|exact He]. intros t [].
Qed.

Lemma days_step_no_extra_good l l' : Forall2 (day_step no_extra) l l' -> Forall day_good l -> Forall day_good l'.
Proof.
  induction 1 as [|d d' l l' Hdd _ IH]; intros Hl; [constructor|].
  inversion Hl; subst. constructor; [eapply day_step_no_extra_good; eauto|auto].
Qed.

(* ================================================================== the run of `knut transcode` *)

Theorem transcode_days_val l v sds dl days :
  parse_directives sds = MOk dl -> journal_adj_lex_b dl = true -> transcode_days l v sds = COk days ->
  exists d3, Forall2 (day_step no_extra) (b_days (builder_of dl)) d3 /\
             Forall2 val_day_rel d3 days /\ Forall day_good days.
Proof.
  intros Hp Hj H. apply transcode_days_inv in H.
  destruct H as (ds & d1 & d2 & d3 & s1 & s2 & s3 & s4 & E0 & E1 & E2 & E3 & E4).
  rewrite Hp in E0. injection E0 as <-.
  pose proof (sort_stage_step _ _ _ _ E1) as F1. pose proof (prices_stage_step _ _ _ _ _ E2) as F2.
  pose proof (check_stage_step _ _ _ _ _ E3) as F3.
  assert (F : Forall2 (day_step no_extra) (b_days (builder_of dl)) d3).
  { eapply days_step_trans; [exact F1|]. eapply days_step_trans; [exact F2|exact F3]. }
  exists d3. split; [exact F|].
  assert (G3 : Forall day_good d3) by (eapply days_step_no_extra_good; [exact F|apply builder_of_good; exact Hj]).
  exact (val_process_days_strong v d3 _ _ _ E4 pos_inv_nil G3).
Qed.

(* every transaction handed to beancount.Transcode has good postings *)
Lemma transcode_txn_good l v sds dl days t :
  parse_directives sds = MOk dl -> journal_adj_lex_b dl = true -> transcode_days l v sds = COk days ->
  In t (all_txns days) -> txn_good t.
Proof.
  intros Hp Hj H Ht. destruct (transcode_days_val l v sds dl days Hp Hj H) as (_ & _ & _ & G).
  apply in_all_txns in Ht. destruct Ht as (d & Hd & Ht). rewrite Forall_forall in G.
  specialize (G d Hd). unfold day_good in G. rewrite Forall_forall in G. exact (G t Ht).
Qed.
