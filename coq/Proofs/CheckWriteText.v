(* `knut check --write`, the text: for a journal as the parser delivers it ([input_lex], C09's
   hypothesis) that the checker accepts, the printed text is read back by the model's parser
   (C09's [reparse_print_journal], applied to the days of [write_file]) as balance assertions
   only -- the collected ones with re-read quantities, equal in value -- and the journal extended
   by what was read is accepted. *)
From Coq Require Import ZArith List Bool Lia Sorting.Sorted Permutation.
From Knut Require Import Model.Str Model.Dec Model.Date Model.Account Model.Ledger Model.Price Model.Journal
     Model.Check Model.Pipeline Model.JPrinter Model.Cli Model.ToModel Model.CheckWrite
     Spec.WellformedSpec Spec.CheckWriteSpec
     Proofs.DecNormalForm Proofs.DecEqProofs Proofs.CheckLemmas Proofs.CheckProofs Proofs.BuilderProofs
     Proofs.CheckMain Proofs.CheckPerm Proofs.OrderProofs Proofs.OrderCmd Proofs.PairAccounts
     Proofs.PrintProofs Proofs.PrintRegroup Proofs.PrintRequant Proofs.PrintNormal Proofs.PrintLex Proofs.PrintLexInput
     Proofs.PrintText
     Proofs.CheckWriteBase Proofs.CheckWriteKeys Proofs.CheckWriteComplete Proofs.CheckWriteAccepted.
Import ListNotations.
Open Scope bool_scope.
Open Scope Z_scope.

(* ------------------------------------------------------------------ re-read quantities *)

Definition rq_w (w : wassertion) : wassertion := (fst w, map rq_balance (snd w)).

Lemma asserted_rq W dt a c q' :
  asserted (map rq_w W) dt a c q' -> exists q, asserted W dt a c q /\ q' = reread q.
Proof.
  intros (bs' & Hin & Hb). apply in_map_iff in Hin. destruct Hin as [[dt0 bs] [E Hw]].
  unfold rq_w in E. cbn [fst snd] in E. inversion E. subst dt0 bs'.
  apply in_map_iff in Hb. destruct Hb as [b [Eb Hb]]. unfold rq_balance in Eb. inversion Eb. subst a c q'.
  exists (bal_qty b). split; [|reflexivity]. exists bs. split; [exact Hw|]. destruct b. exact Hb.
Qed.

Lemma reread_equal x q : dec_equal x q = true -> dec_equal x (reread q) = true.
Proof.
  intros H. apply (deqv_trans x q (reread q) H). apply deqv_sym. apply deqv_of_eqv. apply reread_eqv.
Qed.

Lemma rq_directives W :
  map rq_sdir (map sdir_of_dir (written_directives W)) = map assertion_sdirective (map rq_w W).
Proof. unfold written_directives. rewrite !map_map. apply map_ext. intros [dt bs]. reflexivity. Qed.

(* ------------------------------------------------------------------ the lexical side *)

Lemma events_upto_prefix ds dt : exists rest, events ds = events_upto ds dt ++ rest.
Proof.
  rewrite events_by_day, events_upto_by_day. unfold days_upto.
  destruct (filter_le_prefix (dates ds) dt (dates_sorted ds)) as [L2 E].
  exists (flat_map (evs_day ds) L2). rewrite E at 1. apply flat_map_app.
Qed.

Lemma paired2_lex ps :
  paired2 ps -> Forall posting_lex (odd_postings ps) ->
  forall p, In p ps -> acc_lex (p_acc p) /\ com_lex (p_com p).
Proof.
  induction 1 as [|p1 p2 rest (Hc & _ & _ & Ha & _) Hr IH]; intros HF p Hp; [destruct Hp|].
  cbn [odd_postings] in HF. inversion HF as [|x l (L1 & L2 & L3) HF']; subst.
  destruct Hp as [Hp|[Hp|Hp]].
  - subst p. rewrite Ha, Hc. split; assumption.
  - subst p. split; assumption.
  - apply IH; assumption.
Qed.

Lemma mdir_lex_date d : mdir_lex d -> PrintSem.date_printable (ddate d).
Proof. destruct d; cbn [mdir_lex ddate]; tauto. Qed.

Lemma written_lex ds W :
  syntactic ds -> Forall mdir_lex ds -> Forall directive2_ok ds -> written ds = ROk W ->
  Forall mdir_lex (written_directives W).
Proof.
  intros Hs HL HP Hw. destruct (written_lines ds W Hs Hw) as [Hdays Hsound].
  destruct (write_complete_partial ds W Hs Hw) as (_ & Hne & _ & _).
  rewrite Forall_forall in HL, HP.
  apply Forall_forall. intros d Hd. apply in_map_iff in Hd. destruct Hd as [[dt bs] [E Hin]]. subst d.
  cbn [assertion_directive fst snd mdir_lex]. split; [|split].
  - pose proof (Hdays dt bs Hin) as Hdt. apply dates_in in Hdt. apply in_map_iff in Hdt.
    destruct Hdt as [d [Ed Hd]]. rewrite <- Ed. apply mdir_lex_date. apply HL. exact Hd.
  - apply (Hne dt bs Hin).
  - apply Forall_forall. intros b Hb.
    assert (Ha : asserted W dt (bal_acc b) (bal_com b) (bal_qty b)) by (exists bs; split; [exact Hin|destruct b; exact Hb]).
    destruct (Hsound _ _ _ _ Ha) as (_ & L & _).
    destruct (live_posted _ _ _ L) as [x Hx].
    destruct (events_upto_prefix ds dt) as [rest Er].
    assert (Hev : In (EPost (bal_acc b) (bal_com b) x) (events ds)) by (rewrite Er; apply in_or_app; left; exact Hx).
    destruct (events_in ds _ Hev) as [d [Hd He]].
    destruct d as [? ? ? ?|? ?|? ?|? bs'|t]; cbn [events_of] in He.
    + destruct He.
    + destruct He as [He|[]]; discriminate.
    + destruct He as [He|[]]; discriminate.
    + apply in_map_iff in He. destruct He as [? [He _]]. discriminate.
    + apply in_map_iff in He. destruct He as [p [Ep Hp]]. inversion Ep.
      pose proof (HL _ Hd) as Lt. pose proof (HP _ Hd) as Pt. cbn [mdir_lex directive2_ok] in Lt, Pt.
      destruct Lt as (_ & _ & _ & Lp & _).
      destruct (paired2_lex _ Pt Lp p Hp) as [A C]. split; assumption.
Qed.

(* ------------------------------------------------------------------ what is read back *)

Lemma assertions_only_all l :
  (forall s, In s l -> exists dt bs, s = SAssert dt bs) -> exists W', assertions_only l = Some W'.
Proof.
  induction l as [|s l IH]; intros H; [exists []; reflexivity|].
  destruct (H s (or_introl eq_refl)) as (dt & bs & E). subst s.
  destruct (IH (fun x Hx => H x (or_intror Hx))) as [W' E]. cbn [assertions_only]. rewrite E. eexists. reflexivity.
Qed.

Theorem check_write_text_accepted sds :
  input_lex sds -> check_cmd_fixed sds = COk tt ->
  exists W text ss W', check_write_assertions sds = COk W /\ check_write_cmd sds = COk text /\
    ToModelM.reparse text = MOk ss /\ assertions_only ss = Some W' /\
    Permutation ss (map assertion_sdirective (map rq_w W)) /\
    check_cmd_fixed (sds ++ ss) = COk tt.
Proof.
  intros HL Hok. destruct (input_lex_ok sds HL) as [Hs HLd].
  destruct (check_write_succeeds sds Hok) as [W [HW Hcmd]].
  destruct (check_write_assertions_written sds W HW) as [ds [P Hw]].
  destruct (accepted_model sds ds Hs P Hok) as (Hsyn & Wf & Hm).
  pose proof (written_lex ds W Hsyn (HLd ds P) (parse_directives_ok sds ds P) Hw) as Hlex.
  set (D := b_days (builder_of (written_directives W))).
  pose proof (printed_model_dirs_perm (written_directives W)) as Pp. fold D in Pp.
  assert (Hre : ToModelM.reparse (write_file W) = MOk (reparsed_dirs D)).
  { apply reparse_print_journal. eapply Permutation_Forall; [apply Permutation_sym; exact Pp|exact Hlex]. }
  assert (Pss : Permutation (reparsed_dirs D) (map assertion_sdirective (map rq_w W))).
  { rewrite <- rq_directives. unfold reparsed_dirs, printed_dirs. apply Permutation_map, Permutation_map. exact Pp. }
  exists W, (write_file W), (reparsed_dirs D).
  destruct (assertions_only_all (reparsed_dirs D)) as [W' HW'].
  { intros s Hs'. apply (Permutation_in _ Pss) in Hs'. apply in_map_iff in Hs'. destruct Hs' as [[dt bs] [E _]].
    exists dt, bs. symmetry. exact E. }
  exists W'. split; [exact HW|]. split; [exact Hcmd|]. split; [exact Hre|]. split; [exact HW'|]. split; [exact Pss|].
  (* the collected assertions with re-read quantities are accepted *)
  destruct (written_lines ds W Hsyn Hw) as [Hdays Hsound].
  destruct (assertions_accepted ds (map rq_w W) Hsyn Wf) as [Hsyn2 Hacc].
  { intros dt bs Hin. apply in_map_iff in Hin. destruct Hin as [[dt0 bs0] [E Hin]]. unfold rq_w in E. cbn [fst snd] in E.
    inversion E. subst dt0. apply (Hdays dt bs0 Hin). }
  { intros dt a c q' Ha. destruct (asserted_rq W dt a c q' Ha) as [q [Hq E]]. subst q'.
    destruct (Hsound dt a c q Hq) as (O & L & Q). split; [exact O|]. split; [exact L|]. apply reread_equal. exact Q. }
  pose proof (accepted_cmd sds ds (map rq_w W) Hs P Hsyn2 Hacc) as Hc.
  (* ... and so is any permutation of the extended list *)
  assert (Pw : parse_directives (map assertion_sdirective (map rq_w W)) = MOk (written_directives (map rq_w W))).
  { apply parse_written. intros dt bs b Hin Hb. apply account_ok_valid.
    apply (Hsyn2 (DAssert dt bs) (EAssert (bal_acc b) (bal_com b) (bal_qty b))).
    - apply in_or_app. right. apply in_map_iff. exists (dt, bs). split; [reflexivity|exact Hin].
    - cbn [events_of]. apply in_map_iff. exists b. split; [reflexivity|exact Hb]. }
  assert (Hs3 : sd_syntactic (sds ++ map assertion_sdirective (map rq_w W))).
  { intros ds' E. rewrite parse_directives_app, P, Pw in E. cbn [mbind] in E. inversion E. exact Hsyn2. }
  pose proof (check_cmd_fixed_perm _ (sds ++ reparsed_dirs D)
                (Permutation_app_head sds (Permutation_sym Pss)) Hs3) as Ceq.
  apply (ceq_eq_ok _ _ tt Ceq). exact Hc.
Qed.
